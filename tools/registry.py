"""Per-property configuration of the correspondence runs."""

TRUSTED_BASE = [
    'Coq 8.16.1 kernel (coqc; vm_compute used for witnesses/finite sweeps; native_compute not used)',
    'extraction with ExtrOcamlBasic + ExtrOcamlString only, OCaml 4.13.1, hand-written ocaml/driver.ml',
    'Rust harness /verif/harness (generators, canonicalisation), hooks behind --cfg parol_verif',
    'hand-written Gallina models; fidelity to the Rust is what the correspondence run tests',
]

NOT_APPLICABLE = {
    'C22': 'The property is that rustc accepts the generated text; an executable Gallina model would have to model '
           'Rust name resolution, type and borrow checking. No such model exists or can be built here, so machine-checked '
           'proof cannot apply (DESIGN.md section 6).',
}

PROPS = {
    'C31': dict(
        level='proof',
        level_text='Rocq theorems for all pairs of sequences: any (distance, script) accepted by the executable checker '
                   'lev_check is a valid alignment whose cost equals the reported distance and is minimal (C31_checker_sound, '
                   'C31_D_minimal). Tie to the code: the extracted checker is evaluated on the output of the real '
                   'Recovery::levenshtein_distance (exhaustive small pairs + random pairs).',
        level_note='Trusted: Coq kernel, extraction (ExtrOcamlBasic), OCaml driver, Rust harness and the cfg-guarded re-export '
                   'hook. The theorem is about the checker and spec; that the Rust passes the checker on all inputs is tested, not proved.',
        technique='Rocq proof (induction on scripts/sequences) + checker-style correspondence via extraction',
        streams=[dict(cmd='c31', quick=4000, thorough=200000)],
        rule='all pairs of sequences over a 2-letter (quick: length<=4) / 3-letter (thorough: length<=5) alphabet, '
             'plus random mostly-related pairs (one sequence is a 0-4 edit mutation of the other; 1 in 8 unrelated; '
             'lengths up to 40); non-trivial = both sequences non-empty and different; distinct = distinct case text',
        exhaustive=False,
        explanation='Theorem C31_checker_sound (all inputs): an answer accepted by lev_check is a valid, minimal edit '
                    'script. The run applies the extracted lev_check to the real Recovery::levenshtein_distance output.',
    ),
    'C08': dict(
        level='proof',
        level_text='Rocq theorems about a faithful model of LookaheadDFA::eval (outer loop over k tokens, sorted-array scan with '
                   'early exits, last-accepting fallback): a prediction is only made on a contiguous prefix of the buffer that is a '
                   'lookahead string of the predicted production, an error only if no prefix is (C08_eval_exact, C08_eval_error_exact, '
                   'C08_scan_is_step), for all sorted well-formed automata and all buffers. Tie to the code: extracted eval_check '
                   '(proved sound) applied to the real eval on random tries and valid/mutated/random buffers through the real TokenStream.',
        level_note='Trusted: Coq kernel, extraction, OCaml driver, Rust harness (alphabet scanner built with scnr2::scanner!). The theorems are '
                   'about the model; conformance of the Rust to the checker on all inputs is tested. Automata that are unsorted are skipped.',
        technique='Rocq proof (induction over the lookahead walk; sortedness lemma) + checker-style correspondence via extraction',
        streams=[dict(cmd='c08', quick=4000, thorough=120000)],
        rule='random trie automata (1-8 lookahead strings over <=5 terminals + EOI, 1 in 5 not prefix-free), buffers = a lookahead string / '
             'a one-edit mutation / random tokens, stream k = depth (+1..2 in 1 of 4); non-trivial = the buffer follows the automaton for >=1 '
             'token and then leaves it before depth is reached; distinct = distinct case text',
        explanation='C08_checker_sound: eval_check accepted => the answer is exact. D2 (unmatched token skipped) was repaired by a fix: commit.',
    ),
    'C12': dict(
        level='proof',
        level_text='Rocq theorems for all grammars: the model of augment_grammar preserves the language and isolates the start symbol '
                   '(C12_augment_lang, C12_augment_isolated), and any result accepted by the executable augment_check is isolated and '
                   'language-equivalent (C12_checker_sound). Tie to the code: augment_check applied to the real augment_grammar on random '
                   'BNF grammars (single-production recursive starts, multi-production starts, colliding names); fallback search with the '
                   'verified recogniser `member` when the result has an unexpected shape.',
        level_note='Trusted: Coq kernel, extraction, OCaml driver, Rust harness (Cfg <-> S-expression conversion). generate_name freshness is '
                   'checked on the real result (start of result not among input non-terminals), not assumed.',
        technique='Rocq proof (induction on derivations) + checker-style correspondence via extraction; verified CFG recogniser as fallback oracle',
        streams=[dict(cmd='c12', quick=3000, thorough=100000)],
        rule='random BNF grammars (<=5 non-terminals, <=4 terminals, some unproductive holes; 1/3 forced single-production start; 1/5 names '
             'S,S0,S1.. colliding with generated names) + D1 witnesses; non-trivial = start symbol occurs on a right-hand side or has >=2 '
             'productions; distinct = distinct case text',
        explanation='C12_checker_sound: augment_check accepted => isolated start and same language. D1 (recursive single-production start not '
                    'augmented) was repaired by a fix: commit.',
    ),
    'C11': dict(
        level='proof',
        level_text='Rocq theorems for all BNF grammars about faithful models of the four fixpoint computations and of the decision order of '
                   'check_and_transform_grammar: the computed sets are exactly nullable / unproductive / (un)reachable / left-recursive as '
                   'defined by derivations and closures, and the decision names exactly the offending non-terminals (C11_*_exact, '
                   'C11_check_decision_exact). Tie to the code: proved set-equality checkers applied to the outputs of the real functions '
                   'on a stride sample (quick) or the complete enumeration (thorough) of 53,592 tiny grammars plus random grammars.',
        level_note='Trusted: Coq kernel, extraction, OCaml driver, Rust harness. Theorems are about the models; the real functions are '
                   'compared with the proved sets on the explored grammars.',
        technique='Rocq proof (fixpoint iteration sound by induction on rounds, complete by closure) + checker-style correspondence via extraction',
        streams=[dict(cmd='c11', quick=3000, thorough=60000)],
        rule='all BNF grammars with <=2 non-terminals, <=2 terminals, 1-2 alternatives each, right-hand sides <=2 (53,592; thorough: all, '
             'quick: every 23rd) + random BNF grammars (<=6 non-terminals, nullable-heavy, holes); non-trivial = some computed set is non-empty; '
             'distinct = distinct case text',
        explanation='C11_*_check_* theorems: a claimed set accepted by the checker is exactly the defined set.',
    ),
    'C06': dict(
        level='proof',
        level_text='Rocq theorems for all grammars and k: the reference Kleene iterations compute exactly FIRST_k (per non-terminal, per '
                   'production, per sentential form) and FOLLOW_k as defined by derivations (C06_first_ref_correct, C06_follow_ref_correct; '
                   'no hypothesis on the grammar), and a claimed set accepted by the executable checkers IS the defined set '
                   '(C06_*_check_sound). Tie to the code: the real first_k / follow_k results (through shared FirstCache/FollowCache in random '
                   'request orders with repetitions) are decoded from the packed tuples and checked, by set equality, for k = 0..4.',
        level_note='Trusted: Coq kernel, extraction, OCaml driver, Rust harness (decoding of KTuples via the public iterator; epsilon marker -> '
                   'empty string). The seeded/Gauss-Seidel iteration of first.rs/follow.rs is NOT modelled step by step: the theorem is about '
                   'the reference, the implementation is compared with it. Cache-order independence is tested, not proved. FOLLOW_0 is not '
                   'requested (the implementation seeds it with [$], the definition gives [eps]; k = 0 is never used by the decision).',
        technique='Rocq proof (least fixpoint = derivation-defined sets) + proved set-equality checkers on the real outputs via extraction',
        streams=[dict(cmd='c06', quick=250, thorough=8000)],
        rule='random productive, reachable, left-recursion-free BNF grammars (<=4 non-terminals, <=3 terminals), all k in 0..maxk (maxk 1-4) '
             'for FIRST and 1..maxk for FOLLOW, in a random request order with repeated requests on shared caches; non-trivial = k >= 2 and '
             '(for FIRST) the grammar has a non-terminal on some right-hand side; distinct = distinct case text',
        explanation='C06_first_check_sound / C06_follow_check_sound: accepted claim = derivation-defined set.',
    ),
    'C05': dict(
        level='proof',
        level_text='Rocq theorems for all grammars and K: the reference decision assigns to each non-terminal the smallest k <= K at which it '
                   'is strong-LL(k) (defined from derivation-based FIRST_k/FOLLOW_k) or none if it conflicts at every k <= K '
                   '(C05_decide_ref_correct, C05_sll_check_correct), and this answer is unique (C05_decide_spec_functional), so comparing the '
                   'real per-non-terminal answers of `decidable` and the verdict of calculate_lookahead_dfas with it is exact '
                   '(C05_decide_check_sound).',
        level_note='Trusted: Coq kernel, extraction, OCaml driver, Rust harness. The packed-tuple set operations of k_decision.rs are not '
                   'modelled here (see C32); the implementation is compared with the proved reference on the explored grammars.',
        technique='Rocq proof (reference decision procedure correct and unique) + exact comparison of the real decision via extraction',
        streams=[dict(cmd='c05', quick=1500, thorough=40000)],
        rule='grammars constructed to need exactly k = 1..5 tokens with K = k-1, k, 5 and near misses; clean tiny grammars (every 37th / all); '
             'random clean BNF grammars with K in 1..4; non-trivial = some non-terminal needs k >= 1 or the grammar is rejected; distinct = '
             'distinct case text',
        explanation='C05_decide_check_sound: accepted rows satisfy decide_spec (minimal k, real conflict on rejection).',
    ),
    'C03': dict(
        level='proof',
        level_text='Rocq theorems about a faithful model of LRParser::parse_into/call_action/pop_n and a Jourdan-Pottier-Leroy style safety '
                   'validator: for every table that passes lr_validate and EVERY input, an accepted input is a sentence, the tree is a '
                   'derivation tree rooted at the start symbol covering every token, and the reductions are reported once each in the order '
                   'of a rightmost derivation in reverse (C03_lr_safe_check_sound, C03_reductions_rightmost), with no index failure '
                   '(C03_lr_no_panic). Tie to the code: the real calculate_lalr1_parse_table output is validated; the real LRParser is run '
                   'on sentences, mutants and all strings up to a length bound and compared with the model (verdict, reductions, tree) and '
                   'with the verified recogniser member (completeness per instance: a test, not a theorem).',
        level_note='Trusted: Coq kernel, extraction, OCaml driver, Rust harness (table conversion to the runtime layout, alphabet scanner, '
                   'tree-event recorder). lalry is not modelled (its output is validated). Completeness of acceptance is tested within the '
                   'length bound only. max_parsing_depth/trim are not in the model (C20).',
        technique='Rocq proof (LR stack invariant under a validated annotation) + translation validation of the generated table + differential run',
        streams=[dict(cmd='c03', quick=160, thorough=6000)],
        rule='grammars: left-recursive lists, expression grammar, ambiguous E+E, recursive single-production start, random clean BNF; for each '
             'built table: random sentences, mutated sentences and all strings up to length 3-6 over the grammar terminals; a case = one '
             'grammar with all its runs; non-trivial = at least one run of length >= 2 agreed with model and recogniser; distinct = distinct case text',
        explanation='C03_lr_safe_check_sound etc.; D1 (recursive start not isolated -> Accept in nested context / lalry panic) repaired in C12 fix.',
    ),
    'C04': dict(
        level='proof',
        level_text='(ii) Rocq theorem: soundness of acceptance for any table that passes the LR safety validator needs no conflict-freedom '
                   '(C04_resolution_stays_sound), so tables with resolved conflicts accept only sentences, for all inputs. (i) is decided per '
                   'instance only: panics during table construction are violations; when no conflict is reported the real parser must accept '
                   'exactly the language within the length bound.',
        level_note='Same trusted base as C03. No reference LALR(1) construction is verified here, so "every conflict is reported" is only '
                   'partially decided: a silently dropped conflict is caught if it loses or adds a sentence within the bound, or if the grammar '
                   'has an ambiguity witness (two different derivation trees of one word, found by an unverified search and validated by the '
                   'proved checker C04_ambig_check_sound; that an ambiguous grammar is not LALR(1) is the classical fact used, not formalised).',
        technique='Rocq proof (validator soundness independent of conflicts) + translation validation + differential run against the verified recogniser',
        streams=[dict(cmd='c03', quick=160, thorough=6000, extra=['--conflicts'])],
        rule='as C03 with more ambiguous / conflicting grammars; non-trivial = table with at least one resolved conflict or a recursive/cyclic '
             'structure, agreed on a run of length >= 2; distinct = distinct case text',
        explanation='C04_resolution_stays_sound; cyclic grammars make lalry panic (known finding D13).',
    ),
    'C15': dict(
        level='proof',
        level_text='Rocq: a verified regex development (Brzozowski derivatives, deriv_spec) and a PROVED bisimulation check between a regex and a '
                   'sliding-window specification automaton whose language is proved to be exactly "start delimiter, then up to the FIRST '
                   'occurrence of the end delimiter" / "to the end of the line including the line break" for every delimiter pair '
                   '(C15_block_spec_correct, C15_block_check_sound, C15_line_check_sound). For each delimiter pair the check decides the '
                   'property for ALL input strings at once. Tie to the code: the regex STRINGS the real generate_build_information emits are '
                   'parsed with regex-syntax (as scnr2 does) and fed to the extracted check.',
        level_note='Trusted: Coq kernel, extraction, OCaml driver, regex-syntax as the reader of the pattern text (same parser scnr2 uses), the '
                   'Rust translation HIR -> Gallina regex. That scnr2 implements the regex semantics is not shown here (see C13). Strings '
                   'range over Unicode scalar values.',
        technique='Rocq proof: regex-vs-specification-automaton bisimulation (sound for all strings) evaluated on the real generated regexes via extraction',
        streams=[dict(cmd='c15', quick=600, thorough=20000)],
        rule='delimiter pairs: a corpus of common ones, every end delimiter of length 1-3 over {a,b,c} (all equality patterns) with 3 start '
             'delimiters, and random pairs (start 1-3, end 1-3 characters over 17 punctuation/letters); non-trivial = the check decided '
             'exactness for the pair; distinct = distinct case text',
        explanation='Each OK case is a proof (by the sound check) that the generated regex is exact for that delimiter pair on all inputs; each '
                    'FAIL carries a shortest distinguishing text. Known findings D6a, D6b, D7.',
    ),
    'C10': dict(
        level='proof',
        level_text='Rocq theorems about a faithful model of left_factor (find_prefix probing, factor_out_rule, mod_factor, outer loop) with the '
                   'HashMap iteration orders as oracle parameters and generate_name as a name supply of which only freshness is assumed: for '
                   'EVERY oracle the transformation terminates (explicit fuel bound), preserves the language of every old non-terminal, '
                   'leaves no two non-empty alternatives with the same first symbol, and introduces only fresh names (C10_*). Tie to the '
                   'code: the proved post-condition checker lf_check and a bounded language comparison with the verified recogniser are '
                   'applied to the output of the real left_factor.',
        level_note='Trusted: Coq kernel, extraction, OCaml driver, Rust harness. The real function is compared through post-conditions (any '
                   'tie-break passes), not through exact equality with the model; language equality on the real output is checked for all '
                   'strings up to length 3-5 only.',
        technique='Rocq proof (measure-based termination, step-wise language preservation for every oracle) + proved post-condition checker on the real output',
        streams=[dict(cmd='c10', quick=2500, thorough=60000)],
        rule='tiny grammars (every 61st / every 3rd of 53,592), prefix-rich random grammars (stems shared by 1-3 alternatives, 1-3 non-terminals) '
             'and random BNF grammars, plus the tie witness and a name-collision grammar; non-trivial = the input has two non-empty '
             'alternatives of one non-terminal with the same first symbol; distinct = distinct case text',
        explanation='C10_check_spec: lf_check = start unchanged, prefix-free, new left-hand sides fresh. Language equality: member on all short strings.',
    ),
    'C32': dict(
        level='proof',
        level_text='Rocq theorems over a bit-level model (N with explicit 128-bit truncation, masks and shifts as in k_tuple.rs) of Terminals / '
                   'TerminalString / KTuple: for every alphabet size up to the 12-bit limit and every k <= 10, new/eps/end/of/push/extend/'
                   'k_concat/clear/get/iter/len/k_len/is_eps/is_k_complete commute with the denotation as a sequence, equality coincides with '
                   'equality of denotations (same width), the ordering is the stated length-first co-lexicographic total order, the epsilon '
                   'marker never collides with a terminal (both width boundaries), and concatenation never reaches the metadata bits '
                   '(C32_*). Tie to the code: random operation sequences through the public API on boundary and inner alphabets; after every '
                   'step the real raw 128-bit word is compared with the model (by denotation; raw equality is recorded) and every observation '
                   'with the model.',
        level_note='Trusted: Coq kernel, extraction, OCaml driver, Rust harness, the cfg-guarded raw accessor. KTuple-level canonicity (O1) is a '
                   'recorded observation: tuples that denote the same sequence may differ in the k bookkeeping field '
                   '(C32_ktuple_eq_by_sequence_refuted); all decisions go through a final k_concat (C32_concat_canonical). k > 10 is outside '
                   'the property (C32_denote_k_concat_large_k_refuted documents the release-build corruption there).',
        technique='Rocq proof (digit-vector library on N; one denotation lemma per operation) + model-vs-implementation replay via extraction',
        streams=[dict(cmd='c32', quick=8000, thorough=400000)],
        rule='operation sequences of 4-24 steps over 4 registers (push/extend/k_concat/of/clear/fresh values/observations/compare) for max terminal '
             'index in {1,2,3,5,6,100, 2^b-2, 2^b-1 (b=1..12), 4094} and k in 0..10; non-trivial = a sequence of length >= 2 was built on a '
             'boundary alphabet, or of length >= 5 elsewhere; distinct = distinct case text',
        explanation='C32_denote_*: the model operation commutes with the abstract sequence operation; the run checks the implementation equals the model.',
    ),
    'C07': dict(
        level='proof',
        level_text='Rocq theorems: (a) faithful models of from_k_tuples/unite, CompiledDFA::from_lookahead_dfa and minimize (iteration order as '
                   'an oracle): the compiled automaton accepts u for production p exactly when u is one of p\'s lookahead strings '
                   '(C07_trie_exact), minimisation preserves that for every oracle (C07_minimize_preserves_accepts), the result is sorted, '
                   'well-formed and as deep as the longest string; (b) the executable la_dfa_check / la_depth_check applied to the automata '
                   'parol REALLY generates are sound for all token strings (C07_la_dfa_check_sound). Tie to the code: export-model automata '
                   'of the real pipeline vs lookahead families computed by the verified FIRST/FOLLOW reference.',
        level_note='Trusted: Coq kernel, extraction, OCaml driver, Rust harness (export model read-out). minimize_total is not proved (partial '
                   'correctness of the minimisation model); this does not weaken the check on the real automata, which does not go through '
                   'the model.',
        technique='Rocq proof (trie/union/minimise models) + proved automaton-vs-lookahead-set checker on the real generated automata',
        streams=[dict(cmd='c07', quick=2000, thorough=30000)],
        rule='grammars shaped like the unite-k witness (T: | A | B with depth 2-4), grammars needing exactly k = 1..4 tokens, random clean BNF '
             'grammars, K in 1..5; a case = one grammar with all its automata; non-trivial = all automata exact and one has >= 3 '
             'transitions; distinct = distinct case text',
        explanation='C07_la_dfa_check_sound: accepted automaton = exactly the lookahead sets, for all strings; la_depth_check: k = longest string.',
    ),
    'C16': dict(
        level='proof',
        level_text='Rocq theorems on the verified regex development: a scanner mode whose look-ahead-free patterns match every single code point '
                   'never leaves a gap under the longest-match rule (C16_total_mode_no_gap), and total_on_chars_list_cex decides that totality '
                   '(sound in both directions, with a counterexample code point). Tie to the code: for generated PAR grammars with random '
                   'scanner directives (%auto_newline_off, %auto_ws_off, %allow_unmatched, extra scanner states, comments) the regex lists of '
                   'the REAL modes (generate_build_information) are checked: every mode without %allow_unmatched must be total.',
        level_note='Trusted: Coq kernel, extraction, OCaml driver, regex-syntax as pattern reader, HIR->regex translation. That the error token '
                   'makes the parse fail rests on parser soundness (C01/C03: its type is in no production) and on scnr2 implementing longest '
                   'match (C13). The allow-unmatched half (gaps kept in the tree, ignored by the parser) is exercised under C14/C17.',
        technique='Rocq proof (totality of a regex list decided over the interval partition; no-gap lemma for the longest-match tokenizer) evaluated on the real mode tables',
        streams=[dict(cmd='c16', quick=1500, thorough=60000)],
        rule='PAR grammars with random scanner directives and 1-4 terminals from a pool of 17 patterns (literals, classes, \\s+, \\n, ., look-ahead), '
             'optionally a second scanner state; one case per scanner state; non-trivial = state without %allow_unmatched; distinct = '
             'distinct case text',
        explanation='Known finding D5 (line feed with %auto_newline_off).',
    ),
    'C09': dict(
        level='proof',
        level_text='Rocq theorems about a faithful model of transform_productions (extract_options, separate_alternatives, eliminate_single_rep '
                   'LL/LR, eliminate_single_grp, the outer loops, finalize) and generate_name: every rewrite step preserves the language '
                   '(C09_canon_step_preserves), the measure decreases so the loops terminate, the resulting BNF derives for every user '
                   'non-terminal exactly what the EBNF grammar matches (C09_canon_preserves_lang, both grammar types), and helper names are '
                   'fresh (C09_generate_name_fresh, C09_canon_fresh). The verified EBNF recogniser emember (C09_emember_sound/complete) is '
                   'the independent oracle. Tie to the code: parol\'s real canonical productions for generated EBNF grammars are compared '
                   '(a) with emember/member on all short strings for every defined non-terminal, (b) exactly with the model.',
        level_note='Trusted: Coq kernel, extraction, OCaml driver, Rust harness (PAR rendering of the EBNF grammar, read-out of GrammarConfig). '
                   'Attributes/clipping/scanner states are erased in the model. Language equality on the real output is checked up to a '
                   'length bound (3-6); exact agreement with the model is recorded (not required).',
        technique='Rocq proof (rewrite-step language preservation + measure; verified EBNF recogniser) + differential run on the real canonicalization',
        streams=[dict(cmd='c09', quick=1200, thorough=40000)],
        rule='random EBNF grammars (1-4 non-terminals, nesting depth <= 2 of groups/optionals/repetitions, empty alternatives), every 4th with '
             'user names that look like generated helper names (SList, SOpt1, ...), alternately LL and LALR; non-trivial = the grammar has '
             'a group/optional/repetition; distinct = distinct case text',
        explanation='D16 (helper-name collision with a nested-only non-terminal) repaired by a fix: commit.',
    ),
}

PROPS.update({
    'C20': dict(
        level='proof',
        level_text='Rocq theorems about the faithful LL(k) parser model with its three options: an accepted run has a peak depth d '
                   '(= number of open non-push productions, C20_depth_counts_open_productions) such that EVERY option set whose limit is '
                   'absent or >= d accepts with the same action list (same tree events when the trim flag agrees), whatever its recovery '
                   'and trim flags, and every limit < d yields the depth-limit error (C20_ll_options_peak, for every recovery oracle); a '
                   'rejected input is accepted under no option set (C20_ll_options_reject); no recovery branch is entered on an accepted '
                   'run (C20_accepted_no_errors). Tie to the code: the real LLKParser and the real LRParser run the full option matrix '
                   '(recovery x trim x 12 depth limits; LR: trim x limits) on real generated tables; verdict, action list and comment '
                   'callbacks must be option-independent, the depth error must appear exactly below the model\'s peak.',
        level_note='The LR half is differential against the default-option LR model (peak read off the real runs: acceptance must be '
                   'monotone in the limit, below it the depth error). Rejected inputs: only "not accepted" is compared (a recovering '
                   'run legitimately performs more actions before it fails).',
        technique='Rocq proof (option simulation of the LL push-down automaton; peak-depth characterisation) + differential option matrix on the real parsers',
        streams=[dict(cmd='c20', quick=240, thorough=4000)],
        rule='alternately LL(k) grammars (as C01) and LALR(1) grammars (as C03); inputs: random sentences, mutants, all strings of '
             'length <= 2 (LL) / up to a bound (LR), each also rendered with line/block comments before, between and after the tokens; '
             'options: all recovery x trim combinations without limit, and limits 0,1,2,3,4,5,6,8,10,13,20,3000 with random flags; '
             'non-trivial = an accepted input of >= 2 tokens with limits on both sides of the peak; distinct = distinct case text',
        explanation='C20_ll_options_peak, C20_ll_options_reject, C20_ll_depth_limit_error.',
    ),
})

PROPS.update({
    'C01': dict(
        level='proof',
        level_text='Rocq theorems about a faithful model of LLKParser::parse_into (parser stack, lookahead via the verified eval model, '
                   'error recovery incl. restore_terminal_strings / minimal_token_difference / adjust_token_stream): an accepted input is a '
                   'sentence of the tables\' grammar for ARBITRARY automata that pass tables_ok, with recovery on or off and for every '
                   'recovery oracle (C01_ll_sound); exact automata accept every sentence (C01_ll_complete); no index panic '
                   '(C01_ll_no_panic). Tie to the code: the REAL tables parol generates (export model) must pass tables_ok; the real '
                   'LLKParser runs on sentences, mutants, all strings up to a bound and foreign tokens, recovery on/off, and is compared with '
                   'the model (verdict, error count, actions, tree) and with the verified recogniser on the grammar as written and on the '
                   'transformed grammar.',
        level_note='Trusted: Coq kernel, extraction, OCaml driver, Rust harness (alphabet scanner, export-model read-out). The composition '
                   '"generated tables are exact for every grammar" is not one theorem: it is C05-C07/C09/C10 plus per-instance validation. '
                   'State-dependent skip tokens are outside this model (C17).',
        technique='Rocq proof (derivation invariant of the LL push-down automaton, for all recovery oracles) + differential run of the real parser on real generated tables',
        streams=[dict(cmd='c01', quick=400, thorough=15000)],
        rule='grammars: unite-k witness shapes, grammars needing k = 1..4, random clean BNF (K 1..5); inputs: random sentences, 1-2 edit '
             'mutants, all strings up to length 3-6 over the terminals, a foreign token; recovery on/off at random (plus flipped/trimmed/'
             'depth-limited repeats); a case = one grammar with all runs; non-trivial = a run of length >= 2 agreed with model and '
             'recogniser; distinct = distinct case text',
        explanation='C01_ll_sound / C01_ll_complete; D14 (unite k) and D2 (eval skipping tokens) repaired by fix: commits.',
    ),
    'C02': dict(
        level='proof',
        level_text='Rocq theorems about the same faithful model: on success the tree-builder events form a derivation tree of the input for '
                   'the tables\' grammar rooted at the start symbol whose yield is the token list (C02_ll_tree_ok), and the semantic '
                   'actions are called exactly once per production application, in post-order, each with exactly the children of that '
                   'application (C02_ll_actions_postorder). Tie to the code: real action trace and real tree-builder events vs the model.',
        level_note='Same trusted base as C01; skip tokens appear as extra leaves in the real tree and are filtered before comparison (C14).',
        technique='Rocq proof (parse-tree-stack invariant) + differential run of the real parser',
        streams=[dict(cmd='c01', quick=400, thorough=15000)],
        rule='as C01; non-trivial = an accepted run with >= 2 tokens whose action trace and tree events equal the model\'s',
        explanation='C02_ll_tree_ok, C02_ll_actions_postorder.',
    ),
})

PROPS.update({
    'C18': dict(
        level='proof',
        level_text='Rocq theorems about faithful models of get_ordered_terminals / get_terminal_index_function (the numbering used by scanner, '
                   'lookahead automata and LR table) and of the lookup in build_production_model: the ordered table never lists a terminal '
                   'twice, every occurrence has exactly one index, and the repaired production-table lookup agrees with it for all grammars '
                   '(C18_index_of_pm_fixed_agree); the pinned lookup confused terminals with equal text and different quoting style '
                   '(C18_index_of_pm_refuted). Tie to the code: the proved terminal_agreement_check is applied to the real terminal table '
                   'and the terminal indices in the real export model\'s productions, for grammars that mix ".."/\'..\'//../ and '
                   'look-ahead variants of equal text.',
        level_note='Trusted: Coq kernel, extraction, OCaml driver, Rust harness (export model read through its JSON form). The third lookup '
                   '(grammar_type_generator, by expanded text only; C18_index_of_gt_refuted) only selects names and is not checked here.',
        technique='Rocq proof (terminal table and lookups) + proved agreement checker on the real export model',
        streams=[dict(cmd='c18', quick=1500, thorough=60000)],
        rule='PAR grammars over a pool of 15 terminal spellings with equal texts in different quoting styles and look-ahead variants; '
             'non-trivial = the table contains two terminals with equal text but different kind or look-ahead; distinct = distinct case text',
        explanation='D8 repaired by a fix: commit.',
    ),
})

import glob as _glob
_PAR_FILES = sorted(f for f in _glob.glob('/repo/**/*.par', recursive=True) if '/target/' not in f)

PROPS.update({
    'C26': dict(
        level='other',
        level_text='Exploration of the REAL generator pipeline (parol::build::Builder: read, check, transform, analyse, generate, write) under '
                   'catch_unwind on byte-string fuzz, token soup over the PAR vocabulary, valid generated EBNF grammars of both grammar types '
                   'and mutated repository grammars, K in {1,2,3,5}; a panic is a violation, reported with its location. Rocq contributes '
                   'the exact characterisation of the two modelled panic guards (Terminals::new: C26_terminals_new_guard; lalry start-symbol '
                   'precondition after augmentation: C26_lalry_precondition).',
        level_note='A Gallina model is total by construction and proves nothing about Rust panics; this property is decided by running the '
                   'code. Known findings: lalry panics on cyclic LALR grammars; Terminals::new panics beyond 4095 terminals.',
        technique='exploration of the real pipeline under catch_unwind (Rocq only characterises two panic guards)',
        streams=[dict(cmd='c26', quick=2400, thorough=24000, extra=_PAR_FILES)],
        rule='per case one text through the whole pipeline: 1/4 random bytes, 1/4 token soup, 1/4 valid generated EBNF (LL and LALR), 1/4 '
             '1-3 character/token mutations of repository or generated grammars; plus cyclic-grammar and 4100-terminal witnesses; '
             'non-trivial = the text reached the analysis/generation stages (valid or mutant kind); distinct = distinct case text',
        explanation='Exploration with proved guards; see level_text.',
    ),
})

PROPS.update({
    'C14': dict(
        level='proof',
        level_text='Rocq theorems about faithful models of TokenIter, TokenBuffer::add (gap tokens), TokenStream and the parsers\' handling of '
                   'additional tokens: all tokens ever delivered are contiguous from 0 to the text length and their texts concatenate to '
                   'the input (C14_all_tokens_contiguous, C14_tokens_cover_text, C14_buffer_contiguous for every schedule), the LR tree '
                   'leaves are exactly the delivered tokens (C14_lr_leaves_all_tokens). Tie to the code: both real parsers on decorated '
                   'sentences (whitespace, CR/LF mixes, comments, unmatched gaps incl. multi-byte, %skip-listed tokens); the leaves of '
                   'the real tree must equal the model\'s all_tokens of the real scanner matches and pass the proved tokens_check.',
        level_note='Trusted: Coq kernel, extraction, OCaml driver, harness (allow-unmatched alphabet scanner built with scnr2::scanner!). '
                   'Line/column numbers come from scnr2 and are not modelled. Finding D20 (MAX_K = 0: no end-of-text EOI from the iterator, '
                   'so a trailing unmatched stretch is not turned into a gap token) is recorded as C14_buffer_contiguous_k0_refuted.',
        technique='Rocq proof (contiguity invariant of the token buffer, for all schedules) + differential run of both real parsers',
        streams=[dict(cmd='c14', quick=240, thorough=12000)],
        rule='LL and LR grammars as in C01/C03; sentences (1/4 mutated) rendered with random separators: blanks, LF, CRLF, CR, tabs, line and '
             'block comments, unmatched "#", "9", "é", skip-listed "z"; non-trivial = accepted text with at least one skipped token; '
             'distinct = distinct case text',
        explanation='tokens_check_spec / all_tokens_contiguous.',
    ),
    'C17': dict(
        level='proof',
        level_text='Rocq theorems on the same token-stream model: the parser input is a function of the significant tokens only, for the LL '
                   'parser with arbitrary per-state skip lists (C17_skip_irrelevant_ll) and for the LR parser with the repaired call_action '
                   '(C17_lr_skip_listed_ok; the pinned predicate is refuted by C17_lr_skip_listed_refuted: S: a b, skip [c], input a c b '
                   'hands (c, b) to the action); every comment reaches on_comment exactly once in input order '
                   '(C17_comments_once_in_order). Tie to the code: metamorphic run of both real parsers: verdict and semantic actions '
                   '(production numbers with the token types of their children) of a decorated text vs the bare text, and the comment '
                   'callback trace vs the model.',
        level_note='Trusted as C14. Scanner switching is not exercised by the alphabet scanner (single mode with a %skip list).',
        technique='Rocq proof (observational equivalence of runs with the same significant tokens) + metamorphic differential run',
        streams=[dict(cmd='c14', quick=240, thorough=12000), dict(cmd='c13', quick=960, thorough=20000)],
        rule='second stream (as C13): real generated scanners with scanner states, %on transitions and state-specific %skip lists (the switching token skipped in exactly one of the two states): every token must be flagged skipped iff it is a built-in skip token or listed in the %skip list of the state it was MATCHED in; first stream: '
             'as C14; non-trivial = accepted text with >= 2 skipped tokens; distinct = distinct case text',
        explanation='D9 repaired by a fix: commit.',
    ),
})

PROPS.update({
    'C13': dict(
        level='proof',
        level_text='Rocq theorems on a verified regex development (Brzozowski derivatives) and the tokenisation relation taken from the '
                   'property text: the executable tokenize satisfies the relation and the relation is functional (C13_tokenize_spec, '
                   'C13_tokens_spec_functional, C13_longest_prefix_match_spec, C13_best_match_spec), and on the faithful TokenStream model '
                   'the delivered tokens do not depend on k or on the consumption schedule (C13_stream_k_independent). Tie to the code: for '
                   'generated PAR grammars (overlapping keywords/identifiers, classes, look-ahead, comments, %allow_unmatched, scanner '
                   'states with enter/push/pop) the scanner! text emitted by the REAL lexer generator is turned into scnr2 run-time tables '
                   'by scnr2_generate and executed by the real scnr2::ScannerImpl + TokenIter + TokenStream (k in {1,2,5}, random peek '
                   'schedules); the token sequence must equal tokenize on the regexes read with regex-syntax.',
        level_note='Trusted: Coq kernel, extraction, OCaml driver, harness/dynscan.rs (conversion of scnr2_generate structures into scnr2 run-time '
                   'structures, mirroring the quote! code of the macro), regex-syntax. scnr2 is external code: its conformance is tested, '
                   'not proved.',
        technique='Rocq proof (tokenisation relation, derivative-based matcher, k-independence of the stream model) + differential run of the real generated scanner',
        streams=[dict(cmd='c13', quick=320, thorough=12000)],
        rule='PAR grammars with 2-6 terminals from a pool of 22 overlapping patterns, optional comments / %auto_newline_off / %allow_unmatched, '
             'half of them with a second scanner state entered/pushed/popped on quotes; 6 random texts each (atoms that tickle '
             'longest-match vs priority ties, look-ahead at end of input, unmatched characters, non-ASCII); non-trivial = >= 2 tokens; '
             'distinct = distinct case text',
        explanation='tokenize_spec + the run against the real scanner.',
    ),
})

import lschecks
import astcheck

PROPS.update({
    'C27': dict(
        level='exploration',
        level_text='Exploration with the real language server: formatting requests over LSP on corpus and generated grammar texts with comments '
                   'in many positions, under 5 option combinations; oracle = parol\'s own front end (same GrammarConfig, same significant '
                   'token sequence, same comment sequence) and idempotence. No Gallina model of the ~1500-line formatter exists; what Rocq '
                   'contributes is only the oracle argument (the grammar is a function of the significant token sequence - C17).',
        level_note='Machine-checked proof does not decide this property: the check is differential exploration of the real binary. Trusted: '
                   'Python LSP client, pv par (parol front end as oracle).',
        technique='exploration of the real parol-ls over LSP with parol\'s own parser as oracle (no Rocq theorem decides it)',
        custom=lschecks.c27, no_coq=True,
        rule='all .par files of the repository under 6 kB (60 in the quick tier) + generated grammar texts with line/block comments before '
             'and after every token class; non-trivial = the text contains at least one comment; distinct = distinct (text, options)',
        explanation='Formatter checked as a black box: grammar equality, comment sequence equality, idempotence.',
    ),
    'C28': dict(
        level='exploration',
        level_text='Exploration with the real language server: prepareRename + rename at identifier occurrences of corpus and generated texts; '
                   'the returned edits are applied and parol\'s own front end must read the result as the ORIGINAL grammar with exactly '
                   'that symbol renamed everywhere and no other token changed. The Rocq side (Ls/Edits.v) states what applying a set of '
                   'edits means; it does not model symbol resolution.',
        level_note='Differential exploration; trusted: Python LSP client and edit application, pv par.',
        technique='exploration of the real parol-ls over LSP with parol\'s own parser as oracle',
        custom=lschecks.c28,
        rule='up to 3 (thorough: all) identifier occurrences per text; fresh target name; non-trivial = at least 2 occurrences were renamed; '
             'distinct = distinct (text, position)',
        explanation='Consistent renaming = dump of the new grammar equals the dump of the old one with the name substituted.',
    ),
    'C30': dict(
        level='exploration',
        level_text='Exploration with the real language server: hover, definition, documentSymbol, prepareRename, rename, formatting and '
                   'codeAction at positions inside, at the end of, past the end of lines and past the last line, on valid and broken texts '
                   'with multi-byte characters, CRLF and unterminated last lines; a dead or silent server is a violation. The Rocq side '
                   '(Ls/PosOffset.v) proves that the repaired pos_to_offset stays inside the text and on character boundaries.',
        level_note='Panic-freedom of the Rust binary cannot be proved with the model; the run samples positions. Trusted: Python LSP client.',
        technique='Rocq proof for pos_to_offset (model) + exploration of the real parol-ls over LSP',
        custom=lschecks.c30,
        rule='texts: corpus + generated, each also with multi-byte characters, CRLF, unterminated last line, one random corruption; positions: '
             'first/last/past-last lines x columns 0, end-1, end, end+1, end+7, random; non-trivial = position past a line end / past the '
             'last line, or on a line with non-ASCII characters; distinct = distinct (text, request, position)',
        explanation='D10 (pos_to_offset off-by-one / non-boundary) repaired by a fix: commit.',
    ),
    'C34': dict(
        level='proof',
        level_text='Rocq theorems re-checked against terms REGENERATED from the current parol.par / parol_ls.par / generated parser sources on '
                   'every run: the two EBNF grammars generate the same language over token kinds (C34_par_grammars_equiv, by the proved '
                   'equivalence checker: inline ProductionLHS, flatten single-alternative groups, isomorphism up to renaming and order of '
                   'alternatives) and the two scanner tables tokenise identically under the longest-match rule (C34_scanners_same_tokens: '
                   'same patterns, reordered entries never overlap). Tie to the code: the translator itself, plus both REAL parsers run on '
                   'corpus, generated, token-mutated and token-soup texts (same verdict).',
        level_note='Trusted: Coq kernel, the Python translator (small PAR reader; terminals identified by expanded pattern), regex-syntax for the '
                   'scanner patterns, the cfg-guarded parse-only batch entry of parol-ls. That the generated parsers implement their '
                   'grammars is C01; that scnr2 implements longest match is C13.',
        technique='Rocq proof by verified equivalence checkers evaluated (vm_compute) on grammar/scanner terms regenerated from the sources + differential run of both real parsers',
        custom=lschecks.c34,
        rule='corpus .par files + generated grammars, 2-3 token-level mutants of each valid text (delete/duplicate/replace/insert/swap), and '
             'random sequences over the PAR token vocabulary; non-trivial = text with >= 10 significant tokens or rejected by both; '
             'distinct = distinct text',
        explanation='A change to either .par file or either generated parser regenerates Gen/ParGrammars.v and re-runs both theorems.',
    ),
    'C29': dict(
        level='proof',
        level_text='Rocq: a labelled transition system of the server\'s diagnostics publishing (synchronous part, notify_analysis_ok, background '
                   'analyses finishing at any time) with a theorem over ALL histories and ALL interleavings for the guarded design '
                   '(C29_last_is_final: after quiescence the last published diagnostics are those of the final text with the final '
                   'version) and refutations for the server as it is (C29_last_is_final_refuted: stale version published last; '
                   'C29_same_version_race_refuted; each half of the repair alone is insufficient). Tie to the code: every history of 1-2 '
                   'events (and sampled / all 3-event histories) over 4 text classes x slow/fast background analysis is replayed against '
                   'the REAL server (cfg-guarded delay hook) and the published (version, class) sequence is compared with the model run '
                   'of the same schedule.',
        level_note='Trusted: Coq kernel, extraction, Python LSP client, the delay hook (sleep before a background analysis of a text marked '
                   'verif-slow). Schedules in which an analysis finishes between the spawn and the notify_analysis_ok of the same handler '
                   'cannot be forced without a gate inside the handler; they are covered by the model only.',
        technique='Rocq proof over all interleavings of the publishing LTS (invariant) + replay of enumerated histories/schedules against the real server',
        custom=lschecks.c29,
        rule='histories = sequences of 1..3 (thorough: all 3, sampled 4) open/change events whose text is a syntax error / background error / '
             'LALR conflict warning / fine, each spawned analysis slow (finishes after all later edits) or fast (finishes before the next '
             'edit); non-trivial = history with >= 2 versions; distinct = distinct case text',
        explanation='Known finding D11: a slow analysis of an old version publishes last.',
    ),
    'C24': dict(
        level='proof',
        level_text='Rocq: in the faithful model of left_factor with the hash-map iteration orders as oracle parameters, the result DOES depend '
                   'on the oracle at the pinned commit (C24_find_prefix_order_refuted, C24_lf_order_refuted: tie between equally large '
                   'prefix groups) while the language never does (C24_lf_order_indep_lang); the minimisation of lookahead automata '
                   'preserves the predicted production for every iteration order (C07). Tie to the code: the real parol binary is run '
                   'in several separate processes (each with its own hash seed) on tie-rich generated grammars and the repository\'s '
                   'grammars; parser source, trait source and expanded grammar must be byte-identical.',
        level_note='Trusted: the Python driver (process spawning, byte comparison). The theorems are about the pinned model of left factoring '
                   '(they document why the tie-break had to be fixed); determinism of the repaired code is established by the '
                   'multi-process exploration, not by a theorem over all grammars.',
        technique='Rocq refutation/partial proof on the oracle-parameterised model + multi-process byte comparison of the real generator output',
        custom=lschecks.c24,
        rule='grammars with 2-4 equally sized groups of alternatives sharing a first symbol (ties), plus repository grammars; each generated '
             'in 5 (thorough: 12) separate processes; non-trivial = tie grammar or grammar whose expansion introduces Suffix non-terminals; '
             'distinct = distinct grammar text',
        explanation='D3 (HashMap order decided ties in find_prefix / group_by) repaired by a fix: commit.',
    ),
    'C25': dict(
        level='exploration',
        level_text='Exploration through parol\'s real functions: obtain_grammar_config_from_string -> render_par_string -> '
                   'obtain_grammar_config_from_string, before and after check_and_transform_grammar, on repository grammars and generated '
                   'texts covering declarations and annotation combinations (user types, clipping, member names, scanner states, look-ahead, '
                   '%skip, %on, %allow_unmatched); the two GrammarConfig values must be equal (source locations ignored). The Rocq side '
                   '(Gen2/ParRender.v, scanner-directive sub-language) is a partial model only; it does not decide the property.',
        level_note='The production syntax of PAR is not modelled in Rocq; the check is differential exploration with parol as its own oracle.',
        technique='exploration: real render/parse round trip compared field by field (partial Rocq model of the directive sub-language)',
        custom=lschecks.c25, no_coq=True,
        rule='repository .par files (80 / all) + 300 (3000) generated annotated grammars + 100 (1000) generated EBNF grammars; non-trivial = '
             'text uses a non-default scanner setting or an annotation; distinct = distinct text',
        explanation='D4 (%allow_unmatched not rendered) repaired by a fix: commit.',
    ),
    'C33': dict(
        level='proof',
        level_text='Rocq theorems (ASCII domain) about models of generate_name, generate_terminal_names, the terminal char->name table and the '
                   'case conversions of naming_helper.rs: generated terminal names are pairwise distinct for ANY list of preferred names '
                   '(C33_terminal_names_nodup), validity is preserved by the numeric-suffix generation and holds for the table and the '
                   'conversions on their domain, with four refutations (Self, r#self/crate/super, empty type name for "_", lone '
                   'underscore). Tie to the code: identifiers are read with syn from the sources the REAL generator emits for '
                   'collision-prone grammars and the repository grammars (parse = valid; duplicates among items, fields, variants, '
                   'methods and the two name tables).',
        level_note='Trusted: Coq kernel, syn as the judge of identifier validity, the Python/Rust read-out. Non-ASCII names are outside the '
                   'proved domain. Member-name uniqueness inside generated structs is checked on the real output only.',
        technique='Rocq proof on models of the naming functions + syn-based check of the real generated sources',
        custom=lschecks.c33,
        rule='11 hand-made collision grammars (terminals mapping to one name, numeric suffixes, case variants, keywords, self/Self/crate/_, '
             'blank terminals, member names) + 40 (300) generated grammars over punctuation terminals and similar non-terminal names + '
             'repository grammars; non-trivial = every grammar that generated sources; distinct = distinct grammar text',
        explanation='Known findings: Self / raw keywords / "_" non-terminal / blank terminal produce invalid Rust.',
    ),
})

PROPS.update({
    'C19': dict(
        level='proof',
        level_text='Rocq theorems about the faithful parser models. LL(k): for tables that pass tables_ok and the boolean no-left-recursion '
                   'certificate check rank_ok, for EVERY recovery oracle, recovery on or off, every option set and every token list some fuel '
                   'makes the run end with a result (C19_ll_terminates_any_oracle: lexicographic measure over error budget, unconsumed '
                   'tokens, weighted nullable stack prefix and end markers), more fuel never changes it (C19_ll_terminates), at most 100 error '
                   'entries are collected (C19_recovery_entries_bounded) and no index/unwrap site is reachable (C19_ll_no_panic). LR: for a table '
                   'that passes the safety validator, with the grammar certified acyclic and the stack-rank certificate, the run with the '
                   'explicit fuel lr_fuel_bound ends with a result (C19_lr_terminates), and no panic/internal-error site is reachable. Tie to '
                   'the code: every REAL generated table must pass the certificate checks; the real LLKParser (recovery on and off) and '
                   'LRParser run under a watchdog on random bytes rendered as text, letter soup, comment fragments, heavily mutated and '
                   '100-400 token inputs; panic, hang, >101 error entries or a verdict different from the model is a violation.',
        level_note='The certificates are hypotheses of the theorems, evaluated per table (C19_lr_terminates_refuted and the left-recursive '
                   'Example show they are needed). Cyclic LALR grammars have no certificate and the real LR parser does loop on them: known '
                   'finding D15. Stack overflow of the Rust process on deep recursion and memory exhaustion are outside the model.',
        technique='Rocq proof (termination measures for the LL push-down automaton with recovery and for the LR automaton via tree-size bounds; certificate checkers) + watchdog run of the real parsers on arbitrary text',
        streams=[dict(cmd='c19', quick=640, thorough=6000)],
        rule='alternately LL(k) tables (BNF as C01, EBNF with repetitions) and LALR(1) tables (as C03, 1/4 with resolved conflicts); per '
             'table: sentences, 2-8 edit mutants (some repeated up to 6 times), commented mutants, and random texts in four styles '
             '(arbitrary bytes, letter soup, grammar terminals with junk and comment fragments, one token repeated up to 400 times); LL: each '
             'text with recovery on and off; non-trivial = a table with an accepted and a rejected run; distinct = distinct case text',
        explanation='C19_ll_terminates_any_oracle, C19_recovery_entries_bounded, C19_ll_no_panic, C19_lr_terminates, C19_lr_no_panic.',
    ),
    'C21': dict(
        level='other',
        level_text='Translation validation of the REAL generator output on every run: the tables are read back from the generated parser '
                   'source text (syn: TERMINAL_NAMES, scanner! modes via scnr2\'s own macro front end, MAX_K, skip lists, NON_TERMINALS, '
                   'LOOKAHEAD_AUTOMATA, PRODUCTIONS incl. is_push_production, PARSE_TABLE, start index) and from the JSON the real `parol '
                   'export` tool writes; they must agree field by field and all indices must be in range; then the SOURCE tables go through '
                   'the proved checkers: tables_ok (=> no index panic for any input, C21_ll_no_panic), la_dfa_check against the lookahead '
                   'sets of the verified FIRST_k/FOLLOW_k reference for the transformed grammar (=> the automaton predicts exactly by those '
                   'sets, C21_la_dfa_check_sound), lr_validate (=> only sentences accepted, no panic, C21_lr_safe_check_sound).',
        level_note='Rocq proves what a passed check means for all inputs of the generated parser; that the generator passes the check on '
                   'every grammar is tested, not proved (no Gallina model of the renderer). Regex patterns of comment tokens are compared by '
                   'presence only; lookahead patterns by sign.',
        technique='translation validation of generated source text and export JSON with Rocq-proved table checkers',
        needs_parol_bin=True,
        streams=[dict(cmd='c21', quick=480, thorough=3000, extra=[f for f in _PAR_FILES if '/tests/data/' not in f or 'arg_tests' in f])],
        rule='repository grammars (< 5 KB quick / < 12 KB thorough) plus generated ones: random EBNF (LL and LALR), LL(1)-by-construction '
             'EBNF with repetitions/optionals, BNF shapes of C01/C03, grammars with scanner states, %on/%enter/%push/%pop transitions, '
             'lookahead terminals, comments and %allow_unmatched (as C13), each LL and LALR; K in 1..4; non-trivial = source and export '
             'were both produced and compared; distinct = distinct case text',
        explanation='source == export (field by field) and source tables pass tables_ok / la_dfa_check / lr_validate.',
    ),
})


PROPS.update({
    'C23': dict(
        level='proof',
        level_text='Rocq theorems about an executable stack-machine model of the GENERATED adapter (Gen2/AstModel.v; LL and LALR forms): '
                   'for every attributed grammar that passes attrs_ok and every derivation tree the adapter leaves exactly the '
                   'specified value (C23_build_ast_sem), whose tokens read in order are the visible (non-clipped) tokens of the yield '
                   '(C23_ast_tokens), options are Some exactly when the optional production was applied (C23_options_present_iff), Vec '
                   'items are in input order (C23_repetition_order), the start action is called once per start-symbol node and the last '
                   'call carries the whole AST (C23_start_action_count/_last). Tie to the code: the real `parol` binary generates parser and '
                   'adapter for generated grammars (clipping, optionals, repetitions, groups; LL and LALR) into a scratch crate that is '
                   'COMPILED and RUN on generated sentences with a user struct that overrides every non-terminal action; the Debug form '
                   'of the start action\'s argument is compared with the model\'s value (computed from the `parol export` attributes and the '
                   'model parser\'s action trace), the user-action sequence with the model\'s, the token order with the input.',
        level_note='User types (%nt_type/%t_type/: Type) are outside the model (conversions are opaque). rustc and the compiled code are '
                   'trusted for the run. The literal "exactly once" is refuted for recursive start symbols (known finding).',
        technique='Rocq proof (tree induction: stack-machine adapter model = reversal-free specification) + differential run of compiled generated adapters',
        custom=astcheck.c23,
        rule='grammars: 1-3 non-terminals, LL(1) by construction, factors: terminals (1/4 clipped), non-terminal references (15% '
             'clipped), repetitions, optionals, groups, optional-containing-repetition; each as LL(k) and LALR(1); sentences by random '
             'derivation; non-trivial = the AST contains a non-empty Vec or a Some; distinct = distinct case text',
        explanation='C23_build_ast_sem, C23_ast_tokens, C23_options_present_iff, C23_repetition_order.',
    ),
})
