(** Property C30 — pinned statements (tools/pin.py); proofs in Ls/PosOffset.v. *)
From Coq Require Import List NArith.
From Parol Require Import Ls.PosOffset.
Import ListNotations.

Theorem C30_pos_to_offset_char_walk :
  forall (t : list N) (line col : nat),
  pos_to_offset t line col = Some (bytes (firstn (pos_index t line col) t)).
Proof. exact pos_to_offset_char_walk. Qed.

Theorem C30_pos_to_offset_no_panic :
  forall (t : list N) (line col : nat), exists o : N, pos_to_offset t line col = Some o.
Proof. exact pos_to_offset_no_panic. Qed.

Theorem C30_pos_to_offset_in_text :
  forall (t : list N) (line col : nat) (o : N),
  pos_to_offset t line col = Some o -> (o <= bytes t)%N.
Proof. exact pos_to_offset_in_text. Qed.

Theorem C30_pos_to_offset_boundary :
  forall (t : list N) (line col : nat) (o : N),
  pos_to_offset t line col = Some o -> is_boundary t o.
Proof. exact pos_to_offset_boundary. Qed.

Theorem C30_pos_to_offset_mono :
  forall (t : list N) (l1 c1 l2 c2 : nat) (o1 o2 : N),
  pos_le l1 c1 l2 c2 ->
  pos_to_offset t l1 c1 = Some o1 -> pos_to_offset t l2 c2 = Some o2 -> (o1 <= o2)%N.
Proof. exact pos_to_offset_mono. Qed.

Theorem C30_extract_text_range_no_panic :
  forall (t : list N) (sl sc el ec : nat),
  pos_le sl sc el ec -> exists x : list N, extract_text_range t sl sc el ec = Some x.
Proof. exact extract_text_range_no_panic. Qed.

Theorem C30_pos_to_offset_exact :
  forall (t : list N) (line col : nat) (l : list N),
  nth_error (lines t) line = Some l ->
  col <= length l ->
  exists o : N, ref_offset t line col = Some o /\ pos_to_offset t line col = Some o.
Proof. exact pos_to_offset_exact. Qed.

Theorem C30_pos_to_offset_eof :
  forall (t : list N) (line col : nat),
  length (lines t) <= line -> pos_to_offset t line col = Some (bytes t).
Proof. exact pos_to_offset_eof. Qed.

Theorem C30_pos_to_offset_old_refuted_1 :
  exists (t : list N) (line col : nat) (o : N),
  pos_to_offset_old t line col = Some o /\ (bytes t < o)%N.
Proof. exact pos_to_offset_old_refuted_1. Qed.

Theorem C30_pos_to_offset_old_refuted_2 :
  exists (t : list N) (line col : nat) (o : N),
  pos_to_offset_old t line col = Some o /\ (o <= bytes t)%N /\ ~ is_boundary t o.
Proof. exact pos_to_offset_old_refuted_2. Qed.

Theorem C30_extract_text_range_old_refuted :
  extract_text_range_old [Uuml] 0 0 0 5 = None /\
  extract_text_range_old [ch_a; ch_b] 0 0 1 0 = None /\
  extract_text_range_old [ch_a; LF; ch_b] 1 1 2 0 = None /\
  extract_text_range [Uuml] 0 0 0 5 = Some [Uuml] /\
  extract_text_range [ch_a; ch_b] 0 0 1 0 = Some [ch_a; ch_b] /\
  extract_text_range [ch_a; LF; ch_b] 1 1 2 0 = Some [].
Proof. exact extract_text_range_old_refuted. Qed.

