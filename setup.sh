#!/bin/sh
# MANIFEST.setup_cmd: build the framework from files on disk only (offline).
set -e
cd "$(dirname "$0")"
export CARGO_NET_OFFLINE=true RUSTFLAGS="--cfg parol_verif"
mkdir -p work
cp -f /repo/Cargo.lock harness/Cargo.lock
# A target directory that was copied while a build was writing into it can hold inconsistent incremental
# artefacts (link errors such as "undefined hidden symbol"): on failure the workspace-local crates are cleaned
# (third-party crates stay cached) and the build is retried once.
build_harness() { ( cd harness && CARGO_TARGET_DIR=/verif/target cargo build --offline ); }
build_harness || { ( cd harness && CARGO_TARGET_DIR=/verif/target cargo clean --offline -p pv -p parol -p parol_runtime -p parol-macros ) ; rm -rf /verif/target/debug/incremental; build_harness; }
python3 tools/gen_consts.py
( cd coq && coq_makefile -f _CoqProject -o Makefile && timeout 3000 make -j16 )
( cd ocaml && ./build.sh )
build_ls() { ( cd /repo && CARGO_TARGET_DIR=/verif/target/ls cargo build -p parol-ls -p parol --offline ); }
build_ls || { ( cd /repo && CARGO_TARGET_DIR=/verif/target/ls cargo clean --offline -p parol-ls -p parol -p parol_runtime -p parol-macros ); rm -rf /verif/target/ls/debug/incremental; build_ls; }
echo setup done
