//! `pv idents <file.rs>...`: parse generated Rust source with syn and report invalid syntax and
//! duplicate names (top-level items, struct fields, enum variants, trait/impl methods).
use std::collections::BTreeMap;
use syn::{ImplItem, Item, TraitItem};

fn dups(kind: &str, owner: &str, names: Vec<String>, out: &mut Vec<String>) {
    let mut m: BTreeMap<String, usize> = BTreeMap::new();
    for n in names { *m.entry(n).or_default() += 1; }
    for (n, c) in m { if c > 1 { out.push(format!("{kind} {owner}::{n} x{c}")); } }
}

fn items(list: &[Item], scope: &str, out: &mut Vec<String>, count: &mut usize) {
    let mut top = vec![];
    for it in list {
        match it {
            Item::Struct(s) => {
                top.push(format!("type:{}", s.ident));
                let f: Vec<String> = s.fields.iter().filter_map(|f| f.ident.as_ref().map(|i| i.to_string())).collect();
                *count += f.len() + 1;
                dups("field", &s.ident.to_string(), f, out);
            }
            Item::Enum(e) => {
                top.push(format!("type:{}", e.ident));
                let v: Vec<String> = e.variants.iter().map(|v| v.ident.to_string()).collect();
                *count += v.len() + 1;
                dups("variant", &e.ident.to_string(), v, out);
            }
            Item::Trait(t) => {
                top.push(format!("type:{}", t.ident));
                let m: Vec<String> = t.items.iter().filter_map(|i| if let TraitItem::Fn(f) = i { Some(f.sig.ident.to_string()) } else { None }).collect();
                *count += m.len() + 1;
                dups("method", &t.ident.to_string(), m, out);
            }
            Item::Impl(i) => {
                let m: Vec<String> = i.items.iter().filter_map(|x| if let ImplItem::Fn(f) = x { Some(f.sig.ident.to_string()) } else { None }).collect();
                *count += m.len();
                dups("method", "impl", m, out);
            }
            Item::Fn(f) => { top.push(format!("fn:{}", f.sig.ident)); *count += 1; }
            Item::Type(t) => { top.push(format!("type:{}", t.ident)); *count += 1; }
            Item::Const(c) => { top.push(format!("const:{}", c.ident)); *count += 1; }
            Item::Static(c) => { top.push(format!("const:{}", c.ident)); *count += 1; }
            Item::Mod(m) => {
                top.push(format!("mod:{}", m.ident));
                if let Some((_, its)) = &m.content { items(its, &format!("{scope}{}::", m.ident), out, count); }
            }
            _ => {}
        }
    }
    dups("item", scope, top, out);
}

pub fn run(a: &crate::Args) {
    for path in &a.rest {
        let src = match std::fs::read_to_string(path) { Ok(s) => s, Err(_) => { println!("{}", serde_json::json!({"file": path, "missing": true})); continue; } };
        // the scanner! macro body is not Rust syntax that syn understands as items: that is fine, it is a macro invocation
        let r = std::panic::catch_unwind(|| syn::parse_file(&src));
        match r {
            Ok(Ok(f)) => {
                let mut out = vec![];
                let mut count = 0usize;
                items(&f.items, "", &mut out, &mut count);
                println!("{}", serde_json::json!({"file": path, "ok": true, "duplicates": out, "names": count}));
            }
            Ok(Err(e)) => {
                let (line, col) = (e.span().start().line, e.span().start().column);
                let ctx: String = src.lines().nth(line.saturating_sub(1)).unwrap_or("").chars().skip(col.saturating_sub(30)).take(80).collect();
                println!("{}", serde_json::json!({"file": path, "ok": false, "error": e.to_string(), "context": ctx}));
            }
            Err(_) => println!("{}", serde_json::json!({"file": path, "ok": false, "error": "syn panicked", "context": ""})),
        }
    }
}
