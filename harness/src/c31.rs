//! C31: run the real Levenshtein edit-script function.
use crate::{rng::Rng, sx, Args};
use parol_runtime::verif::levenshtein_distance;

fn emit(act: &[u16], exp: &[u16]) {
    let r = std::panic::catch_unwind(|| levenshtein_distance(act, exp));
    match r {
        Ok((d, ops)) => println!("(lev {} {} {} {})", sx::nums(act), sx::nums(exp), d, sx::nums(&ops)),
        Err(_) => println!("(lev {} {} panic ())", sx::nums(act), sx::nums(exp)),
    }
}

fn all_seqs(alpha: u16, maxlen: usize) -> Vec<Vec<u16>> {
    let mut out = vec![vec![]];
    let mut frontier = vec![vec![]];
    for _ in 0..maxlen {
        let mut next = vec![];
        for s in &frontier {
            for a in 0..alpha {
                let mut t: Vec<u16> = s.clone();
                t.push(5 + a);
                next.push(t);
            }
        }
        out.extend(next.iter().cloned());
        frontier = next;
    }
    out
}

pub fn run(a: &Args) {
    // exhaustive part: all pairs over `alpha` letters up to length `maxlen`
    let (alpha, maxlen) = if a.thorough { (3, 5) } else { (2, 4) };
    let seqs = all_seqs(alpha, maxlen);
    let total = seqs.len() * seqs.len();
    let mut idx = 0usize;
    for x in &seqs {
        for y in &seqs {
            if idx % a.nshards == a.shard {
                emit(x, y);
            }
            idx += 1;
        }
    }
    eprintln!("exhaustive pairs: {total} (alphabet {alpha}, length <= {maxlen})");
    // random part
    let mut rng = Rng::new(a.seed ^ ((a.shard as u64) << 32));
    for _ in 0..a.n {
        let al = rng.range(1, 6) as u16;
        let lmax = if rng.chance(1, 10) { 40 } else { 12 };
        let la = rng.below(lmax);
        let act: Vec<u16> = (0..la).map(|_| rng.below(al as usize) as u16).collect();
        // mostly-related second sequence: mutate the first
        let mut exp = act.clone();
        if rng.chance(1, 8) {
            let lb = rng.below(12);
            exp = (0..lb).map(|_| rng.below(al as usize) as u16).collect();
        } else {
            for _ in 0..rng.below(5) {
                match rng.below(3) {
                    0 if !exp.is_empty() => {
                        let i = rng.below(exp.len());
                        exp.remove(i);
                    }
                    1 => {
                        let i = rng.below(exp.len() + 1);
                        exp.insert(i, rng.below(al as usize) as u16);
                    }
                    _ if !exp.is_empty() => {
                        let i = rng.below(exp.len());
                        exp[i] = rng.below(al as usize) as u16;
                    }
                    _ => {}
                }
            }
        }
        emit(&act, &exp);
    }
}
