(** Property C20 — Parser options do not change parse outcomes (LL(k) and LR).
    Pinned statements (tools/pin.py); proofs in Runtime/LLSound.v about the faithful model Runtime/LLParser.v of
    LLKParser::parse_into with its three options (disable_recovery, trim_parse_tree, set_max_parsing_depth).
    - ll_options_peak: an accepted run has a peak depth d (number of open non-push productions) such that EVERY
      option set whose limit is absent or >= d accepts with the SAME action list (and the same tree events when the
      trim flag agrees), whatever its recovery and trim flags, and every limit < d yields DepthExceeded.
    - ll_options_reject: a rejected input is accepted under no option set with a smaller-or-equal limit.
    - accepted_no_errors: on an accepted run no recovery branch is ever entered.
    - depth_counts_open_productions: production_depth is exactly the number of open non-push productions.
    LR (Runtime/LROptions.v: faithful model lr_run_opts of LRParser::parse_into with trim_parse_tree and
    set_max_parsing_depth, proved equal to the default-option model of C03/C04 with the depth test in front):
    - lr_options_verdict: an accepted run has the peak d = maximal parser-stack length; every option set whose
      limit is absent or >= d accepts with the SAME calls (production numbers AND arguments), trimming changes only
      what the tree builder receives; every limit < d yields DepthExceeded k with limit < k <= d.
    - lr_options_reject / lr_options_never_accept: a non-accepted input is accepted under no option set.
    - lr_depth_error_first: the depth error is returned exactly when the stack length first exceeds the limit. *)
From Coq Require Import List NArith.
From Parol Require Import Grammar.Cfg Runtime.DfaEval Runtime.LLParser Runtime.LLSound.
Import ListNotations.

Theorem C20_ll_options_peak :
  forall (f : nat) (tb : ll_tables) (o1 : options) (toks : list N) 
  (a : list (N * list sym)) (e : list event),
  tables_ok tb = true ->
  ll_run f tb o1 toks = Accepted a e ->
  exists d : N,
  fits d (o_max_depth o1) /\
  (forall o2 : options,
  (fits d (o_max_depth o2) ->
  exists e2 : list event,
  ll_run f tb o2 toks = Accepted a e2 /\ (o_trim o1 = o_trim o2 -> e2 = e)) /\
  (forall m : N,
  o_max_depth o2 = Some m -> (m < d)%N -> ll_run f tb o2 toks = DepthExceeded)).
Proof. exact ll_options_peak. Qed.

Theorem C20_ll_options_peak_any_oracle :
  forall (orc : oracle) (f : nat) (tb : ll_tables) (o1 : options) 
  (toks : list N) (a : list (N * list sym)) (e : list event),
  tables_ok tb = true ->
  ll_run_with orc f tb o1 toks = Accepted a e ->
  exists d : N,
  fits d (o_max_depth o1) /\
  (forall o2 : options,
  (fits d (o_max_depth o2) ->
  exists e2 : list event,
  ll_run_with orc f tb o2 toks = Accepted a e2 /\ (o_trim o1 = o_trim o2 -> e2 = e)) /\
  (forall m : N,
  o_max_depth o2 = Some m -> (m < d)%N -> ll_run_with orc f tb o2 toks = DepthExceeded)).
Proof. exact ll_options_peak_any_oracle. Qed.

Theorem C20_ll_options_verdict :
  forall (f1 : nat) (tb : ll_tables) (o1 o2 : options) (toks : list N)
  (a1 : list (N * list sym)) (e1 : list event),
  tables_ok tb = true ->
  ll_run f1 tb o1 toks = Accepted a1 e1 ->
  limit_le (o_max_depth o1) (o_max_depth o2) ->
  exists (f2 : nat) (e2 : list event), ll_run f2 tb o2 toks = Accepted a1 e2.
Proof. exact ll_options_verdict. Qed.

Theorem C20_ll_options_verdict_fuel :
  forall (f1 : nat) (tb : ll_tables) (o1 o2 : options) (toks : list N)
  (a1 : list (N * list sym)) (e1 : list event),
  tables_ok tb = true ->
  ll_run f1 tb o1 toks = Accepted a1 e1 ->
  limit_le (o_max_depth o1) (o_max_depth o2) ->
  exists e2 : list event,
  ll_run f1 tb o2 toks = Accepted a1 e2 /\ (o_trim o1 = o_trim o2 -> e2 = e1).
Proof. exact ll_options_verdict_fuel. Qed.

Theorem C20_ll_depth_limit_error :
  forall (f : nat) (tb : ll_tables) (o : options) (toks : list N) 
  (a : list (N * list sym)) (e : list event),
  tables_ok tb = true ->
  o_max_depth o = None ->
  ll_run f tb o toks = Accepted a e ->
  exists d : N,
  forall (m : N) (rc tr : bool),
  ((m < d)%N ->
  ll_run f tb {| o_recovery := rc; o_trim := tr; o_max_depth := Some m |} toks =
  DepthExceeded) /\
  ((d <= m)%N ->
  exists e2 : list event,
  ll_run f tb {| o_recovery := rc; o_trim := tr; o_max_depth := Some m |} toks =
  Accepted a e2).
Proof. exact ll_depth_limit_error. Qed.

Theorem C20_ll_options_reject :
  forall (f f' : nat) (tb : ll_tables) (o1 o2 : options) (toks : list N) 
  (r : reject) (n : nat),
  tables_ok tb = true ->
  ll_run f tb o1 toks = Rejected r n ->
  limit_le (o_max_depth o2) (o_max_depth o1) ->
  forall (a : list (N * list sym)) (e : list event), ll_run f' tb o2 toks <> Accepted a e.
Proof. exact ll_options_reject. Qed.

Theorem C20_ll_options_reject_classes :
  forall (f f' : nat) (tb : ll_tables) (o1 o2 : options) (toks : list N) 
  (r : reject) (n : nat),
  tables_ok tb = true ->
  ll_run f tb o1 toks = Rejected r n ->
  limit_le (o_max_depth o2) (o_max_depth o1) ->
  forallb (fun t : N => (t <? tb_nterms tb)%N) toks = true ->
  (exists (r' : reject) (n' : nat), ll_run f' tb o2 toks = Rejected r' n') \/
  ll_run f' tb o2 toks = DepthExceeded \/ ll_run f' tb o2 toks = OutOfFuel.
Proof. exact ll_options_reject_classes. Qed.

Theorem C20_accepted_no_errors :
  forall (orc : oracle) (tb : ll_tables) (opts : options) (fuel : nat) 
  (c : config) (acts : list (N * list sym)) (evs : list event) (c' : config),
  tables_ok tb = true ->
  ll_loop orc tb opts fuel c = Accepted acts evs ->
  run_reaches orc tb opts c c' -> c_errs c' = [].
Proof. exact accepted_no_errors. Qed.

Theorem C20_depth_counts_open_productions :
  forall (orc : oracle) (tb : ll_tables) (opts : options) (s0 : stream) (c0 c : config),
  ll_init orc tb opts s0 = Continue c0 ->
  run_reaches orc tb opts c0 c -> c_depth c = count_open tb (c_stack c).
Proof. exact depth_counts_open_productions. Qed.

Theorem C20_push_production_depth_exceeded :
  forall (tb : ll_tables) (o : options) (c : config) (p : N) (pr : production) (m : N),
  prod_at tb p = Some pr ->
  (p_lhs pr <? tb_nnts tb)%N = true ->
  o_max_depth o = Some m ->
  (m < (if p_push pr then c_depth c else N.succ (c_depth c)))%N ->
  push_production tb o c p = Return DepthExceeded.
Proof. exact push_production_depth_exceeded. Qed.

Theorem C20_ll_trim_events :
  forall (orc : oracle) (fuel : nat) (tb : ll_tables) (opts : options) 
  (toks : list N) (acts : list (N * list sym)) (evs : list event),
  o_trim opts = true ->
  ll_run_with orc fuel tb opts toks = Accepted acts evs -> evs = [OpenRoot; Close].
Proof. exact ll_trim_events. Qed.


(* ---------------------------------------------------------------- LR (imported here: LRParser re-uses constructor names of LLParser) *)
From Parol Require Import Runtime.LRParser Tables.LRValidate Runtime.LROptions.
Theorem C20_lr_run_opts_default :
  forall (f : nat) (tb : lr_table) (toks : list N),
  lr_run_opts f tb lr_default_options toks = project false (lr_run f tb toks).
Proof. exact lr_run_opts_default. Qed.

Theorem C20_lr_options_outcome :
  forall (f : nat) (tb : lr_table) (o : lr_options) (toks : list N),
  (fits (lr_run_peak f tb toks) (lo_max_depth o) ->
  lr_run_opts f tb o toks = project (lo_trim o) (lr_run f tb toks)) /\
  (forall m : N,
  lo_max_depth o = Some m ->
  (m < N.of_nat (lr_run_peak f tb toks))%N ->
  exists k : nat,
  lr_run_opts f tb o toks = DepthExceeded k /\
  (m < N.of_nat k)%N /\ k <= lr_run_peak f tb toks).
Proof. exact lr_options_outcome. Qed.

Theorem C20_lr_opts_accept_inv :
  forall (f : nat) (tb : lr_table) (o : lr_options) (toks : list N)
  (calls : list (N * list sym)) (built : option (list ptree)),
  lr_run_opts f tb o toks = AcceptedO calls built <->
  fits (lr_run_peak f tb toks) (lo_max_depth o) /\
  (exists forest : list tree,
  lr_run f tb toks = Accepted (map fst calls) forest /\
  map snd calls = map rhs (flat_map postorder forest) /\
  built = built_of (lo_trim o) forest).
Proof. exact lr_opts_accept_inv. Qed.

Theorem C20_lr_options_verdict :
  forall (f : nat) (tb : lr_table) (o1 : lr_options) (toks : list N)
  (calls : list (N * list sym)) (built : option (list ptree)),
  lr_run_opts f tb o1 toks = AcceptedO calls built ->
  exists d : nat,
  d = lr_run_peak f tb toks /\
  fits d (lo_max_depth o1) /\
  (forall o2 : lr_options,
  (fits d (lo_max_depth o2) ->
  exists built2 : option (list ptree),
  lr_run_opts f tb o2 toks = AcceptedO calls built2 /\
  (lo_trim o2 = lo_trim o1 -> built2 = built) /\ (built2 = None <-> lo_trim o2 = true)) /\
  (forall m : N,
  lo_max_depth o2 = Some m ->
  (m < N.of_nat d)%N ->
  exists k : nat,
  lr_run_opts f tb o2 toks = DepthExceeded k /\ (m < N.of_nat k)%N /\ k <= d)).
Proof. exact lr_options_verdict. Qed.

Theorem C20_lr_options_reject :
  forall (f : nat) (tb : lr_table) (o1 : lr_options) (toks : list N),
  lr_run_opts f tb o1 toks = RejectedO ->
  forall o2 : lr_options,
  (fits (lr_run_peak f tb toks) (lo_max_depth o2) -> lr_run_opts f tb o2 toks = RejectedO) /\
  (lr_run_opts f tb o2 toks = RejectedO \/
  (exists k : nat, lr_run_opts f tb o2 toks = DepthExceeded k)).
Proof. exact lr_options_reject. Qed.

Theorem C20_lr_options_never_accept :
  forall (f : nat) (tb : lr_table) (toks : list N),
  (forall (reds : list N) (forest : list tree), lr_run f tb toks <> Accepted reds forest) ->
  forall (o : lr_options) (calls : list (N * list sym)) (built : option (list ptree)),
  lr_run_opts f tb o toks <> AcceptedO calls built.
Proof. exact lr_options_never_accept. Qed.

Theorem C20_lr_opts_no_panic :
  forall (g : cfg) (tb : lr_table) (ann : annotation) (f : nat) (o : lr_options)
  (toks : list N) (site : nat),
  lr_safe_check g tb ann = true ->
  Forall (fun t : N => (t < lr_nterm tb)%N) toks -> lr_run_opts f tb o toks <> PanicO site.
Proof. exact lr_opts_no_panic. Qed.

Theorem C20_lr_opts_no_internal_error :
  forall (g : cfg) (tb : lr_table) (ann : annotation) (f : nat) (o : lr_options)
  (toks : list N) (site : nat),
  lr_safe_check g tb ann = true -> lr_run_opts f tb o toks <> InternalErrO site.
Proof. exact lr_opts_no_internal_error. Qed.

Theorem C20_lr_depth_error_first :
  forall (f : nat) (tb : lr_table) (o : lr_options) (toks : list N) (k : nat),
  lr_run_opts f tb o toks = DepthExceeded k <->
  (exists (m : N) (pre : list lr_conf) (c : lr_conf) (post : list lr_conf),
  lo_max_depth o = Some m /\
  lr_run_trace f tb toks = pre ++ c :: post /\
  Forall (fun c' : lr_conf => (N.of_nat (depth c') <= m)%N) pre /\
  (m < N.of_nat (depth c))%N /\ k = depth c).
Proof. exact lr_depth_error_first. Qed.

