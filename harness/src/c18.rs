//! C18: terminal identity across the generated parts (export model vs the grammar's own terminal table).
use crate::{rng::Rng, sx, Args};
use parol::parser::parol_grammar::LookaheadExpression;
use parol::{calculate_lookahead_dfas, check_and_transform_grammar, generate_parser_export_model, obtain_grammar_config_from_string, Symbol, Terminal, TerminalKind};

fn kind_no(k: TerminalKind) -> u8 {
    match k { TerminalKind::Legacy => 0, TerminalKind::Regex => 1, TerminalKind::Raw => 2 }
}
fn la_sx(l: &Option<LookaheadExpression>) -> String {
    match l {
        None => "none".to_string(),
        Some(l) => format!("({} {} {})", l.is_positive as u8, crate::rx::cps(&l.pattern), kind_no(l.kind)),
    }
}
fn occ_sx(t: &str, k: TerminalKind, l: &Option<LookaheadExpression>) -> String {
    format!("({} {} {})", crate::rx::cps(t), kind_no(k), la_sx(l))
}

pub fn random_par(rng: &mut Rng) -> String {
    let pool = ["\"a.c\"", "'a.c'", "/a.c/", "\"\\+\"", "'\\+'", "'+'", "\"x\"", "'x'", "/x/", "\"a\" ?= \"b\"", "\"a\"", "'a' ?= 'b'", "\"a\" ?! \"b\"", "\"y\"", "'z'"];
    let n = rng.range(1, 3);
    let names = ["S", "A", "B"];
    let mut s = String::from("%start S\n%%\n");
    for i in 0..n {
        let nalt = rng.range(1, 3);
        let alts: Vec<String> = (0..nalt).map(|_| {
            let len = rng.range(1, 3);
            (0..len).map(|_| if rng.chance(1, 4) && n > 1 { names[rng.range(1, n - 1).max(1).min(n - 1)].to_string() } else { pool[rng.below(pool.len())].to_string() }).collect::<Vec<_>>().join(" ")
        }).collect();
        s.push_str(&format!("{}: {};\n", names[i], alts.join(" | ")));
    }
    if n > 1 { // make every non-terminal reachable
        s = s.replacen("S: ", &format!("S: {} | ", names[1..n].join(" ")), 1);
    }
    s
}

pub fn case(text: &str) -> String {
    let r = std::panic::catch_unwind(|| -> Result<String, String> {
        let mut gc = obtain_grammar_config_from_string(text, false).map_err(|_| "rejected".to_string())?;
        let cfg2 = check_and_transform_grammar(&gc.cfg, gc.grammar_type).map_err(|_| "rejected-by-checks".to_string())?;
        gc.update_cfg(cfg2);
        let dfas = calculate_lookahead_dfas(&gc, 5).map_err(|_| "not-ll-k".to_string())?;
        let k = dfas.values().map(|d| d.k).max().unwrap_or(0);
        gc.update_lookahead_size(k);
        let export = generate_parser_export_model(&gc, &dfas).map_err(|e| format!("export-error {e}"))?;
        let ev = serde_json::to_value(&export).unwrap();
        // the grammar's own terminal table (what scanner, automata and LR table are numbered by)
        let ordered: Vec<String> = gc.cfg.get_ordered_terminals().iter().map(|(t, k, l, _)| occ_sx(t, *k, l)).collect();
        // every terminal occurrence of every production, with the index the export model uses for it
        let mut claims = vec![];
        for (pi, p) in gc.cfg.pr.iter().enumerate() {
            let rhs = ev["productions"][pi]["rhs"].as_array().unwrap();
            for (si, s) in p.get_r().iter().enumerate() {
                if let Symbol::T(Terminal::Trm(t, k, _, _, _, _, l)) = s {
                    let idx = rhs[si]["Terminal"]["index"].as_u64().unwrap_or(0);
                    claims.push(format!("({} {})", occ_sx(t, *k, l), idx));
                }
            }
        }
        // the scanner's own numbering
        let scanner: Vec<String> = ev["scanner"]["terminals"].as_array().unwrap().iter().map(|t| format!("{}", t["index"].as_u64().unwrap())).collect();
        Ok(format!("(tix {} ({}) ({}) ({}))", sx::s(text), ordered.join(" "), claims.join(" "), scanner.join(" ")))
    });
    match r {
        Err(_) => format!("(tix {} panic)", sx::s(text)),
        Ok(Err(why)) => format!("(tix {} ({}))", sx::s(text), why.split(' ').next().unwrap()),
        Ok(Ok(s)) => s,
    }
}

pub fn run(a: &Args) {
    let mut rng = Rng::new(a.seed ^ ((a.shard as u64) << 32) ^ 0xC18);
    if a.shard == 0 {
        println!("{}", case("%start S\n%%\nS: A | B;\nA: \"a.c\" \"x\";\nB: 'a.c' \"y\";\n"));
        println!("{}", case("%start S\n%%\nS: \"\\+\" \"x\" | '\\+' \"y\";\n"));
    }
    for _ in 0..a.n {
        println!("{}", case(&random_par(&mut rng)));
    }
}
