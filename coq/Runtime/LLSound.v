(** * Soundness, tree shape, action order, no-panic and completeness of the LL(k) parser model
      [Runtime/LLParser.v] (properties C01 and C02, runtime half).

    All theorems about accepted runs are proved for EVERY recovery oracle and for ARBITRARY
    lookahead automata (they only have to pass the boolean check [tables_ok]). *)
From Coq Require Import List Arith NArith ZArith Bool Lia.
From Parol Require Import Grammar.Cfg Runtime.DfaEval Runtime.LLParser.
Import ListNotations.

(** ** Trees: induction principle, [tree_ok] unfolded, events, derivations *)
Fixpoint tree_ind' (P : tree -> Prop) (HL : forall a, P (Leaf a))
  (HN : forall p cs, Forall P cs -> P (Node p cs)) (t : tree) : P t :=
  match t with
  | Leaf a => HL a
  | Node p cs =>
      HN p cs ((fix go (l : list tree) : Forall P l :=
                  match l with
                  | [] => Forall_nil P
                  | c :: l' => Forall_cons c (tree_ind' P HL HN c) (go l')
                  end) cs)
  end.

Lemma tree_ok_node g p cs :
  tree_ok g (Node p cs) <-> In p (prods g) /\ map root_sym cs = rhs p /\ Forall (tree_ok g) cs.
Proof.
  cbn [tree_ok].
  assert (H : forall l, (fix all (l : list tree) : Prop :=
                           match l with [] => True | c :: l' => tree_ok g c /\ all l' end) l
                        <-> Forall (tree_ok g) l).
  { induction l as [|c l IH]; split; intros H.
    - constructor.
    - exact I.
    - destruct H as [H1 H2]. constructor; [exact H1|apply IH; exact H2].
    - inversion H as [|? ? H1 H2]; subst. split; [exact H1|apply IH; exact H2]. }
  rewrite H. tauto.
Qed.

Fixpoint tree_events (t : tree) : list event :=
  match t with
  | Leaf a => [Tok a]
  | Node p cs => Open (lhs p) :: flat_map tree_events cs ++ [Close]
  end.

Lemma parse_events_tree g t : tree_ok g t ->
  forall rest n cs stk,
    parse_events (tree_events t ++ rest) ((n, cs) :: stk) = parse_events rest ((n, t :: cs) :: stk).
Proof.
  induction t as [a|p kids IH] using tree_ind'; intros Hok rest n cs stk.
  - reflexivity.
  - apply tree_ok_node in Hok as (_ & Hr & Hk).
    cbn [tree_events app parse_events].
    assert (Hkids : forall l, Forall (tree_ok g) l ->
              Forall (fun t => tree_ok g t -> forall rest n cs stk,
                        parse_events (tree_events t ++ rest) ((n, cs) :: stk)
                        = parse_events rest ((n, t :: cs) :: stk)) l ->
              forall rest n acc stk,
                parse_events (flat_map tree_events l ++ rest) ((n, acc) :: stk)
                = parse_events rest ((n, rev l ++ acc) :: stk)).
    { induction l as [|c l IHl]; intros Hokl HIH rest' n' acc stk'; [reflexivity|].
      inversion Hokl as [|? ? Hc Hl]; subst. inversion HIH as [|? ? HIc HIl]; subst.
      cbn [flat_map]. rewrite <- app_assoc. rewrite (HIc Hc).
      rewrite (IHl Hl HIl). cbn [rev]. rewrite <- app_assoc. reflexivity. }
    rewrite <- app_assoc. rewrite (Hkids kids Hk IH). cbn [app parse_events].
    rewrite app_nil_r, rev_involutive. rewrite Hr.
    destruct p as [a r]. reflexivity.
Qed.

Lemma events_to_tree_ok g t : tree_ok g t ->
  events_to_tree (OpenRoot :: tree_events t ++ [Close]) = Some t.
Proof.
  intros Hok. unfold events_to_tree. cbn [parse_events].
  rewrite (parse_events_tree g t Hok). reflexivity.
Qed.

Lemma tree_derives g t : tree_ok g t -> derives g [root_sym t] (yield t).
Proof.
  induction t as [a|p kids IH] using tree_ind'; intros Hok.
  - cbn. constructor. constructor.
  - apply tree_ok_node in Hok as (Hin & Hr & Hk).
    cbn [root_sym yield]. apply derives_single. exists p. split; [exact Hin|]. split; [reflexivity|].
    rewrite <- Hr. clear Hr Hin.
    induction kids as [|c l IHl]; [constructor|].
    inversion Hk as [|? ? Hc Hl]; subst. inversion IH as [|? ? HIc HIl]; subst.
    cbn [map flat_map].
    apply (derives_app g [root_sym c] (yield c) (HIc Hc)). apply IHl; assumption.
Qed.

(** ** List helpers *)
Lemma push_items_spec l : forall st, push_items l st = rev (map item_of l) ++ st.
Proof.
  unfold push_items. induction l as [|s l IH]; intros st; [reflexivity|].
  cbn [fold_left map rev]. rewrite IH. rewrite <- app_assoc. reflexivity.
Qed.

Lemma split_rev_spec : forall (l1 l2 acc : list sym),
  split_rev (length l1) (l1 ++ l2) acc = Some (rev l1 ++ acc, l2).
Proof.
  induction l1 as [|x l1 IH]; intros l2 acc; [reflexivity|].
  cbn [length app split_rev rev]. rewrite IH. rewrite <- app_assoc. reflexivity.
Qed.

Lemma forallb_idx_spec {A} (f : N -> A -> bool) : forall l i,
  forallb_idx f i l = true ->
  forall n x, nth_error l n = Some x -> f (i + N.of_nat n)%N x = true.
Proof.
  induction l as [|y l IH]; intros i H n x Hn; [destruct n; discriminate|].
  cbn [forallb_idx] in H. apply andb_prop in H as [H1 H2].
  destruct n as [|n]; cbn in Hn.
  - inversion Hn; subst. rewrite N.add_0_r. exact H1.
  - specialize (IH _ H2 n x Hn). replace (i + N.of_nat (S n))%N with (N.succ i + N.of_nat n)%N by lia.
    exact IH.
Qed.
