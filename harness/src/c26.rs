//! C26: the whole generator pipeline (parol::build::Builder: read, check, transform, analyse, generate)
//! on arbitrary texts, every run under catch_unwind; the panic location is recorded.
use crate::{c09, rng::Rng, sx, Args};
use std::sync::Mutex;

static LAST_PANIC: Mutex<String> = Mutex::new(String::new());

fn pipeline(text: &str, k: usize, dir: &std::path::Path) -> String {
    let par = dir.join("g.par");
    std::fs::write(&par, text).unwrap();
    *LAST_PANIC.lock().unwrap() = String::new();
    let r = std::panic::catch_unwind(|| {
        let mut b = parol::build::Builder::with_explicit_output_dir(dir);
        b.grammar_file(&par)
            .parser_output_file("parser.rs")
            .actions_output_file("trait.rs")
            .expanded_grammar_output_file("exp.par")
            .user_type_name("Gr")
            .user_trait_module_name("gr");
        if b.max_lookahead(k).is_err() {
            return "(err config)".to_string();
        }
        match b.generate_parser() {
            Ok(()) => "(ok)".to_string(),
            Err(_) => "(err)".to_string(),
        }
    });
    match r {
        Ok(s) => s,
        Err(_) => format!("(panic {})", sx::s(&LAST_PANIC.lock().unwrap())),
    }
}

const VOCAB: &[&str] = &[
    "%start", "%title", "%comment", "%user_type", "=", "%nt_type", "%t_type", "%grammar_type", "%line_comment", "%block_comment",
    "%auto_newline_off", "%auto_ws_off", "%skip", "%on", "%allow_unmatched", "%enter", "%push", "%pop", "%%", "::", ":", ";", "|", "<", ">",
    "\"s\"", "'r'", "/x/", "(", ")", "[", "]", "{", "}", "S", "A", "B", "%scanner", ",", "@", "^", "?=", "?!", "'lalr(1)'", "'ll(k)'", "\"\"", "//", "/*",
];

fn mutate_text(rng: &mut Rng, t: &str) -> String {
    let chars: Vec<char> = t.chars().collect();
    if chars.is_empty() { return VOCAB[rng.below(VOCAB.len())].to_string(); }
    let i = rng.below(chars.len());
    let mut out: String = chars[..i].iter().collect();
    match rng.below(4) {
        0 => {}
        1 => { out.push_str(VOCAB[rng.below(VOCAB.len())]); out.push(' '); out.push(chars[i]); }
        2 => { out.push(chars[i]); out.push(chars[i]); }
        _ => { out.push(['"', '\'', '/', '(', '{', ';', '|', '%', 'Ü', '\\'][rng.below(10)]); }
    }
    out.extend(chars[i + 1..].iter());
    out
}

pub fn run(a: &Args) {
    // remember where a panic happened (the default hook is replaced in main by a silent one)
    std::panic::set_hook(Box::new(|info| {
        if let Some(l) = info.location() {
            let f = l.file();
            let short = f.rsplit('/').take(3).collect::<Vec<_>>().into_iter().rev().collect::<Vec<_>>().join("/");
            *LAST_PANIC.lock().unwrap() = format!("{}:{}", short, l.line());
        }
    }));
    let mut rng = Rng::new(a.seed ^ ((a.shard as u64) << 32) ^ 0xC26);
    let dir = std::path::PathBuf::from(format!("/verif/work/C26/tmp-{}", a.shard));
    let _ = std::fs::create_dir_all(&dir);
    let corpus: Vec<String> = a.rest.iter().filter_map(|p| std::fs::read_to_string(p).ok()).filter(|t| t.len() < 4000).collect();
    let emit = |kind: &str, text: &str, k: usize, res: String| println!("(pipe {} {} {} {})", kind, k, sx::s(text), res);
    if a.shard == 0 {
        for t in ["%start S\n%grammar_type 'lalr(1)'\n%%\nS: B | \"x\";\nB: S;\n", "%start S\n%grammar_type 'lalr(1)'\n%%\nS: S \"a\" S | S | \"a\" \"a\";\n", "", "%start", "%start S %% S: ;"] {
            emit("corpus", t, 3, pipeline(t, 3, &dir));
        }
        // more terminals than the 12 bit limit of the packed tuples (Terminals::new)
        let many: Vec<String> = (0..4100).map(|i| format!("\"t{}\"", i)).collect();
        let t = format!("%start S\n%%\nS: {};\n", many.join(" | "));
        let r = pipeline(&t, 1, &dir);
        println!("(pipe many-terminals 1 {} {})", sx::s("%start S %% S: \"t0\" | ... | \"t4099\";"), r);
    }
    for i in 0..a.n {
        let k = [1usize, 2, 3, 5][rng.below(4)];
        match i % 4 {
            0 => {
                let n = rng.range(0, 40);
                let bytes: Vec<u8> = (0..n).map(|_| if rng.chance(1, 3) { rng.below(256) as u8 } else { { let cs = b" %:;|\"'/(){}[]<>@^SAB\n"; cs[rng.below(cs.len())] } }).collect();
                let t = String::from_utf8_lossy(&bytes).to_string();
                emit("bytes", &t, k, pipeline(&t, k, &dir));
            }
            1 => {
                let n = rng.range(1, 30);
                let t: Vec<&str> = (0..n).map(|_| VOCAB[rng.below(VOCAB.len())]).collect();
                let t = t.join(" ");
                emit("soup", &t, k, pipeline(&t, k, &dir));
            }
            2 => {
                // valid grammars: random EBNF, and BNF grammars with many shared prefixes of different lengths (the
                // shapes left factoring has to cope with)
                let t = if i % 8 == 2 { crate::c10::prefixy(&mut rng).to_par(false) } else { let g = c09::random_ebnf(&mut rng, i % 16 == 6); g.par(rng.chance(1, 2)) };
                emit("valid", &t, k, pipeline(&t, k, &dir));
            }
            _ => {
                let base = if corpus.is_empty() || rng.chance(1, 3) { c09::random_ebnf(&mut rng, false).par(rng.chance(1, 2)) } else { corpus[rng.below(corpus.len())].clone() };
                let mut t = base;
                for _ in 0..rng.range(1, 3) { t = mutate_text(&mut rng, &t); }
                emit("mutant", &t, k, pipeline(&t, k, &dir));
            }
        }
    }
    let _ = std::fs::remove_dir_all(&dir);
}
