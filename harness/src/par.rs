//! `pv par <file>`: run parol's own PAR front end on texts (one JSON string per line) and print one
//! JSON object per line: {"ok": bool, "tokens": [[type, start, end], ...], "cfg": "<debug dump>"}.
//! The token list comes from parol's real parser (all tokens incl. comments, in order).
use crate::rt::Recorder;
use parol::parser::parol_grammar::ParolGrammar;
use parol::parser::parol_parser::parse_into;
use parol::GrammarConfig;
use std::convert::TryFrom;
use std::io::BufRead;

struct TokRec {
    toks: Vec<(u16, u32, u32)>,
}
impl<'t> parol_runtime::parser::parse_tree_type::TreeConstruct<'t> for TokRec {
    type Error = parol_runtime::ParolError;
    type Tree = ();
    fn open_non_terminal(&mut self, _n: &'static str, _s: Option<usize>) -> Result<(), Self::Error> { Ok(()) }
    fn close_non_terminal(&mut self) -> Result<(), Self::Error> { Ok(()) }
    fn add_token(&mut self, token: &parol_runtime::Token<'t>) -> Result<(), Self::Error> {
        self.toks.push((token.token_type, token.location.start, token.location.end));
        Ok(())
    }
    fn build(self) -> Result<(), Self::Error> { Ok(()) }
}

pub fn run(args: &crate::Args) {
    let _ = Recorder::default();
    let path = args.rest.first().expect("file argument");
    let f = std::io::BufReader::new(std::fs::File::open(path).unwrap());
    for line in f.lines() {
        let line = line.unwrap();
        let text: String = match serde_json::from_str(&line) { Ok(t) => t, Err(_) => continue };
        let r = std::panic::catch_unwind(|| {
            let mut g = ParolGrammar::new();
            let mut rec = TokRec { toks: vec![] };
            let res = parse_into(&text, &mut rec, "input.par", &mut g);
            match res {
                Ok(()) => {
                    let cfg = match GrammarConfig::try_from(g) {
                        Ok(gc) => format!("{:?}", gc),
                        Err(e) => format!("CONFIG-ERROR {e}"),
                    };
                    (true, rec.toks, cfg)
                }
                Err(parol_runtime::ParolError::UserError(e)) => (false, rec.toks, format!("SEMANTIC-ERROR {e}")),
                Err(_) => (false, rec.toks, String::new()),
            }
        });
        let out = match r {
            Ok((ok, toks, cfg)) => serde_json::json!({"ok": ok, "tokens": toks, "cfg": cfg, "panic": false}),
            Err(_) => serde_json::json!({"ok": false, "tokens": [], "cfg": "", "panic": true}),
        };
        println!("{}", out);
    }
}
