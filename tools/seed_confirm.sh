#!/bin/bash
# seed_confirm.sh <wt>: confirm in the scratch worktree <wt> that the seeded change compiles and the workspace suite passes.
# Output: <wt>/seed/confirm.log ; last line "SUITE rc=<n> failed=<k>"
wt=$1
cd "$wt" || exit 2
export CARGO_NET_OFFLINE=true CARGO_TARGET_DIR="$wt/target"
cargo test --workspace --no-fail-fast --offline > "$wt/seed/confirm.log" 2>&1
rc=$?
k=$(grep -c "^test .* FAILED" "$wt/seed/confirm.log")
p=$(grep -c "^test .* ok$" "$wt/seed/confirm.log")
echo "SUITE rc=$rc failed=$k passed=$p" | tee -a "$wt/seed/confirm.log"
