"""C23: the typed AST the GENERATED adapter hands to the user's start-symbol action.

For N generated EBNF grammars (LL(1) by construction, with clipping ^, optionals, repetitions, groups; each also as
LALR(1)) the real `parol` binary generates parser + trait files into one scratch crate under /verif/work/C23/crate,
which is compiled against /repo's parol_runtime and run on generated sentences. The user grammar struct overrides
EVERY non-terminal action: it counts the calls and prints the Debug form of the start symbol's argument.
The Debug text is parsed into a name-free tree (struct / variant wrapper / Vec / Some / None / token) that is compared
with the AST the extracted Gallina adapter model (Gen2/AstModel.v) computes from the export model's attributed
grammar and the model parser's action trace (driver case `ast`)."""
import json, os, random, re, shutil, subprocess
import checklib as cl

WDIR = os.path.join(cl.WORK, 'C23')
CRATE = os.path.join(WDIR, 'crate')
PAROL_BIN = os.path.join(cl.VERIF, 'target', 'ls', 'debug', 'parol')


# ------------------------------------------------------------------------------------------ grammars
class Gen:
    def __init__(self, rng):
        self.rng = rng
        self.next_t = 0
        self.force_clip = set()

    def fresh(self):
        t = self.next_t
        if self.next_t < 25:
            self.next_t += 1
        return ('t', t, self.rng.random() < 0.25)          # terminal letter index, clipped?

    def nt(self, n, a, mandatory):
        """A non-terminal reference; a mandatory one only to a higher-numbered non-terminal (so every non-terminal is
        productive and sentence generation terminates); None if there is none."""
        lo = a + 1 if mandatory else 0
        if lo >= n:
            return None
        b = self.rng.randrange(lo, n)
        return ('n', b, b in self.force_clip or self.rng.random() < 0.15)

    def body(self, n, a=0, mandatory=False):
        b = [self.fresh()]
        if self.rng.random() < 0.5:
            r = self.nt(n, a, mandatory)
            if r:
                b.append(r)
        if self.rng.random() < 0.3:
            b.append(self.fresh())
        return [b]

    def grammar(self):
        """Retries until the grammar needs at most 25 distinct letters (every terminal is then a fresh letter, which is what
        makes the grammar LL(1)); unreachable non-terminals are hooked into the start symbol by an optional part."""
        while True:
            self.next_t = 0
            g = self.grammar_once()
            if self.next_t >= 24:
                continue
            reach, todo = {0}, [0]
            while todo:
                a = todo.pop()
                for b in nt_refs(dict(prods=[p for p in g['prods'] if p[0] == a])).keys():
                    if b not in reach:
                        reach.add(b); todo.append(b)
            first = g['prods'][0][1][0]
            for a in range(g['n']):
                if a not in reach:
                    first.insert(len(first) - 1, ('o', [[self.fresh(), ('n', a, a in self.force_clip)]]))
            g['nt_types'] = [a for a, fl in nt_refs(g).items() if a != 0 and fl and all(fl) and self.rng.random() < 0.7]
            return g

    def grammar_once(self):
        rng = self.rng
        n = rng.randint(1, 3)
        # every third grammar: one non-terminal is clipped at every reference (and may then carry a %nt_type)
        self.force_clip = {rng.randrange(1, n)} if n > 1 and rng.random() < 0.4 else set()
        prods = []
        for a in range(n):
            alts = []
            for _ in range(rng.randint(1, 2 if n > 1 else 3)):
                alt = [self.fresh()]
                for _ in range(rng.randint(0, 3)):
                    r = rng.randrange(8)
                    if r == 0:
                        alt.append(self.fresh())
                    elif r == 1:
                        alt.append(self.nt(n, a, True) or self.fresh())
                    elif r in (2, 3):
                        alt.append(('r', self.body(n)))
                    elif r == 4:
                        alt.append(('o', self.body(n)))
                    elif r == 5:
                        # group with two alternatives, each starting with its own fresh terminal
                        alt.append(('g', self.body(n, a, True) + self.body(n, a, True)))
                    else:
                        # nested: a repetition / optional directly inside a repetition / optional body (all four forms),
                        # the inner one in the middle or at the end of the body
                        inner = self.body(n)
                        nested = (rng.choice(['r', 'r', 'o']), self.body(n))
                        if rng.random() < 0.5:
                            inner[0].append(nested)
                        else:
                            inner[0].insert(1, nested)
                        alt.append((rng.choice(['o', 'r', 'r']), inner))
                alt.append(self.fresh())
                alts.append(alt)
            prods.append((a, alts))
        return dict(n=n, prods=prods)


NAMES = ['Start', 'Beta', 'Gamma']


def letter(t):
    return chr(ord('a') + t)


def par_factor(f):
    if f[0] == 't':
        return '"%s"%s' % (letter(f[1]), '^' if f[2] else '')
    if f[0] == 'n':
        return NAMES[f[1]] + ('^' if f[2] else '')
    inner = ' | '.join(' '.join(par_factor(x) for x in alt) for alt in f[1])
    return {'r': '{ %s }', 'o': '[ %s ]', 'g': '( %s )'}[f[0]] % inner


def nt_refs(g):
    """non-terminal index -> list of clipped flags of all its references"""
    refs = {}
    def walk(f):
        if f[0] == 'n':
            refs.setdefault(f[1], []).append(f[2])
        elif f[0] in ('r', 'o', 'g'):
            for alt in f[1]:
                for x in alt:
                    walk(x)
    for _, alts in g['prods']:
        for alt in alts:
            for f in alt:
                walk(f)
    return refs


def par_text(g, lalr):
    s = '%start Start\n'
    if lalr:
        s += "%grammar_type 'lalr(1)'\n"
    # a user type on a non-terminal that is only ever referenced clipped needs no conversion code (its values are
    # dropped), but the adapter must still pop them
    for a in g.get('nt_types', []):
        s += '%%nt_type %s = crate::MyUser\n' % NAMES[a]
    s += '%%\n'
    for a, alts in g['prods']:
        s += '%s: %s;\n' % (NAMES[a], ' | '.join(' '.join(par_factor(f) for f in alt) for alt in alts))
    return s


def sentence(g, rng, depth=0):
    """A random sentence of non-terminal 0: list of (terminal letter index, visible) where visible = the token is neither
    clipped itself nor inside a clipped non-terminal occurrence (so it must appear in the AST)."""
    def alts_of(a):
        return [alts for (x, alts) in g['prods'] if x == a][0]

    def cost(al):
        return json.dumps(al).count('"n"')

    def gen_alt(alt, d, vis):
        out = []
        for f in alt:
            out += gen_f(f, d, vis)
        return out

    def gen_f(f, d, vis):
        if f[0] == 't':
            return [(f[1], vis and not f[2])]
        if f[0] == 'n':
            alts = alts_of(f[1])
            alt = min(alts, key=cost) if d > 3 else rng.choice(alts)
            return gen_alt(alt, d + 1, vis and not f[2])
        if f[0] == 'r':
            k = 0 if d > 3 else rng.choice([0, 1, 1, 2, 3])
            out = []
            for _ in range(k):
                out += gen_alt(rng.choice(f[1]), d + 1, vis)
            return out
        if f[0] == 'o':
            if d > 3 or rng.random() < 0.4:
                return []
            return gen_alt(rng.choice(f[1]), d + 1, vis)
        return gen_alt(rng.choice(f[1]), d + 1, vis)
    return gen_f(('n', 0, False), depth, True)


# ------------------------------------------------------------------------------------------ crate
def snake(name):
    return re.sub(r'(?<!^)(?=[A-Z])', '_', name).lower()


def write_module(i, d):
    """User grammar struct for module i from the generated trait file: overrides every non-terminal action."""
    trait = open(os.path.join(d, 'g%d_grammar_trait.rs' % i)).read()
    m = re.search(r'pub trait G%dGrammarTrait(<\'t>)?\s*\{(.*?)\n\}\n' % i, trait, re.S)
    if not m:
        return None
    lt = m.group(1) or ''
    fns = re.findall(r"fn (\w+)\(&mut self, _arg: &(\w+)(<'t>)?\) -> Result<\(\)>", m.group(2))
    body = ''
    for (fname, ty, tlt) in fns:
        if ty == 'Start':
            body += "    fn %s(&mut self, arg: &%s%s) -> Result<()> { self.calls.push(\"%s\"); self.start.push(format!(\"{:?}\", arg)); Ok(()) }\n" % (fname, ty, tlt or '', ty)
        else:
            body += "    fn %s(&mut self, _arg: &%s%s) -> Result<()> { self.calls.push(\"%s\"); Ok(()) }\n" % (fname, ty, tlt or '', ty)
    src = ("use crate::g%d_grammar_trait::*;\nuse parol_runtime::Result;\n\n#[derive(Default)]\npub struct G%dGrammar%s { pub calls: Vec<&'static str>, pub start: Vec<String>%s }\n"
           % (i, i, lt, ", pub ph: std::marker::PhantomData<&'t str>" if lt else ''))
    src += "impl%s G%dGrammar%s { pub fn new() -> Self { Self::default() } }\n" % (lt, i, lt)
    src += "impl%s G%dGrammarTrait%s for G%dGrammar%s {\n%s}\n" % (lt, i, lt, i, lt, body)
    open(os.path.join(d, 'g%d_grammar.rs' % i), 'w').write(src)
    return [f[1] for f in fns]


def build_crate(jobs):
    """jobs: list of (index, par text, inputs). Returns {index: status}."""
    shutil.rmtree(CRATE, ignore_errors=True)
    src = os.path.join(CRATE, 'src')
    os.makedirs(src)
    open(os.path.join(CRATE, 'Cargo.toml'), 'w').write(
        '[package]\nname = "astrun"\nversion = "0.1.0"\nedition = "2024"\n\n[workspace]\n\n[dependencies]\n'
        'parol_runtime = { path = "/repo/crates/parol_runtime" }\nscnr2 = "0.5.2"\n\n[profile.dev]\nopt-level = 0\ndebug = false\n')
    os.makedirs(os.path.join(CRATE, '.cargo'))
    open(os.path.join(CRATE, '.cargo', 'config.toml'), 'w').write('[net]\noffline = true\n[build]\ntarget-dir = "%s"\n' % os.path.join(cl.VERIF, 'target', 'astrun'))
    shutil.copy(os.path.join(cl.HARNESS, 'Cargo.lock'), os.path.join(CRATE, 'Cargo.lock'))
    status = {}

    def gen(job):
        i, text, _ = job
        par = os.path.join(src, 'g%d.par' % i)
        open(par, 'w').write(text)
        cmd = [PAROL_BIN, '-f', par, '-p', os.path.join(src, 'g%d_parser.rs' % i), '-a', os.path.join(src, 'g%d_grammar_trait.rs' % i),
               '-t', 'G%dGrammar' % i, '-m', 'g%d_grammar' % i, '-k', '3']
        p = subprocess.run(cmd, stdout=subprocess.PIPE, stderr=subprocess.STDOUT, text=True, timeout=300)
        ok = p.returncode == 0 and os.path.exists(os.path.join(src, 'g%d_parser.rs' % i))
        q = subprocess.run([PAROL_BIN, 'export', '-f', par, '-k', '3', '-o', os.path.join(src, 'g%d.json' % i)], stdout=subprocess.PIPE, stderr=subprocess.STDOUT, text=True, timeout=300)
        return i, ok and q.returncode == 0

    from concurrent.futures import ThreadPoolExecutor
    with ThreadPoolExecutor(max_workers=cl.NCPU) as ex:
        for i, ok in ex.map(gen, jobs):
            status[i] = 'generated' if ok else 'rejected'
    mods = ''
    runs = ''
    for i, text, inputs in jobs:
        if status[i] != 'generated':
            for f in ('g%d_parser.rs' % i, 'g%d_grammar_trait.rs' % i):
                try:
                    os.remove(os.path.join(src, f))
                except OSError:
                    pass
            continue
        if write_module(i, src) is None:
            status[i] = 'no-trait'
            continue
        mods += '#[allow(dead_code, unused_imports, clippy::all)]\nmod g%d_grammar;\n#[allow(dead_code, unused_imports, clippy::all)]\nmod g%d_grammar_trait;\n#[allow(dead_code, unused_imports, clippy::all)]\nmod g%d_parser;\n' % (i, i, i)
        arr = ', '.join(json.dumps(' '.join(letter(t) for t, _ in s)) for s in inputs)
        runs += ('    for (j, inp) in [%s].iter().enumerate() {\n        let mut g = g%d_grammar::G%dGrammar::new();\n'
                 '        let r = std::panic::catch_unwind(std::panic::AssertUnwindSafe(|| g%d_parser::parse(inp, "in", &mut g).map(|_| ()).map_err(|e| format!("{:?}", e).replace(char::from(10u8), " ").chars().take(300).collect::<String>())));\n'
                 '        println!("CASE %d {} {}", j, match &r { Ok(Ok(())) => "ok", Ok(Err(_)) => "err", Err(_) => "panic" });\n'
                 '        if let Ok(Err(e)) = &r { println!("ERROR {}", e); }\n'
                 '        println!("CALLS {}", g.calls.join(" "));\n        for s in &g.start { println!("AST {}", s); }\n    }\n') % (arr if arr else '""', i, i, i, i)
    open(os.path.join(src, 'main.rs'), 'w').write(mods + '\nfn main() {\n    std::panic::set_hook(Box::new(|_| {}));\n' + runs + '}\n')
    env = dict(os.environ, CARGO_NET_OFFLINE='true')
    p = subprocess.run('cargo build --offline 2>&1', shell=True, cwd=CRATE, env=env, stdout=subprocess.PIPE, text=True, timeout=3000)
    if p.returncode != 0 and cl.is_cache_damage(p.stdout) and not re.search(r'src/g\d+_', p.stdout):
        shutil.rmtree(os.path.join(cl.VERIF, 'target', 'astrun'), ignore_errors=True)
        p = subprocess.run('cargo build --offline 2>&1', shell=True, cwd=CRATE, env=env, stdout=subprocess.PIPE, text=True, timeout=3000)
    return status, p.returncode, p.stdout


def run_crate():
    exe = os.path.join(cl.VERIF, 'target', 'astrun', 'debug', 'astrun')
    p = subprocess.run([exe], stdout=subprocess.PIPE, stderr=subprocess.DEVNULL, text=True, timeout=3000)
    out = {}
    cur = None
    for line in p.stdout.split('\n'):
        if line.startswith('CASE '):
            _, i, j, st = line.split(' ')
            cur = out.setdefault((int(i), int(j)), dict(status=st, calls=[], asts=[]))
        elif line.startswith('ERROR ') and cur is not None:
            cur['error'] = line[6:]
        elif line.startswith('CALLS') and cur is not None:
            cur['calls'] = line.split(' ')[1:]
        elif line.startswith('AST ') and cur is not None:
            cur['asts'].append(line[4:])
    return out


# ------------------------------------------------------------------------------------------ Debug text -> tree
TOKEN = re.compile(r'\s*([A-Za-z_][A-Za-z0-9_]*|\{|\}|\(|\)|\[|\]|,|:|"(?:\\.|[^"\\])*"|-?[0-9]+(?:\.\.[0-9]+)?|\.\.)')


def parse_debug(s):
    toks = TOKEN.findall(s)
    pos = 0

    def peek():
        return toks[pos] if pos < len(toks) else None

    def eat(x=None):
        nonlocal pos
        t = toks[pos]
        if x is not None and t != x:
            raise ValueError('expected %r got %r at %d' % (x, t, pos))
        pos += 1
        return t

    def value():
        t = eat()
        if t == '[':
            items = []
            while peek() != ']':
                items.append(value())
                if peek() == ',':
                    eat()
            eat(']')
            return ('vec', items)
        if t.startswith('"') or re.match(r'-?[0-9]', t):
            return ('lit', t)
        # identifier: struct, tuple variant/newtype, unit
        name = t
        if peek() == '{':
            eat('{')
            fields = []
            while peek() != '}':
                fname = eat()
                eat(':')
                fields.append((fname, value()))
                if peek() == ',':
                    eat()
            eat('}')
            return ('struct', name, fields)
        if peek() == '(':
            eat('(')
            args = []
            while peek() != ')':
                args.append(value())
                if peek() == ',':
                    eat()
            eat(')')
            return ('tuple', name, args)
        return ('unit', name)
    v = value()
    return v


def normalize(v):
    """Name-free tree: ('tok', text, number) | ('s', [children]) | ('w', child) | ('vec', [..]) | ('some', x) | ('none',)"""
    k = v[0]
    if k == 'vec':
        return ('vec', [normalize(x) for x in v[1]])
    if k == 'unit':
        return ('none',) if v[1] == 'None' else ('s', [])
    if k == 'tuple':
        if v[1] == 'Some' and len(v[2]) == 1:
            return ('some', normalize(v[2][0]))
        if len(v[2]) == 1:
            return ('w', normalize(v[2][0]))
        return ('s', [normalize(x) for x in v[2]])
    if k == 'struct':
        if v[1] == 'Token':
            f = dict(v[2])
            text = json.loads(f['text'][1]) if f.get('text', ('', ''))[0] == 'lit' else '?'
            num = int(f['token_number'][1]) if 'token_number' in f else -1
            return ('tok', text, num)
        return ('s', [normalize(x) for _, x in v[2]])
    return ('lit', v[1])


def flatten(n):
    k = n[0]
    if k == 'tok':
        return [n]
    if k in ('vec', 's'):
        return [t for c in n[1] for t in flatten(c)]
    if k in ('w', 'some'):
        return flatten(n[1])
    return []


def to_sx(n):
    k = n[0]
    if k == 'tok':
        return '(t %d)' % (5 + ord(n[1]) - ord('a')) if len(n[1]) == 1 and 'a' <= n[1] <= 'z' else '(t 999)'
    if k == 'vec':
        return '(v %s)' % ' '.join(to_sx(c) for c in n[1])
    if k == 's':
        return '(s %s)' % ' '.join(to_sx(c) for c in n[1])
    if k == 'w':
        return '(w %s)' % to_sx(n[1])
    if k == 'some':
        return '(some %s)' % to_sx(n[1])
    return '(none)'


# ------------------------------------------------------------------------------------------ export model -> driver S-expressions
def export_sx(ev):
    """(kind tables attributed-productions) from the JSON of `parol export`.
    attributed production: (lhs attr ((sym sattr) ...)) with sym = terminal index | -(nt+1);
    attr in 0 None, 1 CollectionStart, 2 AddToCollection, 3 OptionalSome, 4 OptionalNone;
    sattr in 0 None, 1 RepetitionAnchor, 2 Option, 3 Clipped."""
    pattr = {'None': 0, 'CollectionStart': 1, 'AddToCollection': 2, 'OptionalSome': 3, 'OptionalNone': 4}
    sattr = {'None': 0, 'RepetitionAnchor': 1, 'Option': 2, 'Clipped': 3}
    dts = {d['production_index']: d for d in ev['production_datatypes']}
    aprods = []
    prods_ll = []
    prods_lr = []
    for p in ev['productions']:
        i = p['production_index']
        syms = []
        for y in p['rhs']:
            if 'NonTerminal' in y:
                syms.append((-(y['NonTerminal'] + 1), None))
            else:
                syms.append((y['Terminal']['index'], y['Terminal'].get('clipped', False)))
        d = dts.get(i)
        mem = d['members'] if d else []
        # members correspond to the rhs symbols in order
        items = []
        for k, (sy, clipped) in enumerate(syms):
            sa = sattr.get(mem[k]['symbol_attribute'], 0) if k < len(mem) else (3 if clipped else 0)
            items.append('(%d %d)' % (sy, sa))
        pa = pattr.get(d['production_attribute'], 0) if d else 0
        aprods.append('(%d %d (%s))' % (p['lhs_index'], pa, ' '.join(items)))
        push = 1 if pa == 2 else 0
        prods_ll.append('(%d (%s) %d)' % (p['lhs_index'], ' '.join(str(sy) for sy, _ in reversed(syms)), push))
        prods_lr.append('(%d %d)' % (p['lhs_index'], len(syms)))
    nnt = len(ev['non_terminal_names'])
    nterm = max([t['index'] for t in ev['scanner']['terminals']] + [5]) + 2
    if ev.get('lalr_parse_table'):
        t = ev['lalr_parse_table']
        def act(a):
            if a == 'Accept':
                return '(a)'
            if 'Shift' in a:
                return '(s %d)' % a['Shift']
            r = a['Reduce']
            return '(r %d %d)' % ((r[0], r[1]) if isinstance(r, list) else (r['non_terminal_index'], r['production_index']))
        acts = ' '.join(act(a) for a in t['actions'])
        states = ' '.join('((%s) (%s))' % (' '.join('(%d %d)' % tuple(x) for x in st['actions']), ' '.join('(%d %d)' % tuple(x) for x in st['gotos'])) for st in t['states'])
        tables = '((%s) (%s) (%s) %d %d %d)' % (acts, states, ' '.join(prods_lr), ev['start_symbol_index'], nterm, nnt)
        kind = 'lr'
    else:
        autos = sorted(ev['lookahead_automata'], key=lambda a: a['non_terminal_index'])
        asx = ' '.join('(%d %d (%s))' % (a['prod0'], a['k'], ' '.join('(%d %d %d %d)' % (t['from_state'], t['term'], t['to_state'], t['prod_num']) for t in a['transitions'])) for a in autos)
        k = max([a['k'] for a in autos] + [0])
        tables = '((%s) (%s) %d %d %d %d)' % (' '.join(prods_ll), asx, ev['start_symbol_index'], k, nterm, nnt)
        kind = 'll'
    return kind, tables, '(%s)' % ' '.join(aprods)


def term_index_map(ev):
    return {t['pattern']: t['index'] for t in ev['scanner']['terminals']}


# ------------------------------------------------------------------------------------------ the check
def c23(pid, spec, tier, seed):
    import lschecks
    lschecks.build_parol_bin()
    res = lschecks.new_result()
    rng = random.Random(seed ^ 0x23)
    ng = 70 if tier == 'thorough' else 10
    ns = 24 if tier == 'thorough' else 16
    jobs, meta = [], {}
    i = 0
    while len(jobs) < 2 * ng:
        g = Gen(rng).grammar()
        sents = [sentence(g, rng) for _ in range(ns)]
        sents = [s for s in sents if len(s) <= 60]
        for lalr in (False, True):
            text = par_text(g, lalr)
            jobs.append((i, text, sents))
            meta[i] = dict(g=g, text=text, lalr=lalr, sents=sents,
                           start_recursive=any('"n", 0' in json.dumps(alts) for _, alts in g['prods']))
            i += 1
    dropped = []
    for attempt in range(4):
        status, rc, out = build_crate(jobs)
        if rc == 0:
            break
        # generated code that does not compile is C22's subject: drop the offending module(s) and go on
        bad = sorted(set(int(m) for m in re.findall(r'src/g(\d+)_', out)))
        if not bad:
            raise cl.MachineryError('scratch crate of generated parsers does not build:\n' + out[-3000:])
        dropped += bad
        jobs = [j for j in jobs if j[0] not in bad]
    else:
        raise cl.MachineryError('scratch crate of generated parsers does not build after dropping modules %s:\n%s' % (dropped, out[-2000:]))
    for b in dropped:
        res['skipped'] += 1
        res['skip_reasons']['generated code does not compile (C22, not claimed)'] = res['skip_reasons'].get('generated code does not compile (C22, not claimed)', 0) + 1
        res['notes'].append('generated code of a grammar did not compile: ' + meta[b]['text'][:300])
    runs = run_crate()
    lines, line_case = [], []
    for (i, text, sents) in jobs:
        if status.get(i) != 'generated':
            res['evaluations'] += 1
            res['skipped'] += 1
            r = 'parol rejects the grammar (%s)' % ('lalr' if meta[i]['lalr'] else 'll')
            res['skip_reasons'][r] = res['skip_reasons'].get(r, 0) + 1
            continue
        ev = json.load(open(os.path.join(CRATE, 'src', 'g%d.json' % i)))
        kind, tables, aprods = export_sx(ev)
        tmap = term_index_map(ev)
        for j, s in enumerate(sents):
            r = runs.get((i, j))
            case = json.dumps(dict(grammar=text, input=' '.join(letter(t) for t, _ in s)))
            res['evaluations'] += 1
            if r is None:
                lschecks.fail(res, 'no-output', 'the generated parser produced no output for this input', case)
                continue
            if r['status'] == 'panic':
                lschecks.fail(res, 'adapter-panic', 'the generated parser/adapter panicked', case)
                continue
            if r['status'] != 'ok':
                err = r.get('error', '')
                if 'InternalError' in err or 'ASTType' in err or 'UserError' in err:
                    lschecks.fail(res, 'adapter-error', 'a sentence of the grammar is rejected with an internal error of the generated adapter: ' + err[:200], case)
                elif not meta[i]['lalr']:
                    # the grammar was accepted as LL(k), hence is unambiguous, and the sentence was derived from it
                    lschecks.fail(res, 'sentence-rejected', 'the generated LL(k) parser rejects a sentence of its grammar: ' + err[:200], case)
                else:
                    res['skipped'] += 1
                    res['skip_reasons']['sentence rejected by the generated LALR(1) parser (resolved conflicts)'] = res['skip_reasons'].get('sentence rejected by the generated LALR(1) parser (resolved conflicts)', 0) + 1
                continue
            nstart = r['calls'].count('Start')
            if nstart != 1 or len(r['asts']) != 1:
                if meta[i]['start_recursive'] and nstart >= 1:
                    lschecks.fail(res, 'start-action-per-occurrence-recursive-start',
                                  'the start symbol occurs on a right-hand side and its user action was called %d times (once per occurrence; the last call carries the whole AST)' % nstart, case)
                else:
                    lschecks.fail(res, 'start-action-count', 'the start symbol\'s user action was called %d times' % nstart, case)
                    continue
            if r['calls'] and r['calls'][-1] != 'Start':
                lschecks.fail(res, 'start-action-not-last', 'the last user action is %s, not the start symbol\'s' % r['calls'][-1], case)
                continue
            try:
                tree = normalize(parse_debug(r['asts'][-1]))
            except Exception as e:
                raise cl.MachineryError('cannot read Debug output %r: %s' % (r['asts'][-1][:200], e))
            toks = flatten(tree)
            want = [letter(t) for t, vis in s if vis]
            got = [t[1] for t in toks]
            nums = [t[2] for t in toks]
            if got != want:
                lschecks.fail(res, 'ast-tokens-differ', 'tokens of the AST read in order are %s, the input\'s non-clipped tokens are %s' % (' '.join(got), ' '.join(want)), case)
                continue
            if any(b <= a for a, b in zip(nums, nums[1:])):
                lschecks.fail(res, 'ast-token-order', 'token numbers in the AST are not increasing: %s' % nums, case)
                continue
            # model comparison (driver): attributed grammar + tables + input + real AST shape
            inp = ' '.join(str(tmap.get(letter(t), 999)) for t, _ in s)
            def sx(n):
                k = n[0]
                if k == 'tok':
                    return '(t %d)' % tmap.get(n[1], 999)
                if k in ('vec', 's'):
                    return '(%s %s)' % ('v' if k == 'vec' else 's', ' '.join(sx(c) for c in n[1]))
                if k in ('w', 'some'):
                    return '(%s %s)' % (k, sx(n[1]))
                return '(none)'
            ntn = ev['non_terminal_names']
            user = ' '.join(str(ntn.index(n)) for n in NAMES if n in ntn)
            rcalls = ' '.join(str(ntn.index(n)) if n in ntn else '999' for n in r['calls'])
            lines.append('(ast %s %s %s (%s) (%s) (%s) %s)' % (kind, tables, aprods, user, inp, rcalls, sx(tree)))
            line_case.append(case)
    if lines and spec.get('use_model', True):
        before = len(res['failures'])
        lschecks.drv_lines(pid, lines, res, 'ast')
        # drv_lines counted the evaluations again: undo the double count
        res['evaluations'] -= len(lines)
        for f in res['failures'][before:]:
            pass
    else:
        for c in line_case:
            res['ok'] += 1
    shutil.rmtree(CRATE, ignore_errors=True)
    return res
