(** * A verified general context-free recogniser (the membership oracle).

    [member fuel g w] decides [lang g w] for an ARBITRARY context-free grammar (left-recursive,
    cyclic, nullable, ambiguous ... all fine).  [member_from fuel g alpha w] decides
    [derives g alpha w] for an arbitrary sentential form [alpha].

    Algorithm: a CYK/Earley-style table.  [tget tb a s] is a set of end positions [j] such that
    non-terminal [a] derives [w[s..j)].  One *round* visits every pair (production [p], start
    position [s]), start positions in DESCENDING order (Gauss-Seidel: later updates of a round
    already see the earlier ones, so right-recursive lists need one or two rounds, not n), computes
    the set of end positions of [rhs p] from [s] with the current table ([run]: a left-to-right
    pass over the right-hand side carrying a *set* of positions, so no exponential enumeration of
    split points) and adds what is new to the row of [(lhs p, s)].  Rounds are repeated until a
    whole round changes nothing ([fuel] = maximal number of rounds).

    - soundness: every table reachable from the empty one only contains derivable facts;
    - completeness needs no pigeonhole: an answer is returned only after a round that changed
      nothing, such a table is closed under all productions, and a closed table contains every
      derivable fact (induction on the derivation);
    - [member_fuel]: every changing round strictly enlarges the table inside a finite universe
      of [|prods| * (n+1)^2] facts, so that many rounds (+1) always suffice.

    The table is a binary trie over [positive] keyed by non-terminal and then by start
    position; position sets are small duplicate-free lists. *)
From Coq Require Import List NArith PArith Pnat Arith Bool Lia.
From Parol Require Import Grammar.Cfg.
Import ListNotations.

(** ** Generic list lemmas *)

Lemma app_eq_len {A} (l1 : list A) : forall l2 r1 r2,
  l1 ++ r1 = l2 ++ r2 -> length l1 = length l2 -> l1 = l2 /\ r1 = r2.
Proof.
  induction l1 as [|x l1 IH]; intros [|y l2] r1 r2 E L; simpl in *; try discriminate.
  - split; [reflexivity|exact E].
  - inversion E as [[Exy E']]. apply IH in E' as [E1 E2]; [|lia]. subst. split; reflexivity.
Qed.

Lemma forallb_false_ex {A} (f : A -> bool) l :
  forallb f l = false -> exists x, In x l /\ f x = false.
Proof.
  induction l as [|a l IH]; simpl; intros H; [discriminate|].
  destruct (f a) eqn:Fa.
  - simpl in H. destruct (IH H) as (x & Hx & Hf). exists x. split; [right; exact Hx|exact Hf].
  - exists a. split; [left; reflexivity|exact Fa].
Qed.

Lemma filter_length_bound {A} (f : A -> bool) l : length (filter f l) <= length l.
Proof. induction l as [|a l IH]; simpl; [lia|]. destruct (f a); simpl; lia. Qed.

Lemma filter_length_mono {A} (f h : A -> bool) l :
  (forall x, In x l -> f x = true -> h x = true) ->
  length (filter f l) <= length (filter h l).
Proof.
  induction l as [|a l IH]; intros Hm; simpl; [lia|].
  assert (Hm' : forall y, In y l -> f y = true -> h y = true)
    by (intros y Hy; apply Hm; right; exact Hy).
  specialize (IH Hm'). destruct (f a) eqn:Fa.
  - rewrite (Hm a (or_introl eq_refl) Fa). simpl. lia.
  - destruct (h a); simpl; lia.
Qed.

Lemma filter_length_strict {A} (f h : A -> bool) l :
  (forall x, In x l -> f x = true -> h x = true) ->
  (exists x, In x l /\ f x = false /\ h x = true) ->
  length (filter f l) < length (filter h l).
Proof.
  intros Hm (x & Hx & Hf & Hh). induction l as [|a l IH]; [destruct Hx|].
  assert (Hm' : forall y, In y l -> f y = true -> h y = true)
    by (intros y Hy; apply Hm; right; exact Hy).
  pose proof (filter_length_mono f h l Hm') as Hle.
  simpl. destruct Hx as [->|Hx].
  - rewrite Hf, Hh. simpl. lia.
  - specialize (IH Hm' Hx). destruct (f a) eqn:Fa.
    + rewrite (Hm a (or_introl eq_refl) Fa). simpl. lia.
    + destruct (h a); simpl; lia.
Qed.

Lemma flat_map_length_const {A B} (f : A -> list B) (k : nat) l :
  (forall x, In x l -> length (f x) = k) -> length (flat_map f l) = length l * k.
Proof.
  induction l as [|a l IH]; intros H; simpl; [reflexivity|].
  rewrite app_length, IH, (H a (or_introl eq_refl)); [lia|].
  intros x Hx. apply H. right. exact Hx.
Qed.

(** ** Small sets of positions: duplicate-free lists of [nat] *)

Fixpoint ps_mem (x : nat) (l : list nat) : bool :=
  match l with
  | [] => false
  | y :: l' => Nat.eqb x y || ps_mem x l'
  end.

Lemma ps_mem_In x l : ps_mem x l = true <-> In x l.
Proof.
  induction l as [|y l IH]; simpl.
  - split; [discriminate|tauto].
  - rewrite orb_true_iff, IH, Nat.eqb_eq. split; intros [H|H]; auto.
Qed.

Definition ps_add (x : nat) (l : list nat) : list nat := if ps_mem x l then l else x :: l.

Lemma in_ps_add j x l : In j (ps_add x l) <-> j = x \/ In j l.
Proof.
  unfold ps_add. destruct (ps_mem x l) eqn:E; simpl.
  - apply ps_mem_In in E. split; [auto|]. intros [->|H]; auto.
  - split; intros [H|H]; auto.
Qed.

(** [ps_union l1 l2]: the elements of [l1] inserted into [l2]. *)
Definition ps_union (l1 l2 : list nat) : list nat := fold_right ps_add l2 l1.

Lemma in_ps_union j l1 l2 : In j (ps_union l1 l2) <-> In j l1 \/ In j l2.
Proof.
  unfold ps_union. induction l1 as [|x l1 IH]; simpl.
  - tauto.
  - rewrite in_ps_add, IH. split.
    + intros [H|[H|H]]; auto.
    + intros [[H|H]|H]; auto.
Qed.

Definition ps_subset (l1 l2 : list nat) : bool := forallb (fun x => ps_mem x l2) l1.

Lemma ps_subset_true l1 l2 : ps_subset l1 l2 = true -> forall j, In j l1 -> In j l2.
Proof.
  unfold ps_subset. intros H j Hj. rewrite forallb_forall in H. apply ps_mem_In, H, Hj.
Qed.

Lemma ps_subset_false l1 l2 : ps_subset l1 l2 = false -> exists j, In j l1 /\ ~ In j l2.
Proof.
  unfold ps_subset. intros H. apply forallb_false_ex in H as (j & Hj & Hm).
  exists j. split; [exact Hj|]. intros Hin. apply ps_mem_In in Hin. congruence.
Qed.

(** ** A minimal binary trie keyed by [positive] (own copy: keeps the extracted code small) *)

Inductive ptree (A : Type) : Type :=
| PLeaf
| PNode (l : ptree A) (o : option A) (r : ptree A).
Arguments PLeaf {A}.
Arguments PNode {A} l o r.

Fixpoint pfind {A} (i : positive) (m : ptree A) {struct i} : option A :=
  match m with
  | PLeaf => None
  | PNode l o r =>
      match i with
      | xH => o
      | xO j => pfind j l
      | xI j => pfind j r
      end
  end.

Fixpoint padd {A} (i : positive) (v : A) (m : ptree A) {struct i} : ptree A :=
  match m with
  | PLeaf =>
      match i with
      | xH => PNode PLeaf (Some v) PLeaf
      | xO j => PNode (padd j v PLeaf) None PLeaf
      | xI j => PNode PLeaf None (padd j v PLeaf)
      end
  | PNode l o r =>
      match i with
      | xH => PNode l (Some v) r
      | xO j => PNode (padd j v l) o r
      | xI j => PNode l o (padd j v r)
      end
  end.

Lemma pfind_leaf {A} i : pfind i (@PLeaf A) = None.
Proof. destruct i; reflexivity. Qed.

Lemma pgss {A} i : forall (v : A) m, pfind i (padd i v m) = Some v.
Proof. induction i as [i IH|i IH|]; intros v [|l o r]; cbn [pfind padd]; auto. Qed.

Lemma pgso {A} i : forall j (v : A) m, i <> j -> pfind i (padd j v m) = pfind i m.
Proof.
  induction i as [i IH|i IH|]; intros [j|j|] v [|l o r] H; cbn [pfind padd];
    rewrite ?pfind_leaf; try reflexivity; try congruence;
    rewrite IH by congruence; rewrite ?pfind_leaf; reflexivity.
Qed.

(** ** The table: non-terminal -> start position -> set of end positions *)

Definition table := ptree (ptree (list nat)).
Definition tempty : table := PLeaf.
Definition kN (a : N) : positive := N.succ_pos a.
Definition kn (s : nat) : positive := Pos.of_succ_nat s.

Lemma kN_inj a b : kN a = kN b -> a = b.
Proof.
  unfold kN. intros H. apply (f_equal Pos.pred_N) in H.
  rewrite !N.pos_pred_succ in H. exact H.
Qed.

Lemma kn_inj a b : kn a = kn b -> a = b.
Proof. apply SuccNat2Pos.inj. Qed.

Definition tget (tb : table) (a : N) (s : nat) : list nat :=
  match pfind (kN a) tb with
  | Some m => match pfind (kn s) m with Some l => l | None => [] end
  | None => []
  end.

Definition tset (tb : table) (a : N) (s : nat) (l : list nat) : table :=
  let m := match pfind (kN a) tb with Some m => m | None => PLeaf end in
  padd (kN a) (padd (kn s) l m) tb.

Lemma tget_tempty a s : tget tempty a s = [].
Proof. unfold tget, tempty. rewrite pfind_leaf. reflexivity. Qed.

Lemma tget_tset_same tb a s l : tget (tset tb a s l) a s = l.
Proof. unfold tget, tset. rewrite pgss, pgss. reflexivity. Qed.

Lemma tget_tset_other tb a s l a' s' :
  a' <> a \/ s' <> s -> tget (tset tb a s l) a' s' = tget tb a' s'.
Proof.
  intros H. unfold tget, tset.
  destruct (N.eq_dec a' a) as [->|Ha].
  - rewrite pgss. destruct H as [H|H]; [congruence|].
    rewrite pgso by (intros E; apply kn_inj in E; congruence).
    destruct (pfind (kN a) tb); [reflexivity|]. rewrite pfind_leaf. reflexivity.
  - rewrite pgso by (intros E; apply kN_inj in E; congruence). reflexivity.
Qed.

(** ** The recogniser for a fixed grammar and input *)

Section Recognise.
  Variable g : cfg.
  Variable w : list N.

  (** Positions after reading terminal [t] from one of the positions [ps]. *)
  Definition step_T (t : N) (ps : list nat) : list nat :=
    flat_map (fun p => match nth_error w p with
                       | Some t' => if N.eqb t' t then [S p] else []
                       | None => []
                       end) ps.

  (** Positions after reading (according to table [tb]) non-terminal [b] from one of [ps]. *)
  Definition step_NT (tb : table) (b : N) (ps : list nat) : list nat :=
    fold_right (fun p acc => ps_union (tget tb b p) acc) [] ps.

  (** End positions of the sentential form [alpha] started at one of the positions [ps]. *)
  Fixpoint run (tb : table) (alpha : list sym) (ps : list nat) : list nat :=
    match alpha with
    | [] => ps
    | T t :: alpha' => run tb alpha' (step_T t ps)
    | NT b :: alpha' => run tb alpha' (step_NT tb b ps)
    end.

  (** One update: production [p] at start position [s]; the flag records whether anything
      was added. An update that adds nothing returns the table unchanged. *)
  Definition upd (st : table * bool) (x : prod * nat) : table * bool :=
    let '(tb, ch) := st in
    let '(p, s) := x in
    let es := run tb (rhs p) [s] in
    let row := tget tb (lhs p) s in
    if ps_subset es row then (tb, ch) else (tset tb (lhs p) s (ps_union es row), true).

  (** The schedule of one round: all (production, start position) pairs, start positions
      descending; for each start position the productions are visited in grammar order and then
      once more in reverse order (measured: whatever the order in which the grammar lists its
      non-terminals, chains of unit/left-corner productions are then resolved in very few
      rounds).  Correctness only needs: every entry is a valid pair, every pair occurs. *)
  Definition work : list (prod * nat) :=
    flat_map (fun s => map (fun p => (p, s)) (prods g ++ rev (prods g)))
             (rev (seq 0 (S (length w)))).

  Definition round (wk : list (prod * nat)) (tb : table) : table * bool :=
    fold_left upd wk (tb, false).

  Fixpoint saturate (wk : list (prod * nat)) (fuel : nat) (tb : table) : option table :=
    match fuel with
    | 0 => None
    | S f => let '(tb', ch) := round wk tb in
             if ch then saturate wk f tb' else Some tb'
    end.

  (** *** Occurrences of a string inside [w] *)

  Definition occurs_at (p : nat) (u : list N) : Prop :=
    exists pre post, w = pre ++ u ++ post /\ length pre = p.

  Lemma occ_len p u : occurs_at p u -> p + length u <= length w.
  Proof. intros (pre & post & E & L). rewrite E, !app_length. lia. Qed.

  Lemma occ_nil p : p <= length w -> occurs_at p [].
  Proof.
    intros H. exists (firstn p w), (skipn p w). simpl. rewrite firstn_skipn.
    split; [reflexivity|]. apply firstn_length_le. exact H.
  Qed.

  Lemma occ_one p t : nth_error w p = Some t -> occurs_at p [t].
  Proof.
    intros H. apply nth_error_split in H as (l1 & l2 & E & L).
    exists l1, l2. split; [exact E|exact L].
  Qed.

  Lemma occ_cons p t u : occurs_at p (t :: u) -> nth_error w p = Some t /\ occurs_at (S p) u.
  Proof.
    intros (pre & post & E & L). split.
    - rewrite E. rewrite nth_error_app2 by lia. rewrite L, Nat.sub_diag. reflexivity.
    - exists (pre ++ [t]), post. split.
      + rewrite <- app_assoc. exact E.
      + rewrite app_length. simpl. lia.
  Qed.

  Lemma occ_split p u v : occurs_at p (u ++ v) -> occurs_at p u /\ occurs_at (p + length u) v.
  Proof.
    intros (pre & post & E & L). rewrite <- app_assoc in E. split.
    - exists pre, (v ++ post). split; assumption.
    - exists (pre ++ u), post. split; [rewrite <- app_assoc; exact E|rewrite app_length; lia].
  Qed.

  Lemma occ_app p u v : occurs_at p u -> occurs_at (p + length u) v -> occurs_at p (u ++ v).
  Proof.
    intros (pre & post & E & L) (pre' & post' & E' & L').
    assert (H : (pre ++ u) ++ post = pre' ++ (v ++ post'))
      by (rewrite <- app_assoc, <- E; exact E').
    apply app_eq_len in H as [H1 H2]; [|rewrite app_length; lia].
    exists pre, post'. split; [|exact L]. rewrite <- app_assoc, <- H2. exact E.
  Qed.

  Lemma occ_full u : occurs_at 0 u -> length u = length w -> u = w.
  Proof.
    intros (pre & post & E & L) Hl. destruct pre; [|discriminate]. simpl in E.
    assert (Hp : post = []).
    { apply length_zero_iff_nil. rewrite E, app_length in Hl. lia. }
    rewrite Hp, app_nil_r in E. symmetry. exact E.
  Qed.

  Lemma occ_whole : occurs_at 0 w.
  Proof. exists [], []. simpl. rewrite app_nil_r. split; reflexivity. Qed.

  (** *** Specification of the steps *)

  Lemma in_step_T t ps q :
    In q (step_T t ps) <-> exists p, In p ps /\ nth_error w p = Some t /\ q = S p.
  Proof.
    unfold step_T. rewrite in_flat_map. split.
    - intros (p & Hp & Hq). exists p. destruct (nth_error w p) as [t'|]; [|destruct Hq].
      destruct (N.eqb_spec t' t) as [Et|]; [|destruct Hq]. destruct Hq as [<-|[]].
      rewrite Et. auto.
    - intros (p & Hp & Ht & ->). exists p. split; [exact Hp|].
      rewrite Ht, N.eqb_refl. left; reflexivity.
  Qed.

  Lemma in_step_NT tb b ps q :
    In q (step_NT tb b ps) <-> exists p, In p ps /\ In q (tget tb b p).
  Proof.
    unfold step_NT. induction ps as [|p ps IH]; simpl.
    - split; [tauto|]. intros (p & [] & _).
    - rewrite in_ps_union, IH. split.
      + intros [H|(p' & Hp & Hq)]; [exists p; auto|exists p'; auto].
      + intros (p' & [->|Hp] & Hq); [left; exact Hq|right; exists p'; auto].
  Qed.

  (** *** Soundness *)

  Definition sound (tb : table) : Prop :=
    forall a s j, In j (tget tb a s) ->
      exists u, occurs_at s u /\ j = s + length u /\ derives g [NT a] u.

  Lemma sound_tempty : sound tempty.
  Proof. intros a s j H. rewrite tget_tempty in H. destruct H. Qed.

  Lemma run_sound tb : sound tb -> forall alpha ps j,
    (forall p, In p ps -> p <= length w) -> In j (run tb alpha ps) ->
    exists p u, In p ps /\ occurs_at p u /\ j = p + length u /\ derives g alpha u.
  Proof.
    intros Hs. induction alpha as [|[t|b] alpha IH]; intros ps j Hb Hj; simpl in Hj.
    - exists j, []. split; [exact Hj|]. split; [apply occ_nil; auto|].
      split; [simpl; lia|constructor].
    - apply IH in Hj.
      + destruct Hj as (q & u & Hq & Ho & -> & Hd).
        apply in_step_T in Hq as (p & Hp & Ht & ->).
        exists p, (t :: u). split; [exact Hp|]. split; [|split; [simpl; lia|constructor; exact Hd]].
        apply (occ_app p [t] u); [apply occ_one; exact Ht|].
        simpl. rewrite Nat.add_1_r. exact Ho.
      + intros q Hq. apply in_step_T in Hq as (p & _ & Ht & ->).
        assert (p < length w) by (apply nth_error_Some; congruence). lia.
    - apply IH in Hj.
      + destruct Hj as (q & u2 & Hq & Ho & -> & Hd).
        apply in_step_NT in Hq as (p & Hp & Hq).
        apply Hs in Hq as (u1 & Ho1 & -> & Hd1).
        exists p, (u1 ++ u2). split; [exact Hp|]. split; [apply occ_app; assumption|].
        split; [rewrite app_length; lia|].
        apply derives_cons_NT. exists u1, u2. auto.
      + intros q Hq. apply in_step_NT in Hq as (p & Hp & Hq).
        apply Hs in Hq as (u1 & Ho1 & -> & _). apply occ_len. exact Ho1.
  Qed.

  Lemma upd_sound tb ch p s :
    sound tb -> In p (prods g) -> s <= length w -> sound (fst (upd (tb, ch) (p, s))).
  Proof.
    intros Hs Hp Hle. unfold upd.
    destruct (ps_subset (run tb (rhs p) [s]) (tget tb (lhs p) s)); [exact Hs|].
    cbn [fst]. intros a s' j Hj.
    destruct (N.eq_dec a (lhs p)) as [->|Ha]; [destruct (Nat.eq_dec s' s) as [->|Hs']|].
    - rewrite tget_tset_same in Hj. apply in_ps_union in Hj as [Hj|Hj]; [|apply Hs; exact Hj].
      apply (run_sound tb Hs) in Hj.
      + destruct Hj as (q & u & [<-|[]] & Ho & -> & Hd).
        exists u. split; [exact Ho|]. split; [reflexivity|].
        apply derives_single. exists p. auto.
      + intros q [<-|[]]. exact Hle.
    - rewrite tget_tset_other in Hj by (right; exact Hs'). apply Hs; exact Hj.
    - rewrite tget_tset_other in Hj by (left; exact Ha). apply Hs; exact Hj.
  Qed.

  Definition wk_valid (wk : list (prod * nat)) : Prop :=
    forall p s, In (p, s) wk -> In p (prods g) /\ s <= length w.

  Lemma fold_upd_sound wk : wk_valid wk -> forall tb ch,
    sound tb -> sound (fst (fold_left upd wk (tb, ch))).
  Proof.
    induction wk as [|[p s] wk IH]; intros Hv tb ch Hs; cbn [fold_left]; [exact Hs|].
    destruct (Hv p s (or_introl eq_refl)) as [Hp Hle].
    pose proof (upd_sound tb ch p s Hs Hp Hle) as Hs'.
    destruct (upd (tb, ch) (p, s)) as [tb' ch']. apply IH; [|exact Hs'].
    intros p' s' H. apply Hv. right. exact H.
  Qed.

  (** *** A round that reports "unchanged" left the table unchanged and every check passed *)

  Lemma fold_upd_stable wk : forall tb ch tb',
    fold_left upd wk (tb, ch) = (tb', false) ->
    ch = false /\ tb' = tb /\
    forall p s, In (p, s) wk -> ps_subset (run tb (rhs p) [s]) (tget tb (lhs p) s) = true.
  Proof.
    induction wk as [|[p s] wk IH]; intros tb ch tb' H; cbn [fold_left] in H.
    - inversion H; subst. split; [reflexivity|]. split; [reflexivity|]. intros p s [].
    - unfold upd at 2 in H.
      destruct (ps_subset (run tb (rhs p) [s]) (tget tb (lhs p) s)) eqn:E.
      + apply IH in H as (H1 & H2 & H3). split; [exact H1|]. split; [exact H2|].
        intros p' s' [Hx|Hx]; [inversion Hx; subst; exact E|apply H3; exact Hx].
      + apply IH in H as (H1 & _). discriminate.
  Qed.

  (** *** Completeness of closed tables *)

  Definition closed (tb : table) : Prop :=
    forall p s j, In p (prods g) -> s <= length w ->
      In j (run tb (rhs p) [s]) -> In j (tget tb (lhs p) s).

  Lemma run_complete tb : closed tb -> forall alpha u, derives g alpha u ->
    forall p ps, occurs_at p u -> In p ps -> In (p + length u) (run tb alpha ps).
  Proof.
    intros Hc alpha u Hd.
    induction Hd as [|t alpha u Hd IH|a p0 alpha u v Hin Hl Hr IHr Ha IHa];
      intros p ps Ho Hp; cbn [run length].
    - rewrite Nat.add_0_r. exact Hp.
    - apply occ_cons in Ho as [Ht Ho].
      replace (p + S (length u)) with (S p + length u) by lia.
      apply IH; [exact Ho|]. apply in_step_T. exists p. auto.
    - apply occ_split in Ho as [Ho1 Ho2]. rewrite app_length, Nat.add_assoc.
      apply IHa; [exact Ho2|]. apply in_step_NT. exists p. split; [exact Hp|].
      subst a. apply Hc; [exact Hin|pose proof (occ_len _ _ Ho1); lia|].
      apply IHr; [exact Ho1|left; reflexivity].
  Qed.

  Lemma in_work p s : In (p, s) work <-> In p (prods g) /\ s <= length w.
  Proof.
    unfold work. rewrite in_flat_map. split.
    - intros (s' & Hs & Hp). apply in_map_iff in Hp as (p' & E & Hp). inversion E; subst.
      rewrite <- in_rev in Hs. apply in_seq in Hs. split; [|lia].
      apply in_app_iff in Hp as [Hp|Hp]; [exact Hp|rewrite <- in_rev in Hp; exact Hp].
    - intros [Hp Hs]. exists s. split; [rewrite <- in_rev; apply in_seq; lia|].
      apply in_map_iff. exists p. split; [reflexivity|apply in_app_iff; left; exact Hp].
  Qed.

  Lemma work_valid : wk_valid work.
  Proof. intros p s H. apply in_work. exact H. Qed.

  Lemma saturate_spec : forall fuel tb tb',
    sound tb -> saturate work fuel tb = Some tb' -> sound tb' /\ closed tb'.
  Proof.
    induction fuel as [|f IH]; intros tb tb' Hs H; simpl in H; [discriminate|].
    pose proof (fold_upd_sound work work_valid tb false Hs) as Hs'.
    unfold round in H. destruct (fold_left upd work (tb, false)) as [tb1 ch] eqn:E.
    cbn [fst] in Hs'. destruct ch.
    - apply (IH tb1); assumption.
    - inversion H; subst tb'. apply fold_upd_stable in E as (_ & -> & Hc).
      split; [exact Hs|]. intros p s j Hp Hle Hj.
      apply (ps_subset_true _ _ (Hc p s (proj2 (in_work p s) (conj Hp Hle)))). exact Hj.
  Qed.

  (** *** Fuel: every changing round strictly enlarges the table inside a finite universe *)

  Definition universe : list (N * nat * nat) :=
    flat_map (fun p =>
      flat_map (fun s => map (fun j => (lhs p, s, j)) (seq 0 (S (length w))))
               (seq 0 (S (length w)))) (prods g).

  Lemma universe_length : length universe = length (prods g) * (S (length w) * S (length w)).
  Proof.
    unfold universe. apply flat_map_length_const. intros p _.
    rewrite (flat_map_length_const _ (S (length w))).
    - rewrite seq_length. reflexivity.
    - intros s _. rewrite map_length, seq_length. reflexivity.
  Qed.

  Lemma in_universe p s j :
    In p (prods g) -> s <= length w -> j <= length w -> In (lhs p, s, j) universe.
  Proof.
    intros Hp Hs Hj. unfold universe. apply in_flat_map. exists p. split; [exact Hp|].
    apply in_flat_map. exists s. split; [apply in_seq; lia|].
    apply in_map_iff. exists j. split; [reflexivity|apply in_seq; lia].
  Qed.

  Definition holds (tb : table) (x : N * nat * nat) : bool :=
    let '(a, s, j) := x in ps_mem j (tget tb a s).

  Definition measure (tb : table) : nat := length (filter (holds tb) universe).

  Lemma measure_bound tb : measure tb <= length universe.
  Proof. apply filter_length_bound. Qed.

  (** One update either changes nothing or strictly increases the measure. *)
  Lemma upd_progress tb ch p s tb' ch' :
    sound tb -> In p (prods g) -> s <= length w ->
    upd (tb, ch) (p, s) = (tb', ch') ->
    (tb' = tb /\ ch' = ch) \/ (ch' = true /\ measure tb < measure tb').
  Proof.
    intros Hs Hp Hle. unfold upd.
    destruct (ps_subset (run tb (rhs p) [s]) (tget tb (lhs p) s)) eqn:E; intros H;
      inversion H; subst; [left; split; reflexivity|right; split; [reflexivity|]].
    apply ps_subset_false in E as (j & Hj & Hn).
    apply filter_length_strict.
    - intros [[a s'] j'] _. unfold holds. rewrite !ps_mem_In. intros Hin.
      destruct (N.eq_dec a (lhs p)) as [->|Ha]; [destruct (Nat.eq_dec s' s) as [->|Hs']|].
      + rewrite tget_tset_same. apply in_ps_union. right. exact Hin.
      + rewrite tget_tset_other by (right; exact Hs'). exact Hin.
      + rewrite tget_tset_other by (left; exact Ha). exact Hin.
    - exists (lhs p, s, j). split; [|split].
      + apply in_universe; [exact Hp|exact Hle|].
        apply (run_sound tb Hs) in Hj.
        * destruct Hj as (q & u & [<-|[]] & Ho & -> & _). apply occ_len. exact Ho.
        * intros q [<-|[]]. exact Hle.
      + unfold holds. destruct (ps_mem j (tget tb (lhs p) s)) eqn:M; [|reflexivity].
        apply ps_mem_In in M. contradiction.
      + unfold holds. apply ps_mem_In. rewrite tget_tset_same. apply in_ps_union. left. exact Hj.
  Qed.

  Lemma fold_upd_progress wk : wk_valid wk -> forall tb ch tb' ch',
    sound tb -> fold_left upd wk (tb, ch) = (tb', ch') ->
    measure tb <= measure tb' /\ (ch' = true -> ch = true \/ measure tb < measure tb').
  Proof.
    induction wk as [|[p s] wk IH]; intros Hv tb ch tb' ch' Hs H; cbn [fold_left] in H.
    - inversion H; subst. split; [lia|]. intros ->. left; reflexivity.
    - destruct (Hv p s (or_introl eq_refl)) as [Hp Hle].
      pose proof (upd_sound tb ch p s Hs Hp Hle) as Hs1.
      destruct (upd (tb, ch) (p, s)) as [tb1 ch1] eqn:E. cbn [fst] in Hs1.
      assert (Hv' : wk_valid wk) by (intros p' s' Hx; apply Hv; right; exact Hx).
      destruct (IH Hv' tb1 ch1 tb' ch' Hs1 H) as [Hm Hc].
      destruct (upd_progress tb ch p s tb1 ch1 Hs Hp Hle E) as [[-> ->]|[-> Hlt]].
      + split; [exact Hm|exact Hc].
      + split; [lia|]. intros _. right. lia.
  Qed.

  Lemma saturate_fuel : forall fuel tb,
    sound tb -> length universe - measure tb < fuel -> saturate work fuel tb <> None.
  Proof.
    induction fuel as [|f IH]; intros tb Hs Hf; [lia|]. simpl. unfold round.
    pose proof (fold_upd_sound work work_valid tb false Hs) as Hs'.
    destruct (fold_left upd work (tb, false)) as [tb1 ch] eqn:E. cbn [fst] in Hs'.
    destruct ch; [|discriminate].
    destruct (fold_upd_progress work work_valid tb false tb1 true Hs E) as [_ Hc].
    destruct (Hc eq_refl) as [Hc'|Hlt]; [discriminate|].
    apply IH; [exact Hs'|]. pose proof (measure_bound tb1). lia.
  Qed.

End Recognise.

(** ** The oracle *)

(** [member_from fuel g alpha w]: does the sentential form [alpha] derive the terminal string
    [w] in [g]?  [fuel] bounds the number of saturation rounds; [None] iff it ran out. *)
Definition member_from (fuel : nat) (g : cfg) (alpha : list sym) (w : list N) : option bool :=
  match saturate w (work g w) fuel tempty with
  | Some tb => Some (ps_mem (length w) (run w tb alpha [0]))
  | None => None
  end.

(** [member fuel g w]: is [w] in the language of [g]? *)
Definition member (fuel : nat) (g : cfg) (w : list N) : option bool :=
  member_from fuel g [NT (start g)] w.

(** A number of rounds that always suffices (the number of potential table entries + 1). *)
Definition member_fuel (g : cfg) (w : list N) : nat :=
  S (length (prods g) * (S (length w) * S (length w))).

Theorem member_from_sound : forall f g alpha w,
  member_from f g alpha w = Some true -> derives g alpha w.
Proof.
  intros f g alpha w H. unfold member_from in H.
  destruct (saturate w (work g w) f tempty) as [tb|] eqn:E; [|discriminate].
  apply (saturate_spec g w) in E as [Hs _]; [|apply sound_tempty].
  inversion H as [Hm]. apply ps_mem_In in Hm.
  apply (run_sound g w tb Hs) in Hm.
  - destruct Hm as (p & u & [<-|[]] & Ho & Hl & Hd).
    rewrite (occ_full w u Ho) in Hd; [exact Hd|]. simpl in Hl. symmetry. exact Hl.
  - intros p [<-|[]]. lia.
Qed.

Theorem member_from_complete : forall f g alpha w,
  member_from f g alpha w = Some false -> ~ derives g alpha w.
Proof.
  intros f g alpha w H Hd. unfold member_from in H.
  destruct (saturate w (work g w) f tempty) as [tb|] eqn:E; [|discriminate].
  apply (saturate_spec g w) in E as [_ Hc]; [|apply sound_tempty].
  pose proof (run_complete g w tb Hc alpha w Hd 0 [0] (occ_whole w) (or_introl eq_refl)) as Hin.
  simpl in Hin. apply ps_mem_In in Hin. congruence.
Qed.

Theorem member_sound : forall f g w, member f g w = Some true -> lang g w.
Proof. intros f g w H. apply member_from_sound in H. exact H. Qed.

Theorem member_complete : forall f g w, member f g w = Some false -> ~ lang g w.
Proof. intros f g w H. apply member_from_complete in H. exact H. Qed.

Theorem member_from_fuel_suffices : forall g alpha w,
  member_from (member_fuel g w) g alpha w <> None.
Proof.
  intros g alpha w. unfold member_from.
  destruct (saturate w (work g w) (member_fuel g w) tempty) eqn:E; [discriminate|].
  exfalso. revert E. apply (saturate_fuel g w); [apply sound_tempty|].
  unfold member_fuel. rewrite universe_length. lia.
Qed.

Theorem member_fuel_suffices : forall g w, member (member_fuel g w) g w <> None.
Proof. intros g w. apply member_from_fuel_suffices. Qed.

(** Consequently, with [member_fuel] the oracle is a decision procedure. *)
Corollary member_decides : forall g w,
  (member (member_fuel g w) g w = Some true /\ lang g w) \/
  (member (member_fuel g w) g w = Some false /\ ~ lang g w).
Proof.
  intros g w. destruct (member (member_fuel g w) g w) as [[|]|] eqn:E.
  - left. split; [reflexivity|]. apply (member_sound _ _ _ E).
  - right. split; [reflexivity|]. apply (member_complete _ _ _ E).
  - exfalso. exact (member_fuel_suffices g w E).
Qed.

Corollary member_from_decides : forall g alpha w,
  (member_from (member_fuel g w) g alpha w = Some true /\ derives g alpha w) \/
  (member_from (member_fuel g w) g alpha w = Some false /\ ~ derives g alpha w).
Proof.
  intros g alpha w. destruct (member_from (member_fuel g w) g alpha w) as [[|]|] eqn:E.
  - left. split; [reflexivity|]. apply (member_from_sound _ _ _ _ E).
  - right. split; [reflexivity|]. apply (member_from_complete _ _ _ _ E).
  - exfalso. exact (member_from_fuel_suffices g alpha w E).
Qed.

(** ** Examples *)

(** [S -> a S b | eps]  (a = 5, b = 6). *)
Definition ex_anbn : cfg := mkCfg 0 [mkProd 0 [T 5; NT 0; T 6]; mkProd 0 []].

Example ex_anbn_pos : member 20 ex_anbn [5; 5; 5; 6; 6; 6]%N = Some true.
Proof. vm_compute. reflexivity. Qed.
Example ex_anbn_neg : member 20 ex_anbn [5; 5; 6; 6; 6]%N = Some false.
Proof. vm_compute. reflexivity. Qed.
Example ex_anbn_eps : member 20 ex_anbn [] = Some true.
Proof. vm_compute. reflexivity. Qed.
Example ex_anbn_nofuel : member 0 ex_anbn [5; 6]%N = None.
Proof. vm_compute. reflexivity. Qed.
Example ex_anbn_fuel : member (member_fuel ex_anbn [5; 5; 6; 6]%N) ex_anbn [5; 5; 6; 6]%N = Some true.
Proof. vm_compute. reflexivity. Qed.
(** The hypotheses of the four theorems are satisfiable: *)
Example ex_anbn_lang : lang ex_anbn [5; 5; 5; 6; 6; 6]%N.
Proof. exact (member_sound _ _ _ ex_anbn_pos). Qed.
Example ex_anbn_notlang : ~ lang ex_anbn [5; 5; 6; 6; 6]%N.
Proof. exact (member_complete _ _ _ ex_anbn_neg). Qed.
Example ex_anbn_from_pos : member_from 20 ex_anbn [T 5; NT 0; T 6; NT 0] [5; 5; 6; 6]%N = Some true.
Proof. vm_compute. reflexivity. Qed.
Example ex_anbn_from_neg : member_from 20 ex_anbn [T 5; NT 0; T 6; T 6] [5; 5; 6; 6]%N = Some false.
Proof. vm_compute. reflexivity. Qed.

(** Balanced parentheses, ambiguous, left- and right-recursive, nullable:
    [B -> B B | ( B ) | eps]  (( = 5, ) = 6). *)
Definition ex_paren : cfg :=
  mkCfg 0 [mkProd 0 [NT 0; NT 0]; mkProd 0 [T 5; NT 0; T 6]; mkProd 0 []].
Example ex_paren_pos : member 50 ex_paren [5; 5; 6; 5; 6; 6; 5; 6]%N = Some true.
Proof. vm_compute. reflexivity. Qed.
Example ex_paren_neg : member 50 ex_paren [5; 5; 6; 6; 6; 5]%N = Some false.
Proof. vm_compute. reflexivity. Qed.

(** Ambiguous and left-recursive: [E -> E + E | n]  (+ = 5, n = 6). *)
Definition ex_expr : cfg := mkCfg 0 [mkProd 0 [NT 0; T 5; NT 0]; mkProd 0 [T 6]].
Example ex_expr_pos : member 50 ex_expr [6; 5; 6; 5; 6; 5; 6]%N = Some true.
Proof. vm_compute. reflexivity. Qed.
Example ex_expr_neg : member 50 ex_expr [6; 5; 6; 5]%N = Some false.
Proof. vm_compute. reflexivity. Qed.
Example ex_expr_neg_eps : member 50 ex_expr [] = Some false.
Proof. vm_compute. reflexivity. Qed.

(** Cyclic unit productions: [A -> B], [B -> A | x]  (A = 0, B = 1, x = 5). *)
Definition ex_cyclic : cfg := mkCfg 0 [mkProd 0 [NT 1]; mkProd 1 [NT 0]; mkProd 1 [T 5]].
Example ex_cyclic_pos : member 50 ex_cyclic [5]%N = Some true.
Proof. vm_compute. reflexivity. Qed.
Example ex_cyclic_neg : member 50 ex_cyclic [5; 5]%N = Some false.
Proof. vm_compute. reflexivity. Qed.
Example ex_cyclic_neg_eps : member 50 ex_cyclic [] = Some false.
Proof. vm_compute. reflexivity. Qed.

(** A grammar with no production for its start symbol, and one with an unproductive cycle. *)
Example ex_empty_grammar : member 5 (mkCfg 0 []) [] = Some false.
Proof. vm_compute. reflexivity. Qed.
Example ex_unproductive : member 5 (mkCfg 0 [mkProd 0 [NT 0]]) [] = Some false.
Proof. vm_compute. reflexivity. Qed.

Print Assumptions member_sound.
Print Assumptions member_complete.
Print Assumptions member_from_sound.
Print Assumptions member_from_complete.
Print Assumptions member_fuel_suffices.
Print Assumptions member_from_fuel_suffices.
Print Assumptions member_decides.
