(* Conversions between OCaml values and the extracted Coq datatypes. *)
open Model

let rec pos_of_int (i : int) : positive =
  if i = 1 then XH
  else if i land 1 = 0 then XO (pos_of_int (i lsr 1))
  else XI (pos_of_int (i lsr 1))

let n_of_int (i : int) : n = if i = 0 then N0 else if i < 0 then failwith "n_of_int" else Npos (pos_of_int i)

let rec int_of_pos = function
  | XH -> 1
  | XO p -> 2 * int_of_pos p
  | XI p -> 2 * int_of_pos p + 1

let int_of_n = function N0 -> 0 | Npos p -> int_of_pos p

let z_of_int (i : int) : z = if i = 0 then Z0 else if i > 0 then Zpos (pos_of_int i) else Zneg (pos_of_int (-i))
let int_of_z = function Z0 -> 0 | Zpos p -> int_of_pos p | Zneg p -> - (int_of_pos p)

let rec nat_of_int (i : int) : nat = if i <= 0 then O else S (nat_of_int (i - 1))
let rec int_of_nat = function O -> 0 | S n -> 1 + int_of_nat n

(* arbitrary-size N from a decimal string (for the 128-bit packed tuples) *)
let n_of_decimal (s : string) : n =
  (* repeated division by 2 on the decimal string *)
  let digits = Array.init (String.length s) (fun i -> Char.code s.[i] - 48) in
  let is_zero () = Array.for_all (fun d -> d = 0) digits in
  let bits = ref [] in
  while not (is_zero ()) do
    let carry = ref 0 in
    for i = 0 to Array.length digits - 1 do
      let cur = !carry * 10 + digits.(i) in
      digits.(i) <- cur / 2;
      carry := cur mod 2
    done;
    bits := !carry :: !bits
  done;
  (* !bits is most-significant first *)
  match !bits with
  | [] -> N0
  | 1 :: rest ->
    Npos (List.fold_left (fun acc b -> if b = 1 then XI acc else XO acc) XH rest)
  | _ -> failwith "n_of_decimal"

let decimal_of_n (x : n) : string =
  (* build decimal by doubling *)
  let rec bits_of_pos = function XH -> [1] | XO p -> 0 :: bits_of_pos p | XI p -> 1 :: bits_of_pos p in
  match x with
  | N0 -> "0"
  | Npos p ->
    let bits = List.rev (bits_of_pos p) in (* msb first *)
    let digits = ref [0] in (* little-endian decimal digits *)
    List.iter (fun b ->
        let carry = ref b in
        digits := List.map (fun d -> let v = d * 2 + !carry in carry := v / 10; v mod 10) !digits;
        if !carry > 0 then digits := !digits @ [!carry]) bits;
    String.concat "" (List.rev_map string_of_int !digits)

open Sexp
let int_of_sx = function A a -> int_of_string a | _ -> failwith "int expected"
let ints_of_sx = function L l -> List.map int_of_sx l | _ -> failwith "list expected"
let ns_of_sx x = List.map n_of_int (ints_of_sx x)
let str_of_sx = function S s -> s | A a -> a | _ -> failwith "string expected"
let list_of_sx = function L l -> l | _ -> failwith "list expected"
let chars_of_string (s : string) : char list = List.init (String.length s) (String.get s)
let string_of_chars (l : char list) : string = String.concat "" (List.map (String.make 1) l)
