//! C18: terminal identity across the generated parts (export model vs the grammar's own terminal table).
use crate::{rng::Rng, sx, Args};
use parol::parser::parol_grammar::LookaheadExpression;
use parol::parser::parol_grammar::GrammarType;
use parol::{calculate_lalr1_parse_table, calculate_lookahead_dfas, check_and_transform_grammar, generate_lalr1_parser_export_model, generate_parser_export_model, obtain_grammar_config_from_string, Symbol, Terminal, TerminalKind};

fn kind_no(k: TerminalKind) -> u8 {
    match k { TerminalKind::Legacy => 0, TerminalKind::Regex => 1, TerminalKind::Raw => 2 }
}
fn la_sx(l: &Option<LookaheadExpression>) -> String {
    match l {
        None => "none".to_string(),
        Some(l) => format!("({} {} {})", l.is_positive as u8, crate::rx::cps(&l.pattern), kind_no(l.kind)),
    }
}
fn occ_sx(t: &str, k: TerminalKind, l: &Option<LookaheadExpression>) -> String {
    format!("({} {} {})", crate::rx::cps(t), kind_no(k), la_sx(l))
}

pub fn random_par(rng: &mut Rng) -> String {
    let pool = ["\"a.c\"", "'a.c'", "/a.c/", "\"\\+\"", "'\\+'", "'+'", "\"x\"", "'x'", "/x/", "\"a\" ?= \"b\"", "\"a\"", "'a' ?= 'b'", "\"a\" ?! \"b\"", "\"y\"", "'z'"];
    let n = rng.range(1, 3);
    let names = ["S", "A", "B"];
    let mut s = String::from("%start S\n");
    if rng.chance(1, 3) { s.push_str("%grammar_type 'lalr(1)'\n"); }
    let modes = rng.chance(1, 3);
    if modes { s.push_str("%on Q %enter Inner\n%scanner Inner {\n    %on E %enter INITIAL\n}\n"); }
    s.push_str("%%\n");
    for i in 0..n {
        let nalt = rng.range(1, 3);
        let alts: Vec<String> = (0..nalt).map(|_| {
            let len = rng.range(1, 3);
            (0..len).map(|_| if rng.chance(1, 4) && n > 1 { names[rng.range(1, n - 1).max(1).min(n - 1)].to_string() } else { pool[rng.below(pool.len())].to_string() }).collect::<Vec<_>>().join(" ")
        }).collect();
        s.push_str(&format!("{}: {};\n", names[i], alts.join(" | ")));
    }
    if n > 1 { // make every non-terminal reachable
        s = s.replacen("S: ", &format!("S: {} | ", names[1..n].join(" ")), 1);
    }
    if modes {
        // the trigger of the inner state and a terminal of the initial state have the same expansion but different
        // quoting classes
        s = s.replacen("S: ", "S: Q \"in\" E | \"end\" | ", 1);
        s.push_str("Q: \"\\u{22}\";\nE: <Inner>'end';\n");
        s = s.replace("\"in\"", "<Inner>\"in\"");
    }
    s
}

pub fn case(text: &str) -> String {
    let r = std::panic::catch_unwind(|| -> Result<String, String> {
        let mut gc = obtain_grammar_config_from_string(text, false).map_err(|_| "rejected".to_string())?;
        let cfg2 = check_and_transform_grammar(&gc.cfg, gc.grammar_type).map_err(|_| "rejected-by-checks".to_string())?;
        gc.update_cfg(cfg2);
        let lalr = gc.grammar_type == GrammarType::LALR1;
        let export = if lalr {
            let (tbl, _) = calculate_lalr1_parse_table(&gc).map_err(|_| "lalr-conflict".to_string())?;
            generate_lalr1_parser_export_model(&gc, &tbl).map_err(|e| format!("export-error {e}"))?
        } else {
            let dfas = calculate_lookahead_dfas(&gc, 5).map_err(|_| "not-ll-k".to_string())?;
            let k = dfas.values().map(|d| d.k).max().unwrap_or(0);
            gc.update_lookahead_size(k);
            generate_parser_export_model(&gc, &dfas).map_err(|e| format!("export-error {e}"))?
        };
        let ev = serde_json::to_value(&export).unwrap();
        // the grammar's own terminal table (what scanner, automata and LR table are numbered by)
        let ordered: Vec<String> = gc.cfg.get_ordered_terminals().iter().map(|(t, k, l, _)| occ_sx(t, *k, l)).collect();
        // every terminal occurrence of every production, with the index the export model uses for it
        let mut claims = vec![];
        for (pi, p) in gc.cfg.pr.iter().enumerate() {
            let rhs = ev["productions"][pi]["rhs"].as_array().unwrap();
            for (si, s) in p.get_r().iter().enumerate() {
                if let Symbol::T(Terminal::Trm(t, k, _, _, _, _, l)) = s {
                    let idx = rhs[si]["Terminal"]["index"].as_u64().unwrap_or(0);
                    claims.push(format!("({} {})", occ_sx(t, *k, l), idx));
                }
            }
        }
        // the scanner's own numbering
        let scanner: Vec<String> = ev["scanner"]["terminals"].as_array().unwrap().iter().map(|t| format!("{}", t["index"].as_u64().unwrap())).collect();
        // the grammar in the numbering of the PRODUCTION TABLE, and the automata / LR table (numbered by the analysis)
        let prods: Vec<String> = ev["productions"].as_array().unwrap().iter().map(|p| format!("({} {})", p["lhs_index"],
            p["rhs"].as_array().unwrap().iter().map(|y| if let Some(n) = y.get("NonTerminal") { format!("-{}", n.as_u64().unwrap() + 1) } else { y["Terminal"]["index"].to_string() }).collect::<Vec<_>>().join(" "))).collect();
        let g2 = format!("({} {})", ev["start_symbol_index"], prods.join(" "));
        let tables = if lalr {
            let t = &ev["lalr_parse_table"];
            let acts: Vec<String> = t["actions"].as_array().unwrap().iter().map(|a| if a.is_string() { "(a)".to_string() } else if let Some(x) = a.get("Shift") { format!("(s {})", x) } else {
                let r = &a["Reduce"]; if r.is_array() { format!("(r {} {})", r[0], r[1]) } else { format!("(r {} {})", r["non_terminal_index"], r["production_index"]) } }).collect();
            let pairs = |v: &serde_json::Value| v.as_array().unwrap().iter().map(|p| format!("({} {})", p[0], p[1])).collect::<Vec<_>>().join(" ");
            let states: Vec<String> = t["states"].as_array().unwrap().iter().map(|st| format!("(({}) ({}))", pairs(&st["actions"]), pairs(&st["gotos"]))).collect();
            let lp: Vec<String> = ev["productions"].as_array().unwrap().iter().map(|p| format!("({} {})", p["lhs_index"], p["rhs"].as_array().unwrap().len())).collect();
            format!("(lr (({}) ({}) ({}) {} 64 {}))", acts.join(" "), states.join(" "), lp.join(" "), ev["start_symbol_index"], ev["non_terminal_names"].as_array().unwrap().len())
        } else {
            let autos: Vec<String> = ev["lookahead_automata"].as_array().unwrap().iter().map(|a| format!("({} {} {} ({}))", a["non_terminal_index"], a["prod0"], a["k"],
                a["transitions"].as_array().unwrap().iter().map(|t| format!("({} {} {} {})", t["from_state"], t["term"], t["to_state"], t["prod_num"])).collect::<Vec<_>>().join(" "))).collect();
            let k = ev["lookahead_automata"].as_array().unwrap().iter().map(|a| a["k"].as_u64().unwrap_or(0)).max().unwrap_or(0);
            format!("(ll {} ({}))", k.max(1), autos.join(" "))
        };
        // scanner states: members, transition triggers and skip lists (a trigger / skipped token must be a member)
        let nstates = ev["scanner"]["scanner_states"].as_array().unwrap().len();
        let states: Vec<String> = (0..nstates).map(|m| {
            let members: Vec<String> = ev["scanner"]["terminals"].as_array().unwrap().iter().filter(|t| t["scanner_states"].as_array().unwrap().iter().any(|x| x.as_u64() == Some(m as u64))).map(|t| t["index"].to_string()).collect();
            let st = &ev["scanner"]["scanner_states"][m];
            let trig: Vec<String> = st["transitions"].as_array().unwrap().iter().map(|t| t["terminal_index"].to_string()).collect();
            let skip: Vec<String> = st["skip_tokens"].as_array().unwrap().iter().map(|t| t.to_string()).collect();
            format!("(({}) ({}) ({}))", members.join(" "), trig.join(" "), skip.join(" "))
        }).collect();
        Ok(format!("(tix {} ({}) ({}) ({}) {} {} ({}))", sx::s(text), ordered.join(" "), claims.join(" "), scanner.join(" "), g2, tables, states.join(" ")))
    });
    match r {
        Err(_) => format!("(tix {} panic)", sx::s(text)),
        Ok(Err(why)) => format!("(tix {} ({}))", sx::s(text), why.split(' ').next().unwrap()),
        Ok(Ok(s)) => s,
    }
}

pub fn run(a: &Args) {
    let mut rng = Rng::new(a.seed ^ ((a.shard as u64) << 32) ^ 0xC18);
    if a.shard == 0 {
        println!("{}", case("%start S\n%%\nS: A | B;\nA: \"a.c\" \"x\";\nB: 'a.c' \"y\";\n"));
        println!("{}", case("%start S\n%%\nS: \"\\+\" \"x\" | '\\+' \"y\";\n"));
    }
    for _ in 0..a.n {
        println!("{}", case(&random_par(&mut rng)));
    }
}
