"""Orchestrator for the per-property checks.  See ../check for the contract."""
import argparse, hashlib, json, os, re, shutil, subprocess, sys, time
from concurrent.futures import ThreadPoolExecutor

VERIF = os.path.dirname(os.path.dirname(os.path.abspath(__file__)))
REPO = '/repo'
COQ = os.path.join(VERIF, 'coq')
OCAML = os.path.join(VERIF, 'ocaml')
HARNESS = os.path.join(VERIF, 'harness')
TARGET = os.path.join(VERIF, 'target')
WORK = os.path.join(VERIF, 'work')
EVID = os.path.join(VERIF, 'evidence')
PV = os.path.join(TARGET, 'debug', 'pv')
DRV = os.path.join(OCAML, '_build', 'drv')
NCPU = min(16, os.cpu_count() or 4)

FORBIDDEN = re.compile(
    r'\b(Admitted|admit|Axiom|Axioms|Parameter|Parameters|Conjecture|Conjectures|Abort All)\b'
    r'|Unset\s+Guard|Unset\s+Positivity|Unset\s+Universe|bypass_check|type-in-type|impredicative-set'
    r'|Admit\s+Obligations')

# Axioms of the standard library that a theorem may depend on (none expected at present).
AXIOM_ALLOWLIST = set()

ENV = dict(os.environ, CARGO_NET_OFFLINE='true', CARGO_TARGET_DIR=TARGET,
           RUSTFLAGS='--cfg parol_verif', RUST_BACKTRACE='0')


class MachineryError(Exception):
    pass


def sh(cmd, cwd=None, timeout=3600, env=None, check=False, stdin=None):
    p = subprocess.run(cmd, cwd=cwd, timeout=timeout, env=env or ENV, shell=isinstance(cmd, str),
                       stdout=subprocess.PIPE, stderr=subprocess.STDOUT, text=True, stdin=stdin)
    if check and p.returncode != 0:
        raise MachineryError('command failed (%s): %s\n%s' % (p.returncode, cmd, p.stdout[-4000:]))
    return p.returncode, p.stdout


def log(msg):
    print('[check] ' + msg, flush=True)


# --------------------------------------------------------------------------------------------
# Coq side
# --------------------------------------------------------------------------------------------

def strip_comments(text):
    """Remove (possibly nested) Coq comments and string literals."""
    out, depth, i, n = [], 0, 0, len(text)
    in_str = False
    while i < n:
        if in_str:
            if text[i] == '"':
                in_str = False
            i += 1
            continue
        if text.startswith('(*', i):
            depth += 1
            i += 2
            continue
        if depth and text.startswith('*)', i):
            depth -= 1
            i += 2
            continue
        if depth == 0:
            if text[i] == '"':
                in_str = True
            else:
                out.append(text[i])
        i += 1
    return ''.join(out)


def coq_sources():
    """The development = every file listed in _CoqProject (only those are built and can be imported by a Props file)
    plus the extraction script; other .v files lying in the tree (work in progress) are not part of it."""
    res = []
    for line in open(os.path.join(COQ, '_CoqProject')):
        line = line.strip()
        if line.endswith('.v'):
            res.append(os.path.join(COQ, line))
    for root, _, files in os.walk(os.path.join(COQ, 'Extract')):
        for f in files:
            if f.endswith('.v'):
                res.append(os.path.join(root, f))
    return sorted(set(res))


def forbidden_scan():
    bad = []
    for f in coq_sources():
        txt = strip_comments(open(f).read())
        for m in FORBIDDEN.finditer(txt):
            # a Variable/Hypothesis outside a section is checked separately below
            bad.append('%s: %s' % (os.path.relpath(f, VERIF), m.group(0)))
        # Variable / Hypothesis / Context outside any Section
        depth = 0
        for line in txt.split('\n'):
            s = line.strip()
            if re.match(r'Section\s+\w+', s):
                depth += 1
            elif re.match(r'End\s+\w+', s) and depth > 0:
                depth -= 1
            elif depth == 0 and re.match(r'(Variable|Variables|Hypothesis|Hypotheses|Context)\b', s):
                bad.append('%s: %s outside a section' % (os.path.relpath(f, VERIF), s.split()[0]))
    return bad


def gen_step():
    """Translator: regenerate coq/Gen/*.v from /repo's current sources (only rewritten on change)."""
    script = os.path.join(VERIF, 'tools', 'gen_consts.py')
    if os.path.exists(script):
        rc, out = sh([sys.executable, script], cwd=VERIF, timeout=600)
        if rc != 0:
            return False, out
        return True, out
    return True, ''


def ensure_makefile():
    mk = os.path.join(COQ, 'Makefile')
    cp = os.path.join(COQ, '_CoqProject')
    if (not os.path.exists(mk)) or os.path.getmtime(mk) < os.path.getmtime(cp):
        sh('coq_makefile -f _CoqProject -o Makefile', cwd=COQ, check=True)


def theorems_of(pid):
    """Names of the theorems stated in Props/<pid>.v."""
    path = os.path.join(COQ, 'Props', pid + '.v')
    txt = strip_comments(open(path).read())
    return re.findall(r'^\s*(?:Theorem|Lemma|Corollary|Example)\s+([A-Za-z0-9_\']+)', txt, re.M)


def coq_step(pid):
    """Build the proof cone of Props/<pid>.vo and check assumptions.
    Returns dict(ok, obligations, discharged, failing, log, assumptions)."""
    ensure_makefile()
    res = dict(ok=True, obligations=0, discharged=0, failing=[], log='', assumptions={})
    target = 'Props/%s.vo' % pid
    if not os.path.exists(os.path.join(COQ, 'Props', pid + '.v')):
        raise MachineryError('no Props/%s.v' % pid)
    rc, out = sh('timeout 2400 make -j%d %s' % (NCPU, target), cwd=COQ, timeout=2500)
    res['log'] = out[-6000:]
    names = theorems_of(pid)
    res['obligations'] = len(names) + 1  # + the forbidden-construct scan
    if rc != 0:
        res['ok'] = False
        m = re.search(r'File "([^"]+)", line (\d+)', out)
        res['failing'].append('coq build of %s failed%s' % (target, (' at %s:%s' % m.groups()) if m else ''))
        return res
    bad = forbidden_scan()
    if bad:
        res['ok'] = False
        res['failing'].append('forbidden constructs: ' + '; '.join(bad[:10]))
    else:
        res['discharged'] += 1
    # Print Assumptions for every theorem of the property file
    wdir = os.path.join(WORK, pid)
    os.makedirs(wdir, exist_ok=True)
    af = os.path.join(wdir, 'Assumptions_%s.v' % pid)
    with open(af, 'w') as f:
        f.write('From Parol Require Import Props.%s.\n' % pid)
        for nme in names:
            f.write('Goal True. idtac "@@ %s". Abort.\nPrint Assumptions %s.\n' % (nme, nme))
    rc, out = sh('coqc -Q %s Parol -w none %s' % (COQ, af), cwd=wdir, timeout=600)
    if rc != 0:
        res['ok'] = False
        res['failing'].append('Print Assumptions run failed: ' + out[-500:])
        return res
    chunks = out.split('@@ ')[1:]
    for ch in chunks:
        lines = ch.strip().split('\n')
        nme = lines[0].strip()
        body = '\n'.join(lines[1:]).strip()
        if body.startswith('Closed under the global context'):
            res['assumptions'][nme] = []
            res['discharged'] += 1
        else:
            axs = re.findall(r'^([A-Za-z0-9_\.\']+)\s*:', body, re.M)
            res['assumptions'][nme] = axs
            extra = [a for a in axs if a not in AXIOM_ALLOWLIST]
            if extra:
                res['ok'] = False
                res['failing'].append('theorem %s depends on non-allowlisted axioms: %s' % (nme, extra))
            else:
                res['discharged'] += 1
    missing = [n for n in names if n not in res['assumptions']]
    if missing:
        res['ok'] = False
        res['failing'].append('no Print Assumptions output for: %s' % missing)
    return res


def tree_hash(paths):
    h = hashlib.sha256()
    for p in sorted(paths):
        h.update(p.encode())
        h.update(open(p, 'rb').read())
    return h.hexdigest()


def ocaml_step():
    """(Re)build the extracted driver when any .v or driver source changed."""
    srcs = coq_sources() + [os.path.join(OCAML, f) for f in os.listdir(OCAML)
                            if f.endswith('.ml') and f not in ('model.ml',)] + [os.path.join(OCAML, 'build.sh')]
    hsh = tree_hash(srcs)
    stamp = os.path.join(OCAML, '_build', 'stamp')
    if os.path.exists(DRV) and os.path.exists(stamp) and open(stamp).read() == hsh:
        return True, 'cached'
    ensure_makefile()
    rc, out = sh('timeout 2400 make -j%d' % NCPU, cwd=COQ, timeout=2500)
    if rc != 0:
        return False, out[-3000:]
    rc, out = sh('./build.sh', cwd=OCAML, timeout=1200)
    if rc != 0:
        raise MachineryError('extraction / OCaml driver build failed:\n' + out[-3000:])
    open(stamp, 'w').write(hsh)
    return True, 'rebuilt'


def cargo_step():
    lock_src = os.path.join(REPO, 'Cargo.lock')
    lock_dst = os.path.join(HARNESS, 'Cargo.lock')
    if not os.path.exists(lock_dst):
        shutil.copy(lock_src, lock_dst)
    rc, out = sh('cargo build --offline 2>&1', cwd=HARNESS, timeout=3000)
    if rc != 0 and 'Cargo.lock' in out:
        shutil.copy(lock_src, lock_dst)
        rc, out = sh('cargo build --offline 2>&1', cwd=HARNESS, timeout=3000)
    if rc != 0 and is_cache_damage(out):
        # inconsistent incremental artefacts (e.g. the target directory was copied during a build): not a property of
        # /repo. Clean the workspace-local crates and retry once.
        sh('cargo clean --offline -p pv -p parol -p parol_runtime -p parol-macros 2>&1', cwd=HARNESS, timeout=600)
        shutil.rmtree(os.path.join(VERIF, 'target', 'debug', 'incremental'), ignore_errors=True)
        rc, out = sh('cargo build --offline 2>&1', cwd=HARNESS, timeout=3000)
    return rc == 0, out[-6000:]


def is_cache_damage(out):
    """Linker / metadata errors that come from a damaged build cache, not from the sources."""
    return any(x in out for x in ('undefined hidden symbol', 'ld returned', 'rust-lld: error', 'failed to load', 'found invalid metadata',
                                  'can\'t find crate', 'error: linking with', 'incompatible version of rustc', 'malformed'))


def build_repo_bin(packages, target_sub):
    """cargo build -p ... in /repo into /verif/target/<target_sub>, with one clean-and-retry on cache damage."""
    env = dict(os.environ, CARGO_NET_OFFLINE='true', CARGO_TARGET_DIR=os.path.join(VERIF, 'target', target_sub), RUSTFLAGS='--cfg parol_verif')
    cmd = 'cargo build --offline ' + ' '.join('-p ' + p for p in packages)
    p = subprocess.run(cmd, shell=True, cwd=REPO, env=env, stdout=subprocess.PIPE, stderr=subprocess.STDOUT, text=True, timeout=3000)
    if p.returncode != 0 and is_cache_damage(p.stdout):
        subprocess.run('cargo clean --offline -p parol-ls -p parol -p parol_runtime -p parol-macros', shell=True, cwd=REPO, env=env,
                       stdout=subprocess.PIPE, stderr=subprocess.STDOUT, text=True, timeout=600)
        shutil.rmtree(os.path.join(VERIF, 'target', target_sub, 'debug', 'incremental'), ignore_errors=True)
        p = subprocess.run(cmd, shell=True, cwd=REPO, env=env, stdout=subprocess.PIPE, stderr=subprocess.STDOUT, text=True, timeout=3000)
    return p.returncode == 0, p.stdout


# --------------------------------------------------------------------------------------------
# Correspondence
# --------------------------------------------------------------------------------------------

def run_shard(pid, stream, idx, nshards, seed, n, thorough, extra):
    wdir = os.path.join(WORK, pid)
    cases = os.path.join(wdir, '%s-%02d.cases' % (stream, idx))
    verd = os.path.join(wdir, '%s-%02d.verdicts' % (stream, idx))
    cmd = [PV, stream, '--seed', str(seed), '--n', str(n), '--shard', '%d/%d' % (idx, nshards)] + extra
    if thorough:
        cmd.append('--thorough')
    with open(cases, 'w') as fo, open(cases + '.err', 'w') as fe:
        p = subprocess.run(cmd, stdout=fo, stderr=fe, env=ENV, timeout=7200)
    if p.returncode != 0:
        raise MachineryError('harness shard failed rc=%s: %s\n%s' % (p.returncode, ' '.join(cmd),
                                                                     open(cases + '.err').read()[-2000:]))
    with open(cases) as fi, open(verd, 'w') as fo:
        p = subprocess.run([DRV], stdin=fi, stdout=fo, stderr=subprocess.PIPE, timeout=7200, env=dict(os.environ, PV_PROP=pid), text=True)
    if p.returncode != 0:
        raise MachineryError('driver failed on %s: %s' % (cases, p.stderr[-2000:]))
    return cmd, cases, verd


def correspondence(pid, spec, tier, seed):
    """Runs all streams of a property.  Returns dict with counters and failure records."""
    thorough = tier == 'thorough'
    res = dict(evaluations=0, ok=0, skipped=0, nontrivial=set(), failures=[], samples=[], dist={},
               skip_reasons={}, notes=[])
    for st in spec.get('streams', []):
        name = st['cmd']
        n = st['thorough' if thorough else 'quick']
        nshards = st.get('shards', NCPU)
        extra = st.get('extra', [])
        per = max(1, n // nshards)
        with ThreadPoolExecutor(max_workers=NCPU) as ex:
            futs = [ex.submit(run_shard, pid, name, i, nshards, seed, per, thorough, extra) for i in range(nshards)]
            outs = [f.result() for f in futs]
        for (cmd, cases, verd) in outs:
            clines = [l.rstrip('\n') for l in open(cases) if l.startswith('(')]
            vlines = [l.rstrip('\n') for l in open(verd)]
            if len(clines) != len(vlines):
                raise MachineryError('case/verdict count mismatch for %s: %d vs %d' % (cases, len(clines), len(vlines)))
            for i, (c, v) in enumerate(zip(clines, vlines)):
                res['evaluations'] += 1
                if v.startswith('OK'):
                    res['ok'] += 1
                    parts = v.split()
                    if len(parts) > 1 and parts[1] == '1':
                        res['nontrivial'].add(hashlib.md5(c.encode()).digest())
                        if len(res['samples']) < 3 and len(c) < 600:
                            res['samples'].append(c)
                    for tag in parts[2:]:
                        res['dist'][tag] = res['dist'].get(tag, 0) + 1
                elif v.startswith('SKIP'):
                    res['skipped'] += 1
                    r = v[5:45]
                    res['skip_reasons'][r] = res['skip_reasons'].get(r, 0) + 1
                else:
                    m = re.match(r'FAIL\s+(?:key=(\S+)\s+)?(.*)', v)
                    key, why = (m.group(1), m.group(2)) if m else (None, v)
                    res['failures'].append(dict(key=key, why=why, case=c, cmd=cmd, index=i))
        # harness diagnostics (distribution lines on stderr)
        for i in range(nshards):
            errf = os.path.join(WORK, pid, '%s-%02d.cases.err' % (name, i))
            if i == 0 and os.path.exists(errf):
                for l in open(errf).read().split('\n')[:12]:
                    if l.strip():
                        res['notes'].append(l.strip())
    return res


def load_known():
    p = os.path.join(VERIF, 'known_findings.json')
    if not os.path.exists(p):
        return []
    return json.load(open(p)).get('findings', [])


def write_replay(pid, idx, rec, kind='correspondence'):
    wdir = os.path.join(WORK, pid)
    os.makedirs(wdir, exist_ok=True)
    path = os.path.join(wdir, 'replay-%03d.json' % idx)
    json.dump(dict(property=pid, kind=kind, **rec), open(path, 'w'), indent=1)
    return path


def write_evidence(pid, tier, seed, level, coverage, assumptions, wall, violations):
    os.makedirs(EVID, exist_ok=True)
    ev = dict(property_id=pid, tier=tier, seed=seed, level=level, coverage=coverage,
              assumptions=assumptions, wall_s=round(wall, 2), violations=violations)
    json.dump(ev, open(os.path.join(EVID, pid + '.json'), 'w'), indent=1)


def replay(pid, path):
    rec = json.load(open(path))
    print('replay of %s (%s)' % (path, rec.get('kind')))
    if rec.get('kind') != 'correspondence' or (rec.get('cmd') or ['x'])[0] == 'lschecks':
        print(json.dumps(rec, indent=1))
        return 0
    ok, out = cargo_step()
    if not ok:
        print(out)
        return 2
    ocaml_step()
    print('recorded case    :', rec['case'])
    print('recorded verdict :', rec['why'])
    p = subprocess.run(rec['cmd'], stdout=subprocess.PIPE, stderr=subprocess.DEVNULL, env=ENV, text=True)
    lines = [l for l in p.stdout.split('\n') if l.startswith('(')]
    if rec['index'] < len(lines):
        now = lines[rec['index']]
        print('implementation now:', now)
        q = subprocess.run([DRV], input=now + '\n', stdout=subprocess.PIPE, text=True, env=dict(os.environ, PV_PROP=pid))
        print('model verdict now :', q.stdout.strip())
        return 1 if q.stdout.startswith('FAIL') else 0
    print('case index no longer produced by the harness')
    return 2


def main(argv):
    ap = argparse.ArgumentParser()
    ap.add_argument('pid')
    ap.add_argument('--tier', default=os.environ.get('VERIF_TIER', 'quick'), choices=['quick', 'thorough'])
    ap.add_argument('--replay')
    a = ap.parse_args(argv)
    pid = a.pid
    seed = int(os.environ.get('VERIF_SEED', '20260921') or 0)
    import registry
    if pid not in registry.PROPS:
        print('unknown or unclaimed property ' + pid)
        return 2
    spec = registry.PROPS[pid]
    if a.replay:
        return replay(pid, a.replay)
    t0 = time.time()
    os.makedirs(os.path.join(WORK, pid), exist_ok=True)
    for f in os.listdir(os.path.join(WORK, pid)):
        if f.startswith('replay-'):
            os.remove(os.path.join(WORK, pid, f))
    try:
        return run_check(pid, spec, a.tier, seed, t0)
    except MachineryError as e:
        print('MACHINERY ERROR: %s' % e)
        return 2
    except Exception:
        import traceback
        print('MACHINERY ERROR (internal): ' + traceback.format_exc())
        return 2


def _count_keys(fs):
    d = {}
    for f in fs:
        d[str(f['key'])] = d.get(str(f['key']), 0) + 1
    return d


def run_check(pid, spec, tier, seed, t0):
    import registry
    violations = []   # list of (replay_path, suffix)
    known_lines = []
    # 1. harness (rebuilt against /repo's working tree; the translator needs it too)
    okc, outc = cargo_step()
    if okc and spec.get('needs_parol_bin'):
        # the user-facing `parol` binary (e.g. its export subcommand), rebuilt from /repo's working tree
        okc, outc = build_repo_bin(['parol'], 'ls')
        outc = outc[-6000:]
    if not okc:
        # /repo no longer builds with the hooks: nothing can be evaluated
        path = write_replay(pid, 0, dict(broken='harness build against /repo failed', log=outc[-3000:]), kind='build')
        print('VIOLATION property=%s replay=%s no-failing-input-found' % (pid, path))
        write_evidence(pid, tier, seed, spec['level'], dict(explanation='harness build failed', evaluations=0,
                       distinct_nontrivial=0), [], time.time() - t0, 1)
        return 1
    # 2. translator + proofs
    okg, outg = gen_step()
    if not okg:
        raise MachineryError('translator failed: ' + outg[-2000:])
    if spec.get('no_coq') and not os.path.exists(os.path.join(COQ, 'Props', pid + '.v')):
        cq = dict(ok=True, obligations=0, discharged=0, failing=[], log='', assumptions={})
    else:
        cq = coq_step(pid)
    log('coq: %d/%d obligations discharged%s' % (cq['discharged'], cq['obligations'], '' if cq['ok'] else ' -- ' + '; '.join(cq['failing'])))
    oko, outo = ocaml_step()
    if not oko and not os.path.exists(DRV):
        raise MachineryError('extraction/driver build failed: ' + outo)
    # 3. correspondence
    if 'custom' in spec:
        corr = spec['custom'](pid, spec, tier, seed)
    else:
        corr = correspondence(pid, spec, tier, seed)
    # 4. classify
    known = [k for k in load_known() if k['property'] == pid]
    known_keys = {k['key']: k for k in known}
    seen_known = {}
    unknown = []
    for f in corr['failures']:
        if f['key'] and f['key'] in known_keys:
            seen_known.setdefault(f['key'], f)
        else:
            unknown.append(f)
    for key, f in seen_known.items():
        line = 'KNOWN-FINDING: property=%s %s [key=%s; e.g. %s]' % (pid, known_keys[key]['what'], key, f['case'][:200])
        print(line)
        known_lines.append(line)
    # group unknown failures by key/why prefix, report up to 5 replays
    groups = {}
    for f in unknown:
        groups.setdefault((f['key'], '' if f['key'] else f['why'][:60]), []).append(f)
    for gi, ((key, why), fs) in enumerate(sorted(groups.items(), key=lambda kv: str(kv[0]))):
        fs.sort(key=lambda f: len(f['case']))
        path = write_replay(pid, gi + 1, dict(fs[0], count=len(fs)))
        violations.append((path, ''))
        if gi >= 9:
            break
    if not cq['ok']:
        if not violations:
            path = write_replay(pid, 0, dict(broken=cq['failing'], log=cq['log'][-3000:],
                                             note='proof obligations of Props/%s.v no longer check; the correspondence run found no failing input' % pid),
                                kind='proof')
            violations.append((path, ' no-failing-input-found'))
    # 5. evidence
    nt = len(corr['nontrivial'])
    coverage = dict(
        obligations=cq['obligations'], discharged=cq['discharged'],
        checker_cmd='make -C coq Props/%s.vo ; coqc Print Assumptions ; pv | drv (extracted checkers)' % pid,
        trusted_base=registry.TRUSTED_BASE + spec.get('trusted', []),
        evaluations=corr['evaluations'], distinct_nontrivial=nt,
        rule=spec.get('rule', ''), samples=corr['samples'] or [f['case'] for f in corr['failures'][:2]] or ['(none)'],
        exhaustive=bool(spec.get('exhaustive', False)),
        passed=corr['ok'], skipped=corr['skipped'], skip_reasons=corr['skip_reasons'],
        failures=len(corr['failures']), failure_keys=_count_keys(corr['failures']), known_finding_hits={k: 1 for k in seen_known},
        distribution=corr['dist'], harness_notes=corr['notes'][:20],
        theorems=cq['assumptions'], explanation=spec.get('explanation', ''),
    )
    if spec['level'] == 'translation_validation':
        coverage['programs'] = max(1, corr.get('programs', corr['evaluations']))
        coverage['disagreements_checked'] = len(corr['failures'])
    write_evidence(pid, tier, seed, spec['level'], coverage,
                   spec.get('assumptions', []), time.time() - t0, len(violations))
    for path, suffix in violations:
        print('VIOLATION property=%s replay=%s%s' % (pid, path, suffix))
    log('%s %s: %d cases (%d ok, %d skipped, %d failing, %d non-trivial distinct) in %.1fs' % (
        pid, tier, corr['evaluations'], corr['ok'], corr['skipped'], len(corr['failures']), nt, time.time() - t0))
    return 1 if violations else 0
