(** * EBNF canonicalisation: proofs about the model [Canon.canon]

    - [canon_step_preserves]: every single rewrite performed by the loops keeps the language of
      every sequence of factors that does not mention the helper non-terminal, and gives the
      helper the language of the factor it replaced (provided the helper is fresh);
    - [opt_step_unreachable]: after [extract_options] no optional is left, so
      [eliminate_options] never fires;
    - [canon_preserves_lang]: the composition, for both grammar types;
    - [canon_fresh]: the repaired code gives helpers new names (names at any nesting depth are
      visible to [variable_names]); [canon_old_fresh] / [canon_fresh_refuted]: at the pinned
      commit only names visible at top level were avoided;
    - [canon_measure_decreases], [canon_terminates]: [canon_fuel] suffices. *)
From Coq Require Import String Ascii List NArith Arith Bool Lia.
From Parol Require Import Grammar.Cfg Grammar.Member Grammar.Ebnf Transform.Names Transform.Canon.
Import ListNotations.

(** ** Unfolding the nested fixpoint [ex_fac] *)
Lemma ex_fac_group X b : ex_fac X (FGroup b) =
  match ex_alts X b with Some (b', o) => Some (FGroup b', o) | None => None end.
Proof. reflexivity. Qed.
Lemma ex_fac_rep X b : ex_fac X (FRep b) =
  match ex_alts X b with Some (b', o) => Some (FRep b', o) | None => None end.
Proof. reflexivity. Qed.
Lemma ex_fac_opt X o : ex_fac X (FOpt o) = Some (FN X, o).
Proof. reflexivity. Qed.

Lemma ex_subst X :
  (forall f f' o, ex_fac X f = Some (f', o) -> xfree X f = true ->
     subst X (FOpt o) f' = f /\ afree X o = true) /\
  (forall a a' o, ex_seq X a = Some (a', o) -> sfree X a = true ->
     subst_seq X (FOpt o) a' = a /\ afree X o = true) /\
  (forall b b' o, ex_alts X b = Some (b', o) -> afree X b = true ->
     subst_alts X (FOpt o) b' = b /\ afree X o = true).
Proof.
  apply factor_mutind.
  - intros t f' o H. discriminate.
  - intros a f' o H. discriminate.
  - intros b IH f' o H Hf. rewrite ex_fac_group in H.
    destruct (ex_alts X b) as [[b' o']|] eqn:E; [|discriminate]. inversion H; subst f' o'.
    destruct (IH b' o eq_refl Hf) as [Hs Ho]. split; [|exact Ho].
    cbn [subst]. fold (subst_alts X (FOpt o) b'). rewrite Hs. reflexivity.
  - intros b _ f' o H Hf. rewrite ex_fac_opt in H. inversion H; subst f' o.
    split; [|exact Hf]. cbn [subst]. rewrite N.eqb_refl. reflexivity.
  - intros b IH f' o H Hf. rewrite ex_fac_rep in H.
    destruct (ex_alts X b) as [[b' o']|] eqn:E; [|discriminate]. inversion H; subst f' o'.
    destruct (IH b' o eq_refl Hf) as [Hs Ho]. split; [|exact Ho].
    cbn [subst]. fold (subst_alts X (FOpt o) b'). rewrite Hs. reflexivity.
  - intros a' o H. discriminate.
  - intros f fs IHf IHs a' o H Hfree. cbn [ex_seq] in H. cbn [sfree forallb] in Hfree.
    apply andb_prop in Hfree as [Hf Hfs].
    destruct (ex_fac X f) as [[f' o']|] eqn:Ef.
    + inversion H; subst a' o'. destruct (IHf f' o eq_refl Hf) as [Hs Ho]. split; [|exact Ho].
      cbn [subst_seq map]. rewrite Hs. f_equal. apply subst_seq_free. exact Hfs.
    + destruct (ex_seq X fs) as [[r' o']|] eqn:Es; [|discriminate]. inversion H; subst a' o'.
      destruct (IHs r' o eq_refl Hfs) as [Hs Ho]. split; [|exact Ho].
      cbn [subst_seq map]. fold (subst_seq X (FOpt o) r'). rewrite Hs. f_equal.
      apply subst_fac_free. exact Hf.
  - intros b' o H. discriminate.
  - intros a b IHa IHb b' o H Hfree. cbn [ex_alts] in H. cbn [afree forallb] in Hfree.
    apply andb_prop in Hfree as [Ha Hb].
    destruct (ex_seq X a) as [[a' o']|] eqn:Ea.
    + inversion H; subst b' o'. destruct (IHa a' o eq_refl Ha) as [Hs Ho]. split; [|exact Ho].
      cbn [subst_alts map]. fold (subst_seq X (FOpt o) a'). rewrite Hs. f_equal.
      apply subst_alts_free. exact Hb.
    + destruct (ex_alts X b) as [[r' o']|] eqn:Eb; [|discriminate]. inversion H; subst b' o'.
      destruct (IHb r' o eq_refl Hb) as [Hs Ho]. split; [|exact Ho].
      cbn [subst_alts map]. fold (subst_alts X (FOpt o) r'). rewrite Hs. f_equal.
      apply (subst_seq_free X (FOpt o) a Ha).
Qed.

Lemma ex_prods_spec X ps : forall pre a b' o post,
  ex_prods X ps = Some (pre, a, b', o, post) ->
  exists b, ps = pre ++ (a, b) :: post /\ ex_alts X b = Some (b', o).
Proof.
  induction ps as [|[a0 b0] ps IH]; intros pre a b' o post H; cbn [ex_prods] in H; [discriminate|].
  destruct (ex_alts X b0) as [[b1 o1]|] eqn:E.
  - inversion H; subst. exists b0. split; [reflexivity|exact E].
  - destruct (ex_prods X ps) as [[[[[pre1 a1] b1] o1] post1]|]; [|discriminate].
    inversion H; subst. destruct (IH _ _ _ _ _ eq_refl) as (b & -> & Hb).
    exists b. split; [reflexivity|exact Hb].
Qed.

(** ** The rewrites *)
Lemma sep_step_spec ps : forall ps', sep_step ps = Some ps' ->
  exists pre a b post, ps = pre ++ (a, b) :: post /\ 1 < length b /\
    ps' = pre ++ map (fun alt => (a, [alt])) b ++ post /\
    forallb (fun p => negb (Nat.ltb 1 (length (snd p)))) pre = true.
Proof.
  induction ps as [|[a b] ps IH]; intros ps' H; cbn [sep_step] in H; [discriminate|].
  destruct (Nat.ltb_spec 1 (length b)) as [Hlt|Hge].
  - inversion H; subst. exists [], a, b, ps. repeat split. exact Hlt.
  - destruct (sep_step ps) as [r'|]; [|discriminate]. inversion H; subst.
    destruct (IH r' eq_refl) as (pre & a' & b' & post & -> & Hlt & -> & Hpre).
    exists ((a, b) :: pre), a', b', post. repeat split; [exact Hlt|].
    cbn [forallb snd]. rewrite Hpre. destruct (Nat.ltb_spec 1 (length b)); [lia|reflexivity].
Qed.

(** [rewrite is_lr X ps ps' F]: one iteration of one of the loops turns [ps] into [ps'];
    [F = Some f] when the helper [X] was introduced for the factor [f]. *)
Inductive rewrite (is_lr : bool) (X : N) : list eprod -> list eprod -> option factor -> Prop :=
| rw_extract ps pre a b' o post :
    ex_prods X ps = Some (pre, a, b', o, post) ->
    rewrite is_lr X ps (pre ++ (a, b') :: (X, [[FGroup o]]) :: (X, [[]]) :: post) (Some (FOpt o))
| rw_sep ps ps' : sep_step ps = Some ps' -> rewrite is_lr X ps ps' None
| rw_rep ps l :
    find_prods is_rep ps = Some l ->
    rewrite is_lr X ps (unloc l [FN X] (rep_news is_lr X (fbody (l_f l)))) (Some (l_f l))
| rw_grp1 ps l alt :
    find_prods is_grp ps = Some l -> fbody (l_f l) = [alt] ->
    rewrite is_lr X ps (unloc l alt []) None
| rw_grp2 ps l :
    find_prods is_grp ps = Some l -> (forall alt, fbody (l_f l) <> [alt]) ->
    rewrite is_lr X ps (unloc l [FN X] [(X, fbody (l_f l))]) (Some (l_f l)).

Lemma malts_mid ps b1 s1 m1 m2 s2 b2 :
  (forall w, mseq ps m1 w -> mseq ps m2 w) ->
  forall w, malts ps (b1 ++ (s1 ++ m1 ++ s2) :: b2) w -> malts ps (b1 ++ (s1 ++ m2 ++ s2) :: b2) w.
Proof.
  intros Hm w H. apply malts_inv in H as (a & Hin & Ha).
  apply in_app_iff in Hin as [Hin|[<-|Hin]].
  - econstructor; [apply in_app_iff; left; exact Hin|exact Ha].
  - econstructor; [apply in_app_iff; right; left; reflexivity|].
    apply mseq_app_inv in Ha as (u & v & -> & Hu & Hv).
    apply mseq_app_inv in Hv as (v1 & v2 & -> & Hv1 & Hv2).
    apply mseq_app; [exact Hu|]. apply mseq_app; [apply Hm; exact Hv1|exact Hv2].
  - econstructor; [apply in_app_iff; right; right; exact Hin|exact Ha].
Qed.

Lemma is_rep_inv f : is_rep f = true -> f = FRep (fbody f).
Proof. destruct f; try discriminate. reflexivity. Qed.
Lemma is_grp_inv f : is_grp f = true -> f = FGroup (fbody f).
Proof. destruct f; try discriminate. reflexivity. Qed.
Lemma is_opt_inv f : is_opt f = true -> f = FOpt (fbody f).
Proof. destruct f; try discriminate. reflexivity. Qed.

Lemma in_unloc_news l mid news p : In p news -> In p (unloc l mid news).
Proof. intros H. unfold unloc. apply in_app_iff. right. right. apply in_app_iff. left. exact H. Qed.

(** Productions (2)/(2a) of [eliminate_single_rep] describe the repetition. *)
Lemma rep_news_back is_lr ps X rb : afree X rb = true ->
  forall x c, In (x, c) (rep_news is_lr X rb) ->
    x = X /\ forall w, malts ps (subst_alts X (FRep rb) c) w -> mfac ps (FRep rb) w.
Proof.
  intros Hfree x c Hin.
  assert (Hnil : forall w, malts ps (subst_alts X (FRep rb) [[]]) w -> mfac ps (FRep rb) w).
  { intros w H. apply malts_single in H. apply mseq_nil_inv in H. subst w. constructor. }
  assert (Hgrp : forall c', (c' = [[FN X; FGroup rb]] \/ c' = [[FGroup rb; FN X]]) ->
            forall w, malts ps (subst_alts X (FRep rb) c') w -> mfac ps (FRep rb) w).
  { intros c' Hc w H. destruct Hc as [-> | ->]; cbn [subst_alts map subst] in H;
      rewrite N.eqb_refl in H; fold (subst_alts X (FRep rb) rb) in H;
      rewrite (subst_alts_free X _ rb Hfree) in H; apply malts_single in H;
      apply mseq_cons_inv in H as (u & v & -> & Hu & Hv); apply mseq_single in Hv.
    - apply mfac_G_inv in Hv. apply rep_snoc; assumption.
    - apply mfac_G_inv in Hu. constructor; assumption. }
  unfold rep_news in Hin.
  destruct rb as [|alt [|alt2 rb']].
  - destruct is_lr; destruct Hin as [E|[E|[]]]; inversion E; subst x c; split; try reflexivity;
      try exact Hnil; apply Hgrp; auto.
  - cbn [afree forallb] in Hfree. rewrite andb_true_r in Hfree.
    destruct Hin as [E|[E|[]]]; inversion E; subst x c; (split; [reflexivity|]); [|exact Hnil].
    intros w H. destruct is_lr.
    + cbn [subst_alts map subst] in H. rewrite N.eqb_refl in H.
      fold (subst_seq X (FRep [alt]) alt) in H. rewrite (subst_seq_free X _ alt Hfree) in H.
      apply malts_single in H. apply mseq_cons_inv in H as (u & v & -> & Hu & Hv).
      apply rep_snoc; [exact Hu|]. apply malts_single. exact Hv.
    + change (subst_alts X (FRep [alt]) [alt ++ [FN X]])
        with [subst_seq X (FRep [alt]) (alt ++ [FN X])] in H.
      rewrite subst_seq_app, (subst_seq_free X _ alt Hfree) in H.
      cbn [subst_seq map subst] in H. rewrite N.eqb_refl in H.
      apply malts_single in H. apply mseq_app_inv in H as (u & v & -> & Hu & Hv).
      apply mseq_single in Hv. constructor; [apply malts_single; exact Hu|exact Hv].
  - destruct is_lr; destruct Hin as [E|[E|[]]]; inversion E; subst x c; split; try reflexivity;
      try exact Hnil; apply Hgrp; auto.
Qed.

Lemma rep_news_fwd is_lr ps X rb :
  (forall p, In p (rep_news is_lr X rb) -> In p ps) ->
  forall w, mfac ps (FRep rb) w -> mfac ps (FN X) w.
Proof.
  intros Hin.
  assert (H0 : mfac ps (FN X) []).
  { econstructor; [apply Hin|apply malts_single; constructor].
    unfold rep_news. destruct rb as [|alt [|alt2 rb']]; right; left; reflexivity. }
  destruct is_lr.
  - apply rep_left; [exact H0|]. intros u v Hu Hv.
    destruct rb as [|alt [|alt2 rb']].
    + econstructor; [apply Hin; left; reflexivity|]. apply malts_single.
      constructor; [exact Hu|]. apply mseq_single. constructor. exact Hv.
    + econstructor; [apply Hin; left; reflexivity|]. apply malts_single.
      constructor; [exact Hu|]. apply malts_single. exact Hv.
    + econstructor; [apply Hin; left; reflexivity|]. apply malts_single.
      constructor; [exact Hu|]. apply mseq_single. constructor. exact Hv.
  - apply rep_right; [exact H0|]. intros u v Hu Hv.
    destruct rb as [|alt [|alt2 rb']].
    + econstructor; [apply Hin; left; reflexivity|]. apply malts_single.
      constructor; [constructor; exact Hu|]. apply mseq_single. exact Hv.
    + econstructor; [apply Hin; left; reflexivity|]. apply malts_single.
      apply mseq_app; [apply malts_single; exact Hu|apply mseq_single; exact Hv].
    + econstructor; [apply Hin; left; reflexivity|]. apply malts_single.
      constructor; [constructor; exact Hu|]. apply mseq_single. exact Hv.
Qed.

(** *** Every single rewrite preserves the language *)
Theorem canon_step_preserves is_lr X ps ps' F :
  rewrite is_lr X ps ps' F -> gfree X ps = true ->
  (forall fs w, sfree X fs = true -> (mseq ps fs w <-> mseq ps' fs w)) /\
  (forall f, F = Some f -> forall w, mfac ps' (FN X) w <-> mfac ps f w).
Proof.
  intros Hrw Hfree. destruct Hrw as [ps pre a b' o post Hex|ps ps' Hsep|ps l Hfind|ps l alt Hfind Hb|ps l Hfind Hb].
  - (* extract_options *)
    apply ex_prods_spec in Hex as (b & -> & Hex).
    destruct (gfree_in X _ Hfree a b) as [Hne Hb]; [apply in_app_iff; right; left; reflexivity|].
    destruct (proj2 (proj2 (ex_subst X)) b b' o Hex Hb) as [Hs Ho].
    assert (Hgoal : (forall fs w, sfree X fs = true ->
        (mseq (pre ++ (a, b) :: post) fs w <->
         mseq (pre ++ (a, b') :: [(X, [[FGroup o]]); (X, [[]])] ++ post) fs w)) /\
      (forall w, mfac (pre ++ (a, b') :: [(X, [[FGroup o]]); (X, [[]])] ++ post) (FN X) w <->
                 mfac (pre ++ (a, b) :: post) (FOpt o) w)).
    { apply intro_preserves; [exact Hfree|exact Ho|exact Hs| |].
      - intros x c [E|[E|[]]]; inversion E; subst x c; (split; [reflexivity|]); intros w H.
        + cbn [subst_alts map subst] in H. fold (subst_alts X (FOpt o) o) in H.
          rewrite (subst_alts_free X _ o Ho) in H. apply malts_single, mseq_single in H.
          apply mfac_G_inv in H. apply mf_O1. exact H.
        + apply malts_single in H. apply mseq_nil_inv in H. subst w. constructor.
      - intros w H. apply mfac_O_inv in H as [->|H].
        + econstructor; [apply in_app_iff; right; right; right; left; reflexivity|].
          apply malts_single. constructor.
        + econstructor; [apply in_app_iff; right; right; left; reflexivity|].
          apply malts_single, mseq_single. constructor. exact H. }
    destruct Hgoal as [H1 H2]. split; [exact H1|]. intros f E w. inversion E; subst f. apply H2.
  - (* separate_alternatives *)
    apply sep_step_spec in Hsep as (pre & a & b & post & -> & Hlt & -> & _).
    split; [|intros f E; discriminate]. intros fs w _. split.
    + apply mseq_incl_gen. intros x c Hin w' Hc.
      apply in_app_iff in Hin as [Hin|[E|Hin]].
      * econstructor; [apply in_app_iff; left; exact Hin|exact Hc].
      * inversion E; subst x c. apply malts_inv in Hc as (alt & Halt & Hs).
        econstructor; [|apply malts_single; exact Hs].
        apply in_app_iff. right. apply in_app_iff. left.
        apply in_map_iff. exists alt. split; [reflexivity|exact Halt].
      * econstructor; [|exact Hc]. apply in_app_iff. right. apply in_app_iff. right. exact Hin.
    + apply mseq_incl_gen. intros x c Hin w' Hc.
      apply in_app_iff in Hin as [Hin|Hin]; [|apply in_app_iff in Hin as [Hin|Hin]].
      * econstructor; [apply in_app_iff; left; exact Hin|exact Hc].
      * apply in_map_iff in Hin as (alt & E & Halt). inversion E; subst x c.
        apply malts_single in Hc. econstructor; [apply in_app_iff; right; left; reflexivity|].
        econstructor; [exact Halt|exact Hc].
      * econstructor; [|exact Hc]. apply in_app_iff. right. right. exact Hin.
  - (* eliminate_repetitions *)
    apply find_prods_spec in Hfind as (E & Hrep). apply is_rep_inv in Hrep.
    rewrite E in Hfree |- *. set (rb := fbody (l_f l)) in *.
    pose proof Hfree as Hf. apply gfree_unloc_iff in Hf.
    destruct Hf as (_ & _ & _ & _ & Hmid & _). rewrite sfree_single, Hrep in Hmid.
    cbn [xfree] in Hmid. fold (afree X rb) in Hmid.
    destruct (intro_loc_preserves X l (rep_news is_lr X rb) Hfree) as [H1 H2].
    + rewrite Hrep. apply rep_news_back. exact Hmid.
    + rewrite Hrep. apply (rep_news_fwd is_lr). intros p Hp. apply in_unloc_news. exact Hp.
    + split; [exact H1|]. intros f Ef w. inversion Ef; subst f. apply H2.
  - (* eliminate_groups, case 1 *)
    apply find_prods_spec in Hfind as (E & Hgrp). apply is_grp_inv in Hgrp. rewrite Hb in Hgrp.
    rewrite E, Hgrp. split; [|intros f Ef; discriminate]. intros fs w _.
    assert (Hmid : forall q w', mseq q [FGroup [alt]] w' <-> mseq q alt w').
    { intros q w'. rewrite mseq_single. split; intros H.
      - apply mfac_G_inv in H. apply malts_single in H. exact H.
      - constructor. apply malts_single. exact H. }
    unfold unloc. cbn [app]. split.
    + apply mseq_incl_gen. intros x c Hin w' Hc.
      apply in_app_iff in Hin as [Hin|[Ex|Hin]].
      * econstructor; [apply in_app_iff; left; exact Hin|exact Hc].
      * inversion Ex; subst x c. econstructor; [apply in_app_iff; right; left; reflexivity|].
        revert Hc. apply (malts_mid _ (l_b1 l) (l_s1 l) [FGroup [alt]] alt (l_s2 l) (l_b2 l)).
        intros w''. apply Hmid.
      * econstructor; [apply in_app_iff; right; right; exact Hin|exact Hc].
    + apply mseq_incl_gen. intros x c Hin w' Hc.
      apply in_app_iff in Hin as [Hin|[Ex|Hin]].
      * econstructor; [apply in_app_iff; left; exact Hin|exact Hc].
      * inversion Ex; subst x c. econstructor; [apply in_app_iff; right; left; reflexivity|].
        revert Hc. apply (malts_mid _ (l_b1 l) (l_s1 l) alt [FGroup [alt]] (l_s2 l) (l_b2 l)).
        intros w''. apply Hmid.
      * econstructor; [apply in_app_iff; right; right; exact Hin|exact Hc].
  - (* eliminate_groups, case 2 *)
    apply find_prods_spec in Hfind as (E & Hgrp). apply is_grp_inv in Hgrp.
    rewrite E in Hfree |- *. set (gb := fbody (l_f l)) in *.
    pose proof Hfree as Hf. apply gfree_unloc_iff in Hf.
    destruct Hf as (_ & _ & _ & _ & Hmid & _). rewrite sfree_single, Hgrp in Hmid.
    cbn [xfree] in Hmid. fold (afree X gb) in Hmid.
    destruct (intro_loc_preserves X l [(X, gb)] Hfree) as [H1 H2].
    + intros x c [Ex|[]]. inversion Ex; subst x c. split; [reflexivity|]. intros w H.
      rewrite (subst_alts_free X _ gb Hmid) in H. rewrite Hgrp in H |- *. constructor. exact H.
    + intros w H. rewrite Hgrp in H. apply mfac_G_inv in H.
      econstructor; [apply in_unloc_news; left; reflexivity|exact H].
    + split; [exact H1|]. intros f Ef w. inversion Ef; subst f. apply H2.
Qed.

(** ** Bounds are preserved *)
Lemma ex_bound X n : (X < n)%N ->
  (forall f f' o, ex_fac X f = Some (f', o) -> fbound n f = true ->
     fbound n f' = true /\ abound n o = true) /\
  (forall a a' o, ex_seq X a = Some (a', o) -> sbound n a = true ->
     sbound n a' = true /\ abound n o = true) /\
  (forall b b' o, ex_alts X b = Some (b', o) -> abound n b = true ->
     abound n b' = true /\ abound n o = true).
Proof.
  intros Hlt. apply factor_mutind.
  - intros t f' o H. discriminate.
  - intros a f' o H. discriminate.
  - intros b IH f' o H Hb. rewrite ex_fac_group in H.
    destruct (ex_alts X b) as [[b' o']|] eqn:E; [|discriminate]. inversion H; subst f' o'.
    exact (IH b' o eq_refl Hb).
  - intros b _ f' o H Hb. rewrite ex_fac_opt in H. inversion H; subst f' o.
    split; [|exact Hb]. cbn [fbound]. apply N.ltb_lt. exact Hlt.
  - intros b IH f' o H Hb. rewrite ex_fac_rep in H.
    destruct (ex_alts X b) as [[b' o']|] eqn:E; [|discriminate]. inversion H; subst f' o'.
    exact (IH b' o eq_refl Hb).
  - intros a' o H. discriminate.
  - intros f fs IHf IHs a' o H Hb. cbn [ex_seq] in H. cbn [sbound forallb] in Hb.
    apply andb_prop in Hb as [Hf Hfs].
    destruct (ex_fac X f) as [[f' o']|] eqn:Ef.
    + inversion H; subst a' o'. destruct (IHf f' o eq_refl Hf) as [H1 H2]. split; [|exact H2].
      cbn [sbound forallb]. rewrite H1. exact Hfs.
    + destruct (ex_seq X fs) as [[r' o']|] eqn:Es; [|discriminate]. inversion H; subst a' o'.
      destruct (IHs r' o eq_refl Hfs) as [H1 H2]. split; [|exact H2].
      cbn [sbound forallb]. rewrite Hf. exact H1.
  - intros b' o H. discriminate.
  - intros a b IHa IHb b' o H Hb. cbn [ex_alts] in H. cbn [abound forallb] in Hb.
    apply andb_prop in Hb as [Ha Hbb].
    destruct (ex_seq X a) as [[a' o']|] eqn:Ea.
    + inversion H; subst b' o'. destruct (IHa a' o eq_refl Ha) as [H1 H2]. split; [|exact H2].
      cbn [abound forallb]. unfold sbound in H1. rewrite H1. exact Hbb.
    + destruct (ex_alts X b) as [[r' o']|] eqn:Eb; [|discriminate]. inversion H; subst b' o'.
      destruct (IHb r' o eq_refl Hbb) as [H1 H2]. split; [|exact H2].
      cbn [abound forallb]. rewrite Ha. exact H1.
Qed.

Lemma gbound_cons n a b ps : gbound n ((a, b) :: ps) = true <->
  (a < n)%N /\ abound n b = true /\ gbound n ps = true.
Proof.
  change (gbound n ((a, b) :: ps)) with ((N.ltb a n && abound n b) && gbound n ps).
  rewrite !andb_true_iff, N.ltb_lt. tauto.
Qed.

Lemma gbound_app_iff n p q : gbound n (p ++ q) = true <-> gbound n p = true /\ gbound n q = true.
Proof. rewrite gbound_app, andb_true_iff. tauto. Qed.

Lemma gbound_sep n a b : (a < n)%N -> abound n b = true ->
  gbound n (map (fun alt => (a, [alt])) b) = true.
Proof.
  intros Ha. induction b as [|alt b IH]; intros Hb; [reflexivity|].
  cbn [abound forallb] in Hb. apply andb_prop in Hb as [H1 H2].
  cbn [map]. apply gbound_cons. split; [exact Ha|]. split; [|exact (IH H2)].
  cbn [abound forallb]. rewrite H1. reflexivity.
Qed.

Lemma rep_news_bound is_lr X rb : abound (N.succ X) rb = true ->
  gbound (N.succ X) (rep_news is_lr X rb) = true.
Proof.
  intros Hb. assert (HX : (X < N.succ X)%N) by lia.
  assert (Hnil : gbound (N.succ X) [(X, [[]])] = true).
  { apply gbound_cons. repeat split. exact HX. }
  assert (HXb : N.ltb X (N.succ X) = true) by (apply N.ltb_lt; exact HX).
  unfold rep_news. destruct rb as [|alt [|alt2 rb']].
  - destruct is_lr; apply gbound_cons; (split; [exact HX|]); (split; [|exact Hnil]);
      cbn [abound forallb fbound]; rewrite HXb; reflexivity.
  - cbn [abound forallb] in Hb. rewrite andb_true_r in Hb.
    apply gbound_cons. split; [exact HX|]. split; [|exact Hnil].
    destruct is_lr; cbn [abound forallb fbound]; rewrite ?andb_true_r.
    + rewrite HXb. exact Hb.
    + rewrite forallb_app. rewrite Hb. cbn [forallb fbound]. rewrite HXb. reflexivity.
  - destruct is_lr; apply gbound_cons; (split; [exact HX|]); (split; [|exact Hnil]);
      cbn [abound forallb fbound] in *; rewrite HXb, Hb; reflexivity.
Qed.

Lemma rewrite_bound is_lr X ps ps' F :
  rewrite is_lr X ps ps' F -> gbound X ps = true ->
  gbound (N.succ X) ps' = true /\ (F = None -> gbound X ps' = true).
Proof.
  intros Hrw Hb.
  assert (Hb1 : gbound (N.succ X) ps = true) by (apply (gbound_mono X); [lia|exact Hb]).
  destruct Hrw as [ps pre a b' o post Hex|ps ps' Hsep|ps l Hfind|ps l alt Hfind Hfb|ps l Hfind Hfb].
  - split; [|discriminate]. apply ex_prods_spec in Hex as (b & -> & Hex).
    apply gbound_app_iff in Hb1 as [Hpre Hrest]. apply gbound_cons in Hrest as (Ha & Hbb & Hpost).
    destruct (proj2 (proj2 (ex_bound X (N.succ X) ltac:(lia))) b b' o Hex Hbb) as [Hb' Ho].
    apply gbound_app_iff. split; [exact Hpre|]. apply gbound_cons. split; [exact Ha|]. split; [exact Hb'|].
    apply gbound_cons. split; [lia|]. split.
    + cbn [abound forallb fbound]. fold (abound (N.succ X) o). rewrite Ho. reflexivity.
    + apply gbound_cons. split; [lia|]. split; [reflexivity|exact Hpost].
  - apply sep_step_spec in Hsep as (pre & a & b & post & -> & _ & -> & _).
    assert (Hgen : forall n, gbound n (pre ++ (a, b) :: post) = true ->
                   gbound n (pre ++ map (fun alt => (a, [alt])) b ++ post) = true).
    { intros n H. apply gbound_app_iff in H as [Hpre Hrest].
      apply gbound_cons in Hrest as (Ha & Hbb & Hpost).
      apply gbound_app_iff. split; [exact Hpre|]. apply gbound_app_iff. split; [|exact Hpost].
      apply gbound_sep; assumption. }
    split; [apply Hgen; exact Hb1|intros _; apply Hgen; exact Hb].
  - split; [|discriminate]. apply find_prods_spec in Hfind as (E & Hrep). apply is_rep_inv in Hrep.
    rewrite E in Hb1. apply gbound_unloc_iff in Hb1.
    destruct Hb1 as (Hpre & Hlt & Hbb1 & Hs1 & Hmid & Hs2 & Hbb2 & _ & Hpost).
    apply gbound_unloc_iff. repeat split; try assumption.
    + rewrite sbound_single. cbn [fbound]. apply N.ltb_lt. lia.
    + apply rep_news_bound. rewrite sbound_single, Hrep in Hmid. exact Hmid.
  - apply find_prods_spec in Hfind as (E & Hgrp). apply is_grp_inv in Hgrp. rewrite Hfb in Hgrp.
    assert (Hgen : forall n, gbound n ps = true -> gbound n (unloc l alt []) = true).
    { intros n H. rewrite E in H. apply gbound_unloc_iff in H.
      destruct H as (Hpre & Hlt & Hbb1 & Hs1 & Hmid & Hs2 & Hbb2 & _ & Hpost).
      apply gbound_unloc_iff. repeat split; try assumption.
      rewrite sbound_single, Hgrp in Hmid. cbn [fbound forallb] in Hmid.
      rewrite andb_true_r in Hmid. exact Hmid. }
    split; [apply Hgen; exact Hb1|intros _; apply Hgen; exact Hb].
  - split; [|discriminate]. apply find_prods_spec in Hfind as (E & Hgrp). apply is_grp_inv in Hgrp.
    rewrite E in Hb1. apply gbound_unloc_iff in Hb1.
    destruct Hb1 as (Hpre & Hlt & Hbb1 & Hs1 & Hmid & Hs2 & Hbb2 & _ & Hpost).
    apply gbound_unloc_iff. repeat split; try assumption.
    + rewrite sbound_single. cbn [fbound]. apply N.ltb_lt. lia.
    + apply gbound_cons. split; [lia|]. split; [|reflexivity].
      rewrite sbound_single, Hgrp in Hmid. exact Hmid.
Qed.

(** ** No optional survives [extract_options] *)
Fixpoint noopt (f : factor) : bool :=
  match f with
  | FT _ => true
  | FN _ => true
  | FGroup b => forallb (forallb noopt) b
  | FRep b => forallb (forallb noopt) b
  | FOpt _ => false
  end.
Definition snoopt (a : list factor) : bool := forallb noopt a.
Definition anoopt (b : alts) : bool := forallb (forallb noopt) b.
Definition gnoopt (ps : list eprod) : bool := forallb (fun p => anoopt (snd p)) ps.

Lemma ex_none_noopt X :
  (forall f, ex_fac X f = None <-> noopt f = true) /\
  (forall a, ex_seq X a = None <-> snoopt a = true) /\
  (forall b, ex_alts X b = None <-> anoopt b = true).
Proof.
  apply factor_mutind.
  - intros t. split; reflexivity.
  - intros a. split; reflexivity.
  - intros b IH. rewrite ex_fac_group. cbn [noopt]. fold (anoopt b). rewrite <- IH.
    destruct (ex_alts X b) as [[b' o]|]; split; intros H; try discriminate; reflexivity.
  - intros b _. rewrite ex_fac_opt. cbn [noopt]. split; discriminate.
  - intros b IH. rewrite ex_fac_rep. cbn [noopt]. fold (anoopt b). rewrite <- IH.
    destruct (ex_alts X b) as [[b' o]|]; split; intros H; try discriminate; reflexivity.
  - split; reflexivity.
  - intros f fs IHf IHs. cbn [ex_seq snoopt forallb]. fold (snoopt fs).
    rewrite andb_true_iff, <- IHf, <- IHs.
    destruct (ex_fac X f) as [[f' o]|]; [split; [discriminate|intros [H _]; discriminate]|].
    destruct (ex_seq X fs) as [[r' o]|]; [split; [discriminate|intros [_ H]; discriminate]|].
    split; auto.
  - split; reflexivity.
  - intros a b IHa IHb. cbn [ex_alts anoopt forallb]. fold (anoopt b). fold (snoopt a).
    rewrite andb_true_iff, <- IHa, <- IHb.
    destruct (ex_seq X a) as [[a' o]|]; [split; [discriminate|intros [H _]; discriminate]|].
    destruct (ex_alts X b) as [[r' o]|]; [split; [discriminate|intros [_ H]; discriminate]|].
    split; auto.
Qed.

Lemma ex_prods_none X ps : ex_prods X ps = None <-> gnoopt ps = true.
Proof.
  induction ps as [|[a b] ps IH]; [split; reflexivity|].
  cbn [ex_prods gnoopt forallb snd]. fold (gnoopt ps).
  rewrite andb_true_iff, <- IH, <- (proj2 (proj2 (ex_none_noopt X)) b).
  destruct (ex_alts X b) as [[b' o]|]; [split; [discriminate|intros [H _]; discriminate]|].
  destruct (ex_prods X ps) as [[[[[pre a'] b'] o] post]|]; [split; [discriminate|intros [_ H]; discriminate]|].
  split; auto.
Qed.

Lemma gnoopt_app p q : gnoopt (p ++ q) = gnoopt p && gnoopt q.
Proof. apply forallb_app. Qed.

Lemma gnoopt_unloc_iff l mid news :
  gnoopt (unloc l mid news) = true <->
  gnoopt (l_pre l) = true /\ anoopt (l_b1 l) = true /\ snoopt (l_s1 l) = true /\
  snoopt mid = true /\ snoopt (l_s2 l) = true /\ anoopt (l_b2 l) = true /\
  gnoopt news = true /\ gnoopt (l_post l) = true.
Proof.
  unfold unloc. rewrite gnoopt_app. cbn [gnoopt forallb snd]. fold (gnoopt (news ++ l_post l)).
  rewrite gnoopt_app. unfold anoopt at 1. rewrite forallb_app. cbn [forallb].
  fold (anoopt (l_b1 l)). fold (anoopt (l_b2 l)). rewrite !forallb_app.
  fold (snoopt (l_s1 l)). fold (snoopt mid). fold (snoopt (l_s2 l)).
  rewrite !andb_true_iff. tauto.
Qed.

Lemma gnoopt_find_opt ps : gnoopt ps = true -> find_prods is_opt ps = None.
Proof.
  intros H. destruct (find_prods is_opt ps) as [l|] eqn:E; [|reflexivity]. exfalso.
  apply find_prods_spec in E as (E & Hopt). rewrite E in H. apply gnoopt_unloc_iff in H.
  destruct H as (_ & _ & _ & Hmid & _). apply is_opt_inv in Hopt. rewrite Hopt in Hmid.
  cbn in Hmid. discriminate.
Qed.

Lemma rewrite_noopt is_lr X ps ps' F :
  rewrite is_lr X ps ps' F -> gnoopt ps = true -> gnoopt ps' = true.
Proof.
  intros Hrw Hn.
  destruct Hrw as [ps pre a b' o post Hex|ps ps' Hsep|ps l Hfind|ps l alt Hfind Hfb|ps l Hfind Hfb].
  - apply (ex_prods_none X) in Hn. congruence.
  - apply sep_step_spec in Hsep as (pre & a & b & post & -> & _ & -> & _).
    rewrite gnoopt_app in Hn. apply andb_prop in Hn as [Hpre Hrest].
    cbn [gnoopt forallb snd] in Hrest. apply andb_prop in Hrest as [Hb Hpost].
    rewrite !gnoopt_app, Hpre. cbn [andb]. apply andb_true_intro. split; [|exact Hpost].
    clear -Hb. induction b as [|alt b IH]; [reflexivity|]. cbn [anoopt forallb] in Hb.
    apply andb_prop in Hb as [H1 H2]. cbn [map gnoopt forallb snd anoopt]. rewrite H1. cbn [andb].
    exact (IH H2).
  - apply find_prods_spec in Hfind as (E & Hrep). apply is_rep_inv in Hrep.
    rewrite E in Hn. apply gnoopt_unloc_iff in Hn.
    destruct Hn as (Hpre & Hb1 & Hs1 & Hmid & Hs2 & Hb2 & _ & Hpost).
    apply gnoopt_unloc_iff. repeat split; try assumption.
    cbn [snoopt forallb] in Hmid. rewrite andb_true_r, Hrep in Hmid. cbn [noopt] in Hmid.
    set (rb := fbody (l_f l)) in *. unfold rep_news.
    destruct rb as [|alt [|alt2 rb']].
    + destruct is_lr; reflexivity.
    + cbn [forallb] in Hmid. rewrite andb_true_r in Hmid.
      destruct is_lr; cbn [gnoopt forallb snd anoopt noopt]; rewrite ?forallb_app, Hmid; reflexivity.
    + destruct is_lr; cbn [gnoopt forallb snd anoopt noopt] in *; rewrite Hmid; reflexivity.
  - apply find_prods_spec in Hfind as (E & Hgrp). apply is_grp_inv in Hgrp. rewrite Hfb in Hgrp.
    rewrite E in Hn. apply gnoopt_unloc_iff in Hn.
    destruct Hn as (Hpre & Hb1 & Hs1 & Hmid & Hs2 & Hb2 & _ & Hpost).
    apply gnoopt_unloc_iff. repeat split; try assumption.
    cbn [snoopt forallb] in Hmid. rewrite andb_true_r, Hgrp in Hmid. cbn [noopt forallb] in Hmid.
    rewrite andb_true_r in Hmid. exact Hmid.
  - apply find_prods_spec in Hfind as (E & Hgrp). apply is_grp_inv in Hgrp.
    rewrite E in Hn. apply gnoopt_unloc_iff in Hn.
    destruct Hn as (Hpre & Hb1 & Hs1 & Hmid & Hs2 & Hb2 & _ & Hpost).
    apply gnoopt_unloc_iff. repeat split; try assumption.
    cbn [snoopt forallb] in Hmid. rewrite andb_true_r, Hgrp in Hmid. cbn [noopt] in Hmid.
    cbn [gnoopt forallb snd]. rewrite andb_true_r. exact Hmid.
Qed.

Section Deep.
  Variable deep : bool.

(** [eliminate_options] never fires on an optional-free grammar. *)
Theorem opt_step_unreachable st : gnoopt (st_ps st) = true -> opt_step deep st = Ok None.
Proof. intros H. unfold opt_step. rewrite (gnoopt_find_opt _ H). reflexivity. Qed.

(** ** Steps of the model are rewrites *)

Inductive cstep (is_lr : bool) (st st' : cstate) : Prop :=
| cs_new f name excl :
    rewrite is_lr (next_nt st) (st_ps st) (st_ps st') (Some f) ->
    variable_names_gen deep st = Ok excl -> ~ In name excl ->
    st_names st' = st_names st ++ [name] -> cstep is_lr st st'
| cs_same :
    rewrite is_lr (next_nt st) (st_ps st) (st_ps st') None ->
    st_names st' = st_names st -> cstep is_lr st st'.

Inductive creach (is_lr : bool) : cstate -> cstate -> Prop :=
| cr_refl st : creach is_lr st st
| cr_step st st1 st2 : cstep is_lr st st1 -> creach is_lr st1 st2 -> creach is_lr st st2.

Lemma creach_trans is_lr a b c : creach is_lr a b -> creach is_lr b c -> creach is_lr a c.
Proof. induction 1 as [|st st1 st2 Hs _ IH]; intros H; [exact H|]. econstructor; [exact Hs|exact (IH H)]. Qed.

Lemma creach_one is_lr a b : cstep is_lr a b -> creach is_lr a b.
Proof. intros H. econstructor; [exact H|constructor]. Qed.

Lemma extract_step_some is_lr st st' : extract_step deep st = Ok (Some st') -> cstep is_lr st st'.
Proof.
  unfold extract_step. intros H.
  destruct (ex_prods (next_nt st) (st_ps st)) as [[[[[pre a] b'] o] post]|] eqn:Ex; [|discriminate].
  destruct (variable_names_gen deep st) as [excl|e] eqn:Ev; [|discriminate]. cbn [bind] in H.
  destruct (name_of (st_names st) a) as [nt|e]; [|discriminate]. cbn [bind] in H.
  inversion H; subst st'. clear H.
  eapply cs_new with (excl := excl); cbn [st_ps st_names].
  - apply rw_extract. exact Ex.
  - exact Ev.
  - apply generate_name_fresh.
  - reflexivity.
Qed.

Lemma extract_step_none st : extract_step deep st = Ok None -> gnoopt (st_ps st) = true.
Proof.
  unfold extract_step. intros H.
  destruct (ex_prods (next_nt st) (st_ps st)) as [[[[[pre a] b'] o] post]|] eqn:Ex.
  - destruct (variable_names_gen deep st) as [excl|e]; [|discriminate]. cbn [bind] in H.
    destruct (name_of (st_names st) a) as [nt|e]; discriminate.
  - apply (ex_prods_none (next_nt st)). exact Ex.
Qed.

Lemma rep_step_some is_lr st st' : rep_step deep is_lr st = Ok (Some st') -> cstep is_lr st st'.
Proof.
  unfold rep_step. intros H.
  destruct (find_prods is_rep (st_ps st)) as [l|] eqn:Ef; [|discriminate].
  destruct (variable_names_gen deep st) as [excl|e] eqn:Ev; [|discriminate]. cbn [bind] in H.
  destruct (name_of (st_names st) (l_lhs l)) as [nt|e]; [|discriminate]. cbn [bind] in H.
  inversion H; subst st'. clear H.
  eapply cs_new with (excl := excl); cbn [st_ps st_names].
  - apply rw_rep. exact Ef.
  - exact Ev.
  - apply generate_name_fresh.
  - reflexivity.
Qed.

Lemma grp_step_some is_lr st st' : grp_step deep st = Ok (Some st') -> cstep is_lr st st'.
Proof.
  unfold grp_step. intros H.
  destruct (find_prods is_grp (st_ps st)) as [l|] eqn:Ef; [|discriminate].
  destruct (fbody (l_f l)) as [|alt [|alt2 gb]] eqn:Eb.
  - destruct (variable_names_gen deep st) as [excl|e] eqn:Ev; [|discriminate]. cbn [bind] in H.
    destruct (name_of (st_names st) (l_lhs l)) as [nt|e]; [|discriminate]. cbn [bind] in H.
    inversion H; subst st'. clear H. rewrite <- Eb.
    eapply cs_new with (excl := excl); cbn [st_ps st_names].
    + apply rw_grp2; [exact Ef|]. intros alt0 E. rewrite Eb in E. discriminate.
    + exact Ev.
    + apply generate_name_fresh.
    + reflexivity.
  - inversion H; subst st'. apply cs_same; cbn [st_ps st_names]; [|reflexivity].
    apply rw_grp1; assumption.
  - destruct (variable_names_gen deep st) as [excl|e] eqn:Ev; [|discriminate]. cbn [bind] in H.
    destruct (name_of (st_names st) (l_lhs l)) as [nt|e]; [|discriminate]. cbn [bind] in H.
    inversion H; subst st'. clear H. rewrite <- Eb.
    eapply cs_new with (excl := excl); cbn [st_ps st_names].
    + apply rw_grp2; [exact Ef|]. intros alt0 E. rewrite Eb in E. discriminate.
    + exact Ev.
    + apply generate_name_fresh.
    + reflexivity.
Qed.

(** ** The loops compose rewrites *)
Lemma extract_loop_reach is_lr fuel : forall st st', extract_loop deep fuel st = Ok st' ->
  creach is_lr st st' /\ gnoopt (st_ps st') = true.
Proof.
  induction fuel as [|k IH]; intros st st' H; cbn [extract_loop] in H;
    destruct (extract_step deep st) as [[st1|]|e] eqn:Es; cbn [bind] in H; try discriminate.
  - inversion H; subst st'. split; [constructor|exact (extract_step_none _ Es)].
  - destruct (IH _ _ H) as [Hr Hn]. split; [|exact Hn].
    econstructor; [exact (extract_step_some is_lr _ _ Es)|exact Hr].
  - inversion H; subst st'. split; [constructor|exact (extract_step_none _ Es)].
Qed.

Lemma sep_loop_reach is_lr names fuel : forall ps m ps' m', sep_loop fuel ps m = Ok (ps', m') ->
  creach is_lr (mkSt ps names) (mkSt ps' names).
Proof.
  induction fuel as [|k IH]; intros ps m ps' m' H; cbn [sep_loop] in H;
    destruct (sep_step ps) as [ps1|] eqn:Es; try discriminate.
  - inversion H; subst. constructor.
  - econstructor; [|exact (IH _ _ _ _ H)]. apply cs_same; [|reflexivity]. apply rw_sep. exact Es.
  - inversion H; subst. constructor.
Qed.

Lemma rep_loop_reach is_lr fuel : forall st m st' m', rep_loop deep fuel is_lr st m = Ok (st', m') ->
  creach is_lr st st'.
Proof.
  induction fuel as [|k IH]; intros st m st' m' H; cbn [rep_loop] in H;
    destruct (rep_step deep is_lr st) as [[st1|]|e] eqn:Es; cbn [bind] in H; try discriminate.
  - inversion H; subst. constructor.
  - econstructor; [exact (rep_step_some _ _ _ Es)|exact (IH _ _ _ _ H)].
  - inversion H; subst. constructor.
Qed.

Lemma grp_loop_reach is_lr fuel : forall st m st' m', grp_loop deep fuel st m = Ok (st', m') ->
  creach is_lr st st'.
Proof.
  induction fuel as [|k IH]; intros st m st' m' H; cbn [grp_loop] in H;
    destruct (grp_step deep st) as [[st1|]|e] eqn:Es; cbn [bind] in H; try discriminate.
  - inversion H; subst. constructor.
  - econstructor; [exact (grp_step_some is_lr _ _ Es)|exact (IH _ _ _ _ H)].
  - inversion H; subst. constructor.
Qed.

Lemma opt_loop_id fuel st m : gnoopt (st_ps st) = true -> opt_loop deep fuel st m = Ok (st, m).
Proof.
  intros Hn. destruct fuel; cbn [opt_loop]; rewrite (opt_step_unreachable st Hn); reflexivity.
Qed.

Lemma cstep_noopt is_lr st st' : cstep is_lr st st' -> gnoopt (st_ps st) = true -> gnoopt (st_ps st') = true.
Proof. intros [f name excl Hrw _ _ _|Hrw _]; exact (rewrite_noopt _ _ _ _ _ Hrw). Qed.

Lemma creach_noopt is_lr st st' : creach is_lr st st' -> gnoopt (st_ps st) = true -> gnoopt (st_ps st') = true.
Proof. induction 1 as [|st st1 st2 Hs _ IH]; intros H; [exact H|]. apply IH. exact (cstep_noopt _ _ _ Hs H). Qed.

Lemma trans_fn_reach is_lr fuel st st' m : gnoopt (st_ps st) = true ->
  trans_fn deep fuel is_lr st = Ok (st', m) -> creach is_lr st st'.
Proof.
  intros Hn H. unfold trans_fn in H.
  destruct (sep_loop fuel (st_ps st) false) as [[ps1 m1]|e] eqn:E1; [|discriminate]. cbn [bind] in H.
  destruct (rep_loop deep fuel is_lr (mkSt ps1 (st_names st)) m1) as [[st2 m2]|e] eqn:E2; [|discriminate].
  cbn [bind] in H.
  pose proof (sep_loop_reach is_lr (st_names st) _ _ _ _ _ E1) as R1.
  assert (Est : mkSt (st_ps st) (st_names st) = st) by (destruct st; reflexivity).
  rewrite Est in R1.
  pose proof (rep_loop_reach _ _ _ _ _ _ E2) as R2.
  pose proof (creach_trans _ _ _ _ R1 R2) as R12.
  pose proof (creach_noopt _ _ _ R12 Hn) as Hn2.
  rewrite (opt_loop_id fuel st2 m2 Hn2) in H. cbn [bind] in H.
  exact (creach_trans _ _ _ _ R12 (grp_loop_reach is_lr _ _ _ _ _ H)).
Qed.

Lemma main_loop_reach is_lr fuel n : forall st st', gnoopt (st_ps st) = true ->
  main_loop deep fuel n is_lr st = Ok st' -> creach is_lr st st'.
Proof.
  induction n as [|k IH]; intros st st' Hn H; cbn [main_loop] in H; [discriminate|].
  destruct (trans_fn deep fuel is_lr st) as [[st1 m]|e] eqn:Et; [|discriminate]. cbn [bind] in H.
  pose proof (trans_fn_reach _ _ _ _ _ Hn Et) as R. destruct m.
  - exact (creach_trans _ _ _ _ R (IH _ _ (creach_noopt _ _ _ R Hn) H)).
  - inversion H; subst. exact R.
Qed.

(** ** Invariant and language equivalence along [creach] *)
Definition cinv (st : cstate) : Prop := gbound (next_nt st) (st_ps st) = true.
Definition cequiv (st st' : cstate) : Prop :=
  (next_nt st <= next_nt st')%N /\
  forall fs w, sbound (next_nt st) fs = true -> (mseq (st_ps st) fs w <-> mseq (st_ps st') fs w).

Lemma next_nt_snoc st st' name : st_names st' = st_names st ++ [name] -> next_nt st' = N.succ (next_nt st).
Proof. intros E. unfold next_nt. rewrite E, app_length. cbn [length]. lia. Qed.

Lemma cstep_ok is_lr st st' : cinv st -> cstep is_lr st st' -> cinv st' /\ cequiv st st'.
Proof.
  unfold cinv, cequiv. intros Hinv Hs.
  assert (Hfree : gfree (next_nt st) (st_ps st) = true) by (apply (gbound_gfree (next_nt st)); [lia|exact Hinv]).
  destruct Hs as [f name excl Hrw _ _ Hnames|Hrw Hnames].
  - rewrite (next_nt_snoc _ _ _ Hnames).
    destruct (rewrite_bound _ _ _ _ _ Hrw Hinv) as [Hb _].
    destruct (canon_step_preserves _ _ _ _ _ Hrw Hfree) as [Heq _].
    split; [exact Hb|]. split; [lia|]. intros fs w Hfs. apply Heq.
    apply (proj1 (proj2 (bound_free (next_nt st) (next_nt st) ltac:(lia)))). exact Hfs.
  - assert (En : next_nt st' = next_nt st) by (unfold next_nt; rewrite Hnames; reflexivity).
    rewrite En. destruct (rewrite_bound _ _ _ _ _ Hrw Hinv) as [_ Hb].
    destruct (canon_step_preserves _ _ _ _ _ Hrw Hfree) as [Heq _].
    split; [exact (Hb eq_refl)|]. split; [lia|]. intros fs w Hfs. apply Heq.
    apply (proj1 (proj2 (bound_free (next_nt st) (next_nt st) ltac:(lia)))). exact Hfs.
Qed.

Lemma creach_ok is_lr st st' : creach is_lr st st' -> cinv st -> cinv st' /\ cequiv st st'.
Proof.
  induction 1 as [st|st st1 st2 Hs _ IH]; intros Hinv.
  - split; [exact Hinv|]. split; [lia|]. intros; reflexivity.
  - destruct (cstep_ok _ _ _ Hinv Hs) as [Hinv1 [Hle1 Heq1]].
    destruct (IH Hinv1) as [Hinv2 [Hle2 Heq2]]. split; [exact Hinv2|]. split; [lia|].
    intros fs w Hfs. rewrite (Heq1 fs w Hfs). apply Heq2.
    apply (proj1 (proj2 (bound_mono _ _ Hle1))). exact Hfs.
Qed.

(** ** [finalize] *)
Lemma finalize_to_prods ps : forall l, finalize ps = Ok l -> to_prods ps = Some l.
Proof.
  induction ps as [|[a b] ps IH]; intros l H; cbn [finalize] in H; [inversion H; reflexivity|].
  destruct b as [|alt [|alt2 b]]; try discriminate.
  destruct (syms_of alt) as [rhs|] eqn:Es; [|discriminate].
  destruct (finalize ps) as [l'|e]; [|discriminate]. cbn [bind] in H. inversion H; subst l.
  cbn [to_prods prods_of_alts]. rewrite Es, (IH l' eq_refl). reflexivity.
Qed.

(** After [extract_options] no optional is left anywhere (so [eliminate_options] is dead code). *)
Theorem no_optional_after_extract fuel st st' :
  extract_loop deep fuel st = Ok st' -> gnoopt (st_ps st') = true.
Proof. intros H. exact (proj2 (extract_loop_reach false fuel st st' H)). Qed.

(** [is_bnf ps]: every production has exactly one alternative, made of terminals and
    non-terminals only.  [finalize] succeeds exactly on such lists, and its result lists the same
    productions. *)
Definition is_bnf (ps : list eprod) : Prop :=
  forall a b, In (a, b) ps -> exists alt r, b = [alt] /\ syms_of alt = Some r.

Lemma finalize_is_bnf ps : forall l, finalize ps = Ok l ->
  is_bnf ps /\ l = map (fun p => mkProd (fst p) (match snd p with
                                               | [alt] => match syms_of alt with Some r => r | None => [] end
                                               | _ => [] end)) ps.
Proof.
  induction ps as [|[a b] ps IH]; intros l H; cbn [finalize] in H.
  - inversion H. split; [intros a b []|reflexivity].
  - destruct b as [|alt [|alt2 b]]; try discriminate.
    destruct (syms_of alt) as [rhs|] eqn:Es; [|discriminate].
    destruct (finalize ps) as [l'|e]; [|discriminate]. cbn [bind] in H. inversion H; subst l.
    destruct (IH l' eq_refl) as [Hb ->]. split.
    + intros a' b' [E|Hin]; [inversion E; subst; exists alt, rhs; split; [reflexivity|exact Es]|].
      exact (Hb a' b' Hin).
    + cbn [map fst snd]. rewrite Es. reflexivity.
Qed.

(** ** The main theorem *)

(** Input well-formedness: every non-terminal of the grammar has an entry in the name table. *)
Definition names_cover (G : egrammar) (names : list string) : Prop :=
  gbound (N.of_nat (length names)) (eprods G) = true /\
  (estart G < N.of_nat (length names))%N.

Lemma canon_gen_reach fuel is_lr G names B names' :
  canon_gen deep fuel is_lr G names = Ok (B, names') ->
  exists st2, creach is_lr (mkSt (eprods G) names) st2 /\ gnoopt (st_ps st2) = true /\
    finalize (st_ps st2) = Ok (prods B) /\ start B = estart G /\ names' = st_names st2.
Proof.
  unfold canon_gen. intros H.
  destruct (extract_loop deep fuel (mkSt (eprods G) names)) as [st1|e] eqn:E1; [|discriminate]. cbn [bind] in H.
  destruct (main_loop deep fuel (S fuel) is_lr st1) as [st2|e] eqn:E2; [|discriminate]. cbn [bind] in H.
  destruct (finalize (st_ps st2)) as [l|e] eqn:E3; [|discriminate]. cbn [bind] in H.
  inversion H; subst B names'. clear H.
  destruct (extract_loop_reach is_lr _ _ _ E1) as [R1 Hn1].
  pose proof (main_loop_reach _ _ _ _ _ Hn1 E2) as R2.
  exists st2. repeat split.
  - exact (creach_trans _ _ _ _ R1 R2).
  - exact (creach_noopt _ _ _ R2 Hn1).
  - exact E3.
Qed.

(** The result is a plain [cfg] (BNF by construction of the type) with the start symbol of [G]
    in which every sentential form over the non-terminals of [G] derives exactly the strings it
    matches in [G]. *)
Theorem canon_gen_preserves_forms fuel is_lr G names B names' :
  canon_gen deep fuel is_lr G names = Ok (B, names') -> names_cover G names ->
  start B = estart G /\
  forall alpha w, sbound (N.of_nat (length names)) (map fac_of alpha) = true ->
    (derives B alpha w <-> ematch G (map fac_of alpha) w).
Proof.
  intros H Hc. destruct (canon_gen_reach _ _ _ _ _ _ H) as (st2 & R & _ & Hfin & Hs & _).
  split; [exact Hs|]. intros alpha w Hb.
  destruct (creach_ok _ _ _ R (proj1 Hc)) as [_ [_ Heq]]. cbn [st_ps next_nt st_names] in Heq.
  apply finalize_to_prods in Hfin.
  destruct B as [s l]. cbn [prods start] in *.
  rewrite (to_cfg_derives s _ l Hfin). unfold ematch. symmetry. apply Heq. exact Hb.
Qed.

(** Non-terminals of an EBNF grammar (all occurrences, at any depth, plus left-hand sides). *)
Definition ents (G : egrammar) : list N :=
  estart G :: flat_map (fun p => fst p :: flat_map (flat_map fnts) (snd p)) (eprods G).

Lemma gbound_lhs n ps a b : gbound n ps = true -> In (a, b) ps -> (a < n)%N /\ abound n b = true.
Proof.
  intros H Hin. unfold gbound in H. rewrite forallb_forall in H. specialize (H _ Hin).
  unfold pbound in H. cbn [fst snd] in H. apply andb_prop in H as [H1 H2].
  split; [apply N.ltb_lt; exact H1|exact H2].
Qed.

Lemma bound_fnts n :
  (forall f, fbound n f = true -> forall a, In a (fnts f) -> (a < n)%N) /\
  (forall s, sbound n s = true -> forall a, In a (flat_map fnts s) -> (a < n)%N) /\
  (forall b, abound n b = true -> forall a, In a (flat_map (flat_map fnts) b) -> (a < n)%N).
Proof.
  apply factor_mutind; cbn [fnts fbound sbound abound forallb flat_map].
  - intros t _ a [].
  - intros a H a' [<-|[]]. apply N.ltb_lt. exact H.
  - intros b IH H a Ha. exact (IH H a Ha).
  - intros b IH H a Ha. exact (IH H a Ha).
  - intros b IH H a Ha. exact (IH H a Ha).
  - intros _ a [].
  - intros f fs IHf IHs H a Ha. apply andb_prop in H as [H1 H2].
    apply in_app_iff in Ha as [Ha|Ha]; [exact (IHf H1 a Ha)|exact (IHs H2 a Ha)].
  - intros _ a [].
  - intros s b IHs IHb H a Ha. apply andb_prop in H as [H1 H2].
    apply in_app_iff in Ha as [Ha|Ha]; [exact (IHs H1 a Ha)|exact (IHb H2 a Ha)].
Qed.

Theorem canon_gen_preserves_lang fuel is_lr G names B names' :
  canon_gen deep fuel is_lr G names = Ok (B, names') -> names_cover G names ->
  start B = estart G /\
  forall a, In a (ents G) -> forall w, derives B [NT a] w <-> ematch G [FN a] w.
Proof.
  intros H Hc. destruct (canon_gen_preserves_forms _ _ _ _ _ _ H Hc) as [Hs Heq].
  split; [exact Hs|]. destruct Hc as [Hc Hst]. intros a Ha w. apply (Heq [NT a] w).
  cbn [map fac_of sbound forallb fbound]. rewrite andb_true_r. apply N.ltb_lt.
  destruct Ha as [<-|Ha]; [exact Hst|].
  apply in_flat_map in Ha as ([x b] & Hin & Ha). cbn [fst snd] in Ha.
  destruct (gbound_lhs _ _ _ _ Hc Hin) as [Hx Hb].
  destruct Ha as [<-|Ha]; [exact Hx|]. exact (proj2 (proj2 (bound_fnts _)) b Hb a Ha).
Qed.

Corollary canon_gen_preserves_language fuel is_lr G names B names' :
  canon_gen deep fuel is_lr G names = Ok (B, names') -> names_cover G names ->
  forall w, lang B w <-> elang G w.
Proof.
  intros H Hc w. destruct (canon_gen_preserves_lang _ _ _ _ _ _ H Hc) as [Hs Heq].
  unfold lang, elang. rewrite Hs. apply Heq. left. reflexivity.
Qed.

(** ** Helper names are new *)

(** [covered st]: every entry of the name table is visible to [variable_names], i.e. it names a
    left-hand side or a non-terminal occurring at the top level of some alternative.  A table
    listing only *defined* non-terminals is covered. *)
Definition covered (st : cstate) : Prop :=
  forall i, i < length (st_names st) -> In (N.of_nat i) (var_ids_gen deep (st_ps st)).

Lemma names_of_in names l : forall ss, names_of names l = Ok ss ->
  forall a s, In a l -> name_of names a = Ok s -> In s ss.
Proof.
  induction l as [|x l IH]; intros ss H a s Ha Hs; [destruct Ha|]. cbn [names_of] in H.
  destruct (name_of names x) as [sx|e] eqn:Ex; [|discriminate]. cbn [bind] in H.
  destruct (names_of names l) as [ss'|e]; [|discriminate]. cbn [bind] in H. inversion H; subst ss.
  destruct Ha as [->|Ha].
  - left. congruence.
  - right. exact (IH ss' eq_refl a s Ha Hs).
Qed.

Lemma covered_excl st excl : covered st -> variable_names_gen deep st = Ok excl ->
  forall s, In s (st_names st) -> In s excl.
Proof.
  intros Hc Hv s Hs. apply In_nth_error in Hs as (i & Hi).
  assert (Hlt : i < length (st_names st)) by (apply nth_error_Some; congruence).
  apply (names_of_in _ _ _ Hv (N.of_nat i) s (Hc i Hlt)).
  unfold name_of. rewrite Nat2N.id, Hi. reflexivity.
Qed.

Lemma var_ids_old_app p q : var_ids_old (p ++ q) = var_ids_old p ++ var_ids_old q.
Proof. apply flat_map_app. Qed.

Lemma top_nts_app p q : top_nts (p ++ q) = top_nts p ++ top_nts q.
Proof. apply flat_map_app. Qed.

Lemma in_var_ids_unloc i l mid news :
  In i (var_ids_old (unloc l mid news)) <->
  In i (var_ids_old (l_pre l)) \/ i = l_lhs l \/ In i (flat_map top_nts (l_b1 l)) \/
  In i (top_nts (l_s1 l)) \/ In i (top_nts mid) \/ In i (top_nts (l_s2 l)) \/
  In i (flat_map top_nts (l_b2 l)) \/ In i (var_ids_old news) \/ In i (var_ids_old (l_post l)).
Proof.
  unfold unloc. rewrite var_ids_old_app, in_app_iff.
  change (var_ids_old ((l_lhs l, l_b1 l ++ (l_s1 l ++ mid ++ l_s2 l) :: l_b2 l) :: news ++ l_post l))
    with (l_lhs l :: flat_map top_nts (l_b1 l ++ (l_s1 l ++ mid ++ l_s2 l) :: l_b2 l) ++
          var_ids_old (news ++ l_post l)).
  rewrite var_ids_old_app. cbn [In]. rewrite !in_app_iff, flat_map_app, in_app_iff.
  cbn [flat_map]. rewrite in_app_iff, !top_nts_app, !in_app_iff.
  split; intros H; repeat (destruct H as [H|H]); auto 12.
Qed.

Lemma ex_top X :
  (forall a a' o, ex_seq X a = Some (a', o) -> incl (top_nts a) (top_nts a')) /\
  (forall b b' o, ex_alts X b = Some (b', o) -> incl (flat_map top_nts b) (flat_map top_nts b')).
Proof.
  assert (Hseq : forall a a' o, ex_seq X a = Some (a', o) -> incl (top_nts a) (top_nts a')).
  { induction a as [|f r IH]; intros a' o H; cbn [ex_seq] in H; [discriminate|].
    destruct (ex_fac X f) as [[f' o']|] eqn:Ef.
    - inversion H; subst a' o'. intros i Hi. unfold top_nts in *. cbn [flat_map] in *.
      apply in_app_iff in Hi as [Hi|Hi]; [|apply in_app_iff; right; exact Hi].
      destruct f; try discriminate; destruct Hi.
    - destruct (ex_seq X r) as [[r' o']|] eqn:Er; [|discriminate]. inversion H; subst a' o'.
      intros i Hi. unfold top_nts in *. cbn [flat_map] in *.
      apply in_app_iff in Hi as [Hi|Hi]; apply in_app_iff; [left; exact Hi|right].
      exact (IH r' o eq_refl i Hi). }
  split; [exact Hseq|].
  induction b as [|a r IH]; intros b' o H; cbn [ex_alts] in H; [discriminate|].
  destruct (ex_seq X a) as [[a' o']|] eqn:Ea.
  - inversion H; subst b' o'. intros i Hi. cbn [flat_map] in *.
    apply in_app_iff in Hi as [Hi|Hi]; apply in_app_iff; [left|right; exact Hi].
    exact (Hseq a a' o Ea i Hi).
  - destruct (ex_alts X r) as [[r' o']|] eqn:Er; [|discriminate]. inversion H; subst b' o'.
    intros i Hi. cbn [flat_map] in *.
    apply in_app_iff in Hi as [Hi|Hi]; apply in_app_iff; [left; exact Hi|right].
    exact (IH r' o eq_refl i Hi).
Qed.

Lemma var_ids_old_sep a b : forall i, In i (var_ids_old (map (fun alt => (a, [alt])) b)) <->
  (b <> [] /\ i = a) \/ In i (flat_map top_nts b).
Proof.
  induction b as [|alt b IH]; intros i; [cbn; split; [intros []|intros [[H _]|[]]; congruence]|].
  cbn [map]. change (var_ids_old ((a, [alt]) :: map (fun alt0 => (a, [alt0])) b))
    with (a :: (top_nts alt ++ []) ++ var_ids_old (map (fun alt0 => (a, [alt0])) b)).
  rewrite app_nil_r. cbn [In flat_map]. rewrite !in_app_iff, IH. split.
  - intros [H|[H|[[_ H]|H]]]; try (left; split; [discriminate|subst; reflexivity]); auto.
  - intros [[_ H]|[H|H]]; auto.
Qed.

Lemma rewrite_var_ids is_lr X ps ps' F : rewrite is_lr X ps ps' F ->
  incl (var_ids_old ps) (var_ids_old ps') /\ (forall f, F = Some f -> In X (var_ids_old ps')).
Proof.
  intros Hrw.
  destruct Hrw as [ps pre a b' o post Hex|ps ps' Hsep|ps l Hfind|ps l alt Hfind Hfb|ps l Hfind Hfb].
  - apply ex_prods_spec in Hex as (b & -> & Hex). split.
    + intros i Hi. rewrite var_ids_old_app, in_app_iff in *. destruct Hi as [Hi|Hi]; [left; exact Hi|right].
      change (var_ids_old ((a, b) :: post)) with (a :: flat_map top_nts b ++ var_ids_old post) in Hi.
      change (In i (a :: flat_map top_nts b' ++ var_ids_old ((X, [[FGroup o]]) :: (X, [[]]) :: post))).
      destruct Hi as [Hi|Hi]; [left; exact Hi|right]. apply in_app_iff in Hi. apply in_app_iff.
      destruct Hi as [Hi|Hi]; [left; exact (proj2 (ex_top X) b b' o Hex i Hi)|right].
      right. right. exact Hi.
    + intros f _. rewrite var_ids_old_app, in_app_iff. right. right. apply in_app_iff. right. left. reflexivity.
  - apply sep_step_spec in Hsep as (pre & a & b & post & -> & Hlt & -> & _).
    split; [|discriminate]. intros i Hi. rewrite !var_ids_old_app, !in_app_iff in *.
    destruct Hi as [Hi|Hi]; [left; exact Hi|right].
    change (var_ids_old ((a, b) :: post)) with (a :: flat_map top_nts b ++ var_ids_old post) in Hi.
    destruct Hi as [Hi|Hi].
    + left. apply var_ids_old_sep. left. split; [|auto]. destruct b; [cbn in Hlt; lia|discriminate].
    + apply in_app_iff in Hi as [Hi|Hi]; [left; apply var_ids_old_sep; right; exact Hi|right; exact Hi].
  - apply find_prods_spec in Hfind as (E & Hr). apply is_rep_inv in Hr. split.
    + intros i Hi. rewrite E in Hi. apply in_var_ids_unloc in Hi. apply in_var_ids_unloc.
      destruct Hi as [H|[H|[H|[H|[H|[H|[H|[H|H]]]]]]]]; auto 12.
      * rewrite Hr in H. destruct H.
      * destruct H.
    + intros f _. apply in_var_ids_unloc. right. right. right. right. left. left. reflexivity.
  - apply find_prods_spec in Hfind as (E & Hg). apply is_grp_inv in Hg. split; [|discriminate].
    intros i Hi. rewrite E in Hi. apply in_var_ids_unloc in Hi. apply in_var_ids_unloc.
    destruct Hi as [H|[H|[H|[H|[H|[H|[H|[H|H]]]]]]]]; auto 12.
    rewrite Hg in H. destruct H.
  - apply find_prods_spec in Hfind as (E & Hg). apply is_grp_inv in Hg. split.
    + intros i Hi. rewrite E in Hi. apply in_var_ids_unloc in Hi. apply in_var_ids_unloc.
      destruct Hi as [H|[H|[H|[H|[H|[H|[H|[H|H]]]]]]]]; auto 12.
      * rewrite Hg in H. destruct H.
      * destruct H.
    + intros f _. apply in_var_ids_unloc. right. right. right. right. left. left. reflexivity.
Qed.

(** The same for the repaired [variable_names] (all nesting depths). *)
Lemma var_ids_app p q : var_ids (p ++ q) = var_ids p ++ var_ids q.
Proof. apply flat_map_app. Qed.
Lemma seq_nts_app p q : seq_nts (p ++ q) = seq_nts p ++ seq_nts q.
Proof. apply flat_map_app. Qed.
Lemma alts_nts_app p q : alts_nts (p ++ q) = alts_nts p ++ alts_nts q.
Proof. apply flat_map_app. Qed.
Lemma alts_nts_cons a b : alts_nts (a :: b) = seq_nts a ++ alts_nts b.
Proof. reflexivity. Qed.
Lemma seq_nts_cons f a : seq_nts (f :: a) = fnts f ++ seq_nts a.
Proof. reflexivity. Qed.
Lemma var_ids_cons a b ps : var_ids ((a, b) :: ps) = a :: alts_nts b ++ var_ids ps.
Proof. reflexivity. Qed.

Lemma in_var_ids_unloc_deep i l mid news :
  In i (var_ids (unloc l mid news)) <->
  In i (var_ids (l_pre l)) \/ i = l_lhs l \/ In i (alts_nts (l_b1 l)) \/
  In i (seq_nts (l_s1 l)) \/ In i (seq_nts mid) \/ In i (seq_nts (l_s2 l)) \/
  In i (alts_nts (l_b2 l)) \/ In i (var_ids news) \/ In i (var_ids (l_post l)).
Proof.
  unfold unloc. rewrite var_ids_app, in_app_iff, var_ids_cons, var_ids_app. cbn [In].
  rewrite !in_app_iff, alts_nts_app, in_app_iff, alts_nts_cons, in_app_iff, !seq_nts_app, !in_app_iff.
  split; intros H; repeat (destruct H as [H|H]); auto 12.
Qed.

Lemma ex_fnts X :
  (forall f f' o, ex_fac X f = Some (f', o) ->
     forall i, In i (fnts f) -> In i (fnts f') \/ In i (alts_nts o)) /\
  (forall a a' o, ex_seq X a = Some (a', o) ->
     forall i, In i (seq_nts a) -> In i (seq_nts a') \/ In i (alts_nts o)) /\
  (forall b b' o, ex_alts X b = Some (b', o) ->
     forall i, In i (alts_nts b) -> In i (alts_nts b') \/ In i (alts_nts o)).
Proof.
  apply factor_mutind.
  - intros t f' o H. discriminate.
  - intros a f' o H. discriminate.
  - intros b IH f' o H i Hi. rewrite ex_fac_group in H.
    destruct (ex_alts X b) as [[b' o']|] eqn:E; [|discriminate]. inversion H; subst f' o'.
    exact (IH b' o eq_refl i Hi).
  - intros b _ f' o H i Hi. rewrite ex_fac_opt in H. inversion H; subst f' o. right. exact Hi.
  - intros b IH f' o H i Hi. rewrite ex_fac_rep in H.
    destruct (ex_alts X b) as [[b' o']|] eqn:E; [|discriminate]. inversion H; subst f' o'.
    exact (IH b' o eq_refl i Hi).
  - intros a' o H. discriminate.
  - intros f fs IHf IHs a' o H i Hi. cbn [ex_seq] in H. rewrite seq_nts_cons, in_app_iff in Hi.
    destruct (ex_fac X f) as [[f' o']|] eqn:Ef.
    + inversion H; subst a' o'. rewrite seq_nts_cons, in_app_iff.
      destruct Hi as [Hi|Hi]; [|auto]. destruct (IHf f' o eq_refl i Hi); auto.
    + destruct (ex_seq X fs) as [[r' o']|] eqn:Es; [|discriminate]. inversion H; subst a' o'.
      rewrite seq_nts_cons, in_app_iff.
      destruct Hi as [Hi|Hi]; [auto|]. destruct (IHs r' o eq_refl i Hi); auto.
  - intros b' o H. discriminate.
  - intros a b IHa IHb b' o H i Hi. cbn [ex_alts] in H. rewrite alts_nts_cons, in_app_iff in Hi.
    destruct (ex_seq X a) as [[a' o']|] eqn:Ea.
    + inversion H; subst b' o'. rewrite alts_nts_cons, in_app_iff.
      destruct Hi as [Hi|Hi]; [|auto]. destruct (IHa a' o eq_refl i Hi); auto.
    + destruct (ex_alts X b) as [[r' o']|] eqn:Eb; [|discriminate]. inversion H; subst b' o'.
      rewrite alts_nts_cons, in_app_iff.
      destruct Hi as [Hi|Hi]; [auto|]. destruct (IHb r' o eq_refl i Hi); auto.
Qed.

Lemma var_ids_sep_deep a b : forall i, In i (var_ids (map (fun alt => (a, [alt])) b)) <->
  (b <> [] /\ i = a) \/ In i (alts_nts b).
Proof.
  induction b as [|alt b IH]; intros i; [cbn; split; [intros []|intros [[H _]|[]]; congruence]|].
  cbn [map]. rewrite var_ids_cons, alts_nts_cons, alts_nts_cons. cbn [alts_nts flat_map In].
  rewrite !app_nil_r, !in_app_iff, IH. split.
  - intros [H|[H|[[_ H]|H]]]; try (left; split; [discriminate|subst; reflexivity]); auto.
  - intros [[_ H]|[H|H]]; auto.
Qed.

Lemma rep_news_ids is_lr X rb i : In i (alts_nts rb) -> In i (var_ids (rep_news is_lr X rb)).
Proof.
  intros Hi. unfold rep_news. destruct rb as [|alt [|alt2 rb']]; [destruct Hi| |].
  - rewrite alts_nts_cons in Hi. cbn [alts_nts flat_map] in Hi. rewrite app_nil_r in Hi.
    rewrite var_ids_cons. right. apply in_app_iff. left.
    destruct is_lr; rewrite alts_nts_cons; cbn [alts_nts flat_map]; rewrite app_nil_r.
    + rewrite seq_nts_cons. apply in_app_iff. right. exact Hi.
    + rewrite seq_nts_app. apply in_app_iff. left. exact Hi.
  - rewrite var_ids_cons. right. apply in_app_iff. left.
    destruct is_lr; rewrite alts_nts_cons; cbn [alts_nts flat_map]; rewrite app_nil_r;
      rewrite !seq_nts_cons, !in_app_iff; [right; left|left]; exact Hi.
Qed.

Lemma rewrite_var_ids_deep is_lr X ps ps' F : rewrite is_lr X ps ps' F ->
  incl (var_ids ps) (var_ids ps') /\ (forall f, F = Some f -> In X (var_ids ps')).
Proof.
  intros Hrw.
  destruct Hrw as [ps pre a b' o post Hex|ps ps' Hsep|ps l Hfind|ps l alt Hfind Hfb|ps l Hfind Hfb].
  - apply ex_prods_spec in Hex as (b & -> & Hex). split.
    + intros i Hi. rewrite var_ids_app, in_app_iff in *. destruct Hi as [Hi|Hi]; [left; exact Hi|right].
      rewrite var_ids_cons in Hi. rewrite !var_ids_cons.
      cbn [In] in *. rewrite !in_app_iff in *. cbn [In]. rewrite !in_app_iff. cbn [In]. rewrite !in_app_iff.
      destruct Hi as [Hi|[Hi|Hi]]; [auto| |auto 10].
      destruct (proj2 (proj2 (ex_fnts X)) b b' o Hex i Hi) as [H|H]; [auto|].
      right. right. right. left. rewrite alts_nts_cons, seq_nts_cons. cbn [alts_nts flat_map seq_nts].
      rewrite !app_nil_r. exact H.
    + intros f _. rewrite var_ids_app, in_app_iff. right. rewrite !var_ids_cons. right.
      apply in_app_iff. right. left. reflexivity.
  - apply sep_step_spec in Hsep as (pre & a & b & post & -> & Hlt & -> & _).
    split; [|discriminate]. intros i Hi. rewrite !var_ids_app, !in_app_iff in *.
    destruct Hi as [Hi|Hi]; [left; exact Hi|right]. rewrite var_ids_cons in Hi.
    destruct Hi as [Hi|Hi].
    + left. apply var_ids_sep_deep. left. split; [|auto]. destruct b; [cbn in Hlt; lia|discriminate].
    + apply in_app_iff in Hi as [Hi|Hi]; [left; apply var_ids_sep_deep; right; exact Hi|right; exact Hi].
  - apply find_prods_spec in Hfind as (E & Hr). apply is_rep_inv in Hr. split.
    + intros i Hi. rewrite E in Hi. apply in_var_ids_unloc_deep in Hi. apply in_var_ids_unloc_deep.
      destruct Hi as [H|[H|[H|[H|[H|[H|[H|[H|H]]]]]]]]; auto 12.
      * rewrite Hr in H. rewrite seq_nts_cons in H. cbn [seq_nts flat_map] in H. rewrite app_nil_r in H.
        right. right. right. right. right. right. right. left. apply rep_news_ids. exact H.
      * destruct H.
    + intros f _. apply in_var_ids_unloc_deep. right. right. right. right. left. left. reflexivity.
  - apply find_prods_spec in Hfind as (E & Hg). apply is_grp_inv in Hg. rewrite Hfb in Hg.
    split; [|discriminate].
    intros i Hi. rewrite E in Hi. apply in_var_ids_unloc_deep in Hi. apply in_var_ids_unloc_deep.
    destruct Hi as [H|[H|[H|[H|[H|[H|[H|[H|H]]]]]]]]; auto 12.
    rewrite Hg in H. rewrite seq_nts_cons in H. cbn [seq_nts flat_map fnts] in H.
    rewrite !app_nil_r in H. auto 12.
  - apply find_prods_spec in Hfind as (E & Hg). apply is_grp_inv in Hg. split.
    + intros i Hi. rewrite E in Hi. apply in_var_ids_unloc_deep in Hi. apply in_var_ids_unloc_deep.
      destruct Hi as [H|[H|[H|[H|[H|[H|[H|[H|H]]]]]]]]; auto 12.
      * rewrite Hg in H. rewrite seq_nts_cons in H. cbn [seq_nts flat_map] in H. rewrite app_nil_r in H.
        right. right. right. right. right. right. right. left. rewrite var_ids_cons. right.
        apply in_app_iff. left. exact H.
      * destruct H.
    + intros f _. apply in_var_ids_unloc_deep. right. right. right. right. left. left. reflexivity.
Qed.

Lemma rewrite_var_ids_gen is_lr X ps ps' F : rewrite is_lr X ps ps' F ->
  incl (var_ids_gen deep ps) (var_ids_gen deep ps') /\
  (forall f, F = Some f -> In X (var_ids_gen deep ps')).
Proof.
  unfold var_ids_gen. destruct deep; [apply rewrite_var_ids_deep|apply rewrite_var_ids].
Qed.

Lemma NoDup_snoc {A} (l : list A) x : NoDup l -> ~ In x l -> NoDup (l ++ [x]).
Proof.
  induction 1 as [|y l Hy Hl IH]; intros Hx; cbn [app].
  - constructor; [intros []|constructor].
  - constructor.
    + rewrite in_app_iff. intros [H|[H|[]]]; [exact (Hy H)|]. apply Hx. left. symmetry. exact H.
    + apply IH. intros H. apply Hx. right. exact H.
Qed.

Lemma cstep_names is_lr st st' : cstep is_lr st st' -> covered st -> NoDup (st_names st) ->
  covered st' /\ NoDup (st_names st') /\ exists ext, st_names st' = st_names st ++ ext.
Proof.
  intros Hs Hc Hnd. destruct Hs as [f name excl Hrw Hv Hname Hnames|Hrw Hnames].
  - destruct (rewrite_var_ids_gen _ _ _ _ _ Hrw) as [Hincl HX]. repeat split.
    + intros i Hi. rewrite Hnames, app_length in Hi. cbn [length] in Hi.
      destruct (Nat.eq_dec i (length (st_names st))) as [->|Hne].
      * exact (HX f eq_refl).
      * apply Hincl. apply Hc. lia.
    + rewrite Hnames. apply NoDup_snoc; [exact Hnd|]. intros Hin. apply Hname.
      exact (covered_excl st excl Hc Hv name Hin).
    + exists [name]. exact Hnames.
  - destruct (rewrite_var_ids_gen _ _ _ _ _ Hrw) as [Hincl _]. repeat split.
    + intros i Hi. rewrite Hnames in Hi. apply Hincl. apply Hc. exact Hi.
    + rewrite Hnames. exact Hnd.
    + exists []. rewrite app_nil_r. exact Hnames.
Qed.

Lemma creach_names is_lr st st' : creach is_lr st st' -> covered st -> NoDup (st_names st) ->
  covered st' /\ NoDup (st_names st') /\ exists ext, st_names st' = st_names st ++ ext.
Proof.
  induction 1 as [st|st st1 st2 Hs _ IH]; intros Hc Hnd.
  - repeat split; [exact Hc|exact Hnd|exists []; rewrite app_nil_r; reflexivity].
  - destruct (cstep_names _ _ _ Hs Hc Hnd) as (Hc1 & Hnd1 & ext1 & E1).
    destruct (IH Hc1 Hnd1) as (Hc2 & Hnd2 & ext2 & E2). repeat split; [exact Hc2|exact Hnd2|].
    exists (ext1 ++ ext2). rewrite E2, E1, app_assoc. reflexivity.
Qed.

(** If every name of the table is visible to [variable_names] (in particular: if the table lists
    exactly the defined non-terminals) and the names are pairwise different, then the helper
    names are pairwise different and different from all names of the table. *)
Theorem canon_gen_fresh fuel is_lr G names B names' :
  canon_gen deep fuel is_lr G names = Ok (B, names') ->
  covered (mkSt (eprods G) names) -> NoDup names ->
  NoDup names' /\ exists helpers, names' = names ++ helpers.
Proof.
  intros H Hc Hnd. destruct (canon_gen_reach _ _ _ _ _ _ H) as (st2 & R & _ & _ & _ & ->).
  destruct (creach_names _ _ _ R Hc Hnd) as (_ & Hnd2 & Hext). split; [exact Hnd2|exact Hext].
Qed.

(** ** Termination: the measure strictly decreases with every rewrite *)
Definition asum (b : alts) : nat := fold_right (fun a m => cweight_seq a + m) 0 b.

Lemma cweight_alts_eq b : cweight_alts b = pred (length b) + asum b.
Proof. reflexivity. Qed.
Lemma cweight_group b : cweight (FGroup b) = 1 + cweight_alts b.
Proof. reflexivity. Qed.
Lemma cweight_opt b : cweight (FOpt b) = 2 + cweight_alts b.
Proof. reflexivity. Qed.
Lemma cweight_rep b : cweight (FRep b) = 2 + cweight_alts b.
Proof. reflexivity. Qed.

Lemma cweight_seq_app p q : cweight_seq (p ++ q) = cweight_seq p + cweight_seq q.
Proof. induction p as [|f p IH]; cbn [app cweight_seq fold_right]; [reflexivity|]. fold (cweight_seq (p ++ q)). fold (cweight_seq p). lia. Qed.
Lemma cweight_seq_cons f p : cweight_seq (f :: p) = cweight f + cweight_seq p.
Proof. reflexivity. Qed.
Lemma asum_app p q : asum (p ++ q) = asum p + asum q.
Proof. induction p as [|a p IH]; cbn [app asum fold_right]; [reflexivity|]. fold (asum (p ++ q)). fold (asum p). lia. Qed.
Lemma asum_cons a p : asum (a :: p) = cweight_seq a + asum p.
Proof. reflexivity. Qed.
Lemma cmeasure_app p q : cmeasure (p ++ q) = cmeasure p + cmeasure q.
Proof. induction p as [|a p IH]; cbn [app cmeasure fold_right]; [reflexivity|]. fold (cmeasure (p ++ q)). fold (cmeasure p). lia. Qed.
Lemma cmeasure_cons a b ps : cmeasure ((a, b) :: ps) = cweight_alts b + cmeasure ps.
Proof. reflexivity. Qed.

Lemma cmeasure_unloc l mid news :
  cmeasure (unloc l mid news) = cmeasure (unloc l [] []) + cweight_seq mid + cmeasure news.
Proof.
  unfold unloc. rewrite !cmeasure_app, !cmeasure_cons, !cmeasure_app, !cweight_alts_eq.
  rewrite !asum_app, !asum_cons, !cweight_seq_app, !app_length. cbn [length cmeasure fold_right cweight_seq app].
  lia.
Qed.

Lemma ex_measure X :
  (forall f f' o, ex_fac X f = Some (f', o) -> cweight f = cweight f' + 2 + cweight_alts o) /\
  (forall a a' o, ex_seq X a = Some (a', o) -> cweight_seq a = cweight_seq a' + 2 + cweight_alts o) /\
  (forall b b' o, ex_alts X b = Some (b', o) ->
     asum b = asum b' + 2 + cweight_alts o /\ length b' = length b).
Proof.
  apply factor_mutind.
  - intros t f' o H. discriminate.
  - intros a f' o H. discriminate.
  - intros b IH f' o H. rewrite ex_fac_group in H.
    destruct (ex_alts X b) as [[b' o']|] eqn:E; [|discriminate]. inversion H; subst f' o'.
    destruct (IH b' o eq_refl) as [H1 H2]. rewrite !cweight_group, (cweight_alts_eq b), (cweight_alts_eq b'), H2. lia.
  - intros b _ f' o H. rewrite ex_fac_opt in H. inversion H; subst f' o.
    rewrite cweight_opt. cbn [cweight]. lia.
  - intros b IH f' o H. rewrite ex_fac_rep in H.
    destruct (ex_alts X b) as [[b' o']|] eqn:E; [|discriminate]. inversion H; subst f' o'.
    destruct (IH b' o eq_refl) as [H1 H2]. rewrite !cweight_rep, (cweight_alts_eq b), (cweight_alts_eq b'), H2. lia.
  - intros a' o H. discriminate.
  - intros f fs IHf IHs a' o H. cbn [ex_seq] in H.
    destruct (ex_fac X f) as [[f' o']|] eqn:Ef.
    + inversion H; subst a' o'. rewrite !cweight_seq_cons, (IHf f' o eq_refl). lia.
    + destruct (ex_seq X fs) as [[r' o']|] eqn:Es; [|discriminate]. inversion H; subst a' o'.
      rewrite !cweight_seq_cons, (IHs r' o eq_refl). lia.
  - intros b' o H. discriminate.
  - intros a b IHa IHb b' o H. cbn [ex_alts] in H.
    destruct (ex_seq X a) as [[a' o']|] eqn:Ea.
    + inversion H; subst b' o'. rewrite !asum_cons, (IHa a' o eq_refl). cbn [length]. lia.
    + destruct (ex_alts X b) as [[r' o']|] eqn:Eb; [|discriminate]. inversion H; subst b' o'.
      destruct (IHb r' o eq_refl) as [H1 H2]. rewrite !asum_cons, H1. cbn [length]. lia.
Qed.

Lemma cmeasure_sep a b : cmeasure (map (fun alt => (a, [alt])) b) = asum b.
Proof.
  induction b as [|alt b IH]; [reflexivity|]. cbn [map]. rewrite cmeasure_cons, asum_cons, IH.
  rewrite cweight_alts_eq. cbn [length pred asum fold_right]. lia.
Qed.

Lemma cmeasure_rep_news is_lr X rb : cmeasure (rep_news is_lr X rb) < 2 + cweight_alts rb.
Proof.
  unfold rep_news. destruct rb as [|alt [|alt2 rb']]; destruct is_lr;
    rewrite !cmeasure_cons, !cweight_alts_eq; cbn [length pred asum fold_right cmeasure];
    rewrite ?cweight_seq_cons, ?cweight_seq_app, ?cweight_group, ?cweight_alts_eq;
    cbn [cweight cweight_seq fold_right length pred asum]; lia.
Qed.

Theorem canon_measure_decreases is_lr X ps ps' F :
  rewrite is_lr X ps ps' F -> cmeasure ps' < cmeasure ps.
Proof.
  intros Hrw.
  destruct Hrw as [ps pre a b' o post Hex|ps ps' Hsep|ps l Hfind|ps l alt Hfind Hfb|ps l Hfind Hfb].
  - apply ex_prods_spec in Hex as (b & -> & Hex).
    destruct (proj2 (proj2 (ex_measure X)) b b' o Hex) as [H1 H2].
    rewrite !cmeasure_app, !cmeasure_cons, !cweight_alts_eq, H2, H1.
    cbn [length pred asum fold_right]. rewrite !cweight_seq_cons, cweight_group, cweight_alts_eq.
    cbn [cweight_seq fold_right]. lia.
  - apply sep_step_spec in Hsep as (pre & a & b & post & -> & Hlt & -> & _).
    rewrite !cmeasure_app, cmeasure_cons, cmeasure_sep, cweight_alts_eq. lia.
  - apply find_prods_spec in Hfind as (E & Hr). apply is_rep_inv in Hr. rewrite E.
    set (rb := fbody (l_f l)) in *.
    rewrite (cmeasure_unloc l [l_f l]), (cmeasure_unloc l [FN X]). rewrite Hr.
    rewrite !cweight_seq_cons, cweight_rep. cbn [cweight cweight_seq fold_right cmeasure].
    pose proof (cmeasure_rep_news is_lr X rb). lia.
  - apply find_prods_spec in Hfind as (E & Hg). apply is_grp_inv in Hg. rewrite E.
    rewrite Hfb in Hg.
    rewrite (cmeasure_unloc l [l_f l]), (cmeasure_unloc l alt). rewrite Hg.
    rewrite !cweight_seq_cons, cweight_group, cweight_alts_eq.
    cbn [length pred asum cweight_seq fold_right cmeasure]. lia.
  - apply find_prods_spec in Hfind as (E & Hg). apply is_grp_inv in Hg. rewrite E.
    set (gb := fbody (l_f l)) in *.
    rewrite (cmeasure_unloc l [l_f l]), (cmeasure_unloc l [FN X]). rewrite Hg.
    rewrite !cweight_seq_cons, cweight_group, cmeasure_cons.
    cbn [cweight cweight_seq fold_right cmeasure]. lia.
Qed.

Definition cm (st : cstate) : nat := cmeasure (st_ps st).

Lemma cstep_measure is_lr st st' : cstep is_lr st st' -> cm st' < cm st.
Proof. intros [f name excl Hrw _ _ _|Hrw _]; exact (canon_measure_decreases _ _ _ _ _ Hrw). Qed.

Lemma creach_measure is_lr st st' : creach is_lr st st' -> cm st' <= cm st.
Proof.
  induction 1 as [st|st st1 st2 Hs _ IH]; [lia|]. pose proof (cstep_measure _ _ _ Hs). lia.
Qed.

(** *** No step reports fuel exhaustion *)
Lemma name_of_nofuel names a : name_of names a <> Err OutOfFuel.
Proof. unfold name_of. destruct (nth_error names (N.to_nat a)); discriminate. Qed.

Lemma names_of_nofuel names l : names_of names l <> Err OutOfFuel.
Proof.
  induction l as [|a l IH]; cbn [names_of]; [discriminate|].
  pose proof (name_of_nofuel names a). destruct (name_of names a) as [s|e]; cbn [bind]; [|congruence].
  destruct (names_of names l) as [ss|e]; cbn [bind]; [discriminate|congruence].
Qed.

Lemma extract_step_nofuel st : extract_step deep st <> Err OutOfFuel.
Proof.
  unfold extract_step. destruct (ex_prods (next_nt st) (st_ps st)) as [[[[[pre a] b'] o] post]|]; [|discriminate].
  pose proof (names_of_nofuel (st_names st) (var_ids_gen deep (st_ps st))) as H1. fold (variable_names_gen deep st) in H1.
  destruct (variable_names_gen deep st) as [excl|e]; cbn [bind]; [|congruence].
  pose proof (name_of_nofuel (st_names st) a). destruct (name_of (st_names st) a); cbn [bind]; [discriminate|congruence].
Qed.

Lemma rep_step_nofuel is_lr st : rep_step deep is_lr st <> Err OutOfFuel.
Proof.
  unfold rep_step. destruct (find_prods is_rep (st_ps st)) as [l|]; [|discriminate].
  pose proof (names_of_nofuel (st_names st) (var_ids_gen deep (st_ps st))) as H1. fold (variable_names_gen deep st) in H1.
  destruct (variable_names_gen deep st) as [excl|e]; cbn [bind]; [|congruence].
  pose proof (name_of_nofuel (st_names st) (l_lhs l)).
  destruct (name_of (st_names st) (l_lhs l)); cbn [bind]; [discriminate|congruence].
Qed.

Lemma grp_step_nofuel st : grp_step deep st <> Err OutOfFuel.
Proof.
  unfold grp_step. destruct (find_prods is_grp (st_ps st)) as [l|]; [|discriminate].
  pose proof (names_of_nofuel (st_names st) (var_ids_gen deep (st_ps st))) as H1. fold (variable_names_gen deep st) in H1.
  pose proof (name_of_nofuel (st_names st) (l_lhs l)) as H2.
  destruct (fbody (l_f l)) as [|alt [|alt2 gb]]; try discriminate;
    (destruct (variable_names_gen deep st) as [excl|e]; cbn [bind]; [|congruence]);
    (destruct (name_of (st_names st) (l_lhs l)); cbn [bind]; [discriminate|congruence]).
Qed.

Lemma finalize_nofuel ps : finalize ps <> Err OutOfFuel.
Proof.
  induction ps as [|[a b] ps IH]; cbn [finalize]; [discriminate|].
  destruct b as [|alt [|alt2 b]]; try discriminate.
  destruct (syms_of alt); [|discriminate].
  destruct (finalize ps) as [l'|e]; cbn [bind]; [discriminate|congruence].
Qed.

(** *** The loops *)
Lemma extract_loop_fuel (is_lr : bool) fuel : forall st, cm st <= fuel -> extract_loop deep fuel st <> Err OutOfFuel.
Proof.
  induction fuel as [|k IH]; intros st Hle; cbn [extract_loop];
    pose proof (extract_step_nofuel st) as Hnf;
    destruct (extract_step deep st) as [[st1|]|e] eqn:Es; cbn [bind]; try discriminate; try congruence.
  - pose proof (cstep_measure _ _ _ (extract_step_some is_lr _ _ Es)). lia.
  - apply IH. pose proof (cstep_measure _ _ _ (extract_step_some is_lr _ _ Es)). lia.
Qed.

Lemma sep_loop_fuel fuel : forall ps m, cmeasure ps <= fuel -> sep_loop fuel ps m <> Err OutOfFuel.
Proof.
  induction fuel as [|k IH]; intros ps m Hle; cbn [sep_loop];
    destruct (sep_step ps) as [ps1|] eqn:Es; try discriminate.
  - pose proof (canon_measure_decreases false 0%N _ _ _ (rw_sep _ _ _ _ Es)). lia.
  - apply IH. pose proof (canon_measure_decreases false 0%N _ _ _ (rw_sep _ _ _ _ Es)). lia.
Qed.

Lemma rep_loop_fuel is_lr fuel : forall st m, cm st <= fuel -> rep_loop deep fuel is_lr st m <> Err OutOfFuel.
Proof.
  induction fuel as [|k IH]; intros st m Hle; cbn [rep_loop];
    pose proof (rep_step_nofuel is_lr st) as Hnf;
    destruct (rep_step deep is_lr st) as [[st1|]|e] eqn:Es; cbn [bind]; try discriminate; try congruence.
  - pose proof (cstep_measure _ _ _ (rep_step_some _ _ _ Es)). lia.
  - apply IH. pose proof (cstep_measure _ _ _ (rep_step_some _ _ _ Es)). lia.
Qed.

Lemma grp_loop_fuel fuel : forall st m, cm st <= fuel -> grp_loop deep fuel st m <> Err OutOfFuel.
Proof.
  induction fuel as [|k IH]; intros st m Hle; cbn [grp_loop];
    pose proof (grp_step_nofuel st) as Hnf;
    destruct (grp_step deep st) as [[st1|]|e] eqn:Es; cbn [bind]; try discriminate; try congruence.
  - pose proof (cstep_measure _ _ _ (grp_step_some false _ _ Es)). lia.
  - apply IH. pose proof (cstep_measure _ _ _ (grp_step_some false _ _ Es)). lia.
Qed.

(** The [modified] flag is raised only by a strict decrease of the measure. *)
Lemma sep_loop_flag fuel : forall ps m ps' m', sep_loop fuel ps m = Ok (ps', m') ->
  (ps' = ps /\ m' = m) \/ (m' = true /\ cmeasure ps' < cmeasure ps).
Proof.
  induction fuel as [|k IH]; intros ps m ps' m' H; cbn [sep_loop] in H;
    destruct (sep_step ps) as [ps1|] eqn:Es; try discriminate.
  - inversion H; subst. left. split; reflexivity.
  - pose proof (canon_measure_decreases false 0%N _ _ _ (rw_sep _ _ _ _ Es)).
    destruct (IH _ _ _ _ H) as [[-> ->]|[-> Hlt]]; right; split; try reflexivity; lia.
  - inversion H; subst. left. split; reflexivity.
Qed.

Lemma rep_loop_flag is_lr fuel : forall st m st' m', rep_loop deep fuel is_lr st m = Ok (st', m') ->
  (st' = st /\ m' = m) \/ (m' = true /\ cm st' < cm st).
Proof.
  induction fuel as [|k IH]; intros st m st' m' H; cbn [rep_loop] in H;
    destruct (rep_step deep is_lr st) as [[st1|]|e] eqn:Es; cbn [bind] in H; try discriminate.
  - inversion H; subst. left. split; reflexivity.
  - pose proof (cstep_measure _ _ _ (rep_step_some _ _ _ Es)).
    destruct (IH _ _ _ _ H) as [[-> ->]|[-> Hlt]]; right; split; try reflexivity; lia.
  - inversion H; subst. left. split; reflexivity.
Qed.

Lemma grp_loop_flag fuel : forall st m st' m', grp_loop deep fuel st m = Ok (st', m') ->
  (st' = st /\ m' = m) \/ (m' = true /\ cm st' < cm st).
Proof.
  induction fuel as [|k IH]; intros st m st' m' H; cbn [grp_loop] in H;
    destruct (grp_step deep st) as [[st1|]|e] eqn:Es; cbn [bind] in H; try discriminate.
  - inversion H; subst. left. split; reflexivity.
  - pose proof (cstep_measure _ _ _ (grp_step_some false _ _ Es)).
    destruct (IH _ _ _ _ H) as [[-> ->]|[-> Hlt]]; right; split; try reflexivity; lia.
  - inversion H; subst. left. split; reflexivity.
Qed.

Lemma trans_fn_flag is_lr fuel st st' : gnoopt (st_ps st) = true ->
  trans_fn deep fuel is_lr st = Ok (st', true) -> cm st' < cm st.
Proof.
  intros Hn H. unfold trans_fn in H.
  destruct (sep_loop fuel (st_ps st) false) as [[ps1 m1]|e] eqn:E1; [|discriminate]. cbn [bind] in H.
  destruct (rep_loop deep fuel is_lr (mkSt ps1 (st_names st)) m1) as [[st2 m2]|e] eqn:E2; [|discriminate].
  cbn [bind] in H.
  pose proof (sep_loop_reach is_lr (st_names st) _ _ _ _ _ E1) as R1.
  assert (Est : mkSt (st_ps st) (st_names st) = st) by (destruct st; reflexivity).
  rewrite Est in R1.
  pose proof (rep_loop_reach _ _ _ _ _ _ E2) as R2.
  pose proof (creach_noopt _ _ _ (creach_trans _ _ _ _ R1 R2) Hn) as Hn2.
  rewrite (opt_loop_id fuel st2 m2 Hn2) in H. cbn [bind] in H.
  pose proof (sep_loop_flag _ _ _ _ _ E1) as F1.
  pose proof (rep_loop_flag _ _ _ _ _ _ E2) as F2.
  pose proof (grp_loop_flag _ _ _ _ _ H) as F3.
  pose proof (creach_measure _ _ _ R2) as M2.
  pose proof (creach_measure _ _ _ (grp_loop_reach is_lr _ _ _ _ _ H)) as M3.
  pose proof (creach_measure _ _ _ R1) as M1.
  unfold cm in *. cbn [st_ps] in *.
  destruct F3 as [[E3 Em2]|[_ Hlt3]]; [|lia].
  destruct F2 as [[E2' Em1]|[_ Hlt2]]; [|subst st'; lia].
  destruct F1 as [[_ Ef]|[_ Hlt1]]; [congruence|].
  subst st' st2. cbn [st_ps]. lia.
Qed.

Lemma trans_fn_fuel is_lr fuel st : gnoopt (st_ps st) = true -> cm st <= fuel ->
  trans_fn deep fuel is_lr st <> Err OutOfFuel.
Proof.
  intros Hn Hle. unfold trans_fn.
  pose proof (sep_loop_fuel fuel (st_ps st) false Hle) as N1.
  destruct (sep_loop fuel (st_ps st) false) as [[ps1 m1]|e] eqn:E1; cbn [bind]; [|congruence].
  pose proof (sep_loop_reach is_lr (st_names st) _ _ _ _ _ E1) as R1.
  assert (Est : mkSt (st_ps st) (st_names st) = st) by (destruct st; reflexivity).
  rewrite Est in R1. pose proof (creach_measure _ _ _ R1) as M1.
  assert (N2 : rep_loop deep fuel is_lr (mkSt ps1 (st_names st)) m1 <> Err OutOfFuel) by (apply rep_loop_fuel; lia).
  destruct (rep_loop deep fuel is_lr (mkSt ps1 (st_names st)) m1) as [[st2 m2]|e] eqn:E2; cbn [bind]; [|congruence].
  pose proof (rep_loop_reach _ _ _ _ _ _ E2) as R2. pose proof (creach_measure _ _ _ R2) as M2.
  pose proof (creach_noopt _ _ _ (creach_trans _ _ _ _ R1 R2) Hn) as Hn2.
  rewrite (opt_loop_id fuel st2 m2 Hn2). cbn [bind]. apply grp_loop_fuel. lia.
Qed.

Lemma main_loop_fuel is_lr fuel n : forall st, gnoopt (st_ps st) = true -> cm st < n -> cm st <= fuel ->
  main_loop deep fuel n is_lr st <> Err OutOfFuel.
Proof.
  induction n as [|k IH]; intros st Hn Hlt Hle; [lia|]. cbn [main_loop].
  pose proof (trans_fn_fuel is_lr fuel st Hn Hle) as N1.
  destruct (trans_fn deep fuel is_lr st) as [[st1 m]|e] eqn:Et; cbn [bind]; [|congruence].
  destruct m; [|discriminate].
  pose proof (trans_fn_flag _ _ _ _ Hn Et) as Hdec.
  apply IH; [|lia|lia]. exact (creach_noopt _ _ _ (trans_fn_reach _ _ _ _ _ Hn Et) Hn).
Qed.

(** [canon_fuel G] (or any larger amount) is enough fuel. *)
Theorem canon_gen_terminates fuel is_lr G names : canon_fuel G <= fuel ->
  canon_gen deep fuel is_lr G names <> Err OutOfFuel.
Proof.
  unfold canon_fuel, canon_gen. intros Hle.
  assert (N1 : extract_loop deep fuel (mkSt (eprods G) names) <> Err OutOfFuel)
    by (apply (extract_loop_fuel is_lr); unfold cm; cbn [st_ps]; lia).
  destruct (extract_loop deep fuel (mkSt (eprods G) names)) as [st1|e] eqn:E1; cbn [bind]; [|congruence].
  destruct (extract_loop_reach is_lr _ _ _ E1) as [R1 Hn1].
  pose proof (creach_measure _ _ _ R1) as M1. unfold cm in M1. cbn [st_ps] in M1.
  assert (N2 : main_loop deep fuel (S fuel) is_lr st1 <> Err OutOfFuel)
    by (apply main_loop_fuel; [exact Hn1|unfold cm; lia|unfold cm; lia]).
  destruct (main_loop deep fuel (S fuel) is_lr st1) as [st2|e] eqn:E2; cbn [bind]; [|congruence].
  pose proof (finalize_nofuel (st_ps st2)) as N3.
  destruct (finalize (st_ps st2)) as [l|e]; cbn [bind]; [discriminate|congruence].
Qed.

End Deep.

(** ** The theorems for the repaired code ([canon]) and for the pinned commit ([canon_old]) *)

Theorem canon_preserves_forms fuel is_lr G names B names' :
  canon fuel is_lr G names = Ok (B, names') -> names_cover G names ->
  start B = estart G /\
  forall alpha w, sbound (N.of_nat (length names)) (map fac_of alpha) = true ->
    (derives B alpha w <-> ematch G (map fac_of alpha) w).
Proof. exact (canon_gen_preserves_forms true fuel is_lr G names B names'). Qed.

Theorem canon_preserves_lang fuel is_lr G names B names' :
  canon fuel is_lr G names = Ok (B, names') -> names_cover G names ->
  start B = estart G /\
  forall a, In a (ents G) -> forall w, derives B [NT a] w <-> ematch G [FN a] w.
Proof. exact (canon_gen_preserves_lang true fuel is_lr G names B names'). Qed.

Corollary canon_preserves_language fuel is_lr G names B names' :
  canon fuel is_lr G names = Ok (B, names') -> names_cover G names ->
  forall w, lang B w <-> elang G w.
Proof. exact (canon_gen_preserves_language true fuel is_lr G names B names'). Qed.

Theorem canon_terminates fuel is_lr G names : canon_fuel G <= fuel ->
  canon fuel is_lr G names <> Err OutOfFuel.
Proof. exact (canon_gen_terminates true fuel is_lr G names). Qed.

(** [names_used G names]: the table has no unused entry - every index below [length names] is
    a left-hand side or occurs (at any nesting depth) in some right-hand side.  Together with
    [names_cover] and [NoDup names] this says that the table is a bijection between the
    non-terminals of [G] and their names, i.e. that [(G, names)] represents a grammar of the
    Rust code (where a non-terminal *is* its name). *)
Definition names_used (G : egrammar) (names : list string) : Prop :=
  forall i, i < length names -> In (N.of_nat i) (var_ids (eprods G)).

Definition names_usedb (G : egrammar) (names : list string) : bool :=
  forallb (fun i => existsb (N.eqb (N.of_nat i)) (var_ids (eprods G))) (seq 0 (length names)).

Lemma names_usedb_spec G names : names_usedb G names = true <-> names_used G names.
Proof.
  unfold names_usedb, names_used. rewrite forallb_forall. split.
  - intros H i Hi. specialize (H i ltac:(apply in_seq; lia)). apply existsb_exists in H as (x & Hx & E).
    apply N.eqb_eq in E. subst x. exact Hx.
  - intros H i Hi. apply in_seq in Hi. apply existsb_exists. exists (N.of_nat i).
    split; [apply H; lia|apply N.eqb_refl].
Qed.

(** Repaired code: helper names are pairwise different and different from every name of the
    grammar, whatever the nesting depth of its occurrences. *)
Theorem canon_fresh fuel is_lr G names B names' :
  canon fuel is_lr G names = Ok (B, names') -> names_used G names -> NoDup names ->
  NoDup names' /\ exists helpers, names' = names ++ helpers.
Proof. exact (canon_gen_fresh true fuel is_lr G names B names'). Qed.

(** Pinned commit: the same theorems; freshness only if every name is visible at top level. *)
Theorem canon_old_preserves_lang fuel is_lr G names B names' :
  canon_old fuel is_lr G names = Ok (B, names') -> names_cover G names ->
  start B = estart G /\
  forall a, In a (ents G) -> forall w, derives B [NT a] w <-> ematch G [FN a] w.
Proof. exact (canon_gen_preserves_lang false fuel is_lr G names B names'). Qed.

Theorem canon_old_fresh fuel is_lr G names B names' :
  canon_old fuel is_lr G names = Ok (B, names') ->
  covered false (mkSt (eprods G) names) -> NoDup names ->
  NoDup names' /\ exists helpers, names' = names ++ helpers.
Proof. exact (canon_gen_fresh false fuel is_lr G names B names'). Qed.

Theorem canon_old_terminates fuel is_lr G names : canon_fuel G <= fuel ->
  canon_old fuel is_lr G names <> Err OutOfFuel.
Proof. exact (canon_gen_terminates false fuel is_lr G names). Qed.

(** ** The defect of the pinned commit (finding, repaired in the working tree)

    The old [variable_names] collected left-hand sides and *top-level* non-terminals only.  A
    non-terminal that occurs only nested inside a group/repetition/optional and has no
    production of its own was invisible to [generate_name]; a helper could then receive its name.
    At the pinned commit parol accepted  [%grammar_type 'LALR(1)'  S: ( "a" | SGroup "b" );]
    (SGroup undefined) and produced  [S: SGroup; SGroup: "a"; SGroup: SGroup "b";]  - language
    a b*  instead of the "non-productive non-terminal SGroup" error that  [S: "a" | SGroup "b";]
    gets.  The repaired code names the helper [SGroup0]. *)
Local Open Scope string_scope.

Definition ex_collide : egrammar := mkEg 0 [(0%N, [[FGroup [[FT 5]; [FN 1; FT 6]]]])].

Theorem canon_fresh_refuted : exists G names B names',
  canon_old (canon_fuel G) true G names = Ok (B, names') /\
  names_cover G names /\ names_used G names /\ NoDup names /\ ~ NoDup names'.
Proof.
  exists ex_collide, ["S"; "SGroup"]. eexists. eexists. split; [vm_compute; reflexivity|].
  split; [split; vm_compute; reflexivity|]. split; [apply names_usedb_spec; vm_compute; reflexivity|]. split.
  - constructor; [intros [H|[]]; discriminate|]. constructor; [intros []|constructor].
  - intros H. inversion H as [|x l Hnin Hnd]; subst. inversion Hnd as [|y l' Hnin' _]; subst.
    apply Hnin'. left. reflexivity.
Qed.

(** What the old Rust code actually returned is the model's result with equally named
    non-terminals identified; there the language has changed. *)
Fixpoint first_index (s : string) (names : list string) (i : N) : option N :=
  match names with
  | [] => None
  | x :: r => if String.eqb s x then Some i else first_index s r (N.succ i)
  end.
Definition merge_nt (names : list string) (a : N) : N :=
  match nth_error names (N.to_nat a) with
  | Some s => match first_index s names 0 with Some j => j | None => a end
  | None => a
  end.
Definition merge_by_name (names : list string) (B : cfg) : cfg :=
  mkCfg (merge_nt names (start B))
    (map (fun p => mkProd (merge_nt names (lhs p))
                     (map (fun s => match s with NT a => NT (merge_nt names a) | T t => T t end) (rhs p)))
         (prods B)).

Example canon_collision_changes_language : exists B names',
  canon_old (canon_fuel ex_collide) true ex_collide ["S"; "SGroup"] = Ok (B, names') /\
  member 50 (merge_by_name names' B) [5; 6]%N = Some true /\
  emember 50 ex_collide [5; 6]%N = Some false.
Proof. eexists. eexists. split; [vm_compute; reflexivity|]. split; vm_compute; reflexivity. Qed.

(** The repaired code on the same grammar (checked against the rebuilt parol: [SGroup0]). *)
Example canon_collision_repaired :
  canon_named (canon_fuel ex_collide) true ex_collide ["S"; "SGroup"] = Ok
    [ ("S", [NNt "SGroup0"]); ("SGroup0", [NTm 5]); ("SGroup0", [NNt "SGroup"; NTm 6]) ].
Proof. vm_compute. reflexivity. Qed.

(** [names_used] cannot be dropped from [canon_fresh]: a table entry that names nothing in the
    grammar is invisible to every version of [variable_names] (it does not exist for the Rust
    code), so a helper may be given that name.  This is a condition on the caller's table, not a
    defect of parol. *)
Example canon_fresh_needs_names_used : exists G names B names',
  canon (canon_fuel G) false G names = Ok (B, names') /\
  names_cover G names /\ NoDup names /\ ~ NoDup names'.
Proof.
  exists (mkEg 0 [(0%N, [[FGroup [[FT 5]; [FT 6]]]])]), ["S"; "SGroup"]. eexists. eexists.
  split; [vm_compute; reflexivity|]. split; [split; vm_compute; reflexivity|]. split.
  - constructor; [intros [H|[]]; discriminate|]. constructor; [intros []|constructor].
  - intros H. inversion H as [|x l Hnin Hnd]; subst. inversion Hnd as [|y l' Hnin' _]; subst.
    apply Hnin'. left. reflexivity.
Qed.

(** ** Non-vacuity *)
Example ex_rewrite_hyp : exists ps' F,
  rewrite false 1 (eprods ex_ebnf1) ps' F /\ gfree 1 (eprods ex_ebnf1) = true.
Proof.
  eexists. eexists. split; [|reflexivity]. apply rw_extract. vm_compute. reflexivity.
Qed.

Example ex_canon_hyp : exists B names',
  canon (canon_fuel ex_ebnf1) false ex_ebnf1 ["S"] = Ok (B, names') /\
  names_cover ex_ebnf1 ["S"] /\ names_used ex_ebnf1 ["S"] /\ NoDup ["S"] /\
  canon_fuel ex_ebnf1 <= canon_fuel ex_ebnf1.
Proof.
  eexists. eexists. split; [vm_compute; reflexivity|]. split; [split; vm_compute; reflexivity|].
  split; [apply names_usedb_spec; vm_compute; reflexivity|].
  split; [constructor; [intros []|constructor]|lia].
Qed.

Example ex_canon_old_hyp : exists B names',
  canon_old (canon_fuel ex_ebnf1) false ex_ebnf1 ["S"] = Ok (B, names') /\
  names_cover ex_ebnf1 ["S"] /\ covered false (mkSt (eprods ex_ebnf1) ["S"]) /\ NoDup ["S"].
Proof.
  eexists. eexists. split; [vm_compute; reflexivity|]. split; [split; vm_compute; reflexivity|].
  split; [|constructor; [intros []|constructor]].
  intros i Hi. cbn [st_names length] in Hi. assert (i = 0) by lia. subst i. left. reflexivity.
Qed.

(** The two grammar types on a grammar with a left-hand side split over productions, nested
    repetition/optional/group and an empty alternative. *)
Example ex_canon2 : canon_named (canon_fuel ex_ebnf2) true ex_ebnf2 ["E"; "T"] = Ok
  [ ("E", [NNt "T"; NNt "EList"]);
    ("EList", [NNt "EList"; NTm 5; NNt "T"]);
    ("EList", []);
    ("T", [NTm 6]);
    ("T", [NTm 7; NNt "E"; NTm 8]);
    ("T", [NNt "TOpt"; NTm 10]);
    ("TOpt", [NTm 9]);
    ("TOpt", []) ].
Proof. vm_compute. reflexivity. Qed.

(** Nested undefined names (checked against the rebuilt parol):
    [S: ( "a" | SGroup "b" ) { [ SOpt ] SList };]  with  S, SGroup, SOpt, SList = 0..3. *)
Example ex_canon_nested_names :
  canon_named 20 true
    (mkEg 0 [(0%N, [[FGroup [[FT 5]; [FN 1; FT 6]]; FRep [[FOpt [[FN 2]]; FN 3]]]])])
    ["S"; "SGroup"; "SOpt"; "SList"] = Ok
  [ ("S", [NNt "SGroup0"; NNt "SList0"]);
    ("SGroup0", [NTm 5]);
    ("SGroup0", [NNt "SGroup"; NTm 6]);
    ("SList0", [NNt "SList0"; NNt "SOpt0"; NNt "SList"]);
    ("SList0", []);
    ("SOpt0", [NNt "SOpt"]);
    ("SOpt0", []) ].
Proof. vm_compute. reflexivity. Qed.

Print Assumptions canon_step_preserves.
Print Assumptions opt_step_unreachable.
Print Assumptions no_optional_after_extract.
Print Assumptions canon_preserves_forms.
Print Assumptions canon_preserves_lang.
Print Assumptions canon_preserves_language.
Print Assumptions canon_fresh.
Print Assumptions canon_old_fresh.
Print Assumptions canon_old_preserves_lang.
Print Assumptions canon_fresh_refuted.
Print Assumptions canon_measure_decreases.
Print Assumptions canon_terminates.
Print Assumptions canon_old_terminates.
