(** * A total mode never leaves a gap (model side of property C16).

    If the patterns (without look-ahead condition) of a scanner mode match every single code
    point, then at every position of every non-empty input the longest-match rule finds a token:
    no character is skipped, hence no "unmatched gap" can arise in that mode.  The totality
    hypothesis is what [RegexEquiv.total_on_chars_list_cex] decides for the regex lists of the
    modes parol really generates. *)
From Coq Require Import List Arith NArith Bool Lia.
From Parol Require Import Scanner.Regex Scanner.RegexEquiv Scanner.LongestMatch.
Import ListNotations.

Definition plain_patterns (es : list entry) : list regex :=
  map e_pat (filter (fun e => match e_look e with None => true | Some _ => false end) es).

Theorem total_mode_no_gap es :
  total_on_chars_list_cex (plain_patterns es) = None ->
  forall c s, is_code_point c -> best_match es (c :: s) <> None.
Proof.
  intros Htot c s Hc Hb.
  destruct (total_on_chars_list_sound _ Htot c Hc) as (r & Hin & Hm).
  unfold plain_patterns in Hin. apply in_map_iff in Hin as (e & <- & Hin).
  apply filter_In in Hin as [Hin Hla].
  pose proof (best_match_spec es (c :: s)) as Hspec. rewrite Hb in Hspec.
  apply In_nth_error in Hin as [j Hj].
  apply (Hspec j e 1 Hj). unfold entry_accepts, accepts. split; [simpl; lia|].
  split; [exact Hm|]. destruct (e_look e); [discriminate|exact I].
Qed.
