(** Property C15 — Comment tokens end exactly at the first end delimiter.
    Pinned statements only; proofs in Scanner/CommentSpec.v, Scanner/CommentCheck.v (on top of the
    verified regex derivative / bisimulation development Scanner/Regex.v, RegexEquiv.v).

    [is_block_comment s e x]: x = s ++ b ++ e and the first occurrence of e in b ++ e is at |b|.
    [is_line_comment s x]: x = s ++ b ++ nl, no line break in b, nl in {"", LF, CR LF, CR}.
    [block_check_sv f r s e] decides, by a proved bisimulation between the derivatives of the regex
    [r] that parol generated and a sliding-window specification automaton, whether [r] matches
    exactly the block comments — for ALL strings of Unicode scalar values at once. *)
From Coq Require Import List NArith.
From Parol Require Import Scanner.Regex Scanner.RegexEquiv Scanner.CommentSpec Scanner.CommentCheck.
Import ListNotations.

Theorem C15_block_check_sound : forall f r s e, e <> [] ->
  block_check_sv f r s e = Some None ->
  forall x, Forall is_scalar x -> (matches r x <-> is_block_comment s e x).
Proof. exact block_check_sv_sound. Qed.

Theorem C15_block_check_witness : forall f r s e w, e <> [] ->
  block_check_sv f r s e = Some (Some w) ->
  Forall is_scalar w /\
  ((matches r w /\ ~ is_block_comment s e w) \/ (~ matches r w /\ is_block_comment s e w)).
Proof. exact block_check_sv_witness. Qed.

Theorem C15_line_check_sound : forall f r s,
  line_check_sv f r s = Some None ->
  forall x, Forall is_scalar x -> (matches r x <-> is_line_comment s x).
Proof. exact line_check_sv_sound. Qed.

Theorem C15_line_check_witness : forall f r s w,
  line_check_sv f r s = Some (Some w) ->
  Forall is_scalar w /\
  ((matches r w /\ ~ is_line_comment s w) \/ (~ matches r w /\ is_line_comment s w)).
Proof. exact line_check_sv_witness. Qed.

(** The specification automaton means what it should, for every pair of delimiters. *)
Theorem C15_block_spec_correct : forall s e, e <> [] ->
  forall x, dfa_accepts (block_spec s e) x = true <-> is_block_comment s e x.
Proof. exact block_spec_correct. Qed.

Theorem C15_line_spec_correct : forall s x, dfa_accepts (line_spec s) x = true <-> is_line_comment s x.
Proof. exact line_spec_correct. Qed.

(** Findings on the pinned constructions of format_block_comment (all by evaluation of the proved
    check on the model of the construction; the correspondence run repeats them on the regex
    strings the real code emits). *)
Example C15_c_style_refuted :
  match parol_block_rx [47;42]%N [42;47]%N with
  | Some r => block_check_sv 500 r [47;42]%N [42;47]%N = Some (Some [47;42;42;47;47;42;47]%N)
  | None => False end.
Proof. vm_compute. reflexivity. Qed.

Example C15_two_atom_exact :
  match parol_block_rx [40;42]%N [42;41]%N with
  | Some r => block_check_sv 500 r [40;42]%N [42;41]%N = Some None
  | None => False end.
Proof. vm_compute. reflexivity. Qed.

Example C15_three_atom_refuted :
  match parol_block_rx [35]%N [97;98;99]%N with
  | Some r => exists w, block_check_sv 500 r [35]%N [97;98;99]%N = Some (Some w)
  | None => False end.
Proof. vm_compute. eexists. reflexivity. Qed.
