//! C09: real EBNF canonicalization (PAR text -> GrammarConfig.cfg) on generated EBNF grammars.
use crate::{gram::term_text, rng::Rng, sx, Args};
use parol::obtain_grammar_config_from_string;

#[derive(Clone, Debug)]
pub enum F {
    T(u16),
    N(usize),
    G(Vec<Vec<F>>),
    O(Vec<Vec<F>>),
    R(Vec<Vec<F>>),
}

pub struct EG {
    pub names: Vec<String>,
    pub start: usize,
    pub prods: Vec<(usize, Vec<Vec<F>>)>,
}

fn f_sx(f: &F) -> String {
    match f {
        F::T(t) => t.to_string(),
        F::N(a) => format!("-{}", a + 1),
        F::G(a) => format!("(g {})", alts_sx(a)),
        F::O(a) => format!("(o {})", alts_sx(a)),
        F::R(a) => format!("(r {})", alts_sx(a)),
    }
}
fn alts_sx(a: &[Vec<F>]) -> String {
    a.iter().map(|alt| format!("({})", alt.iter().map(f_sx).collect::<Vec<_>>().join(" "))).collect::<Vec<_>>().join(" ")
}
fn f_par(f: &F, names: &[String]) -> String {
    match f {
        F::T(t) => format!("\"{}\"", term_text(*t)),
        F::N(a) => names[*a].clone(),
        F::G(a) => format!("( {} )", alts_par(a, names)),
        F::O(a) => format!("[ {} ]", alts_par(a, names)),
        F::R(a) => format!("{{ {} }}", alts_par(a, names)),
    }
}
fn alts_par(a: &[Vec<F>], names: &[String]) -> String {
    a.iter().map(|alt| alt.iter().map(|f| f_par(f, names)).collect::<Vec<_>>().join(" ")).collect::<Vec<_>>().join(" | ")
}

impl EG {
    pub fn sx(&self) -> String {
        format!("({} {})", self.start, self.prods.iter().map(|(l, a)| format!("({} {})", l, alts_sx(a))).collect::<Vec<_>>().join(" "))
    }
    pub fn par(&self, lalr: bool) -> String {
        let mut s = format!("%start {}\n", self.names[self.start]);
        if lalr {
            s.push_str("%grammar_type 'lalr(1)'\n");
        }
        s.push_str("%%\n");
        for (l, a) in &self.prods {
            s.push_str(&format!("{}: {};\n", self.names[*l], alts_par(a, &self.names)));
        }
        s
    }
}

fn gen_alts(rng: &mut Rng, n: usize, m: usize, depth: usize, top: bool) -> Vec<Vec<F>> {
    let na = if top { rng.range(1, 3) } else { rng.range(1, 2) };
    (0..na)
        .map(|i| {
            let len = if top && i > 0 && rng.chance(1, 8) { 0 } else { rng.range(1, 3) };
            (0..len)
                .map(|_| {
                    let r = rng.below(100);
                    if depth > 0 && r < 12 {
                        F::G(gen_alts(rng, n, m, depth - 1, false))
                    } else if depth > 0 && r < 24 {
                        F::O(gen_alts(rng, n, m, depth - 1, false))
                    } else if depth > 0 && r < 36 {
                        F::R(gen_alts(rng, n, m, depth - 1, false))
                    } else if r < 60 {
                        F::N(rng.below(n))
                    } else {
                        F::T(5 + rng.below(m) as u16)
                    }
                })
                .collect()
        })
        .collect()
}

pub fn random_ebnf(rng: &mut Rng, tricky_names: bool) -> EG {
    let n = rng.range(1, 4);
    let m = rng.range(1, 3);
    let names: Vec<String> = if tricky_names {
        // names that look like the helper names the transformation generates
        let pool = ["S", "SList", "SOpt", "SGroup", "SList0", "SOpt1", "SGroup1", "A", "AList", "AOpt"];
        let mut v: Vec<String> = vec![];
        while v.len() < n {
            let c = pool[rng.below(pool.len())].to_string();
            if !v.contains(&c) {
                v.push(c);
            }
        }
        v[0] = "S".to_string();
        let mut seen = vec![];
        v.retain(|x| if seen.contains(x) { false } else { seen.push(x.clone()); true });
        while v.len() < n { v.push(format!("X{}", v.len())); }
        v
    } else {
        (0..n).map(crate::gram::nt_name).collect()
    };
    let mut prods = vec![];
    for a in 0..n {
        prods.push((a, gen_alts(rng, n, m, 2, true)));
        if rng.chance(1, 6) {
            prods.push((a, gen_alts(rng, n, m, 1, true)));
        }
    }
    EG { names, start: 0, prods }
}

pub fn case(g: &EG, lalr: bool) -> String {
    let text = g.par(lalr);
    let r = std::panic::catch_unwind(|| obtain_grammar_config_from_string(&text, false));
    let names_sx = sx::list(g.names.iter().map(|n| sx::s(n)));
    match r {
        Err(_) => format!("(canon {} {} {} panic)", if lalr { "lr" } else { "ll" }, g.sx(), names_sx),
        Ok(Err(e)) => format!("(canon {} {} {} (rejected {}))", if lalr { "lr" } else { "ll" }, g.sx(), names_sx, sx::s(&format!("{e}").chars().take(60).collect::<String>())),
        Ok(Ok(gc)) => {
            // result productions with non-terminals by NAME and terminals by text -> letter number
            let prods: Vec<String> = gc.cfg.pr.iter().map(|p| {
                let rhs: Vec<String> = p.get_r().iter().filter_map(|s| match s {
                    parol::Symbol::N(n, ..) => Some(sx::s(n)),
                    parol::Symbol::T(parol::Terminal::Trm(t, ..)) => Some((5 + (t.as_bytes()[0] - b'a') as u16).to_string()),
                    _ => None,
                }).collect();
                format!("({} {})", sx::s(p.get_n_str()), rhs.join(" "))
            }).collect();
            format!("(canon {} {} {} (ok {} ({})))", if lalr { "lr" } else { "ll" }, g.sx(), names_sx, sx::s(&gc.cfg.st), prods.join(" "))
        }
    }
}

pub fn run(a: &Args) {
    let mut rng = Rng::new(a.seed ^ ((a.shard as u64) << 32) ^ 0xC09);
    if a.shard == 0 {
        // corpus: nested-only undefined non-terminal whose name equals a generated helper name
        let g = EG { names: vec!["S".into(), "SGroup".into()], start: 0, prods: vec![(0, vec![vec![F::G(vec![vec![F::T(5)], vec![F::N(1), F::T(6)]])]])] };
        println!("{}", case(&g, true));
        println!("{}", case(&g, false));
    }
    for i in 0..a.n {
        let g = random_ebnf(&mut rng, i % 4 == 0);
        println!("{}", case(&g, i % 2 == 0));
    }
}
