#!/bin/sh
# Extract the models from Coq (one OCaml module per Coq file) and build the driver.
set -e
cd "$(dirname "$0")"
rm -rf _build/gen && mkdir -p _build/gen
( cd _build/gen && coqc -Q ../../../coq Parol ../../../coq/Extract/Extraction.v >/dev/null )
cp sexp.ml conv.ml driver.ml _build/gen/
cd _build/gen
ORDER=$(ocamlfind ocamldep -sort *.mli *.ml)
ocamlfind ocamlopt -O3 -w -a $ORDER -o ../drv 2>/dev/null || ocamlfind ocamlopt -w -a $ORDER -o ../drv
