(** * Left factoring: proofs about the model of [Transform/LeftFactor.v] (properties C10, C24).

    All theorems hold for EVERY oracle (hash order) and every name supply [fresh] that never
    returns an excluded name ([generate_name]'s contract). *)
From Coq Require Import List Arith NArith Bool Lia Permutation.
From Parol Require Import Grammar.Cfg Transform.LeftFactor.
Import ListNotations.

(** ** Generic list facts *)

Lemma ins_perm {A} (key : A -> nat) x l : Permutation (ins key x l) (x :: l).
Proof.
  induction l as [|y l IH]; simpl; [reflexivity|].
  destruct (key y <? key x); [|reflexivity].
  transitivity (y :: x :: l); [apply perm_skip, IH|apply perm_swap].
Qed.

Lemma sort_by_perm {A} (key : A -> nat) l : Permutation (sort_by key l) l.
Proof.
  induction l as [|x l IH]; simpl; [reflexivity|].
  transitivity (x :: sort_by key l); [apply ins_perm|apply perm_skip, IH].
Qed.

Lemma in_sort_by {A} (key : A -> nat) l x : In x (sort_by key l) <-> In x l.
Proof.
  split; apply Permutation_in; [|symmetry]; apply sort_by_perm.
Qed.

Section Dedup.
  Variable A : Type.
  Variable eqb : A -> A -> bool.
  Hypothesis eqb_eq : forall x y, eqb x y = true <-> x = y.

  Lemma in_dedup l x : In x (dedup eqb l) <-> In x l.
  Proof.
    induction l as [|y l IH]; simpl; [tauto|].
    rewrite filter_In, IH. split.
    - intros [H|[H _]]; auto.
    - intros [H|H]; [left; exact H|].
      destruct (eqb y x) eqn:E.
      + left. apply eqb_eq. exact E.
      + right. split; [exact H|reflexivity].
  Qed.

  Lemma NoDup_dedup l : NoDup (dedup eqb l).
  Proof.
    induction l as [|y l IH]; simpl; constructor.
    - rewrite filter_In. intros [_ H].
      assert (eqb y y = true) as E by (apply eqb_eq; reflexivity).
      rewrite E in H. discriminate.
    - apply NoDup_filter. exact IH.
  Qed.
End Dedup.

Lemma max_fold_some {K} (l : list (K * nat)) : forall b r,
  fold_left max_step l (Some b) = Some r ->
  In r (b :: l) /\ forall x, In x (b :: l) -> snd x <= snd r.
Proof.
  induction l as [|x l IH]; intros b r H; simpl in H.
  - inversion H; subst. split; [left; reflexivity|]. intros x [->|[]]. lia.
  - destruct (Nat.ltb_spec (snd x) (snd b)) as [Hlt|Hge];
      apply IH in H as [Hin Hmax]; split.
    + destruct Hin as [->|Hin]; [left; reflexivity|right; right; exact Hin].
    + intros y [->|[->|Hy]].
      * apply Hmax. left. reflexivity.
      * assert (snd b <= snd r) by (apply Hmax; left; reflexivity). lia.
      * apply Hmax. right. exact Hy.
    + right. exact Hin.
    + intros y [->|[->|Hy]].
      * assert (snd x <= snd r) by (apply Hmax; left; reflexivity). lia.
      * apply Hmax. left. reflexivity.
      * apply Hmax. right. exact Hy.
Qed.

Lemma max_fold_not_none {K} (l : list (K * nat)) : forall b,
  fold_left max_step l (Some b) <> None.
Proof.
  induction l as [|x l IH]; intros b; simpl; [discriminate|].
  destruct (snd x <? snd b); apply IH.
Qed.

Lemma max_by_count_spec {K} (l : list (K * nat)) r :
  max_by_count l = Some r -> In r l /\ forall x, In x l -> snd x <= snd r.
Proof.
  unfold max_by_count. destruct l as [|b l]; simpl; [discriminate|]. apply max_fold_some.
Qed.

Lemma max_by_count_some {K} (l : list (K * nat)) :
  l <> [] -> exists r, max_by_count l = Some r.
Proof.
  unfold max_by_count. destruct l as [|b l]; [congruence|]. intros _. simpl.
  destruct (fold_left max_step l (Some b)) as [r|] eqn:E; [eauto|].
  exfalso. exact (max_fold_not_none l b E).
Qed.

Lemma filter_length_bound {A} (f : A -> bool) l : length (filter f l) <= length l.
Proof. induction l as [|x l IH]; simpl; [lia|]. destruct (f x); simpl; lia. Qed.

Lemma filter_length_ge1 {A} (f : A -> bool) l :
  1 <= length (filter f l) <-> exists i x, nth_error l i = Some x /\ f x = true.
Proof.
  induction l as [|y l IH]; simpl.
  - split; [lia|]. intros (i & x & H & _). destruct i; discriminate.
  - split.
    + intros H. destruct (f y) eqn:E.
      * exists 0, y. split; [reflexivity|exact E].
      * apply IH in H as (i & x & H1 & H2). exists (S i), x. split; assumption.
    + intros (i & x & H1 & H2). destruct i as [|i]; simpl in H1.
      * inversion H1; subst. rewrite H2. simpl. lia.
      * assert (1 <= length (filter f l)) as H by (apply IH; eauto).
        destruct (f y); simpl; lia.
Qed.

Lemma filter_length_ge2 {A} (f : A -> bool) l :
  2 <= length (filter f l) <->
  exists i j x y, i < j /\ nth_error l i = Some x /\ nth_error l j = Some y /\
                  f x = true /\ f y = true.
Proof.
  induction l as [|z l IH]; simpl.
  - split; [lia|]. intros (i & j & x & y & _ & H & _). destruct i; discriminate.
  - split.
    + intros H. destruct (f z) eqn:E.
      * simpl in H. assert (1 <= length (filter f l)) as H1 by lia.
        apply filter_length_ge1 in H1 as (j & y & Hj & Hy).
        exists 0, (S j), z, y. repeat split; try assumption. lia.
      * apply IH in H as (i & j & x & y & Hij & Hi & Hj & Hx & Hy).
        exists (S i), (S j), x, y. repeat split; try assumption. lia.
    + intros (i & j & x & y & Hij & Hi & Hj & Hx & Hy).
      destruct j as [|j]; [lia|]. simpl in Hj. destruct i as [|i]; simpl in Hi.
      * inversion Hi; subst. rewrite Hx. simpl.
        assert (1 <= length (filter f l)) by (apply filter_length_ge1; eauto). lia.
      * assert (2 <= length (filter f l)) as H.
        { apply IH. exists i, j, x, y. repeat split; try assumption. lia. }
        destruct (f z); simpl; lia.
Qed.

Lemma filter_nonempty_in {A} (f : A -> bool) l :
  1 <= length (filter f l) -> exists x, In x l /\ f x = true.
Proof.
  intros H. destruct (filter f l) as [|x r] eqn:E; [simpl in H; lia|].
  assert (In x (filter f l)) as Hin by (rewrite E; left; reflexivity).
  apply filter_In in Hin. eauto.
Qed.

Lemma sym_eqb_sym x y : sym_eqb x y = sym_eqb y x.
Proof.
  destruct (sym_eqb_spec x y) as [->|Hn]; [symmetry; apply sym_eqb_refl|].
  destruct (sym_eqb_spec y x) as [->|_]; [congruence|reflexivity].
Qed.

Lemma syms_eqb_sym x y : syms_eqb x y = syms_eqb y x.
Proof.
  destruct (syms_eqb x y) eqn:E1, (syms_eqb y x) eqn:E2; try reflexivity.
  - apply syms_eqb_eq in E1. subst. rewrite (proj2 (syms_eqb_eq y y) eq_refl) in E2. discriminate.
  - apply syms_eqb_eq in E2. subst. rewrite (proj2 (syms_eqb_eq x x) eq_refl) in E1. discriminate.
Qed.

Lemma firstn_len_app {A} (k b : list A) : firstn (length k) (k ++ b) = k.
Proof. induction k as [|x k IH]; simpl; [reflexivity|]. f_equal. exact IH. Qed.

Lemma skipn_len_app {A} (k b : list A) : skipn (length k) (k ++ b) = b.
Proof. induction k as [|x k IH]; simpl; [reflexivity|exact IH]. Qed.

(** ** Prefix test *)

Lemma no_prefix_false k x : no_prefix k x = false <-> exists b, x = k ++ b.
Proof.
  unfold no_prefix. split.
  - intros H. apply orb_false_elim in H as [H1 H2].
    apply negb_false_iff in H2. apply syms_eqb_eq in H2.
    exists (skipn (length k) x). rewrite <- H2 at 1. symmetry. apply firstn_skipn.
  - intros (b & ->). rewrite firstn_len_app, app_length.
    rewrite (proj2 (syms_eqb_eq k k) eq_refl). simpl.
    destruct (Nat.ltb_spec (length k + length b) (length k)); [lia|reflexivity].
Qed.

Lemma no_prefix_false_skipn k x : no_prefix k x = false -> x = k ++ skipn (length k) x.
Proof.
  intros H. destruct (proj1 (no_prefix_false k x) H) as (b & ->).
  rewrite skipn_len_app. reflexivity.
Qed.

(** Number of candidates having [k] as a prefix. *)
Definition cnt (k : list sym) (c : list (list sym)) : nat :=
  length (filter (fun x => negb (no_prefix k x)) c).

Lemma count_eq_cands k c : count_eq k (cands c (length k)) = cnt k c.
Proof.
  unfold count_eq, cands, cnt. induction c as [|x c IH]; simpl; [reflexivity|].
  unfold no_prefix at 1. rewrite (syms_eqb_sym (firstn (length k) x) k).
  destruct (Nat.leb_spec (length k) (length x)) as [Hle|Hgt];
    destruct (Nat.ltb_spec (length x) (length k)) as [Hlt|Hge]; try lia; simpl.
  - rewrite negb_involutive. destruct (syms_eqb k (firstn (length k) x)); simpl; rewrite IH; reflexivity.
  - exact IH.
Qed.

Lemma in_cands_length k c n : In k (cands c n) -> length k = n.
Proof.
  unfold cands. intros H. apply in_map_iff in H as (x & <- & Hx).
  apply filter_In in Hx as [_ Hx]. apply Nat.leb_le in Hx. apply firstn_length_le. exact Hx.
Qed.

(** ** The inner [find_prefix(candidates, n)] *)

(** Soundness: a non-empty result has length [n] and is a prefix of at least two candidates. *)
Lemma fp_sound ordn c n p : fp ordn c n = p -> p <> [] -> length p = n /\ 2 <= cnt p c.
Proof.
  unfold fp. intros H Hne.
  destruct (length (cands c n) <? 2); [congruence|].
  destruct (max_by_count _) as [[k v]|] eqn:E; [|congruence].
  destruct (Nat.ltb_spec 1 v) as [Hv|Hv]; [|congruence]. subst p.
  apply max_by_count_spec in E as [Hin _].
  apply in_sort_by in Hin. apply in_map_iff in Hin as (k' & Hk & Hin). inversion Hk; subst k' v.
  apply (proj1 (in_dedup _ _ syms_eqb_eq _ _)) in Hin.
  assert (length k = n) as Hl by (eapply in_cands_length; exact Hin).
  split; [exact Hl|]. rewrite <- count_eq_cands, Hl. lia.
Qed.

(** Completeness: if some length-[n] prefix is shared by two candidates, the result is non-empty,
    whatever the hash order. *)
Lemma fp_complete ordn c n k :
  1 <= n -> length k = n -> 2 <= cnt k c -> fp ordn c n <> [].
Proof.
  intros Hn Hl Hc. rewrite <- count_eq_cands, Hl in Hc. unfold fp.
  assert (2 <= length (cands c n)) as Hlen.
  { unfold count_eq in Hc. pose proof (filter_length_bound (syms_eqb k) (cands c n)). lia. }
  destruct (Nat.ltb_spec (length (cands c n)) 2) as [Hlt|_]; [lia|].
  assert (In k (cands c n)) as Hin.
  { unfold count_eq in Hc. destruct (filter_nonempty_in (syms_eqb k) (cands c n)) as (x & Hx & E); [lia|].
    apply syms_eqb_eq in E. subst x. exact Hx. }
  set (groups := map (fun k0 => (k0, count_eq k0 (cands c n))) (dedup syms_eqb (cands c n))).
  assert (In (k, count_eq k (cands c n)) groups) as Hg.
  { unfold groups. apply in_map_iff. exists k. split; [reflexivity|].
    apply (proj2 (in_dedup _ _ syms_eqb_eq _ _)). exact Hin. }
  set (sorted := sort_by (fun kv => ordn (fst kv)) groups).
  assert (In (k, count_eq k (cands c n)) sorted) as Hs by (apply in_sort_by; exact Hg).
  destruct (max_by_count_some sorted) as ([k' v'] & E).
  { intros E. rewrite E in Hs. exact Hs. }
  rewrite E. apply max_by_count_spec in E as [Hin' Hmax].
  specialize (Hmax _ Hs). simpl in Hmax.
  destruct (Nat.ltb_spec 1 v') as [_|Hv]; [|lia].
  apply in_sort_by in Hin'. apply in_map_iff in Hin' as (k'' & Hk & Hin'). inversion Hk; subst k'' v'.
  apply (proj1 (in_dedup _ _ syms_eqb_eq _ _)) in Hin'. apply in_cands_length in Hin'.
  intros ->. simpl in Hin'. lia.
Qed.

Lemma maxlen_ge c x : In x c -> length x <= maxlen c.
Proof.
  induction c as [|y c IH]; simpl; intros H; [contradiction|].
  destruct H as [->|H]; [lia|]. specialize (IH H). lia.
Qed.

Lemma fp_nonempty_maxlen ordn c n : fp ordn c n <> [] -> n <= maxlen c.
Proof.
  intros H. destruct (fp_sound ordn c n _ eq_refl H) as [Hl Hc].
  unfold cnt in Hc.
  destruct (filter_nonempty_in (fun x => negb (no_prefix (fp ordn c n) x)) c) as (x & Hx & E); [lia|].
  apply negb_true_iff in E. apply no_prefix_false in E as (b & ->).
  apply maxlen_ge in Hx. rewrite app_length in Hx. lia.
Qed.

(** ** [find_longest_prefix] *)

Lemma flp_sound ord fuel : forall c n p,
  flp ord fuel c n = Some p -> p <> [] -> exists n', fp (ord n') c n' = p.
Proof.
  induction fuel as [|f IH]; intros c n p H Hne; simpl in H.
  - destruct (fp (ord n) c n) as [|s1 p1] eqn:E1; destruct (fp (ord (S n)) c (S n)) as [|s2 p2] eqn:E2;
      inversion H; subst; try congruence. eauto.
  - destruct (fp (ord n) c n) as [|s1 p1] eqn:E1; destruct (fp (ord (S n)) c (S n)) as [|s2 p2] eqn:E2.
    + inversion H; subst. congruence.
    + destruct (flp ord f c (S (S n))) as [[|s3 p3]|] eqn:E3; inversion H; subst; eauto;
        try (eapply IH; [exact E3|discriminate]).
    + inversion H; subst. eauto.
    + destruct (flp ord f c (S (S n))) as [[|s3 p3]|] eqn:E3; inversion H; subst; eauto;
        try (eapply IH; [exact E3|discriminate]).
Qed.

(** An empty result means the probe at the start length was empty: nothing is missed. *)
Lemma flp_empty ord fuel c n : flp ord fuel c n = Some [] -> fp (ord n) c n = [].
Proof.
  destruct fuel as [|f]; simpl; intros H.
  - destruct (fp (ord n) c n) as [|s1 p1]; [reflexivity|].
    destruct (fp (ord (S n)) c (S n)); discriminate.
  - destruct (fp (ord n) c n) as [|s1 p1]; [reflexivity|].
    destruct (fp (ord (S n)) c (S n)) as [|s2 p2]; [discriminate|].
    destruct (flp ord f c (S (S n))) as [[|s3 p3]|]; discriminate.
Qed.

Lemma flp_total ord fuel : forall c n, maxlen c <= n + 2 * fuel -> flp ord fuel c n <> None.
Proof.
  induction fuel as [|f IH]; intros c n Hm; simpl.
  - destruct (fp (ord (S n)) c (S n)) as [|s2 p2] eqn:E2.
    + destruct (fp (ord n) c n); discriminate.
    + assert (S n <= maxlen c) by (apply (fp_nonempty_maxlen (ord (S n))); rewrite E2; discriminate).
      lia.
  - destruct (fp (ord n) c n) as [|s1 p1]; destruct (fp (ord (S n)) c (S n)) as [|s2 p2];
      try discriminate;
      (assert (flp ord f c (S (S n)) <> None) as Hn by (apply IH; lia);
       destruct (flp ord f c (S (S n))) as [[|s3 p3]|]; [discriminate|discriminate|congruence]).
Qed.

(** ** The outer [find_prefix] *)

Lemma find_prefix_total ord c : exists p, find_prefix ord c = Some p.
Proof.
  unfold find_prefix. destruct (flp ord (S (maxlen c)) c 1) as [p|] eqn:E; [eauto|].
  exfalso. apply (flp_total ord (S (maxlen c)) c 1); [lia|exact E].
Qed.

Lemma find_prefix_sound ord c p :
  find_prefix ord c = Some p -> p <> [] -> 2 <= cnt p c.
Proof.
  intros H Hne. destruct (flp_sound _ _ _ _ _ H Hne) as (n' & E).
  apply (fp_sound _ _ _ _ E Hne).
Qed.

(** The prefix-length probing cannot miss a shared first symbol. *)
Lemma find_prefix_empty ord c s : find_prefix ord c = Some [] -> cnt [s] c <= 1.
Proof.
  intros H. apply flp_empty in H.
  destruct (le_lt_dec (cnt [s] c) 1) as [Hle|Hgt]; [exact Hle|].
  exfalso. apply (fp_complete (ord 1) c 1 [s]); [lia|reflexivity|lia|exact H].
Qed.

(** ** One factoring step *)

(** The result of factoring prefix [α] out of the rules of [a] with suffix non-terminal [a'],
    up to the position at which [apply_rule_transformation] re-inserts the rules. *)
Definition lf_step (pr : list prod) (a : N) (α : list sym) (a' : N) : list prod :=
  (mkProd a (α ++ [NT a']) :: map (factor_out_rule a' α) (rules_of pr a)) ++ others pr a.

Lemma in_rhs_nts a r : In a (rhs_nts r) <-> In (NT a) r.
Proof.
  unfold rhs_nts. rewrite in_flat_map. split.
  - intros ([t|b] & Hs & H); simpl in H; [contradiction|]. destruct H as [->|[]]. exact Hs.
  - intros H. exists (NT a). split; [exact H|left; reflexivity].
Qed.

Lemma in_pr_nts b pr :
  In b (pr_nts pr) <-> exists p, In p pr /\ (lhs p = b \/ In (NT b) (rhs p)).
Proof.
  unfold pr_nts. rewrite in_flat_map. split.
  - intros (p & Hp & [H|H]); exists p; split; auto. right. apply in_rhs_nts. exact H.
  - intros (p & Hp & [H|H]); exists p; split; auto; [left; exact H|].
    right. apply in_rhs_nts. exact H.
Qed.

Lemma in_rules_of pr a p : In p (rules_of pr a) <-> In p pr /\ lhs p = a.
Proof. unfold rules_of. rewrite filter_In, N.eqb_eq. tauto. Qed.

Lemma in_others pr a p : In p (others pr a) <-> In p pr /\ lhs p <> a.
Proof. unfold others. rewrite filter_In, negb_true_iff, N.eqb_neq. tauto. Qed.

Lemma in_lf_step pr a α a' p :
  In p (lf_step pr a α a') <->
  p = mkProd a (α ++ [NT a']) \/
  (exists r, In r pr /\ lhs r = a /\ p = factor_out_rule a' α r) \/
  (In p pr /\ lhs p <> a).
Proof.
  unfold lf_step. rewrite in_app_iff. simpl. rewrite in_map_iff, in_others. split.
  - intros [[H|(r & Hr & Hin)]|H]; auto.
    right. left. apply in_rules_of in Hin as [Hin Hl]. exists r. auto.
  - intros [H|[(r & Hin & Hl & Hr)|H]]; auto.
    left. right. exists r. split; [auto|]. apply in_rules_of. auto.
Qed.

Section StepLang.
  Variables (g g' : cfg) (a : N) (α : list sym) (a' : N).
  Hypothesis Hfresh : ~ In a' (pr_nts (prods g)).
  Hypothesis Hα : ~ In (NT a') α.
  Hypothesis Haa : a <> a'.
  Hypothesis Hpr' : forall p, In p (prods g') <-> In p (lf_step (prods g) a α a').

  Lemma old_prod_free p : In p (prods g) -> lhs p <> a' /\ ~ In (NT a') (rhs p).
  Proof.
    intros Hp. split; intros H; apply Hfresh; apply in_pr_nts; exists p; auto.
  Qed.

  Lemma step_fwd γ w : derives g γ w -> derives g' γ w.
  Proof.
    induction 1 as [|t γ w H IH|b p γ u v Hin Hl Hr IHr Ha IHa].
    - constructor.
    - constructor. exact IH.
    - destruct (N.eq_dec b a) as [->|Hne].
      + destruct (no_prefix α (rhs p)) eqn:E.
        * apply d_NT with (p := p); auto. apply Hpr', in_lf_step. right. left.
          exists p. repeat split; auto. unfold factor_out_rule. rewrite E. reflexivity.
        * pose proof (no_prefix_false_skipn _ _ E) as Hs.
          rewrite Hs in IHr. apply derives_app_inv in IHr as (u1 & u2 & -> & Hu1 & Hu2).
          assert (derives g' [NT a'] u2) as Ha'.
          { apply derives_single. exists (factor_out_rule a' α p). split; [|split].
            - apply Hpr', in_lf_step. right. left. exists p. auto.
            - unfold factor_out_rule. rewrite E. reflexivity.
            - unfold factor_out_rule. rewrite E. exact Hu2. }
          apply d_NT with (p := mkProd a (α ++ [NT a'])); auto.
          -- apply Hpr', in_lf_step. left. reflexivity.
          -- simpl. apply derives_app; assumption.
      + apply d_NT with (p := p); auto. apply Hpr', in_lf_step. right. right. split; congruence.
  Qed.

  Lemma step_bwd γ w : derives g' γ w ->
    (~ In (NT a') γ -> derives g γ w) /\
    (forall δ, γ = δ ++ [NT a'] -> ~ In (NT a') δ ->
       exists r β, In r (prods g) /\ lhs r = a /\ rhs r = α ++ β /\ derives g (δ ++ β) w).
  Proof.
    induction 1 as [|t γ w H IH|b p γ u v Hin Hl Hr IHr Ha IHa].
    - split; [intros _; constructor|]. intros δ H _. destruct δ; discriminate.
    - destruct IH as [IH1 IH2]. split.
      + intros Hf. constructor. apply IH1. intros Hi. apply Hf. right. exact Hi.
      + intros δ E Hf. destruct δ as [|d δ]; simpl in E; [discriminate|].
        inversion E; subst d γ.
        destruct (IH2 δ eq_refl) as (r & β & H1 & H2 & H3 & H4).
        { intros Hi. apply Hf. right. exact Hi. }
        exists r, β. repeat split; auto. simpl. constructor. exact H4.
    - destruct IHr as [IHr1 IHr2]. destruct IHa as [IHa1 IHa2].
      assert (b <> a' -> derives g [NT b] u) as K.
      { intros Hb. apply Hpr', in_lf_step in Hin as [->|[(r & Hrin & Hrl & ->)|[Hpin Hpl]]].
        - simpl in *. destruct (IHr2 α eq_refl Hα) as (r & β & H1 & H2 & H3 & H4).
          apply derives_single. exists r. repeat split; auto; [congruence|]. rewrite H3. exact H4.
        - unfold factor_out_rule in *. destruct (no_prefix α (rhs r)) eqn:E.
          + apply derives_single. exists r. repeat split; auto.
            apply IHr1. apply old_prod_free. exact Hrin.
          + simpl in Hl. congruence.
        - apply derives_single. exists p. repeat split; auto.
          apply IHr1. apply old_prod_free. exact Hpin. }
      split.
      + intros Hf. apply derives_cons_NT. exists u, v. split; [reflexivity|]. split.
        * apply K. intros ->. apply Hf. left. reflexivity.
        * apply IHa1. intros Hi. apply Hf. right. exact Hi.
      + intros δ E Hf. destruct δ as [|d δ]; simpl in E.
        * injection E as -> ->.
          assert (v = []) as -> by (inversion Ha; reflexivity).
          apply Hpr', in_lf_step in Hin as [->|[(r & Hrin & Hrl & ->)|[Hpin Hpl]]].
          -- simpl in Hl. congruence.
          -- unfold factor_out_rule in *. destruct (no_prefix α (rhs r)) eqn:E'.
             ++ congruence.
             ++ simpl in *. pose proof (no_prefix_false_skipn _ _ E') as Hs.
                exists r, (skipn (length α) (rhs r)). repeat split; auto.
                rewrite app_nil_r. apply IHr1.
                intros Hi. apply (proj2 (old_prod_free r Hrin)). rewrite Hs.
                apply in_or_app. right. exact Hi.
          -- exfalso. apply (proj1 (old_prod_free p Hpin)). exact Hl.
        * inversion E; subst d γ.
          destruct (IHa2 δ eq_refl) as (r & β & H1 & H2 & H3 & H4).
          { intros Hi. apply Hf. right. exact Hi. }
          exists r, β. repeat split; auto. simpl. apply derives_cons_NT.
          exists u, v. split; [reflexivity|]. split; [|exact H4].
          apply K. intros ->. apply Hf. left. reflexivity.
  Qed.

  Lemma step_lang_free γ w : ~ In (NT a') γ -> (derives g' γ w <-> derives g γ w).
  Proof.
    intros Hf. split; [|apply step_fwd]. intros H. apply (proj1 (step_bwd _ _ H) Hf).
  Qed.

  Lemma step_lang_new w :
    derives g' [NT a'] w <->
    exists r β, In r (prods g) /\ lhs r = a /\ rhs r = α ++ β /\ derives g β w.
  Proof.
    split.
    - intros H. destruct (proj2 (step_bwd _ _ H) [] eq_refl) as (r & β & H1 & H2 & H3 & H4).
      { intros []. }
      exists r, β. auto.
    - intros (r & β & H1 & H2 & H3 & H4).
      assert (no_prefix α (rhs r) = false) as E by (apply no_prefix_false; eauto).
      apply derives_single. exists (factor_out_rule a' α r). split; [|split].
      + apply Hpr', in_lf_step. right. left. exists r. auto.
      + unfold factor_out_rule. rewrite E. reflexivity.
      + unfold factor_out_rule. rewrite E. simpl. rewrite H3, skipn_len_app.
        apply step_fwd. exact H4.
  Qed.
End StepLang.

(** Non-terminals and left-hand sides after a step. *)
Lemma step_nts pr pr' a α a' r0 β0 :
  In r0 pr -> lhs r0 = a -> rhs r0 = α ++ β0 ->
  (forall p, In p pr' <-> In p (lf_step pr a α a')) ->
  forall b, In b (pr_nts pr') <-> In b (pr_nts pr) \/ b = a'.
Proof.
  intros Hr0 Hl0 Hrhs0 Hpr' b. rewrite !in_pr_nts. split.
  - intros (p & Hp & Hb). apply Hpr', in_lf_step in Hp as [->|[(r & Hrin & Hrl & ->)|[Hpin Hpl]]].
    + simpl in Hb. destruct Hb as [Hb|Hb].
      * left. exists r0. split; [exact Hr0|]. left. congruence.
      * apply in_app_or in Hb as [Hb|[Hb|[]]].
        -- left. exists r0. split; [exact Hr0|]. right. rewrite Hrhs0. apply in_or_app. auto.
        -- right. congruence.
    + unfold factor_out_rule in Hb. destruct (no_prefix α (rhs r)) eqn:E.
      * left. exists r. auto.
      * simpl in Hb. destruct Hb as [Hb|Hb]; [right; congruence|].
        left. exists r. split; [exact Hrin|]. right.
        rewrite (no_prefix_false_skipn _ _ E). apply in_or_app. auto.
    + left. exists p. auto.
  - intros [(p & Hp & Hb)| ->].
    + destruct (N.eq_dec (lhs p) a) as [Hpa|Hpa].
      * destruct (no_prefix α (rhs p)) eqn:E.
        -- exists p. split; [|exact Hb]. apply Hpr', in_lf_step. right. left. exists p.
           repeat split; auto. unfold factor_out_rule. rewrite E. reflexivity.
        -- destruct Hb as [Hb|Hb].
           ++ exists (mkProd a (α ++ [NT a'])). split; [apply Hpr', in_lf_step; auto|].
              left. simpl. congruence.
           ++ rewrite (no_prefix_false_skipn _ _ E) in Hb. apply in_app_or in Hb as [Hb|Hb].
              ** exists (mkProd a (α ++ [NT a'])). split; [apply Hpr', in_lf_step; auto|].
                 right. simpl. apply in_or_app. auto.
              ** exists (factor_out_rule a' α p). split.
                 { apply Hpr', in_lf_step. right. left. exists p. auto. }
                 right. unfold factor_out_rule. rewrite E. exact Hb.
      * exists p. split; [|exact Hb]. apply Hpr', in_lf_step. auto.
    + exists (mkProd a (α ++ [NT a'])). split; [apply Hpr', in_lf_step; auto|].
      right. simpl. apply in_or_app. right. left. reflexivity.
Qed.

Lemma step_lhs pr pr' a α a' r0 :
  In r0 pr -> lhs r0 = a ->
  (forall p, In p pr' <-> In p (lf_step pr a α a')) ->
  forall b, In b (map lhs pr') -> In b (map lhs pr) \/ b = a'.
Proof.
  intros Hr0 Hl0 Hpr' b Hb. apply in_map_iff in Hb as (p & <- & Hp).
  apply Hpr', in_lf_step in Hp as [->|[(r & Hrin & Hrl & ->)|[Hpin Hpl]]].
  - left. apply in_map_iff. exists r0. auto.
  - unfold factor_out_rule. destruct (no_prefix α (rhs r)).
    + left. apply in_map. exact Hrin.
    + right. reflexivity.
  - left. apply in_map. exact Hpin.
Qed.

(** ** The termination measure *)

Lemma sumf_app {A} (f : A -> nat) l1 l2 : sumf f (l1 ++ l2) = sumf f l1 + sumf f l2.
Proof. induction l1 as [|x l1 IH]; simpl; [reflexivity|]. rewrite IH. lia. Qed.

Lemma sumf_perm {A} (f : A -> nat) l1 l2 : Permutation l1 l2 -> sumf f l1 = sumf f l2.
Proof. induction 1; simpl; lia. Qed.

Lemma sumf_ext_in {A} (f h : A -> nat) l : (forall x, In x l -> f x = h x) -> sumf f l = sumf h l.
Proof.
  induction l as [|x l IH]; intros H; simpl; [reflexivity|].
  rewrite (H x (or_introl eq_refl)), IH; [reflexivity|]. intros y Hy. apply H. right. exact Hy.
Qed.

Lemma sumf_le_in {A} (f h : A -> nat) l : (forall x, In x l -> f x <= h x) -> sumf f l <= sumf h l.
Proof.
  induction l as [|x l IH]; intros H; simpl; [lia|].
  pose proof (H x (or_introl eq_refl)).
  assert (sumf f l <= sumf h l) by (apply IH; intros y Hy; apply H; right; exact Hy). lia.
Qed.

Lemma sumf_map {A B} (f : B -> nat) (h : A -> B) l : sumf f (map h l) = sumf (fun x => f (h x)) l.
Proof. induction l as [|x l IH]; simpl; [reflexivity|]. rewrite IH. reflexivity. Qed.

Lemma sumf_add {A} (f h : A -> nat) l : sumf (fun x => f x + h x) l = sumf f l + sumf h l.
Proof. induction l as [|x l IH]; simpl; [reflexivity|]. rewrite IH. lia. Qed.

Lemma sumf_const {A} (k : nat) (l : list A) : sumf (fun _ => k) l = length l * k.
Proof. induction l as [|x l IH]; simpl; [reflexivity|]. rewrite IH. lia. Qed.

Lemma cross_app_l X X' Y : cross (X ++ X') Y = cross X Y + cross X' Y.
Proof. apply sumf_app. Qed.

Lemma cross_app_r X Y Y' : cross X (Y ++ Y') = cross X Y + cross X Y'.
Proof.
  unfold cross. rewrite <- sumf_add. apply sumf_ext_in. intros x _. apply sumf_app.
Qed.

Lemma cross_perm_l X X' Y : Permutation X X' -> cross X Y = cross X' Y.
Proof. apply sumf_perm. Qed.

Lemma cross_perm_r X Y Y' : Permutation Y Y' -> cross X Y = cross X Y'.
Proof. intros H. apply sumf_ext_in. intros x _. apply sumf_perm. exact H. Qed.

Lemma cross_zero X Y : (forall x y, In x X -> In y Y -> lhs x <> lhs y) -> cross X Y = 0.
Proof.
  intros H. unfold cross. rewrite (sumf_ext_in _ (fun _ => 0)).
  - rewrite sumf_const. lia.
  - intros x Hx. rewrite (sumf_ext_in _ (fun _ => 0)).
    + rewrite sumf_const. lia.
    + intros y Hy. unfold plcp. destruct (N.eqb_spec (lhs x) (lhs y)) as [E|_]; [|reflexivity].
      exfalso. exact (H x y Hx Hy E).
Qed.

Lemma lcp_sym x : forall y, lcp x y = lcp y x.
Proof.
  induction x as [|s x IH]; intros [|t y]; simpl; try reflexivity.
  rewrite (sym_eqb_sym t s). destruct (sym_eqb s t); [|reflexivity]. rewrite IH. reflexivity.
Qed.

Lemma plcp_sym p q : plcp p q = plcp q p.
Proof. unfold plcp. rewrite (N.eqb_sym (lhs q)), lcp_sym. reflexivity. Qed.

Lemma cross_cons_r X y Y : cross X (y :: Y) = sumf (fun x => plcp x y) X + cross X Y.
Proof. unfold cross. rewrite <- sumf_add. reflexivity. Qed.

Lemma cross_sym X : forall Y, cross X Y = cross Y X.
Proof.
  induction X as [|x X IH]; intros Y.
  - simpl. symmetry. apply cross_zero. intros ? ? _ [].
  - rewrite cross_cons_r, <- IH. unfold cross at 1. simpl. fold (cross X Y).
    f_equal. apply sumf_ext_in. intros y _. apply plcp_sym.
Qed.

Lemma cross_single_le x X Y : In x X -> cross [x] Y <= cross X Y.
Proof.
  induction X as [|z X IH]; [contradiction|].
  intros H. change (z :: X) with ([z] ++ X). rewrite cross_app_l.
  destruct H as [->|H]; [lia|]. specialize (IH H). lia.
Qed.

Lemma lcp_self x : lcp x x = length x.
Proof. induction x as [|s x IH]; simpl; [reflexivity|]. rewrite sym_eqb_refl, IH. reflexivity. Qed.

Lemma lcp_app_same k x y : lcp (k ++ x) (k ++ y) = length k + lcp x y.
Proof. induction k as [|s k IH]; simpl; [reflexivity|]. rewrite sym_eqb_refl, IH. reflexivity. Qed.

Lemma lcp_no_prefix k : forall y s, (~ exists b, y = k ++ b) -> lcp (k ++ s) y = lcp k y.
Proof.
  induction k as [|t k IH]; intros y s H.
  - exfalso. apply H. exists y. reflexivity.
  - destruct y as [|u y]; simpl; [reflexivity|].
    destruct (sym_eqb_spec t u) as [->|_]; [|reflexivity].
    rewrite IH; [reflexivity|]. intros (b & ->). apply H. exists b. reflexivity.
Qed.

Lemma filter_partition_perm {A} (f : A -> bool) l :
  Permutation l (filter f l ++ filter (fun x => negb (f x)) l).
Proof.
  induction l as [|x l IH]; simpl; [constructor|].
  destruct (f x); simpl.
  - apply perm_skip. exact IH.
  - transitivity (x :: filter f l ++ filter (fun x => negb (f x)) l);
      [apply perm_skip; exact IH|apply Permutation_middle].
Qed.

Lemma filter_map_comm {A B} (f : B -> bool) (h : A -> B) l :
  filter f (map h l) = map h (filter (fun x => f (h x)) l).
Proof.
  induction l as [|x l IH]; simpl; [reflexivity|].
  destruct (f (h x)); simpl; rewrite IH; reflexivity.
Qed.

Section GroupMeasure.
  Variables (a a' : N) (α : list sym).
  Hypothesis Haa : a <> a'.
  Let fac := factor_out_rule a' α.
  Let hasp (r : prod) := negb (no_prefix α (rhs r)).

  Lemma plcp_factored x y :
    lhs x = a -> lhs y = a -> hasp x = true -> hasp y = true ->
    plcp x y = length α + plcp (fac x) (fac y).
  Proof.
    unfold hasp, fac, factor_out_rule. intros Hx Hy Ex Ey.
    apply negb_true_iff in Ex, Ey. rewrite Ex, Ey. unfold plcp. simpl.
    rewrite Hx, Hy, !N.eqb_refl.
    rewrite (no_prefix_false_skipn _ _ Ex) at 1. rewrite (no_prefix_false_skipn _ _ Ey) at 1.
    apply lcp_app_same.
  Qed.

  Lemma cross_factored X Y :
    (forall x, In x X -> lhs x = a /\ hasp x = true) ->
    (forall y, In y Y -> lhs y = a /\ hasp y = true) ->
    cross X Y = length X * length Y * length α + cross (map fac X) (map fac Y).
  Proof.
    intros HX HY. unfold cross. rewrite sumf_map.
    rewrite (sumf_ext_in _ (fun x => length Y * length α + sumf (plcp (fac x)) (map fac Y))).
    - rewrite sumf_add, sumf_const. lia.
    - intros x Hx. destruct (HX x Hx) as [Hxl Hxp]. rewrite sumf_map.
      rewrite (sumf_ext_in _ (fun y => length α + plcp (fac x) (fac y))).
      + rewrite sumf_add, sumf_const. lia.
      + intros y Hy. destruct (HY y Hy) as [Hyl Hyp]. apply plcp_factored; assumption.
  Qed.

  Lemma group_measure R :
    (forall r, In r R -> lhs r = a) -> α <> [] ->
    2 <= length (filter hasp R) ->
    cross (mkProd a (α ++ [NT a']) :: map fac R) (mkProd a (α ++ [NT a']) :: map fac R)
    < cross R R.
  Proof.
    intros HR Hne Hm.
    set (h := mkProd a (α ++ [NT a'])).
    set (R1 := filter hasp R). set (R2 := filter (fun r => negb (hasp r)) R).
    set (F1 := map fac R1).
    assert (Permutation R (R1 ++ R2)) as HP by apply filter_partition_perm.
    assert (forall r, In r R1 -> lhs r = a /\ hasp r = true) as HR1.
    { intros r Hr. apply filter_In in Hr as [Hr E]. split; [apply HR; exact Hr|exact E]. }
    assert (forall r, In r R2 -> lhs r = a /\ no_prefix α (rhs r) = true) as HR2.
    { intros r Hr. apply filter_In in Hr as [Hr E]. split; [apply HR; exact Hr|].
      unfold hasp in E. rewrite negb_involutive in E. exact E. }
    assert (map fac R2 = R2) as HF2.
    { rewrite <- (map_id R2) at 2. apply map_ext_in. intros r Hr.
      unfold fac, factor_out_rule. rewrite (proj2 (HR2 r Hr)). reflexivity. }
    assert (forall x, In x F1 -> lhs x = a') as HF1.
    { intros x Hx. apply in_map_iff in Hx as (r & <- & Hr). destruct (HR1 r Hr) as [_ E].
      unfold hasp in E. apply negb_true_iff in E. unfold fac, factor_out_rule. rewrite E. reflexivity. }
    assert (Permutation (h :: map fac R) ([h] ++ F1 ++ R2)) as HP'.
    { simpl. apply perm_skip. rewrite <- HF2. unfold F1. rewrite <- map_app.
      apply Permutation_map. exact HP. }
    rewrite (cross_perm_l _ _ _ HP'), (cross_perm_r _ _ _ HP').
    rewrite (cross_perm_l _ _ _ HP), (cross_perm_r _ _ _ HP).
    rewrite !cross_app_l, !cross_app_r.
    assert (cross [h] [h] = length α + 1) as E1.
    { unfold cross, plcp. simpl. rewrite N.eqb_refl, lcp_self, app_length. simpl. lia. }
    assert (cross [h] F1 = 0) as E2.
    { apply cross_zero. intros x y [<-|[]] Hy. rewrite (HF1 y Hy). exact Haa. }
    assert (cross F1 [h] = 0) as E3 by (rewrite cross_sym; exact E2).
    assert (cross F1 R2 = 0) as E4.
    { apply cross_zero. intros x y Hx Hy. rewrite (HF1 x Hx), (proj1 (HR2 y Hy)). congruence. }
    assert (cross R2 F1 = 0) as E5 by (rewrite cross_sym; exact E4).
    assert (cross R1 R1 = length R1 * length R1 * length α + cross F1 F1) as E6
        by (apply cross_factored; assumption).
    assert (cross [h] R2 <= cross R1 R2) as E7.
    { destruct (filter_nonempty_in hasp R) as (x0 & Hx0 & Ex0); [lia|].
      assert (In x0 R1) as Hx0' by (apply filter_In; auto).
      pose proof (cross_single_le x0 R1 R2 Hx0') as Hle.
      assert (cross [h] R2 <= cross [x0] R2); [|lia].
      unfold cross. simpl. rewrite !Nat.add_0_r. apply sumf_le_in. intros y Hy.
      destruct (HR2 y Hy) as [Hyl Hyp]. destruct (HR1 x0 Hx0') as [Hxl Hxp].
      unfold hasp in Hxp. apply negb_true_iff in Hxp.
      unfold plcp. simpl. rewrite Hxl, Hyl, N.eqb_refl.
      assert (~ exists b, rhs y = α ++ b) as Hn.
      { intros Hb. apply no_prefix_false in Hb. congruence. }
      rewrite (no_prefix_false_skipn _ _ Hxp).
      rewrite !lcp_no_prefix by exact Hn. lia. }
    assert (cross R2 [h] <= cross R2 R1) as E8.
    { rewrite (cross_sym R2 [h]), (cross_sym R2 R1). exact E7. }
    assert (1 <= length α) as Hα by (destruct α; [congruence|simpl; lia]).
    rewrite E1, E2, E3, E4, E5, E6.
    assert (4 * length α <= length R1 * length R1 * length α) as Hq.
    { apply Nat.mul_le_mono_r. change 4 with (2 * 2). apply Nat.mul_le_mono; exact Hm. }
    lia.
  Qed.
End GroupMeasure.

Lemma cross_disjoint X Y :
  (forall x y, In x X -> In y Y -> lhs x <> lhs y) ->
  cross (X ++ Y) (X ++ Y) = cross X X + cross Y Y.
Proof.
  intros H. rewrite !cross_app_l, !cross_app_r.
  rewrite (cross_zero X Y H), (cross_sym Y X), (cross_zero X Y H). lia.
Qed.

Lemma cnt_rules α R :
  cnt α (map rhs R) = length (filter (fun r => negb (no_prefix α (rhs r))) R).
Proof. unfold cnt. rewrite filter_map_comm, map_length. reflexivity. Qed.

Lemma cnt_witness α pr a :
  1 <= cnt α (map rhs (rules_of pr a)) ->
  exists r β, In r pr /\ lhs r = a /\ rhs r = α ++ β.
Proof.
  rewrite cnt_rules. intros H.
  destruct (filter_nonempty_in _ _ H) as (r & Hr & E).
  apply in_rules_of in Hr as [Hr Hl]. apply negb_true_iff, no_prefix_false in E as (β & E).
  eauto.
Qed.

Lemma step_measure pr a α a' :
  ~ In a' (pr_nts pr) -> α <> [] -> 2 <= cnt α (map rhs (rules_of pr a)) ->
  lf_weight (lf_step pr a α a') < lf_weight pr.
Proof.
  intros Hf Hne Hc. unfold lf_weight.
  destruct (cnt_witness α pr a) as (r0 & β0 & Hr0 & Hl0 & Hrhs0); [lia|].
  assert (a <> a') as Haa.
  { intros <-. apply Hf, in_pr_nts. exists r0. auto. }
  assert (Permutation pr (rules_of pr a ++ others pr a)) as HP by apply filter_partition_perm.
  rewrite (cross_perm_l _ _ _ HP), (cross_perm_r _ _ _ HP).
  unfold lf_step. rewrite !cross_disjoint.
  - assert (cross (mkProd a (α ++ [NT a']) :: map (factor_out_rule a' α) (rules_of pr a))
                  (mkProd a (α ++ [NT a']) :: map (factor_out_rule a' α) (rules_of pr a))
            < cross (rules_of pr a) (rules_of pr a)); [|lia].
    apply group_measure; auto.
    + intros r Hr. apply in_rules_of in Hr. tauto.
    + rewrite <- cnt_rules. exact Hc.
  - intros x y Hx Hy. apply in_rules_of in Hx as [_ Hx]. apply in_others in Hy as [_ Hy]. congruence.
  - intros x y Hx Hy. apply in_others in Hy as [Hy Hya].
    assert (lhs y <> a') as Hya'.
    { intros E. apply Hf, in_pr_nts. exists y. auto. }
    destruct Hx as [<-|Hx]; simpl; [congruence|].
    apply in_map_iff in Hx as (r & <- & Hr). apply in_rules_of in Hr as [_ Hr].
    unfold factor_out_rule. destruct (no_prefix α (rhs r)); simpl; congruence.
Qed.

(** ** Valid steps and sequences of valid steps *)

(** [pr1] results from [pr] by factoring the non-empty prefix [α], shared by at least two
    alternatives of [a], into the suffix non-terminal [a'], which is not a non-terminal of [pr]. *)
Definition valid_step (pr : list prod) (a : N) (α : list sym) (a' : N) (pr1 : list prod) : Prop :=
  α <> [] /\ 2 <= cnt α (map rhs (rules_of pr a)) /\ ~ In a' (pr_nts pr) /\
  Permutation pr1 (lf_step pr a α a').

(** [lf_reach pr news pr']: [pr'] results from [pr] by valid steps introducing the suffix
    non-terminals [news] (in this order). *)
Inductive lf_reach : list prod -> list N -> list prod -> Prop :=
| lr_refl pr : lf_reach pr [] pr
| lr_step pr a α a' pr1 news pr2 :
    valid_step pr a α a' pr1 -> lf_reach pr1 news pr2 -> lf_reach pr (a' :: news) pr2.

Lemma lf_reach_trans pr n1 pr1 : lf_reach pr n1 pr1 ->
  forall n2 pr2, lf_reach pr1 n2 pr2 -> lf_reach pr (n1 ++ n2) pr2.
Proof.
  induction 1 as [pr|pr a α a' pr1 news pr2 Hv _ IH]; intros n2 pr3 H; simpl; [exact H|].
  eapply lr_step; [exact Hv|]. apply IH. exact H.
Qed.

Lemma vs_facts pr a α a' pr1 : valid_step pr a α a' pr1 ->
  exists r0 β0, In r0 pr /\ lhs r0 = a /\ rhs r0 = α ++ β0 /\ a <> a' /\ ~ In (NT a') α /\
                (forall p, In p pr1 <-> In p (lf_step pr a α a')).
Proof.
  intros (Hne & Hc & Hf & HP).
  destruct (cnt_witness α pr a) as (r0 & β0 & Hr0 & Hl0 & Hrhs0); [lia|].
  exists r0, β0. repeat split; auto.
  - intros <-. apply Hf, in_pr_nts. exists r0. auto.
  - intros Hi. apply Hf, in_pr_nts. exists r0. split; [exact Hr0|]. right.
    rewrite Hrhs0. apply in_or_app. auto.
  - apply Permutation_in. exact HP.
  - apply Permutation_in. symmetry. exact HP.
Qed.

(** C10, step lemma: a factoring step keeps the language of every old non-terminal (indeed of
    every non-terminal other than the new one) and gives the new non-terminal the language of
    the factored suffixes. *)
Theorem lf_step_preserves g g' a α a' :
  valid_step (prods g) a α a' (prods g') ->
  (forall b, In b (pr_nts (prods g)) -> forall w, derives g' [NT b] w <-> derives g [NT b] w) /\
  (forall b, b <> a' -> forall w, derives g' [NT b] w <-> derives g [NT b] w) /\
  (forall w, derives g' [NT a'] w <->
             exists r β, In r (prods g) /\ lhs r = a /\ rhs r = α ++ β /\ derives g β w).
Proof.
  intros Hv. pose proof Hv as (_ & _ & Hf & _).
  destruct (vs_facts _ _ _ _ _ Hv) as (r0 & β0 & Hr0 & Hl0 & Hrhs0 & Haa & Hα & Hpr').
  assert (forall b, b <> a' -> forall w, derives g' [NT b] w <-> derives g [NT b] w) as K.
  { intros b Hb w. apply (step_lang_free g g' a α a' Hf Hα Haa Hpr').
    intros [E|[]]. congruence. }
  split; [|split].
  - intros b Hb. apply K. intros ->. exact (Hf Hb).
  - exact K.
  - apply (step_lang_new g g' a α a' Hf Hα Haa Hpr').
Qed.

(** C10, measure: the weight strictly decreases in every step. *)
Theorem lf_measure pr a α a' pr1 :
  valid_step pr a α a' pr1 -> lf_weight pr1 < lf_weight pr.
Proof.
  intros (Hne & Hc & Hf & HP). unfold lf_weight at 1.
  rewrite (cross_perm_l _ _ _ HP), (cross_perm_r _ _ _ HP).
  apply step_measure; assumption.
Qed.

Lemma reach_nts pr news pr' : lf_reach pr news pr' ->
  forall b, In b (pr_nts pr') <-> In b (pr_nts pr) \/ In b news.
Proof.
  induction 1 as [pr|pr a α a' pr1 news pr2 Hv _ IH]; intros b; simpl; [tauto|].
  destruct (vs_facts _ _ _ _ _ Hv) as (r0 & β0 & Hr0 & Hl0 & Hrhs0 & _ & _ & Hpr').
  rewrite IH, (step_nts pr pr1 a α a' r0 β0 Hr0 Hl0 Hrhs0 Hpr'). intuition congruence.
Qed.

Lemma reach_fresh pr news pr' : lf_reach pr news pr' ->
  NoDup news /\ forall b, In b news -> ~ In b (pr_nts pr).
Proof.
  induction 1 as [pr|pr a α a' pr1 news pr2 Hv Hr [IH1 IH2]]; [split; [constructor|intros ? []]|].
  pose proof Hv as (_ & _ & Hf & _).
  destruct (vs_facts _ _ _ _ _ Hv) as (r0 & β0 & Hr0 & Hl0 & Hrhs0 & _ & _ & Hpr').
  pose proof (step_nts pr pr1 a α a' r0 β0 Hr0 Hl0 Hrhs0 Hpr') as Hn.
  split.
  - constructor; [|exact IH1]. intros Hi. apply (IH2 _ Hi). apply Hn. right. reflexivity.
  - intros b [<-|Hb]; [exact Hf|]. intros Hi. apply (IH2 _ Hb). apply Hn. left. exact Hi.
Qed.

Lemma reach_lang pr news pr' : lf_reach pr news pr' ->
  forall s s' b, In b (pr_nts pr) ->
  forall w, derives (mkCfg s' pr') [NT b] w <-> derives (mkCfg s pr) [NT b] w.
Proof.
  induction 1 as [pr|pr a α a' pr1 news pr2 Hv Hr IH]; intros s s' b Hb w.
  - split; apply derives_incl; auto.
  - destruct (vs_facts _ _ _ _ _ Hv) as (r0 & β0 & Hr0 & Hl0 & Hrhs0 & _ & _ & Hpr').
    rewrite (IH s s' b).
    + apply (proj1 (lf_step_preserves (mkCfg s pr) (mkCfg s pr1) a α a' Hv)). exact Hb.
    + apply (step_nts pr pr1 a α a' r0 β0 Hr0 Hl0 Hrhs0 Hpr'). left. exact Hb.
Qed.

Lemma reach_measure pr news pr' : lf_reach pr news pr' ->
  lf_weight pr' + length news <= lf_weight pr.
Proof.
  induction 1 as [pr|pr a α a' pr1 news pr2 Hv Hr IH]; simpl; [lia|].
  pose proof (lf_measure _ _ _ _ _ Hv). lia.
Qed.

Lemma reach_lhs pr news pr' : lf_reach pr news pr' ->
  forall b, In b (map lhs pr') -> In b (map lhs pr) \/ In b news.
Proof.
  induction 1 as [pr|pr a α a' pr1 news pr2 Hv Hr IH]; intros b Hb; [left; exact Hb|].
  destruct (vs_facts _ _ _ _ _ Hv) as (r0 & β0 & Hr0 & Hl0 & Hrhs0 & _ & _ & Hpr').
  destruct (IH b Hb) as [H|H]; [|right; right; exact H].
  destruct (step_lhs pr pr1 a α a' r0 Hr0 Hl0 Hpr' b H) as [H'|H']; [left; exact H'|].
  right. left. congruence.
Qed.

(** ** The model performs valid steps *)

Lemma find_index_some {A} (f : A -> bool) l x :
  In x l -> f x = true -> exists i, find_index f l = Some i.
Proof.
  induction l as [|y l IH]; intros Hin Hf; [contradiction|]. simpl.
  destruct (f y) eqn:E; [eauto|]. destruct Hin as [->|Hin]; [congruence|].
  destruct (IH Hin Hf) as (i & ->). simpl. eauto.
Qed.

Lemma filter_none {A} (f : A -> bool) l : (forall x, In x l -> f x = false) -> filter f l = [].
Proof.
  induction l as [|x l IH]; intros H; simpl; [reflexivity|].
  rewrite (H x (or_introl eq_refl)). apply IH. intros y Hy. apply H. right. exact Hy.
Qed.

Lemma rules_of_others pr a b : b <> a -> rules_of (others pr a) b = rules_of pr b.
Proof.
  intros Hne. unfold rules_of, others. induction pr as [|p pr IH]; simpl; [reflexivity|].
  destruct (N.eqb_spec (lhs p) a) as [E|E]; simpl.
  - destruct (N.eqb_spec (lhs p) b) as [E'|_]; [congruence|exact IH].
  - destruct (N.eqb (lhs p) b); rewrite IH; reflexivity.
Qed.

Section Main.
  Variable fresh : N -> list N -> N.
  Hypothesis fresh_ok : forall a excl, ~ In (fresh a excl) excl.

  Lemma fresh_not_nt a pr : ~ In (fresh a (var_names pr)) (pr_nts pr).
  Proof.
    intros H. apply (fresh_ok a (var_names pr)). unfold var_names.
    apply (proj2 (in_dedup _ _ N.eqb_eq _ _)). exact H.
  Qed.

  Lemma factor_out_prefix_spec m pr a α :
    rules_of pr a <> [] ->
    exists pr1, factor_out_prefix fresh (m, pr) (a, α) = Some (true, pr1) /\
      Permutation pr1 (lf_step pr a α (fresh a (var_names pr))) /\
      (forall b, b <> a -> b <> fresh a (var_names pr) -> rules_of pr1 b = rules_of pr b).
  Proof.
    intros Hne. unfold factor_out_prefix, apply_rule_transformation. simpl.
    unfold lf_step. destruct (rules_of pr a) as [|r0 R] eqn:ER; [congruence|].
    assert (In r0 pr /\ lhs r0 = a) as [Hr0 Hl0].
    { apply in_rules_of. rewrite ER. left. reflexivity. }
    destruct (find_index_some (fun r => N.eqb (lhs r) a) pr r0 Hr0) as (i & ->);
      [apply N.eqb_eq; exact Hl0|].
    unfold mod_factor. rewrite Hl0. set (a' := fresh a (var_names pr)).
    set (new := mkProd a (α ++ [NT a']) :: map (factor_out_rule a' α) (r0 :: R)).
    exists (firstn i (others pr a) ++ new ++ skipn i (others pr a)).
    split; [reflexivity|]. split.
    - rewrite Permutation_app_swap_app, firstn_skipn. reflexivity.
    - intros b Hba Hba'. unfold rules_of at 1. rewrite !filter_app.
      rewrite (filter_none _ new).
      + simpl. rewrite <- filter_app, firstn_skipn. apply rules_of_others. exact Hba.
      + intros x Hx. apply N.eqb_neq. destruct Hx as [<-|Hx]; simpl; [congruence|].
        apply in_map_iff in Hx as (r & <- & Hr).
        assert (lhs r = a) as Hrl.
        { assert (In r (rules_of pr a)) as Hr' by (rewrite ER; exact Hr).
          apply in_rules_of in Hr'. tauto. }
        unfold factor_out_rule. destruct (no_prefix α (rhs r)); simpl; congruence.
  Qed.

  Definition pfx_ok (pr : list prod) (pfx : list (N * list sym)) : Prop :=
    NoDup (map fst pfx) /\
    forall e, In e pfx -> snd e <> [] /\ 2 <= cnt (snd e) (map rhs (rules_of pr (fst e))).

  Lemma cnt_rules_nonempty α pr a : 1 <= cnt α (map rhs (rules_of pr a)) -> rules_of pr a <> [].
  Proof. intros H E. rewrite E in H. unfold cnt in H. simpl in H. lia. Qed.

  Lemma factor_out_all_spec pfx : forall m pr, pfx_ok pr pfx ->
    exists pr' news,
      factor_out_all fresh pfx (m, pr)
      = Some (match pfx with [] => m | _ :: _ => true end, pr') /\
      lf_reach pr news pr' /\ length news = length pfx.
  Proof.
    induction pfx as [|[a α] pfx IH]; intros m pr [Hnd Hok].
    - exists pr, []. repeat split. constructor.
    - destruct (Hok (a, α) (or_introl eq_refl)) as [Hne Hc]. simpl in Hne, Hc.
      destruct (factor_out_prefix_spec m pr a α) as (pr1 & E & HP & Hsame).
      { apply (cnt_rules_nonempty α). lia. }
      set (a' := fresh a (var_names pr)) in *.
      assert (valid_step pr a α a' pr1) as Hv.
      { repeat split; auto. apply fresh_not_nt. }
      destruct (IH true pr1) as (pr' & news & E' & Hr & Hlen).
      { inversion Hnd as [|? ? Hnin Hnd']; subst. split; [exact Hnd'|].
        intros [b β] Hin. destruct (Hok (b, β) (or_intror Hin)) as [Hbne Hbc]. simpl in *.
        split; [exact Hbne|]. rewrite Hsame; [exact Hbc| |].
        - intros ->. apply Hnin. apply in_map_iff. exists (a, β). auto.
        - intros ->. destruct (cnt_witness β pr a') as (r & β1 & Hr & Hl & _); [lia|].
          apply (fresh_not_nt a pr). apply in_pr_nts. exists r. auto. }
      exists pr', (a' :: news). split; [|split].
      + cbn [factor_out_all]. rewrite E. rewrite E'. destruct pfx; reflexivity.
      + eapply lr_step; eassumption.
      + simpl. congruence.
  Qed.

  Variable o : oracle.

  Lemma flps_keys_spec it pr keys : NoDup keys ->
    exists pfx, flps_keys o it pr keys = Some pfx /\ NoDup (map fst pfx) /\
      forall e, In e pfx -> In (fst e) keys /\ snd e <> [] /\
                            2 <= cnt (snd e) (map rhs (rules_of pr (fst e))).
  Proof.
    induction keys as [|a ks IH]; intros Hnd; simpl.
    - exists []. split; [reflexivity|]. split; [constructor|intros ? []].
    - inversion Hnd as [|? ? Hnin Hnd']; subst.
      destruct (IH Hnd') as (r & -> & Hrnd & Hr).
      destruct (find_prefix_total (ord_prefix o it a) (map rhs (rules_of pr a))) as (p & E).
      rewrite E. destruct p as [|s p].
      + exists r. split; [reflexivity|]. split; [exact Hrnd|].
        intros e He. destruct (Hr e He) as (H1 & H2 & H3). auto.
      + exists ((a, s :: p) :: r). split; [reflexivity|]. split.
        * simpl. constructor; [|exact Hrnd]. intros Hi. apply in_map_iff in Hi as (e & He1 & He2).
          destruct (Hr e He2) as (H1 & _). rewrite He1 in H1. exact (Hnin H1).
        * intros e [<-|He]; simpl.
          -- split; [auto|]. split; [discriminate|].
             apply (find_prefix_sound _ _ _ E). discriminate.
          -- destruct (Hr e He) as (H1 & H2 & H3). auto.
  Qed.

  Lemma flps_keys_nil it pr keys : flps_keys o it pr keys = Some [] ->
    forall a, In a keys -> find_prefix (ord_prefix o it a) (map rhs (rules_of pr a)) = Some [].
  Proof.
    induction keys as [|b ks IH]; simpl; intros H a Ha; [contradiction|].
    destruct (find_prefix (ord_prefix o it b) (map rhs (rules_of pr b))) as [p|] eqn:E; [|discriminate].
    destruct (flps_keys o it pr ks) as [r|]; [|discriminate].
    destruct p as [|s p]; [|discriminate]. destruct Ha as [<-|Ha]; [exact E|].
    apply IH; [exact H|exact Ha].
  Qed.

  Lemma group_keys_in ordg pr a : In a (group_keys ordg pr) <-> In a (map lhs pr).
  Proof. unfold group_keys. rewrite in_sort_by. apply (in_dedup _ _ N.eqb_eq). Qed.

  Lemma group_keys_nodup ordg pr : NoDup (group_keys ordg pr).
  Proof.
    unfold group_keys. eapply Permutation_NoDup; [symmetry; apply sort_by_perm|].
    apply (NoDup_dedup _ _ N.eqb_eq).
  Qed.

  Lemma flps_spec it pr :
    exists pfx, find_longest_prefixes o it pr = Some pfx /\ pfx_ok pr pfx.
  Proof.
    unfold find_longest_prefixes.
    destruct (flps_keys_spec it pr _ (group_keys_nodup (ord_groups o it) pr)) as (pfx & E & Hnd & H).
    exists pfx. split; [exact E|]. split; [exact Hnd|].
    intros e He. destruct (H e He) as (_ & H2 & H3). auto.
  Qed.

  Lemma lf_loop_spec fuel : forall it pr pr',
    lf_loop fresh o fuel it pr = Some pr' ->
    exists news it', lf_reach pr news pr' /\ find_longest_prefixes o it' pr' = Some [].
  Proof.
    induction fuel as [|f IH]; intros it pr pr' H; simpl in H; [discriminate|].
    destruct (flps_spec it pr) as (pfx & E & Hok). rewrite E in H.
    destruct (factor_out_all_spec pfx false pr Hok) as (pr1 & news & E1 & Hr & Hlen).
    rewrite E1 in H. destruct pfx as [|e pfx].
    - inversion H; subst pr'. inversion Hr; subst; [|discriminate].
      exists [], it. split; [constructor|exact E].
    - apply IH in H as (news' & it' & Hr' & E').
      exists (news ++ news'), it'. split; [|exact E'].
      eapply lf_reach_trans; eassumption.
  Qed.

  Lemma lf_loop_total fuel : forall it pr,
    lf_weight pr < fuel -> lf_loop fresh o fuel it pr <> None.
  Proof.
    induction fuel as [|f IH]; intros it pr Hlt; [lia|]. simpl.
    destruct (flps_spec it pr) as (pfx & E & Hok). rewrite E.
    destruct (factor_out_all_spec pfx false pr Hok) as (pr1 & news & E1 & Hr & Hlen).
    rewrite E1. destruct pfx as [|e pfx]; [discriminate|].
    apply IH. apply reach_measure in Hr. simpl in Hlen. lia.
  Qed.

  (** ** Main theorems (C10) *)

  Theorem lf_reach_of_left_factor fuel g g' :
    left_factor fresh o fuel g = Some g' ->
    start g' = start g /\
    exists news it, lf_reach (prods g) news (prods g') /\
                    find_longest_prefixes o it (prods g') = Some [].
  Proof.
    unfold left_factor. destruct (lf_loop fresh o fuel 1 (prods g)) as [pr'|] eqn:E; [|discriminate].
    intros H. inversion H; subst g'. simpl. split; [reflexivity|].
    apply (lf_loop_spec _ _ _ _ E).
  Qed.

  (** Termination with the explicit fuel bound [lf_fuel g] (any larger fuel works too). *)
  Theorem lf_terminates_fuel g fuel : lf_fuel g <= fuel -> left_factor fresh o fuel g <> None.
  Proof.
    unfold lf_fuel, left_factor. intros Hf.
    destruct (lf_loop fresh o fuel 1 (prods g)) as [pr'|] eqn:E; [discriminate|].
    exfalso. apply (lf_loop_total fuel 1 (prods g)); [lia|exact E].
  Qed.

  Theorem lf_terminates g : exists fuel, left_factor fresh o fuel g <> None.
  Proof. exists (lf_fuel g). apply lf_terminates_fuel. lia. Qed.

  (** More fuel does not change the result. *)
  Lemma lf_loop_mono fuel : forall it pr pr',
    lf_loop fresh o fuel it pr = Some pr' -> lf_loop fresh o (S fuel) it pr = Some pr'.
  Proof.
    induction fuel as [|f IH]; intros it pr pr' H; [discriminate|].
    remember (S f) as sf. simpl. subst sf. simpl in H.
    destruct (find_longest_prefixes o it pr) as [pfx|]; [|discriminate].
    destruct (factor_out_all fresh pfx (false, pr)) as [[m pr1]|]; [|discriminate].
    destruct m; [|exact H]. apply IH. exact H.
  Qed.

  (** Language preservation for every non-terminal occurring in the productions of [g]. *)
  Theorem lf_preserves_lang fuel g g' :
    left_factor fresh o fuel g = Some g' ->
    start g' = start g /\
    forall a, In a (pr_nts (prods g)) ->
    forall w, derives g' [NT a] w <-> derives g [NT a] w.
  Proof.
    intros H. destruct (lf_reach_of_left_factor _ _ _ H) as (Hs & news & it & Hr & _).
    split; [exact Hs|]. intros a Ha w.
    destruct g as [s pr], g' as [s' pr']. simpl in *.
    apply (reach_lang _ _ _ Hr s s' a Ha w).
  Qed.

  (** ... and for all of [nts g] (the form asked for) when the start symbol occurs in the
      productions, which holds for every grammar parol builds (the start symbol is the
      left-hand side of the first production).  See [lf_start_clash_refuted] below. *)
  Corollary lf_preserves_lang_nts fuel g g' :
    In (start g) (pr_nts (prods g)) ->
    left_factor fresh o fuel g = Some g' ->
    start g' = start g /\
    (forall a, In a (nts g) -> forall w, derives g' [NT a] w <-> derives g [NT a] w) /\
    (forall w, lang g' w <-> lang g w).
  Proof.
    intros Hst H. destruct (lf_preserves_lang _ _ _ H) as [Hs Hl].
    split; [exact Hs|]. split.
    - intros a [<-|Ha]; apply Hl; assumption.
    - intros w. unfold lang. rewrite Hs. apply Hl. exact Hst.
  Qed.

  (** Freshness: the non-terminals of the result are the old ones plus a duplicate-free list
      of new ones, none of which is an old non-terminal; every new production of an old
      non-terminal name belongs to a non-terminal that already had productions. *)
  Theorem lf_fresh fuel g g' :
    left_factor fresh o fuel g = Some g' ->
    exists news,
      lf_reach (prods g) news (prods g') /\
      NoDup news /\
      (forall a, In a news -> ~ In a (pr_nts (prods g))) /\
      (forall b, In b (pr_nts (prods g')) <-> In b (pr_nts (prods g)) \/ In b news) /\
      (forall b, In b (map lhs (prods g')) -> In b (map lhs (prods g)) \/ In b news).
  Proof.
    intros H. destruct (lf_reach_of_left_factor _ _ _ H) as (_ & news & it & Hr & _).
    exists news. destruct (reach_fresh _ _ _ Hr) as [H1 H2].
    repeat split; auto.
    - apply reach_nts. exact Hr.
    - apply reach_nts. exact Hr.
    - apply reach_lhs. exact Hr.
  Qed.
End Main.

(** ** The checkers *)

(** No two alternatives at different positions, of the same non-terminal and with non-empty
    right-hand sides, start with the same symbol. *)
Definition prefix_free (g : cfg) : Prop :=
  forall i j p q, i <> j ->
    nth_error (prods g) i = Some p -> nth_error (prods g) j = Some q ->
    lhs p = lhs q -> rhs p <> [] -> rhs q <> [] -> hd_error (rhs p) <> hd_error (rhs q).

Lemma starts_with_true s r : starts_with s r = true <-> hd_error r = Some s.
Proof.
  destruct r as [|x r]; simpl; [split; discriminate|].
  rewrite sym_eqb_eq. split; congruence.
Qed.

Theorem prefix_free_check_spec g : prefix_free_check g = true <-> prefix_free g.
Proof.
  unfold prefix_free_check, prefix_free. rewrite forallb_forall. split.
  - intros H i j p q Hij Hi Hj Hl Hp Hq Hhd.
    specialize (H p (nth_error_In _ _ Hi)).
    destruct (rhs p) as [|s rp] eqn:Ep; [congruence|]. apply Nat.leb_le in H.
    set (f := fun q0 : prod => N.eqb (lhs q0) (lhs p) && starts_with s (rhs q0)) in H.
    assert (f p = true) as Fp.
    { unfold f. rewrite N.eqb_refl, Ep. simpl. apply sym_eqb_refl. }
    assert (f q = true) as Fq.
    { unfold f. rewrite <- Hl, N.eqb_refl. simpl. apply starts_with_true.
      rewrite <- Hhd. reflexivity. }
    assert (2 <= length (filter f (prods g))); [|lia].
    apply filter_length_ge2.
    destruct (Nat.lt_ge_cases i j) as [Hlt|Hge].
    + exists i, j, p, q. auto.
    + exists j, i, q, p. repeat split; auto. lia.
  - intros H p Hp. destruct (rhs p) as [|s rp] eqn:Ep; [reflexivity|]. apply Nat.leb_le.
    set (f := fun q0 : prod => N.eqb (lhs q0) (lhs p) && starts_with s (rhs q0)).
    destruct (le_lt_dec (length (filter f (prods g))) 1) as [Hle|Hgt]; [exact Hle|].
    exfalso. apply filter_length_ge2 in Hgt as (i & j & x & y & Hij & Hi & Hj & Fx & Fy).
    unfold f in Fx, Fy. apply andb_prop in Fx as [Fx1 Fx2]. apply andb_prop in Fy as [Fy1 Fy2].
    apply N.eqb_eq in Fx1, Fy1. apply starts_with_true in Fx2, Fy2.
    apply (H i j x y); try assumption; try congruence; try lia.
    + intros E. rewrite E in Fx2. discriminate.
    + intros E. rewrite E in Fy2. discriminate.
Qed.

(** The same with [p <> q] as productions (the form of properties.jsonl). *)
Lemma prefix_free_prods_of g : prefix_free g ->
  forall a p q, In p (prods_of g a) -> In q (prods_of g a) -> p <> q ->
  rhs p <> [] -> rhs q <> [] -> hd_error (rhs p) <> hd_error (rhs q).
Proof.
  intros H a p q Hp Hq Hne Hrp Hrq.
  apply in_prods_of in Hp as [Hp Hpl]. apply in_prods_of in Hq as [Hq Hql].
  apply In_nth_error in Hp as (i & Hi). apply In_nth_error in Hq as (j & Hj).
  apply (H i j p q); try assumption; congruence.
Qed.

Lemma memN_true a l : memN a l = true <-> In a l.
Proof.
  unfold memN. rewrite existsb_exists. split.
  - intros (x & Hx & E). apply N.eqb_eq in E. congruence.
  - intros H. exists a. split; [exact H|apply N.eqb_refl].
Qed.

Theorem fresh_check_spec g g' :
  fresh_check g g' = true <->
  forall p, In p (prods g') -> ~ In (lhs p) (map lhs (prods g)) -> ~ In (lhs p) (nts g).
Proof.
  unfold fresh_check. rewrite forallb_forall. split.
  - intros H p Hp Hn Hi. specialize (H p Hp). apply orb_prop in H as [H|H].
    + apply memN_true in H. exact (Hn H).
    + apply negb_true_iff in H. apply memN_true in Hi. congruence.
  - intros H p Hp. destruct (memN (lhs p) (map lhs (prods g))) eqn:E; [reflexivity|]. rewrite orb_false_l.
    apply negb_true_iff. destruct (memN (lhs p) (nts g)) eqn:E'; [|reflexivity].
    exfalso. apply memN_true in E'. apply (H p Hp); [|exact E'].
    intros Hi. apply memN_true in Hi. congruence.
Qed.

Theorem lf_check_spec g g' :
  lf_check g g' = true <->
  start g' = start g /\ prefix_free g' /\
  (forall p, In p (prods g') -> ~ In (lhs p) (map lhs (prods g)) -> ~ In (lhs p) (nts g)).
Proof.
  unfold lf_check. rewrite !andb_true_iff, N.eqb_eq, prefix_free_check_spec, fresh_check_spec.
  tauto.
Qed.

(** ** The result is prefix free *)

Lemma starts_with_no_prefix s x : negb (no_prefix [s] x) = starts_with s x.
Proof.
  unfold no_prefix. destruct x as [|t x]; simpl; [reflexivity|].
  rewrite andb_true_r, negb_involutive. apply sym_eqb_sym.
Qed.

Lemma cnt_starts s pr a :
  cnt [s] (map rhs (rules_of pr a))
  = length (filter (fun q => N.eqb (lhs q) a && starts_with s (rhs q)) pr).
Proof.
  rewrite cnt_rules. unfold rules_of. induction pr as [|p pr IH]; simpl; [reflexivity|].
  destruct (N.eqb (lhs p) a); simpl; [|exact IH].
  rewrite starts_with_no_prefix. destruct (starts_with s (rhs p)); simpl; rewrite IH; reflexivity.
Qed.

Lemma exit_prefix_free o it s pr :
  find_longest_prefixes o it pr = Some [] -> prefix_free_check (mkCfg s pr) = true.
Proof.
  intros H. unfold prefix_free_check. apply forallb_forall. intros p Hp. simpl.
  destruct (rhs p) as [|x r] eqn:E; [reflexivity|]. apply Nat.leb_le.
  rewrite <- cnt_starts. apply (find_prefix_empty (ord_prefix o it (lhs p))).
  apply (flps_keys_nil o it pr _ H). apply group_keys_in. apply in_map. exact Hp.
Qed.

Section Main2.
  Variable fresh : N -> list N -> N.
  Hypothesis fresh_ok : forall a excl, ~ In (fresh a excl) excl.
  Variable o : oracle.

  (** C10: in the result no two non-empty alternatives of one non-terminal begin with the same
      symbol; in particular the [n], [n+1], [n+2] probing of [find_longest_prefix] never
      misses a shared first symbol, whatever the hash order. *)
  Theorem lf_result_prefix_free_check fuel g g' :
    left_factor fresh o fuel g = Some g' -> prefix_free_check g' = true.
  Proof.
    intros H. destruct (lf_reach_of_left_factor fresh fresh_ok o _ _ _ H) as (_ & news & it & _ & E).
    destruct g' as [s' pr']. simpl in E. apply (exit_prefix_free o it). exact E.
  Qed.

  Theorem lf_result_prefix_free_pos fuel g g' :
    left_factor fresh o fuel g = Some g' -> prefix_free g'.
  Proof. intros H. apply prefix_free_check_spec. eapply lf_result_prefix_free_check. exact H. Qed.

  Theorem lf_result_prefix_free fuel g g' :
    left_factor fresh o fuel g = Some g' ->
    forall a p q, In p (prods_of g' a) -> In q (prods_of g' a) -> p <> q ->
    rhs p <> [] -> rhs q <> [] -> hd_error (rhs p) <> hd_error (rhs q).
  Proof. intros H. apply prefix_free_prods_of. eapply lf_result_prefix_free_pos. exact H. Qed.

  (** The model's result passes the whole checker. *)
  Theorem lf_model_passes_check fuel g g' :
    In (start g) (pr_nts (prods g)) ->
    left_factor fresh o fuel g = Some g' -> lf_check g g' = true.
  Proof.
    intros Hst H. apply lf_check_spec.
    destruct (lf_reach_of_left_factor fresh fresh_ok o _ _ _ H) as (Hs & _).
    split; [exact Hs|]. split; [eapply lf_result_prefix_free_pos; exact H|].
    destruct (lf_fresh fresh fresh_ok o _ _ _ H) as (news & _ & _ & Hf & _ & Hl).
    intros p Hp Hn [Hi|Hi].
    - destruct (Hl (lhs p) (in_map lhs _ _ Hp)) as [H1|H1]; [exact (Hn H1)|].
      apply (Hf _ H1). rewrite <- Hi. exact Hst.
    - destruct (Hl (lhs p) (in_map lhs _ _ Hp)) as [H1|H1]; [exact (Hn H1)|].
      exact (Hf _ H1 Hi).
  Qed.
End Main2.

(** C24: whatever the hash orders (and name supplies), the resulting LANGUAGE is the same. *)
Theorem lf_order_indep_lang fresh1 fresh2 o1 o2 f1 f2 g g1 g2 :
  (forall a excl, ~ In (fresh1 a excl) excl) -> (forall a excl, ~ In (fresh2 a excl) excl) ->
  left_factor fresh1 o1 f1 g = Some g1 -> left_factor fresh2 o2 f2 g = Some g2 ->
  start g1 = start g2 /\
  forall a, In a (pr_nts (prods g)) -> forall w, derives g1 [NT a] w <-> derives g2 [NT a] w.
Proof.
  intros Hf1 Hf2 H1 H2.
  destruct (lf_preserves_lang fresh1 Hf1 o1 _ _ _ H1) as [Hs1 Hl1].
  destruct (lf_preserves_lang fresh2 Hf2 o2 _ _ _ H2) as [Hs2 Hl2].
  split; [congruence|]. intros a Ha w. rewrite (Hl1 a Ha w), (Hl2 a Ha w). reflexivity.
Qed.

(** ** Concrete instances, examples, refutations *)

Lemma fold_max_ge x l : In x l -> (x <= fold_right N.max 0 l)%N.
Proof.
  induction l as [|y l IH]; intros H; [contradiction|]. simpl.
  destruct H as [->|H]; [lia|]. specialize (IH H). lia.
Qed.

Lemma fresh_max_ok : forall a excl, ~ In (fresh_max a excl) excl.
Proof.
  intros a excl H. unfold fresh_max in H. apply fold_max_ge in H. lia.
Qed.

(** The constant oracle (insertion order) and an oracle that hashes prefixes starting with
    terminal 5 after all others. *)
Definition o_const : oracle := mkOracle (fun _ _ => 0) (fun _ _ _ _ => 0).
Definition o_alt : oracle :=
  mkOracle (fun _ _ => 0) (fun _ _ _ k => match k with T 5%N :: _ => 1 | _ => 0 end).

(** [S: a b c | a b d | a e | f] with S = 0, a..f = 5..10. *)
Definition ex_S : cfg :=
  mkCfg 0 [mkProd 0 [T 5; T 6; T 7]; mkProd 0 [T 5; T 6; T 8]; mkProd 0 [T 5; T 9];
           mkProd 0 [T 10]]%N.

(** [S: a S2 | f;  S2: b S1 | e;  S1: c | d] *)
Definition ex_S_result : cfg :=
  mkCfg 0 [mkProd 0 [T 5; NT 2]; mkProd 2 [T 6; NT 1]; mkProd 2 [T 9]; mkProd 0 [T 10];
           mkProd 1 [T 7]; mkProd 1 [T 8]]%N.

Example ex_S_find_prefix :
  find_prefix (ord_prefix o_const 1 0%N) (map rhs (prods ex_S)) = Some [T 5; T 6]%N.
Proof. vm_compute. reflexivity. Qed.

Example ex_S_fuel : lf_fuel ex_S = 18.
Proof. vm_compute. reflexivity. Qed.

Example ex_S_left_factor : left_factor fresh_max o_const (lf_fuel ex_S) ex_S = Some ex_S_result.
Proof. vm_compute. reflexivity. Qed.

Example ex_S_left_factor_small_fuel : left_factor fresh_max o_const 2 ex_S = None.
Proof. vm_compute. reflexivity. Qed.

Example ex_S_not_prefix_free : prefix_free_check ex_S = false.
Proof. vm_compute. reflexivity. Qed.

Example ex_S_check : lf_check ex_S ex_S_result = true.
Proof. vm_compute. reflexivity. Qed.

Example ex_S_start_occurs : In (start ex_S) (pr_nts (prods ex_S)).
Proof. left. reflexivity. Qed.

(** The first step performed on [ex_S] is a valid step. *)
Example ex_S_valid_step :
  valid_step (prods ex_S) 0%N [T 5; T 6]%N 1%N (lf_step (prods ex_S) 0%N [T 5; T 6]%N 1%N).
Proof.
  split; [discriminate|]. split; [vm_compute; lia|]. split; [|reflexivity].
  vm_compute. intros [H|[H|[H|[H|[]]]]]; discriminate.
Qed.

Example ex_S_lang : forall w, lang ex_S_result w <-> lang ex_S w.
Proof.
  apply (lf_preserves_lang_nts fresh_max fresh_max_ok o_const (lf_fuel ex_S) ex_S ex_S_result
           ex_S_start_occurs ex_S_left_factor).
Qed.

(** D3 witness [A: a b | a c | d e | d f] (A = 0, a = 5, b = 6, c = 7, d = 8, e = 9, f = 10). *)
Definition ex_D3 : cfg :=
  mkCfg 0 [mkProd 0 [T 5; T 6]; mkProd 0 [T 5; T 7]; mkProd 0 [T 8; T 9]; mkProd 0 [T 8; T 10]]%N.

(** C24 / D3: the prefix chosen by [find_prefix] depends on the hash order. *)
Theorem find_prefix_order_refuted :
  exists o1 o2 it a c,
    find_prefix (ord_prefix o1 it a) c = Some [T 8%N] /\
    find_prefix (ord_prefix o2 it a) c = Some [T 5%N].
Proof.
  exists o_const, o_alt, 1, 0%N, (map rhs (prods ex_D3)). split; vm_compute; reflexivity.
Qed.

(** ... and so does the factored grammar (order of productions, and which suffix gets which
    generated name). *)
Theorem lf_order_refuted :
  exists o1 o2 g g1 g2,
    left_factor fresh_max o1 (lf_fuel g) g = Some g1 /\
    left_factor fresh_max o2 (lf_fuel g) g = Some g2 /\ g1 <> g2.
Proof.
  exists o_const, o_alt, ex_D3,
    (mkCfg 0 [mkProd 0 [T 5; NT 2]; mkProd 0 [T 8; NT 1]; mkProd 2 [T 6]; mkProd 2 [T 7];
              mkProd 1 [T 9]; mkProd 1 [T 10]]%N),
    (mkCfg 0 [mkProd 0 [T 8; NT 2]; mkProd 0 [T 5; NT 1]; mkProd 2 [T 9]; mkProd 2 [T 10];
              mkProd 1 [T 6]; mkProd 1 [T 7]]%N).
  split; [vm_compute; reflexivity|]. split; [vm_compute; reflexivity|]. discriminate.
Qed.

(** The exclusion list of [generate_name] is [var_names(pr)], which does not contain a start
    symbol that has no production and occurs on no right-hand side.  A name supply that honours
    its contract may then return the start symbol, and the language of the start symbol changes
    (from empty to non-empty).  Degenerate: parol's start symbol always has productions. *)
Definition fresh_clash (a : N) (excl : list N) : N :=
  if memN 9%N excl then fresh_max a excl else 9%N.

Lemma fresh_clash_ok : forall a excl, ~ In (fresh_clash a excl) excl.
Proof.
  intros a excl. unfold fresh_clash. destruct (memN 9%N excl) eqn:E; [apply fresh_max_ok|].
  intros H. apply memN_true in H. congruence.
Qed.

Theorem lf_start_clash_refuted :
  exists fresh o g g' w,
    (forall a excl, ~ In (fresh a excl) excl) /\
    left_factor fresh o (lf_fuel g) g = Some g' /\ lang g' w /\ ~ lang g w.
Proof.
  exists fresh_clash, o_const, (mkCfg 9 [mkProd 0 [T 5; T 6]; mkProd 0 [T 5; T 7]]%N),
    (mkCfg 9 [mkProd 0 [T 5; NT 9]; mkProd 9 [T 6]; mkProd 9 [T 7]]%N), [6%N].
  split; [exact fresh_clash_ok|]. split; [vm_compute; reflexivity|]. split.
  - unfold lang. simpl. apply derives_single. exists (mkProd 9 [T 6])%N.
    split; [simpl; auto|]. split; [reflexivity|]. simpl. constructor. constructor.
  - unfold lang. simpl. intros H. apply derives_single in H as (p & Hin & Hl & _).
    simpl in Hin. destruct Hin as [<-|[<-|[]]]; discriminate.
Qed.

Print Assumptions lf_step_preserves.
Print Assumptions lf_measure.
Print Assumptions lf_terminates.
Print Assumptions lf_terminates_fuel.
Print Assumptions lf_preserves_lang.
Print Assumptions lf_preserves_lang_nts.
Print Assumptions lf_result_prefix_free.
Print Assumptions lf_result_prefix_free_pos.
Print Assumptions lf_result_prefix_free_check.
Print Assumptions lf_fresh.
Print Assumptions lf_model_passes_check.
Print Assumptions find_prefix_order_refuted.
Print Assumptions lf_order_refuted.
Print Assumptions lf_order_indep_lang.
Print Assumptions lf_start_clash_refuted.
Print Assumptions prefix_free_check_spec.
Print Assumptions fresh_check_spec.
Print Assumptions lf_check_spec.
Print Assumptions find_prefix_empty.
Print Assumptions find_prefix_sound.
Print Assumptions fresh_max_ok.
Print Assumptions ex_S_lang.
