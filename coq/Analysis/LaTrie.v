(** * C07 — Lookahead automata encode exactly the lookahead sets

    Rust: crates/parol/src/analysis/lookahead_dfa.rs ([LookaheadDFA::from_k_tuples],
    [add_transition], [unite], [coin_state]), crates/parol/src/analysis/compiled_la_dfa.rs
    ([CompiledDFA::from_lookahead_dfa]; [minimize] is modelled in Analysis/LaMinimize.v) and
    crates/parol/src/analysis/k_decision.rs ([calculate_lookahead_dfas]).

    Contents
    - §1 specification: lookahead families, [fam_ok] / [fam_okb];
    - §2 the correspondence checker [la_dfa_check] and its soundness (no model is trusted);
    - §3 faithful model of the trie construction, of [unite], of the fold in
         [calculate_lookahead_dfas] and of the conversion [from_lookahead_dfa] (without [minimize]);
    - §4 proofs: [trie_exact], [compile_sorted], [compile_wfd], [compile_depth_*];
    - §5 findings: [unite_overwrites_refuted], [compile_depth_refuted], … *)
From Coq Require Import List NArith ZArith Bool Lia Sorted Arith.
From Parol Require Import Runtime.DfaEval.
Import ListNotations.

Local Open Scope nat_scope.

(* ------------------------------------------------------------------------------------------- *)
(** * §1 Specification *)

(** A lookahead family of one non-terminal: for every production (number) the list of its
    lookahead strings.  Token 0 is the end-of-input token. *)
Definition family := list (Z * list (list N)).

Fixpoint str_eqb (u v : list N) : bool :=
  match u, v with
  | [], [] => true
  | a :: u', b :: v' => N.eqb a b && str_eqb u' v'
  | _, _ => false
  end.

Lemma str_eqb_spec u v : str_eqb u v = true <-> u = v.
Proof.
  revert v. induction u as [|a u IH]; intros [|b v]; cbn [str_eqb]; split; intros H;
    try reflexivity; try discriminate.
  - apply andb_prop in H as [H1 H2]. apply N.eqb_eq in H1. apply IH in H2. subst. reflexivity.
  - inversion H; subst. rewrite N.eqb_refl. apply IH. reflexivity.
Qed.

Lemma str_eq_dec (u v : list N) : u = v \/ u <> v.
Proof.
  destruct (str_eqb u v) eqn:E.
  - left. apply str_eqb_spec. exact E.
  - right. intros H. apply str_eqb_spec in H. congruence.
Qed.

Definition mem_str (u : list N) (l : list (list N)) : bool := existsb (str_eqb u) l.

Lemma mem_str_spec u l : mem_str u l = true <-> In u l.
Proof.
  unfold mem_str. rewrite existsb_exists. split.
  - intros (x & Hx & E). apply str_eqb_spec in E. subst. exact Hx.
  - intros H. exists u. split; [exact H|]. apply str_eqb_spec. reflexivity.
Qed.

Definition strings_of (fam : family) (p : Z) : list (list N) :=
  flat_map (fun e => if Z.eqb (fst e) p then snd e else []) fam.

(** All (production, string) pairs. *)
Definition entries (fam : family) : list (Z * list N) :=
  flat_map (fun e => map (fun u => (fst e, u)) (snd e)) fam.

Lemma in_entries fam p u : In (p, u) (entries fam) <-> In u (strings_of fam p).
Proof.
  unfold entries, strings_of. rewrite !in_flat_map. split.
  - intros (e & He & H). apply in_map_iff in H as (v & E & Hv). inversion E; subst.
    exists e. split; [exact He|]. rewrite Z.eqb_refl. exact Hv.
  - intros (e & He & H). destruct (Z.eqb_spec (fst e) p) as [E|E]; [|destruct H].
    exists e. split; [exact He|]. apply in_map_iff. exists u. subst. auto.
Qed.

Lemma entries_app f1 f2 : entries (f1 ++ f2) = entries f1 ++ entries f2.
Proof. unfold entries. apply flat_map_app. Qed.

Definition prefix (u v : list N) : Prop := exists r, v = u ++ r.

Fixpoint prefixb (u v : list N) : bool :=
  match u, v with
  | [], _ => true
  | a :: u', b :: v' => N.eqb a b && prefixb u' v'
  | _ :: _, [] => false
  end.

Lemma prefixb_spec u v : prefixb u v = true <-> prefix u v.
Proof.
  revert v. induction u as [|a u IH]; intros v; cbn [prefixb].
  - split; [intros _; exists v; reflexivity|reflexivity].
  - destruct v as [|b v].
    + split; [discriminate|]. intros (r & E). discriminate.
    + split.
      * intros H. apply andb_prop in H as [H1 H2]. apply N.eqb_eq in H1. apply IH in H2 as (r & E).
        exists r. subst. reflexivity.
      * intros (r & E). inversion E; subst. rewrite N.eqb_refl. apply IH. exists r. reflexivity.
Qed.

(** End of input (token 0) may only be the last element of a lookahead string. *)
Fixpoint eoi_lastb (u : list N) : bool :=
  match u with
  | [] => true
  | [_] => true
  | a :: u' => negb (N.eqb a 0) && eoi_lastb u'
  end.

Definition eoi_last (u : list N) : Prop := forall a b r, u = a ++ 0%N :: b :: r -> False.

(** Determinism of a family: a string that is a prefix of another string is that very string and
    belongs to the same production.  It comprises (i) disjointness of the productions' sets and
    (ii) prefix-freeness across and within productions.  Note that it also forces: if the empty
    string occurs at all, then nothing else occurs (the single-production case, [k = 0]). *)
Definition fam_det (fam : family) : Prop :=
  (forall e, In e fam -> (0 <= fst e)%Z /\ snd e <> []) /\
  (forall p u q v, In (p, u) (entries fam) -> In (q, v) (entries fam) -> prefix u v ->
                   u = v /\ p = q).

Definition fam_ok (fam : family) : Prop :=
  fam <> [] /\ fam_det fam /\ (forall p u, In (p, u) (entries fam) -> eoi_last u).

Definition fam_detb (fam : family) : bool :=
  forallb (fun e => Z.leb 0 (fst e) && match snd e with [] => false | _ => true end) fam &&
  forallb (fun a => forallb (fun b => negb (prefixb (snd a) (snd b))
                                      || (str_eqb (snd a) (snd b) && Z.eqb (fst a) (fst b)))
                            (entries fam)) (entries fam).

Definition fam_okb (fam : family) : bool :=
  match fam with [] => false | _ => true end &&
  fam_detb fam &&
  forallb (fun a => eoi_lastb (snd a)) (entries fam).

Lemma fam_detb_spec fam : fam_detb fam = true -> fam_det fam.
Proof.
  unfold fam_detb, fam_det. intros H. apply andb_prop in H as [H1 H2]. split.
  - intros e He. rewrite forallb_forall in H1. specialize (H1 e He).
    apply andb_prop in H1 as [A B]. split; [apply Z.leb_le; exact A|].
    destruct (snd e); [discriminate|discriminate].
  - intros p u q v Hu Hv Hp. rewrite forallb_forall in H2. specialize (H2 _ Hu).
    rewrite forallb_forall in H2. specialize (H2 _ Hv). cbn [fst snd] in H2.
    apply prefixb_spec in Hp. rewrite Hp in H2. cbn [negb orb] in H2.
    apply andb_prop in H2 as [A B]. apply str_eqb_spec in A. apply Z.eqb_eq in B. auto.
Qed.

Lemma eoi_lastb_spec u : eoi_lastb u = true -> eoi_last u.
Proof.
  induction u as [|x u IH]; intros H a b r E.
  - destruct a; discriminate.
  - destruct u as [|y u]; [destruct a as [|? [|? ?]]; discriminate|].
    change (negb (N.eqb x 0) && eoi_lastb (y :: u) = true) in H.
    apply andb_prop in H as [H1 H2]. destruct a as [|x' a].
    + inversion E; subst. discriminate.
    + inversion E; subst. apply (IH H2 a b r). assumption.
Qed.

Lemma fam_okb_spec fam : fam_okb fam = true -> fam_ok fam.
Proof.
  unfold fam_okb, fam_ok. intros H. apply andb_prop in H as [H H3]. apply andb_prop in H as [H1 H2].
  split; [destruct fam; [discriminate|discriminate]|]. split; [apply fam_detb_spec; exact H2|].
  intros p u Hu. rewrite forallb_forall in H3. apply eoi_lastb_spec. apply (H3 _ Hu).
Qed.

Definition max_len (ss : list (list N)) : nat := fold_right (fun u m => Nat.max (length u) m) 0 ss.

Definition fam_max_len (fam : family) : nat := max_len (map snd (entries fam)).

Lemma max_len_ge ss u : In u ss -> length u <= max_len ss.
Proof.
  induction ss as [|v ss IH]; intros H; [destruct H|]. cbn [max_len fold_right].
  destruct H as [->|H]; [lia|]. specialize (IH H). unfold max_len in IH. lia.
Qed.

(* ------------------------------------------------------------------------------------------- *)
(** * §2 The correspondence checker

    [la_dfa_check d fam alphabet] is run by the harness on the automaton that the real generator
    emitted ([d]) and on the reference lookahead sets ([fam]).  It does not enumerate strings: it
    checks that (a) every string of the family is accepted with its production, and (b) walks the
    automaton from state 0 along *its own transitions* (depth first, all paths) and checks that
    every accepting state met on the way is met on a string of the family with that production. *)

Definition out_edges (ts : list trans) (s : N) : list trans :=
  filter (fun t => N.eqb (t_from t) s) ts.

(** [w] is the string read so far, [q] the production number of the current state.  Running out
    of fuel while there still are outgoing transitions makes the check fail. *)
Fixpoint dfs (fuel : nat) (ts : list trans) (fam : family) (s : N) (q : Z) (w : list N) : bool :=
  (if valid q then mem_str w (strings_of fam q) else true) &&
  match out_edges ts s with
  | [] => true
  | es =>
      match fuel with
      | O => false
      | S f => forallb (fun t => dfs f ts fam (t_to t) (t_prod t) (w ++ [t_tok t])) es
      end
  end.

(** No two transitions with the same (from-state, terminal). *)
Fixpoint detb (ts : list trans) : bool :=
  match ts with
  | [] => true
  | a :: ts' =>
      forallb (fun b => negb (N.eqb (t_from a) (t_from b) && N.eqb (t_tok a) (t_tok b))) ts'
      && detb ts'
  end.

Definition det (ts : list trans) : Prop :=
  forall a b, In a ts -> In b ts -> t_from a = t_from b -> t_tok a = t_tok b -> a = b.

Definition in_alphabet (alphabet : list N) (c : N) : bool :=
  N.eqb c 0 || existsb (N.eqb c) alphabet.

Definition la_dfa_check (d : dfa) (fam : family) (alphabet : list N) : bool :=
  (* (a) every family string is accepted with its production *)
  forallb (fun e => acceptsb d (snd e) (fst e)) (entries fam) &&
  (* (b) everything accepted is a family string *)
  dfs (S (Nat.max (depth d) (fam_max_len fam))) (transitions d) fam 0%N (prod0 d) [] &&
  (* shape of the table the runtime relies on *)
  detb (transitions d) && sortedb (transitions d) && wfd d &&
  forallb (fun t => in_alphabet alphabet (t_tok t)) (transitions d).

(** The depth ([k]) of the automaton must cover the longest lookahead string, otherwise the
    runtime stops reading tokens before it reaches the accepting state. *)
Definition la_depth_check (d : dfa) (fam : family) : bool := Nat.eqb (depth d) (fam_max_len fam).

Lemma step_in ts s c t : step ts s c = Some t -> In t (out_edges ts s) /\ t_tok t = c.
Proof.
  unfold step, out_edges. intros H. apply find_some in H as [Hin H].
  apply andb_prop in H as [H1 H2]. split; [|apply N.eqb_eq; exact H2].
  apply filter_In. auto.
Qed.

Lemma dfs_sound ts fam : forall fuel s q w,
  dfs fuel ts fam s q w = true ->
  forall u s' p, run ts u s q = Some (s', p) -> valid p = true -> In (w ++ u) (strings_of fam p).
Proof.
  induction fuel as [|f IH]; intros s q w H u s' p R V.
  - cbn [dfs] in H. apply andb_prop in H as [H1 H2]. destruct u as [|c u].
    + cbn [run] in R. inversion R; subst. rewrite V in H1. rewrite app_nil_r.
      apply mem_str_spec. exact H1.
    + cbn [run] in R. destruct (step ts s c) as [t|] eqn:St; [|discriminate].
      apply step_in in St as [Hin _]. destruct (out_edges ts s); [destruct Hin|discriminate].
  - cbn [dfs] in H. apply andb_prop in H as [H1 H2]. destruct u as [|c u].
    + cbn [run] in R. inversion R; subst. rewrite V in H1. rewrite app_nil_r.
      apply mem_str_spec. exact H1.
    + cbn [run] in R. destruct (step ts s c) as [t|] eqn:St; [|discriminate].
      apply step_in in St as [Hin Etok].
      assert (Hall : forallb (fun t => dfs f ts fam (t_to t) (t_prod t) (w ++ [t_tok t]))
                             (out_edges ts s) = true).
      { destruct (out_edges ts s); [destruct Hin|exact H2]. }
      rewrite forallb_forall in Hall. specialize (Hall t Hin).
      specialize (IH _ _ _ Hall u s' p R V). rewrite <- app_assoc in IH. cbn [app] in IH.
      rewrite Etok in IH. exact IH.
Qed.

(** Soundness.  The statement is stronger than the one asked for: there is no bound on the length
    of [u] and no restriction to the alphabet — the strict walk [accepts] consumes all of [u], and
    the depth-first walk has seen every path of the automaton. *)
Theorem la_dfa_check_sound d fam alphabet :
  la_dfa_check d fam alphabet = true ->
  forall u p, accepts d u p <-> In u (strings_of fam p).
Proof.
  unfold la_dfa_check. intros H.
  apply andb_prop in H as [H Halpha]. apply andb_prop in H as [H Hwf].
  apply andb_prop in H as [H Hsorted]. apply andb_prop in H as [H Hdet].
  apply andb_prop in H as [Ha Hb].
  intros u p. split.
  - intros (s & R & V). apply (dfs_sound _ _ _ _ _ _ Hb u s p R V).
  - intros Hin. apply acceptsb_spec. rewrite forallb_forall in Ha.
    apply in_entries in Hin. apply (Ha _ Hin).
Qed.

(** The form asked for (a corollary). *)
Corollary la_dfa_check_sound_bounded d fam alphabet :
  la_dfa_check d fam alphabet = true ->
  forall u p, length u <= depth d -> (accepts d u p <-> In u (strings_of fam p)).
Proof. intros H u p _. apply (la_dfa_check_sound d fam alphabet H). Qed.

Lemma detb_spec ts : detb ts = true -> det ts.
Proof.
  induction ts as [|a ts IH]; intros H x y Hx Hy Ef Et; [destruct Hx|].
  cbn [detb] in H. apply andb_prop in H as [H1 H2]. rewrite forallb_forall in H1.
  destruct Hx as [<-|Hx], Hy as [<-|Hy].
  - reflexivity.
  - specialize (H1 y Hy). rewrite Ef, Et, !N.eqb_refl in H1. discriminate.
  - specialize (H1 x Hx). rewrite <- Ef, <- Et, !N.eqb_refl in H1. discriminate.
  - apply (IH H2); assumption.
Qed.

Theorem la_dfa_check_shape d fam alphabet :
  la_dfa_check d fam alphabet = true ->
  sorted (transitions d) /\ det (transitions d) /\ wfd d = true /\
  (forall t, In t (transitions d) -> t_tok t = 0%N \/ In (t_tok t) alphabet).
Proof.
  unfold la_dfa_check. intros H.
  apply andb_prop in H as [H Halpha]. apply andb_prop in H as [H Hwf].
  apply andb_prop in H as [H Hsorted]. apply andb_prop in H as [H Hdet].
  split; [apply sortedb_spec; assumption|]. split; [apply detb_spec; assumption|].
  split; [assumption|]. intros t Ht. rewrite forallb_forall in Halpha. specialize (Halpha t Ht).
  unfold in_alphabet in Halpha. apply orb_prop in Halpha as [E|E].
  - left. apply N.eqb_eq. exact E.
  - right. apply existsb_exists in E as (x & Hx & E). apply N.eqb_eq in E. subst. exact Hx.
Qed.

(** Together with C08 ([DfaEval.eval_exact]): what the (repaired) runtime predicts on a token
    buffer is a production one of whose lookahead strings is a prefix of the buffer. *)
Corollary la_dfa_check_eval d fam alphabet buf p :
  la_dfa_check d fam alphabet = true ->
  eval d buf = Predict p ->
  exists n, n <= depth d /\ In (firstn n buf) (strings_of fam p).
Proof.
  intros H E. destruct (la_dfa_check_shape _ _ _ H) as (Hs & _ & Hw & _).
  destruct (eval_exact d buf p Hs Hw E) as (n & Hn & Ha). exists n. split; [exact Hn|].
  apply (la_dfa_check_sound _ _ _ H). exact Ha.
Qed.

Theorem la_depth_check_spec d fam :
  la_depth_check d fam = true ->
  (forall p u, In u (strings_of fam p) -> length u <= depth d) /\
  (fam_max_len fam = depth d).
Proof.
  unfold la_depth_check. intros H. apply Nat.eqb_eq in H. split; [|auto].
  intros p u Hu. rewrite H. apply in_entries in Hu. unfold fam_max_len. apply max_len_ge.
  apply in_map_iff. exists (p, u). auto.
Qed.

(** Examples: tokens a=5 b=6 c=7 $=0; family {1: [a $], 2: [a b c]}. *)
Definition ex_fam : family := [ (1%Z, [[5; 0]%N]); (2%Z, [[5; 6; 7]%N]) ].

Example ex_fam_ok : fam_okb ex_fam = true.
Proof. vm_compute. reflexivity. Qed.

Example ex_check_good : la_dfa_check d2_dfa ex_fam [5; 6; 7]%N = true /\ la_depth_check d2_dfa ex_fam = true.
Proof. vm_compute. split; reflexivity. Qed.

(** A wrong automaton (accepts [a c] for production 2 on top) is rejected, … *)
Example ex_check_bad_extra :
  la_dfa_check (mkDfa (-1) [ mkTrans 0 5 1 (-1); mkTrans 1 0 2 1; mkTrans 1 6 3 (-1);
                             mkTrans 1 7 5 2; mkTrans 3 7 4 2 ] 3) ex_fam [5; 6; 7]%N = false.
Proof. vm_compute. reflexivity. Qed.

(** … so is one that lost a string, one that predicts the wrong production, an unsorted one and a
    cyclic one (fuel). *)
Example ex_check_bad_missing :
  la_dfa_check (mkDfa (-1) [ mkTrans 0 5 1 (-1); mkTrans 1 6 3 (-1); mkTrans 3 7 4 2 ] 3)
               ex_fam [5; 6; 7]%N = false.
Proof. vm_compute. reflexivity. Qed.

Example ex_check_bad_prod :
  la_dfa_check (mkDfa (-1) [ mkTrans 0 5 1 (-1); mkTrans 1 0 2 2; mkTrans 1 6 3 (-1); mkTrans 3 7 4 2 ] 3)
               ex_fam [5; 6; 7]%N = false.
Proof. vm_compute. reflexivity. Qed.

Example ex_check_bad_unsorted :
  la_dfa_check (mkDfa (-1) [ mkTrans 0 5 1 (-1); mkTrans 1 6 3 (-1); mkTrans 1 0 2 1; mkTrans 3 7 4 2 ] 3)
               ex_fam [5; 6; 7]%N = false.
Proof. vm_compute. reflexivity. Qed.

Example ex_check_bad_cycle :
  la_dfa_check (mkDfa (-1) [ mkTrans 0 5 1 (-1); mkTrans 1 0 2 1; mkTrans 1 6 3 (-1);
                             mkTrans 3 6 3 (-1); mkTrans 3 7 4 2 ] 3) ex_fam [5; 6; 7]%N = false.
Proof. vm_compute. reflexivity. Qed.

(* ------------------------------------------------------------------------------------------- *)
(** * §3 Faithful model of the generator side *)

Inductive res (A : Type) : Type :=
| Ok (a : A)
| Conflict (p q : Z)   (* unite: bail!("Conflict in union operation detected … p <--> q") *)
| Panic                (* index out of range / unwrap of None *)
| NoAutomaton          (* the non-terminal has no production: no automaton is generated *)
| OutOfFuel.
Arguments Ok {A} a.
Arguments Conflict {A} p q.
Arguments Panic {A}.
Arguments NoAutomaton {A}.
Arguments OutOfFuel {A}.

Definition bind {A B} (x : res A) (f : A -> res B) : res B :=
  match x with
  | Ok a => f a
  | Conflict p q => Conflict p q
  | Panic => Panic
  | NoAutomaton => NoAutomaton
  | OutOfFuel => OutOfFuel
  end.

Fixpoint fold_res {A B} (f : A -> B -> res A) (l : list B) (a : A) : res A :=
  match l with
  | [] => Ok a
  | b :: l' => bind (f a b) (fold_res f l')
  end.

(** [BTreeMap<StateIndex, BTreeMap<TerminalIndex, StateIndex>>]: association lists kept in key
    order (iteration order of a B-tree map), insertion replaces. *)
Definition groups := list (N * list (N * N)).

Fixpoint inner_insert (c t : N) (l : list (N * N)) : list (N * N) :=
  match l with
  | [] => [(c, t)]
  | x :: l' => if N.ltb c (fst x) then (c, t) :: l
               else if N.eqb c (fst x) then (c, t) :: l'
               else x :: inner_insert c t l'
  end.

(** [transitions.get_mut(&from).unwrap().insert(c, t)] if the inner map exists, otherwise
    [transitions.insert(from, {c -> t})]. *)
Fixpoint grp_insert (f c t : N) (gs : groups) : groups :=
  match gs with
  | [] => [(f, [(c, t)])]
  | g :: gs' => if N.ltb f (fst g) then (f, [(c, t)]) :: gs
                else if N.eqb f (fst g) then (fst g, inner_insert c t (snd g)) :: gs'
                else g :: grp_insert f c t gs'
  end.

Definition grp_find (f : N) (gs : groups) : option (N * list (N * N)) :=
  find (fun g => N.eqb (fst g) f) gs.
Definition inner_find (c : N) (l : list (N * N)) : option (N * N) :=
  find (fun e => N.eqb (fst e) c) l.

(** [LookaheadDFA]: [la_states] holds the [prod_num] of state [i] at position [i] (the [id] field
    always equals the index). *)
Record ladfa := mkLa { la_states : list Z; la_trans : groups; la_k : nat }.

Inductive tinfo := NoTransition | OtherTransitions | TransitionExists (s : N).

Definition transition_info (d : ladfa) (from tok : N) : tinfo :=
  match grp_find from (la_trans d) with
  | None => NoTransition
  | Some g => match inner_find tok (snd g) with
              | Some e => TransitionExists (snd e)
              | None => OtherTransitions
              end
  end.

(** [new_state] followed by the insertion of the transition. *)
Definition add_new (d : ladfa) (from tok : N) : ladfa * N :=
  let t := N.of_nat (length (la_states d)) in
  (mkLa (la_states d ++ [INVALID_PROD]) (grp_insert from tok t (la_trans d)) (la_k d), t).

Definition add_transition (d : ladfa) (from tok : N) : ladfa * N :=
  match transition_info d from tok with
  | TransitionExists t => (d, t)
  | OtherTransitions => add_new d from tok
  | NoTransition => add_new d from tok
  end.

Fixpoint add_path (d : ladfa) (s : N) (u : list N) : ladfa * N :=
  match u with
  | [] => (d, s)
  | c :: u' => let (d', s') := add_transition d s c in add_path d' s' u'
  end.

Fixpoint upd_nth {A} (n : nat) (x : A) (l : list A) : option (list A) :=
  match l, n with
  | [], _ => None
  | _ :: l', O => Some (x :: l')
  | y :: l', S n' => match upd_nth n' x l' with Some r => Some (y :: r) | None => None end
  end.

(** [self.states[s].prod_num = p] (also [coin_state]). *)
Definition set_prod (d : ladfa) (s : N) (p : Z) : res ladfa :=
  match upd_nth (N.to_nat s) p (la_states d) with
  | Some st => Ok (mkLa st (la_trans d) (la_k d))
  | None => Panic
  end.

(** Body of the loop of [from_k_tuples] for one k-tuple.  An epsilon/empty tuple is the empty
    string here (no transition is added, [k] is not raised). *)
Definition add_string (p : Z) (d : ladfa) (u : list N) : res ladfa :=
  let (d1, s) := add_path d 0%N u in
  set_prod (mkLa (la_states d1) (la_trans d1) (Nat.max (la_k d1) (length u))) s p.

(** [us] are the k-tuples in the order of [KTuples::sorted()] (the theorems hold for any order). *)
Definition from_k_tuples (us : list (list N)) (p : Z) : res ladfa :=
  fold_res (add_string p) us
           (mkLa [match us with [] => p | _ => INVALID_PROD end] [] 0).

(** ** [unite] *)
Definition smap := list (N * N).   (* state_mapping; never iterated, only get/insert *)
Definition m_get (m : smap) (k : N) : option N :=
  match find (fun e => N.eqb (fst e) k) m with Some e => Some (snd e) | None => None end.

Record ust := mkUst { u_r : ladfa; u_m : smap; u_changed : bool }.

(** Body of the inner loop [for (terminal, to_state) in tr.1]; [rsi] = [result_state_index]. *)
Definition unite_edge (other : ladfa) (rsi : N) (st : ust) (e : N * N) : res ust :=
  let (r1, rs) := add_transition (u_r st) rsi (fst e) in
  let m1 := (snd e, rs) :: u_m st in
  match m_get (u_m st) (snd e) with
  | Some _ => Ok (mkUst r1 m1 (u_changed st))
  | None =>
      match nth_error (la_states other) (N.to_nat (snd e)), nth_error (la_states r1) (N.to_nat rs) with
      | Some op, Some rp =>
          if valid op && valid rp && negb (Z.eqb op rp) then Conflict rp op
          else bind (set_prod r1 rs op) (fun r2 => Ok (mkUst r2 m1 true))
      | _, _ => Panic
      end
  end.

Definition unite_group (other : ladfa) (st : ust) (g : N * list (N * N)) : res ust :=
  match m_get (u_m st) (fst g) with
  | None => Ok st
  | Some rsi => fold_res (unite_edge other rsi) (snd g) st
  end.

Definition unite_pass (other : ladfa) (st : ust) : res ust :=
  fold_res (unite_group other) (la_trans other) st.

Fixpoint unite_loop (fuel : nat) (other : ladfa) (r : ladfa) (m : smap) : res ladfa :=
  match fuel with
  | O => OutOfFuel
  | S f => bind (unite_pass other (mkUst r m false))
                (fun st => if u_changed st then unite_loop f other (u_r st) (u_m st)
                           else Ok (u_r st))
  end.

(** Fuel: every pass that reports a change has mapped at least one more state of [other]. *)
Definition unite (self other : ladfa) : res ladfa :=
  unite_loop (S (length (la_states other))) other self [(0%N, 0%N)].

(** ** [calculate_lookahead_dfas], restricted to the productions of one non-terminal (they are
    visited in ascending production number = the order of [fam]). *)
Fixpoint unite_all (acc : ladfa) (fam : family) : res ladfa :=
  match fam with
  | [] => Ok acc
  | e :: fam' => bind (from_k_tuples (snd e) (fst e))
                      (fun d => bind (unite acc d) (fun a => unite_all a fam'))
  end.

Definition la_of_family (fam : family) : res ladfa :=
  match fam with
  | [] => NoAutomaton
  | e :: fam' => bind (from_k_tuples (snd e) (fst e)) (fun d => unite_all d fam')
  end.

(** ** [CompiledDFA::from_lookahead_dfa], up to (excluding) the call of [minimize] *)
Definition state_prod (d : ladfa) (s : N) : Z :=
  match nth_error (la_states d) (N.to_nat s) with
  | Some p => if valid p then p else INVALID_PROD
  | None => INVALID_PROD
  end.

(** [transitions.sort_by(|a, b| a.term.partial_cmp(&b.term).unwrap())] — stable. *)
Fixpoint ins_term (x : N * N) (l : list (N * N)) : list (N * N) :=
  match l with
  | [] => [x]
  | y :: l' => if N.leb (fst x) (fst y) then x :: l else y :: ins_term x l'
  end.
Definition sort_term (l : list (N * N)) : list (N * N) := fold_right ins_term [] l.

Definition conv_group (d : ladfa) (g : N * list (N * N)) : list trans :=
  map (fun e => mkTrans (fst g) (fst e) (snd e) (state_prod d (snd e))) (sort_term (snd g)).

Definition compile_raw (d : ladfa) : dfa :=
  mkDfa (state_prod d 0%N) (flat_map (conv_group d) (la_trans d)) (la_k d).

(** The un-minimised compiled automaton of a family. *)
Definition compile (fam : family) : res dfa := bind (la_of_family fam) (fun d => Ok (compile_raw d)).

Example ex_compile :
  compile ex_fam = Ok (mkDfa (-1) [ mkTrans 0 5 1 (-1); mkTrans 1 0 2 1; mkTrans 1 6 3 (-1);
                                    mkTrans 3 7 4 2 ] 2).
Proof. vm_compute. reflexivity. Qed.

(* ------------------------------------------------------------------------------------------- *)
(** * §4 Proofs *)

(** ** The nested maps *)
Definition tr_get (gs : groups) (f c : N) : option N :=
  match grp_find f gs with
  | Some g => match inner_find c (snd g) with Some e => Some (snd e) | None => None end
  | None => None
  end.

Definition flat (gs : groups) : list (N * N * N) :=
  flat_map (fun g => map (fun e => (fst g, fst e, snd e)) (snd g)) gs.

Definition gs_sorted (gs : groups) : Prop := StronglySorted (fun a b => (fst a < fst b)%N) gs.

Lemma inner_find_insert c t l c' :
  inner_find c' (inner_insert c t l) = if N.eqb c c' then Some (c, t) else inner_find c' l.
Proof.
  unfold inner_find. induction l as [|x l IH]; cbn [inner_insert find fst].
  - destruct (N.eqb c c'); reflexivity.
  - destruct (N.ltb c (fst x)) eqn:L; [cbn [find fst]; destruct (N.eqb c c'); reflexivity|].
    destruct (N.eqb_spec c (fst x)) as [E|E].
    + cbn [find fst]. destruct (N.eqb_spec c c') as [E'|E']; [reflexivity|].
      destruct (N.eqb_spec (fst x) c') as [E2|E2]; [congruence|reflexivity].
    + cbn [find fst]. rewrite IH. destruct (N.eqb_spec (fst x) c') as [E2|E2]; [|reflexivity].
      destruct (N.eqb_spec c c') as [E'|E']; [congruence|reflexivity].
Qed.

Lemma inner_insert_in c t l x : In x (inner_insert c t l) -> x = (c, t) \/ In x l.
Proof.
  induction l as [|y l IH]; cbn [inner_insert]; intros H.
  - destruct H as [<-|[]]. left. reflexivity.
  - destruct (N.ltb c (fst y)); [destruct H as [<-|H]; [left; reflexivity|right; exact H]|].
    destruct (N.eqb c (fst y)).
    + destruct H as [<-|H]; [left; reflexivity|right; right; exact H].
    + destruct H as [<-|H]; [right; left; reflexivity|].
      destruct (IH H) as [->|H']; [left; reflexivity|right; right; exact H'].
Qed.

Lemma grp_find_none_ge f gs :
  Forall (fun b => (f < fst b)%N) gs -> grp_find f gs = None.
Proof.
  intros H. unfold grp_find. apply find_none_intro. intros x Hx. rewrite Forall_forall in H.
  specialize (H x Hx). apply N.eqb_neq. lia.
Qed.

Lemma grp_find_insert f c t gs f' :
  gs_sorted gs ->
  grp_find f' (grp_insert f c t gs) =
  if N.eqb f f'
  then Some (f, inner_insert c t (match grp_find f gs with Some g => snd g | None => [] end))
  else grp_find f' gs.
Proof.
  unfold grp_find. induction gs as [|g gs IH]; intros Hs.
  - cbn [grp_insert find fst snd inner_insert]. destruct (N.eqb f f'); reflexivity.
  - inversion Hs as [|? ? Hs' Hall]; subst. cbn [grp_insert].
    destruct (N.ltb f (fst g)) eqn:L.
    + apply N.ltb_lt in L.
      assert (G : find (fun g0 => N.eqb (fst g0) f) (g :: gs) = None).
      { apply (grp_find_none_ge f (g :: gs)). constructor; [exact L|].
        rewrite Forall_forall in *. intros b Hb. specialize (Hall b Hb). lia. }
      rewrite G. cbn [find fst snd inner_insert]. destruct (N.eqb f f'); reflexivity.
    + destruct (N.eqb_spec f (fst g)) as [E|E].
      * cbn [find fst snd]. rewrite <- E, N.eqb_refl. destruct (N.eqb f f'); reflexivity.
      * cbn [find fst snd]. assert (N.eqb (fst g) f = false) as -> by (apply N.eqb_neq; congruence).
        rewrite (IH Hs'). destruct (N.eqb_spec f f') as [E'|E'].
        -- subst f'. assert (N.eqb (fst g) f = false) as -> by (apply N.eqb_neq; congruence).
           reflexivity.
        -- reflexivity.
Qed.

Lemma tr_get_insert f c t gs f' c' :
  gs_sorted gs ->
  tr_get (grp_insert f c t gs) f' c' =
  if N.eqb f f' && N.eqb c c' then Some t else tr_get gs f' c'.
Proof.
  intros Hs. unfold tr_get. rewrite (grp_find_insert f c t gs f' Hs).
  destruct (N.eqb_spec f f') as [E|E]; cbn [andb]; [|reflexivity]. subst f'.
  cbn [snd]. rewrite inner_find_insert. destruct (N.eqb c c'); [reflexivity|].
  destruct (grp_find f gs); reflexivity.
Qed.

Lemma grp_insert_forall (R : N -> Prop) f c t gs :
  R f -> Forall (fun b => R (fst b)) gs -> Forall (fun b => R (fst b)) (grp_insert f c t gs).
Proof.
  intros Hf. induction gs as [|g gs IH]; intros H; cbn [grp_insert].
  - constructor; [exact Hf|constructor].
  - inversion H as [|? ? Hg H']; subst. destruct (N.ltb f (fst g)).
    + constructor; [exact Hf|exact H].
    + destruct (N.eqb f (fst g)).
      * constructor; [exact Hg|exact H'].
      * constructor; [exact Hg|apply IH; exact H'].
Qed.

Lemma grp_insert_sorted f c t gs : gs_sorted gs -> gs_sorted (grp_insert f c t gs).
Proof.
  unfold gs_sorted. induction gs as [|g gs IH]; intros Hs; cbn [grp_insert].
  - constructor; constructor.
  - inversion Hs as [|? ? Hs' Hall]; subst. destruct (N.ltb f (fst g)) eqn:L.
    + apply N.ltb_lt in L. constructor; [exact Hs|]. constructor; [exact L|].
      rewrite Forall_forall in *. intros b Hb. specialize (Hall b Hb). cbn [fst]. lia.
    + apply N.ltb_ge in L. destruct (N.eqb_spec f (fst g)) as [E|E].
      * constructor; [exact Hs'|exact Hall].
      * constructor; [apply IH; exact Hs'|].
        apply (grp_insert_forall (fun k => (fst g < k)%N)); [lia|exact Hall].
Qed.

Lemma flat_insert_in f c t gs x :
  In x (flat (grp_insert f c t gs)) -> x = (f, c, t) \/ In x (flat gs).
Proof.
  unfold flat. induction gs as [|g gs IH]; cbn [grp_insert flat_map]; intros H.
  - cbn in H. destruct H as [<-|[]]. left. reflexivity.
  - destruct (N.ltb f (fst g)).
    + cbn [flat_map map fst snd app] in H. destruct H as [<-|H]; [left; reflexivity|right; exact H].
    + destruct (N.eqb_spec f (fst g)) as [E|E].
      * cbn [flat_map fst snd] in H. apply in_app_or in H as [H|H].
        -- apply in_map_iff in H as (e & <- & He). apply inner_insert_in in He as [->|He].
           ++ left. cbn [fst snd]. rewrite E. reflexivity.
           ++ right. apply in_or_app. left. apply in_map_iff. exists e. auto.
        -- right. apply in_or_app. right. exact H.
      * cbn [flat_map] in H. apply in_app_or in H as [H|H].
        -- right. apply in_or_app. left. exact H.
        -- destruct (IH H) as [->|H']; [left; reflexivity|right; apply in_or_app; right; exact H'].
Qed.

Lemma tr_get_in gs f c t : tr_get gs f c = Some t -> In (f, c, t) (flat gs).
Proof.
  unfold tr_get, grp_find, inner_find, flat. intros H.
  destruct (find _ gs) as [g|] eqn:G; [|discriminate].
  destruct (find _ (snd g)) as [e|] eqn:E; [|discriminate]. inversion H; subst.
  apply find_some in G as [Gin Gk]. apply find_some in E as [Ein Ek].
  apply N.eqb_eq in Gk. apply N.eqb_eq in Ek. subst.
  apply in_flat_map. exists g. split; [exact Gin|]. apply in_map_iff. exists e. auto.
Qed.

Lemma flat_in_group gs f c t :
  In (f, c, t) (flat gs) -> exists g, In g gs /\ fst g = f /\ In (c, t) (snd g).
Proof.
  unfold flat. intros H. apply in_flat_map in H as (g & Hg & H).
  apply in_map_iff in H as (e & E & He). inversion E; subst. exists g.
  split; [exact Hg|]. split; [reflexivity|]. destruct e; exact He.
Qed.

(** ** Ghost labelling of states by the string that leads to them *)
Definition npath (paths : list (list N)) (s : N) : option (list N) := nth_error paths (N.to_nat s).

Record tinv (n : nat) (gs : groups) (paths : list (list N)) : Prop := {
  ti_len : length paths = n;
  ti_root : nth_error paths 0 = Some [];
  ti_nodup : NoDup paths;
  ti_sorted : gs_sorted gs;
  ti_sound : forall f c t, In (f, c, t) (flat gs) ->
             exists w, npath paths f = Some w /\ npath paths t = Some (w ++ [c]);
  ti_complete : forall t w c, npath paths t = Some (w ++ [c]) ->
             exists f, npath paths f = Some w /\ tr_get gs f c = Some t }.

Lemma NoDup_snoc {A} (l : list A) x : NoDup l -> ~ In x l -> NoDup (l ++ [x]).
Proof.
  induction l as [|a l IH]; intros Hn Hx; cbn [app].
  - constructor; [intros []|constructor].
  - inversion Hn as [|? ? Ha Hn']; subst. constructor.
    + intros H. apply in_app_or in H as [H|[<-|[]]]; [exact (Ha H)|]. apply Hx. left. reflexivity.
    + apply IH; [exact Hn'|]. intros H. apply Hx. right. exact H.
Qed.

Lemma npath_inj paths a b w :
  NoDup paths -> npath paths a = Some w -> npath paths b = Some w -> a = b.
Proof.
  unfold npath. intros Hn Ha Hb. apply N2Nat.inj.
  apply (proj1 (NoDup_nth_error paths) Hn).
  - apply nth_error_Some. rewrite Ha. discriminate.
  - rewrite Ha, Hb. reflexivity.
Qed.

Lemma npath_app paths e s w : npath paths s = Some w -> npath (paths ++ e) s = Some w.
Proof.
  unfold npath. intros H. rewrite nth_error_app1; [exact H|].
  apply nth_error_Some. rewrite H. discriminate.
Qed.

Lemma npath_lt paths s w : npath paths s = Some w -> N.to_nat s < length paths.
Proof. unfold npath. intros H. apply nth_error_Some. rewrite H. discriminate. Qed.

Lemma npath_in paths s w : npath paths s = Some w -> In w paths.
Proof. unfold npath. apply nth_error_In. Qed.

Lemma in_npath paths w : In w paths -> exists s, npath paths s = Some w.
Proof.
  intros H. apply In_nth_error in H as (n & H). exists (N.of_nat n). unfold npath.
  rewrite Nat2N.id. exact H.
Qed.

Lemma tinv_det n gs paths f c t :
  tinv n gs paths -> In (f, c, t) (flat gs) -> tr_get gs f c = Some t.
Proof.
  intros I H. destruct (ti_sound _ _ _ I _ _ _ H) as (w & Hf & Ht).
  destruct (ti_complete _ _ _ I _ _ _ Ht) as (f' & Hf' & G).
  rewrite (npath_inj _ _ _ _ (ti_nodup _ _ _ I) Hf Hf'). exact G.
Qed.

Lemma transition_info_get d f c :
  transition_info d f c = match tr_get (la_trans d) f c with
                          | Some t => TransitionExists t
                          | None => match grp_find f (la_trans d) with
                                    | Some _ => OtherTransitions | None => NoTransition end
                          end.
Proof.
  unfold transition_info, tr_get. destruct (grp_find f (la_trans d)) as [g|]; [|reflexivity].
  destruct (inner_find c (snd g)); reflexivity.
Qed.

Lemma add_transition_cases d f c :
  (exists t, tr_get (la_trans d) f c = Some t /\ add_transition d f c = (d, t)) \/
  (tr_get (la_trans d) f c = None /\ add_transition d f c = add_new d f c).
Proof.
  unfold add_transition. rewrite transition_info_get.
  destruct (tr_get (la_trans d) f c) as [t|]; [left; eauto|right].
  destruct (grp_find f (la_trans d)); auto.
Qed.

Lemma add_transition_inv d paths f c w d' t :
  tinv (length (la_states d)) (la_trans d) paths -> npath paths f = Some w ->
  add_transition d f c = (d', t) ->
  exists e, tinv (length (la_states d')) (la_trans d') (paths ++ e) /\
            la_states d' = la_states d ++ repeat INVALID_PROD (length e) /\
            la_k d' = la_k d /\
            npath (paths ++ e) t = Some (w ++ [c]) /\
            (forall x, In x e -> x = w ++ [c]).
Proof.
  intros I Hf H. destruct (add_transition_cases d f c) as [(t0 & G & E)|(G & E)]; rewrite E in H.
  - inversion H; subst. exists []. cbn [repeat length]. rewrite !app_nil_r.
    split; [exact I|]. split; [reflexivity|]. split; [reflexivity|]. split; [|intros x []].
    apply tr_get_in in G. destruct (ti_sound _ _ _ I _ _ _ G) as (w' & Hf' & Ht).
    rewrite Hf in Hf'. inversion Hf'; subst. exact Ht.
  - unfold add_new in H. inversion H; subst. clear H. cbn [la_states la_trans la_k].
    exists [w ++ [c]]. cbn [length repeat].
    assert (Hfresh : ~ In (w ++ [c]) paths).
    { intros Hin. apply in_npath in Hin as (t0 & Ht0).
      destruct (ti_complete _ _ _ I _ _ _ Ht0) as (f' & Hf' & G').
      rewrite (npath_inj _ _ _ _ (ti_nodup _ _ _ I) Hf' Hf) in G'. congruence. }
    assert (Hlen := ti_len _ _ _ I).
    assert (Hnew : npath (paths ++ [w ++ [c]]) (N.of_nat (length (la_states d))) = Some (w ++ [c])).
    { unfold npath. rewrite Nat2N.id, <- Hlen, nth_error_app2 by lia.
      rewrite Nat.sub_diag. reflexivity. }
    split; [|split; [reflexivity|split; [reflexivity|split; [exact Hnew|]]]].
    + constructor.
      * rewrite !app_length. cbn [length]. lia.
      * rewrite nth_error_app1; [apply (ti_root _ _ _ I)|].
        apply nth_error_Some. rewrite (ti_root _ _ _ I). discriminate.
      * apply NoDup_snoc; [apply (ti_nodup _ _ _ I)|exact Hfresh].
      * apply grp_insert_sorted. apply (ti_sorted _ _ _ I).
      * intros f' c' t' Hin. apply flat_insert_in in Hin as [E'|Hin].
        -- inversion E'; subst. exists w. split; [apply npath_app; exact Hf|exact Hnew].
        -- destruct (ti_sound _ _ _ I _ _ _ Hin) as (w' & A & B). exists w'.
           split; apply npath_app; assumption.
      * intros t' w' c' Ht'. unfold npath in Ht'.
        destruct (Nat.lt_ge_cases (N.to_nat t') (length paths)) as [L|L].
        -- rewrite nth_error_app1 in Ht' by exact L.
           destruct (ti_complete _ _ _ I _ _ _ Ht') as (f' & Hf' & G'). exists f'.
           split; [apply npath_app; exact Hf'|].
           rewrite tr_get_insert by apply (ti_sorted _ _ _ I).
           destruct (N.eqb_spec f f') as [Ef|Ef]; [|exact G'].
           destruct (N.eqb_spec c c') as [Ec|Ec]; [|exact G']. subst. congruence.
        -- rewrite nth_error_app2 in Ht' by exact L.
           destruct (N.to_nat t' - length paths) as [|k] eqn:Ek; [|destruct k; discriminate].
           cbn in Ht'. inversion Ht' as [E']. apply app_inj_tail in E' as [-> ->].
           exists f. split; [apply npath_app; exact Hf|].
           rewrite tr_get_insert by apply (ti_sorted _ _ _ I).
           rewrite !N.eqb_refl. cbn [andb].
           f_equal. rewrite <- Hlen. apply N2Nat.inj. rewrite Nat2N.id. lia.
    + intros x [<-|[]]. reflexivity.
Qed.

Lemma add_path_inv : forall u d paths s w d' s',
  tinv (length (la_states d)) (la_trans d) paths -> npath paths s = Some w ->
  add_path d s u = (d', s') ->
  exists e, tinv (length (la_states d')) (la_trans d') (paths ++ e) /\
            la_states d' = la_states d ++ repeat INVALID_PROD (length e) /\
            la_k d' = la_k d /\
            npath (paths ++ e) s' = Some (w ++ u) /\
            (forall x, In x e -> exists v r, u = v ++ r /\ x = w ++ v) /\
            (forall v r, u = v ++ r -> In (w ++ v) (paths ++ e)).
Proof.
  induction u as [|c u IH]; intros d paths s w d' s' I Hs H.
  - cbn [add_path] in H. inversion H; subst. exists []. cbn [length repeat]. rewrite !app_nil_r.
    split; [exact I|]. split; [reflexivity|]. split; [reflexivity|]. split; [exact Hs|].
    split; [intros x []|]. intros v r E. symmetry in E. apply app_eq_nil in E as [-> _].
    rewrite app_nil_r. apply (npath_in _ _ _ Hs).
  - cbn [add_path] in H. destruct (add_transition d s c) as [d1 s1] eqn:AT.
    destruct (add_transition_inv _ _ _ _ _ _ _ I Hs AT) as (e1 & I1 & St1 & K1 & P1 & X1).
    destruct (IH _ _ _ _ _ _ I1 P1 H) as (e2 & I2 & St2 & K2 & P2 & X2 & Y2).
    exists (e1 ++ e2). rewrite app_assoc.
    split; [exact I2|]. split.
    { rewrite St2, St1, <- app_assoc, <- repeat_app, app_length. reflexivity. }
    split; [congruence|]. split.
    { rewrite P2, <- app_assoc. reflexivity. }
    split.
    + intros x Hx. apply in_app_or in Hx as [Hx|Hx].
      * exists [c], u. split; [reflexivity|apply X1; exact Hx].
      * destruct (X2 x Hx) as (v & r & -> & ->). exists (c :: v), r.
        split; [reflexivity|]. rewrite <- app_assoc. reflexivity.
    + intros v r E. destruct v as [|c' v].
      * rewrite app_nil_r. apply in_or_app. left. apply in_or_app. left. apply (npath_in _ _ _ Hs).
      * cbn [app] in E. inversion E; subst.
        specialize (Y2 v r eq_refl). rewrite <- app_assoc in Y2. exact Y2.
Qed.

Lemma upd_nth_some {A} (x : A) : forall l n, n < length l ->
  exists l', upd_nth n x l = Some l' /\ length l' = length l /\ nth_error l' n = Some x /\
             forall m, m <> n -> nth_error l' m = nth_error l m.
Proof.
  induction l as [|y l IH]; intros n Hn; [cbn in Hn; lia|]. destruct n as [|n].
  - exists (x :: l). cbn [upd_nth]. split; [reflexivity|]. split; [reflexivity|].
    split; [reflexivity|]. intros [|m] Hm; [lia|reflexivity].
  - cbn [length] in Hn. destruct (IH n ltac:(lia)) as (l' & E & L & HA & HB).
    exists (y :: l'). cbn [upd_nth]. rewrite E. split; [reflexivity|].
    split; [cbn [length]; lia|]. split; [exact HA|]. intros [|m] Hm; [reflexivity|].
    cbn [nth_error]. apply HB. lia.
Qed.

Lemma nth_error_repeat {A} (x y : A) n i : nth_error (repeat x n) i = Some y -> y = x.
Proof. intros H. apply nth_error_In in H. apply repeat_spec in H. exact H. Qed.

(** The labelled language of a trie automaton: pairs (string, production) of accepting states. *)
Definition la_lang (states : list Z) (paths : list (list N)) (w : list N) (q : Z) : Prop :=
  exists s, nth_error paths s = Some w /\ nth_error states s = Some q /\ valid q = true.

Lemma invalid_not_valid : valid INVALID_PROD = false.
Proof. reflexivity. Qed.

Lemma add_string_spec p d paths u :
  tinv (length (la_states d)) (la_trans d) paths -> valid p = true ->
  exists d' e, add_string p d u = Ok d' /\
     tinv (length (la_states d')) (la_trans d') (paths ++ e) /\
     (forall x, In x e -> prefix x u) /\
     (forall x, prefix x u -> In x (paths ++ e)) /\
     (forall w q, la_lang (la_states d') (paths ++ e) w q <->
                  (w = u /\ q = p) \/ (w <> u /\ la_lang (la_states d) paths w q)) /\
     la_k d' = Nat.max (la_k d) (length u).
Proof.
  intros I Vp. unfold add_string. destruct (add_path d 0%N u) as [d1 s] eqn:AP.
  assert (H0 : npath paths 0%N = Some []) by (apply (ti_root _ _ _ I)).
  destruct (add_path_inv _ _ _ _ _ _ _ I H0 AP) as (e & I1 & St1 & K1 & P1 & X1 & Y1).
  cbn [app] in P1. unfold set_prod. cbn [la_states la_trans la_k].
  assert (Hlt : N.to_nat s < length (la_states d1)).
  { rewrite <- (ti_len _ _ _ I1). apply (npath_lt _ _ _ P1). }
  destruct (upd_nth_some p _ _ Hlt) as (st' & E & L & A & B). rewrite E.
  eexists. exists e. split; [reflexivity|]. cbn [la_states la_trans la_k].
  split; [rewrite L; exact I1|]. split.
  { intros x Hx. destruct (X1 x Hx) as (v & r & -> & ->). exists r. reflexivity. }
  split.
  { intros x (r & ->). apply (Y1 x r eq_refl). }
  split; [|rewrite K1; reflexivity].
  assert (Hlenp : length paths = length (la_states d)) by apply (ti_len _ _ _ I).
  intros w q. split.
  - intros (i & Hp & Hq & Vq). destruct (Nat.eq_dec i (N.to_nat s)) as [->|Ne].
    + left. unfold npath in P1. rewrite P1 in Hp. rewrite A in Hq. split; congruence.
    + right. rewrite (B i Ne), St1 in Hq.
      destruct (Nat.lt_ge_cases i (length (la_states d))) as [Li|Li].
      * rewrite nth_error_app1 in Hq by exact Li. rewrite nth_error_app1 in Hp by lia.
        split.
        -- intros ->. apply Ne. apply (proj1 (NoDup_nth_error (paths ++ e)) (ti_nodup _ _ _ I1)).
           ++ rewrite app_length. lia.
           ++ rewrite nth_error_app1 by lia. rewrite Hp. symmetry. exact P1.
        -- exists i. auto.
      * rewrite nth_error_app2 in Hq by exact Li. apply nth_error_repeat in Hq. subst q.
        discriminate.
  - intros [[-> ->]|(Ne & i & Hp & Hq & Vq)].
    + exists (N.to_nat s). split; [exact P1|]. split; [exact A|exact Vp].
    + assert (Li : i < length paths) by (apply nth_error_Some; rewrite Hp; discriminate).
      exists i. split; [rewrite nth_error_app1 by exact Li; exact Hp|]. split; [|exact Vq].
      rewrite B.
      * rewrite St1, nth_error_app1 by lia. exact Hq.
      * intros ->. unfold npath in P1. rewrite nth_error_app1 in P1 by exact Li. congruence.
Qed.

Lemma add_strings_spec p : valid p = true -> forall us d paths,
  tinv (length (la_states d)) (la_trans d) paths ->
  exists d' e, fold_res (add_string p) us d = Ok d' /\
     tinv (length (la_states d')) (la_trans d') (paths ++ e) /\
     (forall x, In x e -> exists v, In v us /\ prefix x v) /\
     (forall v x, In v us -> prefix x v -> In x (paths ++ e)) /\
     (forall w q, la_lang (la_states d') (paths ++ e) w q <->
                  (In w us /\ q = p) \/ (~ In w us /\ la_lang (la_states d) paths w q)) /\
     la_k d' = Nat.max (la_k d) (max_len us).
Proof.
  intros Vp. induction us as [|u us IH]; intros d paths I.
  - exists d, []. cbn [fold_res]. rewrite app_nil_r. split; [reflexivity|]. split; [exact I|].
    split; [intros x []|]. split; [intros v x []|]. split; [|cbn; lia].
    intros w q. split; [intros H; right; split; [intros []|exact H]|].
    intros [[[] _]|[_ H]]. exact H.
  - destruct (add_string_spec p d paths u I Vp) as (d1 & e1 & E1 & I1 & X1 & Y1 & L1 & K1).
    destruct (IH d1 (paths ++ e1) I1) as (d' & e2 & E2 & I2 & X2 & Y2 & L2 & K2).
    exists d', (e1 ++ e2). cbn [fold_res]. rewrite E1. cbn [bind]. rewrite app_assoc.
    split; [exact E2|]. split; [exact I2|]. split.
    { intros x Hx. apply in_app_or in Hx as [Hx|Hx].
      - exists u. split; [left; reflexivity|apply X1; exact Hx].
      - destruct (X2 x Hx) as (v & Hv & Hp). exists v. split; [right; exact Hv|exact Hp]. }
    split.
    { intros v x [<-|Hv] Hp.
      - apply in_or_app. left. apply Y1. exact Hp.
      - apply (Y2 v x Hv Hp). }
    split; [|rewrite K2, K1; cbn [max_len fold_right]; fold (max_len us); lia].
    intros w q. rewrite L2, L1. cbn [In].
    assert (HA : In w us \/ ~ In w us).
    { destruct (mem_str w us) eqn:M; [left; apply mem_str_spec; exact M|right].
      intros H. apply mem_str_spec in H. congruence. }
    assert (HB := str_eq_dec w u).
    assert (HS : u = w <-> w = u) by (split; congruence).
    tauto.
Qed.
