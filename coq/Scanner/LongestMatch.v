(** * Tokenisation by longest match (property C13): declarative relation and executable function.

    At each position, among the terminals of the current scanner mode whose regex matches a
    NON-EMPTY prefix of the remaining input and whose lookahead condition holds, the longest match
    wins; ties go to the terminal listed first.  No match: the character is skipped (it becomes
    part of a gap; gaps are not tokens here).  After a token the mode's transition for that token
    type is applied ([Pop] on an empty stack keeps the current mode).

    Lookahead (scnr2 semantics): the lookahead pattern must match (positive) / must not match
    (negative) SOME prefix of the input following the token; that text is not consumed. *)
From Coq Require Import List NArith Bool Lia Arith.
From Parol Require Import Scanner.Regex.
Import ListNotations.

(** ** Vocabulary *)

Inductive action := Enter (m : nat) | Push (m : nat) | Pop.

(** [Some (true, r)] = positive lookahead, [Some (false, r)] = negative lookahead *)
Definition lookahead : Type := option (bool * regex).
(** (token type, pattern, lookahead) *)
Definition entry : Type := (N * regex * lookahead)%type.
Definition e_type (e : entry) : N := fst (fst e).
Definition e_pat (e : entry) : regex := snd (fst e).
Definition e_look (e : entry) : lookahead := snd e.
(** entries in priority order, and the transition table (token type -> action) *)
Definition mode : Type := (list entry * list (N * action))%type.
(** (token type, start, length), positions in code points *)
Definition token : Type := (N * nat * nat)%type.

(** ** Prefix matching *)

(** does [r] match some prefix (possibly empty) of [s]? *)
Fixpoint prefix_matchb (r : regex) (s : list N) : bool :=
  nullable r ||
  match s with
  | [] => false
  | c :: s' => let r' := deriv c r in if is_empty r' then false else prefix_matchb r' s'
  end.

Definition prefix_matches (r : regex) (s : list N) : Prop := exists n, matches r (firstn n s).

Lemma prefix_matchb_spec s : forall r, prefix_matchb r s = true <-> prefix_matches r s.
Proof.
  unfold prefix_matches.
  induction s as [|c s IH]; intros r; cbn [prefix_matchb].
  - rewrite orb_false_r, nullable_spec. split.
    + intros H. exists 0. exact H.
    + intros [n H]. rewrite firstn_nil in H. exact H.
  - rewrite orb_true_iff, nullable_spec. split.
    + intros [H|H].
      * exists 0. exact H.
      * destruct (is_empty (deriv c r)); [discriminate|]. apply IH in H. destruct H as [n H].
        exists (S n). cbn [firstn]. apply deriv_spec. exact H.
    + intros [[|n] H]; cbn [firstn] in H.
      * left. exact H.
      * right. apply deriv_spec in H. destruct (is_empty (deriv c r)) eqn:E.
        -- exfalso. apply (is_empty_spec _ E _ H).
        -- apply IH. exists n. exact H.
Qed.

Definition look_ok (la : lookahead) (rest : list N) : bool :=
  match la with
  | None => true
  | Some (true, r) => prefix_matchb r rest
  | Some (false, r) => negb (prefix_matchb r rest)
  end.

Definition look_holds (la : lookahead) (rest : list N) : Prop :=
  match la with
  | None => True
  | Some (true, r) => prefix_matches r rest
  | Some (false, r) => ~ prefix_matches r rest
  end.

Lemma look_ok_spec la rest : look_ok la rest = true <-> look_holds la rest.
Proof.
  destruct la as [[[|] r]|]; cbn [look_ok look_holds].
  - apply prefix_matchb_spec.
  - rewrite negb_true_iff, <- prefix_matchb_spec. destruct (prefix_matchb r rest); split; congruence.
  - split; trivial.
Qed.

(** [r] (with lookahead [la]) accepts the prefix of length [n] of [s] *)
Definition accepts (la : lookahead) (r : regex) (s : list N) (n : nat) : Prop :=
  matches r (firstn n s) /\ look_holds la (skipn n s).

(** [go]: [r] = derivative after [n] characters, [s] = remaining input, [best] = last accepted length *)
Fixpoint lpm_go (la : lookahead) (r : regex) (s : list N) (n : nat) (best : option nat)
  : option nat :=
  match s with
  | [] => best
  | c :: s' =>
    let r' := deriv c r in
    if is_empty r' then best
    else lpm_go la r' s' (S n) (if nullable r' && look_ok la s' then Some (S n) else best)
  end.

(** length of the longest NON-EMPTY prefix of [s] accepted by [r] with lookahead [la] *)
Definition longest_prefix_match (la : lookahead) (r : regex) (s : list N) : option nat :=
  lpm_go la r s 0 None.

Lemma accepts_cons la r c s n : accepts la r (c :: s) (S n) <-> accepts la (deriv c r) s n.
Proof. unfold accepts. cbn [firstn skipn]. rewrite deriv_spec. reflexivity. Qed.

Lemma lpm_go_spec la s : forall r n best,
  (lpm_go la r s n best = best /\ forall k, 0 < k <= length s -> ~ accepts la r s k)
  \/ exists k, 0 < k <= length s /\ lpm_go la r s n best = Some (n + k) /\ accepts la r s k /\
               forall m, k < m <= length s -> ~ accepts la r s m.
Proof.
  induction s as [|c s IH]; intros r n best; cbn [lpm_go length].
  - left. split; [reflexivity|]. intros k Hk. lia.
  - destruct (is_empty (deriv c r)) eqn:E.
    + left. split; [reflexivity|]. intros [|k] Hk; [lia|]. rewrite accepts_cons.
      intros [Hm _]. apply (is_empty_spec _ E _ Hm).
    + assert (Hb : nullable (deriv c r) && look_ok la s = true <-> accepts la (deriv c r) s 0).
      { unfold accepts. cbn [firstn skipn]. rewrite andb_true_iff, nullable_spec, look_ok_spec.
        reflexivity. }
      destruct (IH (deriv c r) (S n)
                   (if nullable (deriv c r) && look_ok la s then Some (S n) else best))
        as [[Hr Hno]|[k [Hk [Hr [Hacc Hmax]]]]].
      * destruct (nullable (deriv c r) && look_ok la s) eqn:Eb.
        -- right. exists 1. split; [lia|]. split; [rewrite Hr; f_equal; lia|].
           split; [apply accepts_cons, Hb; reflexivity|].
           intros [|m] Hm; [lia|]. rewrite accepts_cons. apply Hno. lia.
        -- left. split; [exact Hr|]. intros [|[|k]] Hk; [lia| |].
           ++ rewrite accepts_cons, <- Hb. congruence.
           ++ rewrite accepts_cons. apply Hno. lia.
      * right. exists (S k). split; [lia|]. split; [rewrite Hr; f_equal; lia|].
        split; [apply accepts_cons; exact Hacc|].
        intros [|m] Hm; [lia|]. rewrite accepts_cons. apply Hmax. lia.
Qed.

Theorem longest_prefix_match_spec la r s n :
  longest_prefix_match la r s = Some n <->
  0 < n <= length s /\ accepts la r s n /\ forall m, n < m <= length s -> ~ accepts la r s m.
Proof.
  unfold longest_prefix_match.
  destruct (lpm_go_spec la s r 0 None) as [[Hr Hno]|[k [Hk [Hr [Hacc Hmax]]]]]; rewrite Hr.
  - split; [discriminate|]. intros [Hn [Ha _]]. exfalso. apply (Hno n Hn Ha).
  - cbn [Nat.add]. split.
    + intros H. inversion H; subst n. auto.
    + intros [Hn [Ha Hm]]. f_equal.
      destruct (Nat.lt_trichotomy k n) as [Hlt|[Heq|Hgt]]; [|exact Heq|].
      * exfalso. apply (Hmax n); [lia | exact Ha].
      * exfalso. apply (Hm k); [lia | exact Hacc].
Qed.

Theorem longest_prefix_match_none la r s :
  longest_prefix_match la r s = None <-> forall m, 0 < m <= length s -> ~ accepts la r s m.
Proof.
  unfold longest_prefix_match.
  destruct (lpm_go_spec la s r 0 None) as [[Hr Hno]|[k [Hk [Hr [Hacc Hmax]]]]]; rewrite Hr.
  - split; [intros _; exact Hno | reflexivity].
  - split; [discriminate|]. intros H. exfalso. apply (H k Hk Hacc).
Qed.

(** ** Best match among the entries of a mode *)

Definition entry_match (e : entry) (s : list N) : option nat :=
  longest_prefix_match (e_look e) (e_pat e) s.

(** the longest match; ties: the entry listed first *)
Fixpoint best_match (es : list entry) (s : list N) : option (N * nat) :=
  match es with
  | [] => None
  | e :: es' =>
    match entry_match e s with
    | None => best_match es' s
    | Some n =>
      match best_match es' s with
      | None => Some (e_type e, n)
      | Some (t', n') => if Nat.ltb n n' then Some (t', n') else Some (e_type e, n)
      end
    end
  end.

(** entry [e] accepts the non-empty prefix of length [n] of [s] *)
Definition entry_accepts (e : entry) (s : list N) (n : nat) : Prop :=
  0 < n <= length s /\ accepts (e_look e) (e_pat e) s n.

(** entry number [i] with length [n] is THE match at [s]: no entry accepts a longer prefix, and
    no earlier entry accepts one of the same length *)
Definition best_spec (es : list entry) (s : list N) (i : nat) (n : nat) : Prop :=
  (exists e, nth_error es i = Some e /\ entry_accepts e s n) /\
  forall j e' m, nth_error es j = Some e' -> entry_accepts e' s m ->
                 m < n \/ (m = n /\ i <= j).

Definition no_match (es : list entry) (s : list N) : Prop :=
  forall j e' m, nth_error es j = Some e' -> ~ entry_accepts e' s m.

Lemma entry_match_some e s n :
  entry_match e s = Some n ->
  entry_accepts e s n /\ forall m, entry_accepts e s m -> m <= n.
Proof.
  unfold entry_match, entry_accepts. intros H. apply longest_prefix_match_spec in H.
  destruct H as [Hn [Ha Hm]]. split; [auto|]. intros m [Hml Hma].
  destruct (Nat.le_gt_cases m n) as [Hle|Hgt]; [exact Hle|].
  exfalso. apply (Hm m); [lia | exact Hma].
Qed.

Lemma entry_match_none e s : entry_match e s = None -> forall m, ~ entry_accepts e s m.
Proof.
  unfold entry_match, entry_accepts. intros H m [Hm Ha].
  apply (proj1 (longest_prefix_match_none _ _ _) H m Hm Ha).
Qed.

Lemma best_match_spec es s :
  match best_match es s with
  | None => no_match es s
  | Some (t, n) => exists i e, best_spec es s i n /\ nth_error es i = Some e /\ e_type e = t
  end.
Proof.
  induction es as [|e es IH]; cbn [best_match].
  - intros [|j] e' m Hj; discriminate.
  - destruct (entry_match e s) as [n|] eqn:Ee.
    + destruct (entry_match_some _ _ _ Ee) as [Hacc Hmax].
      destruct (best_match es s) as [[t' n']|].
      * destruct IH as [i [e1 [[[e2 [Hi2 Ha2]] Hdom] [Hi1 Ht]]]].
        destruct (Nat.ltb_spec n n') as [Hlt|Hge].
        -- exists (S i), e1. split; [|split; assumption]. split.
           ++ exists e2. split; assumption.
           ++ intros [|j] e' m Hj Ha; cbn [nth_error] in Hj.
              ** inversion Hj; subst e'. left. specialize (Hmax m Ha). lia.
              ** destruct (Hdom j e' m Hj Ha) as [H|[H1 H2]]; [left; exact H | right; lia].
        -- exists 0, e. split; [|split; reflexivity]. split.
           ++ exists e. split; [reflexivity | exact Hacc].
           ++ intros [|j] e' m Hj Ha; cbn [nth_error] in Hj.
              ** inversion Hj; subst e'. specialize (Hmax m Ha). lia.
              ** destruct (Hdom j e' m Hj Ha) as [H|[H1 H2]]; lia.
      * exists 0, e. split; [|split; reflexivity]. split.
        -- exists e. split; [reflexivity | exact Hacc].
        -- intros [|j] e' m Hj Ha; cbn [nth_error] in Hj.
           ++ inversion Hj; subst e'. specialize (Hmax m Ha). lia.
           ++ exfalso. apply (IH j e' m Hj Ha).
    + pose proof (entry_match_none _ _ Ee) as Hnone.
      destruct (best_match es s) as [[t' n']|].
      * destruct IH as [i [e1 [[[e2 [Hi2 Ha2]] Hdom] [Hi1 Ht]]]].
        exists (S i), e1. split; [|split; assumption]. split.
        -- exists e2. split; assumption.
        -- intros [|j] e' m Hj Ha; cbn [nth_error] in Hj.
           ++ inversion Hj; subst e'. exfalso. apply (Hnone m Ha).
           ++ destruct (Hdom j e' m Hj Ha) as [H|[H1 H2]]; [left; exact H | right; lia].
      * intros [|j] e' m Hj Ha; cbn [nth_error] in Hj.
        -- inversion Hj; subst e'. apply (Hnone m Ha).
        -- apply (IH j e' m Hj Ha).
Qed.

Lemma best_spec_functional es s i n i' n' :
  best_spec es s i n -> best_spec es s i' n' -> i = i' /\ n = n'.
Proof.
  intros [[e [Hi Ha]] Hd] [[e' [Hi' Ha']] Hd'].
  specialize (Hd i' e' n' Hi' Ha'). specialize (Hd' i e n Hi Ha). lia.
Qed.

Lemma best_spec_no_match es s i n : best_spec es s i n -> no_match es s -> False.
Proof. intros [[e [Hi Ha]] _] Hn. apply (Hn i e n Hi Ha). Qed.

Lemma best_spec_pos es s i n : best_spec es s i n -> 0 < n <= length s.
Proof. intros [[e [_ [Hn _]]] _]. exact Hn. Qed.

(** ** Mode transitions *)

Fixpoint find_action (t : N) (tr : list (N * action)) : option action :=
  match tr with
  | [] => None
  | (t', a) :: tr' => if N.eqb t t' then Some a else find_action t tr'
  end.

Definition apply_action (a : option action) (cur : nat) (stack : list nat) : nat * list nat :=
  match a with
  | None => (cur, stack)
  | Some (Enter m) => (m, stack)
  | Some (Push m) => (m, cur :: stack)
  | Some Pop => match stack with [] => (cur, []) | m :: st => (m, st) end
  end.

(** the action declared for token type [t]: the first entry of the table for [t], if any *)
Definition declared_action (tr : list (N * action)) (t : N) (a : option action) : Prop :=
  match a with
  | None => forall a', ~ In (t, a') tr
  | Some a0 => exists l1 l2, tr = l1 ++ (t, a0) :: l2 /\ forall a', ~ In (t, a') l1
  end.

Inductive transition_spec (tr : list (N * action)) (t : N) (cur : nat) (stack : list nat)
  : nat -> list nat -> Prop :=
| TrNone : declared_action tr t None -> transition_spec tr t cur stack cur stack
| TrEnter : forall m, declared_action tr t (Some (Enter m)) -> transition_spec tr t cur stack m stack
| TrPush : forall m, declared_action tr t (Some (Push m)) ->
                     transition_spec tr t cur stack m (cur :: stack)
| TrPop : forall m st, declared_action tr t (Some Pop) -> stack = m :: st ->
                       transition_spec tr t cur stack m st
| TrPopEmpty : declared_action tr t (Some Pop) -> stack = [] ->
               transition_spec tr t cur stack cur [].

Lemma find_action_declared tr t : declared_action tr t (find_action t tr).
Proof.
  induction tr as [|[t' a] tr IH]; cbn [find_action].
  - intros a' [].
  - destruct (N.eqb_spec t t') as [He|Hne].
    + subst t'. exists [], tr. split; [reflexivity|]. intros a' [].
    + destruct (find_action t tr) as [a0|]; cbn [declared_action] in *.
      * destruct IH as [l1 [l2 [Htr Hno]]]. exists ((t', a) :: l1), l2. split.
        -- rewrite Htr. reflexivity.
        -- intros a' [H|H]; [inversion H; congruence | apply (Hno a' H)].
      * intros a' [H|H]; [inversion H; congruence | apply (IH a' H)].
Qed.

Lemma declared_action_functional tr t a b :
  declared_action tr t a -> declared_action tr t b -> a = b.
Proof.
  intros Ha Hb. destruct a as [a|], b as [b|]; cbn [declared_action] in *; try reflexivity.
  - destruct Ha as [l1 [l2 [E1 N1]]]. destruct Hb as [k1 [k2 [E2 N2]]].
    revert k1 E2 N2. subst tr. induction l1 as [|x l1 IH]; intros k1 E2 N2.
    + destruct k1 as [|y k1]; cbn [app] in E2.
      * inversion E2. reflexivity.
      * inversion E2; subst y. exfalso. apply (N2 a). left. reflexivity.
    + destruct k1 as [|y k1]; cbn [app] in E2.
      * inversion E2; subst x. exfalso. apply (N1 b). left. reflexivity.
      * inversion E2; subst y. apply (IH (fun a' H => N1 a' (or_intror H)) k1 H1).
        intros a' H. apply (N2 a'). right. exact H.
  - destruct Ha as [l1 [l2 [E1 _]]]. exfalso. apply (Hb a). rewrite E1.
    apply in_or_app. right. left. reflexivity.
  - destruct Hb as [l1 [l2 [E1 _]]]. exfalso. apply (Ha b). rewrite E1.
    apply in_or_app. right. left. reflexivity.
Qed.

Lemma apply_action_spec tr t cur stack :
  transition_spec tr t cur stack (fst (apply_action (find_action t tr) cur stack))
                                 (snd (apply_action (find_action t tr) cur stack)).
Proof.
  pose proof (find_action_declared tr t) as Hd.
  destruct (find_action t tr) as [[m|m|]|]; cbn [apply_action fst snd].
  - apply TrEnter. exact Hd.
  - apply TrPush. exact Hd.
  - destruct stack as [|m st]; cbn [fst snd].
    + apply TrPopEmpty; [exact Hd | reflexivity].
    + apply TrPop; [exact Hd | reflexivity].
  - apply TrNone. exact Hd.
Qed.

Lemma transition_spec_functional tr t cur stack c1 s1 c2 s2 :
  transition_spec tr t cur stack c1 s1 -> transition_spec tr t cur stack c2 s2 ->
  c1 = c2 /\ s1 = s2.
Proof.
  intros H1 H2.
  destruct H1 as [D1|m1 D1|m1 D1|m1 st1 D1 E1|D1 E1];
    destruct H2 as [D2|m2 D2|m2 D2|m2 st2 D2 E2|D2 E2];
    pose proof (declared_action_functional _ _ _ _ D1 D2) as He;
    try discriminate He;
    try (inversion He; subst; split; reflexivity);
    rewrite E1 in E2; try discriminate E2; inversion E2; subst; split; reflexivity.
Qed.

(** ** The tokenizer *)

(** [s] is the remaining input, [pos] its offset.  [None]: out of fuel or an invalid mode number. *)
Fixpoint tokenize (fuel : nat) (modes : list mode) (cur : nat) (stack : list nat)
         (s : list N) (pos : nat) : option (list token) :=
  match fuel with
  | O => None
  | S f =>
    match s with
    | [] => Some []
    | _ :: s' =>
      match nth_error modes cur with
      | None => None
      | Some (es, tr) =>
        match best_match es s with
        | None => tokenize f modes cur stack s' (S pos)
        | Some (t, n) =>
          let cs := apply_action (find_action t tr) cur stack in
          match tokenize f modes (fst cs) (snd cs) (skipn n s) (pos + n) with
          | None => None
          | Some toks => Some ((t, pos, n) :: toks)
          end
        end
      end
    end
  end.

(** the whole text from mode 0 with an empty stack *)
Definition tokenize_all (modes : list mode) (s : list N) : option (list token) :=
  tokenize (S (length s)) modes 0 [] s 0.

(** The tokenisation rule of C13, declaratively. *)
Inductive tokens_spec (modes : list mode)
  : nat -> list nat -> list N -> nat -> list token -> Prop :=
| TS_end : forall cur stack pos, tokens_spec modes cur stack [] pos []
| TS_skip : forall cur stack c s pos toks es tr,
    nth_error modes cur = Some (es, tr) ->
    no_match es (c :: s) ->
    tokens_spec modes cur stack s (S pos) toks ->
    tokens_spec modes cur stack (c :: s) pos toks
| TS_token : forall cur stack s pos toks es tr i e n cur' stack',
    s <> [] ->
    nth_error modes cur = Some (es, tr) ->
    best_spec es s i n ->
    nth_error es i = Some e ->
    transition_spec tr (e_type e) cur stack cur' stack' ->
    tokens_spec modes cur' stack' (skipn n s) (pos + n) toks ->
    tokens_spec modes cur stack s pos ((e_type e, pos, n) :: toks).

Theorem tokenize_spec modes : forall f cur stack s pos toks,
  tokenize f modes cur stack s pos = Some toks -> tokens_spec modes cur stack s pos toks.
Proof.
  induction f as [|f IH]; intros cur stack s pos toks H; cbn [tokenize] in H; [discriminate|].
  destruct s as [|c s'].
  - inversion H. constructor.
  - destruct (nth_error modes cur) as [[es tr]|] eqn:Em; [|discriminate].
    pose proof (best_match_spec es (c :: s')) as Hb.
    destruct (best_match es (c :: s')) as [[t n]|].
    + destruct Hb as [i [e [Hbest [Hi Ht]]]].
      destruct (tokenize f modes _ _ (skipn n (c :: s')) (pos + n)) as [toks'|] eqn:Et;
        [|discriminate].
      inversion H; subst toks. subst t.
      eapply TS_token; try eassumption; [discriminate | apply apply_action_spec | apply IH; exact Et].
    + eapply TS_skip; try eassumption. apply IH. exact H.
Qed.

Theorem tokens_spec_functional modes cur stack s pos toks1 :
  tokens_spec modes cur stack s pos toks1 ->
  forall toks2, tokens_spec modes cur stack s pos toks2 -> toks1 = toks2.
Proof.
  intros H1. induction H1 as
    [cur stack pos
    |cur stack c s pos toks es tr Hm Hno _ IH
    |cur stack s pos toks es tr i e n cur' stack' Hne Hm Hbest Hi Htr _ IH];
    intros toks2 H2.
  - inversion H2; subst; try reflexivity. congruence.
  - inversion H2 as
      [|cur2 stack2 c2 s2 pos2 toks2' es2 tr2 Hm2 Hno2 Hrest2
       |cur2 stack2 s2 pos2 toks2' es2 tr2 i2 e2 n2 cur2' stack2' Hne2 Hm2 Hbest2 Hi2 Htr2 Hrest2];
      subst.
    + apply IH. exact Hrest2.
    + rewrite Hm in Hm2. inversion Hm2; subst. exfalso.
      apply (best_spec_no_match _ _ _ _ Hbest2 Hno).
  - inversion H2 as
      [|cur2 stack2 c2 s2 pos2 toks2' es2 tr2 Hm2 Hno2 Hrest2
       |cur2 stack2 s2 pos2 toks2' es2 tr2 i2 e2 n2 cur2' stack2' Hne2 Hm2 Hbest2 Hi2 Htr2 Hrest2];
      subst.
    + congruence.
    + rewrite Hm in Hm2. inversion Hm2; subst. exfalso.
      apply (best_spec_no_match _ _ _ _ Hbest Hno2).
    + rewrite Hm in Hm2. inversion Hm2; subst es2 tr2.
      destruct (best_spec_functional _ _ _ _ _ _ Hbest Hbest2) as [Ei En]. subst i2 n2.
      rewrite Hi in Hi2. inversion Hi2; subst e2.
      destruct (transition_spec_functional _ _ _ _ _ _ _ _ Htr Htr2) as [Ec Es]. subst cur2' stack2'.
      f_equal. apply IH. exact Hrest2.
Qed.

(** ** Fuel *)

(** all mode numbers mentioned by transitions exist *)
Definition action_ok (k : nat) (a : action) : bool :=
  match a with Enter m => Nat.ltb m k | Push m => Nat.ltb m k | Pop => true end.
Definition modes_ok (modes : list mode) : bool :=
  forallb (fun md : mode => forallb (fun ta : N * action => action_ok (length modes) (snd ta)) (snd md))
          modes.

Lemma find_action_In t tr a : find_action t tr = Some a -> In (t, a) tr.
Proof.
  induction tr as [|[t' a'] tr IH]; cbn [find_action]; [discriminate|].
  destruct (N.eqb_spec t t') as [He|Hne].
  - intros H. inversion H; subst. left. reflexivity.
  - intros H. right. apply IH. exact H.
Qed.

Lemma apply_action_ok modes cur stack es tr t :
  modes_ok modes = true -> nth_error modes cur = Some (es, tr) ->
  cur < length modes -> Forall (fun m => m < length modes) stack ->
  fst (apply_action (find_action t tr) cur stack) < length modes /\
  Forall (fun m => m < length modes) (snd (apply_action (find_action t tr) cur stack)).
Proof.
  intros Hok Hm Hcur Hst.
  destruct (find_action t tr) as [a|] eqn:Ef; cbn [apply_action]; [|split; assumption].
  apply find_action_In in Ef.
  assert (Ha : action_ok (length modes) a = true).
  { unfold modes_ok in Hok. rewrite forallb_forall in Hok.
    specialize (Hok _ (nth_error_In _ _ Hm)). cbn [snd] in Hok. rewrite forallb_forall in Hok.
    apply (Hok _ Ef). }
  destruct a as [m|m|]; cbn [action_ok] in Ha; cbn [fst snd].
  - apply Nat.ltb_lt in Ha. split; assumption.
  - apply Nat.ltb_lt in Ha. split; [assumption | constructor; assumption].
  - destruct stack as [|m st]; cbn [fst snd]; [split; assumption|].
    inversion Hst; subst. split; assumption.
Qed.

(** [length s + 1] units of fuel suffice (every token is non-empty) *)
Theorem tokenize_fuel modes : modes_ok modes = true ->
  forall f cur stack s pos,
  cur < length modes -> Forall (fun m => m < length modes) stack ->
  length s < f -> exists toks, tokenize f modes cur stack s pos = Some toks.
Proof.
  intros Hok. induction f as [|f IH]; intros cur stack s pos Hcur Hst Hf; [lia|].
  cbn [tokenize]. destruct s as [|c s']; [exists []; reflexivity|].
  destruct (nth_error modes cur) as [[es tr]|] eqn:Em;
    [|apply nth_error_None in Em; lia].
  pose proof (best_match_spec es (c :: s')) as Hb.
  destruct (best_match es (c :: s')) as [[t n]|].
  - destruct Hb as [i [e [Hbest _]]]. apply best_spec_pos in Hbest.
    destruct (apply_action_ok modes cur stack es tr t Hok Em Hcur Hst) as [Hc' Hs'].
    destruct (IH _ _ (skipn n (c :: s')) (pos + n) Hc' Hs') as [toks Ht].
    + rewrite skipn_length. cbn [length] in *. lia.
    + rewrite Ht. eexists. reflexivity.
  - apply IH; try assumption. cbn [length] in Hf. lia.
Qed.

(** more fuel does not change the result *)
Theorem tokenize_fuel_mono modes : forall f f' cur stack s pos toks,
  tokenize f modes cur stack s pos = Some toks -> f <= f' ->
  tokenize f' modes cur stack s pos = Some toks.
Proof.
  induction f as [|f IH]; intros f' cur stack s pos toks H Hle; cbn [tokenize] in H;
    [discriminate|].
  destruct f' as [|f']; [lia|]. cbn [tokenize].
  destruct s as [|c s']; [exact H|].
  destruct (nth_error modes cur) as [[es tr]|]; [|discriminate].
  destruct (best_match es (c :: s')) as [[t n]|].
  - destruct (tokenize f modes _ _ (skipn n (c :: s')) (pos + n)) as [toks'|] eqn:Et;
      [|discriminate].
    rewrite (IH f' _ _ _ _ _ Et); [exact H | lia].
  - apply (IH f'); [exact H | lia].
Qed.

(** With well-formed modes the function computes exactly the relation. *)
Corollary tokenize_complete modes cur stack s pos toks :
  modes_ok modes = true -> cur < length modes -> Forall (fun m => m < length modes) stack ->
  tokens_spec modes cur stack s pos toks ->
  tokenize (S (length s)) modes cur stack s pos = Some toks.
Proof.
  intros Hok Hcur Hst Hspec.
  destruct (tokenize_fuel modes Hok (S (length s)) cur stack s pos Hcur Hst) as [toks' Ht]; [lia|].
  rewrite Ht. f_equal. apply tokenize_spec in Ht.
  apply (tokens_spec_functional _ _ _ _ _ _ Ht _ Hspec).
Qed.

Corollary tokenize_all_spec modes s toks :
  tokenize_all modes s = Some toks -> tokens_spec modes 0 [] s 0 toks.
Proof. apply tokenize_spec. Qed.

(** Tokens are non-empty, in order, non-overlapping and inside the text. *)
Lemma tokens_spec_layout modes cur stack s pos toks :
  tokens_spec modes cur stack s pos toks ->
  forall t st n, In (t, st, n) toks -> pos <= st /\ 0 < n /\ st + n <= pos + length s.
Proof.
  intros H. induction H as
    [cur stack pos
    |cur stack c s pos toks es tr Hm Hno _ IH
    |cur stack s pos toks es tr i e n cur' stack' Hne Hm Hbest Hi Htr _ IH];
    intros t st k Hin.
  - destruct Hin.
  - specialize (IH t st k Hin). cbn [length]. lia.
  - apply best_spec_pos in Hbest. destruct Hin as [Hin|Hin].
    + inversion Hin; subst. lia.
    + specialize (IH t st k Hin). rewrite skipn_length in IH. lia.
Qed.

(** ** Examples *)

Module Examples.
  Definition lc (a b : N) : regex := Cls [(a, b)].
  Definition ident : regex := rplus (lc 97 122).                (* [a-z]+ *)
  Definition kw_if : regex := rstr [105; 102]%N.                (* "if" *)
  Definition ws : regex := rplus (rchar 32).
  (* mode 0: "if"(5) before identifiers(6); "a" only if followed by a blank (7, positive lookahead);
     whitespace(2); quote(8) pushes mode 1.  mode 1: anything but quote (9); quote(8) pops. *)
  Definition m0 : mode :=
    ([ (5%N, kw_if, None); (7%N, rchar 97, Some (true, rchar 32)); (6%N, ident, None);
       (2%N, ws, None); (8%N, rchar 34, None) ],
     [ (8%N, Push 1) ]).
  Definition m1 : mode :=
    ([ (9%N, rplus (Cls [(0, 33); (35, 1114111)]%N), None); (8%N, rchar 34, None) ],
     [ (8%N, Pop) ]).
  Definition modes : list mode := [m0; m1].

  (* text:  if ifx a "if" #  *)
  Definition text : list N := [105;102;32;105;102;120;32;97;32;34;105;102;34;32;35]%N.

  Definition tk (t : N) (start len : nat) : token := (t, start, len).
  Definition expected : list token :=
    [ tk 5 0 2; tk 2 2 1; tk 6 3 3; tk 2 6 1; tk 7 7 1; tk 2 8 1; tk 8 9 1; tk 9 10 2;
      tk 8 12 1; tk 2 13 1 ].

  Example ex_modes_ok : modes_ok modes = true.
  Proof. vm_compute. reflexivity. Qed.

  Example ex_tokenize :
    tokenize_all modes text =
    Some expected.
  Proof. vm_compute. reflexivity. Qed.

  (* equal length: first listed wins (7 before 6 when its lookahead holds, 5 before 6);
     longer match beats priority *)
  Example ex_tie : best_match (fst m0) [97; 98]%N = Some (6%N, 2)
                   /\ best_match (fst m0) [97; 32; 98]%N = Some (7%N, 1)
                   /\ best_match (fst m0) [97]%N = Some (6%N, 1)
                   /\ best_match (fst m0) [105; 102]%N = Some (5%N, 2)
                   /\ best_match (fst m0) [105; 102; 120]%N = Some (6%N, 3)
                   /\ best_match (fst m0) [35]%N = None.
  Proof. vm_compute. repeat split. Qed.

  Example ex_lookahead :
    longest_prefix_match (Some (true, rchar 98)) (rchar 97) [97; 98]%N = Some 1
    /\ longest_prefix_match (Some (false, rchar 98)) (rchar 97) [97; 98]%N = None
    /\ longest_prefix_match (Some (false, rchar 98)) (rplus (rchar 97)) [97; 97; 98]%N = Some 1.
  Proof. vm_compute. auto. Qed.

  Example ex_spec : tokens_spec modes 0 [] text 0
    expected.
  Proof. apply tokenize_all_spec. vm_compute. reflexivity. Qed.
End Examples.

Print Assumptions longest_prefix_match_spec.
Print Assumptions longest_prefix_match_none.
Print Assumptions best_match_spec.
Print Assumptions tokenize_spec.
Print Assumptions tokens_spec_functional.
Print Assumptions tokenize_fuel.
Print Assumptions tokenize_complete.
