(** * C32: the packed k-tuple representation behaves like a sequence

    Theorems about the faithful model in [KTupleModel.v] of
    crates/parol/src/analysis/k_tuple.rs.  *)
From Coq Require Import List NArith Bool Lia.
From Parol Require Import Analysis.KTupleModel Analysis.KTupleBits.
Import ListNotations.
Local Open Scope N_scope.

(** ** Constants and the three fields of the 128-bit word *)
Lemma NEXT_MASK_eq : NEXT_MASK = N.shiftl (N.ones 4) 120. Proof. reflexivity. Qed.
Lemma BITS_MASK_eq : BITS_MASK = N.shiftl (N.ones 4) 124. Proof. reflexivity. Qed.
Lemma NEXT_CLEAR_eq : NEXT_CLEAR = N.lor (N.ones 120) (N.shiftl (N.ones 4) 124).
Proof. reflexivity. Qed.
Lemma BITS_CLEAR_eq : BITS_CLEAR = N.ones 124. Proof. reflexivity. Qed.
Lemma MAX_BITS_eq : MAX_BITS = 12. Proof. reflexivity. Qed.
Lemma p124 : 2 ^ 124 = 16 * 2 ^ 120. Proof. reflexivity. Qed.
Lemma p128 : 2 ^ 128 = 256 * 2 ^ 120. Proof. reflexivity. Qed.
Lemma p128' : 2 ^ 128 = 16 * 2 ^ 124. Proof. reflexivity. Qed.
Lemma p4 : 2 ^ 4 = 16. Proof. reflexivity. Qed.

Lemma next_index_spec p : next_index p = (t p / 2 ^ 120) mod 2 ^ 4.
Proof. unfold next_index. rewrite NEXT_MASK_eq. apply field_extract. Qed.

Lemma bits_spec p : bits p = (t p / 2 ^ 124) mod 2 ^ 4.
Proof. unfold bits. rewrite BITS_MASK_eq. apply field_extract. Qed.

(** payload [P], length field [n], width field [b] *)
Definition mk3 (P n b : N) : N := P + n * 2 ^ 120 + b * 2 ^ 124.

Lemma mk3_alt P n b : mk3 P n b = P + (n + 16 * b) * 2 ^ 120.
Proof. unfold mk3. rewrite p124. lia. Qed.

Lemma mk3_alt' P n b : mk3 P n b = (P + n * 2 ^ 120) + b * 2 ^ 124.
Proof. reflexivity. Qed.

Lemma mk3_lt P n b : P < 2 ^ 120 -> n < 16 -> b < 16 -> mk3 P n b < 2 ^ 128.
Proof. intros HP Hn Hb. unfold mk3. rewrite p128, p124. lia. Qed.

Lemma mid_lt P n : P < 2 ^ 120 -> n < 16 -> P + n * 2 ^ 120 < 2 ^ 124.
Proof. intros HP Hn. rewrite p124. lia. Qed.

Lemma next_index_mk3 P n b :
  P < 2 ^ 120 -> n < 16 -> next_index (Packed (mk3 P n b)) = n.
Proof.
  intros HP Hn. rewrite next_index_spec. cbn [t]. rewrite mk3_alt, div_add_pow by assumption.
  rewrite p4, (N.mul_comm 16), N.mod_add by discriminate. apply N.mod_small; assumption.
Qed.

Lemma bits_mk3 P n b :
  P < 2 ^ 120 -> n < 16 -> b < 16 -> bits (Packed (mk3 P n b)) = b.
Proof.
  intros HP Hn Hb. rewrite bits_spec. cbn [t].
  rewrite mk3_alt', div_add_pow by (apply mid_lt; assumption).
  rewrite p4. apply N.mod_small; assumption.
Qed.

Lemma mk3_mod P n b : P < 2 ^ 120 -> mk3 P n b mod 2 ^ 120 = P.
Proof. intro HP. rewrite mk3_alt. apply mod_add_pow; assumption. Qed.

Lemma mk3_decompose x :
  x < 2 ^ 128 -> x = mk3 (x mod 2 ^ 120) ((x / 2 ^ 120) mod 16) (x / 2 ^ 124).
Proof.
  intro Hx. rewrite mk3_alt.
  assert (H1 : x / 2 ^ 124 = (x / 2 ^ 120) / 16).
  { rewrite p124, (N.mul_comm 16), <- N.div_div by (try apply pow2_nz; discriminate).
    reflexivity. }
  rewrite H1.
  assert (H2 : (x / 2 ^ 120) mod 16 + 16 * (x / 2 ^ 120 / 16) = x / 2 ^ 120).
  { rewrite N.add_comm. symmetry. apply N.div_mod'. }
  rewrite H2. apply split_at.
Qed.

Lemma shl_trunc_small x k : x * 2 ^ k < 2 ^ 128 -> shl_trunc x k = x * 2 ^ k.
Proof.
  intro H. unfold shl_trunc, trunc128, U128_MAX. rewrite N.shiftl_mul_pow2.
  apply lt_pow2_land; assumption.
Qed.

Lemma land_field4 x k : N.land x (N.shiftl (N.ones 4) k) = N.shiftl ((x / 2 ^ k) mod 2 ^ 4) k.
Proof. rewrite land_shiftl_mask, N.land_ones, N.shiftr_div_pow2. reflexivity. Qed.

Lemma set_next_index_mk3 P n b i :
  P < 2 ^ 120 -> n < 16 -> b < 16 -> i < 16 ->
  set_next_index (Packed (mk3 P n b)) i = Packed (mk3 P i b).
Proof.
  intros HP Hn Hb Hi. unfold set_next_index. cbn [t]. f_equal.
  rewrite NEXT_CLEAR_eq, N.land_lor_distr_r, N.land_ones, mk3_mod by assumption.
  rewrite land_field4. rewrite mk3_alt' at 1.
  rewrite div_add_pow by (apply mid_lt; assumption).
  rewrite p4, (N.mod_small b 16) by assumption.
  rewrite shl_trunc_small by (rewrite p128; lia).
  rewrite <- (N.shiftl_mul_pow2 i 120).
  rewrite <- N.lor_assoc, (N.lor_comm (N.shiftl b 124)), N.lor_assoc.
  rewrite (lor_shiftl_add P i 120) by assumption.
  rewrite lor_shiftl_add by (apply mid_lt; assumption). reflexivity.
Qed.

Lemma set_bits_raw_mk3 P n b b' :
  P < 2 ^ 120 -> n < 16 -> b < 16 -> b' < 16 ->
  N.lor (N.land (mk3 P n b) BITS_CLEAR) (shl_trunc b' 124) = mk3 P n b'.
Proof.
  intros HP Hn Hb Hb'. rewrite BITS_CLEAR_eq, N.land_ones.
  rewrite mk3_alt', mod_add_pow by (apply mid_lt; assumption).
  rewrite shl_trunc_small by (rewrite p128'; lia).
  rewrite <- (N.shiftl_mul_pow2 b' 124).
  rewrite lor_shiftl_add by (apply mid_lt; assumption). reflexivity.
Qed.

Lemma dassert_true dbg : dassert dbg true = Ok tt.
Proof. unfold dassert. rewrite andb_false_r. reflexivity. Qed.

Lemma set_bits_mk3 dbg P n b b' :
  P < 2 ^ 120 -> n < 16 -> b < 16 -> 1 <= b' < 16 ->
  set_bits dbg (Packed (mk3 P n b)) b' = Ok (Packed (mk3 P n b')).
Proof.
  intros HP Hn Hb Hb'. unfold set_bits. cbn [t].
  rewrite set_bits_raw_mk3 by (try assumption; lia).
  rewrite bits_mk3 by (try assumption; lia).
  destruct (N.eqb_spec b' 0) as [E|E]; [lia|]. cbn [negb]. rewrite dassert_true. reflexivity.
Qed.

Lemma mask_bits p : bits p <= 128 -> mask p = N.ones (bits p).
Proof.
  intro H. unfold mask, not128, shl_trunc, trunc128, U128_MAX. apply not_shl_ones; assumption.
Qed.

(** payload operations do not touch the two metadata fields *)
Lemma mk3_lor P n b q : P < 2 ^ 120 -> q < 2 ^ 120 ->
  N.lor (mk3 P n b) q = mk3 (N.lor P q) n b.
Proof. intros HP Hq. rewrite !mk3_alt. apply lor_low; assumption. Qed.

Lemma mk3_land P n b q : P < 2 ^ 120 -> q < 2 ^ 120 ->
  N.land (mk3 P n b) q = N.land P q.
Proof. intros HP Hq. rewrite !mk3_alt. apply land_low; assumption. Qed.

Lemma mk3_land_not P n b q : P < 2 ^ 120 -> n < 16 -> b < 16 -> q < 2 ^ 120 ->
  N.land (mk3 P n b) (not128 q) = mk3 (N.ldiff P q) n b.
Proof.
  intros HP Hn Hb Hq. unfold not128, U128_MAX.
  rewrite land_not_ldiff by (apply mk3_lt; assumption).
  rewrite !mk3_alt. apply ldiff_low; assumption.
Qed.

(** ** The canonical packed form of a digit list *)
Definition tpack (b : N) (l : list N) : N := mk3 (pay b l) (lenN l) b.
Definition pk (b : N) (l : list N) : packed := Packed (tpack b l).

Definition okbl (b : N) (l : list N) : Prop :=
  1 <= b <= 12 /\ (length l <= 10)%nat /\ small b l.

Lemma okbl_len b l : okbl b l -> lenN l <= 10.
Proof. intros (_ & H & _). unfold lenN. lia. Qed.

Lemma okbl_span b l : okbl b l -> lenN l * b <= 120.
Proof. intros H. pose proof (okbl_len b l H). destruct H as (Hb & _ & _). nia. Qed.

Lemma okbl_pay_lt b l : okbl b l -> pay b l < 2 ^ 120.
Proof.
  intro H. pose proof (okbl_span b l H) as Hs. destruct H as (_ & _ & Hsm).
  eapply N.lt_le_trans; [apply pay_lt; assumption|].
  apply N.pow_le_mono_r; [discriminate | assumption].
Qed.

Lemma okbl_b16 b l : okbl b l -> b < 16.
Proof. intros ((H1 & H2) & _). lia. Qed.

Lemma okbl_n16 b l : okbl b l -> lenN l < 16.
Proof. intro H. pose proof (okbl_len b l H). lia. Qed.

Lemma bits_pk b l : okbl b l -> bits (pk b l) = b.
Proof.
  intro H. apply bits_mk3; [apply okbl_pay_lt | apply (okbl_n16 b l) | apply (okbl_b16 b l)];
    assumption.
Qed.

Lemma next_index_pk b l : okbl b l -> next_index (pk b l) = lenN l.
Proof.
  intro H. apply next_index_mk3; [apply okbl_pay_lt | apply (okbl_n16 b l)]; assumption.
Qed.

Lemma len_pk b l : okbl b l -> len (pk b l) = lenN l.
Proof. apply next_index_pk. Qed.

Lemma mask_pk b l : okbl b l -> mask (pk b l) = N.ones b.
Proof.
  intro H. rewrite mask_bits; rewrite bits_pk by assumption; [reflexivity|].
  pose proof (okbl_b16 b l H). lia.
Qed.

Lemma tpack_lt b l : okbl b l -> tpack b l < 2 ^ 128.
Proof.
  intro H. apply mk3_lt; [apply okbl_pay_lt | apply (okbl_n16 b l) | apply (okbl_b16 b l)];
    assumption.
Qed.

(** the whole word as "digits [l], then the rest" *)
Lemma tpack_payH b l : okbl b l ->
  tpack b l = payH b l ((lenN l + 16 * b) * 2 ^ (120 - lenN l * b)).
Proof.
  intro H. pose proof (okbl_span b l H) as Hs.
  unfold tpack. rewrite mk3_alt, payH_pay. f_equal.
  rewrite <- N.mul_assoc, <- N.pow_add_r. f_equal. f_equal. lia.
Qed.

Lemma slots_pk b l : okbl b l -> slots (pk b l) = l.
Proof.
  intro H. unfold slots. rewrite bits_pk, next_index_pk by assumption.
  unfold lenN. rewrite Nnat.Nat2N.id. unfold pk. cbn [t].
  rewrite tpack_payH by assumption. apply map_digit_payH. apply H.
Qed.

Lemma wfb_pk b l : okbl b l -> wfb (pk b l) = true.
Proof.
  intro H. unfold wfb. rewrite bits_pk, next_index_pk by assumption.
  unfold pk. cbn [t].
  pose proof (tpack_lt b l H) as H1. pose proof (okbl_len b l H) as H2.
  pose proof (okbl_pay_lt b l H) as H3.
  destruct H as (Hb & Hl & Hs).
  rewrite MAX_BITS_eq. unfold MAX_K.
  repeat (apply andb_true_intro; split).
  - apply N.ltb_lt; assumption.
  - apply N.leb_le; lia.
  - apply N.leb_le; lia.
  - apply N.leb_le; assumption.
  - apply N.eqb_eq. rewrite N.land_ones. unfold tpack.
    rewrite mk3_mod by assumption.
    rewrite N.shiftr_div_pow2. apply N.div_small. apply pay_lt; assumption.
Qed.

Definition wf (p : packed) : Prop := wfb p = true.

Lemma denote_pk b l : okbl b l -> denote (pk b l) = Some (map (decode (N.ones b)) l).
Proof.
  intro H. unfold denote. rewrite wfb_pk, slots_pk, bits_pk by assumption. reflexivity.
Qed.

Lemma packed_eta p : p = Packed (t p).
Proof. destruct p; reflexivity. Qed.

(** every well-formed word is the canonical form of its slots *)
Lemma wf_repr p : wf p -> okbl (bits p) (slots p) /\ p = pk (bits p) (slots p).
Proof.
  unfold wf, wfb. intro H.
  apply andb_prop in H. destruct H as [H H5].
  apply andb_prop in H. destruct H as [H H4].
  apply andb_prop in H. destruct H as [H H3].
  apply andb_prop in H. destruct H as [H1 H2].
  apply N.ltb_lt in H1. apply N.leb_le in H2. apply N.leb_le in H3. apply N.leb_le in H4.
  apply N.eqb_eq in H5. rewrite MAX_BITS_eq in H3. unfold MAX_K in H4.
  set (b := bits p) in *. set (n := next_index p) in *.
  assert (Hb : b = t p / 2 ^ 124).
  { unfold b. rewrite bits_spec, p4. apply N.mod_small.
    apply N.div_lt_upper_bound; [apply pow2_nz|]. rewrite N.mul_comm, <- p128'. assumption. }
  assert (Hn : n = (t p / 2 ^ 120) mod 16).
  { unfold n. rewrite next_index_spec, p4. reflexivity. }
  set (lo := t p mod 2 ^ 120).
  assert (Hlo : lo < 2 ^ (n * b)).
  { rewrite N.land_ones, N.shiftr_div_pow2 in H5. fold lo in H5.
    apply N.div_small_iff in H5; [assumption | apply pow2_nz]. }
  set (l := map (fun i => digit b lo (N.of_nat i)) (seq 0 (N.to_nat n))).
  assert (Hlen : length l = N.to_nat n).
  { unfold l. rewrite map_length, seq_length. reflexivity. }
  assert (HlenN : lenN l = n).
  { unfold lenN. rewrite Hlen. apply Nnat.N2Nat.id. }
  assert (Hok : okbl b l).
  { repeat split; try assumption; try lia.
    unfold l. apply Forall_forall. intros d Hd. apply in_map_iff in Hd.
    destruct Hd as (i & <- & _). apply digit_lt. }
  assert (Hpay : pay b l = lo).
  { unfold l. apply pay_digits. rewrite Nnat.N2Nat.id. assumption. }
  assert (Ht : t p = tpack b l).
  { unfold tpack. rewrite Hpay, HlenN, Hb, Hn. apply mk3_decompose; assumption. }
  assert (Hs : slots p = l).
  { rewrite (packed_eta p), Ht. fold (pk b l).
    rewrite <- (slots_pk b l Hok) at 2. unfold slots.
    rewrite bits_pk, next_index_pk by assumption. reflexivity. }
  rewrite Hs. split; [assumption|]. rewrite (packed_eta p) at 1. rewrite Ht. reflexivity.
Qed.

Lemma wf_pk b l : okbl b l -> wf (pk b l).
Proof. apply wfb_pk. Qed.

Lemma denote_wf p L : denote p = Some L -> wf p.
Proof. unfold denote, wf. destruct (wfb p); [reflexivity | discriminate]. Qed.

Lemma wf_denote p : wf p -> exists L, denote p = Some L.
Proof. unfold denote, wf. intros ->. eexists; reflexivity. Qed.

Lemma denote_repr p L :
  denote p = Some L ->
  exists l, okbl (bits p) l /\ p = pk (bits p) l /\ L = map (decode (N.ones (bits p))) l.
Proof.
  intro H. pose proof (denote_wf p L H) as Hw.
  destruct (wf_repr p Hw) as [Hok Hp]. exists (slots p).
  split; [assumption|]. split; [assumption|].
  unfold denote in H. rewrite Hw in H. injection H as <-. reflexivity.
Qed.
