(** * C07, second half — minimisation of the compiled lookahead automaton

    Rust: crates/parol/src/analysis/compiled_la_dfa.rs, [mod adjacency_list]
    ([From<CompiledDFA> for AdjacencyList], [Neighbors::{add_neighbor, rename_neighbor, append}],
    [remove_state], [rename_state], [combine_two_states], [combine_states], [minimize],
    [combine_equivalent_states], [renumber_states], [as_compiled_dfa]) and
    crates/parol/src/utils/mod.rs ([group_by], whose result order is the iteration order of a
    [HashMap] — an oracle argument here).

    The model is strict: [debug_assert!]s are modelled as panics (the behaviour of a debug/test
    build); a release build would carry on instead. *)
From Coq Require Import List NArith ZArith Bool Lia Sorted Arith.
From Parol Require Import Runtime.DfaEval Analysis.LaTrie.
Import ListNotations.

Local Open Scope nat_scope.

(* ------------------------------------------------------------------------------------------- *)
(** * §1 Model *)

(** ** [BTreeMap<usize, V>]: association list in key order.  [bt_insert] replaces. *)
Section BT.
  Context {V : Type}.

  Fixpoint bt_get (m : list (N * V)) (k : N) : option V :=
    match m with
    | [] => None
    | e :: m' => if N.eqb (fst e) k then Some (snd e) else bt_get m' k
    end.

  Fixpoint bt_remove (k : N) (m : list (N * V)) : list (N * V) :=
    match m with
    | [] => []
    | e :: m' => if N.eqb (fst e) k then bt_remove k m' else e :: bt_remove k m'
    end.

  Fixpoint bt_put (k : N) (v : V) (m : list (N * V)) : list (N * V) :=
    match m with
    | [] => [(k, v)]
    | e :: m' => if N.ltb k (fst e) then (k, v) :: m else e :: bt_put k v m'
    end.

  Definition bt_insert (k : N) (v : V) (m : list (N * V)) : list (N * V) :=
    bt_put k v (bt_remove k m).

  Definition keys (m : list (N * V)) : list N := map fst m.
End BT.

Definition map_vals {V W} (f : V -> W) (m : list (N * V)) : list (N * W) :=
  map (fun e => (fst e, f (snd e))) m.

(** ** [Neighbors]: [Vec<(StateId, TerminalIndex)>], sorted after every change *)
Definition nbs := list (N * N).

Definition nb_leb (a b : N * N) : bool :=
  N.ltb (fst a) (fst b) || (N.eqb (fst a) (fst b) && N.leb (snd a) (snd b)).

Fixpoint nb_ins (x : N * N) (l : nbs) : nbs :=
  match l with
  | [] => [x]
  | y :: l' => if nb_leb x y then x :: l else y :: nb_ins x l'
  end.
Definition nb_sort (l : nbs) : nbs := fold_right nb_ins [] l.

Definition nb_eqb (a b : N * N) : bool := N.eqb (fst a) (fst b) && N.eqb (snd a) (snd b).

Fixpoint nbs_eqb (a b : nbs) : bool :=
  match a, b with
  | [], [] => true
  | x :: a', y :: b' => nb_eqb x y && nbs_eqb a' b'
  | _, _ => false
  end.

Definition add_neighbor (id term : N) (l : nbs) : nbs := nb_sort (l ++ [(id, term)]).

Definition rename_neighbor (id new_id : N) (l : nbs) : nbs :=
  let l' := map (fun e => if N.eqb (fst e) id then (new_id, snd e) else e) l in
  if existsb (fun e => N.eqb (fst e) id) l then nb_sort l' else l'.

Definition nb_push (acc : nbs * bool) (n : N * N) : nbs * bool :=
  if existsb (nb_eqb n) (fst acc) then acc else (fst acc ++ [n], true).

Definition nb_append (l other : nbs) : nbs :=
  let r := fold_left nb_push other (l, false) in
  if snd r then nb_sort (fst r) else fst r.

(** ** [AdjacencyList] *)
Record adj := mkAdj { a_list : list (N * nbs); a_prods : list (N * Z); a_k : nat }.

(** [impl From<CompiledDFA> for AdjacencyList] *)
Definition adj_step1 (lp : list (N * nbs) * list (N * Z)) (t : trans)
  : list (N * nbs) * list (N * Z) :=
  (bt_insert (t_to t) [] (fst lp), bt_insert (t_to t) (t_prod t) (snd lp)).

(** [if let Some(f) = list.get_mut(&t.from_state) { f.add_neighbor(t.to_state, t.term) }] *)
Definition adj_step2 (l : list (N * nbs)) (t : trans) : list (N * nbs) :=
  match bt_get l (t_from t) with
  | Some nb => bt_insert (t_from t) (add_neighbor (t_to t) (t_tok t) nb) l
  | None => l
  end.

Definition adj_of_dfa (d : dfa) : adj :=
  let lp := fold_left adj_step1 (transitions d)
                      (bt_insert 0%N ([] : nbs) [], bt_insert 0%N (prod0 d) []) in
  mkAdj (fold_left adj_step2 (transitions d) (fst lp)) (snd lp) (depth d).

Definition remove_state (a : adj) (id : N) : adj :=
  mkAdj (bt_remove id (a_list a)) (bt_remove id (a_prods a)) (a_k a).

Definition rename_state (a : adj) (id new_id : N) : adj :=
  let l1 := match bt_get (a_list a) id with
            | Some e => bt_insert new_id e (bt_remove id (a_list a))
            | None => a_list a
            end in
  let l2 := map_vals (rename_neighbor id new_id) l1 in
  let p1 := match bt_get (a_prods a) id with
            | Some p => bt_insert new_id p (bt_remove id (a_prods a))
            | None => a_prods a
            end in
  mkAdj l2 p1 (a_k a).

Definition combine_two_states (a : adj) (keep merge : N) : res adj :=
  if N.eqb keep merge then Panic                                 (* debug_assert_ne! *)
  else
    match bt_get (a_list a) keep, bt_get (a_list a) merge,
          bt_get (a_prods a) keep, bt_get (a_prods a) merge with
    | Some lk, Some lm, Some pk, Some pm =>
        if negb (Z.eqb pk pm) then Panic                         (* debug_assert_eq! *)
        else
          let a1 := mkAdj (bt_insert keep (nb_append lk lm) (a_list a)) (a_prods a) (a_k a) in
          Ok (rename_state (remove_state a1 merge) merge keep)
    | _, _, _, _ => Panic                                        (* debug_assert!(false, …) *)
    end.

Definition combine_states (a : adj) (states : list N) : res adj :=
  match states with
  | [] => Ok a
  | keep :: rest => fold_res (fun a m => combine_two_states a keep m) rest a
  end.

(** ** [group_by] with the [HashMap] iteration order as an oracle.
    The groups are built in the order of first occurrence, the vectors in data order; [drain]
    then yields them in an arbitrary order: [permute o], where every [o : nat -> nat] gives a
    permutation and every permutation is given by some [o]. *)
Section GroupBy.
  Context {T K : Type} (eqb : K -> K -> bool) (proj : T -> K).

  Fixpoint grp_push (t : T) (gs : list (K * list T)) : list (K * list T) :=
    match gs with
    | [] => [(proj t, [t])]
    | g :: gs' => if eqb (fst g) (proj t) then (fst g, snd g ++ [t]) :: gs'
                  else g :: grp_push t gs'
    end.

  Definition group_fold (data : list T) : list (K * list T) :=
    fold_left (fun gs t => grp_push t gs) data [].
End GroupBy.

Definition insert_at {A} (n : nat) (x : A) (l : list A) : list A := firstn n l ++ x :: skipn n l.

Fixpoint permute {A} (o : nat -> nat) (l : list A) : list A :=
  match l with
  | [] => []
  | x :: l' => insert_at (o (length l') mod S (length l')) x (permute o l')
  end.

Definition group_by {T K} (o : nat -> nat) (eqb : K -> K -> bool) (proj : T -> K) (data : list T)
  : list (K * list T) := permute o (group_fold eqb proj data).

(** ** [minimize] *)
Definition oracle := nat -> nat -> nat.   (* round -> (length -> position) *)

Definition final_states (a : adj) : list (N * Z) :=
  filter (fun sp => negb (Z.eqb (snd sp) INVALID_PROD)) (a_prods a).

(** The [filter_map] in [combine_equivalent_states]; [productions.get(s).unwrap()] may panic. *)
Fixpoint combinable_states (a : adj) (l : list (N * nbs)) : res (list (N * nbs)) :=
  match l with
  | [] => Ok []
  | e :: l' =>
      match bt_get (a_prods a) (fst e) with
      | None => Panic
      | Some p => bind (combinable_states a l')
                       (fun r => Ok (if Z.eqb p INVALID_PROD then e :: r else r))
      end
  end.

Fixpoint combine_equivalent_states (fuel : nat) (o : oracle) (round : nat) (a : adj) : res adj :=
  match fuel with
  | O => OutOfFuel
  | S f =>
      bind (combinable_states a (a_list a)) (fun cs =>
        match find (fun g => Nat.ltb 1 (length (snd g))) (group_by (o round) nbs_eqb snd cs) with
        | Some g => bind (combine_states a (map fst (snd g)))
                         (combine_equivalent_states f o (S round))
        | None => Ok a
        end)
  end.

Fixpoint first_mismatch (i : N) (ks : list N) : option N :=
  match ks with
  | [] => None
  | k :: ks' => if N.eqb k i then first_mismatch (N.succ i) ks' else Some k
  end.

(** [find_first_free_state_number]: panics if there is none. *)
Definition find_first_free (p : list (N * Z)) : option N :=
  find (fun i => match bt_get p i with None => true | Some _ => false end)
       (map N.of_nat (seq 1 (length p - 1))).

Fixpoint renumber_states (fuel : nat) (a : adj) : res adj :=
  match fuel with
  | O => OutOfFuel
  | S f =>
      match first_mismatch 0%N (keys (a_prods a)) with
      | None => Ok a
      | Some st => match find_first_free (a_prods a) with
                   | None => Panic
                   | Some new_id => renumber_states f (rename_state a st new_id)
                   end
      end
  end.

Definition minimize_adj (o : oracle) (a : adj) : res adj :=
  bind (fold_res (fun a g => combine_states a (map fst (snd g)))
                 (group_by (o 0) Z.eqb snd (final_states a)) a)
       (fun a1 => bind (combine_equivalent_states (S (length (a_list a1))) o 1 a1)
                       (fun a2 => renumber_states (S (length (a_prods a2))) a2)).

(** ** [as_compiled_dfa] *)
Definition tr_key_leb (a b : trans) : bool :=
  N.ltb (t_from a) (t_from b) || (N.eqb (t_from a) (t_from b) && N.leb (t_tok a) (t_tok b)).

Fixpoint tr_ins (x : trans) (l : list trans) : list trans :=
  match l with
  | [] => [x]
  | y :: l' => if tr_key_leb x y then x :: l else y :: tr_ins x l'
  end.
(** [sort_by_key(|s| (s.from_state, s.term))] — stable. *)
Definition tr_sort (l : list trans) : list trans := fold_right tr_ins [] l.

Fixpoint state_transitions (p : list (N * Z)) (s : N) (nb : nbs) : res (list trans) :=
  match nb with
  | [] => Ok []
  | e :: nb' => match bt_get p (fst e) with
                | None => Panic
                | Some q => bind (state_transitions p s nb')
                                 (fun r => Ok (mkTrans s (snd e) (fst e) q :: r))
                end
  end.

Fixpoint all_transitions (p : list (N * Z)) (l : list (N * nbs)) : res (list trans) :=
  match l with
  | [] => Ok []
  | e :: l' => bind (state_transitions p (fst e) (snd e))
                    (fun r1 => bind (all_transitions p l') (fun r2 => Ok (r1 ++ r2)))
  end.

Definition as_compiled_dfa (a : adj) : res dfa :=
  bind (all_transitions (a_prods a) (a_list a)) (fun ts =>
    match bt_get (a_prods a) 0%N with
    | None => Panic
    | Some p0 => Ok (mkDfa p0 (tr_sort ts) (a_k a))
    end).

(** [CompiledDFA::minimize] *)
Definition minimize (o : oracle) (d : dfa) : res dfa :=
  bind (minimize_adj o (adj_of_dfa d)) as_compiled_dfa.

(** The compiled, minimised automaton of a family ([CompiledDFA::from_lookahead_dfa] on the
    result of [calculate_lookahead_dfas]). *)
Definition compile_min (o : oracle) (fam : family) : res dfa := bind (compile fam) (minimize o).

(** ** The unit tests of compiled_la_dfa.rs, replayed on the model (oracle: any) *)
Definition o_id : oracle := fun _ _ => 0.
Definition o_rev : oracle := fun _ n => n.
Definition o_mix : oracle := fun r n => r + 2 * n + 1.

Definition test_minimize_in : dfa :=
  mkDfa (-1) [ mkTrans 0 0 3 5; mkTrans 0 5 1 (-1); mkTrans 1 0 4 5; mkTrans 1 6 2 4 ] 2.

Example test_minimize :
  forall o, In o [o_id; o_rev; o_mix] ->
  minimize o test_minimize_in
  = Ok (mkDfa (-1) [ mkTrans 0 0 3 5; mkTrans 0 5 1 (-1); mkTrans 1 0 3 5; mkTrans 1 6 2 4 ] 2).
Proof. intros o [<-|[<-|[<-|[]]]]; vm_compute; reflexivity. Qed.

Example test_minimize_multiple_transitions :
  minimize o_mix (mkDfa (-1) [ mkTrans 0 0 2 2; mkTrans 0 5 2 2; mkTrans 0 6 1 1 ] 2)
  = Ok (mkDfa (-1) [ mkTrans 0 0 2 2; mkTrans 0 5 2 2; mkTrans 0 6 1 1 ] 2).
Proof. vm_compute. reflexivity. Qed.

Definition test_renumber_in : dfa :=
  mkDfa (-1) [ mkTrans 0 17 12 25; mkTrans 0 18 13 25; mkTrans 0 19 1 24; mkTrans 0 21 2 24;
               mkTrans 0 22 3 24; mkTrans 0 23 4 24; mkTrans 0 24 5 24; mkTrans 0 25 14 25;
               mkTrans 0 26 6 24; mkTrans 0 27 15 25; mkTrans 0 28 7 24; mkTrans 0 29 16 25;
               mkTrans 0 30 8 24; mkTrans 0 33 9 24; mkTrans 0 34 10 24; mkTrans 0 35 11 24 ] 1.

Example test_minimize_renumber_states :
  forall o, In o [o_id; o_rev; o_mix] ->
  minimize o test_renumber_in
  = Ok (mkDfa (-1) [ mkTrans 0 17 2 25; mkTrans 0 18 2 25; mkTrans 0 19 1 24; mkTrans 0 21 1 24;
               mkTrans 0 22 1 24; mkTrans 0 23 1 24; mkTrans 0 24 1 24; mkTrans 0 25 2 25;
               mkTrans 0 26 1 24; mkTrans 0 27 2 25; mkTrans 0 28 1 24; mkTrans 0 29 2 25;
               mkTrans 0 30 1 24; mkTrans 0 33 1 24; mkTrans 0 34 1 24; mkTrans 0 35 1 24 ] 1).
Proof. intros o [<-|[<-|[<-|[]]]]; vm_compute; reflexivity. Qed.

Definition test_complete_in : dfa :=
  mkDfa (-1) [ mkTrans 0 0 1 (-1); mkTrans 0 1 2 (-1); mkTrans 0 2 3 (-1); mkTrans 1 6 12 8;
               mkTrans 1 4 9 7; mkTrans 2 5 10 8; mkTrans 2 12 10 8; mkTrans 3 12 11 8;
               mkTrans 3 5 11 8 ] 2.

Example test_minimize_complete :
  forall o, In o [o_id; o_rev; o_mix] ->
  minimize o test_complete_in
  = Ok (mkDfa (-1) [ mkTrans 0 0 1 (-1); mkTrans 0 1 2 (-1); mkTrans 0 2 2 (-1); mkTrans 1 4 3 7;
                     mkTrans 1 6 4 8; mkTrans 2 5 4 8; mkTrans 2 12 4 8 ] 2).
Proof. intros o [<-|[<-|[<-|[]]]]; vm_compute; reflexivity. Qed.

(* ------------------------------------------------------------------------------------------- *)
(** * §2 Proofs: maps and neighbour lists *)

Definition ksorted {V} (m : list (N * V)) : Prop := StronglySorted N.lt (keys m).

Section BTLemmas.
  Context {V : Type}.
  Implicit Types m : list (N * V).

  Lemma bt_get_remove k m k' : bt_get (bt_remove k m) k' = if N.eqb k k' then None else bt_get m k'.
  Proof.
    induction m as [|e m IH]; cbn [bt_remove bt_get]; [destruct (N.eqb k k'); reflexivity|].
    destruct (N.eqb_spec (fst e) k) as [E|E].
    - rewrite IH. destruct (N.eqb_spec k k') as [E'|E']; [reflexivity|].
      destruct (N.eqb_spec (fst e) k'); [congruence|reflexivity].
    - cbn [bt_get]. rewrite IH. destruct (N.eqb_spec (fst e) k') as [E1|E1]; [|reflexivity].
      destruct (N.eqb_spec k k'); [congruence|reflexivity].
  Qed.

  Lemma bt_get_put k v m k' :
    bt_get m k = None -> bt_get (bt_put k v m) k' = if N.eqb k k' then Some v else bt_get m k'.
  Proof.
    induction m as [|e m IH]; cbn [bt_put bt_get fst snd]; intros H; [reflexivity|].
    destruct (N.eqb_spec (fst e) k) as [E|E]; [discriminate|].
    destruct (N.ltb k (fst e)); cbn [bt_get fst snd]; [reflexivity|].
    rewrite (IH H). destruct (N.eqb_spec (fst e) k') as [E1|E1]; [|reflexivity].
    destruct (N.eqb_spec k k'); [congruence|reflexivity].
  Qed.

  Lemma bt_get_insert k v m k' :
    bt_get (bt_insert k v m) k' = if N.eqb k k' then Some v else bt_get m k'.
  Proof.
    unfold bt_insert. rewrite bt_get_put.
    - rewrite bt_get_remove. destruct (N.eqb k k'); reflexivity.
    - rewrite bt_get_remove, N.eqb_refl. reflexivity.
  Qed.

  Lemma bt_get_in m k v : bt_get m k = Some v -> In (k, v) m.
  Proof.
    induction m as [|e m IH]; cbn [bt_get]; [discriminate|].
    destruct (N.eqb_spec (fst e) k) as [E|E].
    - intros H. inversion H; subst. left. destruct e; reflexivity.
    - intros H. right. apply IH. exact H.
  Qed.

  Lemma bt_get_key m k : bt_get m k <> None <-> In k (keys m).
  Proof.
    unfold keys. induction m as [|e m IH]; cbn [bt_get map In]; [split; [congruence|intros []]|].
    destruct (N.eqb_spec (fst e) k) as [E|E].
    - split; [intros _; left; exact E|discriminate].
    - rewrite IH. split; [intros H; right; exact H|intros [H|H]; [contradiction|exact H]].
  Qed.

  Lemma bt_in_get m k v : NoDup (keys m) -> In (k, v) m -> bt_get m k = Some v.
  Proof.
    unfold keys. induction m as [|e m IH]; intros Hn H; [destruct H|]. cbn [bt_get map] in *.
    inversion Hn as [|? ? Hnot Hn']; subst. destruct H as [->|H].
    - cbn [fst snd]. rewrite N.eqb_refl. reflexivity.
    - destruct (N.eqb_spec (fst e) k) as [E|E]; [|apply IH; assumption].
      exfalso. apply Hnot. apply in_map_iff. exists (k, v). auto.
  Qed.

  Lemma ksorted_nodup m : ksorted m -> NoDup (keys m).
  Proof.
    unfold ksorted. induction (keys m) as [|k ks IH]; intros H; [constructor|].
    inversion H as [|? ? H' Hall]; subst. constructor; [|apply IH; exact H'].
    intros Hin. rewrite Forall_forall in Hall. specialize (Hall k Hin). lia.
  Qed.

  Lemma keys_remove_forall (P : N -> Prop) k m :
    Forall P (keys m) -> Forall P (keys (bt_remove k m)).
  Proof.
    unfold keys. induction m as [|e m IH]; intros H; cbn [bt_remove map]; [constructor|].
    inversion H as [|? ? H1 H2]; subst. destruct (N.eqb (fst e) k); [apply IH; exact H2|].
    cbn [map]. constructor; [exact H1|apply IH; exact H2].
  Qed.

  Lemma ksorted_remove k m : ksorted m -> ksorted (bt_remove k m).
  Proof.
    unfold ksorted, keys. induction m as [|e m IH]; intros H; cbn [bt_remove map]; [constructor|].
    cbn [map] in H. inversion H as [|? ? H' Hall]; subst.
    destruct (N.eqb (fst e) k); [apply IH; exact H'|]. cbn [map].
    constructor; [apply IH; exact H'|]. apply (keys_remove_forall (fun x => (fst e < x)%N)). exact Hall.
  Qed.

  Lemma keys_put_forall (P : N -> Prop) k v m :
    P k -> Forall P (keys m) -> Forall P (keys (bt_put k v m)).
  Proof.
    unfold keys. intros Hk. induction m as [|e m IH]; intros H; cbn [bt_put map].
    - constructor; [exact Hk|constructor].
    - inversion H as [|? ? H1 H2]; subst. destruct (N.ltb k (fst e)); cbn [map fst].
      + constructor; [exact Hk|exact H].
      + constructor; [exact H1|apply IH; exact H2].
  Qed.

  Lemma ksorted_put k v m : ksorted m -> bt_get m k = None -> ksorted (bt_put k v m).
  Proof.
    unfold ksorted, keys. induction m as [|e m IH]; intros H Hk; cbn [bt_put map].
    - constructor; constructor.
    - cbn [map] in H. inversion H as [|? ? H' Hall]; subst. cbn [bt_get] in Hk.
      destruct (N.eqb_spec (fst e) k) as [E|E]; [discriminate|].
      destruct (N.ltb k (fst e)) eqn:L; cbn [map fst].
      + apply N.ltb_lt in L. constructor; [exact H|]. constructor; [exact L|].
        rewrite Forall_forall in *. intros x Hx. specialize (Hall x Hx). lia.
      + apply N.ltb_ge in L. constructor; [apply IH; assumption|].
        apply (keys_put_forall (fun x => (fst e < x)%N)); [lia|exact Hall].
  Qed.

  Lemma ksorted_insert k v m : ksorted m -> ksorted (bt_insert k v m).
  Proof.
    intros H. unfold bt_insert. apply ksorted_put; [apply ksorted_remove; exact H|].
    rewrite bt_get_remove, N.eqb_refl. reflexivity.
  Qed.

  Lemma bt_sorted_in_get m k v : ksorted m -> In (k, v) m -> bt_get m k = Some v.
  Proof. intros H. apply bt_in_get. apply ksorted_nodup. exact H. Qed.
End BTLemmas.

Lemma keys_map_vals {V W} (f : V -> W) m : keys (map_vals f m) = keys m.
Proof. unfold keys, map_vals. rewrite map_map. apply map_ext. reflexivity. Qed.

Lemma bt_get_map_vals {V W} (f : V -> W) m k :
  bt_get (map_vals f m) k = match bt_get m k with Some v => Some (f v) | None => None end.
Proof.
  unfold map_vals. induction m as [|e m IH]; cbn [map bt_get fst snd]; [reflexivity|].
  destruct (N.eqb (fst e) k); [reflexivity|exact IH].
Qed.

Lemma ksorted_map_vals {V W} (f : V -> W) m : ksorted m -> ksorted (map_vals f m).
Proof. unfold ksorted. rewrite keys_map_vals. auto. Qed.

(** Neighbour lists *)
Lemma nb_ins_in x l y : In y (nb_ins x l) <-> y = x \/ In y l.
Proof.
  induction l as [|z l IH]; cbn [nb_ins].
  - cbn. intuition.
  - destruct (nb_leb x z); cbn [In]; [intuition|]. rewrite IH. cbn [In]. intuition.
Qed.

Lemma nb_sort_in l y : In y (nb_sort l) <-> In y l.
Proof.
  unfold nb_sort. induction l as [|x l IH]; cbn [fold_right]; [reflexivity|].
  rewrite nb_ins_in, IH. cbn [In]. intuition.
Qed.

Definition hmap (id new_id s : N) : N := if N.eqb s id then new_id else s.

Lemma rename_neighbor_in id new_id l t' c :
  In (t', c) (rename_neighbor id new_id l) <-> exists t, In (t, c) l /\ t' = hmap id new_id t.
Proof.
  unfold rename_neighbor.
  assert (H : In (t', c) (map (fun e : N * N => if N.eqb (fst e) id then (new_id, snd e) else e) l)
              <-> exists t, In (t, c) l /\ t' = hmap id new_id t).
  { rewrite in_map_iff. unfold hmap. split.
    - intros ([t c0] & E & Hin). cbn [fst snd] in E. exists t.
      destruct (N.eqb t id); inversion E; subst; auto.
    - intros (t & Hin & ->). exists (t, c). split; [|exact Hin]. cbn [fst snd].
      destruct (N.eqb t id); reflexivity. }
  destruct (existsb _ l); [rewrite nb_sort_in|]; exact H.
Qed.

Lemma rename_neighbor_nil id new_id : rename_neighbor id new_id [] = [].
Proof. reflexivity. Qed.

Lemma nb_eqb_refl x : nb_eqb x x = true.
Proof. unfold nb_eqb. rewrite !N.eqb_refl. reflexivity. Qed.

Lemma nb_eqb_eq x y : nb_eqb x y = true -> x = y.
Proof.
  unfold nb_eqb. intros H. apply andb_prop in H as [A B]. apply N.eqb_eq in A. apply N.eqb_eq in B.
  destruct x, y. cbn in *. congruence.
Qed.

Lemma nbs_eqb_eq a b : nbs_eqb a b = true -> a = b.
Proof.
  revert b. induction a as [|x a IH]; intros [|y b]; cbn [nbs_eqb]; intros H; try discriminate.
  - reflexivity.
  - apply andb_prop in H as [A B]. apply nb_eqb_eq in A. apply IH in B. congruence.
Qed.

Lemma nbs_eqb_refl a : nbs_eqb a a = true.
Proof. induction a as [|x a IH]; cbn [nbs_eqb]; [reflexivity|]. rewrite nb_eqb_refl. exact IH. Qed.

Lemma nb_append_absorb (l other : nbs) : (forall n, In n other -> In n l) -> nb_append l other = l.
Proof.
  unfold nb_append. intros H. cbv zeta.
  assert (E : fold_left nb_push other (l, false) = (l, false)).
  { induction other as [|n other IH]; cbn [fold_left]; [reflexivity|]. unfold nb_push at 2. cbn [fst].
    assert (Ex : existsb (nb_eqb n) l = true).
    { apply existsb_exists. exists n. split; [apply H; left; reflexivity|apply nb_eqb_refl]. }
    rewrite Ex. apply IH. intros m Hm. apply H. right. exact Hm. }
  rewrite E. reflexivity.
Qed.

(* ------------------------------------------------------------------------------------------- *)
(** * §3 Semantics of adjacency lists and the homomorphism argument *)

Definition aedge (a : adj) (s c t : N) : Prop :=
  exists nb, bt_get (a_list a) s = Some nb /\ In (t, c) nb.
Definition aprod (a : adj) (s : N) : option Z := bt_get (a_prods a) s.
Definition akey (a : adj) (s : N) : Prop := bt_get (a_list a) s <> None.

Inductive arun (a : adj) : list N -> N -> N -> Prop :=
| arun_nil s : arun a [] s s
| arun_cons c u s t s' : aedge a s c t -> arun a u t s' -> arun a (c :: u) s s'.

Definition aaccepts (a : adj) (u : list N) (p : Z) : Prop :=
  exists s, arun a u 0%N s /\ aprod a s = Some p /\ valid p = true.

Record awf (a : adj) : Prop := {
  w_ls : ksorted (a_list a);
  w_ps : ksorted (a_prods a);
  w_keys : forall s, bt_get (a_list a) s <> None <-> bt_get (a_prods a) s <> None;
  w_zero : akey a 0%N;
  w_det : forall s c t1 t2, aedge a s c t1 -> aedge a s c t2 -> t1 = t2;
  w_closed : forall s c t, aedge a s c t -> akey a t;
  w_leaf : forall s p nb, aprod a s = Some p -> p <> INVALID_PROD ->
                          bt_get (a_list a) s = Some nb -> nb = [] }.

Lemma aedge_key a s c t : aedge a s c t -> akey a s.
Proof. intros (nb & H & _). unfold akey. congruence. Qed.

Lemma hom_accepts a a' (h : N -> N) :
  (forall s c t, aedge a s c t -> aedge a' (h s) c (h t)) ->
  (forall s c t', akey a s -> aedge a' (h s) c t' -> exists t, aedge a s c t /\ h t = t') ->
  (forall s, akey a s -> aprod a' (h s) = aprod a s) ->
  (forall s c t, aedge a s c t -> akey a t) ->
  h 0%N = 0%N -> akey a 0%N ->
  forall u p, aaccepts a' u p <-> aaccepts a u p.
Proof.
  intros H1 H2 H3 H4 H5 H6.
  assert (Fwd : forall u s s', arun a u s s' -> arun a' u (h s) (h s')).
  { intros u s s' R. induction R as [s|c u s t s' E R IH]; [constructor|].
    apply (arun_cons a' c u (h s) (h t) (h s')); [apply H1; exact E|exact IH]. }
  assert (Key : forall u s s', arun a u s s' -> akey a s -> akey a s').
  { intros u s s' R. induction R as [s|c u s t s' E R IH]; [auto|].
    intros _. apply IH. apply (H4 _ _ _ E). }
  assert (Bwd : forall u s s'', akey a s -> arun a' u (h s) s'' ->
                exists s', arun a u s s' /\ h s' = s'').
  { induction u as [|c u IH]; intros s s'' K R.
    - inversion R; subst. exists s. split; [constructor|reflexivity].
    - inversion R as [|? ? ? t' ? E R']; subst.
      destruct (H2 s c t' K E) as (t & Et & <-).
      destruct (IH t s'' (H4 _ _ _ Et) R') as (s' & Rs & Hs).
      exists s'. split; [apply (arun_cons a c u s t s' Et Rs)|exact Hs]. }
  intros u p. unfold aaccepts. split.
  - intros (s'' & R & P & V). rewrite <- H5 in R. destruct (Bwd u 0%N s'' H6 R) as (s' & Rs & <-).
    exists s'. split; [exact Rs|]. split; [|exact V]. rewrite <- (H3 s' (Key _ _ _ Rs H6)). exact P.
  - intros (s' & R & P & V). exists (h s'). split; [rewrite <- H5; apply Fwd; exact R|].
    split; [|exact V]. rewrite (H3 s' (Key _ _ _ R H6)). exact P.
Qed.

(** ** [rename_state] when the renamed state is absent (the call in [combine_two_states]) *)
Lemma rename_absent a id new_id :
  bt_get (a_list a) id = None -> bt_get (a_prods a) id = None ->
  rename_state a id new_id =
  mkAdj (map_vals (rename_neighbor id new_id) (a_list a)) (a_prods a) (a_k a).
Proof. intros H1 H2. unfold rename_state. rewrite H1, H2. reflexivity. Qed.

Lemma combine_two_inv a keep merge a' :
  combine_two_states a keep merge = Ok a' ->
  keep <> merge /\
  exists lk lm pk,
    bt_get (a_list a) keep = Some lk /\ bt_get (a_list a) merge = Some lm /\
    bt_get (a_prods a) keep = Some pk /\ bt_get (a_prods a) merge = Some pk /\
    a' = mkAdj (map_vals (rename_neighbor merge keep)
                  (bt_remove merge (bt_insert keep (nb_append lk lm) (a_list a))))
               (bt_remove merge (a_prods a)) (a_k a).
Proof.
  unfold combine_two_states. destruct (N.eqb_spec keep merge) as [E|E]; [discriminate|].
  destruct (bt_get (a_list a) keep) as [lk|]; [|discriminate].
  destruct (bt_get (a_list a) merge) as [lm|]; [|discriminate].
  destruct (bt_get (a_prods a) keep) as [pk|]; [|discriminate].
  destruct (bt_get (a_prods a) merge) as [pm|]; [|discriminate].
  destruct (Z.eqb_spec pk pm) as [Ep|Ep]; [|discriminate]. cbn [negb]. intros H. inversion H.
  split; [exact E|]. exists lk, lm, pk. subst pm. repeat split.
  unfold remove_state. cbn [a_list a_prods a_k]. rewrite rename_absent; cbn [a_list a_prods a_k].
  - reflexivity.
  - rewrite bt_get_remove, N.eqb_refl. reflexivity.
  - rewrite bt_get_remove, N.eqb_refl. reflexivity.
Qed.

(** One merge step under the precondition that the two states have the same neighbour list. *)
Lemma combine_two_hom a keep merge a' :
  awf a -> combine_two_states a keep merge = Ok a' ->
  (forall lk lm, bt_get (a_list a) keep = Some lk -> bt_get (a_list a) merge = Some lm -> lk = lm) ->
  merge <> 0%N ->
  awf a' /\ (forall u p, aaccepts a' u p <-> aaccepts a u p) /\
  a_prods a' = bt_remove merge (a_prods a) /\ a_k a' = a_k a /\
  (forall s, bt_get (a_list a') s =
             if N.eqb merge s then None
             else match bt_get (a_list a) s with
                  | Some nb => Some (rename_neighbor merge keep nb) | None => None end).
Proof.
  intros W H Hsame Hm0.
  destruct (combine_two_inv _ _ _ _ H) as (Hne & lk & lm & pk & Gk & Gm & Pk & Pm & ->).
  assert (lk = lm) by (apply Hsame; assumption). subst lm.
  rewrite nb_append_absorb by auto.
  assert (Hget : forall s, bt_get (map_vals (rename_neighbor merge keep)
                              (bt_remove merge (bt_insert keep lk (a_list a)))) s =
             if N.eqb merge s then None
             else match bt_get (a_list a) s with
                  | Some nb => Some (rename_neighbor merge keep nb) | None => None end).
  { intros s. rewrite bt_get_map_vals, bt_get_remove. destruct (N.eqb merge s); [reflexivity|].
    rewrite bt_get_insert. destruct (N.eqb_spec keep s) as [<-|E]; [rewrite Gk; reflexivity|reflexivity]. }
  set (a' := mkAdj _ _ _).
  assert (Hedge : forall s c t', aedge a' s c t' <->
                    s <> merge /\ exists t, aedge a s c t /\ t' = hmap merge keep t).
  { intros s c t'. unfold aedge. subst a'. cbn [a_list]. split.
    - intros (nb' & G & Hin). rewrite Hget in G. destruct (N.eqb_spec merge s) as [E|E]; [discriminate|].
      destruct (bt_get (a_list a) s) as [nb|] eqn:Gs; [|discriminate]. inversion G; subst nb'.
      apply rename_neighbor_in in Hin as (t & Hin & ->). split; [congruence|]. exists t. split; [|reflexivity].
      exists nb. auto.
    - intros (Hs & t & (nb & Gs & Hin) & ->). exists (rename_neighbor merge keep nb).
      rewrite Hget. destruct (N.eqb_spec merge s) as [E|E]; [congruence|]. rewrite Gs.
      split; [reflexivity|]. apply rename_neighbor_in. exists t. auto. }
  assert (Hprod : forall s, aprod a' s = if N.eqb merge s then None else aprod a s).
  { intros s. unfold aprod. subst a'. cbn [a_prods]. apply bt_get_remove. }
  assert (Hkey : forall s, akey a' s <-> s <> merge /\ akey a s).
  { intros s. unfold akey. subst a'. cbn [a_list]. rewrite Hget.
    destruct (N.eqb_spec merge s) as [E|E].
    - split; [congruence|intros [A _]; congruence].
    - destruct (bt_get (a_list a) s) as [nb|].
      + split; [intros _; split; [congruence|discriminate]|intros _; discriminate].
      + split; [congruence|intros [_ A]; congruence]. }
  assert (Hh : forall s, hmap merge keep s <> merge).
  { intros s. unfold hmap. destruct (N.eqb_spec s merge); congruence. }
  split; [|split; [|split; [reflexivity|split; [reflexivity|exact Hget]]]].
  - constructor.
    + subst a'. cbn [a_list]. apply ksorted_map_vals, ksorted_remove, ksorted_insert, (w_ls _ W).
    + subst a'. cbn [a_prods]. apply ksorted_remove, (w_ps _ W).
    + intros s. fold (akey a' s). rewrite Hkey. fold (aprod a' s). rewrite Hprod.
      destruct (N.eqb_spec merge s) as [E|E]; [split; [intros [A _]; congruence|congruence]|].
      rewrite <- (w_keys _ W s). unfold akey, aprod. split; [intros [_ A]; exact A|intros A; split; [congruence|exact A]].
    + apply Hkey. split; [auto|apply (w_zero _ W)].
    + intros s c t1 t2 E1 E2. apply Hedge in E1 as (_ & t1' & E1 & ->). apply Hedge in E2 as (_ & t2' & E2 & ->).
      rewrite (w_det _ W _ _ _ _ E1 E2). reflexivity.
    + intros s c t' E. apply Hedge in E as (_ & t & E & ->). apply Hkey. split; [apply Hh|].
      unfold hmap. destruct (N.eqb_spec t merge) as [Et|Et]; [unfold akey; congruence|apply (w_closed _ W _ _ _ E)].
    + intros s p nb' P Hp G. rewrite Hprod in P. subst a'. cbn [a_list] in G. rewrite Hget in G.
      destruct (N.eqb merge s); [discriminate|].
      destruct (bt_get (a_list a) s) as [nb|] eqn:Gs; [|discriminate]. inversion G; subst nb'.
      rewrite (w_leaf _ W s p nb P Hp Gs). reflexivity.
  - apply (hom_accepts a a' (hmap merge keep)).
    + intros s c t E. apply Hedge. split; [apply Hh|]. unfold hmap at 1.
      destruct (N.eqb_spec s merge) as [Es|Es]; [|exists t; auto].
      subst s. destruct E as (nb & G & Hin). rewrite Gm in G. inversion G; subst nb.
      exists t. split; [exists lk; auto|reflexivity].
    + intros s c t' K E. apply Hedge in E as (_ & t & E & ->). unfold hmap at 1 in E.
      destruct (N.eqb_spec s merge) as [Es|Es]; [|exists t; auto].
      subst s. destruct E as (nb & G & Hin). rewrite Gk in G. inversion G; subst nb.
      exists t. split; [exists lk; auto|reflexivity].
    + intros s K. rewrite Hprod. assert (Hn := Hh s). destruct (N.eqb_spec merge (hmap merge keep s)) as [E|E]; [congruence|].
      unfold hmap. destruct (N.eqb_spec s merge) as [Es|Es]; [|reflexivity]. subst s. unfold aprod. congruence.
    + apply (w_closed _ W).
    + unfold hmap. destruct (N.eqb_spec 0 merge); [congruence|reflexivity].
    + apply (w_zero _ W).
Qed.

Definition aequiv (a' a : adj) : Prop := forall u p, aaccepts a' u p <-> aaccepts a u p.

Lemma combine_states_hom : forall rest a keep a',
  awf a -> Forall (fun m => m <> 0%N) rest ->
  (forall m lk lm, In m rest -> bt_get (a_list a) keep = Some lk ->
                   bt_get (a_list a) m = Some lm -> lk = lm) ->
  fold_res (fun a m => combine_two_states a keep m) rest a = Ok a' ->
  awf a' /\ aequiv a' a /\ (forall s p, aprod a' s = Some p -> aprod a s = Some p) /\
  a_k a' = a_k a.
Proof.
  induction rest as [|m rest IH]; intros a keep a' W H0 Hsame H.
  - cbn [fold_res] in H. inversion H; subst. split; [exact W|]. split; [intros u p; reflexivity|]. auto.
  - cbn [fold_res] in H. destruct (combine_two_states a keep m) as [a1| | | |] eqn:C; try discriminate.
    cbn [bind] in H. inversion H0 as [|? ? Hm0 H0']; subst.
    destruct (combine_two_hom a keep m a1 W C) as (W1 & E1 & P1 & K1 & G1).
    { intros lk lm. apply (Hsame m lk lm (or_introl eq_refl)). }
    { exact Hm0. }
    destruct (IH a1 keep a' W1 H0') as (W' & E' & P' & K'); [|exact H|].
    + intros m2 lk' lm' Hin Gk' Gm'. rewrite G1 in Gk', Gm'.
      destruct (N.eqb m keep); [discriminate|]. destruct (N.eqb m m2); [discriminate|].
      destruct (bt_get (a_list a) keep) as [lk|] eqn:Gk; [|discriminate].
      destruct (bt_get (a_list a) m2) as [lm|] eqn:Gm; [|discriminate].
      inversion Gk'; inversion Gm'; subst.
      rewrite (Hsame m2 lk lm (or_intror Hin) eq_refl Gm). reflexivity.
    + split; [exact W'|]. split; [intros u p; rewrite (E' u p); apply E1|].
      split; [|congruence]. intros s p Hp. apply P' in Hp. unfold aprod in *. rewrite P1, bt_get_remove in Hp.
      destruct (N.eqb m s); [discriminate|exact Hp].
Qed.

Lemma SS_head_nonzero k rest : StronglySorted N.lt (k :: rest) -> Forall (fun m => m <> 0%N) rest.
Proof.
  intros H. inversion H as [|? ? _ Hall]; subst. rewrite Forall_forall in *.
  intros m Hm. specialize (Hall m Hm). lia.
Qed.

(** ** [group_by] *)
Lemma insert_at_in {A} n (x : A) l y : In y (insert_at n x l) -> y = x \/ In y l.
Proof.
  unfold insert_at. intros H. rewrite <- (firstn_skipn n l). apply in_app_or in H as [H|[H|H]].
  - right. apply in_or_app. left. exact H.
  - left. auto.
  - right. apply in_or_app. right. exact H.
Qed.

Lemma permute_in {A} o (l : list A) y : In y (permute o l) -> In y l.
Proof.
  induction l as [|x l IH]; cbn [permute]; [auto|]. intros H.
  apply insert_at_in in H as [->|H]; [left; reflexivity|right; apply IH; exact H].
Qed.

Section GroupSpec.
  Context {T K : Type} (eqb : K -> K -> bool) (proj : T -> K) (key : T -> N) (Q : T -> Prop).
  Hypothesis eqb_refl : forall k, eqb k k = true.

  Definition ginv (gs : list (K * list T)) (rest : list T) : Prop :=
    forall g, In g gs ->
      StronglySorted N.lt (map key (snd g)) /\
      forall x, In x (snd g) -> Q x /\ eqb (fst g) (proj x) = true /\
                                forall y, In y rest -> (key x < key y)%N.

  Lemma grp_push_inv t rest gs :
    Q t -> (forall y, In y rest -> (key t < key y)%N) ->
    ginv gs (t :: rest) -> ginv (grp_push eqb proj t gs) rest.
  Proof.
    intros Qt Ht. induction gs as [|g gs IH]; intros Hinv; cbn [grp_push].
    - intros g' [<-|[]]. cbn [fst snd map]. split; [constructor; constructor|].
      intros x [<-|[]]. split; [exact Qt|]. split; [apply eqb_refl|exact Ht].
    - assert (Hg := Hinv g (or_introl eq_refl)).
      assert (Hgs : ginv gs (t :: rest)) by (intros g' Hg'; apply Hinv; right; exact Hg').
      assert (Hweak : forall g', In g' gs ->
                StronglySorted N.lt (map key (snd g')) /\
                forall x, In x (snd g') -> Q x /\ eqb (fst g') (proj x) = true /\
                                           forall y, In y rest -> (key x < key y)%N).
      { intros g' Hg'. destruct (Hgs g' Hg') as [S X]. split; [exact S|]. intros x Hx.
        destruct (X x Hx) as (A & B & C). split; [exact A|]. split; [exact B|].
        intros y Hy. apply C. right. exact Hy. }
      destruct (eqb (fst g) (proj t)) eqn:E.
      + intros g' [<-|Hg']; [|apply Hweak; exact Hg']. cbn [fst snd]. destruct Hg as [S X]. split.
        * rewrite map_app. apply SS_app; [exact S|constructor; constructor|].
          intros a b Ha [<-|[]]. apply in_map_iff in Ha as (x & <- & Hx).
          apply (X x Hx). left. reflexivity.
        * intros x Hx. apply in_app_or in Hx as [Hx|[<-|[]]].
          -- destruct (X x Hx) as (A & B & C). split; [exact A|]. split; [exact B|].
             intros y Hy. apply C. right. exact Hy.
          -- split; [exact Qt|]. split; [exact E|exact Ht].
      + intros g' [<-|Hg'].
        * destruct Hg as [S X]. split; [exact S|]. intros x Hx. destruct (X x Hx) as (A & B & C).
          split; [exact A|]. split; [exact B|]. intros y Hy. apply C. right. exact Hy.
        * apply (IH Hgs g' Hg').
  Qed.

  Lemma group_fold_inv : forall data gs,
    StronglySorted N.lt (map key data) -> (forall x, In x data -> Q x) ->
    ginv gs data -> ginv (fold_left (fun gs t => grp_push eqb proj t gs) data gs) [].
  Proof.
    induction data as [|t data IH]; intros gs S HQ Hinv; cbn [fold_left]; [exact Hinv|].
    cbn [map] in S. inversion S as [|? ? S' Hall]; subst. apply IH.
    - exact S'.
    - intros x Hx. apply HQ. right. exact Hx.
    - apply grp_push_inv; [apply HQ; left; reflexivity| |exact Hinv].
      intros y Hy. rewrite Forall_forall in Hall. apply Hall. apply in_map. exact Hy.
  Qed.

  Lemma group_by_spec o data g :
    StronglySorted N.lt (map key data) -> (forall x, In x data -> Q x) ->
    In g (group_by o eqb proj data) ->
    StronglySorted N.lt (map key (snd g)) /\
    forall x, In x (snd g) -> Q x /\ eqb (fst g) (proj x) = true.
  Proof.
    intros S HQ Hg. unfold group_by in Hg. apply permute_in in Hg. unfold group_fold in Hg.
    destruct (group_fold_inv data [] S HQ (fun g' (H : In g' []) => match H with end) g Hg) as [A B].
    split; [exact A|]. intros x Hx. destruct (B x Hx) as (C & D & _). auto.
  Qed.
End GroupSpec.

Lemma SS_filter {A} (key : A -> N) (f : A -> bool) l :
  StronglySorted N.lt (map key l) -> StronglySorted N.lt (map key (filter f l)).
Proof.
  induction l as [|x l IH]; intros S; cbn [filter map]; [constructor|].
  cbn [map] in S. inversion S as [|? ? S' Hall]; subst. destruct (f x); [|apply IH; exact S'].
  cbn [map]. constructor; [apply IH; exact S'|]. rewrite Forall_forall in *. intros k Hk.
  apply in_map_iff in Hk as (y & <- & Hy). apply filter_In in Hy as [Hy _]. apply Hall.
  apply in_map. exact Hy.
Qed.

Lemma fold_res_ok_ind {A B} (f : A -> B -> res A) (P : A -> Prop) l :
  (forall a b a', In b l -> P a -> f a b = Ok a' -> P a') ->
  forall a a', P a -> fold_res f l a = Ok a' -> P a'.
Proof.
  induction l as [|b l IH]; intros Hstep a a' Pa H; cbn [fold_res] in H.
  - inversion H; subst. exact Pa.
  - destruct (f a b) as [a1| | | |] eqn:E; try discriminate. cbn [bind] in H.
    apply (IH (fun a0 b0 a0' Hb0 => Hstep a0 b0 a0' (or_intror Hb0)) a1 a'); [|exact H].
    apply (Hstep a b a1 (or_introl eq_refl) Pa E).
Qed.

(** ** Phase 1: merging the accepting states of equal production *)
Lemma phase1_hom o a a' :
  awf a ->
  fold_res (fun a g => combine_states a (map fst (snd g)))
           (group_by o Z.eqb snd (final_states a)) a = Ok a' ->
  awf a' /\ aequiv a' a /\ a_k a' = a_k a.
Proof.
  intros W H.
  set (P := fun a1 => awf a1 /\ aequiv a1 a /\
                      (forall s p, aprod a1 s = Some p -> aprod a s = Some p) /\ a_k a1 = a_k a).
  assert (Hfin : P a').
  { assert (P0 : P a).
    { unfold P. split; [exact W|]. split; [intros u p; reflexivity|]. split; [auto|reflexivity]. }
    refine (fold_res_ok_ind _ P _ _ a a' P0 H).
    intros a1 g a2 Hg (W1 & E1 & S1 & K1) C.
    destruct (group_by_spec Z.eqb snd fst (fun x => In x (final_states a)) Z.eqb_refl o (final_states a) g)
      as [Sg Xg]; [apply SS_filter, (w_ps _ W)|auto|exact Hg|].
    assert (Hleaf : forall m l, In m (map fst (snd g)) -> bt_get (a_list a1) m = Some l -> l = []).
    { intros m l Hm Gm. apply in_map_iff in Hm as ([m' pm] & <- & Hx). cbn [fst] in *.
      destruct (Xg _ Hx) as [Hf _]. unfold final_states in Hf. apply filter_In in Hf as [Hin Hp].
      cbn [snd] in Hp. apply negb_true_iff in Hp. apply Z.eqb_neq in Hp.
      apply (bt_sorted_in_get _ _ _ (w_ps _ W)) in Hin.
      destruct (bt_get (a_prods a1) m') as [p'|] eqn:Pm.
      - assert (Pa := S1 m' p' Pm). unfold aprod in Pa. rewrite Hin in Pa. inversion Pa; subst p'.
        apply (w_leaf _ W1 m' pm l Pm Hp Gm).
      - exfalso. apply (proj1 (w_keys _ W1 m')); [congruence|exact Pm]. }
    unfold combine_states in C. destruct (map fst (snd g)) as [|keep rest] eqn:Ems.
    - inversion C; subst. unfold P. auto.
    - destruct (combine_states_hom rest a1 keep a2 W1 (SS_head_nonzero _ _ Sg)) as (W2 & E2 & S2 & K2); [|exact C|].
      + intros m lk lm Hm Gk Gm. rewrite (Hleaf keep lk (or_introl eq_refl) Gk).
        rewrite (Hleaf m lm (or_intror Hm) Gm). reflexivity.
      + unfold P. split; [exact W2|]. split; [intros u p; rewrite (E2 u p); apply E1|].
        split; [intros s p Hp; apply S1, S2, Hp|congruence]. }
  destruct Hfin as (A & B & _ & D). auto.
Qed.

(** ** Phase 2: merging non-accepting states with identical neighbour lists *)
Lemma combinable_spec a : forall l cs,
  combinable_states a l = Ok cs -> StronglySorted N.lt (map fst l) ->
  StronglySorted N.lt (map fst cs) /\ forall x, In x cs -> In x l.
Proof.
  induction l as [|e l IH]; intros cs H S; cbn [combinable_states] in H.
  - inversion H; subst. split; [constructor|intros x []].
  - destruct (bt_get (a_prods a) (fst e)) as [p|]; [|discriminate].
    destruct (combinable_states a l) as [r| | | |] eqn:C; try discriminate. cbn [bind] in H.
    cbn [map] in S. inversion S as [|? ? S' Hall]; subst. destruct (IH r eq_refl S') as [Sr Xr].
    inversion H; subst. destruct (Z.eqb p INVALID_PROD).
    + split.
      * cbn [map]. constructor; [exact Sr|]. rewrite Forall_forall in *. intros k Hk.
        apply in_map_iff in Hk as (y & <- & Hy). apply Hall. apply in_map. apply Xr. exact Hy.
      * intros x [<-|Hx]; [left; reflexivity|right; apply Xr; exact Hx].
    + split; [exact Sr|]. intros x Hx. right. apply Xr. exact Hx.
Qed.

Lemma phase2_hom : forall fuel o round a a',
  awf a -> combine_equivalent_states fuel o round a = Ok a' ->
  awf a' /\ aequiv a' a /\ a_k a' = a_k a.
Proof.
  induction fuel as [|fuel IH]; intros o round a a' W H; [discriminate|].
  cbn [combine_equivalent_states] in H.
  destruct (combinable_states a (a_list a)) as [cs| | | |] eqn:C; try discriminate. cbn [bind] in H.
  destruct (combinable_spec a _ _ C (w_ls _ W)) as [Scs Xcs].
  destruct (find _ (group_by (o round) nbs_eqb snd cs)) as [g|] eqn:F.
  - apply find_some in F as [Hg _].
    destruct (group_by_spec nbs_eqb snd fst (fun x => In x (a_list a)) nbs_eqb_refl (o round) cs g Scs Xcs Hg)
      as [Sg Xg].
    destruct (combine_states a (map fst (snd g))) as [a1| | | |] eqn:C1; try discriminate.
    cbn [bind] in H.
    assert (Hl : forall m l, In m (map fst (snd g)) -> bt_get (a_list a) m = Some l -> l = fst g).
    { intros m l Hm Gm. apply in_map_iff in Hm as ([m' l'] & <- & Hx). cbn [fst] in *.
      destruct (Xg _ Hx) as [Hin Heq]. cbn [snd] in Heq. apply nbs_eqb_eq in Heq.
      apply (bt_sorted_in_get _ _ _ (w_ls _ W)) in Hin. congruence. }
    assert (W1E : awf a1 /\ aequiv a1 a /\ a_k a1 = a_k a).
    { unfold combine_states in C1. destruct (map fst (snd g)) as [|keep rest] eqn:Ems.
      - inversion C1; subst. split; [exact W|]. split; [intros u p; reflexivity|reflexivity].
      - destruct (combine_states_hom rest a keep a1 W (SS_head_nonzero _ _ Sg)) as (W2 & E2 & _ & K2); [|exact C1|auto].
        intros m lk lm Hm Gk Gm. rewrite (Hl keep lk (or_introl eq_refl) Gk).
        rewrite (Hl m lm (or_intror Hm) Gm). reflexivity. }
    destruct W1E as (W1 & E1 & K1). destruct (IH o (S round) a1 a' W1 H) as (W' & E' & K').
    split; [exact W'|]. split; [intros u p; rewrite (E' u p); apply E1|congruence].
  - inversion H; subst. split; [exact W|]. split; [intros u p; reflexivity|reflexivity].
Qed.

(** ** Phase 3: renumbering *)
Lemma rename_hom a id new_id :
  awf a -> akey a id -> ~ akey a new_id -> id <> 0%N ->
  awf (rename_state a id new_id) /\ aequiv (rename_state a id new_id) a /\
  a_k (rename_state a id new_id) = a_k a.
Proof.
  intros W Kid Knew Hid0.
  destruct (bt_get (a_list a) id) as [e|] eqn:Ge; [|unfold akey in Kid; congruence].
  assert (Lnew : bt_get (a_list a) new_id = None).
  { unfold akey in Knew. destruct (bt_get (a_list a) new_id); [exfalso; apply Knew; discriminate|reflexivity]. }
  assert (Pnew : bt_get (a_prods a) new_id = None).
  { destruct (bt_get (a_prods a) new_id) eqn:E; [|reflexivity]. exfalso.
    apply (proj2 (w_keys _ W new_id)); [congruence|exact Lnew]. }
  destruct (bt_get (a_prods a) id) as [p|] eqn:Gp;
    [|exfalso; apply (proj1 (w_keys _ W id)); [congruence|exact Gp]].
  assert (Hne : id <> new_id) by congruence.
  set (a' := rename_state a id new_id).
  assert (Hget : forall s', bt_get (a_list a') s' =
            match (if N.eqb new_id s' then Some e else if N.eqb id s' then None else bt_get (a_list a) s')
            with Some nb => Some (rename_neighbor id new_id nb) | None => None end).
  { intros s'. subst a'. unfold rename_state. rewrite Ge. cbn [a_list].
    rewrite bt_get_map_vals, bt_get_insert, bt_get_remove. reflexivity. }
  assert (Hprod : forall s', aprod a' s' =
            if N.eqb new_id s' then Some p else if N.eqb id s' then None else aprod a s').
  { intros s'. unfold aprod. subst a'. unfold rename_state. rewrite Gp. cbn [a_prods].
    rewrite bt_get_insert, bt_get_remove. reflexivity. }
  assert (Hh_id : hmap id new_id id = new_id) by (unfold hmap; rewrite N.eqb_refl; reflexivity).
  assert (Hh_ne : forall s, s <> id -> hmap id new_id s = s).
  { intros s Hs. unfold hmap. destruct (N.eqb_spec s id); [contradiction|reflexivity]. }
  assert (Hinj : forall s1 s2, akey a s1 -> akey a s2 -> hmap id new_id s1 = hmap id new_id s2 -> s1 = s2).
  { intros s1 s2 K1 K2. unfold hmap. destruct (N.eqb_spec s1 id) as [E1|E1], (N.eqb_spec s2 id) as [E2|E2];
      intros E; try congruence; exfalso; apply Knew; congruence. }
  assert (Hedge : forall s' c t', aedge a' s' c t' <->
            exists s t, aedge a s c t /\ s' = hmap id new_id s /\ t' = hmap id new_id t).
  { intros s' c t'. unfold aedge at 1. split.
    - intros (nb' & G & Hin). rewrite Hget in G.
      destruct (N.eqb_spec new_id s') as [En|En].
      + inversion G; subst nb'. apply rename_neighbor_in in Hin as (t & Hin & ->).
        exists id, t. split; [exists e; auto|]. split; [congruence|reflexivity].
      + destruct (N.eqb_spec id s') as [Ei|Ei]; [discriminate|].
        destruct (bt_get (a_list a) s') as [nb|] eqn:Gs; [|discriminate]. inversion G; subst nb'.
        apply rename_neighbor_in in Hin as (t & Hin & ->). exists s', t.
        split; [exists nb; auto|]. split; [symmetry; apply Hh_ne; congruence|reflexivity].
    - intros (s & t & (nb & Gs & Hin) & -> & ->). exists (rename_neighbor id new_id nb). rewrite Hget.
      split; [|apply rename_neighbor_in; exists t; auto].
      destruct (N.eq_dec s id) as [->|Es].
      + rewrite Hh_id, N.eqb_refl. congruence.
      + rewrite (Hh_ne s Es). destruct (N.eqb_spec new_id s) as [E|E]; [congruence|].
        destruct (N.eqb_spec id s) as [E'|E']; [congruence|]. rewrite Gs. reflexivity. }
  assert (Hkey : forall s, akey a s -> akey a' (hmap id new_id s)).
  { intros s K. unfold akey. rewrite Hget. destruct (N.eq_dec s id) as [->|Es].
    - rewrite Hh_id, N.eqb_refl. discriminate.
    - rewrite (Hh_ne s Es). destruct (N.eqb_spec new_id s) as [E|E]; [discriminate|].
      destruct (N.eqb_spec id s) as [E'|E']; [congruence|].
      unfold akey in K. destruct (bt_get (a_list a) s); [discriminate|congruence]. }
  assert (Hprod_h : forall s, akey a s -> aprod a' (hmap id new_id s) = aprod a s).
  { intros s K. rewrite Hprod. destruct (N.eq_dec s id) as [->|Es].
    - rewrite Hh_id, N.eqb_refl. unfold aprod. congruence.
    - rewrite (Hh_ne s Es). destruct (N.eqb_spec new_id s) as [E|E]; [unfold akey in K; congruence|].
      destruct (N.eqb_spec id s) as [E'|E']; [congruence|reflexivity]. }
  split; [|split].
  - constructor.
    + subst a'. unfold rename_state. rewrite Ge. cbn [a_list].
      apply ksorted_map_vals, ksorted_insert, ksorted_remove, (w_ls _ W).
    + subst a'. unfold rename_state. rewrite Gp. cbn [a_prods].
      apply ksorted_insert, ksorted_remove, (w_ps _ W).
    + intros s'. rewrite Hget. fold (aprod a' s'). rewrite Hprod.
      destruct (N.eqb new_id s'); [split; discriminate|].
      destruct (N.eqb id s'); [split; congruence|]. unfold aprod. rewrite <- (w_keys _ W s').
      destruct (bt_get (a_list a) s'); split; congruence.
    + rewrite <- (Hh_ne 0%N) by congruence. apply Hkey, (w_zero _ W).
    + intros s' c t1 t2 E1 E2. apply Hedge in E1 as (s1 & t1' & E1 & -> & ->).
      apply Hedge in E2 as (s2 & t2' & E2 & Hs & ->).
      apply Hinj in Hs; [|apply (aedge_key _ _ _ _ E1)|apply (aedge_key _ _ _ _ E2)]. subst s2.
      rewrite (w_det _ W _ _ _ _ E1 E2). reflexivity.
    + intros s' c t' E. apply Hedge in E as (s & t & E & -> & ->). apply Hkey, (w_closed _ W _ _ _ E).
    + intros s' q nb' P Hq G. rewrite Hprod in P. rewrite Hget in G.
      destruct (N.eqb_spec new_id s') as [En|En].
      * inversion P; subst q. inversion G; subst nb'.
        rewrite (w_leaf _ W id p e Gp Hq Ge). reflexivity.
      * destruct (N.eqb id s'); [discriminate|].
        destruct (bt_get (a_list a) s') as [nb|] eqn:Gs; [|discriminate]. inversion G; subst nb'.
        rewrite (w_leaf _ W s' q nb P Hq Gs). reflexivity.
  - unfold aequiv. apply (hom_accepts a a' (hmap id new_id)).
    + intros s c t E. apply Hedge. exists s, t. auto.
    + intros s c t' K E. apply Hedge in E as (s2 & t & E & Hs & ->).
      apply Hinj in Hs; [|exact K|apply (aedge_key _ _ _ _ E)]. subst s2. exists t. auto.
    + exact Hprod_h.
    + apply (w_closed _ W).
    + apply Hh_ne. congruence.
    + apply (w_zero _ W).
  - reflexivity.
Qed.

Lemma first_mismatch_in : forall ks i k, first_mismatch i ks = Some k -> In k ks.
Proof.
  induction ks as [|x ks IH]; intros i k H; cbn [first_mismatch] in H; [discriminate|].
  destruct (N.eqb x i); [right; apply (IH _ _ H)|]. inversion H; subst. left. reflexivity.
Qed.

Lemma first_mismatch_nonzero {V} (m : list (N * V)) k :
  ksorted m -> bt_get m 0%N <> None -> first_mismatch 0%N (keys m) = Some k -> k <> 0%N.
Proof.
  intros S H0 F. apply bt_get_key in H0. unfold ksorted in S. destruct (keys m) as [|x ks]; [destruct H0|].
  inversion S as [|? ? S' Hall]; subst. rewrite Forall_forall in Hall. cbn [first_mismatch] in F.
  destruct (N.eqb_spec x 0) as [E|E].
  - subst x. apply first_mismatch_in in F. specialize (Hall k F). lia.
  - exfalso. destruct H0 as [H0|H0]; [congruence|]. specialize (Hall 0%N H0). lia.
Qed.

Lemma phase3_hom : forall fuel a a',
  awf a -> renumber_states fuel a = Ok a' -> awf a' /\ aequiv a' a /\ a_k a' = a_k a.
Proof.
  induction fuel as [|fuel IH]; intros a a' W H; [discriminate|]. cbn [renumber_states] in H.
  destruct (first_mismatch 0%N (keys (a_prods a))) as [st|] eqn:F.
  - destruct (find_first_free (a_prods a)) as [new_id|] eqn:FF; [|discriminate].
    unfold find_first_free in FF. apply find_some in FF as [_ FF].
    assert (Pnew : bt_get (a_prods a) new_id = None) by (destruct (bt_get (a_prods a) new_id); [discriminate|reflexivity]).
    assert (Z0 : bt_get (a_prods a) 0%N <> None) by (apply (w_keys _ W), (w_zero _ W)).
    assert (Hst0 := first_mismatch_nonzero _ _ (w_ps _ W) Z0 F).
    assert (Kst : akey a st).
    { apply (w_keys _ W). apply bt_get_key. apply (first_mismatch_in _ _ _ F). }
    assert (Knew : ~ akey a new_id).
    { intros K. apply (w_keys _ W) in K. congruence. }
    destruct (rename_hom a st new_id W Kst Knew Hst0) as (W1 & E1 & K1).
    destruct (IH _ a' W1 H) as (W' & E' & K').
    split; [exact W'|]. split; [intros u p; rewrite (E' u p); apply E1|congruence].
  - inversion H; subst. split; [exact W|]. split; [intros u p; reflexivity|reflexivity].
Qed.

Lemma minimize_adj_hom o a a' :
  awf a -> minimize_adj o a = Ok a' -> awf a' /\ aequiv a' a /\ a_k a' = a_k a.
Proof.
  intros W H. unfold minimize_adj in H.
  destruct (fold_res _ (group_by (o 0) Z.eqb snd (final_states a)) a) as [a1| | | |] eqn:H1; try discriminate.
  cbn [bind] in H. destruct (phase1_hom _ _ _ W H1) as (W1 & E1 & K1).
  destruct (combine_equivalent_states _ o 1 a1) as [a2| | | |] eqn:H2; try discriminate.
  cbn [bind] in H. destruct (phase2_hom _ _ _ _ _ W1 H2) as (W2 & E2 & K2).
  destruct (phase3_hom _ _ _ W2 H) as (W3 & E3 & K3).
  split; [exact W3|]. split; [|congruence].
  intros u p. rewrite (E3 u p), (E2 u p). apply E1.
Qed.

(* ------------------------------------------------------------------------------------------- *)
(** * §4 Transition tables versus adjacency lists *)

(** A transition table [ts] with start production [p0] and an adjacency list describe the same
    automaton. *)
Section TableAdj.
  Variable ts : list trans.
  Variable a : adj.
  Variable p0 : Z.
  Hypothesis R1 : forall s c t, step ts s c = Some t ->
                                aedge a s c (t_to t) /\ aprod a (t_to t) = Some (t_prod t).
  Hypothesis R2 : forall s c t', aedge a s c t' -> exists t, step ts s c = Some t /\ t_to t = t'.
  Hypothesis R3 : aprod a 0%N = Some p0.

  Lemma run_arun : forall u s q s' p,
    run ts u s q = Some (s', p) ->
    (u = [] /\ s' = s /\ p = q) \/ (u <> [] /\ arun a u s s' /\ aprod a s' = Some p).
  Proof.
    induction u as [|c u IH]; intros s q s' p H; cbn [run] in H.
    - inversion H; subst. left. auto.
    - right. split; [discriminate|]. destruct (step ts s c) as [t|] eqn:St; [|discriminate].
      destruct (R1 _ _ _ St) as [E P]. destruct (IH _ _ _ _ H) as [(-> & -> & ->)|(_ & R & P')].
      + split; [|exact P]. apply (arun_cons a c [] s (t_to t) (t_to t) E). constructor.
      + split; [|exact P']. apply (arun_cons a c u s (t_to t) s' E R).
  Qed.

  Lemma arun_run : forall u s s', arun a u s s' -> u <> [] ->
    forall p q, aprod a s' = Some p -> run ts u s q = Some (s', p).
  Proof.
    intros u s s' R. induction R as [s|c u s t s' E R IH]; intros Hne p q P; [congruence|].
    cbn [run]. destruct (R2 _ _ _ E) as (t0 & St & Et). rewrite St. subst t.
    destruct u as [|c' u].
    - inversion R; subst. cbn [run]. destruct (R1 _ _ _ St) as [_ P0]. congruence.
    - apply IH; [discriminate|exact P].
  Qed.

  Lemma table_adj_accepts k u p : accepts (mkDfa p0 ts k) u p <-> aaccepts a u p.
  Proof.
    unfold accepts, aaccepts. cbn [transitions prod0]. split.
    - intros (s & R & V). apply run_arun in R as [(-> & -> & ->)|(_ & R & P)].
      + exists 0%N. split; [constructor|auto].
      + exists s. auto.
    - intros (s & R & P & V). exists s. split; [|exact V]. destruct u as [|c u].
      + inversion R; subst. cbn [run]. congruence.
      + apply (arun_run _ _ _ R); [discriminate|exact P].
  Qed.
End TableAdj.

(** ** [as_compiled_dfa] *)
Lemma state_transitions_in p s : forall nb r, state_transitions p s nb = Ok r ->
  forall t, In t r <-> t_from t = s /\ In (t_to t, t_tok t) nb /\ bt_get p (t_to t) = Some (t_prod t).
Proof.
  induction nb as [|e nb IH]; intros r H t; cbn [state_transitions] in H.
  - inversion H; subst. split; [intros []|intros (_ & [] & _)].
  - destruct (bt_get p (fst e)) as [q|] eqn:G; [|discriminate].
    destruct (state_transitions p s nb) as [r'| | | |] eqn:S'; try discriminate. cbn [bind] in H.
    inversion H; subst r. cbn [In]. rewrite (IH r' eq_refl t). split.
    + intros [<-|(A & B & C)]; cbn [t_from t_to t_tok t_prod].
      * split; [reflexivity|]. split; [left; destruct e; reflexivity|exact G].
      * auto.
    + intros (A & [B|B] & C).
      * left. destruct t as [f c to q']. cbn [t_from t_to t_tok t_prod] in *. subst.
        cbn [fst snd] in *. rewrite G in C. inversion C. reflexivity.
      * right. auto.
Qed.

Lemma all_transitions_in p : forall l r, all_transitions p l = Ok r ->
  forall t, In t r <-> exists nb, In (t_from t, nb) l /\ In (t_to t, t_tok t) nb /\
                                  bt_get p (t_to t) = Some (t_prod t).
Proof.
  induction l as [|e l IH]; intros r H t; cbn [all_transitions] in H.
  - inversion H; subst. split; [intros []|intros (nb & [] & _)].
  - destruct (state_transitions p (fst e) (snd e)) as [r1| | | |] eqn:S1; try discriminate. cbn [bind] in H.
    destruct (all_transitions p l) as [r2| | | |] eqn:S2; try discriminate. cbn [bind] in H.
    inversion H; subst r. rewrite in_app_iff, (state_transitions_in _ _ _ _ S1 t), (IH r2 eq_refl t).
    split.
    + intros [(A & B & C)|(nb & A & B)].
      * exists (snd e). split; [left; rewrite A; destruct e; reflexivity|auto].
      * exists nb. split; [right; exact A|exact B].
    + intros (nb & [A|A] & B).
      * left. inversion A. subst. cbn [fst snd]. split; [reflexivity|exact B].
      * right. exists nb. auto.
Qed.

Lemma tr_ins_in x l y : In y (tr_ins x l) <-> y = x \/ In y l.
Proof.
  induction l as [|z l IH]; cbn [tr_ins].
  - cbn. intuition.
  - destruct (tr_key_leb x z); cbn [In]; [intuition|]. rewrite IH. cbn [In]. intuition.
Qed.

Lemma tr_sort_in l y : In y (tr_sort l) <-> In y l.
Proof.
  unfold tr_sort. induction l as [|x l IH]; cbn [fold_right]; [reflexivity|].
  rewrite tr_ins_in, IH. cbn [In]. intuition.
Qed.

Lemma tr_key_leb_le x y : tr_key_leb x y = true -> trans_le x y.
Proof.
  unfold tr_key_leb, trans_le. intros H. apply orb_prop in H as [H|H].
  - left. apply N.ltb_lt. exact H.
  - apply andb_prop in H as [A B]. right. split; [apply N.eqb_eq; exact A|apply N.leb_le; exact B].
Qed.

Lemma tr_key_leb_gt x y : tr_key_leb x y = false -> trans_le y x.
Proof.
  unfold tr_key_leb, trans_le. intros H. apply orb_false_iff in H as [A B].
  apply N.ltb_ge in A. apply andb_false_iff in B as [B|B].
  - apply N.eqb_neq in B. left. lia.
  - apply N.leb_gt in B. destruct (N.eq_dec (t_from x) (t_from y)) as [E|E]; [right; split; [congruence|lia]|left; lia].
Qed.

Lemma trans_le_trans x y z : trans_le x y -> trans_le y z -> trans_le x z.
Proof. unfold trans_le. intros [A|[A B]] [C|[C D]]; [left; lia|left; lia|left; lia|right; split; [congruence|lia]]. Qed.

Lemma tr_sort_sorted l : sorted (tr_sort l).
Proof.
  unfold sorted, tr_sort. induction l as [|x l IH]; cbn [fold_right]; [constructor|].
  revert IH. generalize (fold_right tr_ins [] l) as s. intros s.
  induction s as [|y s IHs]; intros Hs; cbn [tr_ins].
  - constructor; constructor.
  - inversion Hs as [|? ? Hs' Hall]; subst. destruct (tr_key_leb x y) eqn:L.
    + apply tr_key_leb_le in L. constructor; [exact Hs|]. constructor; [exact L|].
      rewrite Forall_forall in *. intros b Hb. apply (trans_le_trans _ _ _ L (Hall b Hb)).
    + apply tr_key_leb_gt in L. constructor; [apply IHs; exact Hs'|].
      apply Forall_forall. intros b Hb. apply tr_ins_in in Hb as [->|Hb]; [exact L|].
      rewrite Forall_forall in Hall. apply Hall. exact Hb.
Qed.

Lemma table_step_rules (ts : list trans) (a : adj) :
  awf a ->
  (forall t, In t ts <-> aedge a (t_from t) (t_tok t) (t_to t) /\ aprod a (t_to t) = Some (t_prod t)) ->
  (forall s c t, step ts s c = Some t -> aedge a s c (t_to t) /\ aprod a (t_to t) = Some (t_prod t)) /\
  (forall s c t', aedge a s c t' -> exists t, step ts s c = Some t /\ t_to t = t').
Proof.
  intros W Hin. split.
  - intros s c t St. unfold step in St. apply find_some in St as [Ht Hm].
    apply andb_prop in Hm as [A B]. apply N.eqb_eq in A. apply N.eqb_eq in B. subst.
    apply Hin. exact Ht.
  - intros s c t' E. assert (K := w_closed _ W _ _ _ E). apply (w_keys _ W) in K.
    destruct (bt_get (a_prods a) t') as [q|] eqn:P; [|congruence].
    assert (H0 : In (mkTrans s c t' q) ts) by (apply Hin; cbn [t_from t_tok t_to t_prod]; auto).
    destruct (step ts s c) as [t|] eqn:St.
    + exists t. split; [reflexivity|]. unfold step in St. apply find_some in St as [Ht Hm].
      apply andb_prop in Hm as [A B]. apply N.eqb_eq in A. apply N.eqb_eq in B. subst.
      apply Hin in Ht as [E' _]. apply (w_det _ W _ _ _ _ E' E).
    + exfalso. unfold step in St. assert (X := find_none _ _ St _ H0).
      cbn [t_from t_tok] in X. rewrite !N.eqb_refl in X. discriminate.
Qed.

Lemma as_compiled_spec a d :
  awf a -> as_compiled_dfa a = Ok d ->
  (forall u p, accepts d u p <-> aaccepts a u p) /\ sorted (transitions d) /\ depth d = a_k a.
Proof.
  intros W H. unfold as_compiled_dfa in H.
  destruct (all_transitions (a_prods a) (a_list a)) as [ts| | | |] eqn:T; try discriminate. cbn [bind] in H.
  destruct (bt_get (a_prods a) 0%N) as [p0|] eqn:P0; [|discriminate]. inversion H; subst d. clear H.
  cbn [transitions depth]. split; [|split; [apply tr_sort_sorted|reflexivity]].
  assert (Hin : forall t, In t (tr_sort ts) <->
             aedge a (t_from t) (t_tok t) (t_to t) /\ aprod a (t_to t) = Some (t_prod t)).
  { intros t. rewrite tr_sort_in, (all_transitions_in _ _ _ T t). unfold aedge, aprod. split.
    - intros (nb & A & B & C). split; [|exact C]. exists nb. split; [|exact B].
      apply (bt_sorted_in_get _ _ _ (w_ls _ W) A).
    - intros ((nb & A & B) & C). exists nb. split; [apply bt_get_in; exact A|auto]. }
  destruct (table_step_rules (tr_sort ts) a W Hin) as [R1 R2].
  intros u p. apply (table_adj_accepts (tr_sort ts) a p0 R1 R2 P0).
Qed.

(* ------------------------------------------------------------------------------------------- *)
(** * §5 The conversion into an adjacency list *)

(** Well-formedness of the input of [minimize]: what the trie construction guarantees
    ([compile_wf_trie] below).  Deterministic; the production number is a function of the target
    state; the start state is no target; every source state is the start state or a target;
    accepting states have no way on (this is where prefix-freeness enters: [minimize] merges ALL
    accepting states of one production, whatever their outgoing transitions). *)
Definition wf_trie (d : dfa) : Prop :=
  det (transitions d) /\
  (forall t1 t2, In t1 (transitions d) -> In t2 (transitions d) ->
                 t_to t1 = t_to t2 -> t_prod t1 = t_prod t2) /\
  (forall t, In t (transitions d) -> t_to t <> 0%N) /\
  (forall t, In t (transitions d) ->
             t_from t = 0%N \/ exists t', In t' (transitions d) /\ t_to t' = t_from t) /\
  (forall t t', In t (transitions d) -> In t' (transitions d) ->
                t_prod t <> INVALID_PROD -> t_from t' <> t_to t) /\
  (prod0 d <> INVALID_PROD -> transitions d = []).

Definition wf_trieb (d : dfa) : bool :=
  let ts := transitions d in
  detb ts &&
  forallb (fun t1 => forallb (fun t2 => negb (N.eqb (t_to t1) (t_to t2)) || Z.eqb (t_prod t1) (t_prod t2)) ts) ts &&
  forallb (fun t => negb (N.eqb (t_to t) 0)) ts &&
  forallb (fun t => N.eqb (t_from t) 0 || existsb (fun t' => N.eqb (t_to t') (t_from t)) ts) ts &&
  forallb (fun t => Z.eqb (t_prod t) INVALID_PROD
                    || forallb (fun t' => negb (N.eqb (t_from t') (t_to t))) ts) ts &&
  (Z.eqb (prod0 d) INVALID_PROD || match ts with [] => true | _ => false end).

Lemma wf_trieb_spec d : wf_trieb d = true -> wf_trie d.
Proof.
  unfold wf_trieb, wf_trie. intros H.
  apply andb_prop in H as [H H6]. apply andb_prop in H as [H H5]. apply andb_prop in H as [H H4].
  apply andb_prop in H as [H H3]. apply andb_prop in H as [H1 H2].
  split; [apply detb_spec; exact H1|]. split.
  { intros t1 t2 I1 I2 E. rewrite forallb_forall in H2. specialize (H2 t1 I1).
    rewrite forallb_forall in H2. specialize (H2 t2 I2). rewrite E, N.eqb_refl in H2.
    cbn [negb orb] in H2. apply Z.eqb_eq. exact H2. }
  split.
  { intros t I E. rewrite forallb_forall in H3. specialize (H3 t I). rewrite E in H3. discriminate. }
  split.
  { intros t I. rewrite forallb_forall in H4. specialize (H4 t I). apply orb_prop in H4 as [A|A].
    - left. apply N.eqb_eq. exact A.
    - right. apply existsb_exists in A as (t' & I' & E). exists t'. split; [exact I'|apply N.eqb_eq; exact E]. }
  split.
  { intros t t' I I' Hp E. rewrite forallb_forall in H5. specialize (H5 t I). apply orb_prop in H5 as [A|A].
    - apply Z.eqb_eq in A. contradiction.
    - rewrite forallb_forall in A. specialize (A t' I'). rewrite E, N.eqb_refl in A. discriminate. }
  intros Hp. apply orb_prop in H6 as [A|A]; [apply Z.eqb_eq in A; contradiction|].
  destruct (transitions d); [reflexivity|discriminate].
Qed.

Definition last_to {X} (f : trans -> X) (ts : list trans) (s : N) (dflt : option X) : option X :=
  fold_left (fun acc t => if N.eqb (t_to t) s then Some (f t) else acc) ts dflt.

Lemma last_to_none {X} (f : trans -> X) s : forall ts dflt,
  (forall t, In t ts -> t_to t <> s) -> last_to f ts s dflt = dflt.
Proof.
  unfold last_to. induction ts as [|t ts IH]; intros dflt H; cbn [fold_left]; [reflexivity|].
  destruct (N.eqb_spec (t_to t) s) as [E|E]; [exfalso; apply (H t (or_introl eq_refl) E)|].
  apply IH. intros t' Ht'. apply H. right. exact Ht'.
Qed.

Lemma last_to_some {X} (f : trans -> X) s : forall ts dflt t,
  In t ts -> t_to t = s ->
  exists t', In t' ts /\ t_to t' = s /\ last_to f ts s dflt = Some (f t').
Proof.
  induction ts as [|t0 ts IH]; intros dflt t Hin E; [destruct Hin|].
  destruct (existsb (fun t' => N.eqb (t_to t') s) ts) eqn:Ex.
  - apply existsb_exists in Ex as (t1 & I1 & E1). apply N.eqb_eq in E1.
    destruct (IH (if N.eqb (t_to t0) s then Some (f t0) else dflt) t1 I1 E1) as (t' & I' & E' & L).
    exists t'. split; [right; exact I'|]. split; [exact E'|exact L].
  - assert (Hn : forall t', In t' ts -> t_to t' <> s).
    { intros t' I' E'. assert (X0 : existsb (fun t' => N.eqb (t_to t') s) ts = true).
      { apply existsb_exists. exists t'. split; [exact I'|apply N.eqb_eq; exact E']. }
      congruence. }
    destruct Hin as [->|Hin]; [|exfalso; apply (Hn t Hin E)].
    exists t. split; [left; reflexivity|]. split; [exact E|].
    unfold last_to. cbn [fold_left]. rewrite E, N.eqb_refl. apply (last_to_none f s ts _ Hn).
Qed.

Lemma step1_get : forall ts lp s,
  bt_get (fst (fold_left adj_step1 ts lp)) s = last_to (fun _ => ([] : nbs)) ts s (bt_get (fst lp) s) /\
  bt_get (snd (fold_left adj_step1 ts lp)) s = last_to t_prod ts s (bt_get (snd lp) s).
Proof.
  unfold last_to. induction ts as [|t ts IH]; intros lp s; cbn [fold_left]; [auto|].
  destruct (IH (adj_step1 lp t) s) as [A B]. rewrite A, B. unfold adj_step1. cbn [fst snd].
  rewrite !bt_get_insert. auto.
Qed.

Lemma step1_sorted : forall ts lp,
  ksorted (fst lp) -> ksorted (snd lp) ->
  ksorted (fst (fold_left adj_step1 ts lp)) /\ ksorted (snd (fold_left adj_step1 ts lp)).
Proof.
  induction ts as [|t ts IH]; intros lp A B; cbn [fold_left]; [auto|].
  apply IH; unfold adj_step1; cbn [fst snd]; apply ksorted_insert; assumption.
Qed.

Lemma add_neighbor_in id term nb x : In x (add_neighbor id term nb) <-> In x nb \/ x = (id, term).
Proof.
  unfold add_neighbor. rewrite nb_sort_in, in_app_iff. cbn [In]. intuition.
Qed.

Lemma step2_get : forall ts l s,
  match bt_get l s with
  | None => bt_get (fold_left adj_step2 ts l) s = None
  | Some nb0 => exists nb', bt_get (fold_left adj_step2 ts l) s = Some nb' /\
                 forall x, In x nb' <-> In x nb0 \/
                           exists t, In t ts /\ t_from t = s /\ x = (t_to t, t_tok t)
  end.
Proof.
  induction ts as [|t ts IH]; intros l s; cbn [fold_left].
  - destruct (bt_get l s) as [nb0|]; [|reflexivity]. exists nb0. split; [reflexivity|].
    intros x. split; [auto|]. intros [H|(t & [] & _)]. exact H.
  - specialize (IH (adj_step2 l t) s). unfold adj_step2 at 1 3 in IH. unfold adj_step2 at 2.
    destruct (bt_get l (t_from t)) as [nb|] eqn:Gf.
    + rewrite bt_get_insert in IH. destruct (N.eqb_spec (t_from t) s) as [E|E].
      * subst s. rewrite Gf. destruct IH as (nb' & G' & X'). exists nb'. split; [exact G'|].
        intros x. rewrite X', add_neighbor_in. split.
        -- intros [[H|H]|(t' & I' & E' & H)]; [left; exact H|right; exists t; split; [left; reflexivity|auto]|].
           right. exists t'. split; [right; exact I'|auto].
        -- intros [H|(t' & [<-|I'] & E' & H)]; [left; left; exact H|left; right; exact H|].
           right. exists t'. auto.
      * destruct (bt_get l s) as [nb0|]; [|exact IH]. destruct IH as (nb' & G' & X').
        exists nb'. split; [exact G'|]. intros x. rewrite X'. split.
        -- intros [H|(t' & I' & E' & H)]; [left; exact H|right; exists t'; split; [right; exact I'|auto]].
        -- intros [H|(t' & [<-|I'] & E' & H)]; [left; exact H|contradiction|right; exists t'; auto].
    + destruct (bt_get l s) as [nb0|] eqn:Gs; [|exact IH]. destruct IH as (nb' & G' & X').
      exists nb'. split; [exact G'|]. intros x. rewrite X'. split.
      * intros [H|(t' & I' & E' & H)]; [left; exact H|right; exists t'; split; [right; exact I'|auto]].
      * intros [H|(t' & [<-|I'] & E' & H)]; [left; exact H|congruence|right; exists t'; auto].
Qed.

Lemma step2_sorted : forall ts l, ksorted l -> ksorted (fold_left adj_step2 ts l).
Proof.
  induction ts as [|t ts IH]; intros l S; cbn [fold_left]; [exact S|]. apply IH.
  unfold adj_step2. destruct (bt_get l (t_from t)); [apply ksorted_insert; exact S|exact S].
Qed.

Lemma adj_of_dfa_spec d :
  wf_trie d ->
  awf (adj_of_dfa d) /\ (forall u p, accepts d u p <-> aaccepts (adj_of_dfa d) u p) /\
  a_k (adj_of_dfa d) = depth d.
Proof.
  intros (Hdet & Hcons & Hnz & Hsrc & Hleaf & Hp0).
  set (ts := transitions d) in *.
  set (lp := fold_left adj_step1 ts (bt_insert 0%N ([] : nbs) [], bt_insert 0%N (prod0 d) [])).
  assert (Ea : adj_of_dfa d = mkAdj (fold_left adj_step2 ts (fst lp)) (snd lp) (depth d)) by reflexivity.
  set (a := adj_of_dfa d) in *.
  assert (F1 : forall s, bt_get (fst lp) s =
                 last_to (fun _ => ([] : nbs)) ts s (if N.eqb 0 s then Some [] else None)).
  { intros s. subst lp. rewrite (proj1 (step1_get ts _ s)). cbn [fst]. rewrite bt_get_insert. reflexivity. }
  assert (F2 : forall s, bt_get (snd lp) s =
                 last_to t_prod ts s (if N.eqb 0 s then Some (prod0 d) else None)).
  { intros s. subst lp. rewrite (proj2 (step1_get ts _ s)). cbn [snd]. rewrite bt_get_insert. reflexivity. }
  assert (Hhit : forall s, (exists t, In t ts /\ t_to t = s) \/ (forall t, In t ts -> t_to t <> s)).
  { intros s. destruct (existsb (fun t => N.eqb (t_to t) s) ts) eqn:Ex.
    - left. apply existsb_exists in Ex as (t & I & E). exists t. split; [exact I|apply N.eqb_eq; exact E].
    - right. intros t I E. assert (X : existsb (fun t => N.eqb (t_to t) s) ts = true).
      { apply existsb_exists. exists t. split; [exact I|apply N.eqb_eq; exact E]. }
      congruence. }
  assert (K1 : forall s, (s = 0%N \/ exists t, In t ts /\ t_to t = s) -> bt_get (fst lp) s = Some []).
  { intros s Hk. rewrite F1. destruct (Hhit s) as [(t & I & E)|Hn].
    - destruct (last_to_some (fun _ => ([] : nbs)) s ts (if N.eqb 0 s then Some [] else None) t I E) as (t' & _ & _ & L).
      exact L.
    - rewrite (last_to_none _ s ts _ Hn). destruct Hk as [->|(t & I & E)]; [reflexivity|].
      exfalso. apply (Hn t I E). }
  assert (K1n : forall s, bt_get (fst lp) s <> None -> s = 0%N \/ exists t, In t ts /\ t_to t = s).
  { intros s H. destruct (Hhit s) as [Hy|Hn]; [right; exact Hy|]. left.
    rewrite F1, (last_to_none _ s ts _ Hn) in H. destruct (N.eqb_spec 0 s); [auto|congruence]. }
  assert (K2 : forall t, In t ts -> bt_get (snd lp) (t_to t) = Some (t_prod t)).
  { intros t I. rewrite F2.
    destruct (last_to_some t_prod (t_to t) ts (if N.eqb 0 (t_to t) then Some (prod0 d) else None) t I eq_refl)
      as (t' & I' & E' & L).
    rewrite L. f_equal. apply (Hcons t' t I' I E'). }
  assert (K2z : bt_get (snd lp) 0%N = Some (prod0 d)).
  { rewrite F2, (last_to_none _ 0%N ts _ Hnz). reflexivity. }
  assert (K2n : forall s, bt_get (snd lp) s <> None -> s = 0%N \/ exists t, In t ts /\ t_to t = s).
  { intros s H. destruct (Hhit s) as [Hy|Hn]; [right; exact Hy|]. left.
    rewrite F2, (last_to_none _ s ts _ Hn) in H. destruct (N.eqb_spec 0 s); [auto|congruence]. }
  assert (Hlist : forall s, bt_get (a_list a) s =
            match bt_get (fst lp) s with None => None | Some _ => bt_get (a_list a) s end /\
            (bt_get (fst lp) s <> None ->
             exists nb', bt_get (a_list a) s = Some nb' /\
               forall x, In x nb' <-> exists t, In t ts /\ t_from t = s /\ x = (t_to t, t_tok t))).
  { intros s. rewrite Ea. cbn [a_list]. assert (G := step2_get ts (fst lp) s).
    destruct (bt_get (fst lp) s) as [nb0|] eqn:G0.
    - split; [reflexivity|]. intros _. destruct G as (nb' & G' & X'). exists nb'. split; [exact G'|].
      intros x. rewrite X'. assert (nb0 = []).
      { assert (Hk : bt_get (fst lp) s <> None) by congruence. apply K1n in Hk. apply K1 in Hk. congruence. }
      subst nb0. split; [intros [[]|H]; exact H|auto].
    - split; [exact G|congruence]. }
  assert (Hedge : forall s c t', aedge a s c t' <->
                    exists t, In t ts /\ t_from t = s /\ t_tok t = c /\ t_to t = t').
  { intros s c t'. unfold aedge. split.
    - intros (nb & G & Hin). destruct (Hlist s) as [A B].
      destruct (bt_get (fst lp) s) eqn:G0; [|congruence].
      destruct (B ltac:(discriminate)) as (nb' & G' & X'). rewrite G in G'. inversion G'; subst nb'.
      apply X' in Hin as (t & I & E & Ex). inversion Ex. exists t. auto.
    - intros (t & I & E1 & E2 & E3). destruct (Hlist s) as [_ B].
      assert (Hk : bt_get (fst lp) s <> None).
      { rewrite K1; [discriminate|]. destruct (Hsrc t I) as [Z|(t0 & I0 & E0)]; [left; congruence|].
        right. exists t0. split; [exact I0|congruence]. }
      destruct (B Hk) as (nb' & G' & X'). exists nb'. split; [exact G'|]. apply X'. exists t.
      split; [exact I|]. split; [exact E1|]. congruence. }
  assert (Hkey : forall s, akey a s <-> (s = 0%N \/ exists t, In t ts /\ t_to t = s)).
  { intros s. unfold akey. destruct (Hlist s) as [A B]. split.
    - intros H. apply K1n. intros G0. rewrite G0 in A. congruence.
    - intros Hk. assert (G0 := K1 s Hk). destruct (B ltac:(congruence)) as (nb' & G' & _). congruence. }
  assert (W : awf a).
  { constructor.
    - rewrite Ea. cbn [a_list]. apply step2_sorted.
      apply (step1_sorted ts _); cbn [fst snd]; apply ksorted_insert; constructor.
    - rewrite Ea. cbn [a_prods].
      apply (step1_sorted ts _); cbn [fst snd]; apply ksorted_insert; constructor.
    - intros s. fold (akey a s). rewrite Hkey. rewrite Ea. cbn [a_prods]. split.
      + intros [->|(t & I & <-)]; [rewrite K2z; discriminate|rewrite (K2 t I); discriminate].
      + apply K2n.
    - apply Hkey. left. reflexivity.
    - intros s c t1 t2 E1 E2. apply Hedge in E1 as (x1 & I1 & A1 & B1 & <-).
      apply Hedge in E2 as (x2 & I2 & A2 & B2 & <-).
      rewrite (Hdet x1 x2 I1 I2); congruence.
    - intros s c t' E. apply Hedge in E as (t & I & _ & _ & <-). apply Hkey. right. exists t. auto.
    - intros s p nb P Hp G. destruct nb as [|[t' c] nb]; [reflexivity|exfalso].
      assert (E : aedge a s c t') by (exists ((t', c) :: nb); split; [exact G|left; reflexivity]).
      apply Hedge in E as (x & Ix & Ex & _ & _). unfold aprod in P. rewrite Ea in P. cbn [a_prods] in P.
      destruct (Hhit s) as [(t & I & E)|Hn].
      + rewrite <- E, (K2 t I) in P. inversion P; subst p. apply (Hleaf t x I Ix Hp). congruence.
      + rewrite F2, (last_to_none _ s ts _ Hn) in P. destruct (N.eqb_spec 0 s) as [Z|Z]; [|discriminate].
        inversion P; subst p. rewrite (Hp0 Hp) in Ix. destruct Ix. }
  split; [exact W|]. split; [|rewrite Ea; reflexivity].
  assert (Hin : forall t, In t ts <->
             aedge a (t_from t) (t_tok t) (t_to t) /\ aprod a (t_to t) = Some (t_prod t)).
  { intros t. split.
    - intros I. split; [apply Hedge; exists t; auto|]. unfold aprod. rewrite Ea. cbn [a_prods]. apply (K2 t I).
    - intros [E P]. apply Hedge in E as (x & Ix & A & B & C). unfold aprod in P. rewrite Ea in P. cbn [a_prods] in P.
      rewrite <- C, (K2 x Ix) in P. inversion P as [D].
      destruct t as [f c to q], x as [f' c' to' q']. cbn [t_from t_tok t_to t_prod] in *. subst. exact Ix. }
  destruct (table_step_rules ts a W Hin) as [R1 R2].
  assert (R3 : aprod a 0%N = Some (prod0 d)) by (unfold aprod; rewrite Ea; cbn [a_prods]; exact K2z).
  intros u p. rewrite <- (table_adj_accepts ts a (prod0 d) R1 R2 R3 (depth d) u p).
  destruct d as [p0' ts' k']. reflexivity.
Qed.

(* ------------------------------------------------------------------------------------------- *)
(** * §6 Main theorems *)

(** [minimize_preserves_accepts], for every oracle.  [minimize] returns a [res]; the statement is
    about every successful run (see the note on totality at the end of the file). *)
Theorem minimize_preserves_accepts o d d' :
  wf_trie d -> minimize o d = Ok d' -> forall u p, accepts d' u p <-> accepts d u p.
Proof.
  intros Wd H u p. unfold minimize in H.
  destruct (minimize_adj o (adj_of_dfa d)) as [a'| | | |] eqn:M; try discriminate. cbn [bind] in H.
  destruct (adj_of_dfa_spec d Wd) as (W & E & _).
  destruct (minimize_adj_hom o _ _ W M) as (W' & E' & _).
  destruct (as_compiled_spec a' d' W' H) as (E'' & _ & _).
  rewrite (E'' u p), (E' u p). symmetry. apply E.
Qed.

(** [minimize_sorted]: unconditional — the last step is a sort by (from-state, terminal). *)
Theorem minimize_sorted o d d' : minimize o d = Ok d' -> sorted (transitions d').
Proof.
  unfold minimize, as_compiled_dfa. intros H.
  destruct (minimize_adj o (adj_of_dfa d)) as [a'| | | |]; try discriminate. cbn [bind] in H.
  destruct (all_transitions (a_prods a') (a_list a')) as [ts| | | |]; try discriminate. cbn [bind] in H.
  destruct (bt_get (a_prods a') 0%N); [|discriminate]. inversion H; subst. apply tr_sort_sorted.
Qed.

Theorem minimize_depth o d d' : wf_trie d -> minimize o d = Ok d' -> depth d' = depth d.
Proof.
  intros Wd H. unfold minimize in H.
  destruct (minimize_adj o (adj_of_dfa d)) as [a'| | | |] eqn:M; try discriminate. cbn [bind] in H.
  destruct (adj_of_dfa_spec d Wd) as (W & _ & K).
  destruct (minimize_adj_hom o _ _ W M) as (W' & _ & K').
  destruct (as_compiled_spec a' d' W' H) as (_ & _ & K''). congruence.
Qed.

Lemma minimize_no_transitions o p0 k d' :
  minimize o (mkDfa p0 [] k) = Ok d' -> d' = mkDfa p0 [] k.
Proof.
  unfold minimize, minimize_adj, adj_of_dfa, final_states.
  cbn [transitions prod0 depth fold_left fst snd a_prods a_list bt_insert bt_remove bt_put filter].
  destruct (Z.eqb p0 INVALID_PROD) eqn:E; cbn [negb filter].
  - cbn. rewrite E. cbn. intros H. inversion H. reflexivity.
  - unfold group_by, group_fold. cbn [fold_left grp_push permute length snd map].
    rewrite Nat.mod_1_r. cbn. rewrite E. cbn. intros H. inversion H. reflexivity.
Qed.

Theorem minimize_wfd o d d' : wf_trie d -> minimize o d = Ok d' -> wfd d' = true.
Proof.
  intros Wd H. unfold wfd. destruct (valid (prod0 d')) eqn:V; [|reflexivity].
  assert (A : accepts d' [] (prod0 d')) by (exists 0%N; split; [reflexivity|exact V]).
  apply (minimize_preserves_accepts o d d' Wd H) in A. destruct A as (s & R & _).
  cbn [run] in R. injection R as Es P.
  destruct Wd as (_ & _ & _ & _ & _ & Hp0).
  assert (Hts : transitions d = []).
  { apply Hp0. rewrite P. intros E. rewrite E in V. discriminate. }
  destruct d as [p0 ts k]. cbn [transitions] in Hts. subst ts.
  rewrite (minimize_no_transitions o p0 k d' H). reflexivity.
Qed.

(* ------------------------------------------------------------------------------------------- *)
(** * §7 The un-minimised automaton of a family is a well-formed input; end-to-end theorem *)

Lemma compile_raw_trans_in d0 t :
  In t (transitions (compile_raw d0)) <->
  In (t_from t, t_tok t, t_to t) (flat (la_trans d0)) /\ t_prod t = state_prod d0 (t_to t).
Proof.
  cbn [compile_raw transitions]. split.
  - intros H. apply in_flat_map in H as (g & Hg & H). unfold conv_group in H.
    apply in_map_iff in H as (x & <- & Hx). apply (proj1 (sort_term_in _ _)) in Hx.
    cbn [t_from t_tok t_to t_prod]. split; [|reflexivity]. apply (group_in_flat _ g x Hg Hx).
  - intros [H P]. apply flat_in_group in H as (g & Hg & Ef & Hx). apply in_flat_map. exists g.
    split; [exact Hg|]. unfold conv_group. apply in_map_iff. exists (t_tok t, t_to t).
    split; [|apply sort_term_in; exact Hx]. cbn [fst snd]. destruct t as [f c to q].
    cbn [t_from t_tok t_to t_prod] in *. subst. reflexivity.
Qed.

Lemma state_prod_ne d s : state_prod d s <> INVALID_PROD -> valid (state_prod d s) = true.
Proof.
  unfold state_prod. destruct (nth_error (la_states d) (N.to_nat s)) as [p|]; [|congruence].
  destruct (valid p) eqn:V; [auto|congruence].
Qed.

Theorem compile_wf_trie fam d : fam_ok fam -> compile fam = Ok d -> wf_trie d.
Proof.
  intros Hok H. assert (Hwfd := compile_wfd fam d Hok H). destruct Hok as (Hne & Hdet & _).
  destruct fam as [|e fam']; [congruence|].
  destruct (la_of_family_spec e fam' Hdet) as (d0 & paths & E & F & K).
  unfold compile in H. rewrite E in H. cbn [bind] in H. inversion H; subst d. clear H.
  assert (I := fi_t _ _ _ F). set (ts := transitions (compile_raw d0)) in *.
  assert (Hin : forall t, In t ts -> In (t_from t, t_tok t, t_to t) (flat (la_trans d0)) /\
                                     t_prod t = state_prod d0 (t_to t)).
  { intros t Ht. apply compile_raw_trans_in. exact Ht. }
  unfold wf_trie. fold ts. split; [|split; [|split; [|split; [|split]]]].
  - intros x y Hx Hy Ef Et. destruct (Hin x Hx) as [Fx Px]. destruct (Hin y Hy) as [Fy Py].
    apply (tinv_det _ _ _ _ _ _ I) in Fx. apply (tinv_det _ _ _ _ _ _ I) in Fy.
    rewrite Ef, Et in Fx. rewrite Fx in Fy. inversion Fy as [Eto].
    destruct x as [f c to q], y as [f' c' to' q']. cbn [t_from t_tok t_to t_prod] in *. congruence.
  - intros t1 t2 H1 H2 Eto. rewrite (proj2 (Hin t1 H1)), (proj2 (Hin t2 H2)), Eto. reflexivity.
  - intros t Ht Eto. destruct (Hin t Ht) as [Ft _].
    destruct (ti_sound _ _ _ I _ _ _ Ft) as (w & _ & Hw). rewrite Eto in Hw.
    rewrite (ti_root _ _ _ I : npath paths 0%N = Some []) in Hw. inversion Hw as [Ew].
    destruct w; discriminate.
  - intros t Ht. destruct (Hin t Ht) as [Ft _].
    destruct (ti_sound _ _ _ I _ _ _ Ft) as (w & Hw & _).
    induction w as [|c' w' _] using rev_ind.
    + left. apply (npath_inj paths (t_from t) 0%N [] (ti_nodup _ _ _ I) Hw). apply (ti_root _ _ _ I).
    + right. destruct (ti_complete _ _ _ I _ _ _ Hw) as (f' & _ & G). apply tr_get_in in G.
      exists (mkTrans f' c' (t_from t) (state_prod d0 (t_from t))). split; [|reflexivity].
      apply compile_raw_trans_in. cbn [t_from t_tok t_to t_prod]. auto.
  - intros t t' Ht Ht' Hp Efrom. destruct (Hin t Ht) as [Ft Pt]. destruct (Hin t' Ht') as [Ft' _].
    rewrite Pt in Hp. apply state_prod_ne in Hp.
    destruct (ti_sound _ _ _ I _ _ _ Ft) as (w & _ & Hw).
    destruct (ti_sound _ _ _ I _ _ _ Ft') as (w2 & Hw2 & Hw2').
    rewrite Efrom, Hw in Hw2. inversion Hw2; subst w2.
    assert (L : In (state_prod d0 (t_to t), w ++ [t_tok t]) (entries (e :: fam'))).
    { apply (fi_lang _ _ _ F). apply la_lang_N. exists (t_to t). split; [exact Hw|].
      apply state_prod_valid. auto. }
    apply npath_in in Hw2'. destruct (fi_paths _ _ _ F _ Hw2') as [Hnil|(q & v & Hv & (r & Hr))].
    + destruct (w ++ [t_tok t]); discriminate.
    + destruct Hdet as [_ Hd2].
      destruct (Hd2 _ _ _ _ L Hv) as [Ev _].
      { exists ([t_tok t'] ++ r). rewrite Hr, <- !app_assoc. reflexivity. }
      rewrite <- Ev in Hr. apply (f_equal (@length N)) in Hr. rewrite !app_length in Hr. cbn [length] in Hr. lia.
  - intros Hp. unfold wfd in Hwfd. cbn [compile_raw prod0] in Hp, Hwfd. apply state_prod_ne in Hp.
    rewrite Hp in Hwfd. fold ts in Hwfd. destruct ts; [reflexivity|discriminate].
Qed.

(** End to end: the compiled AND minimised automaton of a deterministic family, for every oracle. *)
Theorem compile_min_exact o fam d' :
  fam_ok fam -> compile_min o fam = Ok d' ->
  (forall u p, accepts d' u p <-> In u (strings_of fam p)) /\
  sorted (transitions d') /\ wfd d' = true /\ depth d' = fam_max_len fam.
Proof.
  intros Hok H. unfold compile_min in H. destruct (trie_exact fam Hok) as (d & Ed & Hd).
  rewrite Ed in H. cbn [bind] in H. assert (Wd := compile_wf_trie fam d Hok Ed).
  split; [|split; [|split]].
  - intros u p. rewrite (minimize_preserves_accepts o d d' Wd H u p). apply Hd.
  - apply (minimize_sorted o d d' H).
  - apply (minimize_wfd o d d' Wd H).
  - rewrite (minimize_depth o d d' Wd H). apply (compile_depth fam d Hok Ed).
Qed.

(** Consequently the checker of LaTrie.v accepts nothing but what the model produces… the other
    way round, on examples: the model's output passes the checkers. *)
Example compile_min_checks :
  forall o, In o [o_id; o_rev; o_mix] ->
  match compile_min o depth_fam with
  | Ok d => la_dfa_check d depth_fam [5; 6]%N = true /\ la_depth_check d depth_fam = true
  | _ => False
  end.
Proof. intros o [<-|[<-|[<-|[]]]]; vm_compute; split; reflexivity. Qed.

(** Hypotheses are satisfiable: the unit-test inputs are well-formed tries. *)
Example wf_trie_ex :
  wf_trie test_minimize_in /\ wf_trie test_renumber_in /\ wf_trie test_complete_in /\ wf_trie d2_dfa.
Proof. repeat split; apply wf_trieb_spec; vm_compute; reflexivity. Qed.

(** [minimize] merges ALL accepting states of one production — also those that have a way on.
    On an automaton whose accepting inner state has a transition (the result of [unite] on a
    family that is not prefix-free, [unite_coins_inner_state]) it changes the language:
    {2: [a b], 1: [a]} plus production 1 on [c]: after merging the two 1-states, [c b] predicts 2. *)
Definition not_leaf_dfa : dfa :=
  mkDfa (-1) [ mkTrans 0 5 1 1; mkTrans 0 7 3 1; mkTrans 1 6 2 2 ] 2.

Theorem minimize_needs_leaves_refuted :
  exists o d d' u p, minimize o d = Ok d' /\ acceptsb d u p = false /\ acceptsb d' u p = true.
Proof.
  exists o_id, not_leaf_dfa. eexists. exists [7; 6]%N, 2%Z.
  split; [vm_compute; reflexivity|]. split; vm_compute; reflexivity.
Qed.

(** ** Note on totality.  Not proved: [minimize_total : wf_trie d -> exists d', minimize o d = Ok d']
    (no panic of the strict model and sufficiency of the fuel of [combine_equivalent_states]
    and [renumber_states]).  Evidence by computation only: the four unit tests above for three
    oracles, and [compile_min_checks]. *)

Print Assumptions minimize_preserves_accepts.
Print Assumptions minimize_sorted.
Print Assumptions minimize_depth.
Print Assumptions minimize_wfd.
Print Assumptions compile_wf_trie.
Print Assumptions compile_min_exact.
Print Assumptions minimize_needs_leaves_refuted.
