(** * Termination of the LL(k) parser model (property C19, LL half)

    [ll_run] answers [OutOfFuel] only if its fuel was too small: for tables that pass
    [tables_ok_basic] and whose grammar has a "no left recursion" certificate ([rank_ok]) there is,
    for every input, every option set (recovery enabled or not) and EVERY recovery oracle, an
    amount of fuel with which the answer is not [OutOfFuel].

    Measure (lexicographic, four components):
      1. [101 - |error_entries|]   every recovery that lets the run go on adds one entry
                                   ([add_error] stops the run beyond 100 entries);
      2. number of not yet consumed significant (non-EOI) tokens (buffer + unread input);
         recovery may change it arbitrarily, a matched terminal lowers it;
      3. [nu stack]: the weights [V A] of the non-terminals on the parser stack from the top up to
         and including the first symbol that is not (certified) nullable; pushing a production
         lowers it because every non-terminal in "left-corner position" has a smaller rank;
      4. the number of end-of-production markers on the stack; an [E] step lowers it.

    What is proved is the existence of enough fuel, NOT an explicit bound: the number of steps
    between two consumed tokens is not bounded by a constant of the tables (after a token, a run of
    nullable symbols spread over many open productions may follow), and epsilon-subtrees can be
    exponentially large in the number of non-terminals, so an honest explicit bound needs an
    amortised argument that is not carried out here.  A driver can double the fuel on
    [OutOfFuel]; [ll_run_fuel_mono] guarantees that nothing else changes. *)
From Coq Require Import List Arith NArith ZArith Bool Lia.
From Parol Require Import Grammar.Cfg Runtime.DfaEval Runtime.LLParser Runtime.LLSound.
Import ListNotations.

(** ** The certificate and its checker (executable) *)

Definition nl_of (nl : list bool) (a : N) : bool :=
  match nth_error nl (N.to_nat a) with Some b => b | None => false end.

Definition rk_of (rk : list N) (a : N) : N :=
  match nth_error rk (N.to_nat a) with Some r => r | None => 0%N end.

(** All symbols are non-terminals certified nullable. *)
Fixpoint allnull (nl : list bool) (r : list sym) : bool :=
  match r with
  | [] => true
  | T _ :: _ => false
  | NT b :: r' => nl_of nl b && allnull nl r'
  end.

(** Every non-terminal in left-corner position (only certified-nullable non-terminals before it)
    has a rank below [ra]. *)
Fixpoint lc_ok (nl : list bool) (rk : list N) (ra : N) (r : list sym) : bool :=
  match r with
  | [] => true
  | T _ :: _ => true
  | NT b :: r' => N.ltb (rk_of rk b) ra && (if nl_of nl b then lc_ok nl rk ra r' else true)
  end.

Definition prod_rank_ok (nl : list bool) (rk : list N) (pr : production) : bool :=
  let r := rev (p_rev pr) in
  (negb (allnull nl r) || nl_of nl (p_lhs pr)) && lc_ok nl rk (rk_of rk (p_lhs pr)) r.

(** [rank_ok tb nl rk]: [nl] is closed under the productions (a production with an all-nullable
    right-hand side makes its left-hand side nullable) and [rk] strictly decreases from a
    non-terminal to each of its left corners: the grammar of the tables is not left-recursive. *)
Definition rank_ok (tb : ll_tables) (nl : list bool) (rk : list N) : bool :=
  forallb (prod_rank_ok nl rk) (tb_prods tb).

(** *** A candidate certificate (not verified; [rank_ok] checks it) *)
Definition nl_step (tb : ll_tables) (nl : list bool) : list bool :=
  map (fun a => nl_of nl (N.of_nat a) ||
                existsb (fun pr => N.eqb (p_lhs pr) (N.of_nat a) && allnull nl (rev (p_rev pr)))
                        (tb_prods tb))
      (seq 0 (length (tb_automata tb))).

(** One more than the largest rank of a left corner of [r]. *)
Fixpoint lc_rank (nl : list bool) (rk : list N) (r : list sym) : N :=
  match r with
  | [] => 0%N
  | T _ :: _ => 0%N
  | NT b :: r' => N.max (N.succ (rk_of rk b)) (if nl_of nl b then lc_rank nl rk r' else 0%N)
  end.

Definition rk_step (tb : ll_tables) (nl : list bool) (rk : list N) : list N :=
  map (fun a => fold_left (fun m pr => if N.eqb (p_lhs pr) (N.of_nat a)
                                       then N.max m (lc_rank nl rk (rev (p_rev pr))) else m)
                          (tb_prods tb) 0%N)
      (seq 0 (length (tb_automata tb))).

Fixpoint iter {A} (n : nat) (f : A -> A) (x : A) : A :=
  match n with O => x | S n' => iter n' f (f x) end.

(** Least-fixpoint nullability and longest left-corner paths, each with [#non-terminals + 1]
    rounds.  On a left-recursive grammar the ranks do not stabilise and [rank_ok] rejects. *)
Definition find_cert (tb : ll_tables) : list bool * list N :=
  let n := length (tb_automata tb) in
  let nl := iter (S n) (nl_step tb) (repeat false n) in
  (nl, iter (S n) (rk_step tb nl) (repeat 0%N n)).

Definition left_recursion_free (tb : ll_tables) : bool :=
  rank_ok tb (fst (find_cert tb)) (snd (find_cert tb)).

(** ** Weights *)
Section Weights.
Variable tb : ll_tables.
Variable nl : list bool.
Variable rk : list N.
Hypothesis Hrk : rank_ok tb nl rk = true.

(** Base of the weights: two more than the longest right-hand side. *)
Definition wbase : nat := 2 + fold_right (fun pr m => Nat.max (length (p_rev pr)) m) 0 (tb_prods tb).

Definition V (a : N) : nat := Nat.pow wbase (S (N.to_nat (rk_of rk a))).

(** Weight of the left-corner part of a sentential form. *)
Fixpoint lead (r : list sym) : nat :=
  match r with
  | [] => 0
  | T _ :: _ => 0
  | NT b :: r' => V b + (if nl_of nl b then lead r' else 0)
  end.

Lemma wbase_ge pr : In pr (tb_prods tb) -> length (p_rev pr) + 2 <= wbase.
Proof.
  unfold wbase. induction (tb_prods tb) as [|x l IH]; intros H; [destruct H|].
  cbn [fold_right]. destruct H as [->|H]; [lia|]. specialize (IH H). lia.
Qed.

Lemma pow_pos k : 1 <= Nat.pow wbase k.
Proof.
  induction k as [|k IH]; cbn [Nat.pow]; [lia|]. unfold wbase in *.
  set (m := fold_right _ _ _) in *. nia.
Qed.

Lemma lead_bound ra : forall r, lc_ok nl rk ra r = true ->
  lead r <= length r * Nat.pow wbase (N.to_nat ra).
Proof.
  induction r as [|[t|b] r IH]; intros H; cbn [lead length]; [lia|lia|].
  cbn [lc_ok] in H. apply andb_prop in H as [H1 H2]. apply N.ltb_lt in H1.
  assert (HV : V b <= Nat.pow wbase (N.to_nat ra)).
  { unfold V. apply Nat.pow_le_mono_r; [unfold wbase; lia|lia]. }
  destruct (nl_of nl b); [specialize (IH H2)|]; nia.
Qed.

(** The key inequality: pushing a production lowers the left-corner weight. *)
Lemma lead_lt pr : In pr (tb_prods tb) ->
  lead (rev (p_rev pr)) < V (p_lhs pr) /\
  (allnull nl (rev (p_rev pr)) = true -> nl_of nl (p_lhs pr) = true).
Proof.
  intros Hin. unfold rank_ok in Hrk. rewrite forallb_forall in Hrk. specialize (Hrk _ Hin).
  unfold prod_rank_ok in Hrk. apply andb_prop in Hrk as [H1 H2]. split.
  - pose proof (lead_bound _ _ H2) as Hb. rewrite rev_length in Hb.
    pose proof (wbase_ge pr Hin) as Hw. pose proof (pow_pos (N.to_nat (rk_of rk (p_lhs pr)))) as Hp.
    unfold V. cbn [Nat.pow]. nia.
  - intros Ha. rewrite Ha in H1. exact H1.
Qed.

(** [nu]: weight of the stack from the top up to the first symbol that is not nullable. *)
Fixpoint nu (st : list pitem) : nat :=
  match st with
  | [] => 0
  | PT _ :: _ => 0
  | PN a :: st' => V a + (if nl_of nl a then nu st' else 0)
  | PE _ :: st' => nu st'
  end.

Lemma nu_items r st : nu (map item_of r ++ st) = lead r + (if allnull nl r then nu st else 0).
Proof.
  induction r as [|[t|b] r IH]; cbn [map item_of app nu lead allnull]; [reflexivity|lia|].
  rewrite IH. destruct (nl_of nl b); cbn [andb]; lia.
Qed.

End Weights.

(** ** One step lowers the measure *)
Definition stack_ok (st : list pitem) : Prop := forall t, In (PT t) st -> t <> 0%N.

Lemma add_error_none errs loc :
  snd (add_error errs loc) = None ->
  fst (add_error errs loc) = loc :: errs /\ S (length errs) <= 100.
Proof.
  unfold add_error. destruct (memN loc errs); [discriminate|].
  destruct (Nat.ltb_spec 100 (length (loc :: errs))) as [L|L]; cbn [fst snd]; [discriminate|].
  intros _. cbn [length] in L. split; [reflexivity|lia].
Qed.

Lemma htm_continue_len orc tb opts c t tok c1 :
  handle_token_mismatch orc tb opts c t tok = Continue c1 ->
  c_stack c1 = c_stack c /\ length (c_errs c1) = S (length (c_errs c)) /\ length (c_errs c1) <= 100.
Proof.
  unfold handle_token_mismatch. intros H.
  destruct (negb (t <? tb_nterms tb)%N); [discriminate|].
  destruct (diag_panic tb (c_stack c)); [discriminate|].
  destruct (negb (fst tok <? tb_nterms tb)%N); [discriminate|].
  destruct (snd (add_error (c_errs c) (snd tok))) eqn:Ea; [discriminate|].
  apply add_error_none in Ea as [E1 E2].
  destruct (negb (o_recovery opts)); [discriminate|].
  destruct (o_adjust orc _ _); try discriminate.
  inversion H; subst c1. cbn [set_stream set_errs c_stack c_errs]. rewrite E1. cbn [length]. auto.
Qed.

Lemma hpe_ok_len orc tb opts c a d p c1 :
  handle_prediction_error orc tb opts c a d = HOk p c1 ->
  c_stack c1 = c_stack c /\ length (c_errs c1) = S (length (c_errs c)) /\ length (c_errs c1) <= 100.
Proof.
  unfold handle_prediction_error. intros H.
  destruct (negb (a <? tb_nnts tb)%N); [discriminate|].
  destruct (negb (build_error_ok tb _ _ _)); [discriminate|].
  destruct (diag_panic tb (c_stack c)); [discriminate|].
  destruct (snd (add_error (c_errs c) _)) eqn:Ea; [discriminate|].
  apply add_error_none in Ea as [E1 E2].
  destruct (negb (o_recovery opts)); [discriminate|].
  destruct (restore_status d); try discriminate.
  destruct (o_expected orc d _); [|discriminate].
  destruct (o_adjust orc _ _) as [b| |]; try discriminate.
  destruct (predict tb d _) as [[q| |e] s2]; try discriminate.
  inversion H; subst. cbn [set_stream set_errs c_stack c_errs]. rewrite E1. cbn [length]. auto.
Qed.

Section Measure.
Variable orc : oracle.
Variable tb : ll_tables.
Variable opts : options.
Variable nl : list bool.
Variable rk : list N.
Hypothesis Hok : tables_ok_basic tb = true.
Hypothesis Hrk : rank_ok tb nl rk = true.

Definition mlt (c' c : config) : Prop :=
  101 - length (c_errs c') < 101 - length (c_errs c) \/
  (length (c_errs c') = length (c_errs c) /\
   (remaining (c_stream c') < remaining (c_stream c) \/
    (remaining (c_stream c') = remaining (c_stream c) /\
     (nu tb nl rk (c_stack c') < nu tb nl rk (c_stack c) \/
      (nu tb nl rk (c_stack c') = nu tb nl rk (c_stack c) /\
       nPE (c_stack c') < nPE (c_stack c)))))).

Lemma pushed_stack_ok p pr st : prod_at tb p = Some pr -> stack_ok st ->
  stack_ok (push_items (p_rev pr) (PE p :: st)).
Proof.
  intros Hp Hst t Hin. rewrite push_items_spec in Hin. apply in_app_or in Hin as [Hin|[Hin|Hin]].
  - apply in_rev in Hin. apply in_map_iff in Hin as ([t'|a'] & E & Hs); cbn in E; [|discriminate].
    inversion E; subst t'. pose proof (prod_at_ok tb Hok _ _ Hp) as Hpo. unfold production_ok in Hpo.
    apply andb_prop in Hpo as [_ Hf]. rewrite forallb_forall in Hf. specialize (Hf _ Hs).
    cbn [sym_ok] in Hf. apply andb_prop in Hf as [Hf _]. apply negb_true_iff in Hf. apply N.eqb_neq in Hf. exact Hf.
  - discriminate.
  - apply Hst. exact Hin.
Qed.

Lemma push_measure c0 c a st' q c' :
  c_stack c = PN a :: st' -> c_stack c0 = st' -> c_errs c0 = c_errs c ->
  remaining (c_stream c0) = remaining (c_stream c) ->
  (exists pr, prod_at tb q = Some pr /\ p_lhs pr = a) ->
  stack_ok st' ->
  push_production tb opts c0 q = Continue c' ->
  stack_ok (c_stack c') /\ length (c_errs c') = length (c_errs c) /\ mlt c' c.
Proof.
  intros Hst Hs0 He0 Hr0 (pr & Hq & Hl) Hok' H.
  apply push_production_spec in H as (pr' & Hq' & _ & -> & _).
  rewrite Hq in Hq'. inversion Hq'; subst pr'. cbn [c_stack c_errs c_stream].
  split; [rewrite Hs0; apply pushed_stack_ok; assumption|]. split; [rewrite He0; reflexivity|].
  unfold mlt. cbn [c_stack c_errs c_stream]. right. split; [rewrite He0; reflexivity|].
  right. split; [exact Hr0|]. left.
  rewrite push_items_spec, <- map_rev, Hst, Hs0. rewrite nu_items. cbn [nu].
  assert (Hin : In pr (tb_prods tb)) by (unfold prod_at in Hq; eapply nth_error_In; exact Hq).
  destruct (lead_lt tb nl rk Hrk pr Hin) as [Hlt Hnull]. rewrite Hl in *.
  destruct (allnull nl (rev (p_rev pr))) eqn:Ea.
  - rewrite (Hnull eq_refl). lia.
  - destruct (nl_of nl a); lia.
Qed.

Lemma step_measure c c' :
  stack_ok (c_stack c) -> length (c_errs c) <= 100 ->
  input_accepted (c_stack c) = false ->
  ll_step orc tb opts c = Continue c' ->
  stack_ok (c_stack c') /\ length (c_errs c') <= 100 /\ mlt c' c.
Proof.
  intros Hst Hlen Hna H. unfold ll_step in H.
  destruct (c_stack c) as [|[t|a|p] st'] eqn:Est; [discriminate| | |].
  - (* terminal *)
    destruct (s_buf (ensure tb (c_stream c))) as [|tok b] eqn:Eb; [discriminate|].
    destruct (N.eqb_spec (fst tok) t) as [Et|Et].
    + unfold consume in H. rewrite (ensure_id tb (ensure tb (c_stream c))) in H by apply ensure_length.
      rewrite Eb in H. inversion H; subst c'. cbn [c_stack c_errs].
      split; [intros x Hx; apply Hst; right; exact Hx|]. split; [exact Hlen|].
      unfold mlt. cbn [c_stack c_errs c_stream]. right. split; [reflexivity|]. left.
      rewrite remaining_ensure. rewrite <- (remaining_ensure tb (c_stream c)).
      unfold remaining. cbn [set_buf s_buf s_rest]. rewrite Eb. cbn [map app filter].
      assert (Hnz : nz (fst tok) = true).
      { rewrite Et. unfold nz. apply negb_true_iff. apply N.eqb_neq. apply Hst. left. reflexivity. }
      rewrite Hnz. cbn [length]. lia.
    + apply htm_continue_len in H. cbn [set_stream c_stack c_errs] in H. destruct H as (H1 & H2 & H3).
      split; [rewrite H1, Est; exact Hst|]. split; [exact H3|]. left. lia.
  - (* non-terminal *)
    assert (Hst' : stack_ok st') by (intros x Hx; apply Hst; right; exact Hx).
    destruct (dfa_at tb a) as [d|] eqn:Ed; [|discriminate].
    pose proof (dfa_at_ok tb Hok _ _ Ed) as Hdok.
    destruct (predict tb d (c_stream c)) as [[q| |e] s1] eqn:Ep; [| discriminate |].
    + destruct (predict_ok_spec tb _ _ _ _ _ Hdok Ep) as [Hq _].
      destruct (push_measure (set_stack (set_stream c s1) st') c a st' q c' Est eq_refl eq_refl
                  (remaining_predict _ _ _ _ _ Ep) Hq Hst' H) as (H1 & H2 & H3).
      split; [exact H1|]. split; [lia|exact H3].
    + destruct (handle_prediction_error orc tb opts (set_stream c s1) a d) as [q c1|r' n c1|site] eqn:Eh;
        try discriminate.
      pose proof Eh as Eh'. apply hpe_ok_len in Eh'. cbn [set_stream c_stack c_errs] in Eh'.
      destruct Eh' as (H1 & H2 & H3).
      apply hpe_ok in Eh as (_ & _ & _ & _ & _ & _ & s & Hs).
      destruct (predict_ok_spec tb _ _ _ _ _ Hdok Hs) as [(pr & Hq & _) _].
      apply push_production_spec in H as (pr' & Hq' & _ & -> & _). cbn [c_stack c_errs set_stack].
      split; [apply pushed_stack_ok; assumption|]. split; [exact H3|].
      left. cbn [c_errs set_stack]. lia.
  - (* end of production *)
    unfold end_production in H. destruct (prod_at tb p) as [pr|]; [|discriminate].
    assert (Hgoal : forall c'' acts evs dep pts,
              c'' = mkConfig st' (c_stream c) pts acts evs (c_errs c) dep ->
              stack_ok (c_stack c'') /\ length (c_errs c'') <= 100 /\ mlt c'' c).
    { intros c'' acts evs dep pts ->. cbn [c_stack c_errs].
      split; [intros x Hx; apply Hst; right; exact Hx|]. split; [exact Hlen|].
      unfold mlt. cbn [c_stack c_errs c_stream]. rewrite Est. right. split; [reflexivity|].
      right. split; [reflexivity|]. right. split; [reflexivity|]. unfold nPE. cbn [filter length]. lia. }
    destruct (c_errs c) eqn:Ee; rewrite <- Ee in *; clear Ee;
      break_matches H; inversion H; eapply Hgoal; reflexivity.
Qed.

End Measure.

(** ** The loop terminates *)
Lemma finish_not_oof c : ll_finish c <> OutOfFuel.
Proof. unfold ll_finish. destruct (c_errs c); [destruct (all_input_consumed _)|]; discriminate. Qed.

Lemma not_acc_not_oof_step orc tb opts c r : ll_step orc tb opts c = Return r -> r <> OutOfFuel.
Proof.
  intros H ->. unfold ll_step, push_production, end_production, handle_token_mismatch in H.
  break_matches H; discriminate.
Qed.

Section Terminates.
Variable orc : oracle.
Variable tb : ll_tables.
Variable opts : options.
Variable nl : list bool.
Variable rk : list N.
Hypothesis Hok : tables_ok_basic tb = true.
Hypothesis Hrk : rank_ok tb nl rk = true.

Lemma loop_terminates_aux : forall e r v p c,
  101 - length (c_errs c) = e -> remaining (c_stream c) = r ->
  nu tb nl rk (c_stack c) = v -> nPE (c_stack c) = p ->
  stack_ok (c_stack c) -> length (c_errs c) <= 100 ->
  exists fuel, ll_loop orc tb opts fuel c <> OutOfFuel.
Proof.
  induction e as [e IHe] using lt_wf_ind. induction r as [r IHr] using lt_wf_ind.
  induction v as [v IHv] using lt_wf_ind. induction p as [p IHp] using lt_wf_ind.
  intros c He Hr Hv Hp Hst Hlen.
  destruct (input_accepted (c_stack c)) eqn:Hacc.
  - exists 1. cbn [ll_loop]. rewrite Hacc. apply finish_not_oof.
  - destruct (ll_step orc tb opts c) as [c'|c'|res] eqn:Es.
    + destruct (step_measure orc tb opts nl rk Hok Hrk c c' Hst Hlen Hacc Es) as (Hst' & Hlen' & Hm).
      assert (Hex : exists fuel, ll_loop orc tb opts fuel c' <> OutOfFuel).
      { unfold mlt in Hm. destruct Hm as [Hm|(E1 & [Hm|(E2 & [Hm|(E3 & Hm)])])].
        - eapply (IHe (101 - length (c_errs c'))); [lia| | | | |exact Hst'|exact Hlen']; reflexivity.
        - eapply (IHr (remaining (c_stream c'))); [lia| | | | |exact Hst'|exact Hlen']; try reflexivity. lia.
        - eapply (IHv (nu tb nl rk (c_stack c'))); [lia| | | | |exact Hst'|exact Hlen']; try reflexivity; lia.
        - eapply (IHp (nPE (c_stack c'))); [lia| | | | |exact Hst'|exact Hlen']; try reflexivity; lia. }
      destruct Hex as (f & Hf). exists (S f). cbn [ll_loop]. rewrite Hacc, Es. exact Hf.
    + exists 1. cbn [ll_loop]. rewrite Hacc, Es. apply finish_not_oof.
    + exists 1. cbn [ll_loop]. rewrite Hacc, Es. eapply not_acc_not_oof_step; exact Es.
Qed.

Lemma loop_terminates c : stack_ok (c_stack c) -> length (c_errs c) <= 100 ->
  exists fuel, ll_loop orc tb opts fuel c <> OutOfFuel.
Proof. intros H1 H2. eapply loop_terminates_aux; try reflexivity; assumption. Qed.

Lemma init_shape s0 c0 : ll_init orc tb opts s0 = Continue c0 ->
  stack_ok (c_stack c0) /\ length (c_errs c0) <= 100.
Proof.
  intros H. unfold ll_init in H.
  destruct (dfa_at tb (tb_start tb)) as [d|]; [|discriminate].
  assert (Hnil : stack_ok []) by (intros t []).
  destruct (predict tb d s0) as [[q| |e] s1]; [| discriminate |].
  - apply push_production_spec in H as (pr & Hq & _ & -> & _). cbn [c_stack c_errs set_stream].
    split; [apply (pushed_stack_ok tb Hok); assumption|cbn; lia].
  - destruct (handle_prediction_error orc tb opts _ _ d) as [q c1|r' n c1|site] eqn:Eh; try discriminate.
    apply hpe_ok_len in Eh. cbn [set_stream c_stack c_errs length] in Eh. destruct Eh as (H1 & H2 & H3).
    apply push_production_spec in H as (pr & Hq & _ & -> & _). cbn [c_stack c_errs].
    rewrite H1. split; [apply (pushed_stack_ok tb Hok); assumption|exact H3].
Qed.

Lemma init_return_not_oof s0 r : ll_init orc tb opts s0 = Return r -> r <> OutOfFuel.
Proof.
  intros H ->. unfold ll_init, push_production in H. break_matches H; discriminate.
Qed.

Lemma run_located_terminates ltoks eloc :
  exists fuel, ll_run_located orc tb opts fuel ltoks eloc <> OutOfFuel.
Proof.
  unfold ll_run_located. destruct (ll_init orc tb opts _) as [c|c|r] eqn:Ei.
  - destruct (init_shape _ _ Ei) as [H1 H2]. apply loop_terminates; assumption.
  - exists 0. apply finish_not_oof.
  - exists 0. eapply init_return_not_oof; exact Ei.
Qed.

End Terminates.

(** ** Main theorems *)

(** Termination for every recovery oracle, recovery enabled or disabled. *)
Theorem ll_terminates_any_oracle : forall orc tb opts toks nl rk,
  tables_ok_basic tb = true -> rank_ok tb nl rk = true ->
  exists fuel, ll_run_with orc fuel tb opts toks <> OutOfFuel.
Proof.
  intros orc tb opts toks nl rk Hok Hrk. unfold ll_run_with.
  destruct (forallb significant toks); [|exists 0; discriminate].
  eapply run_located_terminates; eassumption.
Qed.

(** With recovery enabled (and disabled), for the transcribed recovery functions; by
    [ll_run_fuel_mono] every larger amount of fuel gives the same answer. *)
Theorem ll_terminates : forall tb opts toks nl rk,
  tables_ok tb = true -> rank_ok tb nl rk = true ->
  exists fuel, forall extra,
    ll_run (fuel + extra) tb opts toks <> OutOfFuel /\
    ll_run (fuel + extra) tb opts toks = ll_run fuel tb opts toks.
Proof.
  intros tb opts toks nl rk Hok Hrk. apply tables_ok_split in Hok as [H1 _].
  destruct (ll_terminates_any_oracle faithful_oracle tb opts toks nl rk H1 Hrk) as (fuel & Hf).
  exists fuel. intros extra. fold (ll_run fuel tb opts toks) in Hf.
  rewrite (ll_run_fuel_mono fuel extra tb opts toks Hf). split; [exact Hf|reflexivity].
Qed.

(** The requested no-recovery statement, in the "exists fuel" form (no explicit bound). *)
Theorem ll_terminates_no_recovery : forall tb opts toks nl rk,
  tables_ok tb = true -> rank_ok tb nl rk = true -> o_recovery opts = false ->
  exists fuel, forall fuel', fuel <= fuel' -> ll_run fuel' tb opts toks <> OutOfFuel.
Proof.
  intros tb opts toks nl rk Hok Hrk _.
  destruct (ll_terminates tb opts toks nl rk Hok Hrk) as (fuel & Hf).
  exists fuel. intros fuel' Hle. replace fuel' with (fuel + (fuel' - fuel)) by lia. apply Hf.
Qed.

(** ** Error recovery does a bounded amount of work: at most 100 error entries while the run
    goes on; the results report at most 101 ([TooManyErrors] is raised at the 101st). *)
Theorem recovery_entries_bounded : forall orc tb opts s0 c0 c,
  ll_init orc tb opts s0 = Continue c0 -> run_reaches orc tb opts c0 c ->
  length (c_errs c) <= 100.
Proof.
  intros orc tb opts s0 c0 c Hi Hr.
  assert (H0 : length (c_errs c0) <= 100).
  { unfold ll_init in Hi. destruct (dfa_at tb (tb_start tb)) as [d|]; [|discriminate].
    destruct (predict tb d s0) as [[q| |e] s1]; [| discriminate |].
    - apply push_production_shape in Hi as (E & _). rewrite E. cbn. lia.
    - destruct (handle_prediction_error orc tb opts _ _ d) as [q c1|r' n c1|site] eqn:Eh; try discriminate.
      apply hpe_ok_len in Eh as (_ & _ & H3). apply push_production_shape in Hi as (E & _). rewrite E. exact H3. }
  clear Hi. induction Hr as [c|c c1 c' _ Hs _ IH]; [exact H0|]. apply IH. clear IH.
  unfold ll_step in Hs. destruct (c_stack c) as [|[t|a|p] st'].
  - inversion Hs; subst; exact H0.
  - destruct (s_buf (ensure tb (c_stream c))) as [|tok b]; [discriminate|].
    destruct (fst tok =? t)%N.
    + destruct (consume tb _) as [[x s2]|]; [|discriminate]. inversion Hs; subst c1. exact H0.
    + apply htm_continue_len in Hs as (_ & _ & H3). exact H3.
  - destruct (dfa_at tb a) as [d|]; [|discriminate].
    destruct (predict tb d (c_stream c)) as [[q| |e] s1]; [| discriminate |].
    + apply push_production_shape in Hs as (E & _). rewrite E. exact H0.
    + destruct (handle_prediction_error orc tb opts _ a d) as [q c2|r' n c2|site] eqn:Eh; try discriminate.
      apply hpe_ok_len in Eh as (_ & _ & H3). apply push_production_shape in Hs as (E & _). rewrite E. exact H3.
  - unfold end_production in Hs. break_matches Hs; inversion Hs; subst c1; exact H0.
Qed.

Lemma add_error_len errs loc : length (fst (add_error errs loc)) <= S (length errs).
Proof.
  unfold add_error. destruct (memN loc errs); [cbn; lia|].
  destruct (100 <? length (loc :: errs)); cbn; lia.
Qed.

Lemma hpe_err_len orc tb opts c a d r n c1 :
  handle_prediction_error orc tb opts c a d = HErr r n c1 ->
  length (c_errs c1) <= S (length (c_errs c)) /\ n <= S (S (length (c_errs c))).
Proof.
  unfold handle_prediction_error. intros H.
  pose proof (add_error_len (c_errs c) (first_loc (s_buf (c_stream c)))) as Hl.
  destruct (negb (a <? tb_nnts tb)%N); [discriminate|].
  destruct (negb (build_error_ok tb _ _ _)); [discriminate|].
  destruct (diag_panic tb (c_stack c)); [discriminate|].
  set (ae := add_error (c_errs c) (first_loc (s_buf (c_stream c)))) in *.
  destruct (snd ae); [inversion H; subst; cbn [set_errs c_errs]; lia|].
  destruct (negb (o_recovery opts)); [inversion H; subst; cbn [set_errs c_errs]; lia|].
  destruct (restore_status d); try discriminate.
  - inversion H; subst. cbn [set_stream set_errs c_errs length].
    match goal with |- _ /\ length (fst (add_error ?e ?l)) <= _ => pose proof (add_error_len e l) end. lia.
  - destruct (o_expected orc d _); [|discriminate].
    destruct (o_adjust orc _ _) as [b| |]; try discriminate.
    + destruct (predict tb d _) as [[q| |e] s2]; try discriminate.
      inversion H; subst. cbn [set_stream set_errs c_errs]. lia.
    + inversion H; subst. cbn [set_errs c_errs]. lia.
Qed.

Lemma step_errs_le orc tb opts c c' : ll_step orc tb opts c = Continue c' ->
  length (c_errs c) <= 100 -> length (c_errs c') <= 100.
Proof.
  intros Hs H0. unfold ll_step in Hs. destruct (c_stack c) as [|[t|a|p] st'].
  - inversion Hs; subst; exact H0.
  - destruct (s_buf (ensure tb (c_stream c))) as [|tok b]; [discriminate|].
    destruct (fst tok =? t)%N.
    + destruct (consume tb _) as [[x s2]|]; [|discriminate]. inversion Hs; subst c'. exact H0.
    + apply htm_continue_len in Hs as (_ & _ & H3). exact H3.
  - destruct (dfa_at tb a) as [d|]; [|discriminate].
    destruct (predict tb d (c_stream c)) as [[q| |e] s1]; [| discriminate |].
    + apply push_production_shape in Hs as (E & _). rewrite E. exact H0.
    + destruct (handle_prediction_error orc tb opts _ a d) as [q c2|r' n c2|site] eqn:Eh; try discriminate.
      apply hpe_ok_len in Eh as (_ & _ & H3). apply push_production_shape in Hs as (E & _). rewrite E. exact H3.
  - unfold end_production in Hs. break_matches Hs; inversion Hs; subst c'; exact H0.
Qed.

Lemma step_break_len orc tb opts c c' : ll_step orc tb opts c = Break c' ->
  length (c_errs c') <= S (length (c_errs c)).
Proof.
  intros Hs. unfold ll_step in Hs. destruct (c_stack c) as [|[t|a|p] st']; [discriminate| | |].
  - destruct (s_buf (ensure tb (c_stream c))) as [|tok b]; [discriminate|].
    destruct (fst tok =? t)%N.
    + destruct (consume tb _) as [[x s2]|]; discriminate.
    + unfold handle_token_mismatch in Hs. cbn [set_stream c_errs c_stack c_stream] in Hs.
      pose proof (add_error_len (c_errs c) (snd tok)) as Hl.
      break_matches Hs; inversion Hs; subst c'; cbn [set_stream set_errs c_errs]; exact Hl.
  - destruct (dfa_at tb a) as [d|]; [|discriminate].
    destruct (predict tb d (c_stream c)) as [[q| |e] s1]; [| discriminate |].
    + exfalso. eapply push_production_not_break; exact Hs.
    + destruct (handle_prediction_error orc tb opts _ a d) as [q c2|r' n c2|site] eqn:Eh; try discriminate.
      * exfalso. eapply push_production_not_break; exact Hs.
      * inversion Hs; subst c2. apply hpe_err_len in Eh as [H _]. exact H.
  - unfold end_production in Hs. break_matches Hs; discriminate.
Qed.

Lemma step_return_rejected orc tb opts c r n : ll_step orc tb opts c = Return (Rejected r n) ->
  n = length (c_errs c).
Proof.
  intros H. unfold ll_step, push_production, end_production, handle_token_mismatch in H.
  break_matches H; inversion H; reflexivity.
Qed.

Lemma loop_error_count orc tb opts fuel : forall c r n,
  length (c_errs c) <= 100 -> ll_loop orc tb opts fuel c = Rejected r n -> n <= 101.
Proof.
  induction fuel as [|fuel IH]; intros c r n H0 H; [discriminate|]. cbn [ll_loop] in H.
  assert (Hfin : forall c1, length (c_errs c1) <= 101 -> ll_finish c1 = Rejected r n -> n <= 101).
  { intros c1 Hl Hf. unfold ll_finish in Hf. destruct (c_errs c1); [destruct (all_input_consumed _)|];
      inversion Hf; subst; cbn [length] in *; lia. }
  destruct (input_accepted (c_stack c)); [eapply Hfin; [|exact H]; lia|].
  destruct (ll_step orc tb opts c) as [c'|c'|res] eqn:Es.
  - eapply IH; [|exact H]. eapply step_errs_le; eassumption.
  - eapply Hfin; [|exact H]. pose proof (step_break_len _ _ _ _ _ Es). lia.
  - subst res. apply step_return_rejected in Es. lia.
Qed.

(** The number of error entries reported by a rejected run is at most 101. *)
Theorem ll_error_count_bounded : forall orc fuel tb opts toks r n,
  ll_run_with orc fuel tb opts toks = Rejected r n -> n <= 101.
Proof.
  intros orc fuel tb opts toks r n H. unfold ll_run_with in H.
  destruct (forallb significant toks); [|discriminate]. unfold ll_run_located in H.
  destruct (ll_init orc tb opts _) as [c|c|res] eqn:Ei.
  - eapply loop_error_count; [|exact H].
    eapply (recovery_entries_bounded orc tb opts _ c c Ei). constructor.
  - exfalso. eapply init_not_break; exact Ei.
  - subst res. unfold ll_init in Ei.
    destruct (dfa_at tb (tb_start tb)) as [d|]; [|discriminate].
    destruct (predict tb d _) as [[q| |e] s1]; [| discriminate |].
    + unfold push_production in Ei. break_matches Ei; discriminate.
    + destruct (handle_prediction_error orc tb opts _ _ d) as [q c1|r' n' c1|site] eqn:Eh; try discriminate.
      * unfold push_production in Ei. break_matches Ei; discriminate.
      * inversion Ei; subst. apply hpe_err_len in Eh as [_ Hn]. cbn [set_stream c_errs length] in Hn. lia.
Qed.

(** ** Examples *)
Example ex_cert_ok : left_recursion_free ex_tables = true.
Proof. vm_compute. reflexivity. Qed.

Example ex_cert_value : find_cert ex_tables = ([false], [0%N]).
Proof. vm_compute. reflexivity. Qed.

(** A left-recursive hand table: S -> S a | c, with an automaton that predicts the left-recursive
    production on [c].  It passes [tables_ok], has no certificate, and the parser pushes
    productions for ever. *)
Definition lr_tables : ll_tables :=
  mkTables [ mkProduction 0 [T 5; NT 0] false; mkProduction 0 [T 7] false ]
           [ mkDfa (-1) [ mkTrans 0 7 1 0 ] 1 ] 0 1 10 1.

Example lr_tables_ok : tables_ok lr_tables = true.
Proof. vm_compute. reflexivity. Qed.

Example lr_cert_fails : left_recursion_free lr_tables = false.
Proof. vm_compute. reflexivity. Qed.

(** No certificate at all can exist for it. *)
Example lr_no_cert : forall nl rk, rank_ok lr_tables nl rk = false.
Proof.
  intros nl rk. unfold rank_ok, lr_tables, prod_rank_ok. cbn [tb_prods forallb p_rev p_lhs rev app lc_ok].
  rewrite N.ltb_irrefl. cbn [andb]. rewrite andb_false_r. reflexivity.
Qed.

Example lr_out_of_fuel :
  ll_run 10 lr_tables ex_opts [7%N] = OutOfFuel /\
  ll_run 100 lr_tables ex_opts [7%N] = OutOfFuel /\
  ll_run 1000 lr_tables ex_opts_rec [7%N] = OutOfFuel.
Proof. repeat split; vm_compute; reflexivity. Qed.

(** A grammar with nullable non-terminals and epsilon productions:
    E -> T E' ; E' -> d T E' | eps ; T -> a | b E c. *)
Definition ex2_tables : ll_tables := mkTables
  [ mkProduction 0 [NT 1; NT 2] false; mkProduction 1 [NT 1; NT 2; T 8] false; mkProduction 1 [] false;
    mkProduction 2 [T 5] false; mkProduction 2 [T 7; NT 0; T 6] false ]
  [ mkDfa 0 [] 0; mkDfa (-1) [ mkTrans 0 0 1 2; mkTrans 0 7 2 2; mkTrans 0 8 3 1 ] 1;
    mkDfa (-1) [ mkTrans 0 5 1 3; mkTrans 0 6 2 4 ] 1 ] 0 1 32 3.

Example ex2_cert : find_cert ex2_tables = ([false; true; false], [1; 0; 0]%N) /\
                   left_recursion_free ex2_tables = true /\ tables_ok ex2_tables = true.
Proof. repeat split; vm_compute; reflexivity. Qed.

Example ex_terminates_instance :
  exists fuel, forall extra, ll_run (fuel + extra) ex2_tables ex_opts_rec [6; 5; 8; 7; 7]%N <> OutOfFuel /\
    ll_run (fuel + extra) ex2_tables ex_opts_rec [6; 5; 8; 7; 7]%N = ll_run fuel ex2_tables ex_opts_rec [6; 5; 8; 7; 7]%N.
Proof.
  eapply ll_terminates; [vm_compute; reflexivity|].
  exact (proj1 (proj2 ex2_cert)).
Qed.

Print Assumptions ll_terminates_any_oracle.
Print Assumptions ll_terminates.
Print Assumptions ll_terminates_no_recovery.
Print Assumptions recovery_entries_bounded.
Print Assumptions ll_error_count_bounded.
