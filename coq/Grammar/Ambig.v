(** * Checked ambiguity witnesses (used by C04)

    [ambig_check g t1 t2] validates a witness of ambiguity found by an UNVERIFIED search: two different
    derivation trees of [g], both rooted at the start symbol, with the same yield.  A grammar with such a
    pair is ambiguous and therefore not LR(k) / LALR(1) for any k (classical; not formalised here), so a
    table generator that returns a table for it must have resolved - and has to report - at least one
    conflict. *)
From Coq Require Import List NArith Bool.
From Parol Require Import Grammar.Cfg.
Import ListNotations.

Fixpoint tree_okb (g : cfg) (t : tree) : bool :=
  match t with
  | Leaf _ => true
  | Node p cs =>
      existsb (prod_eqb p) (prods g) && syms_eqb (map root_sym cs) (rhs p) &&
      (fix all (l : list tree) : bool :=
         match l with [] => true | c :: l' => tree_okb g c && all l' end) cs
  end.

Fixpoint tree_eqb (a b : tree) : bool :=
  match a, b with
  | Leaf x, Leaf y => N.eqb x y
  | Node p cs, Node q ds =>
      prod_eqb p q &&
      (fix go (l : list tree) (m : list tree) : bool :=
         match l, m with
         | [], [] => true
         | c :: l', d :: m' => tree_eqb c d && go l' m'
         | _, _ => false
         end) cs ds
  | _, _ => false
  end.

Fixpoint ns_eqb (a b : list N) : bool :=
  match a, b with
  | [], [] => true
  | x :: a', y :: b' => N.eqb x y && ns_eqb a' b'
  | _, _ => false
  end.

Definition ambig_check (g : cfg) (t1 t2 : tree) : bool :=
  tree_okb g t1 && tree_okb g t2 &&
  sym_eqb (root_sym t1) (NT (start g)) && sym_eqb (root_sym t2) (NT (start g)) &&
  ns_eqb (yield t1) (yield t2) && negb (tree_eqb t1 t2).

Definition ambiguous (g : cfg) : Prop :=
  exists t1 t2, tree_ok g t1 /\ tree_ok g t2 /\ root_sym t1 = NT (start g) /\ root_sym t2 = NT (start g) /\
                yield t1 = yield t2 /\ t1 <> t2.

Lemma ns_eqb_eq a : forall b, ns_eqb a b = true -> a = b.
Proof.
  induction a as [|x a IH]; intros [|y b] H; simpl in H; try discriminate; [reflexivity|].
  apply andb_prop in H as [H1 H2]. apply N.eqb_eq in H1. apply IH in H2. congruence.
Qed.

(** Nested induction principle on trees. *)
Section TreeInd.
  Variable P : tree -> Prop.
  Hypothesis Hleaf : forall a, P (Leaf a).
  Hypothesis Hnode : forall p cs, Forall P cs -> P (Node p cs).
  Fixpoint tree_ind' (t : tree) : P t :=
    match t with
    | Leaf a => Hleaf a
    | Node p cs =>
        Hnode p cs ((fix go (l : list tree) : Forall P l :=
                       match l with [] => Forall_nil P | c :: l' => Forall_cons c (tree_ind' c) (go l') end) cs)
    end.
End TreeInd.

Lemma tree_okb_sound g t : tree_okb g t = true -> tree_ok g t.
Proof.
  induction t as [a|p cs IH] using tree_ind'; intros H; cbn [tree_okb tree_ok] in *; [exact I|].
  apply andb_prop in H as [H H3]. apply andb_prop in H as [H1 H2].
  split; [|split].
  - apply existsb_exists in H1 as [q [Hq Hpq]]. apply prod_eqb_eq in Hpq. subst q. exact Hq.
  - apply syms_eqb_eq. exact H2.
  - clear H1 H2. induction cs as [|c cs IHcs]; [exact I|].
    apply andb_prop in H3 as [Hc Hr]. inversion IH as [|? ? Hc' Hr']; subst.
    split; [apply Hc'; exact Hc | apply IHcs; assumption].
Qed.

Lemma tree_eqb_refl t : tree_eqb t t = true.
Proof.
  induction t as [a|p cs IH] using tree_ind'; cbn [tree_eqb]; [apply N.eqb_refl|].
  assert (Hp : prod_eqb p p = true) by (apply prod_eqb_eq; reflexivity). rewrite Hp. cbn [andb].
  induction cs as [|c cs IHcs]; [reflexivity|].
  inversion IH as [|? ? Hc Hr]; subst. rewrite Hc. cbn [andb]. apply IHcs. exact Hr.
Qed.

Theorem ambig_check_sound g t1 t2 : ambig_check g t1 t2 = true -> ambiguous g.
Proof.
  unfold ambig_check. intros H.
  apply andb_prop in H as [H H6]. apply andb_prop in H as [H H5]. apply andb_prop in H as [H H4].
  apply andb_prop in H as [H H3]. apply andb_prop in H as [H1 H2].
  exists t1, t2. repeat split.
  - apply tree_okb_sound; exact H1.
  - apply tree_okb_sound; exact H2.
  - apply sym_eqb_eq; exact H3.
  - apply sym_eqb_eq; exact H4.
  - apply ns_eqb_eq; exact H5.
  - intros E. subst t2. rewrite tree_eqb_refl in H6. discriminate.
Qed.

(** Non-vacuity: S: A | B; A: a; B: a  has two trees for "a". *)
Example ambig_example :
  let g := mkCfg 0%N [mkProd 0%N [NT 1%N]; mkProd 0%N [NT 2%N]; mkProd 1%N [T 5%N]; mkProd 2%N [T 5%N]] in
  ambig_check g (Node (mkProd 0%N [NT 1%N]) [Node (mkProd 1%N [T 5%N]) [Leaf 5%N]])
                (Node (mkProd 0%N [NT 2%N]) [Node (mkProd 2%N [T 5%N]) [Leaf 5%N]]) = true.
Proof. vm_compute. reflexivity. Qed.

Print Assumptions ambig_check_sound.
