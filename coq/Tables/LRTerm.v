(** * Termination of the LALR(1) runtime parser on certified tables (C19, LR half)

    [lr_run] (Runtime/LRParser.v) answers [OutOfFuel] when the loop of [LRParser::parse_into] does
    not stop within the fuel.  The Rust loop has no bound of its own: a table with a cycle of
    reductions that consume nothing (cyclic grammar [A =>+ A], or a loop through empty
    reductions) makes the real parser spin for ever.  This file gives CERTIFICATE CHECKS that
    exclude this and an explicit bound on the number of loop iterations.

    - [acyclic_ok g nl rk]   (grammar):  [nl] marks non-terminals as nullable and is closed under the
      productions; [rk] ranks the non-terminals such that for every production [A -> X1..Xn] and
      every position [i] whose OTHER positions are all marked non-terminals, [Xi = NT B] implies
      [rk B < rk A].  This excludes [A =>+ A].
    - [stack_rank_ok g tb nl ann E srk] (table, through the annotation that [lr_safe_check]
      validates).  Everything is indexed by the LOOKAHEAD terminal: while entries with empty
      subtrees are stacked no token is shifted, so the lookahead does not change.  [E] is a
      CHECKED certificate set of triples (lookahead [la], state [s], non-terminal [x]): "under
      lookahead [la] an entry for [x] with an EMPTY subtree may be pushed directly on state [s]".
      [eps_closed] checks that [E] is closed: for every terminal [la] that is an action key of
      the table (and 0), every production [p] whose right-hand side [X1..Xn] consists of marked
      non-terminals only and every state [t0], if the goto chain [t0 -X1-> t1 .. -Xn-> tn]
      exists with [(la, t(i-1), Xi)] in [E] at every step and the action of [tn] for [la] (first
      match) is [Reduce (lhs p) p], then [(la, t0, lhs p)] is in [E].  [srk] gives one state
      ranking per lookahead.  The rank part: every state [s'] other than 0 has a known incoming
      symbol [x] and a set [c] of states it may sit on; if [x] is a marked non-terminal then
      for every [la] and every [s] in [c] with [(la, s, x)] in [E] the [la]-rank of [s'] is
      smaller than that of [s].  This bounds the length of every run of adjacent parser-stack
      entries that carry an empty subtree.  It is NEEDED: [lr_safe_check] is a safety check
      only, and the statement without this hypothesis is false, see [lr_terminates_refuted].

    Main results
      [eps_tree_bound], [tree_size_bound]  size of derivation trees of certified grammars;
      [lr_terminates]                      explicit fuel bound [lr_fuel_bound];
      [lr_terminates_ex]                   existential form;
      [lr_terminates_refuted]              the statement without [stack_rank_ok] is false;
      [cyc_never_acyclic], [cyc_loops]     the cyclic grammar [S: A; A: A | 'a'] has no certificate
                                           and its (validated) table loops for ever.
      [amb_terminates_instance], [bae_terminates_instance], [dla_terminates_instance]
                                           real tables with resolved conflicts pass.
    Executable (extraction): [acyclic_ok], [stack_rank_ok] (with [eps_closed], [eps_edge]),
      [find_acyclic_cert], [find_eps_set], [find_stack_ranks], [lr_fuel_bound]. *)
From Coq Require Import List NArith Arith Bool Lia.
From Parol Require Import Grammar.Cfg Runtime.LRParser Tables.LRValidate.
Import ListNotations.

(** ** The grammar certificate check *)
Definition marked (nl : list bool) (a : N) : bool :=
  match nth_error nl (N.to_nat a) with Some b => b | None => false end.

(** "is a non-terminal that the certificate marks as nullable" *)
Definition null_sym (nl : list bool) (x : sym) : bool :=
  match x with NT a => marked nl a | T _ => false end.

Definition rk_of (rk : list N) (a : N) : option N := nth_error rk (N.to_nat a).

Definition rank_lt (rk : list N) (b a : N) : bool :=
  match rk_of rk b, rk_of rk a with
  | Some rb, Some ra => N.ltb rb ra
  | _, _ => false
  end.

Definition pos_ok (rk : list N) (a : N) (x : sym) : bool :=
  match x with NT b => rank_lt rk b a | T _ => true end.

(** Called on a suffix of a right-hand side whose prefix consists of marked non-terminals. *)
Fixpoint rhs_ok (nl : list bool) (rk : list N) (a : N) (l : list sym) : bool :=
  match l with
  | [] => true
  | x :: post =>
      (if forallb (null_sym nl) post then pos_ok rk a x else true) &&
      (if null_sym nl x then rhs_ok nl rk a post else true)
  end.

Definition has_rank (rk : list N) (a : N) : bool :=
  match rk_of rk a with Some _ => true | None => false end.

Definition closed_ok (g : cfg) (nl : list bool) : bool :=
  forallb (fun p => implb (forallb (null_sym nl) (rhs p)) (marked nl (lhs p))) (prods g).

Definition acyclic_ok (g : cfg) (nullable : list bool) (rk : list N) : bool :=
  closed_ok g nullable &&
  forallb (fun p => has_rank rk (lhs p) && rhs_ok nullable rk (lhs p) (rhs p)) (prods g).

(** ** The table certificate check *)
Definition srk_lt (srk : list N) (s' s : N) : bool :=
  match nth_error srk (N.to_nat s'), nth_error srk (N.to_nat s) with
  | Some r', Some r => N.ltb r' r
  | _, _ => false
  end.

Fixpoint forallbi {A : Type} (f : N -> A -> bool) (i : N) (l : list A) : bool :=
  match l with
  | [] => true
  | a :: l' => f i a && forallbi f (N.succ i) l'
  end.

Definition etriple := (N * N * N)%type.     (* (lookahead, state, non-terminal) *)

(** [eps_edge E la s a]: the triple is in the certificate set. *)
Definition eps_edge (E : list etriple) (la s a : N) : bool :=
  existsb (fun e => N.eqb (fst (fst e)) la && N.eqb (snd (fst e)) s && N.eqb (snd e) a) E.

(** [LRParseTable::goto] without the panics. *)
Definition goto_of (tb : lr_table) (s a : N) : option N :=
  match nth_error (lr_states tb) (N.to_nat s) with
  | Some st => assoc a (st_gotos st)
  | None => None
  end.

(** Follow the gotos from [t] along [l], every step being in [E] for [la]; the state reached. *)
Fixpoint eps_chain (tb : lr_table) (E : list etriple) (la t : N) (l : list sym) : option N :=
  match l with
  | [] => Some t
  | NT a :: l' =>
      if eps_edge E la t a
      then match goto_of tb t a with
           | Some t' => eps_chain tb E la t' l'
           | None => None
           end
      else None
  | T _ :: _ => None
  end.

(** The action of state [s] for terminal [la] (first match, as [LR1State::action_index]) is
    [Reduce a p]. *)
Definition red_on (tb : lr_table) (s la a p : N) : bool :=
  match nth_error (lr_states tb) (N.to_nat s) with
  | None => false
  | Some st =>
      match assoc la (st_actions st) with
      | None => false
      | Some ai =>
          match nth_error (lr_actions tb) (N.to_nat ai) with
          | Some (Reduce nt p') => N.eqb nt a && N.eqb p' p
          | _ => false
          end
      end
  end.

Definition dedupN (l : list N) : list N :=
  fold_right (fun x acc => if memN x acc then acc else x :: acc) [] l.

(** The lookaheads that can select an action: the action keys of the table, and 0. *)
Definition table_las (tb : lr_table) : list N :=
  dedupN (0%N :: flat_map (fun st => map fst (st_actions st)) (lr_states tb)).

Definition eps_closed_la (g : cfg) (tb : lr_table) (nl : list bool) (E : list etriple) (la : N)
  : bool :=
  forallbi (fun p pr =>
              if forallb (null_sym nl) (rhs pr)
              then forallbi (fun t0 (_ : lr_state) =>
                               match eps_chain tb E la t0 (rhs pr) with
                               | Some tn => implb (red_on tb tn la (lhs pr) p)
                                                  (eps_edge E la t0 (lhs pr))
                               | None => true
                               end) 0%N (lr_states tb)
              else true) 0%N (prods g).

Definition eps_closed (g : cfg) (tb : lr_table) (nl : list bool) (E : list etriple) : bool :=
  forallb (eps_closed_la g tb nl E) (table_las tb).

(** State ranking for lookahead [la]; a missing entry is the empty ranking, with which every
    comparison fails. *)
Definition ranks_for (srk : list (N * list N)) (la : N) : list N :=
  match find (fun e => N.eqb (fst e) la) srk with
  | Some e => snd e
  | None => []
  end.

Definition stack_state_ok (nl : list bool) (E : list etriple) (la : N) (r : list N)
  (s' : N) (l : list ann_entry) : bool :=
  match l with
  | (NT a, c) :: _ =>
      if marked nl a
      then forallb (fun s => implb (eps_edge E la s a) (srk_lt r s' s)) c
      else true
  | _ => true
  end.

(** Every state other than 0 has a known incoming symbol. *)
Definition ann_heads_ok (ann : annotation) : bool :=
  forallbi (fun s' (l : list ann_entry) =>
              N.eqb s' 0 || match l with [] => false | _ :: _ => true end) 0%N ann.

Definition stack_rank_ok (g : cfg) (tb : lr_table) (nullable : list bool) (ann : annotation)
  (E : list etriple) (srk : list (N * list N)) : bool :=
  eps_closed g tb nullable E && ann_heads_ok ann &&
  forallb (fun la => forallbi (stack_state_ok nullable E la (ranks_for srk la)) 0%N ann)
          (dedupN (map (fun e => fst (fst e)) E)).

(** ** Certificate search (UNVERIFIED by design: results are only used through the checks) *)
Definition maxN (l : list N) : N := fold_left N.max l 0%N.

Definition nt_count (g : cfg) : nat := S (N.to_nat (maxN (nts g))).

Definition null_pass (g : cfg) (nl : list bool) : list bool * bool :=
  fold_left (fun (acc : list bool * bool) p =>
               let (m, ch) := acc in
               if negb (marked m (lhs p)) && forallb (null_sym m) (rhs p)
               then (update_nth (N.to_nat (lhs p)) (fun _ => true) m, true) else acc)
            (prods g) (nl, false).

Fixpoint null_loop (fuel : nat) (g : cfg) (nl : list bool) : list bool :=
  match fuel with
  | O => nl
  | S fuel' => let (nl', ch) := null_pass g nl in if ch then null_loop fuel' g nl' else nl'
  end.

(** Least fixpoint: every pass that changes something marks one more non-terminal. *)
Definition find_nullable (g : cfg) : list bool :=
  null_loop (S (nt_count g)) g (repeat false (nt_count g)).

(** Edges [(a, b)]: the rank of [a] must exceed the rank of [b]. *)
Fixpoint rhs_edges (nl : list bool) (a : N) (l : list sym) : list (N * N) :=
  match l with
  | [] => []
  | x :: post =>
      (match x with
       | NT b => if forallb (null_sym nl) post then [(a, b)] else []
       | T _ => []
       end) ++ (if null_sym nl x then rhs_edges nl a post else [])
  end.

Definition rank_edges (g : cfg) (nl : list bool) : list (N * N) :=
  flat_map (fun p => rhs_edges nl (lhs p) (rhs p)) (prods g).

Definition getN (l : list N) (a : N) : N :=
  match nth_error l (N.to_nat a) with Some r => r | None => 0%N end.

Definition relax_pass (edges : list (N * N)) (rk : list N) : list N * bool :=
  fold_left (fun (acc : list N * bool) (e : N * N) =>
               let (m, ch) := acc in
               let ra := getN m (fst e) in
               let rb := getN m (snd e) in
               if N.leb ra rb
               then (update_nth (N.to_nat (fst e)) (fun _ => N.succ rb) m, true) else acc)
            edges (rk, false).

(** Stops at a fixpoint; with a cycle among the edges it runs out of fuel and returns ranks that
    fail the check. *)
Fixpoint relax_loop (fuel : nat) (edges : list (N * N)) (rk : list N) : list N :=
  match fuel with
  | O => rk
  | S fuel' => let (rk', ch) := relax_pass edges rk in if ch then relax_loop fuel' edges rk' else rk'
  end.

Definition find_acyclic_cert (g : cfg) : list bool * list N :=
  let nl := find_nullable g in
  (nl, relax_loop (S (nt_count g)) (rank_edges g nl) (repeat 0%N (nt_count g))).

Fixpoint foldi {A B : Type} (f : N -> A -> B -> B) (i : N) (l : list A) (b : B) : B :=
  match l with
  | [] => b
  | a :: l' => foldi f (N.succ i) l' (f i a b)
  end.

(** One pass of the closure for lookahead [la]: add every triple that [eps_closed] demands. *)
Definition eps_pass (g : cfg) (tb : lr_table) (nl : list bool) (la : N) (E : list etriple)
  : list etriple * bool :=
  foldi (fun p pr (acc : list etriple * bool) =>
           if forallb (null_sym nl) (rhs pr)
           then foldi (fun t0 (_ : lr_state) (acc' : list etriple * bool) =>
                         let (E', ch) := acc' in
                         if eps_edge E' la t0 (lhs pr) then acc'
                         else match eps_chain tb E' la t0 (rhs pr) with
                              | Some tn => if red_on tb tn la (lhs pr) p
                                           then ((la, t0, lhs pr) :: E', true) else acc'
                              | None => acc'
                              end) 0%N (lr_states tb) acc
           else acc) 0%N (prods g) (E, false).

Fixpoint eps_loop (fuel : nat) (g : cfg) (tb : lr_table) (nl : list bool) (la : N)
  (E : list etriple) : list etriple :=
  match fuel with
  | O => E
  | S fuel' => let (E', ch) := eps_pass g tb nl la E in
               if ch then eps_loop fuel' g tb nl la E' else E'
  end.

(** Least closed set, lookahead by lookahead: every pass that changes something adds a new
    (state, non-terminal) pair. *)
Definition find_eps_set (g : cfg) (tb : lr_table) (nl : list bool) : list etriple :=
  flat_map (fun la => eps_loop (S (length (lr_states tb) * nt_count g)) g tb nl la [])
           (table_las tb).

Definition stack_edges (nl : list bool) (E : list etriple) (la : N) (ann : annotation)
  : list (N * N) :=
  (fix go (i : N) (a : annotation) : list (N * N) :=
     match a with
     | [] => []
     | l :: a' =>
         (match l with
          | (NT x, c) :: _ =>
              if marked nl x
              then map (fun s => (s, i)) (filter (fun s => eps_edge E la s x) c) else []
          | _ => []
          end) ++ go (N.succ i) a'
     end) 0%N ann.

(** One ranking per lookahead that occurs in [E]. *)
Definition find_stack_ranks (nl : list bool) (ann : annotation) (E : list etriple)
  : list (N * list N) :=
  map (fun la => (la, relax_loop (S (length ann)) (stack_edges nl E la ann)
                                 (repeat 0%N (length ann))))
      (dedupN (map (fun e => fst (fst e)) E)).

(** ** Size of derivation trees of certified grammars *)
Definition nodes (t : tree) : nat := length (postorder t).

Definition rkn (rk : list N) (a : N) : nat :=
  match rk_of rk a with Some r => N.to_nat r | None => 0 end.

Definition max_rhs (g : cfg) : nat :=
  fold_left (fun m p => Nat.max m (length (rhs p))) (prods g) 0.

(** Bound for a tree with empty yield whose root has rank [r]; [L] = longest right-hand side. *)
Fixpoint eps_size (L r : nat) : nat :=
  match r with
  | O => 1
  | S r' => 1 + L * eps_size L r'
  end.

Definition max_rank (rk : list N) : nat := N.to_nat (maxN rk).
Definition eps_max (g : cfg) (rk : list N) : nat := eps_size (max_rhs g) (max_rank rk).
Definition node_cost (g : cfg) (rk : list N) : nat := 1 + max_rhs g * eps_max g rk.

(** [tree_bound g rk n]: bound on the number of inner nodes of a tree with a yield of length [n]. *)
Definition tree_bound (g : cfg) (rk : list N) (n : nat) : nat :=
  node_cost g rk * (2 * n * S (max_rank rk) + 1).

Lemma fold_max_ge {A} (f : A -> nat) l : forall m,
  m <= fold_left (fun m x => Nat.max m (f x)) l m /\
  forall x, In x l -> f x <= fold_left (fun m x => Nat.max m (f x)) l m.
Proof.
  induction l as [|a l IH]; intros m; simpl; [split; [lia|intros x []]|].
  destruct (IH (Nat.max m (f a))) as [H1 H2]. split; [lia|].
  intros x [<-|Hx]; [lia|apply H2; exact Hx].
Qed.

Lemma max_rhs_ge g p : In p (prods g) -> length (rhs p) <= max_rhs g.
Proof. intros H. apply (proj2 (fold_max_ge (fun p => length (rhs p)) (prods g) 0) p H). Qed.

Lemma maxN_ge l : forall m x, (m <= fold_left N.max l m)%N /\
  (In x l -> (x <= fold_left N.max l m)%N).
Proof.
  induction l as [|a l IH]; intros m x; simpl; [split; [lia|intros []]|].
  destruct (IH (N.max m a) x) as [H1 H2]. pose proof (IH (N.max m a) a) as [H3 _].
  split; [lia|]. intros [<-|Hx]; [lia|apply H2; exact Hx].
Qed.

Lemma rkn_le_max rk a : rkn rk a <= max_rank rk.
Proof.
  unfold rkn, max_rank, rk_of, maxN. destruct (nth_error rk (N.to_nat a)) as [r|] eqn:E; [|lia].
  apply nth_error_In in E. pose proof (proj2 (maxN_ge rk 0%N r) E). lia.
Qed.

Lemma eps_size_pos L r : 1 <= eps_size L r.
Proof. destruct r; simpl; lia. Qed.

Lemma eps_size_step L r : eps_size L r <= eps_size L (S r).
Proof.
  induction r as [|r IH].
  - simpl. lia.
  - change (eps_size L (S (S r))) with (1 + L * eps_size L (S r)).
    change (eps_size L (S r)) with (1 + L * eps_size L r) at 1.
    pose proof (Nat.mul_le_mono_l _ _ L IH). lia.
Qed.

Lemma eps_size_mono L r r' : r <= r' -> eps_size L r <= eps_size L r'.
Proof.
  intros H. induction H as [|r' _ IH]; [lia|].
  etransitivity; [exact IH|apply eps_size_step].
Qed.

Lemma eps_le_cost L r : eps_size L r <= 1 + L * eps_size L r.
Proof.
  destruct L as [|k].
  - destruct r; simpl; lia.
  - pose proof (Nat.mul_le_mono_r 1 (S k) (eps_size (S k) r) ltac:(lia)). lia.
Qed.

Lemma flat_map_nil_inv {A B} (f : A -> list B) l :
  flat_map f l = [] -> forall x, In x l -> f x = [].
Proof.
  induction l as [|a l IH]; simpl; intros H x Hx; [contradiction|].
  apply app_eq_nil in H. destruct H as [Ha Hl]. destruct Hx as [<-|Hx]; [exact Ha|apply IH; assumption].
Qed.

Lemma flat_map_all_nil {A B} (f : A -> list B) l :
  (forall x, In x l -> f x = []) -> flat_map f l = [].
Proof.
  induction l as [|a l IH]; simpl; intros H; [reflexivity|].
  rewrite (H a (or_introl eq_refl)), IH; [reflexivity|]. intros x Hx. apply H. right. exact Hx.
Qed.

Lemma flat_map_len_bound {A B} (f : A -> list B) M l :
  (forall x, In x l -> length (f x) <= M) -> length (flat_map f l) <= length l * M.
Proof.
  induction l as [|a l IH]; simpl; intros H; [lia|]. rewrite app_length.
  pose proof (H a (or_introl eq_refl)). assert (length (flat_map f l) <= length l * M).
  { apply IH. intros x Hx. apply H. right. exact Hx. }
  lia.
Qed.

Lemma nodes_node p cs : nodes (Node p cs) = length (flat_map postorder cs) + 1.
Proof. unfold nodes. simpl. rewrite app_length. reflexivity. Qed.

Section TreeBound.
  Variable g : cfg.
  Variable nl : list bool.
  Variable rk : list N.
  Hypothesis Hac : acyclic_ok g nl rk = true.

  Let L := max_rhs g.
  Let R := max_rank rk.
  Let W := S R.
  Let Emax := eps_max g rk.
  Let D := node_cost g rk.

  Lemma ac_closed p :
    In p (prods g) -> forallb (null_sym nl) (rhs p) = true -> marked nl (lhs p) = true.
  Proof.
    intros Hin Hall. unfold acyclic_ok in Hac. apply andb_prop in Hac. destruct Hac as [Hc _].
    unfold closed_ok in Hc. rewrite forallb_forall in Hc. specialize (Hc p Hin).
    rewrite Hall in Hc. exact Hc.
  Qed.

  Lemma rhs_ok_split a pre : forall x post,
    rhs_ok nl rk a (pre ++ x :: post) = true ->
    forallb (null_sym nl) pre = true -> forallb (null_sym nl) post = true ->
    pos_ok rk a x = true.
  Proof.
    induction pre as [|y pre IH]; intros x post H Hpre Hpost; simpl in H.
    - apply andb_prop in H. destruct H as [H _]. rewrite Hpost in H. exact H.
    - simpl in Hpre. apply andb_prop in Hpre. destruct Hpre as [Hy Hpre].
      apply andb_prop in H. destruct H as [_ H]. rewrite Hy in H. apply (IH _ _ H Hpre Hpost).
  Qed.

  Lemma ac_rank p pre b post :
    In p (prods g) -> rhs p = pre ++ NT b :: post ->
    forallb (null_sym nl) pre = true -> forallb (null_sym nl) post = true ->
    rkn rk b < rkn rk (lhs p).
  Proof.
    intros Hin Hr Hpre Hpost. unfold acyclic_ok in Hac. apply andb_prop in Hac.
    destruct Hac as [_ Hc]. rewrite forallb_forall in Hc. specialize (Hc p Hin).
    apply andb_prop in Hc. destruct Hc as [_ Hc]. rewrite Hr in Hc.
    pose proof (rhs_ok_split _ _ _ _ Hc Hpre Hpost) as H. simpl in H.
    unfold rank_lt in H. unfold rkn.
    destruct (rk_of rk b) as [rb|]; [|discriminate].
    destruct (rk_of rk (lhs p)) as [ra|]; [|discriminate].
    apply N.ltb_lt in H. lia.
  Qed.

  (** A tree with empty yield: inner node, root marked nullable, size bounded through the rank. *)
  Lemma eps_tree t : tree_ok g t -> yield t = [] ->
    exists p cs, t = Node p cs /\ marked nl (lhs p) = true /\
                 nodes t <= eps_size L (rkn rk (lhs p)).
  Proof.
    induction t as [a|p cs IH] using tree_ind'; intros Hok Hy; [discriminate|].
    apply tree_ok_node in Hok. destruct Hok as (Hin & Hr & Hcs). cbn [yield] in Hy.
    exists p, cs. split; [reflexivity|].
    assert (Hch : forall c, In c cs -> exists pc csc, c = Node pc csc /\ marked nl (lhs pc) = true /\
                                   nodes c <= eps_size L (rkn rk (lhs pc))).
    { intros c Hc. rewrite Forall_forall in IH, Hcs.
      apply (IH c Hc (Hcs c Hc)). apply (flat_map_nil_inv _ _ Hy c Hc). }
    assert (Hnull : forall l, (forall c, In c l -> In c cs) ->
                              forallb (null_sym nl) (map root_sym l) = true).
    { induction l as [|c l IHl]; intros Hsub; simpl; [reflexivity|].
      destruct (Hch c (Hsub c (or_introl eq_refl))) as (pc & csc & -> & Hm & _).
      simpl. rewrite Hm. simpl. apply IHl. intros x Hx. apply Hsub. right. exact Hx. }
    assert (Hmark : marked nl (lhs p) = true).
    { apply (ac_closed p Hin). rewrite <- Hr. apply Hnull. intros c Hc. exact Hc. }
    split; [exact Hmark|].
    rewrite nodes_node.
    assert (Hcase : cs = [] \/ exists c0, In c0 cs)
      by (destruct cs as [|c0 cs0]; [left; reflexivity|right; exists c0; left; reflexivity]).
    destruct Hcase as [Ecs|(c0 & Hc0)];
      [rewrite Ecs; simpl; pose proof (eps_size_pos L (rkn rk (lhs p))); lia|].
    assert (Hlt : forall c, In c cs -> nodes c <= eps_size L (pred (rkn rk (lhs p))) /\
                                      1 <= rkn rk (lhs p)).
    { intros c Hc. destruct (Hch c Hc) as (pc & csc & Ec & _ & Hn).
      destruct (in_split _ _ Hc) as (pre & post & Esp).
      assert (Hlt : rkn rk (lhs pc) < rkn rk (lhs p)).
      { apply (ac_rank p (map root_sym pre) (lhs pc) (map root_sym post) Hin).
        - rewrite <- Hr, Esp, map_app. simpl. rewrite Ec. reflexivity.
        - apply Hnull. intros x Hx. rewrite Esp. apply in_or_app. left. exact Hx.
        - apply Hnull. intros x Hx. rewrite Esp. apply in_or_app. right. right. exact Hx. }
      split; [|lia]. etransitivity; [exact Hn|]. apply eps_size_mono. lia. }
    assert (Hr1 : 1 <= rkn rk (lhs p)).
    { apply (Hlt c0 Hc0). }
    pose proof (flat_map_len_bound postorder (eps_size L (pred (rkn rk (lhs p)))) cs
                  (fun c Hc => proj1 (Hlt c Hc))) as Hsum.
    assert (Hlen : length cs <= L).
    { unfold L. rewrite <- (map_length root_sym), Hr. apply max_rhs_ge. exact Hin. }
    destruct (rkn rk (lhs p)) as [|r'] eqn:Er; [lia|]. simpl in *.
    pose proof (Nat.mul_le_mono_r _ _ (eps_size L r') Hlen). lia.
  Qed.

  Theorem eps_tree_bound t : tree_ok g t -> yield t = [] -> nodes t <= Emax.
  Proof.
    intros Hok Hy. destruct (eps_tree t Hok Hy) as (p & cs & _ & _ & Hn).
    etransitivity; [exact Hn|]. apply eps_size_mono. apply rkn_le_max.
  Qed.

  Lemma eps_root_null t : tree_ok g t -> yield t = [] -> null_sym nl (root_sym t) = true.
  Proof.
    intros Hok Hy. destruct (eps_tree t Hok Hy) as (p & cs & -> & Hm & _). exact Hm.
  Qed.

  Definition rr (t : tree) : nat :=
    match t with Leaf _ => 0 | Node p _ => rkn rk (lhs p) end.

  Lemma rr_le t : rr t <= R.
  Proof. destruct t; simpl; [lia|apply rkn_le_max]. Qed.

  (** Weak per-child bound implies a bound for a list of children. *)
  Lemma children_bound l :
    Forall (fun c => yield c = [] /\ nodes c <= Emax \/
                     exists G, nodes c <= D * G /\ G + W <= 2 * length (yield c) * W) l ->
    (flat_map yield l = [] /\ length (flat_map postorder l) <= length l * Emax) \/
    exists G, length (flat_map postorder l) <= D * G + length l * Emax /\
              G + W <= 2 * length (flat_map yield l) * W.
  Proof.
    induction 1 as [|c l Hc _ IH]; [left; split; [reflexivity|simpl; lia]|].
    cbn [flat_map length]. rewrite !app_length. unfold nodes in Hc.
    destruct Hc as [[Hy Hn]|(Gc & Hn & HG)]; destruct IH as [[Hyl Hnl]|(Gl & Hnl & HGl)].
    - left. rewrite Hy, Hyl. split; [reflexivity|lia].
    - right. exists Gl. rewrite Hy. cbn [length]. split; lia.
    - right. exists Gc. rewrite Hyl. cbn [length]. split; lia.
    - right. exists (Gc + Gl). split; lia.
  Qed.

  Lemma first_nonempty (l : list tree) : flat_map yield l <> [] ->
    exists pre c post, l = pre ++ c :: post /\ (forall x, In x pre -> yield x = []) /\ yield c <> [].
  Proof.
    induction l as [|a l IH]; intros H; [contradiction H; reflexivity|].
    destruct (yield a) as [|y ys] eqn:Ea.
    - simpl in H. rewrite Ea in H. simpl in H. destruct (IH H) as (pre & c & post & -> & Hpre & Hc).
      exists (a :: pre), c, post. split; [reflexivity|]. split; [|exact Hc].
      intros x [<-|Hx]; [exact Ea|apply Hpre; exact Hx].
    - exists [], a, l. split; [reflexivity|]. split; [intros x []|]. rewrite Ea. discriminate.
  Qed.

  Lemma D_absorbs k : k <= L -> 1 + k * Emax <= D.
  Proof.
    intros H. unfold D, node_cost. fold L Emax. pose proof (Nat.mul_le_mono_r _ _ Emax H). lia.
  Qed.

  (** Trees with a non-empty yield. *)
  Lemma big_tree t : tree_ok g t -> yield t <> [] ->
    exists G, nodes t <= D * G /\ G + 2 * W <= 2 * length (yield t) * W + rr t + 1.
  Proof.
    induction t as [a|p cs IH] using tree_ind'; intros Hok Hy.
    - exists 0. unfold nodes. simpl. split; lia.
    - apply tree_ok_node in Hok. destruct Hok as (Hin & Hr & Hcs). cbn [yield] in Hy. cbn [yield rr].
      assert (Hweak : Forall (fun c => yield c = [] /\ nodes c <= Emax \/
                 exists G, nodes c <= D * G /\ G + W <= 2 * length (yield c) * W) cs).
      { rewrite Forall_forall in *. intros c Hc. destruct (yield c) as [|y ys] eqn:Ey.
        - left. split; [reflexivity|]. apply eps_tree_bound; [apply Hcs; exact Hc|exact Ey].
        - right. destruct (IH c Hc (Hcs c Hc)) as (G & Hn & HG); [rewrite Ey; discriminate|].
          exists G. split; [exact Hn|]. rewrite Ey in HG. pose proof (rr_le c). unfold W in *. lia. }
      destruct (first_nonempty cs Hy) as (pre & c & post & Ecs & Hpre & Hc).
      assert (Hlen : length pre + length post + 1 <= L).
      { pose proof (max_rhs_ge g p Hin) as H. rewrite <- Hr, map_length, Ecs, app_length in H.
        cbn [length] in H. unfold L. lia. }
      assert (Hokc : tree_ok g c /\ Forall (tree_ok g) post).
      { rewrite Ecs in Hcs. apply Forall_app in Hcs. destruct Hcs as [_ Hcs].
        inversion Hcs; subst. split; assumption. }
      destruct Hokc as [Hokc Hokpost].
      assert (Hnpre : length (flat_map postorder pre) <= length pre * Emax).
      { apply flat_map_len_bound. intros x Hx. apply (eps_tree_bound x); [|apply Hpre; exact Hx].
        rewrite Forall_forall in Hcs. apply Hcs. rewrite Ecs. apply in_or_app. left. exact Hx. }
      assert (Hypre : flat_map yield pre = []) by (apply flat_map_all_nil; exact Hpre).
      assert (Hwpost : Forall (fun c => yield c = [] /\ nodes c <= Emax \/
                 exists G, nodes c <= D * G /\ G + W <= 2 * length (yield c) * W) post).
      { rewrite Ecs in Hweak. apply Forall_app in Hweak. destruct Hweak as [_ Hweak].
        inversion Hweak; subst. assumption. }
      rewrite nodes_node. rewrite Ecs, !flat_map_app, !app_length. cbn [flat_map]. rewrite !app_length.
      rewrite Hypre. cbn [length]. fold (nodes c).
      assert (HIHc : exists G, nodes c <= D * G /\
                               G + 2 * W <= 2 * length (yield c) * W + rr c + 1).
      { rewrite Forall_forall in IH. apply IH; [rewrite Ecs; apply in_or_app; right; left; reflexivity
                                              |exact Hokc|exact Hc]. }
      destruct HIHc as (Gc & Hnc & HGc).
      pose proof (D_absorbs (length pre + length post) ltac:(lia)) as HD.
      destruct (children_bound post Hwpost) as [[Hyp Hnp]|(Gp & Hnp & HGp)].
      + (* exactly one child with a non-empty yield *)
        rewrite Hyp. cbn [length]. rewrite Nat.add_0_r.
        assert (Hrank : rr c + 1 <= rkn rk (lhs p) \/ (nodes c = 0 /\ length (yield c) = 1)).
        { destruct c as [a|pc csc].
          - right. split; reflexivity.
          - left. simpl.
            assert (Hn : forall l, Forall (tree_ok g) l -> flat_map yield l = [] ->
                                   forallb (null_sym nl) (map root_sym l) = true).
            { induction l as [|x l IHl]; intros Hl Hyl; simpl; [reflexivity|].
              inversion Hl; subst. simpl in Hyl. apply app_eq_nil in Hyl. destruct Hyl as [Hx Hyl].
              rewrite (eps_root_null x); [simpl; apply IHl; assumption|assumption|assumption]. }
            assert (H : rkn rk (lhs pc) < rkn rk (lhs p)).
            { apply (ac_rank p (map root_sym pre) (lhs pc) (map root_sym post) Hin).
              - rewrite <- Hr, Ecs, map_app. reflexivity.
              - apply Hn; [|exact Hypre]. rewrite Ecs in Hcs. apply Forall_app in Hcs. apply Hcs.
              - apply Hn; assumption. }
            lia. }
        destruct Hrank as [Hrank|(H1 & H2)].
        * exists (1 + Gc). split; [rewrite Nat.mul_add_distr_l, Nat.mul_1_r; lia|lia].
        * exists 1. rewrite H1, H2, Nat.mul_1_r. split; lia.
      + exists (1 + Gc + Gp). split.
        * rewrite !Nat.mul_add_distr_l, Nat.mul_1_r. lia.
        * pose proof (rr_le c). unfold W in *. lia.
  Qed.

  (** The size bound: explicit in the length of the yield. *)
  Theorem tree_size_bound t : tree_ok g t -> nodes t <= tree_bound g rk (length (yield t)).
  Proof.
    intros Hok. unfold tree_bound. fold D R.
    destruct (yield t) as [|y ys] eqn:Ey.
    - pose proof (eps_tree_bound t Hok Ey) as H. cbn [length].
      replace (2 * 0 * S R + 1) with 1 by lia. rewrite Nat.mul_1_r.
      assert (Emax <= D) by (unfold D, node_cost, Emax, eps_max; apply eps_le_cost).
      lia.
    - destruct (big_tree t Hok) as (G & Hn & HG); [rewrite Ey; discriminate|].
      rewrite Ey in HG. pose proof (rr_le t).
      etransitivity; [exact Hn|]. apply Nat.mul_le_mono_l. unfold W in *. lia.
  Qed.
End TreeBound.

(** ** Termination *)

(** Number of loop iterations that suffice for an input of [n] significant tokens.  [K] bounds the
    state ranks of [stack_rank_ok] (all lookaheads). *)
Definition step_bound (g : cfg) (rk : list N) (K : nat) (n : nat) : nat :=
  n + node_cost g rk * (2 * n * S (max_rank rk) + K * (n + 1) + n).

Definition max_rank_all (srk : list (N * list N)) : nat :=
  fold_left (fun m e => Nat.max m (max_rank (snd e))) srk 0.

Definition lr_fuel_bound (g : cfg) (rk : list N) (srk : list (N * list N)) (toks : list N) : nat :=
  S (step_bound g rk (max_rank_all srk) (length toks)).

Lemma forallbi_nth {A} (f : N -> A -> bool) l : forall i k a,
  forallbi f i l = true -> nth_error l k = Some a -> f (i + N.of_nat k)%N a = true.
Proof.
  induction l as [|a1 l IH]; intros i k a H Hk; [destruct k; discriminate|].
  simpl in H. apply andb_prop in H. destruct H as [H1 H2]. destruct k as [|k]; simpl in Hk.
  - inversion Hk; subst. replace (i + N.of_nat 0)%N with i by lia. exact H1.
  - replace (i + N.of_nat (S k))%N with (N.succ i + N.of_nat k)%N by lia. apply (IH _ _ _ H2 Hk).
Qed.

Lemma flat_map_rev_length {A B} (f : A -> list B) l :
  length (flat_map f (rev l)) = length (flat_map f l).
Proof.
  induction l as [|a l IH]; [reflexivity|]. simpl. rewrite flat_map_app, !app_length, IH. simpl.
  rewrite app_nil_r. lia.
Qed.

Lemma Forall2_len {A B} (P : A -> B -> Prop) l1 l2 : Forall2 P l1 l2 -> length l1 = length l2.
Proof. induction 1; simpl; congruence. Qed.

Definition progress (c : lr_conf) : nat :=
  length (c_reds c) + length (flat_map yield (c_trees c)).

(** Every iteration that goes on is a shift (one more token under the stack) or a reduction (one
    more user action); this is a fact about the model alone. *)
Lemma step_progress tb c c' : lr_step tb c = Continue c' -> progress c' = S (progress c).
Proof.
  destruct c as [ss ts inp reds]. unfold lr_step, progress. cbn [c_states c_trees c_input c_reds].
  destruct ss as [|cur below]; [discriminate|].
  destruct (nth_error (lr_states tb) (N.to_nat cur)) as [st|]; [|discriminate].
  destruct (assoc (lookahead inp) (st_actions st)) as [ai|].
  2:{ destruct (negb (N.ltb (lookahead inp) (lr_nterm tb))); [discriminate|].
      destruct (negb (forallb (fun e => N.ltb (fst e) (lr_nterm tb)) (st_actions st))); discriminate. }
  destruct (nth_error (lr_actions tb) (N.to_nat ai)) as [[next|nt p|]|]; [| | |discriminate].
  - intros H. inversion H; subst. cbn [c_reds c_trees flat_map yield length app]. lia.
  - unfold call_action. destruct (nth_error (lr_prods tb) (N.to_nat p)) as [lp|]; [|discriminate].
    destruct (negb (Nat.eqb (length (firstn (lp_len lp) ts)) (lp_len lp))); [discriminate|].
    destruct (negb (N.ltb (lp_lhs lp) (lr_nnt tb))); [discriminate|].
    destruct (Nat.ltb (length (cur :: below)) (lp_len lp)); [discriminate|].
    destruct (skipn (lp_len lp) (cur :: below)) as [|s rest]; [discriminate|].
    destruct (nth_error (lr_states tb) (N.to_nat s)) as [st'|]; [|discriminate].
    destruct (assoc nt (st_gotos st')) as [gt|]; [|discriminate].
    intros H. inversion H; subst. cbn [c_reds c_trees flat_map yield length].
    rewrite app_length, flat_map_rev_length.
    rewrite <- (firstn_skipn (lp_len lp) ts) at 3. rewrite flat_map_app, app_length. lia.
  - destruct (find_start_prod tb) as [p0|]; [|discriminate].
    destruct (call_action tb p0 ts) as [site|[n ts']]; discriminate.
Qed.

Lemma memN_true_In x l : memN x l = true -> In x l.
Proof.
  unfold memN. intros H. apply existsb_exists in H. destruct H as (y & Hy & Ey).
  apply N.eqb_eq in Ey. subst y. exact Hy.
Qed.

Lemma dedupN_In x l : In x l -> In x (dedupN l).
Proof.
  induction l as [|y l IH]; intros H; [contradiction|]. simpl.
  destruct (memN y (dedupN l)) eqn:Em.
  - destruct H as [<-|H]; [apply memN_true_In; exact Em|apply IH; exact H].
  - destruct H as [<-|H]; [left; reflexivity|right; apply IH; exact H].
Qed.

Lemma eps_edge_la E la s a : eps_edge E la s a = true -> In la (map (fun e => fst (fst e)) E).
Proof.
  unfold eps_edge. intros H. apply existsb_exists in H. destruct H as (e & He & Hb).
  apply andb_prop in Hb. destruct Hb as [Hb _]. apply andb_prop in Hb. destruct Hb as [Hb _].
  apply N.eqb_eq in Hb. subst la. apply in_map_iff. exists e. split; [reflexivity|exact He].
Qed.

(** What the table check gives for one state (no other hypothesis needed). *)
Lemma stack_rank_ok_spec g tb nl ann E srk la s a c l' s1 :
  stack_rank_ok g tb nl ann E srk = true ->
  ann_of ann s = Some ((NT a, c) :: l') -> marked nl a = true ->
  In s1 c -> eps_edge E la s1 a = true -> srk_lt (ranks_for srk la) s s1 = true.
Proof.
  intros Hsr Hl Hm Hin He. unfold stack_rank_ok in Hsr. apply andb_prop in Hsr.
  destruct Hsr as [_ Hsr]. rewrite forallb_forall in Hsr.
  specialize (Hsr la (dedupN_In _ _ (eps_edge_la _ _ _ _ He))). unfold ann_of in Hl.
  pose proof (forallbi_nth _ _ _ _ _ Hsr Hl) as H. unfold stack_state_ok in H.
  replace (0 + N.of_nat (N.to_nat s))%N with s in H by lia.
  rewrite Hm in H. rewrite forallb_forall in H. specialize (H s1 Hin). rewrite He in H. exact H.
Qed.

Lemma stack_rank_ok_nonempty g tb nl ann E srk s :
  stack_rank_ok g tb nl ann E srk = true -> ann_of ann s = Some [] -> s = 0%N.
Proof.
  intros Hsr Hl. unfold stack_rank_ok in Hsr. apply andb_prop in Hsr.
  destruct Hsr as [Hsr _]. apply andb_prop in Hsr. destruct Hsr as [_ Hsr].
  unfold ann_heads_ok in Hsr. unfold ann_of in Hl.
  pose proof (forallbi_nth _ _ _ _ _ Hsr Hl) as H. cbv beta in H.
  replace (0 + N.of_nat (N.to_nat s))%N with s in H by lia.
  destruct (N.eqb_spec s 0) as [E0|_]; [exact E0|discriminate].
Qed.

(** What closedness of the certificate set gives. *)
Lemma eps_closed_spec g tb nl E la p pr t0 st0 tn :
  eps_closed g tb nl E = true -> In la (table_las tb) ->
  nth_error (prods g) (N.to_nat p) = Some pr -> forallb (null_sym nl) (rhs pr) = true ->
  nth_error (lr_states tb) (N.to_nat t0) = Some st0 ->
  eps_chain tb E la t0 (rhs pr) = Some tn -> red_on tb tn la (lhs pr) p = true ->
  eps_edge E la t0 (lhs pr) = true.
Proof.
  intros Hc Hla Hp Hall Ht Hch Hred. unfold eps_closed in Hc. rewrite forallb_forall in Hc.
  specialize (Hc la Hla). unfold eps_closed_la in Hc.
  pose proof (forallbi_nth _ _ _ _ _ Hc Hp) as H. cbv beta in H.
  replace (0 + N.of_nat (N.to_nat p))%N with p in H by lia. rewrite Hall in H.
  pose proof (forallbi_nth _ _ _ _ _ H Ht) as H'. cbv beta in H'.
  replace (0 + N.of_nat (N.to_nat t0))%N with t0 in H' by lia.
  rewrite Hch, Hred in H'. exact H'.
Qed.

Lemma ranks_for_le srk la : max_rank (ranks_for srk la) <= max_rank_all srk.
Proof.
  unfold ranks_for, max_rank_all. destruct (find (fun e => N.eqb (fst e) la) srk) as [e|] eqn:Ef.
  - apply find_some in Ef. destruct Ef as [Hin _].
    apply (proj2 (fold_max_ge (fun e : N * list N => max_rank (snd e)) srk 0) e Hin).
  - unfold max_rank, maxN. simpl. lia.
Qed.

Definition is_eps (t : tree) : bool := match yield t with [] => true | _ :: _ => false end.

Section Termination.
  Variable g : cfg.
  Variable tb : lr_table.
  Variable ann : annotation.
  Variable nl : list bool.
  Variable rk : list N.
  Variable E : list etriple.
  Variable srk : list (N * list N).
  Hypothesis Hchk : lr_safe_check g tb ann = true.
  Hypothesis Hac : acyclic_ok g nl rk = true.
  Hypothesis Hsr : stack_rank_ok g tb nl ann E srk = true.

  Let K := max_rank_all srk.
  Let W := S (max_rank rk).
  Let D := node_cost g rk.

  Lemma Hclosed : eps_closed g tb nl E = true.
  Proof.
    unfold stack_rank_ok in Hsr. apply andb_prop in Hsr. destruct Hsr as [H _].
    apply andb_prop in H. apply H.
  Qed.

  (** [runs_inv w ss ts]: every maximal run of adjacent entries with empty subtrees has ONE
      lookahead [la] such that every entry of the run (root [a], sitting on state [s] under state
      [s']) has [(la, s, a)] in [E] and [s' = goto s a].  [w] is the witness of the run that the
      top entry belongs to ([None]: the top entry has a non-empty subtree, or there is none). *)
  Inductive runs_inv : option N -> list N -> list tree -> Prop :=
  | ri_base s : runs_inv None [s] []
  | ri_solid w s' s ss t ts :
      runs_inv w (s :: ss) ts -> yield t <> [] -> runs_inv None (s' :: s :: ss) (t :: ts)
  | ri_eps w la s' s ss t ts a :
      runs_inv w (s :: ss) ts -> yield t = [] -> root_sym t = NT a ->
      eps_edge E la s a = true -> goto_of tb s a = Some s' ->
      (w = None \/ w = Some la) ->
      runs_inv (Some la) (s' :: s :: ss) (t :: ts).

  Lemma runs_inv_skipn n : forall w ss ts,
    runs_inv w ss ts -> n < length ss -> exists w', runs_inv w' (skipn n ss) (skipn n ts).
  Proof.
    induction n as [|n IH]; intros w ss ts H Hn; [exists w; exact H|].
    inversion H as [s|w0 s' s ss' t ts' H' Hy|w0 la s' s ss' t ts' a H' Hy Hr He Hg Hw]; subst;
      simpl in Hn; [lia| |]; simpl; apply (IH w0); try exact H'; simpl; lia.
  Qed.

  (** The popped entries of a reduction with an empty result all belong to the top run; they form
      a certified goto chain for its lookahead from the exposed state up to the reducing state. *)
  Lemma runs_inv_chain la n : forall w ss ts top rest',
    runs_inv w ss ts -> ss = top :: rest' -> n < length ss -> (w = None \/ w = Some la) ->
    (forall c, In c (firstn n ts) -> yield c = [] /\ exists a, root_sym c = NT a) ->
    exists t0 rest w', skipn n ss = t0 :: rest /\ runs_inv w' (t0 :: rest) (skipn n ts) /\
      (w' = None \/ w' = Some la) /\
      forall l tfin, eps_chain tb E la top l = Some tfin ->
                     eps_chain tb E la t0 (map root_sym (rev (firstn n ts)) ++ l) = Some tfin.
  Proof.
    induction n as [|n IH]; intros w ss ts top rest' H Ess Hn Hw Hall; subst ss.
    - exists top, rest', w. split; [reflexivity|]. split; [exact H|]. split; [exact Hw|].
      intros l tfin Hl. exact Hl.
    - inversion H as [s|w0 s' s ss' t ts' H' Hy|w0 la0 s' s ss' t ts' a H' Hy Hr He Hg Hw0]; subst.
      + simpl in Hn. lia.
      + destruct (Hall t (or_introl eq_refl)) as (Hy0 & _). contradiction.
      + assert (la0 = la) by (destruct Hw as [Hw|Hw]; [discriminate|inversion Hw; reflexivity]).
        subst la0.
        assert (Hn' : n < length (s :: ss')) by (simpl in Hn |- *; lia).
        destruct (IH w0 (s :: ss') ts' s ss' H' eq_refl Hn' Hw0)
          as (t0 & rest & w' & Hsk & Hinv & Hw' & Hch).
        { intros c Hc. apply Hall. right. exact Hc. }
        exists t0, rest, w'. split; [exact Hsk|]. split; [exact Hinv|]. split; [exact Hw'|].
        intros l tfin Hl.
        cbn [firstn rev]. rewrite map_app, <- app_assoc. cbn [map app]. apply Hch.
        rewrite Hr. cbn [eps_chain]. rewrite He, Hg. exact Hl.
  Qed.

  (** The invariant on configurations: the witness of the top run is the current lookahead. *)
  Definition la_inv (c : lr_conf) : Prop :=
    exists w, runs_inv w (c_states c) (c_trees c) /\
              forall la, w = Some la -> la = lookahead (c_input c).

  (** One step preserves it (together with the soundness invariant). *)
  Lemma step_eps toks c c' :
    Inv g ann toks c -> la_inv c -> lr_step tb c = Continue c' -> la_inv c'.
  Proof.
    intros [Hs Hts Hy Hr] (w & He & Hwla). destruct c as [ss ts inp reds].
    cbn [c_states c_trees c_input c_reds] in *. unfold lr_step.
    cbn [c_states c_trees c_input c_reds].
    destruct ss as [|cur below]; [discriminate|].
    destruct (stack_inv_top g tb ann Hchk _ _ _ Hs) as (l & Hl & Hm).
    destruct (chk_ann_state g tb ann Hchk _ _ Hl) as (st & Hst). rewrite Hst.
    destruct (chk_state g tb ann Hchk _ _ Hst) as (l' & Hl' & Hok).
    rewrite Hl in Hl'. inversion Hl'; subst l'.
    unfold state_ok in Hok. apply andb_prop in Hok. destruct Hok as [Hok _].
    apply andb_prop in Hok. destruct Hok as [_ Hacts]. rewrite forallb_forall in Hacts.
    destruct (assoc (lookahead inp) (st_actions st)) as [ai|] eqn:Ea.
    2:{ destruct (negb (N.ltb (lookahead inp) (lr_nterm tb))); [discriminate|].
        destruct (negb (forallb (fun e => N.ltb (fst e) (lr_nterm tb)) (st_actions st))); discriminate. }
    pose proof (assoc_In _ _ _ Ea) as Ein. specialize (Hacts _ Ein). unfold action_ok in Hacts.
    cbn [fst snd] in Hacts. apply andb_prop in Hacts. destruct Hacts as [_ Hact].
    destruct (nth_error (lr_actions tb) (N.to_nat ai)) as [[next|nt p|]|] eqn:Eact; [| | |discriminate].
    - (* Shift: a leaf has a non-empty yield; the top run is closed *)
      intros H. inversion H; subst. unfold la_inv. cbn [c_states c_trees c_input].
      exists None. split; [|intros la Hla; discriminate].
      apply (ri_solid w); [exact He|]. discriminate.
    - (* Reduce *)
      destruct (handle_ok g tb cur l nt p) as [cs|] eqn:Eh; [|discriminate].
      destruct (handle_pop g tb ann Hchk _ _ _ _ _ _ _ Hs Hl Eh Hts)
        as (lp & pr & s & rest & Epr & Elhs & Hcall & Hnode & Hlt & Hsk & Hin & Hs').
      rewrite Hcall, Hlt, Hsk.
      destruct (nth_error (lr_states tb) (N.to_nat s)) as [st'|] eqn:Est'; [|discriminate].
      destruct (assoc nt (st_gotos st')) as [gt|] eqn:Egt; [|discriminate].
      intros H. inversion H; subst c'. unfold la_inv. cbn [c_states c_trees c_input].
      assert (Hn : lp_len lp < length (cur :: below)).
      { assert (H0 : length (skipn (lp_len lp) (cur :: below)) = length (s :: rest))
          by (rewrite Hsk; reflexivity).
        rewrite skipn_length in H0. cbn [length] in H0 |- *. lia. }
      set (la := lookahead inp) in *.
      destruct (yield (Node pr (rev (firstn (lp_len lp) ts)))) as [|y ys] eqn:Hy'.
      2:{ (* non-empty result: the runs below are untouched *)
          destruct (runs_inv_skipn (lp_len lp) w (cur :: below) ts He Hn) as (w' & Hinv).
          rewrite Hsk in Hinv. exists None. split; [|intros la0 Hla0; discriminate].
          apply (ri_solid w'); [exact Hinv|]. rewrite Hy'. discriminate. }
      (* empty result: all popped subtrees are empty, they are inner nodes with marked roots *)
      pose proof Hnode as Hnode'. apply tree_ok_node in Hnode'.
      destruct Hnode' as (_ & Hrhs & Hch). cbn [yield] in Hy'.
      assert (Hpop : forall c, In c (firstn (lp_len lp) ts) ->
                               yield c = [] /\ exists a, root_sym c = NT a).
      { intros c Hc. rewrite in_rev in Hc.
        assert (Hyc : yield c = []) by (apply (flat_map_nil_inv _ _ Hy' c Hc)).
        split; [exact Hyc|]. rewrite Forall_forall in Hch.
        destruct (eps_tree g nl rk Hac c (Hch c Hc) Hyc) as (pc & csc & -> & _).
        exists (lhs pc). reflexivity. }
      assert (Hall : forallb (null_sym nl) (rhs pr) = true).
      { rewrite <- Hrhs. clear Hrhs Hpop. revert Hch Hy'.
        generalize (rev (firstn (lp_len lp) ts)). intros chs Hch Hy'.
        induction Hch as [|ch chs Hc _ IH]; [reflexivity|].
        simpl in Hy'. apply app_eq_nil in Hy'. destruct Hy' as [Hy1 Hy2].
        simpl. rewrite (eps_root_null g nl rk Hac ch Hc Hy1). apply IH. exact Hy2. }
      assert (Hw : w = None \/ w = Some la).
      { destruct w as [la0|]; [right|left; reflexivity]. rewrite (Hwla la0 eq_refl). reflexivity. }
      destruct (runs_inv_chain la (lp_len lp) w (cur :: below) ts cur below He eq_refl Hn Hw Hpop)
        as (t0 & rest0 & w' & Hsk0 & Hinv & Hw' & Hchain).
      rewrite Hsk in Hsk0. inversion Hsk0; subst t0 rest0.
      specialize (Hchain [] cur eq_refl). rewrite app_nil_r, Hrhs in Hchain.
      exists (Some la). split; [|intros la0 Hla0; inversion Hla0; reflexivity].
      apply (ri_eps w' la gt s rest _ _ (lhs pr)); [exact Hinv|exact Hy'|reflexivity| | |exact Hw'].
      + apply (eps_closed_spec g tb nl E la p pr s st' cur Hclosed); try assumption.
        * (* the current lookahead is an action key of the reducing state *)
          unfold table_las. apply dedupN_In. right. apply in_flat_map. exists st.
          split; [apply (nth_error_In _ _ Hst)|]. apply in_map_iff. exists (la, ai).
          split; [reflexivity|exact Ein].
        * (* the action taken is the action of the reducing state for the lookahead *)
          unfold red_on. rewrite Hst. fold la in Ea. rewrite Ea, Eact, Elhs, !N.eqb_refl. reflexivity.
      + rewrite Elhs. unfold goto_of. rewrite Est'. exact Egt.
    - destruct (find_start_prod tb) as [p0|]; [|discriminate].
      destruct (call_action tb p0 ts) as [site|[n ts']]; discriminate.
  Qed.

  Definition ecount (ts : list tree) : nat := length (filter is_eps ts).
  Definition ycount (ts : list tree) : nat := length (filter (fun t => negb (is_eps t)) ts).

  Lemma count_split ts : length ts = ecount ts + ycount ts.
  Proof.
    unfold ecount, ycount. induction ts as [|t ts IH]; [reflexivity|]. simpl.
    destruct (is_eps t); simpl; lia.
  Qed.

  Definition pot (w : option N) (s : N) : nat :=
    match w with Some la => rkn (ranks_for srk la) s | None => K end.

  Lemma rkn_le_K la s : rkn (ranks_for srk la) s <= K.
  Proof. etransitivity; [apply rkn_le_max|apply ranks_for_le]. Qed.

  (** Every run of entries with an empty subtree has length at most [K]. *)
  Lemma stack_runs ss ts : stack_inv ann ss ts -> forall w, runs_inv w ss ts ->
    Forall (tree_ok g) ts ->
    exists s ss', ss = s :: ss' /\ ecount ts + pot w s <= K * (ycount ts + 1).
  Proof.
    induction 1 as [|s ss t ts l Hs IH Hne Hl Hm]; intros w He Hok.
    - exists 0%N, []. split; [reflexivity|]. unfold ecount, ycount. simpl.
      inversion He; subst. simpl. lia.
    - inversion Hok as [|t0 ts0 Hokt Hokts]; subst.
      inversion He as [s0|w0 s0' s1 ss' t0 ts0 He' Hy|w0 la s0' s1 ss' t0 ts0 a He' Hy Hroot Hedge Hg Hw];
        subst.
      + (* non-empty entry *)
        destruct (IH w0 He' Hokts) as (s1' & ss'' & Eq1 & IH'). inversion Eq1; subst s1' ss''.
        exists s, (s1 :: ss'). split; [reflexivity|].
        unfold ecount, ycount in *. simpl.
        assert (Eie : is_eps t = false) by (unfold is_eps; destruct (yield t); [contradiction Hy; reflexivity|reflexivity]).
        rewrite Eie. simpl. lia.
      + (* empty entry of a run with lookahead [la] *)
        destruct (IH w0 He' Hokts) as (s1' & ss'' & Eq1 & IH'). inversion Eq1; subst s1' ss''.
        exists s, (s1 :: ss'). split; [reflexivity|].
        unfold ecount, ycount in *. simpl.
        assert (Eie : is_eps t = true) by (unfold is_eps; rewrite Hy; reflexivity).
        rewrite Eie. simpl.
        destruct (eps_tree g nl rk Hac t Hokt Hy) as (p & cs & -> & Hmark & _).
        cbn [root_sym] in Hroot. inversion Hroot; subst a.
        destruct l as [|[x c] l'].
        { contradiction Hne. apply (stack_rank_ok_nonempty g tb nl ann E srk s Hsr Hl). }
        simpl in Hm. destruct Hm as (Hroot' & Hin & _). cbn [root_sym] in Hroot'. subst x.
        pose proof (stack_rank_ok_spec g tb nl ann E srk la s (lhs p) c l' s1 Hsr Hl Hmark Hin Hedge)
          as Hlt.
        assert (Hlt' : rkn (ranks_for srk la) s < rkn (ranks_for srk la) s1).
        { unfold srk_lt in Hlt. unfold rkn, rk_of.
          destruct (nth_error (ranks_for srk la) (N.to_nat s)) as [r'|]; [|discriminate].
          destruct (nth_error (ranks_for srk la) (N.to_nat s1)) as [r|]; [|discriminate].
          apply N.ltb_lt in Hlt. lia. }
        assert (Hpot : rkn (ranks_for srk la) s1 <= pot w0 s1).
        { destruct Hw as [->| ->]; simpl; [apply rkn_le_K|lia]. }
        lia.
  Qed.

  Lemma solid_yield ts : ycount ts <= length (flat_map yield ts).
  Proof.
    unfold ycount. induction ts as [|t ts IH]; [simpl; lia|]. simpl. rewrite app_length.
    destruct (is_eps t) eqn:Et; simpl; [lia|].
    unfold is_eps in Et. destruct (yield t) as [|y ys]; [discriminate|simpl; lia].
  Qed.

  Lemma forest_nodes ts : Forall (tree_ok g) ts ->
    length (flat_map postorder ts) <= D * (2 * length (flat_map yield ts) * W + length ts).
  Proof.
    induction 1 as [|t ts Ht _ IH]; [simpl; lia|]. cbn [flat_map length]. rewrite !app_length.
    pose proof (tree_size_bound g nl rk Hac t Ht) as H. unfold tree_bound, nodes in H.
    fold D W in H. lia.
  Qed.

  Lemma inv_progress toks c :
    Inv g ann toks c -> la_inv c -> progress c <= step_bound g rk K (length toks).
  Proof.
    intros [Hs Hts Hy Hr] (w & He & _). unfold progress, step_bound. fold W D.
    assert (Hreds : length (c_reds c) = length (flat_map postorder (c_trees c))).
    { unfold prod_numbers_ok in Hr. apply Forall2_len in Hr.
      rewrite rev_length, flat_map_rev_length in Hr. symmetry. exact Hr. }
    assert (HY : length (flat_map yield (c_trees c)) <= length toks).
    { rewrite <- Hy, app_length, flat_map_rev_length. lia. }
    destruct (stack_runs _ _ Hs w He Hts) as (s & ss' & _ & Hrun).
    pose proof (solid_yield (c_trees c)) as Hsol.
    pose proof (forest_nodes _ Hts) as Hn.
    pose proof (count_split (c_trees c)) as Hsplit.
    set (Y := length (flat_map yield (c_trees c))) in *.
    set (n := length toks) in *.
    assert (H1 : K * (ycount (c_trees c) + 1) <= K * (n + 1)) by (apply Nat.mul_le_mono_l; lia).
    assert (H2 : 2 * Y * W <= 2 * n * W) by (apply Nat.mul_le_mono_r; lia).
    assert (H3 : D * (2 * Y * W + length (c_trees c)) <= D * (2 * n * W + K * (n + 1) + n))
      by (apply Nat.mul_le_mono_l; lia).
    lia.
  Qed.

  Lemma loop_terminates toks : forall fuel c,
    Inv g ann toks c -> la_inv c ->
    step_bound g rk K (length toks) < fuel + progress c ->
    lr_loop fuel tb c <> OutOfFuel.
  Proof.
    induction fuel as [|fuel IH]; intros c Hc He Hlt.
    - pose proof (inv_progress toks c Hc He). lia.
    - simpl. pose proof (step_spec g tb ann Hchk toks c Hc) as Hp.
      pose proof (step_eps toks c) as Hpe.
      destruct (lr_step tb c) as [c'|r] eqn:Est.
      + apply IH; [exact Hp|apply (Hpe c' Hc He eq_refl)|]. rewrite (step_progress tb c c' Est). lia.
      + intros ->. exact Hp.
  Qed.
End Termination.

(** The main theorem: on a table that passes the safety check, for a grammar and a table with
    the two rank certificates, the parser loop stops within [lr_fuel_bound] iterations, whatever
    the input is. *)
Theorem lr_terminates : forall g tb ann nl rk E srk toks,
  lr_safe_check g tb ann = true -> acyclic_ok g nl rk = true -> stack_rank_ok g tb nl ann E srk = true ->
  lr_run (lr_fuel_bound g rk srk toks) tb toks <> OutOfFuel.
Proof.
  intros g tb ann nl rk E srk toks Hchk Hac Hsr. unfold lr_run, lr_fuel_bound.
  apply (loop_terminates g tb ann nl rk E srk Hchk Hac Hsr toks); [apply init_inv| |].
  { exists None. split; [constructor|intros la H; discriminate]. }
  unfold progress. simpl. lia.
Qed.

(** More fuel does not hurt. *)
Lemma lr_loop_mono tb : forall fuel fuel' c,
  fuel <= fuel' -> lr_loop fuel tb c <> OutOfFuel -> lr_loop fuel' tb c = lr_loop fuel tb c.
Proof.
  induction fuel as [|fuel IH]; intros fuel' c Hle H; [contradiction H; reflexivity|].
  destruct fuel' as [|fuel']; [lia|]. simpl in *.
  destruct (lr_step tb c) as [c'|r]; [|reflexivity]. apply IH; [lia|exact H].
Qed.

Theorem lr_terminates_any_fuel : forall g tb ann nl rk E srk toks fuel,
  lr_safe_check g tb ann = true -> acyclic_ok g nl rk = true -> stack_rank_ok g tb nl ann E srk = true ->
  lr_fuel_bound g rk srk toks <= fuel ->
  lr_run fuel tb toks = lr_run (lr_fuel_bound g rk srk toks) tb toks /\
  lr_run fuel tb toks <> OutOfFuel.
Proof.
  intros g tb ann nl rk E srk toks fuel Hchk Hac Hsr Hle.
  pose proof (lr_terminates g tb ann nl rk E srk toks Hchk Hac Hsr) as H.
  assert (Eq : lr_run fuel tb toks = lr_run (lr_fuel_bound g rk srk toks) tb toks)
    by (apply lr_loop_mono; assumption).
  split; [exact Eq|]. rewrite Eq. exact H.
Qed.

Theorem lr_terminates_ex : forall g tb ann nl rk E srk,
  lr_safe_check g tb ann = true -> acyclic_ok g nl rk = true -> stack_rank_ok g tb nl ann E srk = true ->
  forall toks, exists fuel, lr_run fuel tb toks <> OutOfFuel.
Proof.
  intros g tb ann nl rk E srk Hchk Hac Hsr toks. exists (lr_fuel_bound g rk srk toks).
  apply (lr_terminates g tb ann nl rk E srk toks Hchk Hac Hsr).
Qed.

(** ** Examples *)

(** [eps_g] of Tables/LRValidate.v: [S' -> L; L -> L x | ;] - left recursion and an empty
    production; all hypotheses of [lr_terminates] hold (non-vacuity), with certificates found by
    the unverified searches. *)
Definition eps_ann : annotation :=
  match infer_annotation 20 eps_tb with Some a => a | None => [] end.

Example eps_cert : find_acyclic_cert eps_g = ([true; true], [1; 0]%N).
Proof. vm_compute. reflexivity. Qed.

Example eps_eps_set :
  find_eps_set eps_g eps_tb [true; true] = [(0, 0, 1); (5, 0, 1)]%N.
Proof. vm_compute. reflexivity. Qed.

Example eps_stack_ranks :
  find_stack_ranks [true; true] eps_ann [(0, 0, 1); (5, 0, 1)]%N
  = [(0, [1; 0; 0]); (5, [1; 0; 0])]%N.
Proof. vm_compute. reflexivity. Qed.

Example eps_terminates_instance :
  let nl := fst (find_acyclic_cert eps_g) in
  let E := find_eps_set eps_g eps_tb nl in
  let srk := find_stack_ranks nl eps_ann E in
  lr_safe_check eps_g eps_tb eps_ann = true /\
  acyclic_ok eps_g nl (snd (find_acyclic_cert eps_g)) = true /\
  stack_rank_ok eps_g eps_tb nl eps_ann E srk = true /\
  lr_fuel_bound eps_g [1; 0]%N srk [5; 5]%N = 94 /\
  exists t, lr_run 94 eps_tb [5; 5]%N = Accepted [2; 1; 1; 0]%N [t].
Proof.
  split; [vm_compute; reflexivity|]. split; [vm_compute; reflexivity|].
  split; [vm_compute; reflexivity|]. split; [vm_compute; reflexivity|].
  eexists. vm_compute. reflexivity.
Qed.

(** [ex_g]: [S' -> S; S -> ( S ) | x] (no nullable non-terminal). *)
Example ex_terminates_instance :
  let (nl, rk) := find_acyclic_cert ex_g in
  let E := find_eps_set ex_g ex_tb nl in
  acyclic_ok ex_g nl rk = true /\
  stack_rank_ok ex_g ex_tb nl ex_ann E (find_stack_ranks nl ex_ann E) = true /\
  lr_run (lr_fuel_bound ex_g rk (find_stack_ranks nl ex_ann E) [5; 5; 7; 6; 6]%N) ex_tb
         [5; 5; 7; 6; 6]%N
  = lr_run 100 ex_tb [5; 5; 7; 6; 6]%N.
Proof. vm_compute. repeat split; reflexivity. Qed.

(** A tree of [eps_g] and its bound. *)
Example eps_tree_instance :
  let t := Node (mkProd 0 [NT 1%N]) [Node (mkProd 1 [NT 1%N; T 5%N])
             [Node (mkProd 1 []) []; Leaf 5%N]] in
  tree_ok eps_g t /\ nodes t = 3 /\ tree_bound eps_g [1; 0]%N (length (yield t)) = 35.
Proof. vm_compute. intuition. Qed.

(** *** A real generated table with a resolved conflict

    [S' -> S; S -> | S S a] in the driver's numbering: non-terminals 0 = S, 1 = S' (start),
    terminal 5 = a; productions 0: [S' -> S], 1: [S -> ], 2: [S -> S S a].  The shift/reduce
    conflict in state 2 ([S -> S S .a], [S -> S .S a], [S -> .]) is resolved towards the shift.
    State 2 is entered on [S] from state 1 and from itself, but an [S] with an empty subtree can
    only be pushed on a state that reduces [S -> ] (states 0 and 1), so the self-edge does not
    count and the refined check passes. *)
Definition amb_g : cfg :=
  mkCfg 1 [mkProd 1 [NT 0%N]; mkProd 0 []; mkProd 0 [NT 0%N; NT 0%N; T 5%N]].

Definition amb_tb : lr_table :=
  mkLRTable
    [Reduce 0 1; Accept; Shift 3; Reduce 0 2]
    [ mkLRState [(0, 0); (5, 0)] [(0, 1)];
      mkLRState [(0, 1); (5, 0)] [(0, 2)];
      mkLRState [(5, 2)] [(0, 2)];
      mkLRState [(0, 3); (5, 3)] [] ]%N
    [mkLRProd 1 1; mkLRProd 0 0; mkLRProd 0 3]
    1 6 2.

Definition amb_ann : annotation :=
  match infer_annotation 20 amb_tb with Some a => a | None => [] end.

Example amb_terminates_instance :
  let E := find_eps_set amb_g amb_tb [true; true] in
  let srk := find_stack_ranks [true; true] amb_ann E in
  lr_safe_check amb_g amb_tb amb_ann = true /\
  find_acyclic_cert amb_g = ([true; true], [0; 1]%N) /\
  acyclic_ok amb_g [true; true] [0; 1]%N = true /\
  E = [(0, 0, 0); (5, 1, 0); (5, 0, 0)]%N /\
  srk = [(0, [1; 0; 0; 0]); (5, [2; 1; 0; 0])]%N /\
  stack_rank_ok amb_g amb_tb [true; true] amb_ann E srk = true /\
  (* the self-edge of state 2 is there, but it is not an edge for empty subtrees *)
  nth_error amb_ann 2 = Some [(NT 0%N, [2; 1]%N); (NT 0%N, [2; 1; 0]%N)] /\
  exists reds t, lr_run (lr_fuel_bound amb_g [0; 1]%N srk [5; 5]%N) amb_tb [5; 5]%N
                 = Accepted reds [t].
Proof.
  vm_compute. repeat (split; [reflexivity|]). eexists. eexists. reflexivity.
Qed.

(** *** A second real table: nullable through a chain

    [S' -> A; A -> a | B A a | ; B -> A] in the driver's numbering: non-terminals 0 = A,
    1 = S' (start), 2 = B; terminal 5 = a; productions 0: [S' -> A], 1: [A -> a],
    2: [A -> B A a], 3: [A -> ], 4: [B -> A].  [B] is nullable through [B -> A -> ], and state 3
    (entered on [B] from state 0 and from itself) has the self-edge [3 -B-> 3].  But an empty
    [B] can only be pushed on state 0: state 3 has no reduction of [A -> ], so neither [(3, A)]
    nor [(3, B)] is in the least closed set, and the self-edge does not count. *)
Definition bae_g : cfg :=
  mkCfg 1 [mkProd 1 [NT 0%N]; mkProd 0 [T 5%N]; mkProd 0 [NT 2%N; NT 0%N; T 5%N]; mkProd 0 [];
           mkProd 2 [NT 0%N]].

Definition bae_tb : lr_table :=
  mkLRTable
    [Reduce 0 3; Shift 1; Reduce 0 1; Accept; Reduce 2 4; Shift 5; Reduce 0 2]
    [ mkLRState [(0, 0); (5, 1)] [(0, 2); (2, 3)];
      mkLRState [(0, 2); (5, 2)] [];
      mkLRState [(0, 3); (5, 4)] [];
      mkLRState [(5, 1)] [(0, 4); (2, 3)];
      mkLRState [(5, 5)] [];
      mkLRState [(0, 6); (5, 6)] [] ]%N
    [mkLRProd 1 1; mkLRProd 0 1; mkLRProd 0 3; mkLRProd 0 0; mkLRProd 2 1]
    1 6 3.

Definition bae_ann : annotation :=
  match infer_annotation 20 bae_tb with Some a => a | None => [] end.

Example bae_terminates_instance :
  let (nl, rk) := find_acyclic_cert bae_g in
  let E := find_eps_set bae_g bae_tb nl in
  let srk := find_stack_ranks nl bae_ann E in
  lr_safe_check bae_g bae_tb bae_ann = true /\
  nl = [true; true; true] /\ rk = [0; 1; 1]%N /\
  acyclic_ok bae_g nl rk = true /\
  E = [(0, 0, 0)]%N /\
  srk = [(0, [1; 0; 0; 0; 0; 0])]%N /\
  stack_rank_ok bae_g bae_tb nl bae_ann E srk = true /\
  (* state 3 may sit on itself with incoming symbol B, a marked non-terminal *)
  nth_error bae_ann 3 = Some [(NT 2%N, [3; 0]%N)] /\
  exists reds t, lr_run (lr_fuel_bound bae_g rk srk [5; 5; 5]%N) bae_tb [5; 5; 5]%N
                 = Accepted reds [t].
Proof.
  vm_compute. repeat (split; [reflexivity|]). eexists. eexists. reflexivity.
Qed.

(** *** A third real table: a cycle that needs two different lookaheads

    [S' -> A; A -> B A a | ; B -> b b | A] in the driver's numbering: non-terminals 0 = A,
    1 = S' (start), 2 = B; terminals 5 = a, 6 = b; productions 0: [S' -> A], 1: [A -> B A a],
    2: [A -> ], 3: [B -> b b], 4: [B -> A].  State 3 (entered on [B]) reduces [A -> ] on
    lookahead [a] and goes to state 5, which reduces [B -> A] on lookahead [b] only; the goto of
    state 3 on [B] is state 3 again.  A lookahead-insensitive set would contain [(3, B)] and
    demand [srk 3 < srk 3]; but while empty entries are stacked the lookahead cannot change,
    and under neither lookahead the cycle closes: [(a, 3, A)] is in the least closed set,
    [(a, 3, B)] and [(b, 3, A)] are not. *)
Definition dla_g : cfg :=
  mkCfg 1 [mkProd 1 [NT 0%N]; mkProd 0 [NT 2%N; NT 0%N; T 5%N]; mkProd 0 [];
           mkProd 2 [T 6%N; T 6%N]; mkProd 2 [NT 0%N]].

Definition dla_tb : lr_table :=
  mkLRTable
    [Reduce 0 2; Shift 1; Shift 4; Accept; Reduce 2 4; Reduce 2 3; Shift 6; Reduce 0 1]
    [ mkLRState [(0, 0); (5, 0); (6, 1)] [(0, 2); (2, 3)];
      mkLRState [(6, 2)] [];
      mkLRState [(0, 3); (5, 4); (6, 4)] [];
      mkLRState [(5, 0); (6, 1)] [(0, 5); (2, 3)];
      mkLRState [(5, 5); (6, 5)] [];
      mkLRState [(5, 6); (6, 4)] [];
      mkLRState [(0, 7); (5, 7); (6, 7)] [] ]%N
    [mkLRProd 1 1; mkLRProd 0 3; mkLRProd 0 0; mkLRProd 2 2; mkLRProd 2 1]
    1 7 3.

Definition dla_ann : annotation :=
  match infer_annotation 20 dla_tb with Some a => a | None => [] end.

Example dla_terminates_instance :
  let (nl, rk) := find_acyclic_cert dla_g in
  let E := find_eps_set dla_g dla_tb nl in
  let srk := find_stack_ranks nl dla_ann E in
  lr_safe_check dla_g dla_tb dla_ann = true /\
  nl = [true; true; true] /\ rk = [0; 1; 1]%N /\
  acyclic_ok dla_g nl rk = true /\
  E = [(0, 0, 0); (5, 0, 2); (5, 3, 0); (5, 0, 0)]%N /\
  srk = [(0, [1; 0; 0; 0; 0; 0; 0]); (5, [2; 0; 0; 1; 0; 0; 0])]%N /\
  stack_rank_ok dla_g dla_tb nl dla_ann E srk = true /\
  (* state 3 may sit on itself with incoming symbol B, a marked non-terminal *)
  nth_error dla_ann 3 = Some [(NT 2%N, [3; 0]%N)] /\
  exists reds t, lr_run (lr_fuel_bound dla_g rk srk [6; 6; 5; 5]%N) dla_tb [6; 6; 5; 5]%N
                 = Accepted reds [t].
Proof.
  vm_compute. repeat (split; [reflexivity|]). eexists. eexists. reflexivity.
Qed.

(** *** The cyclic grammar [S: A; A: A | 'a';]

    Terminal 5 = 'a'; non-terminals 0 = S, 1 = A.  The table is the LALR(1) automaton with the
    accept/reduce conflict in state 1 on EOI resolved towards the reduction [A -> A]: state 0
    [S -> .A, A -> .A, A -> .a], state 1 [S -> A., A -> A.], state 2 [A -> a.].  It passes the
    SAFETY check (every reduction is justified), has no acyclicity certificate, and loops. *)
Definition cyc_g : cfg := mkCfg 0 [mkProd 0 [NT 1%N]; mkProd 1 [NT 1%N]; mkProd 1 [T 5%N]].

Definition cyc_tb : lr_table :=
  mkLRTable
    [Shift 2; Reduce 1 1; Reduce 1 2]
    [ mkLRState [(5, 0)] [(1, 1)];
      mkLRState [(0, 1)] [];
      mkLRState [(0, 2)] [] ]%N
    [mkLRProd 0 1; mkLRProd 1 1; mkLRProd 1 1]
    0 6 2.

Example cyc_safe : lr_validate 20 cyc_g cyc_tb = true.
Proof. vm_compute. reflexivity. Qed.

Example cyc_cert_fails :
  find_acyclic_cert cyc_g = ([false; false], [3; 3]%N) /\
  acyclic_ok cyc_g (fst (find_acyclic_cert cyc_g)) (snd (find_acyclic_cert cyc_g)) = false.
Proof. vm_compute. split; reflexivity. Qed.

Example cyc_out_of_fuel :
  lr_run 10 cyc_tb [5]%N = OutOfFuel /\ lr_run 100 cyc_tb [5]%N = OutOfFuel /\
  lr_run 1000 cyc_tb [5]%N = OutOfFuel.
Proof. vm_compute. repeat split; reflexivity. Qed.

Lemma rank_lt_irrefl rk a : rank_lt rk a a = false.
Proof. unfold rank_lt. destruct (rk_of rk a); [apply N.ltb_irrefl|reflexivity]. Qed.

(** No certificate whatsoever exists for the cyclic grammar ... *)
Theorem cyc_never_acyclic : forall nl rk, acyclic_ok cyc_g nl rk = false.
Proof.
  intros nl rk. apply not_true_iff_false. intros H. unfold acyclic_ok in H.
  apply andb_prop in H. destruct H as [_ H]. rewrite forallb_forall in H.
  specialize (H (mkProd 1 [NT 1%N])). cbn [lhs rhs rhs_ok forallb pos_ok] in H.
  rewrite rank_lt_irrefl in H. rewrite andb_false_l, andb_false_r in H.
  assert (Hin : In (mkProd 1 [NT 1%N]) (prods cyc_g)) by (simpl; right; left; reflexivity).
  specialize (H Hin). discriminate.
Qed.

(** ... and its table loops for ever on the input "a", with any fuel. *)
Lemma cyc_loop_state : forall fuel t reds,
  lr_loop fuel cyc_tb (mkConf [1; 0]%N [t] [] reds) = OutOfFuel.
Proof.
  induction fuel as [|fuel IH]; intros t reds; [reflexivity|].
  change (lr_loop (S fuel) cyc_tb (mkConf [1; 0]%N [t] [] reds))
    with (lr_loop fuel cyc_tb (mkConf [1; 0]%N [Node (mkProd 1 [root_sym t]) [t]] [] (1%N :: reds))).
  apply IH.
Qed.

Theorem cyc_loops : forall fuel, lr_run fuel cyc_tb [5]%N = OutOfFuel.
Proof.
  intros [|[|fuel]]; [reflexivity|reflexivity|]. unfold lr_run.
  change (lr_loop (S (S fuel)) cyc_tb (lr_init [5]%N))
    with (lr_loop fuel cyc_tb (mkConf [1; 0]%N [Node (mkProd 1 [T 5%N]) [Leaf 5%N]] [] [2%N])).
  apply cyc_loop_state.
Qed.

(** *** Why the table certificate is needed

    [S -> A x; A -> ;] (terminal 5 = x; non-terminals 0 = S, 1 = A) is acyclic.  The table below
    is NOT its LR automaton: state 1, entered on [A], reduces [A -> ] again and goes to itself.
    Every single reduction is justified, so the safety check passes ([lr_safe_check] never
    claimed more), but the parser pushes [A]s for ever. *)
Definition mal_g : cfg := mkCfg 0 [mkProd 0 [NT 1%N; T 5%N]; mkProd 1 []].

Definition mal_tb : lr_table :=
  mkLRTable
    [Reduce 1 1]
    [ mkLRState [(5, 0)] [(1, 1)];
      mkLRState [(5, 0)] [(1, 1)] ]%N
    [mkLRProd 0 2; mkLRProd 1 0]
    0 6 2.

Definition mal_ann : annotation := [ []; [(NT 1%N, [0; 1]%N)] ].

Lemma mal_loop_state : forall fuel ss ts reds,
  lr_loop fuel mal_tb (mkConf (1%N :: ss) ts [5]%N reds) = OutOfFuel.
Proof.
  induction fuel as [|fuel IH]; intros ss ts reds; [reflexivity|].
  change (lr_loop (S fuel) mal_tb (mkConf (1%N :: ss) ts [5]%N reds))
    with (lr_loop fuel mal_tb
            (mkConf (1%N :: 1%N :: ss) (Node (mkProd 1 []) [] :: ts) [5]%N (1%N :: reds))).
  apply IH.
Qed.

Lemma mal_loops : forall fuel, lr_run fuel mal_tb [5]%N = OutOfFuel.
Proof.
  intros [|fuel]; [reflexivity|]. unfold lr_run.
  change (lr_loop (S fuel) mal_tb (lr_init [5]%N))
    with (lr_loop fuel mal_tb (mkConf [1; 0]%N [Node (mkProd 1 []) []] [5]%N [1%N])).
  apply mal_loop_state.
Qed.

(** The statement that was asked for - termination from [lr_safe_check] and [acyclic_ok] alone -
    is false of the faithful model. *)
Theorem lr_terminates_refuted :
  exists g tb ann nl rk toks,
    lr_safe_check g tb ann = true /\ acyclic_ok g nl rk = true /\
    forall fuel, lr_run fuel tb toks = OutOfFuel.
Proof.
  exists mal_g, mal_tb, mal_ann, [false; true], [0; 0]%N, [5]%N.
  split; [vm_compute; reflexivity|]. split; [vm_compute; reflexivity|]. exact mal_loops.
Qed.

Corollary lr_terminates_without_stack_ranks_false :
  ~ (forall g tb ann nl rk, lr_safe_check g tb ann = true -> acyclic_ok g nl rk = true ->
       forall toks, exists fuel, lr_run fuel tb toks <> OutOfFuel).
Proof.
  intros H. destruct lr_terminates_refuted as (g & tb & ann & nl & rk & toks & H1 & H2 & H3).
  destruct (H g tb ann nl rk H1 H2 toks) as (fuel & Hf). apply Hf. apply H3.
Qed.

(** The table certificate catches it: under lookahead 5 state 1 reduces [A -> ] and goes to
    itself on [A], so [(5, 1, A)] is in every closed set, and no state ranking passes. *)
Example mal_no_stack_ranks :
  forall E srk, stack_rank_ok mal_g mal_tb [false; true] mal_ann E srk = false.
Proof.
  intros E srk. apply not_true_iff_false. intros H.
  assert (Hc : eps_closed mal_g mal_tb [false; true] E = true).
  { unfold stack_rank_ok in H. apply andb_prop in H. destruct H as [H _].
    apply andb_prop in H. apply H. }
  assert (Hla : In 5%N (table_las mal_tb)) by (vm_compute; auto).
  assert (He : eps_edge E 5 1 1 = true).
  { apply (eps_closed_spec mal_g mal_tb [false; true] E 5 1 (mkProd 1 []) 1
             (mkLRState [(5, 0)] [(1, 1)])%N 1 Hc Hla); reflexivity. }
  assert (Hlt : srk_lt (ranks_for srk 5) 1 1 = true).
  { apply (stack_rank_ok_spec mal_g mal_tb [false; true] mal_ann E srk 5 1 1 [0; 1]%N [] 1%N H);
      [reflexivity|reflexivity|right; left; reflexivity|exact He]. }
  unfold srk_lt in Hlt. destruct (nth_error (ranks_for srk 5) (N.to_nat 1)); [|discriminate].
  rewrite N.ltb_irrefl in Hlt. discriminate.
Qed.

Print Assumptions eps_tree_bound.
Print Assumptions tree_size_bound.
Print Assumptions lr_terminates.
Print Assumptions lr_terminates_any_fuel.
Print Assumptions lr_terminates_ex.
Print Assumptions lr_terminates_refuted.
Print Assumptions lr_terminates_without_stack_ranks_false.
Print Assumptions cyc_never_acyclic.
Print Assumptions cyc_loops.
