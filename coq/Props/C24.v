(** Property C24 — Code generation is deterministic. Pinned statements (tools/pin.py); see the level text in MANIFEST.json. *)
From Coq Require Import List NArith.
From Parol Require Import Grammar.Cfg Transform.LeftFactor Transform.LeftFactorProofs.
Import ListNotations.

Theorem C24_find_prefix_order_refuted :
  exists (o1 o2 : oracle) (it : nat) (a : N) (c : list (list sym)),
  find_prefix (ord_prefix o1 it a) c = Some [T 8] /\
  find_prefix (ord_prefix o2 it a) c = Some [T 5].
Proof. exact find_prefix_order_refuted. Qed.

Theorem C24_lf_order_refuted :
  exists (o1 o2 : oracle) (g g1 g2 : cfg),
  left_factor fresh_max o1 (lf_fuel g) g = Some g1 /\
  left_factor fresh_max o2 (lf_fuel g) g = Some g2 /\ g1 <> g2.
Proof. exact lf_order_refuted. Qed.

Theorem C24_lf_order_indep_lang :
  forall (fresh1 fresh2 : N -> list N -> N) (o1 o2 : oracle) (f1 f2 : nat) (g g1 g2 : cfg),
  (forall (a : N) (excl : list N), ~ In (fresh1 a excl) excl) ->
  (forall (a : N) (excl : list N), ~ In (fresh2 a excl) excl) ->
  left_factor fresh1 o1 f1 g = Some g1 ->
  left_factor fresh2 o2 f2 g = Some g2 ->
  start g1 = start g2 /\
  (forall a : N,
  In a (pr_nts (prods g)) -> forall w : list N, derives g1 [NT a] w <-> derives g2 [NT a] w).
Proof. exact lf_order_indep_lang. Qed.

