(** * C07 — Lookahead automata encode exactly the lookahead sets

    Rust: crates/parol/src/analysis/lookahead_dfa.rs ([LookaheadDFA::from_k_tuples],
    [add_transition], [unite], [coin_state]), crates/parol/src/analysis/compiled_la_dfa.rs
    ([CompiledDFA::from_lookahead_dfa]; [minimize] is modelled in Analysis/LaMinimize.v) and
    crates/parol/src/analysis/k_decision.rs ([calculate_lookahead_dfas]).

    Contents
    - §1 specification: lookahead families, [fam_ok] / [fam_okb];
    - §2 the correspondence checker [la_dfa_check] and its soundness (no model is trusted);
    - §3 faithful model of the trie construction, of [unite], of the fold in
         [calculate_lookahead_dfas] and of the conversion [from_lookahead_dfa] (without [minimize]);
    - §4 proofs: [trie_exact], [compile_sorted], [compile_wfd], [compile_depth];
    - §5 findings: [unite_overwrites_refuted], [compile_depth_refuted], … *)
From Coq Require Import List NArith ZArith Bool Lia Sorted Arith.
From Parol Require Import Runtime.DfaEval.
Import ListNotations.

Local Open Scope nat_scope.

(* ------------------------------------------------------------------------------------------- *)
(** * §1 Specification *)

(** A lookahead family of one non-terminal: for every production (number) the list of its
    lookahead strings.  Token 0 is the end-of-input token. *)
Definition family := list (Z * list (list N)).

Fixpoint str_eqb (u v : list N) : bool :=
  match u, v with
  | [], [] => true
  | a :: u', b :: v' => N.eqb a b && str_eqb u' v'
  | _, _ => false
  end.

Lemma str_eqb_spec u v : str_eqb u v = true <-> u = v.
Proof.
  revert v. induction u as [|a u IH]; intros [|b v]; cbn [str_eqb]; split; intros H;
    try reflexivity; try discriminate.
  - apply andb_prop in H as [H1 H2]. apply N.eqb_eq in H1. apply IH in H2. subst. reflexivity.
  - inversion H; subst. rewrite N.eqb_refl. apply IH. reflexivity.
Qed.

Lemma str_eq_dec (u v : list N) : u = v \/ u <> v.
Proof.
  destruct (str_eqb u v) eqn:E.
  - left. apply str_eqb_spec. exact E.
  - right. intros H. apply str_eqb_spec in H. congruence.
Qed.

Definition mem_str (u : list N) (l : list (list N)) : bool := existsb (str_eqb u) l.

Lemma mem_str_spec u l : mem_str u l = true <-> In u l.
Proof.
  unfold mem_str. rewrite existsb_exists. split.
  - intros (x & Hx & E). apply str_eqb_spec in E. subst. exact Hx.
  - intros H. exists u. split; [exact H|]. apply str_eqb_spec. reflexivity.
Qed.

Definition strings_of (fam : family) (p : Z) : list (list N) :=
  flat_map (fun e => if Z.eqb (fst e) p then snd e else []) fam.

(** All (production, string) pairs. *)
Definition entries (fam : family) : list (Z * list N) :=
  flat_map (fun e => map (fun u => (fst e, u)) (snd e)) fam.

Lemma in_entries fam p u : In (p, u) (entries fam) <-> In u (strings_of fam p).
Proof.
  unfold entries, strings_of. rewrite !in_flat_map. split.
  - intros (e & He & H). apply in_map_iff in H as (v & E & Hv). inversion E; subst.
    exists e. split; [exact He|]. rewrite Z.eqb_refl. exact Hv.
  - intros (e & He & H). destruct (Z.eqb_spec (fst e) p) as [E|E]; [|destruct H].
    exists e. split; [exact He|]. apply in_map_iff. exists u. subst. auto.
Qed.

Lemma entries_app f1 f2 : entries (f1 ++ f2) = entries f1 ++ entries f2.
Proof. unfold entries. apply flat_map_app. Qed.

Definition prefix (u v : list N) : Prop := exists r, v = u ++ r.

Fixpoint prefixb (u v : list N) : bool :=
  match u, v with
  | [], _ => true
  | a :: u', b :: v' => N.eqb a b && prefixb u' v'
  | _ :: _, [] => false
  end.

Lemma prefixb_spec u v : prefixb u v = true <-> prefix u v.
Proof.
  revert v. induction u as [|a u IH]; intros v; cbn [prefixb].
  - split; [intros _; exists v; reflexivity|reflexivity].
  - destruct v as [|b v].
    + split; [discriminate|]. intros (r & E). discriminate.
    + split.
      * intros H. apply andb_prop in H as [H1 H2]. apply N.eqb_eq in H1. apply IH in H2 as (r & E).
        exists r. subst. reflexivity.
      * intros (r & E). inversion E; subst. rewrite N.eqb_refl. apply IH. exists r. reflexivity.
Qed.

(** End of input (token 0) may only be the last element of a lookahead string. *)
Fixpoint eoi_lastb (u : list N) : bool :=
  match u with
  | [] => true
  | [_] => true
  | a :: u' => negb (N.eqb a 0) && eoi_lastb u'
  end.

Definition eoi_last (u : list N) : Prop := forall a b r, u = a ++ 0%N :: b :: r -> False.

(** Determinism of a family: a string that is a prefix of another string is that very string and
    belongs to the same production.  It comprises (i) disjointness of the productions' sets and
    (ii) prefix-freeness across and within productions.  Note that it also forces: if the empty
    string occurs at all, then nothing else occurs (the single-production case, [k = 0]). *)
Definition fam_det (fam : family) : Prop :=
  (forall e, In e fam -> (0 <= fst e)%Z /\ snd e <> []) /\
  (forall p u q v, In (p, u) (entries fam) -> In (q, v) (entries fam) -> prefix u v ->
                   u = v /\ p = q).

Definition fam_ok (fam : family) : Prop :=
  fam <> [] /\ fam_det fam /\ (forall p u, In (p, u) (entries fam) -> eoi_last u).

Definition fam_detb (fam : family) : bool :=
  forallb (fun e => Z.leb 0 (fst e) && match snd e with [] => false | _ => true end) fam &&
  forallb (fun a => forallb (fun b => negb (prefixb (snd a) (snd b))
                                      || (str_eqb (snd a) (snd b) && Z.eqb (fst a) (fst b)))
                            (entries fam)) (entries fam).

Definition fam_okb (fam : family) : bool :=
  match fam with [] => false | _ => true end &&
  fam_detb fam &&
  forallb (fun a => eoi_lastb (snd a)) (entries fam).

Lemma fam_detb_spec fam : fam_detb fam = true -> fam_det fam.
Proof.
  unfold fam_detb, fam_det. intros H. apply andb_prop in H as [H1 H2]. split.
  - intros e He. rewrite forallb_forall in H1. specialize (H1 e He).
    apply andb_prop in H1 as [A B]. split; [apply Z.leb_le; exact A|].
    destruct (snd e); [discriminate|discriminate].
  - intros p u q v Hu Hv Hp. rewrite forallb_forall in H2. specialize (H2 _ Hu).
    rewrite forallb_forall in H2. specialize (H2 _ Hv). cbn [fst snd] in H2.
    apply prefixb_spec in Hp. rewrite Hp in H2. cbn [negb orb] in H2.
    apply andb_prop in H2 as [A B]. apply str_eqb_spec in A. apply Z.eqb_eq in B. auto.
Qed.

Lemma eoi_lastb_spec u : eoi_lastb u = true -> eoi_last u.
Proof.
  induction u as [|x u IH]; intros H a b r E.
  - destruct a; discriminate.
  - destruct u as [|y u]; [destruct a as [|? [|? ?]]; discriminate|].
    change (negb (N.eqb x 0) && eoi_lastb (y :: u) = true) in H.
    apply andb_prop in H as [H1 H2]. destruct a as [|x' a].
    + inversion E; subst. discriminate.
    + inversion E; subst. apply (IH H2 a b r). assumption.
Qed.

Lemma fam_okb_spec fam : fam_okb fam = true -> fam_ok fam.
Proof.
  unfold fam_okb, fam_ok. intros H. apply andb_prop in H as [H H3]. apply andb_prop in H as [H1 H2].
  split; [destruct fam; [discriminate|discriminate]|]. split; [apply fam_detb_spec; exact H2|].
  intros p u Hu. rewrite forallb_forall in H3. apply eoi_lastb_spec. apply (H3 _ Hu).
Qed.

Definition max_len (ss : list (list N)) : nat := fold_right (fun u m => Nat.max (length u) m) 0 ss.

Definition fam_max_len (fam : family) : nat := max_len (map snd (entries fam)).

Lemma max_len_ge ss u : In u ss -> length u <= max_len ss.
Proof.
  induction ss as [|v ss IH]; intros H; [destruct H|]. cbn [max_len fold_right].
  destruct H as [->|H]; [lia|]. specialize (IH H). unfold max_len in IH. lia.
Qed.

(* ------------------------------------------------------------------------------------------- *)
(** * §2 The correspondence checker

    [la_dfa_check d fam alphabet] is run by the harness on the automaton that the real generator
    emitted ([d]) and on the reference lookahead sets ([fam]).  It does not enumerate strings: it
    checks that (a) every string of the family is accepted with its production, and (b) walks the
    automaton from state 0 along *its own transitions* (depth first, all paths) and checks that
    every accepting state met on the way is met on a string of the family with that production. *)

Definition out_edges (ts : list trans) (s : N) : list trans :=
  filter (fun t => N.eqb (t_from t) s) ts.

(** [w] is the string read so far, [q] the production number of the current state.  Running out
    of fuel while there still are outgoing transitions makes the check fail. *)
Fixpoint dfs (fuel : nat) (ts : list trans) (fam : family) (s : N) (q : Z) (w : list N) : bool :=
  (if valid q then mem_str w (strings_of fam q) else true) &&
  match out_edges ts s with
  | [] => true
  | es =>
      match fuel with
      | O => false
      | S f => forallb (fun t => dfs f ts fam (t_to t) (t_prod t) (w ++ [t_tok t])) es
      end
  end.

(** No two transitions with the same (from-state, terminal). *)
Fixpoint detb (ts : list trans) : bool :=
  match ts with
  | [] => true
  | a :: ts' =>
      forallb (fun b => negb (N.eqb (t_from a) (t_from b) && N.eqb (t_tok a) (t_tok b))) ts'
      && detb ts'
  end.

Definition det (ts : list trans) : Prop :=
  forall a b, In a ts -> In b ts -> t_from a = t_from b -> t_tok a = t_tok b -> a = b.

Definition in_alphabet (alphabet : list N) (c : N) : bool :=
  N.eqb c 0 || existsb (N.eqb c) alphabet.

Definition la_dfa_check (d : dfa) (fam : family) (alphabet : list N) : bool :=
  (* (a) every family string is accepted with its production *)
  forallb (fun e => acceptsb d (snd e) (fst e)) (entries fam) &&
  (* (b) everything accepted is a family string *)
  dfs (S (Nat.max (depth d) (fam_max_len fam))) (transitions d) fam 0%N (prod0 d) [] &&
  (* shape of the table the runtime relies on *)
  detb (transitions d) && sortedb (transitions d) && wfd d &&
  forallb (fun t => in_alphabet alphabet (t_tok t)) (transitions d).

(** The depth ([k]) of the automaton must cover the longest lookahead string, otherwise the
    runtime stops reading tokens before it reaches the accepting state. *)
Definition la_depth_check (d : dfa) (fam : family) : bool := Nat.eqb (depth d) (fam_max_len fam).

Lemma step_in ts s c t : step ts s c = Some t -> In t (out_edges ts s) /\ t_tok t = c.
Proof.
  unfold step, out_edges. intros H. apply find_some in H as [Hin H].
  apply andb_prop in H as [H1 H2]. split; [|apply N.eqb_eq; exact H2].
  apply filter_In. auto.
Qed.

Lemma dfs_sound ts fam : forall fuel s q w,
  dfs fuel ts fam s q w = true ->
  forall u s' p, run ts u s q = Some (s', p) -> valid p = true -> In (w ++ u) (strings_of fam p).
Proof.
  induction fuel as [|f IH]; intros s q w H u s' p R V.
  - cbn [dfs] in H. apply andb_prop in H as [H1 H2]. destruct u as [|c u].
    + cbn [run] in R. inversion R; subst. rewrite V in H1. rewrite app_nil_r.
      apply mem_str_spec. exact H1.
    + cbn [run] in R. destruct (step ts s c) as [t|] eqn:St; [|discriminate].
      apply step_in in St as [Hin _]. destruct (out_edges ts s); [destruct Hin|discriminate].
  - cbn [dfs] in H. apply andb_prop in H as [H1 H2]. destruct u as [|c u].
    + cbn [run] in R. inversion R; subst. rewrite V in H1. rewrite app_nil_r.
      apply mem_str_spec. exact H1.
    + cbn [run] in R. destruct (step ts s c) as [t|] eqn:St; [|discriminate].
      apply step_in in St as [Hin Etok].
      assert (Hall : forallb (fun t => dfs f ts fam (t_to t) (t_prod t) (w ++ [t_tok t]))
                             (out_edges ts s) = true).
      { destruct (out_edges ts s); [destruct Hin|exact H2]. }
      rewrite forallb_forall in Hall. specialize (Hall t Hin).
      specialize (IH _ _ _ Hall u s' p R V). rewrite <- app_assoc in IH. cbn [app] in IH.
      rewrite Etok in IH. exact IH.
Qed.

(** Soundness.  The statement is stronger than the one asked for: there is no bound on the length
    of [u] and no restriction to the alphabet — the strict walk [accepts] consumes all of [u], and
    the depth-first walk has seen every path of the automaton. *)
Theorem la_dfa_check_sound d fam alphabet :
  la_dfa_check d fam alphabet = true ->
  forall u p, accepts d u p <-> In u (strings_of fam p).
Proof.
  unfold la_dfa_check. intros H.
  apply andb_prop in H as [H Halpha]. apply andb_prop in H as [H Hwf].
  apply andb_prop in H as [H Hsorted]. apply andb_prop in H as [H Hdet].
  apply andb_prop in H as [Ha Hb].
  intros u p. split.
  - intros (s & R & V). apply (dfs_sound _ _ _ _ _ _ Hb u s p R V).
  - intros Hin. apply acceptsb_spec. rewrite forallb_forall in Ha.
    apply in_entries in Hin. apply (Ha _ Hin).
Qed.

(** The form asked for (a corollary). *)
Corollary la_dfa_check_sound_bounded d fam alphabet :
  la_dfa_check d fam alphabet = true ->
  forall u p, length u <= depth d -> (accepts d u p <-> In u (strings_of fam p)).
Proof. intros H u p _. apply (la_dfa_check_sound d fam alphabet H). Qed.

Lemma detb_spec ts : detb ts = true -> det ts.
Proof.
  induction ts as [|a ts IH]; intros H x y Hx Hy Ef Et; [destruct Hx|].
  cbn [detb] in H. apply andb_prop in H as [H1 H2]. rewrite forallb_forall in H1.
  destruct Hx as [<-|Hx], Hy as [<-|Hy].
  - reflexivity.
  - specialize (H1 y Hy). rewrite Ef, Et, !N.eqb_refl in H1. discriminate.
  - specialize (H1 x Hx). rewrite <- Ef, <- Et, !N.eqb_refl in H1. discriminate.
  - apply (IH H2); assumption.
Qed.

Theorem la_dfa_check_shape d fam alphabet :
  la_dfa_check d fam alphabet = true ->
  sorted (transitions d) /\ det (transitions d) /\ wfd d = true /\
  (forall t, In t (transitions d) -> t_tok t = 0%N \/ In (t_tok t) alphabet).
Proof.
  unfold la_dfa_check. intros H.
  apply andb_prop in H as [H Halpha]. apply andb_prop in H as [H Hwf].
  apply andb_prop in H as [H Hsorted]. apply andb_prop in H as [H Hdet].
  split; [apply sortedb_spec; assumption|]. split; [apply detb_spec; assumption|].
  split; [assumption|]. intros t Ht. rewrite forallb_forall in Halpha. specialize (Halpha t Ht).
  unfold in_alphabet in Halpha. apply orb_prop in Halpha as [E|E].
  - left. apply N.eqb_eq. exact E.
  - right. apply existsb_exists in E as (x & Hx & E). apply N.eqb_eq in E. subst. exact Hx.
Qed.

(** Together with C08 ([DfaEval.eval_exact]): what the (repaired) runtime predicts on a token
    buffer is a production one of whose lookahead strings is a prefix of the buffer. *)
Corollary la_dfa_check_eval d fam alphabet buf p :
  la_dfa_check d fam alphabet = true ->
  eval d buf = Predict p ->
  exists n, n <= depth d /\ In (firstn n buf) (strings_of fam p).
Proof.
  intros H E. destruct (la_dfa_check_shape _ _ _ H) as (Hs & _ & Hw & _).
  destruct (eval_exact d buf p Hs Hw E) as (n & Hn & Ha). exists n. split; [exact Hn|].
  apply (la_dfa_check_sound _ _ _ H). exact Ha.
Qed.

Theorem la_depth_check_spec d fam :
  la_depth_check d fam = true ->
  (forall p u, In u (strings_of fam p) -> length u <= depth d) /\
  (fam_max_len fam = depth d).
Proof.
  unfold la_depth_check. intros H. apply Nat.eqb_eq in H. split; [|auto].
  intros p u Hu. rewrite H. apply in_entries in Hu. unfold fam_max_len. apply max_len_ge.
  apply in_map_iff. exists (p, u). auto.
Qed.

(** Examples: tokens a=5 b=6 c=7 $=0; family {1: [a $], 2: [a b c]}. *)
Definition ex_fam : family := [ (1%Z, [[5; 0]%N]); (2%Z, [[5; 6; 7]%N]) ].

Example ex_fam_ok : fam_okb ex_fam = true.
Proof. vm_compute. reflexivity. Qed.

Example ex_check_good : la_dfa_check d2_dfa ex_fam [5; 6; 7]%N = true /\ la_depth_check d2_dfa ex_fam = true.
Proof. vm_compute. split; reflexivity. Qed.

(** A wrong automaton (accepts [a c] for production 2 on top) is rejected, … *)
Example ex_check_bad_extra :
  la_dfa_check (mkDfa (-1) [ mkTrans 0 5 1 (-1); mkTrans 1 0 2 1; mkTrans 1 6 3 (-1);
                             mkTrans 1 7 5 2; mkTrans 3 7 4 2 ] 3) ex_fam [5; 6; 7]%N = false.
Proof. vm_compute. reflexivity. Qed.

(** … so is one that lost a string, one that predicts the wrong production, an unsorted one and a
    cyclic one (fuel). *)
Example ex_check_bad_missing :
  la_dfa_check (mkDfa (-1) [ mkTrans 0 5 1 (-1); mkTrans 1 6 3 (-1); mkTrans 3 7 4 2 ] 3)
               ex_fam [5; 6; 7]%N = false.
Proof. vm_compute. reflexivity. Qed.

Example ex_check_bad_prod :
  la_dfa_check (mkDfa (-1) [ mkTrans 0 5 1 (-1); mkTrans 1 0 2 2; mkTrans 1 6 3 (-1); mkTrans 3 7 4 2 ] 3)
               ex_fam [5; 6; 7]%N = false.
Proof. vm_compute. reflexivity. Qed.

Example ex_check_bad_unsorted :
  la_dfa_check (mkDfa (-1) [ mkTrans 0 5 1 (-1); mkTrans 1 6 3 (-1); mkTrans 1 0 2 1; mkTrans 3 7 4 2 ] 3)
               ex_fam [5; 6; 7]%N = false.
Proof. vm_compute. reflexivity. Qed.

Example ex_check_bad_cycle :
  la_dfa_check (mkDfa (-1) [ mkTrans 0 5 1 (-1); mkTrans 1 0 2 1; mkTrans 1 6 3 (-1);
                             mkTrans 3 6 3 (-1); mkTrans 3 7 4 2 ] 3) ex_fam [5; 6; 7]%N = false.
Proof. vm_compute. reflexivity. Qed.

(* ------------------------------------------------------------------------------------------- *)
(** * §3 Faithful model of the generator side *)

Inductive res (A : Type) : Type :=
| Ok (a : A)
| Conflict (p q : Z)   (* unite: bail!("Conflict in union operation detected … p <--> q") *)
| Panic                (* index out of range / unwrap of None *)
| NoAutomaton          (* the non-terminal has no production: no automaton is generated *)
| OutOfFuel.
Arguments Ok {A} a.
Arguments Conflict {A} p q.
Arguments Panic {A}.
Arguments NoAutomaton {A}.
Arguments OutOfFuel {A}.

Definition bind {A B} (x : res A) (f : A -> res B) : res B :=
  match x with
  | Ok a => f a
  | Conflict p q => Conflict p q
  | Panic => Panic
  | NoAutomaton => NoAutomaton
  | OutOfFuel => OutOfFuel
  end.

Fixpoint fold_res {A B} (f : A -> B -> res A) (l : list B) (a : A) : res A :=
  match l with
  | [] => Ok a
  | b :: l' => bind (f a b) (fold_res f l')
  end.

(** [BTreeMap<StateIndex, BTreeMap<TerminalIndex, StateIndex>>]: association lists kept in key
    order (iteration order of a B-tree map), insertion replaces. *)
Definition groups := list (N * list (N * N)).

Fixpoint inner_insert (c t : N) (l : list (N * N)) : list (N * N) :=
  match l with
  | [] => [(c, t)]
  | x :: l' => if N.ltb c (fst x) then (c, t) :: l
               else if N.eqb c (fst x) then (c, t) :: l'
               else x :: inner_insert c t l'
  end.

(** [transitions.get_mut(&from).unwrap().insert(c, t)] if the inner map exists, otherwise
    [transitions.insert(from, {c -> t})]. *)
Fixpoint grp_insert (f c t : N) (gs : groups) : groups :=
  match gs with
  | [] => [(f, [(c, t)])]
  | g :: gs' => if N.ltb f (fst g) then (f, [(c, t)]) :: gs
                else if N.eqb f (fst g) then (fst g, inner_insert c t (snd g)) :: gs'
                else g :: grp_insert f c t gs'
  end.

Definition grp_find (f : N) (gs : groups) : option (N * list (N * N)) :=
  find (fun g => N.eqb (fst g) f) gs.
Definition inner_find (c : N) (l : list (N * N)) : option (N * N) :=
  find (fun e => N.eqb (fst e) c) l.

(** [LookaheadDFA]: [la_states] holds the [prod_num] of state [i] at position [i] (the [id] field
    always equals the index). *)
Record ladfa := mkLa { la_states : list Z; la_trans : groups; la_k : nat }.

Inductive tinfo := NoTransition | OtherTransitions | TransitionExists (s : N).

Definition transition_info (d : ladfa) (from tok : N) : tinfo :=
  match grp_find from (la_trans d) with
  | None => NoTransition
  | Some g => match inner_find tok (snd g) with
              | Some e => TransitionExists (snd e)
              | None => OtherTransitions
              end
  end.

(** [new_state] followed by the insertion of the transition. *)
Definition add_new (d : ladfa) (from tok : N) : ladfa * N :=
  let t := N.of_nat (length (la_states d)) in
  (mkLa (la_states d ++ [INVALID_PROD]) (grp_insert from tok t (la_trans d)) (la_k d), t).

Definition add_transition (d : ladfa) (from tok : N) : ladfa * N :=
  match transition_info d from tok with
  | TransitionExists t => (d, t)
  | OtherTransitions => add_new d from tok
  | NoTransition => add_new d from tok
  end.

Fixpoint add_path (d : ladfa) (s : N) (u : list N) : ladfa * N :=
  match u with
  | [] => (d, s)
  | c :: u' => let (d', s') := add_transition d s c in add_path d' s' u'
  end.

Fixpoint upd_nth {A} (n : nat) (x : A) (l : list A) : option (list A) :=
  match l, n with
  | [], _ => None
  | _ :: l', O => Some (x :: l')
  | y :: l', S n' => match upd_nth n' x l' with Some r => Some (y :: r) | None => None end
  end.

(** [self.states[s].prod_num = p] (also [coin_state]). *)
Definition set_prod (d : ladfa) (s : N) (p : Z) : res ladfa :=
  match upd_nth (N.to_nat s) p (la_states d) with
  | Some st => Ok (mkLa st (la_trans d) (la_k d))
  | None => Panic
  end.

(** Body of the loop of [from_k_tuples] for one k-tuple.  An epsilon/empty tuple is the empty
    string here (no transition is added, [k] is not raised). *)
Definition add_string (p : Z) (d : ladfa) (u : list N) : res ladfa :=
  let (d1, s) := add_path d 0%N u in
  set_prod (mkLa (la_states d1) (la_trans d1) (Nat.max (la_k d1) (length u))) s p.

(** [us] are the k-tuples in the order of [KTuples::sorted()] (the theorems hold for any order). *)
Definition from_k_tuples (us : list (list N)) (p : Z) : res ladfa :=
  fold_res (add_string p) us
           (mkLa [match us with [] => p | _ => INVALID_PROD end] [] 0).

(** ** [unite] *)
Definition smap := list (N * N).   (* state_mapping; never iterated, only get/insert *)
Definition m_get (m : smap) (k : N) : option N :=
  match find (fun e => N.eqb (fst e) k) m with Some e => Some (snd e) | None => None end.

Record ust := mkUst { u_r : ladfa; u_m : smap; u_changed : bool }.

(** Body of the inner loop [for (terminal, to_state) in tr.1]; [rsi] = [result_state_index]. *)
Definition unite_edge (other : ladfa) (rsi : N) (st : ust) (e : N * N) : res ust :=
  let (r1, rs) := add_transition (u_r st) rsi (fst e) in
  let m1 := (snd e, rs) :: u_m st in
  match m_get (u_m st) (snd e) with
  | Some _ => Ok (mkUst r1 m1 (u_changed st))
  | None =>
      match nth_error (la_states other) (N.to_nat (snd e)), nth_error (la_states r1) (N.to_nat rs) with
      | Some op, Some rp =>
          if valid op && valid rp && negb (Z.eqb op rp) then Conflict rp op
          else bind (set_prod r1 rs op) (fun r2 => Ok (mkUst r2 m1 true))
      | _, _ => Panic
      end
  end.

Definition unite_group (other : ladfa) (st : ust) (g : N * list (N * N)) : res ust :=
  match m_get (u_m st) (fst g) with
  | None => Ok st
  | Some rsi => fold_res (unite_edge other rsi) (snd g) st
  end.

Definition unite_pass (other : ladfa) (st : ust) : res ust :=
  fold_res (unite_group other) (la_trans other) st.

Fixpoint unite_loop (fuel : nat) (other : ladfa) (r : ladfa) (m : smap) : res ladfa :=
  match fuel with
  | O => OutOfFuel
  | S f => bind (unite_pass other (mkUst r m false))
                (fun st => if u_changed st then unite_loop f other (u_r st) (u_m st)
                           else Ok (u_r st))
  end.

(** [unite] as it was at the pinned commit: the lookahead size [k] of [self] is kept.
    Fuel: every pass that reports a change has mapped at least one more state of [other]. *)
Definition unite_old (self other : ladfa) : res ladfa :=
  unite_loop (S (length (la_states other))) other self [(0%N, 0%N)].

(** [unite] after the repair (commit 06830b1): [this.k = max(this.k, other.k)] first. *)
Definition unite (self other : ladfa) : res ladfa :=
  unite_old (mkLa (la_states self) (la_trans self) (Nat.max (la_k self) (la_k other))) other.

(** ** [calculate_lookahead_dfas], restricted to the productions of one non-terminal (they are
    visited in ascending production number = the order of [fam]). *)
Fixpoint unite_all (acc : ladfa) (fam : family) : res ladfa :=
  match fam with
  | [] => Ok acc
  | e :: fam' => bind (from_k_tuples (snd e) (fst e))
                      (fun d => bind (unite acc d) (fun a => unite_all a fam'))
  end.

Definition la_of_family (fam : family) : res ladfa :=
  match fam with
  | [] => NoAutomaton
  | e :: fam' => bind (from_k_tuples (snd e) (fst e)) (fun d => unite_all d fam')
  end.

(** The same with the pinned commit's [unite] (only used for the finding in §5). *)
Fixpoint unite_all_old (acc : ladfa) (fam : family) : res ladfa :=
  match fam with
  | [] => Ok acc
  | e :: fam' => bind (from_k_tuples (snd e) (fst e))
                      (fun d => bind (unite_old acc d) (fun a => unite_all_old a fam'))
  end.

Definition la_of_family_old (fam : family) : res ladfa :=
  match fam with
  | [] => NoAutomaton
  | e :: fam' => bind (from_k_tuples (snd e) (fst e)) (fun d => unite_all_old d fam')
  end.

(** ** [CompiledDFA::from_lookahead_dfa], up to (excluding) the call of [minimize] *)
Definition state_prod (d : ladfa) (s : N) : Z :=
  match nth_error (la_states d) (N.to_nat s) with
  | Some p => if valid p then p else INVALID_PROD
  | None => INVALID_PROD
  end.

(** [transitions.sort_by(|a, b| a.term.partial_cmp(&b.term).unwrap())] — stable. *)
Fixpoint ins_term (x : N * N) (l : list (N * N)) : list (N * N) :=
  match l with
  | [] => [x]
  | y :: l' => if N.leb (fst x) (fst y) then x :: l else y :: ins_term x l'
  end.
Definition sort_term (l : list (N * N)) : list (N * N) := fold_right ins_term [] l.

Definition conv_group (d : ladfa) (g : N * list (N * N)) : list trans :=
  map (fun e => mkTrans (fst g) (fst e) (snd e) (state_prod d (snd e))) (sort_term (snd g)).

Definition compile_raw (d : ladfa) : dfa :=
  mkDfa (state_prod d 0%N) (flat_map (conv_group d) (la_trans d)) (la_k d).

(** The un-minimised compiled automaton of a family. *)
Definition compile (fam : family) : res dfa := bind (la_of_family fam) (fun d => Ok (compile_raw d)).

Definition compile_old (fam : family) : res dfa :=
  bind (la_of_family_old fam) (fun d => Ok (compile_raw d)).

Example ex_compile : compile ex_fam = Ok d2_dfa.
Proof. vm_compute. reflexivity. Qed.

(* ------------------------------------------------------------------------------------------- *)
(** * §4 Proofs *)

(** ** The nested maps *)
Definition tr_get (gs : groups) (f c : N) : option N :=
  match grp_find f gs with
  | Some g => match inner_find c (snd g) with Some e => Some (snd e) | None => None end
  | None => None
  end.

Definition flat (gs : groups) : list (N * N * N) :=
  flat_map (fun g => map (fun e => (fst g, fst e, snd e)) (snd g)) gs.

Definition gs_sorted (gs : groups) : Prop := StronglySorted (fun a b => (fst a < fst b)%N) gs.

Lemma inner_find_insert c t l c' :
  inner_find c' (inner_insert c t l) = if N.eqb c c' then Some (c, t) else inner_find c' l.
Proof.
  unfold inner_find. induction l as [|x l IH]; cbn [inner_insert find fst].
  - destruct (N.eqb c c'); reflexivity.
  - destruct (N.ltb c (fst x)) eqn:L; [cbn [find fst]; destruct (N.eqb c c'); reflexivity|].
    destruct (N.eqb_spec c (fst x)) as [E|E].
    + cbn [find fst]. destruct (N.eqb_spec c c') as [E'|E']; [reflexivity|].
      destruct (N.eqb_spec (fst x) c') as [E2|E2]; [congruence|reflexivity].
    + cbn [find fst]. rewrite IH. destruct (N.eqb_spec (fst x) c') as [E2|E2]; [|reflexivity].
      destruct (N.eqb_spec c c') as [E'|E']; [congruence|reflexivity].
Qed.

Lemma inner_insert_in c t l x : In x (inner_insert c t l) -> x = (c, t) \/ In x l.
Proof.
  induction l as [|y l IH]; cbn [inner_insert]; intros H.
  - destruct H as [<-|[]]. left. reflexivity.
  - destruct (N.ltb c (fst y)); [destruct H as [<-|H]; [left; reflexivity|right; exact H]|].
    destruct (N.eqb c (fst y)).
    + destruct H as [<-|H]; [left; reflexivity|right; right; exact H].
    + destruct H as [<-|H]; [right; left; reflexivity|].
      destruct (IH H) as [->|H']; [left; reflexivity|right; right; exact H'].
Qed.

Lemma grp_find_none_ge f gs :
  Forall (fun b => (f < fst b)%N) gs -> grp_find f gs = None.
Proof.
  intros H. unfold grp_find. apply find_none_intro. intros x Hx. rewrite Forall_forall in H.
  specialize (H x Hx). apply N.eqb_neq. lia.
Qed.

Lemma grp_find_insert f c t gs f' :
  gs_sorted gs ->
  grp_find f' (grp_insert f c t gs) =
  if N.eqb f f'
  then Some (f, inner_insert c t (match grp_find f gs with Some g => snd g | None => [] end))
  else grp_find f' gs.
Proof.
  unfold grp_find. induction gs as [|g gs IH]; intros Hs.
  - cbn [grp_insert find fst snd inner_insert]. destruct (N.eqb f f'); reflexivity.
  - inversion Hs as [|? ? Hs' Hall]; subst. cbn [grp_insert].
    destruct (N.ltb f (fst g)) eqn:L.
    + apply N.ltb_lt in L.
      assert (G : find (fun g0 => N.eqb (fst g0) f) (g :: gs) = None).
      { apply (grp_find_none_ge f (g :: gs)). constructor; [exact L|].
        rewrite Forall_forall in *. intros b Hb. specialize (Hall b Hb). lia. }
      rewrite G. cbn [find fst snd inner_insert]. destruct (N.eqb f f'); reflexivity.
    + destruct (N.eqb_spec f (fst g)) as [E|E].
      * cbn [find fst snd]. rewrite <- E, N.eqb_refl. destruct (N.eqb f f'); reflexivity.
      * cbn [find fst snd]. assert (N.eqb (fst g) f = false) as -> by (apply N.eqb_neq; congruence).
        rewrite (IH Hs'). destruct (N.eqb_spec f f') as [E'|E'].
        -- subst f'. assert (N.eqb (fst g) f = false) as -> by (apply N.eqb_neq; congruence).
           reflexivity.
        -- reflexivity.
Qed.

Lemma tr_get_insert f c t gs f' c' :
  gs_sorted gs ->
  tr_get (grp_insert f c t gs) f' c' =
  if N.eqb f f' && N.eqb c c' then Some t else tr_get gs f' c'.
Proof.
  intros Hs. unfold tr_get. rewrite (grp_find_insert f c t gs f' Hs).
  destruct (N.eqb_spec f f') as [E|E]; cbn [andb]; [|reflexivity]. subst f'.
  cbn [snd]. rewrite inner_find_insert. destruct (N.eqb c c'); [reflexivity|].
  destruct (grp_find f gs); reflexivity.
Qed.

Lemma grp_insert_forall (R : N -> Prop) f c t gs :
  R f -> Forall (fun b => R (fst b)) gs -> Forall (fun b => R (fst b)) (grp_insert f c t gs).
Proof.
  intros Hf. induction gs as [|g gs IH]; intros H; cbn [grp_insert].
  - constructor; [exact Hf|constructor].
  - inversion H as [|? ? Hg H']; subst. destruct (N.ltb f (fst g)).
    + constructor; [exact Hf|exact H].
    + destruct (N.eqb f (fst g)).
      * constructor; [exact Hg|exact H'].
      * constructor; [exact Hg|apply IH; exact H'].
Qed.

Lemma grp_insert_sorted f c t gs : gs_sorted gs -> gs_sorted (grp_insert f c t gs).
Proof.
  unfold gs_sorted. induction gs as [|g gs IH]; intros Hs; cbn [grp_insert].
  - constructor; constructor.
  - inversion Hs as [|? ? Hs' Hall]; subst. destruct (N.ltb f (fst g)) eqn:L.
    + apply N.ltb_lt in L. constructor; [exact Hs|]. constructor; [exact L|].
      rewrite Forall_forall in *. intros b Hb. specialize (Hall b Hb). cbn [fst]. lia.
    + apply N.ltb_ge in L. destruct (N.eqb_spec f (fst g)) as [E|E].
      * constructor; [exact Hs'|exact Hall].
      * constructor; [apply IH; exact Hs'|].
        apply (grp_insert_forall (fun k => (fst g < k)%N)); [lia|exact Hall].
Qed.

Lemma flat_insert_in f c t gs x :
  In x (flat (grp_insert f c t gs)) -> x = (f, c, t) \/ In x (flat gs).
Proof.
  unfold flat. induction gs as [|g gs IH]; cbn [grp_insert flat_map]; intros H.
  - cbn in H. destruct H as [<-|[]]. left. reflexivity.
  - destruct (N.ltb f (fst g)).
    + cbn [flat_map map fst snd app] in H. destruct H as [<-|H]; [left; reflexivity|right; exact H].
    + destruct (N.eqb_spec f (fst g)) as [E|E].
      * cbn [flat_map fst snd] in H. apply in_app_or in H as [H|H].
        -- apply in_map_iff in H as (e & <- & He). apply inner_insert_in in He as [->|He].
           ++ left. cbn [fst snd]. rewrite E. reflexivity.
           ++ right. apply in_or_app. left. apply in_map_iff. exists e. auto.
        -- right. apply in_or_app. right. exact H.
      * cbn [flat_map] in H. apply in_app_or in H as [H|H].
        -- right. apply in_or_app. left. exact H.
        -- destruct (IH H) as [->|H']; [left; reflexivity|right; apply in_or_app; right; exact H'].
Qed.

Lemma tr_get_in gs f c t : tr_get gs f c = Some t -> In (f, c, t) (flat gs).
Proof.
  unfold tr_get, grp_find, inner_find, flat. intros H.
  destruct (find _ gs) as [g|] eqn:G; [|discriminate].
  destruct (find _ (snd g)) as [e|] eqn:E; [|discriminate]. inversion H; subst.
  apply find_some in G as [Gin Gk]. apply find_some in E as [Ein Ek].
  apply N.eqb_eq in Gk. apply N.eqb_eq in Ek. subst.
  apply in_flat_map. exists g. split; [exact Gin|]. apply in_map_iff. exists e. auto.
Qed.

Lemma flat_in_group gs f c t :
  In (f, c, t) (flat gs) -> exists g, In g gs /\ fst g = f /\ In (c, t) (snd g).
Proof.
  unfold flat. intros H. apply in_flat_map in H as (g & Hg & H).
  apply in_map_iff in H as (e & E & He). inversion E; subst. exists g.
  split; [exact Hg|]. split; [reflexivity|]. destruct e; exact He.
Qed.

(** ** Ghost labelling of states by the string that leads to them *)
Definition npath (paths : list (list N)) (s : N) : option (list N) := nth_error paths (N.to_nat s).

Record tinv (n : nat) (gs : groups) (paths : list (list N)) : Prop := {
  ti_len : length paths = n;
  ti_root : nth_error paths 0 = Some [];
  ti_nodup : NoDup paths;
  ti_sorted : gs_sorted gs;
  ti_sound : forall f c t, In (f, c, t) (flat gs) ->
             exists w, npath paths f = Some w /\ npath paths t = Some (w ++ [c]);
  ti_complete : forall t w c, npath paths t = Some (w ++ [c]) ->
             exists f, npath paths f = Some w /\ tr_get gs f c = Some t }.

Lemma NoDup_snoc {A} (l : list A) x : NoDup l -> ~ In x l -> NoDup (l ++ [x]).
Proof.
  induction l as [|a l IH]; intros Hn Hx; cbn [app].
  - constructor; [intros []|constructor].
  - inversion Hn as [|? ? Ha Hn']; subst. constructor.
    + intros H. apply in_app_or in H as [H|[<-|[]]]; [exact (Ha H)|]. apply Hx. left. reflexivity.
    + apply IH; [exact Hn'|]. intros H. apply Hx. right. exact H.
Qed.

Lemma npath_inj paths a b w :
  NoDup paths -> npath paths a = Some w -> npath paths b = Some w -> a = b.
Proof.
  unfold npath. intros Hn Ha Hb. apply N2Nat.inj.
  apply (proj1 (NoDup_nth_error paths) Hn).
  - apply nth_error_Some. rewrite Ha. discriminate.
  - rewrite Ha, Hb. reflexivity.
Qed.

Lemma npath_app paths e s w : npath paths s = Some w -> npath (paths ++ e) s = Some w.
Proof.
  unfold npath. intros H. rewrite nth_error_app1; [exact H|].
  apply nth_error_Some. rewrite H. discriminate.
Qed.

Lemma npath_lt paths s w : npath paths s = Some w -> N.to_nat s < length paths.
Proof. unfold npath. intros H. apply nth_error_Some. rewrite H. discriminate. Qed.

Lemma npath_in paths s w : npath paths s = Some w -> In w paths.
Proof. unfold npath. apply nth_error_In. Qed.

Lemma in_npath paths w : In w paths -> exists s, npath paths s = Some w.
Proof.
  intros H. apply In_nth_error in H as (n & H). exists (N.of_nat n). unfold npath.
  rewrite Nat2N.id. exact H.
Qed.

Lemma tinv_det n gs paths f c t :
  tinv n gs paths -> In (f, c, t) (flat gs) -> tr_get gs f c = Some t.
Proof.
  intros I H. destruct (ti_sound _ _ _ I _ _ _ H) as (w & Hf & Ht).
  destruct (ti_complete _ _ _ I _ _ _ Ht) as (f' & Hf' & G).
  rewrite (npath_inj _ _ _ _ (ti_nodup _ _ _ I) Hf Hf'). exact G.
Qed.

Lemma transition_info_get d f c :
  transition_info d f c = match tr_get (la_trans d) f c with
                          | Some t => TransitionExists t
                          | None => match grp_find f (la_trans d) with
                                    | Some _ => OtherTransitions | None => NoTransition end
                          end.
Proof.
  unfold transition_info, tr_get. destruct (grp_find f (la_trans d)) as [g|]; [|reflexivity].
  destruct (inner_find c (snd g)); reflexivity.
Qed.

Lemma add_transition_cases d f c :
  (exists t, tr_get (la_trans d) f c = Some t /\ add_transition d f c = (d, t)) \/
  (tr_get (la_trans d) f c = None /\ add_transition d f c = add_new d f c).
Proof.
  unfold add_transition. rewrite transition_info_get.
  destruct (tr_get (la_trans d) f c) as [t|]; [left; eauto|right].
  destruct (grp_find f (la_trans d)); auto.
Qed.

Lemma add_transition_inv d paths f c w d' t :
  tinv (length (la_states d)) (la_trans d) paths -> npath paths f = Some w ->
  add_transition d f c = (d', t) ->
  exists e, tinv (length (la_states d')) (la_trans d') (paths ++ e) /\
            la_states d' = la_states d ++ repeat INVALID_PROD (length e) /\
            la_k d' = la_k d /\
            npath (paths ++ e) t = Some (w ++ [c]) /\
            (forall x, In x e -> x = w ++ [c]).
Proof.
  intros I Hf H. destruct (add_transition_cases d f c) as [(t0 & G & E)|(G & E)]; rewrite E in H.
  - inversion H; subst. exists []. cbn [repeat length]. rewrite !app_nil_r.
    split; [exact I|]. split; [reflexivity|]. split; [reflexivity|]. split; [|intros x []].
    apply tr_get_in in G. destruct (ti_sound _ _ _ I _ _ _ G) as (w' & Hf' & Ht).
    rewrite Hf in Hf'. inversion Hf'; subst. exact Ht.
  - unfold add_new in H. inversion H; subst. clear H. cbn [la_states la_trans la_k].
    exists [w ++ [c]]. cbn [length repeat].
    assert (Hfresh : ~ In (w ++ [c]) paths).
    { intros Hin. apply in_npath in Hin as (t0 & Ht0).
      destruct (ti_complete _ _ _ I _ _ _ Ht0) as (f' & Hf' & G').
      rewrite (npath_inj _ _ _ _ (ti_nodup _ _ _ I) Hf' Hf) in G'. congruence. }
    assert (Hlen := ti_len _ _ _ I).
    assert (Hnew : npath (paths ++ [w ++ [c]]) (N.of_nat (length (la_states d))) = Some (w ++ [c])).
    { unfold npath. rewrite Nat2N.id, <- Hlen, nth_error_app2 by lia.
      rewrite Nat.sub_diag. reflexivity. }
    split; [|split; [reflexivity|split; [reflexivity|split; [exact Hnew|]]]].
    + constructor.
      * rewrite !app_length. cbn [length]. lia.
      * rewrite nth_error_app1; [apply (ti_root _ _ _ I)|].
        apply nth_error_Some. rewrite (ti_root _ _ _ I). discriminate.
      * apply NoDup_snoc; [apply (ti_nodup _ _ _ I)|exact Hfresh].
      * apply grp_insert_sorted. apply (ti_sorted _ _ _ I).
      * intros f' c' t' Hin. apply flat_insert_in in Hin as [E'|Hin].
        -- inversion E'; subst. exists w. split; [apply npath_app; exact Hf|exact Hnew].
        -- destruct (ti_sound _ _ _ I _ _ _ Hin) as (w' & A & B). exists w'.
           split; apply npath_app; assumption.
      * intros t' w' c' Ht'. unfold npath in Ht'.
        destruct (Nat.lt_ge_cases (N.to_nat t') (length paths)) as [L|L].
        -- rewrite nth_error_app1 in Ht' by exact L.
           destruct (ti_complete _ _ _ I _ _ _ Ht') as (f' & Hf' & G'). exists f'.
           split; [apply npath_app; exact Hf'|].
           rewrite tr_get_insert by apply (ti_sorted _ _ _ I).
           destruct (N.eqb_spec f f') as [Ef|Ef]; [|exact G'].
           destruct (N.eqb_spec c c') as [Ec|Ec]; [|exact G']. subst. congruence.
        -- rewrite nth_error_app2 in Ht' by exact L.
           destruct (N.to_nat t' - length paths) as [|k] eqn:Ek; [|destruct k; discriminate].
           cbn in Ht'. inversion Ht' as [E']. apply app_inj_tail in E' as [-> ->].
           exists f. split; [apply npath_app; exact Hf|].
           rewrite tr_get_insert by apply (ti_sorted _ _ _ I).
           rewrite !N.eqb_refl. cbn [andb].
           f_equal. rewrite <- Hlen. apply N2Nat.inj. rewrite Nat2N.id. lia.
    + intros x [<-|[]]. reflexivity.
Qed.

Lemma add_path_inv : forall u d paths s w d' s',
  tinv (length (la_states d)) (la_trans d) paths -> npath paths s = Some w ->
  add_path d s u = (d', s') ->
  exists e, tinv (length (la_states d')) (la_trans d') (paths ++ e) /\
            la_states d' = la_states d ++ repeat INVALID_PROD (length e) /\
            la_k d' = la_k d /\
            npath (paths ++ e) s' = Some (w ++ u) /\
            (forall x, In x e -> exists v r, u = v ++ r /\ x = w ++ v) /\
            (forall v r, u = v ++ r -> In (w ++ v) (paths ++ e)).
Proof.
  induction u as [|c u IH]; intros d paths s w d' s' I Hs H.
  - cbn [add_path] in H. inversion H; subst. exists []. cbn [length repeat]. rewrite !app_nil_r.
    split; [exact I|]. split; [reflexivity|]. split; [reflexivity|]. split; [exact Hs|].
    split; [intros x []|]. intros v r E. symmetry in E. apply app_eq_nil in E as [-> _].
    rewrite app_nil_r. apply (npath_in _ _ _ Hs).
  - cbn [add_path] in H. destruct (add_transition d s c) as [d1 s1] eqn:AT.
    destruct (add_transition_inv _ _ _ _ _ _ _ I Hs AT) as (e1 & I1 & St1 & K1 & P1 & X1).
    destruct (IH _ _ _ _ _ _ I1 P1 H) as (e2 & I2 & St2 & K2 & P2 & X2 & Y2).
    exists (e1 ++ e2). rewrite app_assoc.
    split; [exact I2|]. split.
    { rewrite St2, St1, <- app_assoc, <- repeat_app, app_length. reflexivity. }
    split; [congruence|]. split.
    { rewrite P2, <- app_assoc. reflexivity. }
    split.
    + intros x Hx. apply in_app_or in Hx as [Hx|Hx].
      * exists [c], u. split; [reflexivity|apply X1; exact Hx].
      * destruct (X2 x Hx) as (v & r & -> & ->). exists (c :: v), r.
        split; [reflexivity|]. rewrite <- app_assoc. reflexivity.
    + intros v r E. destruct v as [|c' v].
      * rewrite app_nil_r. apply in_or_app. left. apply in_or_app. left. apply (npath_in _ _ _ Hs).
      * cbn [app] in E. inversion E; subst.
        specialize (Y2 v r eq_refl). rewrite <- app_assoc in Y2. exact Y2.
Qed.

Lemma upd_nth_some {A} (x : A) : forall l n, n < length l ->
  exists l', upd_nth n x l = Some l' /\ length l' = length l /\ nth_error l' n = Some x /\
             forall m, m <> n -> nth_error l' m = nth_error l m.
Proof.
  induction l as [|y l IH]; intros n Hn; [cbn in Hn; lia|]. destruct n as [|n].
  - exists (x :: l). cbn [upd_nth]. split; [reflexivity|]. split; [reflexivity|].
    split; [reflexivity|]. intros [|m] Hm; [lia|reflexivity].
  - cbn [length] in Hn. destruct (IH n ltac:(lia)) as (l' & E & L & HA & HB).
    exists (y :: l'). cbn [upd_nth]. rewrite E. split; [reflexivity|].
    split; [cbn [length]; lia|]. split; [exact HA|]. intros [|m] Hm; [reflexivity|].
    cbn [nth_error]. apply HB. lia.
Qed.

Lemma nth_error_repeat {A} (x y : A) n i : nth_error (repeat x n) i = Some y -> y = x.
Proof. intros H. apply nth_error_In in H. apply repeat_spec in H. exact H. Qed.

(** The labelled language of a trie automaton: pairs (string, production) of accepting states. *)
Definition la_lang (states : list Z) (paths : list (list N)) (w : list N) (q : Z) : Prop :=
  exists s, nth_error paths s = Some w /\ nth_error states s = Some q /\ valid q = true.

Lemma invalid_not_valid : valid INVALID_PROD = false.
Proof. reflexivity. Qed.

Lemma add_string_spec p d paths u :
  tinv (length (la_states d)) (la_trans d) paths -> valid p = true ->
  exists d' e, add_string p d u = Ok d' /\
     tinv (length (la_states d')) (la_trans d') (paths ++ e) /\
     (forall x, In x e -> prefix x u) /\
     (forall x, prefix x u -> In x (paths ++ e)) /\
     (forall w q, la_lang (la_states d') (paths ++ e) w q <->
                  (w = u /\ q = p) \/ (w <> u /\ la_lang (la_states d) paths w q)) /\
     la_k d' = Nat.max (la_k d) (length u).
Proof.
  intros I Vp. unfold add_string. destruct (add_path d 0%N u) as [d1 s] eqn:AP.
  assert (H0 : npath paths 0%N = Some []) by (apply (ti_root _ _ _ I)).
  destruct (add_path_inv _ _ _ _ _ _ _ I H0 AP) as (e & I1 & St1 & K1 & P1 & X1 & Y1).
  cbn [app] in P1. unfold set_prod. cbn [la_states la_trans la_k].
  assert (Hlt : N.to_nat s < length (la_states d1)).
  { rewrite <- (ti_len _ _ _ I1). apply (npath_lt _ _ _ P1). }
  destruct (upd_nth_some p _ _ Hlt) as (st' & E & L & A & B). rewrite E.
  eexists. exists e. split; [reflexivity|]. cbn [la_states la_trans la_k].
  split; [rewrite L; exact I1|]. split.
  { intros x Hx. destruct (X1 x Hx) as (v & r & -> & ->). exists r. reflexivity. }
  split.
  { intros x (r & ->). apply (Y1 x r eq_refl). }
  split; [|rewrite K1; reflexivity].
  assert (Hlenp : length paths = length (la_states d)) by apply (ti_len _ _ _ I).
  intros w q. split.
  - intros (i & Hp & Hq & Vq). destruct (Nat.eq_dec i (N.to_nat s)) as [->|Ne].
    + left. unfold npath in P1. rewrite P1 in Hp. rewrite A in Hq. split; congruence.
    + right. rewrite (B i Ne), St1 in Hq.
      destruct (Nat.lt_ge_cases i (length (la_states d))) as [Li|Li].
      * rewrite nth_error_app1 in Hq by exact Li. rewrite nth_error_app1 in Hp by lia.
        split.
        -- intros ->. apply Ne. apply (proj1 (NoDup_nth_error (paths ++ e)) (ti_nodup _ _ _ I1)).
           ++ rewrite app_length. lia.
           ++ rewrite nth_error_app1 by lia. rewrite Hp. symmetry. exact P1.
        -- exists i. auto.
      * rewrite nth_error_app2 in Hq by exact Li. apply nth_error_repeat in Hq. subst q.
        discriminate.
  - intros [[-> ->]|(Ne & i & Hp & Hq & Vq)].
    + exists (N.to_nat s). split; [exact P1|]. split; [exact A|exact Vp].
    + assert (Li : i < length paths) by (apply nth_error_Some; rewrite Hp; discriminate).
      exists i. split; [rewrite nth_error_app1 by exact Li; exact Hp|]. split; [|exact Vq].
      rewrite B.
      * rewrite St1, nth_error_app1 by lia. exact Hq.
      * intros ->. unfold npath in P1. rewrite nth_error_app1 in P1 by exact Li. congruence.
Qed.

Lemma add_strings_spec p : valid p = true -> forall us d paths,
  tinv (length (la_states d)) (la_trans d) paths ->
  exists d' e, fold_res (add_string p) us d = Ok d' /\
     tinv (length (la_states d')) (la_trans d') (paths ++ e) /\
     (forall x, In x e -> exists v, In v us /\ prefix x v) /\
     (forall v x, In v us -> prefix x v -> In x (paths ++ e)) /\
     (forall w q, la_lang (la_states d') (paths ++ e) w q <->
                  (In w us /\ q = p) \/ (~ In w us /\ la_lang (la_states d) paths w q)) /\
     la_k d' = Nat.max (la_k d) (max_len us).
Proof.
  intros Vp. induction us as [|u us IH]; intros d paths I.
  - exists d, []. cbn [fold_res]. rewrite app_nil_r. split; [reflexivity|]. split; [exact I|].
    split; [intros x []|]. split; [intros v x []|]. split; [|cbn; lia].
    intros w q. split; [intros H; right; split; [intros []|exact H]|].
    intros [[[] _]|[_ H]]. exact H.
  - destruct (add_string_spec p d paths u I Vp) as (d1 & e1 & E1 & I1 & X1 & Y1 & L1 & K1).
    destruct (IH d1 (paths ++ e1) I1) as (d' & e2 & E2 & I2 & X2 & Y2 & L2 & K2).
    exists d', (e1 ++ e2). cbn [fold_res]. rewrite E1. cbn [bind]. rewrite app_assoc.
    split; [exact E2|]. split; [exact I2|]. split.
    { intros x Hx. apply in_app_or in Hx as [Hx|Hx].
      - exists u. split; [left; reflexivity|apply X1; exact Hx].
      - destruct (X2 x Hx) as (v & Hv & Hp). exists v. split; [right; exact Hv|exact Hp]. }
    split.
    { intros v x [<-|Hv] Hp.
      - apply in_or_app. left. apply Y1. exact Hp.
      - apply (Y2 v x Hv Hp). }
    split; [|rewrite K2, K1; cbn [max_len fold_right]; fold (max_len us); lia].
    intros w q. rewrite L2, L1. cbn [In].
    assert (HA : In w us \/ ~ In w us).
    { destruct (mem_str w us) eqn:M; [left; apply mem_str_spec; exact M|right].
      intros H. apply mem_str_spec in H. congruence. }
    assert (HB := str_eq_dec w u).
    assert (HS : u = w <-> w = u) by (split; congruence).
    tauto.
Qed.

Lemma tinv_init : tinv 1 [] [[]].
Proof.
  constructor.
  - reflexivity.
  - reflexivity.
  - constructor; [intros []|constructor].
  - constructor.
  - intros f c t [].
  - intros t w c H. unfold npath in H. destruct (N.to_nat t) as [|[|n]]; cbn in H.
    + inversion H as [E]. destruct w; discriminate.
    + discriminate.
    + discriminate.
Qed.

Lemma from_k_tuples_spec us p : us <> [] -> valid p = true ->
  exists d paths, from_k_tuples us p = Ok d /\
    tinv (length (la_states d)) (la_trans d) paths /\
    (forall x, In x paths -> x = [] \/ exists v, In v us /\ prefix x v) /\
    (forall v x, In v us -> prefix x v -> In x paths) /\
    (forall w q, la_lang (la_states d) paths w q <-> In w us /\ q = p) /\
    la_k d = max_len us.
Proof.
  intros Hne Vp. unfold from_k_tuples.
  assert (E0 : match us with [] => p | _ => INVALID_PROD end = INVALID_PROD)
    by (destruct us; [congruence|reflexivity]).
  rewrite E0.
  destruct (add_strings_spec p Vp us (mkLa [INVALID_PROD] [] 0) [[]] tinv_init)
    as (d' & e & E & I & X & Y & L & K).
  exists d', ([[]] ++ e). split; [exact E|]. split; [exact I|]. split.
  { intros x Hx. apply in_app_or in Hx as [[<-|[]]|Hx]; [left; reflexivity|right; apply X; exact Hx]. }
  split; [exact Y|]. split; [|rewrite K; cbn [la_k]; lia].
  intros w q. rewrite L. cbn [la_states]. split.
  - intros [H|[_ (s & Hs & Hq & Vq)]]; [exact H|].
    destruct s as [|[|s]]; cbn in Hq; try discriminate. inversion Hq; subst. discriminate.
  - intros H. left. exact H.
Qed.

(** ** [unite] *)
Lemma m_get_cons t rs m k : m_get ((t, rs) :: m) k = if N.eqb t k then Some rs else m_get m k.
Proof. unfold m_get. cbn [find fst snd]. destruct (N.eqb t k); reflexivity. Qed.

Lemma filter_length_le {A} (f g : A -> bool) l :
  (forall x, In x l -> g x = true -> f x = true) -> length (filter g l) <= length (filter f l).
Proof.
  induction l as [|a l IH]; intros H; [reflexivity|]. cbn [filter].
  assert (IH' := IH (fun x Hx => H x (or_intror Hx))).
  destruct (g a) eqn:G.
  - rewrite (H a (or_introl eq_refl) G). cbn [length]. lia.
  - destruct (f a); cbn [length]; lia.
Qed.

Lemma filter_length_lt {A} (f g : A -> bool) l x :
  (forall y, In y l -> g y = true -> f y = true) -> In x l -> f x = true -> g x = false ->
  length (filter g l) < length (filter f l).
Proof.
  induction l as [|a l IH]; intros H Hx Fx Gx; [destruct Hx|]. cbn [filter].
  assert (Hle := filter_length_le f g l (fun y Hy => H y (or_intror Hy))).
  destruct Hx as [->|Hx].
  - rewrite Fx, Gx. cbn [length]. lia.
  - assert (IH' := IH (fun y Hy => H y (or_intror Hy)) Hx Fx Gx).
    destruct (g a) eqn:G.
    + rewrite (H a (or_introl eq_refl) G). cbn [length]. lia.
    + destruct (f a); cbn [length]; lia.
Qed.

Lemma filter_len {A} (f : A -> bool) l : length (filter f l) <= length l.
Proof. induction l as [|a l IH]; cbn [filter length]; [lia|]. destruct (f a); cbn [length]; lia. Qed.

Lemma fold_res_ind {A B} (f : A -> B -> res A) (P : A -> Prop) (R : A -> A -> Prop)
      (Q : B -> A -> Prop) :
  (forall a, R a a) -> (forall a b c, R a b -> R b c -> R a c) ->
  (forall b a a', Q b a -> R a a' -> Q b a') ->
  forall l,
  (forall a b, In b l -> P a -> exists a', f a b = Ok a' /\ P a' /\ R a a' /\ Q b a') ->
  forall a, P a ->
  exists a', fold_res f l a = Ok a' /\ P a' /\ R a a' /\ forall b, In b l -> Q b a'.
Proof.
  intros Rrefl Rtrans Qst. induction l as [|b l IH]; intros Hstep a Pa.
  - exists a. cbn [fold_res]. split; [reflexivity|]. split; [exact Pa|]. split; [apply Rrefl|].
    intros b [].
  - destruct (Hstep a b (or_introl eq_refl) Pa) as (a1 & E1 & P1 & R1 & Q1).
    destruct (IH (fun a0 b0 Hb0 => Hstep a0 b0 (or_intror Hb0)) a1 P1) as (a' & E' & P' & R' & Q').
    exists a'. cbn [fold_res]. rewrite E1. cbn [bind]. split; [exact E'|]. split; [exact P'|].
    split; [apply (Rtrans _ _ _ R1 R')|]. intros b0 [<-|Hb0]; [apply (Qst _ _ _ Q1 R')|apply Q'; exact Hb0].
Qed.

Section Unite.
  Variable o : ladfa.
  Variable po : list (list N).
  Hypothesis Io : tinv (length (la_states o)) (la_trans o) po.
  Variable r0 : ladfa.
  Variable p0 : list (list N).
  Hypothesis I0 : tinv (length (la_states r0)) (la_trans r0) p0.
  Hypothesis compat : forall w q q',
    la_lang (la_states r0) p0 w q -> la_lang (la_states o) po w q' -> q = q'.

  Record uinv (r : ladfa) (m : smap) (pr : list (list N)) : Prop := {
    ui_t : tinv (length (la_states r)) (la_trans r) pr;
    ui_ext : exists e, pr = p0 ++ e;
    ui_k : la_k r = la_k r0;
    ui_0 : m_get m 0%N = Some 0%N;
    ui_m : forall t rs, m_get m t = Some rs ->
           exists w, npath po t = Some w /\ npath pr rs = Some w;
    ui_paths : forall x, In x pr -> In x p0 \/ In x po;
    ui_st : forall s w, npath pr s = Some w ->
        (exists t, t <> 0%N /\ m_get m t = Some s /\
                   nth_error (la_states r) (N.to_nat s) = nth_error (la_states o) (N.to_nat t))
        \/ ((forall t, t <> 0%N -> m_get m t <> Some s) /\ npath p0 s = Some w /\
            nth_error (la_states r) (N.to_nat s) = nth_error (la_states r0) (N.to_nat s)) }.

  Definition mu (m : smap) : nat :=
    length (filter (fun k => match m_get m (N.of_nat k) with None => true | Some _ => false end)
                   (seq 0 (length (la_states o)))).

  Definition dom_le (m m' : smap) : Prop := forall k, m_get m k <> None -> m_get m' k <> None.

  Lemma mu_le m m' : dom_le m m' -> mu m' <= mu m.
  Proof.
    intros H. unfold mu. apply filter_length_le. intros k _ Hk.
    destruct (m_get m (N.of_nat k)) eqn:E; [|reflexivity].
    exfalso. assert (D : m_get m' (N.of_nat k) <> None) by (apply H; congruence).
    destruct (m_get m' (N.of_nat k)); [discriminate|congruence].
  Qed.

  Record Rel (st st' : ust) : Prop := {
    rel_dom : dom_le (u_m st) (u_m st');
    rel_ch : u_changed st = true -> u_changed st' = true;
    rel_same : u_changed st' = false -> dom_le (u_m st') (u_m st);
    rel_mu : u_changed st = false -> u_changed st' = true -> mu (u_m st') < mu (u_m st) }.

  Lemma Rel_refl st : Rel st st.
  Proof.
    constructor.
    - intros k H. exact H.
    - intros H. exact H.
    - intros _ k H. exact H.
    - intros H1 H2. congruence.
  Qed.

  Lemma Rel_trans a b c : Rel a b -> Rel b c -> Rel a c.
  Proof.
    intros [D1 C1 S1 M1] [D2 C2 S2 M2]. constructor.
    - intros k H. apply D2, D1, H.
    - intros H. apply C2, C1, H.
    - intros H k Hk. destruct (u_changed b) eqn:Cb; [rewrite (C2 eq_refl) in H; discriminate|].
      apply (S1 eq_refl), (S2 H), Hk.
    - intros Ha Hc. destruct (u_changed b) eqn:Cb.
      + assert (L := mu_le _ _ D2). specialize (M1 Ha eq_refl). lia.
      + assert (L := mu_le _ _ D1). specialize (M2 eq_refl Hc). lia.
  Qed.

  Lemma po_root t : npath po t = Some [] -> t = 0%N.
  Proof.
    intros H. apply (npath_inj po t 0%N [] (ti_nodup _ _ _ Io) H). apply (ti_root _ _ _ Io).
  Qed.

  Lemma nodup_app_absorb (pr e : list (list N)) x :
    NoDup (pr ++ e) -> In x pr -> (forall y, In y e -> y = x) -> e = [].
  Proof.
    intros Hn Hx He. destruct e as [|y e]; [reflexivity|]. exfalso.
    assert (y = x) by (apply He; left; reflexivity). subst y.
    apply NoDup_remove_2 in Hn. apply Hn. apply in_or_app. left. exact Hx.
  Qed.

  Lemma unite_edge_inv r m ch pr f wf rsi c t :
    uinv r m pr -> In (f, c, t) (flat (la_trans o)) ->
    npath po f = Some wf -> npath pr rsi = Some wf ->
    exists st' e, unite_edge o rsi (mkUst r m ch) (c, t) = Ok st' /\
                  uinv (u_r st') (u_m st') (pr ++ e) /\ Rel (mkUst r m ch) st' /\
                  m_get (u_m st') t <> None.
  Proof.
    intros U Hin Hf Hrsi.
    destruct (ti_sound _ _ _ Io _ _ _ Hin) as (w' & Hf' & Ht). rewrite Hf in Hf'.
    inversion Hf'; subst w'. clear Hf'.
    assert (Ht0 : t <> 0%N).
    { intros ->. rewrite (ti_root _ _ _ Io : npath po 0%N = Some []) in Ht.
      inversion Ht as [E]. destruct wf; discriminate. }
    unfold unite_edge. cbn [u_r u_m u_changed fst snd].
    destruct (add_transition r rsi c) as [r1 rs] eqn:AT.
    destruct (add_transition_inv _ _ _ _ _ _ _ (ui_t _ _ _ U) Hrsi AT) as (e & I1 & St1 & K1 & P1 & X1).
    assert (Hnd := ti_nodup _ _ _ I1).
    destruct (m_get m t) as [old|] eqn:Mt.
    - (* already mapped: nothing changes *)
      destruct (ui_m _ _ _ U _ _ Mt) as (w1 & A1 & B1). rewrite Ht in A1. inversion A1; subst w1.
      assert (Ee : e = []).
      { apply (nodup_app_absorb pr e (wf ++ [c]) Hnd (npath_in _ _ _ B1) X1). }
      subst e. cbn [length repeat] in St1. rewrite app_nil_r in *.
      assert (Ers : rs = old) by (apply (npath_inj pr rs old _ Hnd P1 B1)). subst old.
      eexists. exists []. rewrite app_nil_r. split; [reflexivity|]. cbn [u_r u_m u_changed].
      split; [|split].
      + constructor.
        * exact I1.
        * apply (ui_ext _ _ _ U).
        * rewrite K1. apply (ui_k _ _ _ U).
        * rewrite m_get_cons. destruct (N.eqb_spec t 0) as [E|E]; [contradiction|apply (ui_0 _ _ _ U)].
        * intros t' rs'. rewrite m_get_cons. destruct (N.eqb_spec t t') as [E|E].
          -- intros H. inversion H; subst. exists (wf ++ [c]). auto.
          -- apply (ui_m _ _ _ U).
        * apply (ui_paths _ _ _ U).
        * intros s w Hs. rewrite St1. destruct (ui_st _ _ _ U s w Hs) as [(t' & N0 & M' & S')|(NM & P & S')].
          -- left. exists t'. split; [exact N0|]. split; [|exact S'].
             rewrite m_get_cons. destruct (N.eqb_spec t t') as [E|E]; [subst; congruence|exact M'].
          -- right. split; [|auto]. intros t' N0. rewrite m_get_cons.
             destruct (N.eqb_spec t t') as [E|E]; [subst t'; rewrite <- Mt; apply (NM t N0)|apply (NM t' N0)].
      + constructor; cbn [u_m u_changed].
        * intros k. rewrite m_get_cons. destruct (N.eqb t k); [discriminate|auto].
        * auto.
        * intros _ k. rewrite m_get_cons. destruct (N.eqb_spec t k) as [E|E]; [subst; congruence|auto].
        * intros A B. congruence.
      + rewrite m_get_cons, N.eqb_refl. discriminate.
    - (* newly mapped state *)
      assert (Lt : N.to_nat t < length (la_states o)).
      { rewrite <- (ti_len _ _ _ Io). apply (npath_lt _ _ _ Ht). }
      destruct (nth_error (la_states o) (N.to_nat t)) as [op|] eqn:Eop;
        [|apply nth_error_None in Eop; lia].
      assert (Lrs : N.to_nat rs < length (la_states r1)).
      { rewrite <- (ti_len _ _ _ I1). apply (npath_lt _ _ _ P1). }
      destruct (nth_error (la_states r1) (N.to_nat rs)) as [rp|] eqn:Erp;
        [|apply nth_error_None in Erp; lia].
      (* before coining, [rs] is a new state or an untouched state of [r0] *)
      assert (Hrs : N.to_nat rs < length pr ->
                    (forall t', t' <> 0%N -> m_get m t' <> Some rs) /\ npath p0 rs = Some (wf ++ [c]) /\
                    nth_error (la_states r) (N.to_nat rs) = nth_error (la_states r0) (N.to_nat rs)).
      { intros L. assert (Hp : npath pr rs = Some (wf ++ [c])).
        { unfold npath in *. rewrite nth_error_app1 in P1 by exact L. exact P1. }
        destruct (ui_st _ _ _ U rs _ Hp) as [(t' & N0 & M' & S')|H]; [|exact H].
        exfalso. destruct (ui_m _ _ _ U _ _ M') as (w1 & A1 & B1). rewrite Hp in B1.
        inversion B1; subst w1. rewrite (npath_inj po t' t _ (ti_nodup _ _ _ Io) A1 Ht) in M'.
        congruence. }
      assert (Hnoconf : valid op && valid rp && negb (Z.eqb op rp) = false).
      { destruct (valid op) eqn:Vo; [|reflexivity]. destruct (valid rp) eqn:Vr; [|reflexivity].
        cbn [andb]. apply negb_false_iff. apply Z.eqb_eq.
        destruct (Nat.lt_ge_cases (N.to_nat rs) (length pr)) as [L|L].
        - destruct (Hrs L) as (_ & Pp & Ss). symmetry. apply (compat (wf ++ [c]) rp op).
          + exists (N.to_nat rs). split; [exact Pp|]. split; [|exact Vr].
            rewrite <- Ss. rewrite St1, nth_error_app1 in Erp; [exact Erp|].
            rewrite <- (ti_len _ _ _ (ui_t _ _ _ U)). exact L.
          + exists (N.to_nat t). split; [exact Ht|]. split; [exact Eop|exact Vo].
        - rewrite St1, nth_error_app2 in Erp by (rewrite <- (ti_len _ _ _ (ui_t _ _ _ U)); exact L).
          apply nth_error_repeat in Erp. subst rp. discriminate. }
      rewrite Hnoconf. unfold set_prod.
      destruct (upd_nth_some op _ _ Lrs) as (st2 & E2 & L2 & A2 & B2). rewrite E2. cbn [bind].
      eexists. exists e. split; [reflexivity|]. cbn [u_r u_m u_changed la_states la_trans la_k].
      split; [|split].
      + constructor; cbn [la_states la_trans la_k].
        * rewrite L2. exact I1.
        * destruct (ui_ext _ _ _ U) as (e0 & ->). exists (e0 ++ e). rewrite app_assoc. reflexivity.
        * rewrite K1. apply (ui_k _ _ _ U).
        * rewrite m_get_cons. destruct (N.eqb_spec t 0) as [E|E]; [contradiction|apply (ui_0 _ _ _ U)].
        * intros t' rs'. rewrite m_get_cons. destruct (N.eqb_spec t t') as [E|E].
          -- intros H. inversion H; subst. exists (wf ++ [c]). auto.
          -- intros H. destruct (ui_m _ _ _ U _ _ H) as (w1 & A1 & B1). exists w1.
             split; [exact A1|apply npath_app; exact B1].
        * intros x Hx. apply in_app_or in Hx as [Hx|Hx]; [apply (ui_paths _ _ _ U); exact Hx|].
          right. rewrite (X1 x Hx). apply (npath_in _ _ _ Ht).
        * intros s w Hs. destruct (N.eq_dec s rs) as [->|Ne].
          -- left. exists t. split; [exact Ht0|]. split; [rewrite m_get_cons, N.eqb_refl; reflexivity|].
             rewrite A2. symmetry. exact Eop.
          -- assert (Nn : N.to_nat s <> N.to_nat rs) by (intros H; apply Ne, N2Nat.inj, H).
             rewrite (B2 _ Nn).
             assert (L : N.to_nat s < length pr).
             { destruct (Nat.lt_ge_cases (N.to_nat s) (length pr)) as [L|L]; [exact L|exfalso].
               assert (Hs' := Hs). unfold npath in Hs'. rewrite nth_error_app2 in Hs' by exact L.
               apply nth_error_In in Hs'. apply X1 in Hs'. subst w.
               apply Ne. apply (npath_inj (pr ++ e) s rs (wf ++ [c]) Hnd Hs P1). }
             assert (Hsp : npath pr s = Some w).
             { unfold npath in *. rewrite nth_error_app1 in Hs by exact L. exact Hs. }
             rewrite St1, nth_error_app1 by (rewrite <- (ti_len _ _ _ (ui_t _ _ _ U)); exact L).
             destruct (ui_st _ _ _ U s w Hsp) as [(t' & N0 & M' & S')|(NM & P & S')].
             ++ left. exists t'. split; [exact N0|]. split; [|exact S'].
                rewrite m_get_cons. destruct (N.eqb_spec t t') as [E|E]; [subst; congruence|exact M'].
             ++ right. split; [|auto]. intros t' N0. rewrite m_get_cons.
                destruct (N.eqb_spec t t') as [E|E]; [|apply NM; exact N0].
                intros H. inversion H. congruence.
      + constructor; cbn [u_m u_changed].
        * intros k. rewrite m_get_cons. destruct (N.eqb t k); [discriminate|auto].
        * auto.
        * discriminate.
        * intros _ _. unfold mu. apply filter_length_lt with (x := N.to_nat t).
          -- intros k _ Hk. rewrite m_get_cons in Hk.
             destruct (N.eqb t (N.of_nat k)); [discriminate|exact Hk].
          -- apply in_seq. lia.
          -- rewrite N2Nat.id, Mt. reflexivity.
          -- rewrite N2Nat.id, m_get_cons, N.eqb_refl. reflexivity.
      + rewrite m_get_cons, N.eqb_refl. discriminate.
  Qed.

  Definition QE (e : N * N) (st : ust) : Prop := m_get (u_m st) (snd e) <> None.
  Definition QG (g : N * list (N * N)) (st : ust) : Prop :=
    u_changed st = false -> m_get (u_m st) (fst g) <> None ->
    forall e, In e (snd g) -> m_get (u_m st) (snd e) <> None.
  Definition PU (st : ust) : Prop := exists pr, uinv (u_r st) (u_m st) pr.

  Lemma group_in_flat (gs : groups) g e : In g gs -> In e (snd g) -> In (fst g, fst e, snd e) (flat gs).
  Proof.
    intros Hg He. unfold flat. apply in_flat_map. exists g. split; [exact Hg|].
    apply in_map_iff. exists e. auto.
  Qed.

  Lemma unite_group_inv st g :
    PU st -> In g (la_trans o) ->
    exists st', unite_group o st g = Ok st' /\ PU st' /\ Rel st st' /\ QG g st'.
  Proof.
    intros (pr & U) Hg. unfold unite_group. destruct (m_get (u_m st) (fst g)) as [rsi|] eqn:Mf.
    - destruct (ui_m _ _ _ U _ _ Mf) as (wf & Hf & Hrsi).
      destruct (fold_res_ind (unite_edge o rsi)
                  (fun st => exists pr, uinv (u_r st) (u_m st) pr /\ npath pr rsi = Some wf)
                  Rel QE Rel_refl Rel_trans) with (l := snd g) (a := st)
        as (st' & E & (pr' & U' & _) & R' & Q').
      + intros b a a' Hq Hr. unfold QE in *. apply (rel_dom _ _ Hr). exact Hq.
      + intros a [c t] Hb (pra & Ua & Hra). destruct a as [ra ma cha]. cbn [u_r u_m] in *.
        destruct (unite_edge_inv ra ma cha pra (fst g) wf rsi c t Ua
                    (group_in_flat _ g (c, t) Hg Hb) Hf Hra) as (st1 & e & E1 & U1 & R1 & M1).
        exists st1. split; [exact E1|]. split; [exists (pra ++ e); split; [exact U1|apply npath_app; exact Hra]|].
        split; [exact R1|exact M1].
      + exists pr. auto.
      + exists st'. split; [exact E|]. split; [exists pr'; exact U'|]. split; [exact R'|].
        intros _ _ e He. apply (Q' e He).
    - exists st. split; [reflexivity|]. split; [exists pr; exact U|]. split; [apply Rel_refl|].
      intros _ H. congruence.
  Qed.

  Lemma QG_stable g a a' : QG g a -> Rel a a' -> QG g a'.
  Proof.
    intros Hq Hr Hc Hf e He. apply (rel_dom _ _ Hr). apply Hq.
    - destruct (u_changed a) eqn:Ca; [|reflexivity]. rewrite (rel_ch _ _ Hr Ca) in Hc. discriminate.
    - apply (rel_same _ _ Hr Hc). exact Hf.
    - exact He.
  Qed.

  Lemma unite_pass_inv st :
    PU st ->
    exists st', unite_pass o st = Ok st' /\ PU st' /\ Rel st st' /\
      forall g, In g (la_trans o) -> QG g st'.
  Proof.
    intros P. unfold unite_pass.
    apply (fold_res_ind (unite_group o) PU Rel QG Rel_refl Rel_trans QG_stable (la_trans o)); [|exact P].
    intros a g Hg Pa. apply (unite_group_inv a g Pa Hg).
  Qed.

  (** When a pass reports no change every state of [other] is mapped. *)
  Lemma all_mapped m :
    m_get m 0%N = Some 0%N ->
    (forall g, In g (la_trans o) -> QG g (mkUst r0 m false)) ->
    forall w t, npath po t = Some w -> m_get m t <> None.
  Proof.
    intros H0 Hcl. induction w as [|c w IH] using rev_ind; intros t Ht.
    - rewrite (po_root t Ht), H0. discriminate.
    - destruct (ti_complete _ _ _ Io _ _ _ Ht) as (f & Hf & G). apply tr_get_in in G.
      apply flat_in_group in G as (g & Hg & <- & He).
      apply (Hcl g Hg eq_refl (IH _ Hf) (c, t) He).
  Qed.

  Lemma unite_loop_inv : forall fuel r m,
    PU (mkUst r m false) -> mu m < fuel ->
    exists r' m' pr, unite_loop fuel o r m = Ok r' /\ uinv r' m' pr /\
      forall w t, npath po t = Some w -> m_get m' t <> None.
  Proof.
    induction fuel as [|fuel IH]; intros r m P Hmu; [lia|].
    cbn [unite_loop]. destruct (unite_pass_inv _ P) as (st' & E & (pr' & U') & R' & Q').
    rewrite E. cbn [bind]. destruct (u_changed st') eqn:Ch.
    - apply IH; [exists pr'; exact U'|]. assert (L := rel_mu _ _ R' eq_refl Ch). cbn [u_m] in L. lia.
    - exists (u_r st'), (u_m st'), pr'. split; [reflexivity|]. split; [exact U'|].
      apply all_mapped; [apply (ui_0 _ _ _ U')|]. intros g Hg Hc Hf e He. cbn [u_m] in *.
      apply (Q' g Hg Ch Hf e He).
  Qed.

  Lemma uinv_init : uinv r0 [(0%N, 0%N)] p0.
  Proof.
    constructor.
    - exact I0.
    - exists []. rewrite app_nil_r. reflexivity.
    - reflexivity.
    - reflexivity.
    - intros t rs. rewrite m_get_cons. destruct (N.eqb_spec 0 t) as [<-|E]; [|discriminate].
      intros H. inversion H; subst. exists []. split; [apply (ti_root _ _ _ Io)|apply (ti_root _ _ _ I0)].
    - intros x Hx. left. exact Hx.
    - intros s w Hs. right. split; [|auto]. intros t Ht. rewrite m_get_cons.
      destruct (N.eqb_spec 0 t) as [E|E]; [congruence|discriminate].
  Qed.

  Lemma la_lang_N states paths w q :
    la_lang states paths w q <->
    exists s : N, npath paths s = Some w /\ nth_error states (N.to_nat s) = Some q /\ valid q = true.
  Proof.
    unfold la_lang, npath. split.
    - intros (i & A & B & C). exists (N.of_nat i). rewrite Nat2N.id. auto.
    - intros (s & A & B & C). exists (N.to_nat s). auto.
  Qed.

  Theorem unite_old_spec :
    exists r pr, unite_old r0 o = Ok r /\ tinv (length (la_states r)) (la_trans r) pr /\
      (forall x, In x pr <-> In x p0 \/ In x po) /\
      (forall w q, la_lang (la_states r) pr w q <->
                   (w <> [] /\ la_lang (la_states o) po w q) \/
                   ((w = [] \/ ~ In w po) /\ la_lang (la_states r0) p0 w q)) /\
      la_k r = la_k r0.
  Proof.
    unfold unite_old.
    destruct (unite_loop_inv (S (length (la_states o))) r0 [(0%N, 0%N)]) as (r & m & pr & E & U & AM).
    { exists p0. apply uinv_init. }
    { unfold mu. assert (L := filter_len
        (fun k => match m_get [(0%N, 0%N)] (N.of_nat k) with None => true | Some _ => false end)
        (seq 0 (length (la_states o)))).
      rewrite seq_length in L. lia. }
    exists r, pr. split; [exact E|]. split; [apply (ui_t _ _ _ U)|].
    assert (Hndr := ti_nodup _ _ _ (ui_t _ _ _ U)).
    assert (Hndo := ti_nodup _ _ _ Io).
    split; [|split; [|apply (ui_k _ _ _ U)]].
    - intros x. split; [apply (ui_paths _ _ _ U)|]. intros [Hx|Hx].
      + destruct (ui_ext _ _ _ U) as (e & ->). apply in_or_app. left. exact Hx.
      + apply in_npath in Hx as (t & Ht). destruct (m_get m t) as [rs|] eqn:Mt; [|exfalso; apply (AM _ _ Ht Mt)].
        destruct (ui_m _ _ _ U _ _ Mt) as (w1 & A1 & B1). rewrite Ht in A1. inversion A1; subst.
        apply (npath_in _ _ _ B1).
    - intros w q. rewrite !la_lang_N. split.
      + intros (s & Hs & Hq & Vq). destruct (ui_st _ _ _ U s w Hs) as [(t & N0 & M' & S')|(NM & P & S')].
        * left. destruct (ui_m _ _ _ U _ _ M') as (w1 & A1 & B1). rewrite Hs in B1. inversion B1; subst w1.
          split; [intros ->; apply N0, po_root, A1|]. exists t. split; [exact A1|]. split; [congruence|exact Vq].
        * right. split; [|exists s; split; [exact P|split; [congruence|exact Vq]]].
          destruct w as [|a w]; [left; reflexivity|right]. intros Hin.
          apply in_npath in Hin as (t & Ht).
          destruct (m_get m t) as [rs|] eqn:Mt; [|apply (AM _ _ Ht Mt)].
          destruct (ui_m _ _ _ U _ _ Mt) as (w1 & A1 & B1). rewrite Ht in A1. inversion A1; subst w1.
          rewrite (npath_inj pr rs s _ Hndr B1 Hs) in Mt. apply (NM t); [|exact Mt].
          intros ->. rewrite (ti_root _ _ _ Io : npath po 0%N = Some []) in Ht. discriminate.
      + intros [(Hne & t & Ht & Hq & Vq)|(Hw & s & Hs & Hq & Vq)].
        * destruct (m_get m t) as [rs|] eqn:Mt; [|exfalso; apply (AM _ _ Ht Mt)].
          destruct (ui_m _ _ _ U _ _ Mt) as (w1 & A1 & B1). rewrite Ht in A1. inversion A1; subst w1.
          exists rs. split; [exact B1|]. split; [|exact Vq].
          destruct (ui_st _ _ _ U rs w B1) as [(t' & N0 & M' & S')|(NM & P & S')].
          -- destruct (ui_m _ _ _ U _ _ M') as (w2 & A2 & B2). rewrite B1 in B2. inversion B2; subst w2.
             rewrite (npath_inj po t' t _ Hndo A2 Ht) in S'. congruence.
          -- exfalso. apply (NM t); [|exact Mt]. intros ->.
             rewrite (ti_root _ _ _ Io : npath po 0%N = Some []) in Ht. inversion Ht. congruence.
        * assert (Hsr : npath pr s = Some w).
          { destruct (ui_ext _ _ _ U) as (e & ->). apply npath_app. exact Hs. }
          exists s. split; [exact Hsr|]. split; [|exact Vq].
          destruct (ui_st _ _ _ U s w Hsr) as [(t' & N0 & M' & S')|(NM & P & S')]; [|congruence].
          exfalso. destruct (ui_m _ _ _ U _ _ M') as (w2 & A2 & B2). rewrite Hsr in B2. inversion B2; subst w2.
          destruct Hw as [->|Hw]; [apply N0, po_root, A2|apply Hw, (npath_in _ _ _ A2)].
  Qed.
End Unite.

Theorem unite_spec o po r0 p0 :
  tinv (length (la_states o)) (la_trans o) po ->
  tinv (length (la_states r0)) (la_trans r0) p0 ->
  (forall w q q', la_lang (la_states r0) p0 w q -> la_lang (la_states o) po w q' -> q = q') ->
  exists r pr, unite r0 o = Ok r /\ tinv (length (la_states r)) (la_trans r) pr /\
    (forall x, In x pr <-> In x p0 \/ In x po) /\
    (forall w q, la_lang (la_states r) pr w q <->
                 (w <> [] /\ la_lang (la_states o) po w q) \/
                 ((w = [] \/ ~ In w po) /\ la_lang (la_states r0) p0 w q)) /\
    la_k r = Nat.max (la_k r0) (la_k o).
Proof.
  intros Io I0 compat. unfold unite.
  apply (unite_old_spec o po Io
           (mkLa (la_states r0) (la_trans r0) (Nat.max (la_k r0) (la_k o))) p0 I0 compat).
Qed.

(** ** The fold over the productions of a non-terminal *)
Record finv (E : list (Z * list N)) (d : ladfa) (paths : list (list N)) : Prop := {
  fi_t : tinv (length (la_states d)) (la_trans d) paths;
  fi_paths : forall x, In x paths -> x = [] \/ exists q v, In (q, v) E /\ prefix x v;
  fi_lang : forall w q, la_lang (la_states d) paths w q <-> In (q, w) E }.

Lemma in_entries_elem fam e u : In e fam -> In u (snd e) -> In (fst e, u) (entries fam).
Proof.
  intros He Hu. unfold entries. apply in_flat_map. exists e. split; [exact He|].
  apply in_map_iff. exists u. auto.
Qed.

Lemma in_entries_single e q w : In (q, w) (entries [e]) <-> q = fst e /\ In w (snd e).
Proof.
  unfold entries. cbn [flat_map]. rewrite app_nil_r, in_map_iff. split.
  - intros (u & E & Hu). inversion E; subst. auto.
  - intros [-> Hw]. exists w. auto.
Qed.

Lemma valid_nonneg p : (0 <= p)%Z -> valid p = true.
Proof. intros H. unfold valid, INVALID_PROD. apply Z.ltb_lt. lia. Qed.

Lemma prefix_refl u : prefix u u.
Proof. exists []. rewrite app_nil_r. reflexivity. Qed.

Lemma max_len_app a b : max_len (a ++ b) = Nat.max (max_len a) (max_len b).
Proof.
  induction a as [|u a IH]; cbn [app max_len fold_right]; [reflexivity|].
  fold (max_len (a ++ b)). fold (max_len a). rewrite IH. lia.
Qed.

Lemma fam_max_len_cons e fam :
  fam_max_len (e :: fam) = Nat.max (max_len (snd e)) (fam_max_len fam).
Proof.
  unfold fam_max_len, entries. cbn [flat_map]. rewrite map_app, max_len_app, map_map. cbn [snd].
  rewrite map_id. reflexivity.
Qed.

Lemma unite_all_spec : forall fam2 fam1 acc paths,
  fam_det (fam1 ++ fam2) -> fam1 <> [] -> finv (entries fam1) acc paths ->
  exists d paths', unite_all acc fam2 = Ok d /\ finv (entries (fam1 ++ fam2)) d paths' /\
                   la_k d = Nat.max (la_k acc) (fam_max_len fam2).
Proof.
  induction fam2 as [|e fam2 IH]; intros fam1 acc paths Hdet Hne F.
  - exists acc, paths. cbn [unite_all]. rewrite app_nil_r. split; [reflexivity|].
    split; [exact F|]. cbn. lia.
  - cbn [unite_all]. destruct Hdet as [Hd1 Hd2].
    assert (Hin_e : In e (fam1 ++ e :: fam2)) by (apply in_or_app; right; left; reflexivity).
    destruct (Hd1 e Hin_e) as [Hp Hs].
    destruct (from_k_tuples_spec (snd e) (fst e) Hs (valid_nonneg _ Hp))
      as (o & po & Eo & Io & Xo & Yo & Lo & Ko).
    rewrite Eo. cbn [bind].
    assert (Hsub1 : forall q w, In (q, w) (entries fam1) -> In (q, w) (entries (fam1 ++ e :: fam2))).
    { intros q w H. rewrite entries_app. apply in_or_app. left. exact H. }
    assert (Hsube : forall w, In w (snd e) -> In (fst e, w) (entries (fam1 ++ e :: fam2))).
    { intros w H. apply in_entries_elem; assumption. }
    destruct (unite_spec o po acc paths Io (fi_t _ _ _ F)) as (r & pr & Er & Ir & Xr & Lr & Kr).
    { intros w q q' H1 H2. apply (fi_lang _ _ _ F) in H1. apply Lo in H2 as [H2 ->].
      apply (Hd2 q w (fst e) w (Hsub1 _ _ H1) (Hsube _ H2) (prefix_refl w)). }
    rewrite Er. cbn [bind].
    assert (E' : fam1 ++ e :: fam2 = (fam1 ++ [e]) ++ fam2) by (rewrite <- app_assoc; reflexivity).
    destruct (IH (fam1 ++ [e]) r pr) as (d & paths' & Ed & Fd & Kd).
    + rewrite <- E'. split; assumption.
    + destruct fam1; discriminate.
    + constructor.
      * exact Ir.
      * intros x Hx. apply Xr in Hx as [Hx|Hx].
        -- destruct (fi_paths _ _ _ F x Hx) as [->|(q & v & Hv & Hp')]; [left; reflexivity|right].
           exists q, v. split; [rewrite entries_app; apply in_or_app; left; exact Hv|exact Hp'].
        -- destruct (Xo x Hx) as [->|(v & Hv & Hp')]; [left; reflexivity|right].
           exists (fst e), v. split; [|exact Hp']. rewrite entries_app. apply in_or_app. right.
           apply in_entries_single. auto.
      * intros w q. rewrite Lr, entries_app, in_app_iff, in_entries_single, Lo, (fi_lang _ _ _ F).
        split.
        -- intros [[_ [H ->]]|[_ H]]; [right; auto|left; exact H].
        -- intros [H|[-> H]].
           ++ destruct w as [|a w]; [right; split; [left; reflexivity|exact H]|].
              destruct (mem_str (a :: w) po) eqn:M.
              ** apply mem_str_spec in M. destruct (Xo _ M) as [Hnil|(v & Hv & Hp')]; [discriminate|].
                 destruct (Hd2 q (a :: w) (fst e) v (Hsub1 _ _ H) (Hsube _ Hv) Hp') as [Ev ->].
                 left. split; [discriminate|]. split; [rewrite Ev; exact Hv|reflexivity].
              ** right. split; [|exact H]. right. intros Hin. apply mem_str_spec in Hin. congruence.
           ++ destruct w as [|a w]; [|left; split; [discriminate|auto]].
              right. split; [left; reflexivity|].
              destruct fam1 as [|e1 fam1']; [congruence|].
              assert (Hin1 : In e1 ((e1 :: fam1') ++ e :: fam2)) by (left; reflexivity).
              destruct (Hd1 e1 Hin1) as [_ Hs1]. destruct (snd e1) as [|v vs] eqn:Ev; [congruence|].
              assert (Hv : In (fst e1, v) (entries (e1 :: fam1'))).
              { apply in_entries_elem; [left; reflexivity|rewrite Ev; left; reflexivity]. }
              destruct (Hd2 (fst e) [] (fst e1) v (Hsube _ H) (Hsub1 _ _ Hv)) as [<- ->];
                [exists v; reflexivity|exact Hv].
    + exists d, paths'. rewrite E'. split; [exact Ed|]. split; [exact Fd|].
      rewrite Kd, Kr, Ko, fam_max_len_cons. lia.
Qed.

Lemma la_of_family_spec e fam' :
  fam_det (e :: fam') ->
  exists d paths, la_of_family (e :: fam') = Ok d /\ finv (entries (e :: fam')) d paths /\
                  la_k d = fam_max_len (e :: fam').
Proof.
  intros Hdet. cbn [la_of_family]. destruct Hdet as [Hd1 Hd2].
  destruct (Hd1 e (or_introl eq_refl)) as [Hp Hs].
  destruct (from_k_tuples_spec (snd e) (fst e) Hs (valid_nonneg _ Hp))
    as (o & po & Eo & Io & Xo & Yo & Lo & Ko).
  rewrite Eo. cbn [bind].
  destruct (unite_all_spec fam' [e] o po) as (d & paths & Ed & Fd & Kd).
  - split; assumption.
  - discriminate.
  - constructor.
    + exact Io.
    + intros x Hx. destruct (Xo x Hx) as [->|(v & Hv & Hp')]; [left; reflexivity|right].
      exists (fst e), v. split; [apply in_entries_single; auto|exact Hp'].
    + intros w q. rewrite Lo, in_entries_single. tauto.
  - exists d, paths. split; [exact Ed|]. split; [exact Fd|].
    rewrite Kd, Ko, fam_max_len_cons. reflexivity.
Qed.

(** ** The compiled table *)
Fixpoint la_run (gs : groups) (u : list N) (s : N) : option N :=
  match u with
  | [] => Some s
  | c :: u' => match tr_get gs s c with Some t => la_run gs u' t | None => None end
  end.

Lemma paths_prefix_closed n gs paths : tinv n gs paths ->
  forall b a s, npath paths s = Some (a ++ b) -> exists s0, npath paths s0 = Some a.
Proof.
  intros I. induction b as [|c b IH] using rev_ind; intros a s H.
  - rewrite app_nil_r in H. eauto.
  - rewrite app_assoc in H. destruct (ti_complete _ _ _ I _ _ _ H) as (f & Hf & _).
    apply (IH a f Hf).
Qed.

Lemma la_run_path n gs paths : tinv n gs paths ->
  forall u s w s', npath paths s = Some w ->
  (la_run gs u s = Some s' <-> npath paths s' = Some (w ++ u)).
Proof.
  intros I. induction u as [|c u IH]; intros s w s' Hs; cbn [la_run].
  - rewrite app_nil_r. split.
    + intros H. inversion H; subst. exact Hs.
    + intros H. f_equal. apply (npath_inj _ _ _ _ (ti_nodup _ _ _ I) Hs H).
  - replace (w ++ c :: u) with ((w ++ [c]) ++ u) by (rewrite <- app_assoc; reflexivity).
    destruct (tr_get gs s c) as [t|] eqn:G.
    + assert (G' := tr_get_in _ _ _ _ G). destruct (ti_sound _ _ _ I _ _ _ G') as (w' & A & B).
      rewrite Hs in A. inversion A; subst w'. apply (IH t (w ++ [c]) s' B).
    + split; [discriminate|]. intros H. exfalso.
      destruct (paths_prefix_closed _ _ _ I u (w ++ [c]) s' H) as (t & Ht).
      destruct (ti_complete _ _ _ I _ _ _ Ht) as (f & Hf & G').
      rewrite (npath_inj _ _ _ _ (ti_nodup _ _ _ I) Hf Hs) in G'. congruence.
Qed.

Lemma find_ins_term c x l :
  find (fun e : N * N => N.eqb (fst e) c) (ins_term x l) =
  if N.eqb (fst x) c then Some x else find (fun e => N.eqb (fst e) c) l.
Proof.
  induction l as [|y l IH]; cbn [ins_term find]; [reflexivity|].
  destruct (N.leb (fst x) (fst y)) eqn:L; cbn [find]; [reflexivity|].
  apply N.leb_gt in L. rewrite IH.
  destruct (N.eqb_spec (fst y) c) as [E|E]; [|reflexivity].
  destruct (N.eqb_spec (fst x) c) as [E'|E']; [lia|reflexivity].
Qed.

Lemma find_sort_term c l :
  find (fun e : N * N => N.eqb (fst e) c) (sort_term l) = inner_find c l.
Proof.
  unfold inner_find, sort_term. induction l as [|x l IH]; cbn [fold_right find]; [reflexivity|].
  rewrite find_ins_term, IH. reflexivity.
Qed.

Lemma ins_term_in x l y : In y (ins_term x l) <-> y = x \/ In y l.
Proof.
  induction l as [|z l IH]; cbn [ins_term].
  - cbn. intuition.
  - destruct (N.leb (fst x) (fst z)); cbn [In]; [intuition|]. rewrite IH. cbn [In]. intuition.
Qed.

Lemma sort_term_in l y : In y (sort_term l) <-> In y l.
Proof.
  unfold sort_term. induction l as [|x l IH]; cbn [fold_right]; [reflexivity|].
  rewrite ins_term_in, IH. cbn [In]. intuition.
Qed.

Lemma find_app_ {A} (f : A -> bool) l1 l2 :
  find f (l1 ++ l2) = match find f l1 with Some x => Some x | None => find f l2 end.
Proof. induction l1 as [|a l1 IH]; cbn [app find]; [reflexivity|]. destruct (f a); auto. Qed.

Lemma find_map_ {A B} (f : B -> bool) (g : A -> B) l :
  find f (map g l) = match find (fun x => f (g x)) l with Some x => Some (g x) | None => None end.
Proof. induction l as [|a l IH]; cbn [map find]; [reflexivity|]. destruct (f (g a)); auto. Qed.

Lemma step_conv d gs s c : gs_sorted gs ->
  step (flat_map (conv_group d) gs) s c =
  match tr_get gs s c with Some t => Some (mkTrans s c t (state_prod d t)) | None => None end.
Proof.
  unfold step. induction gs as [|g gs IH]; intros Hs; [reflexivity|].
  inversion Hs as [|? ? Hs' Hall]; subst. cbn [flat_map]. rewrite find_app_.
  unfold conv_group at 1. rewrite find_map_. cbn [t_from t_tok].
  unfold tr_get, grp_find. cbn [find].
  destruct (N.eqb_spec (fst g) s) as [E|E].
  - cbn [andb]. rewrite find_sort_term. destruct (inner_find c (snd g)) as [e|] eqn:Fi.
    + unfold inner_find in Fi. apply find_some in Fi as [_ Fi]. apply N.eqb_eq in Fi.
      rewrite E, Fi. reflexivity.
    + rewrite (IH Hs'). unfold tr_get.
      rewrite (grp_find_none_ge s gs); [reflexivity|]. rewrite <- E. exact Hall.
  - cbn [andb]. rewrite (find_none_intro (fun _ => false)) by reflexivity.
    apply (IH Hs').
Qed.

Lemma run_compile d : gs_sorted (la_trans d) -> forall u s,
  run (transitions (compile_raw d)) u s (state_prod d s) =
  match la_run (la_trans d) u s with Some s' => Some (s', state_prod d s') | None => None end.
Proof.
  intros Hs. induction u as [|c u IH]; intros s; cbn [run la_run]; [reflexivity|].
  cbn [compile_raw transitions]. rewrite (step_conv d _ s c Hs).
  destruct (tr_get (la_trans d) s c) as [t|]; [|reflexivity]. cbn [t_to t_prod]. apply IH.
Qed.

Lemma state_prod_valid d s p :
  (state_prod d s = p /\ valid p = true) <->
  (nth_error (la_states d) (N.to_nat s) = Some p /\ valid p = true).
Proof.
  unfold state_prod. destruct (nth_error (la_states d) (N.to_nat s)) as [p0|].
  - destruct (valid p0) eqn:V0.
    + split; intros [A B]; [subst; auto|inversion A; subst; auto].
    + split; intros [A B]; [subst; discriminate|inversion A; subst; congruence].
  - split; intros [A B]; [subst; discriminate|discriminate].
Qed.

Lemma accepts_compile_raw d paths u p :
  tinv (length (la_states d)) (la_trans d) paths ->
  (accepts (compile_raw d) u p <-> la_lang (la_states d) paths u p).
Proof.
  intros I. unfold accepts. cbn [prod0 compile_raw].
  change (transitions (mkDfa (state_prod d 0%N) (flat_map (conv_group d) (la_trans d)) (la_k d)))
    with (transitions (compile_raw d)).
  rewrite la_lang_N. split.
  - intros (s & R & V). rewrite (run_compile d (ti_sorted _ _ _ I)) in R.
    destruct (la_run (la_trans d) u 0%N) as [s'|] eqn:LR; [|discriminate]. inversion R; subst s.
    apply (la_run_path _ _ _ I u 0%N [] s' (ti_root _ _ _ I)) in LR. cbn [app] in LR.
    exists s'. split; [exact LR|]. apply state_prod_valid. rewrite H1. auto.
  - intros (s' & Hs' & Hq & V). exists s'. rewrite (run_compile d (ti_sorted _ _ _ I)).
    assert (LR : la_run (la_trans d) u 0%N = Some s').
    { apply (la_run_path _ _ _ I u 0%N [] s' (ti_root _ _ _ I)). exact Hs'. }
    rewrite LR. destruct (proj2 (state_prod_valid d s' p) (conj Hq V)) as [-> _]. auto.
Qed.

(** ** Main theorems for the un-minimised automaton *)

(** [trie_exact].  The statement has the form "the generator succeeds and …" because [unite] can
    fail (conflict); under [fam_ok] it does not.  Only the determinism part [fam_det] of [fam_ok]
    is used ([trie_exact_det]); the end-of-input condition is part of the specification of
    lookahead sets but plays no role for the automaton. *)
Theorem trie_exact_det fam :
  fam <> [] -> fam_det fam ->
  exists d, compile fam = Ok d /\ forall u p, accepts d u p <-> In u (strings_of fam p).
Proof.
  intros Hne Hdet. destruct fam as [|e fam']; [congruence|].
  destruct (la_of_family_spec e fam' Hdet) as (d & paths & E & F & K).
  exists (compile_raw d). unfold compile. rewrite E. split; [reflexivity|].
  intros u p. rewrite (accepts_compile_raw d paths u p (fi_t _ _ _ F)), (fi_lang _ _ _ F).
  apply in_entries.
Qed.

Theorem trie_exact fam :
  fam_ok fam ->
  exists d, compile fam = Ok d /\ forall u p, accepts d u p <-> In u (strings_of fam p).
Proof. intros (Hne & Hdet & _). apply (trie_exact_det fam Hne Hdet). Qed.

Lemma SS_app {A} (R : A -> A -> Prop) l1 l2 :
  StronglySorted R l1 -> StronglySorted R l2 ->
  (forall a b, In a l1 -> In b l2 -> R a b) -> StronglySorted R (l1 ++ l2).
Proof.
  induction l1 as [|x l1 IH]; intros H1 H2 H; [exact H2|]. cbn [app].
  inversion H1 as [|? ? H1' Hall]; subst. constructor.
  - apply IH; [exact H1'|exact H2|]. intros a b Ha Hb. apply H; [right; exact Ha|exact Hb].
  - apply Forall_app. split; [exact Hall|]. apply Forall_forall. intros b Hb.
    apply H; [left; reflexivity|exact Hb].
Qed.

Lemma sort_term_sorted l : StronglySorted (fun a b : N * N => (fst a <= fst b)%N) (sort_term l).
Proof.
  unfold sort_term. induction l as [|x l IH]; cbn [fold_right]; [constructor|].
  revert IH. generalize (fold_right ins_term [] l) as s. intros s.
  induction s as [|y s IHs]; intros Hs; cbn [ins_term].
  - constructor; constructor.
  - inversion Hs as [|? ? Hs' Hall]; subst. destruct (N.leb (fst x) (fst y)) eqn:L.
    + apply N.leb_le in L. constructor; [exact Hs|]. constructor; [exact L|].
      rewrite Forall_forall in *. intros b Hb. specialize (Hall b Hb). lia.
    + apply N.leb_gt in L. constructor; [apply IHs; exact Hs'|].
      apply Forall_forall. intros b Hb. apply ins_term_in in Hb as [->|Hb]; [lia|].
      rewrite Forall_forall in Hall. apply Hall. exact Hb.
Qed.

Lemma conv_sorted d gs : gs_sorted gs -> sorted (flat_map (conv_group d) gs).
Proof.
  unfold sorted. induction gs as [|g gs IH]; intros Hs; [constructor|].
  inversion Hs as [|? ? Hs' Hall]; subst. cbn [flat_map]. apply SS_app.
  - unfold conv_group. assert (S := sort_term_sorted (snd g)). revert S.
    generalize (sort_term (snd g)) as l. induction l as [|x l IHl]; intros S; [constructor|].
    inversion S as [|? ? S' A]; subst. cbn [map]. constructor; [apply IHl; exact S'|].
    apply Forall_forall. intros b Hb. apply in_map_iff in Hb as (y & <- & Hy).
    rewrite Forall_forall in A. right. cbn [t_from t_tok]. split; [reflexivity|apply A; exact Hy].
  - apply IH. exact Hs'.
  - intros a b Ha Hb. unfold conv_group in Ha. apply in_map_iff in Ha as (x & <- & _).
    apply in_flat_map in Hb as (g' & Hg' & Hb). unfold conv_group in Hb.
    apply in_map_iff in Hb as (y & <- & _). left. cbn [t_from].
    rewrite Forall_forall in Hall. apply Hall. exact Hg'.
Qed.

Theorem compile_sorted fam d : fam_ok fam -> compile fam = Ok d -> sorted (transitions d).
Proof.
  intros (Hne & Hdet & _) H. destruct fam as [|e fam']; [congruence|].
  destruct (la_of_family_spec e fam' Hdet) as (d0 & paths & E & F & K).
  unfold compile in H. rewrite E in H. cbn [bind] in H. inversion H; subst d.
  cbn [compile_raw transitions]. apply conv_sorted. apply (ti_sorted _ _ _ (fi_t _ _ _ F)).
Qed.

Theorem compile_wfd fam d : fam_ok fam -> compile fam = Ok d -> wfd d = true.
Proof.
  intros (Hne & Hdet & _) H. destruct fam as [|e fam']; [congruence|].
  destruct (la_of_family_spec e fam' Hdet) as (d0 & paths & E & F & K).
  unfold compile in H. rewrite E in H. cbn [bind] in H. inversion H; subst d.
  unfold wfd. cbn [compile_raw prod0 transitions].
  destruct (valid (state_prod d0 0%N)) eqn:V; [|reflexivity].
  destruct (flat_map (conv_group d0) (la_trans d0)) as [|t ts] eqn:Et; [reflexivity|exfalso].
  assert (I := fi_t _ _ _ F).
  assert (L0 : In (state_prod d0 0%N, []) (entries (e :: fam'))).
  { apply (fi_lang _ _ _ F). apply la_lang_N. exists 0%N. split; [apply (ti_root _ _ _ I)|].
    apply state_prod_valid. auto. }
  assert (Ht : In t (flat_map (conv_group d0) (la_trans d0))) by (rewrite Et; left; reflexivity).
  apply in_flat_map in Ht as (g & Hg & Ht). unfold conv_group in Ht.
  apply in_map_iff in Ht as (x & _ & Hx). apply (proj1 (sort_term_in _ _)) in Hx.
  assert (Hfl : In (fst g, fst x, snd x) (flat (la_trans d0))).
  { unfold flat. apply in_flat_map. exists g. split; [exact Hg|]. apply in_map_iff. exists x.
    split; [reflexivity|exact Hx]. }
  destruct (ti_sound _ _ _ I _ _ _ Hfl) as (w & _ & Hw). apply npath_in in Hw.
  destruct (fi_paths _ _ _ F _ Hw) as [Hnil|(q & v & Hv & Hp)]; [destruct w; discriminate|].
  destruct Hdet as [_ Hd2].
  destruct (Hd2 _ [] q v L0 Hv) as [<- _]; [exists v; reflexivity|].
  destruct Hp as (r & Hr). destruct w; discriminate.
Qed.

(** [compile_depth], for the repaired [unite]: the depth is the length of the longest lookahead
    string.  For the pinned commit's [unite] this is false, see [compile_depth_refuted] in §5. *)
Theorem compile_depth fam d : fam_ok fam -> compile fam = Ok d -> depth d = fam_max_len fam.
Proof.
  intros (Hne & Hdet & _) H. destruct fam as [|e fam']; [congruence|].
  destruct (la_of_family_spec e fam' Hdet) as (d0 & paths & E & F & K).
  unfold compile in H. rewrite E in H. cbn [bind] in H. inversion H; subst d.
  cbn [compile_raw depth]. exact K.
Qed.

Corollary compile_depth_check fam d : fam_ok fam -> compile fam = Ok d -> la_depth_check d fam = true.
Proof. intros Hok H. unfold la_depth_check. apply Nat.eqb_eq. apply (compile_depth fam d Hok H). Qed.

(* ------------------------------------------------------------------------------------------- *)
(** * §5 Findings (concrete witnesses, by computation) *)

(** Pairwise disjointness of the productions' sets — what [decidable] in k_decision.rs checks
    ([is_disjoint]); prefix-freeness is NOT checked there (it holds for k-complete tuples). *)
Definition fam_disjointb (fam : family) : bool :=
  forallb (fun a => forallb (fun b => negb (str_eqb (snd a) (snd b)) || Z.eqb (fst a) (fst b))
                            (entries fam)) (entries fam).

(** Without prefix-freeness [unite] silently erases an accepting state: [coin_state] is called
    with the production number of the other automaton's state even when that state is not
    accepting ([INVALID_PROD]).  Family {1: [a], 2: [a b]}: no conflict is reported and the
    string [a] of production 1 is no longer accepted. *)
Theorem unite_overwrites_refuted :
  exists fam d u p,
    fam_disjointb fam = true /\ compile fam = Ok d /\
    In u (strings_of fam p) /\ acceptsb d u p = false.
Proof.
  exists [ (1%Z, [[5%N]]); (2%Z, [[5; 6]%N]) ].
  eexists. exists [5%N], 1%Z. split; [vm_compute; reflexivity|].
  split; [vm_compute; reflexivity|]. split; [left; reflexivity|vm_compute; reflexivity].
Qed.

(** In the other order the inner state becomes accepting and keeps its way on. *)
Example unite_coins_inner_state :
  compile [ (2%Z, [[5; 6]%N]); (1%Z, [[5%N]]) ]
  = Ok (mkDfa (-1) [ mkTrans 0 5 1 1; mkTrans 1 6 2 2 ] 2).
Proof. vm_compute. reflexivity. Qed.

(** [unite] never looks at the two start states: two productions that both claim the empty
    string are united without a conflict (the first one wins). *)
Example unite_start_conflict_undetected :
  compile [ (1%Z, [[]]); (2%Z, [[]]) ] = Ok (mkDfa 1 [] 0).
Proof. vm_compute. reflexivity. Qed.

(** [from_k_tuples] with an EMPTY tuple set makes the start state accepting, although the
    production has no lookahead string at all. *)
Example empty_tuple_set_accepts :
  compile [ (1%Z, []); (2%Z, [[5%N]]) ] = Ok (mkDfa 1 [ mkTrans 0 5 1 2 ] 1).
Proof. vm_compute. reflexivity. Qed.

(** Pinned commit: [unite] never updated [k], the depth of the united automaton was the depth of
    the FIRST production's trie.  Family of non-terminal X of the grammar
    [S: "b" X; X: | A1 | A2; A1: "a"; A2: "a" "b";] (a=6, b=5): {1: [$], 2: [a $], 3: [a b]}.
    The generator of the pinned commit emitted exactly this table with [k: 1] (probe), and the
    runtime then gives up after one token: prediction error on a sentence of the language. *)
Definition depth_fam : family := [ (1%Z, [[0%N]]); (2%Z, [[6; 0]%N]); (3%Z, [[6; 5]%N]) ].

Theorem compile_depth_refuted :
  exists fam d buf p,
    fam_okb fam = true /\ compile_old fam = Ok d /\ depth d < fam_max_len fam /\
    In buf (strings_of fam p) /\ eval d buf = PredictionError /\ eval_old d buf = PredictionError.
Proof.
  exists depth_fam. eexists. exists [6; 0]%N, 2%Z.
  split; [vm_compute; reflexivity|]. split; [vm_compute; reflexivity|].
  split; [vm_compute; lia|]. split; [left; reflexivity|]. split; vm_compute; reflexivity.
Qed.

Example depth_fam_compiled_old :
  compile_old depth_fam = Ok (mkDfa (-1) [ mkTrans 0 0 1 1; mkTrans 0 6 2 (-1); mkTrans 2 0 3 2;
                                           mkTrans 2 5 4 3 ] 1).
Proof. vm_compute. reflexivity. Qed.

Example depth_fam_compiled :
  compile depth_fam = Ok (mkDfa (-1) [ mkTrans 0 0 1 1; mkTrans 0 6 2 (-1); mkTrans 2 0 3 2;
                                       mkTrans 2 5 4 3 ] 2).
Proof. vm_compute. reflexivity. Qed.

(** The checker pair tells the two aspects apart: on the pinned commit's table the language is
    right, the depth is not; on the repaired one both are. *)
Example depth_fam_checks_old :
  match compile_old depth_fam with
  | Ok d => la_dfa_check d depth_fam [5; 6]%N = true /\ la_depth_check d depth_fam = false
  | _ => False
  end.
Proof. vm_compute. split; reflexivity. Qed.

Example depth_fam_checks :
  match compile depth_fam with
  | Ok d => la_dfa_check d depth_fam [5; 6]%N = true /\ la_depth_check d depth_fam = true
  | _ => False
  end.
Proof. vm_compute. split; reflexivity. Qed.

(** The hypotheses of the main theorems are satisfiable. *)
Example fam_ok_ex : fam_ok ex_fam /\ fam_ok depth_fam.
Proof. split; apply fam_okb_spec; vm_compute; reflexivity. Qed.

Print Assumptions la_dfa_check_sound.
Print Assumptions la_dfa_check_shape.
Print Assumptions la_dfa_check_eval.
Print Assumptions la_depth_check_spec.
Print Assumptions trie_exact.
Print Assumptions compile_sorted.
Print Assumptions compile_wfd.
Print Assumptions compile_depth.
Print Assumptions compile_depth_check.
Print Assumptions unite_spec.
Print Assumptions unite_old_spec.
Print Assumptions unite_overwrites_refuted.
Print Assumptions compile_depth_refuted.
