//! C11: the four well-formedness sets and the accept/reject decision of the real code.
use crate::{gram::*, rng::Rng, Args};
use parol::analysis::{non_productive_non_terminals, reachable_non_terminals, unreachable_non_terminals};
use parol::parser::parol_grammar::GrammarType;
use parol::{check_and_transform_grammar, detect_left_recursive_non_terminals, GrammarAnalysisError};
use parol_runtime::ParolError;

fn idxs<'a, I: IntoIterator<Item = &'a String>>(g: &G, names: I) -> String {
    let v: Vec<String> = names
        .into_iter()
        .map(|n| g.names.iter().position(|m| m == n).map(|i| i.to_string()).unwrap_or_else(|| "999".into()))
        .collect();
    format!("({})", v.join(" "))
}

fn guarded<F: FnOnce() -> String + std::panic::UnwindSafe>(f: F) -> String {
    std::panic::catch_unwind(f).unwrap_or_else(|_| "panic".to_string())
}

fn decision(g: &G, cfg: &parol::Cfg, gt: GrammarType) -> String {
    let cfg = cfg.clone();
    let g = g.clone();
    guarded(move || match check_and_transform_grammar(&cfg, gt) {
        Ok(_) => "(ok)".to_string(),
        Err(ParolError::UserError(e)) => match e.downcast_ref::<GrammarAnalysisError>() {
            Some(GrammarAnalysisError::NonProductiveNonTerminals { non_terminals }) => {
                format!("(nonproductive {})", idxs(&g, non_terminals.iter().map(|h| &h.hint)))
            }
            Some(GrammarAnalysisError::UnreachableNonTerminals { non_terminals }) => {
                format!("(unreachable {})", idxs(&g, non_terminals.iter().map(|h| &h.hint)))
            }
            Some(GrammarAnalysisError::LeftRecursion { recursions }) => {
                format!("(leftrec {})", idxs(&g, recursions.iter().map(|h| &h.name)))
            }
            _ => "(othererr)".to_string(),
        },
        Err(_) => "(othererr)".to_string(),
    })
}

pub fn case(g: &G) -> String {
    let cfg = g.to_cfg();
    let (c1, c2, c3, c4, c5) = (cfg.clone(), cfg.clone(), cfg.clone(), cfg.clone(), cfg.clone());
    let (g1, g2, g3, g4, g5) = (g.clone(), g.clone(), g.clone(), g.clone(), g.clone());
    let nul = guarded(move || idxs(&g1, c1.calculate_nullable_non_terminals().iter()));
    let unp = guarded(move || idxs(&g2, non_productive_non_terminals(&c2).iter()));
    let rea = guarded(move || idxs(&g3, reachable_non_terminals(&c3).iter()));
    let unr = guarded(move || idxs(&g4, unreachable_non_terminals(&c4).iter()));
    let lrc = guarded(move || idxs(&g5, detect_left_recursive_non_terminals(&c5).iter()));
    let dll = decision(g, &cfg, GrammarType::LLK);
    let dlr = decision(g, &cfg, GrammarType::LALR1);
    format!("(wf {} {} {} {} {} {} {} {})", g.sx(), nul, unp, rea, unr, lrc, dll, dlr)
}

pub fn run(a: &Args) {
    let mut rng = Rng::new(a.seed ^ ((a.shard as u64) << 32) ^ 0xC11);
    if a.shard == 0 {
        // corpus: start symbol without any production (the nullable / left-recursion functions panic)
        println!("{}", case(&G { names: vec![nt_name(0), nt_name(1)], start: 0, prods: vec![(1, vec![Sy::T(5)])] }));
    }
    // tiny grammars: complete enumeration in the thorough tier, a stride sample otherwise
    let stride = if a.thorough { 1 } else { 23 };
    let mut i = a.shard * stride;
    while i < TINY_TOTAL {
        if let Some(g) = tiny(i) {
            println!("{}", case(&g));
        }
        i += a.nshards * stride;
    }
    if a.shard == 0 {
        eprintln!("tiny grammars: {} of {} enumerated (stride {})", TINY_TOTAL / stride, TINY_TOTAL, stride);
    }
    let d = Dials { max_nts: 6, max_terms: 3, max_alts: 3, max_rhs: 4, eps_pct: 25, nt_pct: 60 };
    for _ in 0..a.n {
        let g = random_bnf(&mut rng, &d, true);
        println!("{}", case(&g));
    }
}
