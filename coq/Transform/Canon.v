(** * EBNF canonicalisation: executable model of [transform_productions]
    (crates/parol/src/transformation/canonicalization.rs)

    Representation.  Productions are the attribute-free EBNF productions of [Grammar.Ebnf]
    (non-terminals and terminals are numbers).  Names matter for the helper non-terminals, so the
    model carries a *name table* [names : list string]: non-terminal [a] is called
    [nth_error names a].  A helper non-terminal gets the next free index [length names] and its
    name, computed by [generate_name] exactly as in the Rust code, is appended to the table.
    Symbol and production attributes, terminal kinds, scanner states, user types and member names
    are erased: the Rust code never inspects them (every test is [matches!] on the [Factor]
    variant, a length, or a comparison of non-terminal *names* inside [generate_name]), so the
    attribute-erasure of the Rust result is a function of the attribute-erasure of its input,
    and that function is [canon].

    Two non-terminals with the same name are the same non-terminal for the Rust code.  The model
    may create a helper whose name is already in the table (this is exactly the situation in
    which the Rust code merges a helper with an existing name - see [canon_fresh_refuted] in
    CanonProofs, about the pinned-commit behaviour [canon_old]); the named output is still identical to the Rust output.

    Loops.  Every Rust [while] loop is a recursion on [fuel]; each loop gets the full [fuel]
    (every loop makes at most [canon_fuel] iterations, see CanonProofs.[canon_terminates]).

    Positions.  [find_production_with_factor] + the [position] calls in the [eliminate_single_*]
    functions select the first production containing the factor kind at top level, its first
    such alternative and the first such factor in it: [Ebnf.find_prods].  [unloc] rebuilds the
    vector the way [apply_production_transformation] does (substitutes placed at the index of the
    replaced production, in order). *)
From Coq Require Import String Ascii List NArith Arith Bool Lia.
From Parol Require Import Grammar.Cfg Grammar.Ebnf Transform.Names.
Import ListNotations.

Inductive cerr :=
| OutOfFuel                       (* model artefact: fuel exhausted *)
| BadIndex (a : N)                (* ill-formed input: non-terminal without a name *)
| NotOneAlt (lhs : N) (n : nat)   (* [finalize]: "Expected one alternation per production ..." *)
| BadFactor (lhs : N)             (* [finalize]: [Symbol::try_from] fails on a non-atomic factor *)
| PanicRemove.                    (* [Vec::remove] out of range in [eliminate_single_opt] case 2 *)

Inductive res (A : Type) := Ok (x : A) | Err (e : cerr).
Arguments Ok {A} x.
Arguments Err {A} e.

Definition bind {A B} (r : res A) (f : A -> res B) : res B :=
  match r with Ok x => f x | Err e => Err e end.

(** The state of the transformation: productions and name table. *)
Record cstate := mkSt { st_ps : list eprod; st_names : list string }.

Definition name_of (names : list string) (a : N) : res string :=
  match nth_error names (N.to_nat a) with Some s => Ok s | None => Err (BadIndex a) end.

Fixpoint names_of (names : list string) (l : list N) : res (list string) :=
  match l with
  | [] => Ok []
  | a :: r => bind (name_of names a) (fun s => bind (names_of names r) (fun ss => Ok (s :: ss)))
  end.

(** [variable_names] - the exclusion list handed to [generate_name].  The Rust code sorts and
    dedups the list; it is only used for membership tests, so the model keeps document order.

    Two versions:
    - [var_ids_old] (pinned commit): left-hand sides and the non-terminals at the *top level* of
      every alternative only; non-terminals nested inside groups, repetitions or optionals were
      invisible, so a helper could be given the name of such a non-terminal
      (CanonProofs.[canon_fresh_refuted]);
    - [var_ids] (repaired code, [collect_factor_vars]): left-hand side, then all non-terminals of
      the right-hand side at any nesting depth, depth first in document order.
    Every definition below takes [deep : bool]: [true] = repaired code, [false] = pinned commit. *)
Definition top_nts (alt : list factor) : list N :=
  flat_map (fun f => match f with FN x => [x] | _ => [] end) alt.
Definition var_ids_old (ps : list eprod) : list N :=
  flat_map (fun p => fst p :: flat_map top_nts (snd p)) ps.

Fixpoint fnts (f : factor) : list N :=
  match f with
  | FT _ => []
  | FN a => [a]
  | FGroup b => flat_map (flat_map fnts) b
  | FOpt b => flat_map (flat_map fnts) b
  | FRep b => flat_map (flat_map fnts) b
  end.
Definition seq_nts (a : list factor) : list N := flat_map fnts a.
Definition alts_nts (b : alts) : list N := flat_map (flat_map fnts) b.
Definition var_ids (ps : list eprod) : list N :=
  flat_map (fun p => fst p :: alts_nts (snd p)) ps.

Definition var_ids_gen (deep : bool) (ps : list eprod) : list N :=
  if deep then var_ids ps else var_ids_old ps.
Definition variable_names_gen (deep : bool) (st : cstate) : res (list string) :=
  names_of (st_names st) (var_ids_gen deep (st_ps st)).
Definition variable_names : cstate -> res (list string) := variable_names_gen true.
Definition variable_names_old : cstate -> res (list string) := variable_names_gen false.

Definition next_nt (st : cstate) : N := N.of_nat (length (st_names st)).

(** ** [extract_options] *)

(** First optional in document order, searching through groups and repetitions (not into the
    optional found): the factor with the optional replaced by [FN X], and the optional's body. *)
Section ExtractOptional.
  Variable X : N.

  Fixpoint ex_fac (f : factor) : option (factor * alts) :=
    let ex_seq := fix ex_seq (a : list factor) : option (list factor * alts) :=
      match a with
      | [] => None
      | f :: r => match ex_fac f with
                  | Some (f', o) => Some (f' :: r, o)
                  | None => match ex_seq r with
                            | Some (r', o) => Some (f :: r', o)
                            | None => None
                            end
                  end
      end in
    let ex_alts := fix ex_alts (b : alts) : option (alts * alts) :=
      match b with
      | [] => None
      | a :: r => match ex_seq a with
                  | Some (a', o) => Some (a' :: r, o)
                  | None => match ex_alts r with
                            | Some (r', o) => Some (a :: r', o)
                            | None => None
                            end
                  end
      end in
    match f with
    | FOpt o => Some (FN X, o)
    | FGroup b => match ex_alts b with Some (b', o) => Some (FGroup b', o) | None => None end
    | FRep b => match ex_alts b with Some (b', o) => Some (FRep b', o) | None => None end
    | _ => None
    end.

  Fixpoint ex_seq (a : list factor) : option (list factor * alts) :=
    match a with
    | [] => None
    | f :: r => match ex_fac f with
                | Some (f', o) => Some (f' :: r, o)
                | None => match ex_seq r with
                          | Some (r', o) => Some (f :: r', o)
                          | None => None
                          end
                end
    end.

  Fixpoint ex_alts (b : alts) : option (alts * alts) :=
    match b with
    | [] => None
    | a :: r => match ex_seq a with
                | Some (a', o) => Some (a' :: r, o)
                | None => match ex_alts r with
                          | Some (r', o) => Some (a :: r', o)
                          | None => None
                          end
                end
    end.
End ExtractOptional.

(** First production containing an optional: (productions before, lhs, new body, optional's
    body, productions after). *)
Fixpoint ex_prods (X : N) (ps : list eprod)
  : option (list eprod * N * alts * alts * list eprod) :=
  match ps with
  | [] => None
  | (a, b) :: r => match ex_alts X b with
                   | Some (b', o) => Some ([], a, b', o, r)
                   | None => match ex_prods X r with
                             | Some (pre, a', b', o, post) => Some ((a, b) :: pre, a', b', o, post)
                             | None => None
                             end
                   end
  end.

(** [RX_OPT_WITH_NUM_SUFFIX] = [Opt[0-9]*$] [.is_match]: after the trailing digits comes "Opt". *)
Definition ends_opt_num (s : string) : bool :=
  let r := rev (list_ascii_of_string s) in
  match skipn (length (take_digits r)) r with
  | "t"%char :: "p"%char :: "O"%char :: _ => true
  | _ => false
  end.

(** One iteration of the loop of [extract_options]; [None] = no optional left. *)
Definition extract_step (deep : bool) (st : cstate) : res (option cstate) :=
  let X := next_nt st in
  match ex_prods X (st_ps st) with
  | None => Ok None
  | Some (pre, a, b', o, post) =>
      bind (variable_names_gen deep st) (fun excl =>
      bind (name_of (st_names st) a) (fun nt =>
      let preferred := if ends_opt_num nt then nt else (nt ++ "Opt")%string in
      let name := generate_name excl preferred in
      Ok (Some (mkSt (pre ++ (a, b') :: (X, [[FGroup o]]) :: (X, [[]]) :: post)
                     (st_names st ++ [name])))))
  end.

Fixpoint extract_loop (deep : bool) (fuel : nat) (st : cstate) : res cstate :=
  bind (extract_step deep st) (fun r =>
    match r with
    | None => Ok st
    | Some st' => match fuel with 0 => Err OutOfFuel | S k => extract_loop deep k st' end
    end).

(** ** [separate_alternatives] *)
Fixpoint sep_step (ps : list eprod) : option (list eprod) :=
  match ps with
  | [] => None
  | (a, b) :: r =>
      if Nat.ltb 1 (length b) then Some (map (fun alt => (a, [alt])) b ++ r)
      else match sep_step r with Some r' => Some ((a, b) :: r') | None => None end
  end.

(** Each loop returns the new state and whether it modified anything. *)
Fixpoint sep_loop (fuel : nat) (ps : list eprod) (m : bool) : res (list eprod * bool) :=
  match sep_step ps with
  | None => Ok (ps, m)
  | Some ps' => match fuel with 0 => Err OutOfFuel | S k => sep_loop k ps' true end
  end.

(** ** [eliminate_repetitions] *)
Definition is_rep (f : factor) : bool := match f with FRep _ => true | _ => false end.
Definition is_opt (f : factor) : bool := match f with FOpt _ => true | _ => false end.
Definition is_grp (f : factor) : bool := match f with FGroup _ => true | _ => false end.

Definition fbody (f : factor) : alts :=
  match f with FGroup b => b | FOpt b => b | FRep b => b | _ => [] end.

(** Productions (2) and (2a) of [eliminate_single_rep]. *)
Definition rep_news (is_lr : bool) (X : N) (rb : alts) : list eprod :=
  match rb with
  | [alt] => [(X, [if is_lr then FN X :: alt else alt ++ [FN X]]); (X, [[]])]
  | _ => [(X, [if is_lr then [FN X; FGroup rb] else [FGroup rb; FN X]]); (X, [[]])]
  end.

Definition rep_step (deep : bool) (is_lr : bool) (st : cstate) : res (option cstate) :=
  match find_prods is_rep (st_ps st) with
  | None => Ok None
  | Some l =>
      bind (variable_names_gen deep st) (fun excl =>
      bind (name_of (st_names st) (l_lhs l)) (fun nt =>
      let name := generate_name excl (nt ++ "List")%string in
      let X := next_nt st in
      Ok (Some (mkSt (unloc l [FN X] (rep_news is_lr X (fbody (l_f l))))
                     (st_names st ++ [name])))))
  end.

Fixpoint rep_loop (deep : bool) (fuel : nat) (is_lr : bool) (st : cstate) (m : bool) : res (cstate * bool) :=
  bind (rep_step deep is_lr st) (fun r =>
    match r with
    | None => Ok (st, m)
    | Some st' => match fuel with 0 => Err OutOfFuel | S k => rep_loop deep k is_lr st' true end
    end).

(** ** [eliminate_options]
    (unreachable after [extract_options], see CanonProofs.[opt_step_unreachable]; transcribed
    nevertheless, including the index [0] instead of [alt_index] in case 2). *)
Fixpoint remove_nth {A} (n : nat) (l : list A) : option (list A) :=
  match n, l with
  | 0, _ :: r => Some r
  | S k, x :: r => match remove_nth k r with Some r' => Some (x :: r') | None => None end
  | _, [] => None
  end.

Definition opt_step (deep : bool) (st : cstate) : res (option cstate) :=
  match find_prods is_opt (st_ps st) with
  | None => Ok None
  | Some l =>
      let a := l_lhs l in
      match fbody (l_f l) with
      | [alt] =>
          let p1 := (a, l_b1 l ++ (l_s1 l ++ alt ++ l_s2 l) :: l_b2 l) in
          let p1a := (a, l_b1 l ++ (l_s1 l ++ l_s2 l) :: l_b2 l) in
          Ok (Some (mkSt (l_pre l ++ p1 :: p1a :: l_post l) (st_names st)))
      | ob =>
          bind (variable_names_gen deep st) (fun excl =>
          bind (name_of (st_names st) a) (fun nt =>
          let name := generate_name excl (nt ++ "Opt")%string in
          let X := next_nt st in
          let rhs1 := l_b1 l ++ (l_s1 l ++ FN X :: l_s2 l) :: l_b2 l in
          (* production1a.rhs.0[0].0.remove(opt_index_in_alt) *)
          match rhs1 with
          | [] => Err PanicRemove
          | alt0 :: rest =>
              match remove_nth (length (l_s1 l)) alt0 with
              | None => Err PanicRemove
              | Some alt0' =>
                  Ok (Some (mkSt (l_pre l ++ (a, rhs1) :: (a, alt0' :: rest) :: (X, ob) :: l_post l)
                                 (st_names st ++ [name])))
              end
          end))
      end
  end.

Fixpoint opt_loop (deep : bool) (fuel : nat) (st : cstate) (m : bool) : res (cstate * bool) :=
  bind (opt_step deep st) (fun r =>
    match r with
    | None => Ok (st, m)
    | Some st' => match fuel with 0 => Err OutOfFuel | S k => opt_loop deep k st' true end
    end).

(** ** [eliminate_groups] *)
Definition grp_step (deep : bool) (st : cstate) : res (option cstate) :=
  match find_prods is_grp (st_ps st) with
  | None => Ok None
  | Some l =>
      match fbody (l_f l) with
      | [alt] => Ok (Some (mkSt (unloc l alt []) (st_names st)))
      | gb =>
          bind (variable_names_gen deep st) (fun excl =>
          bind (name_of (st_names st) (l_lhs l)) (fun nt =>
          let name := generate_name excl (nt ++ "Group")%string in
          let X := next_nt st in
          Ok (Some (mkSt (unloc l [FN X] [(X, gb)]) (st_names st ++ [name])))))
      end
  end.

Fixpoint grp_loop (deep : bool) (fuel : nat) (st : cstate) (m : bool) : res (cstate * bool) :=
  bind (grp_step deep st) (fun r =>
    match r with
    | None => Ok (st, m)
    | Some st' => match fuel with 0 => Err OutOfFuel | S k => grp_loop deep k st' true end
    end).

(** ** The driver *)

(** [trans_fn] = separate_alternatives; eliminate_repetitions; eliminate_options;
    eliminate_groups, threading the [modified] flag (initially [false]). *)
Definition trans_fn (deep : bool) (fuel : nat) (is_lr : bool) (st : cstate) : res (cstate * bool) :=
  bind (sep_loop fuel (st_ps st) false) (fun '(ps1, m1) =>
  bind (rep_loop deep fuel is_lr (mkSt ps1 (st_names st)) m1) (fun '(st2, m2) =>
  bind (opt_loop deep fuel st2 m2) (fun '(st3, m3) =>
  grp_loop deep fuel st3 m3))).

Fixpoint main_loop (deep : bool) (fuel : nat) (n : nat) (is_lr : bool) (st : cstate) : res cstate :=
  match n with
  | 0 => Err OutOfFuel
  | S k => bind (trans_fn deep fuel is_lr st) (fun '(st', m) =>
             if m then main_loop deep fuel k is_lr st' else Ok st')
  end.

(** [finalize]: exactly one alternative per production, all factors atomic. *)
Fixpoint finalize (ps : list eprod) : res (list prod) :=
  match ps with
  | [] => Ok []
  | (a, b) :: r =>
      match b with
      | [alt] => match syms_of alt with
                 | Some rhs => bind (finalize r) (fun l => Ok (mkProd a rhs :: l))
                 | None => Err (BadFactor a)
                 end
      | _ => Err (NotOneAlt a (length b))
      end
  end.

(** [canon_gen deep fuel is_lr G names]: the productions of the grammar configuration and the
    extended name table.  [is_lr = true] for [%grammar_type 'LALR(1)']. *)
Definition canon_gen (deep : bool) (fuel : nat) (is_lr : bool) (G : egrammar) (names : list string)
  : res (cfg * list string) :=
  bind (extract_loop deep fuel (mkSt (eprods G) names)) (fun st1 =>
  bind (main_loop deep fuel (S fuel) is_lr st1) (fun st2 =>
  bind (finalize (st_ps st2)) (fun l =>
  Ok (mkCfg (estart G) l, st_names st2)))).

(** The repaired code ... *)
Definition canon : nat -> bool -> egrammar -> list string -> res (cfg * list string) :=
  canon_gen true.
(** ... and the code at the pinned commit. *)
Definition canon_old : nat -> bool -> egrammar -> list string -> res (cfg * list string) :=
  canon_gen false.

(** A sufficient amount of fuel: weight of the group/repeat/optional nodes plus the surplus
    alternatives at every nesting level (CanonProofs.[canon_terminates]). *)
Fixpoint cweight (f : factor) : nat :=
  match f with
  | FT _ => 0
  | FN _ => 0
  | FGroup b => 1 + (pred (length b) +
                     fold_right (fun a m => fold_right (fun f m => cweight f + m) 0 a + m) 0 b)
  | FOpt b => 2 + (pred (length b) +
                   fold_right (fun a m => fold_right (fun f m => cweight f + m) 0 a + m) 0 b)
  | FRep b => 2 + (pred (length b) +
                   fold_right (fun a m => fold_right (fun f m => cweight f + m) 0 a + m) 0 b)
  end.
Definition cweight_seq (a : list factor) : nat := fold_right (fun f m => cweight f + m) 0 a.
Definition cweight_alts (b : alts) : nat :=
  pred (length b) + fold_right (fun a m => cweight_seq a + m) 0 b.
Definition cmeasure (ps : list eprod) : nat :=
  fold_right (fun p m => cweight_alts (snd p) + m) 0 ps.
Definition canon_fuel (G : egrammar) : nat := S (cmeasure (eprods G)).

(** The named view of the result: one (lhs name, rhs) pair per production; terminals keep their
    numbers. *)
Inductive nsym := NTm (t : N) | NNt (s : string).
Fixpoint named_rhs (names : list string) (r : list sym) : res (list nsym) :=
  match r with
  | [] => Ok []
  | T t :: r' => bind (named_rhs names r') (fun l => Ok (NTm t :: l))
  | NT a :: r' => bind (name_of names a) (fun s => bind (named_rhs names r') (fun l => Ok (NNt s :: l)))
  end.
Fixpoint named_prods (names : list string) (l : list prod) : res (list (string * list nsym)) :=
  match l with
  | [] => Ok []
  | p :: r => bind (name_of names (lhs p)) (fun s =>
              bind (named_rhs names (rhs p)) (fun rr =>
              bind (named_prods names r) (fun l' => Ok ((s, rr) :: l'))))
  end.
Definition canon_named_gen (deep : bool) (fuel : nat) (is_lr : bool) (G : egrammar)
  (names : list string) : res (list (string * list nsym)) :=
  bind (canon_gen deep fuel is_lr G names) (fun '(B, names') => named_prods names' (prods B)).
Definition canon_named : nat -> bool -> egrammar -> list string -> res (list (string * list nsym)) :=
  canon_named_gen true.
Definition canon_named_old : nat -> bool -> egrammar -> list string -> res (list (string * list nsym)) :=
  canon_named_gen false.

(** ** Examples *)
Local Open Scope string_scope.

(** [S: "a" { "b" | "c" } [ "d" ] ( "e" | "f" );]  -- compared with [parol -u] by hand:
    S: "a" SList SOpt SGroup; SGroup: "e"; SGroup: "f"; SList: SListGroup SList;
    SListGroup: "b"; SListGroup: "c"; SList: ; SOpt: "d"; SOpt: ; *)
Example ex_canon1_ll : canon_named (canon_fuel ex_ebnf1) false ex_ebnf1 ["S"] = Ok
  [ ("S", [NTm 5; NNt "SList"; NNt "SOpt"; NNt "SGroup"]);
    ("SGroup", [NTm 9]); ("SGroup", [NTm 10]);
    ("SList", [NNt "SListGroup"; NNt "SList"]);
    ("SListGroup", [NTm 6]); ("SListGroup", [NTm 7]);
    ("SList", []);
    ("SOpt", [NTm 8]); ("SOpt", []) ].
Proof. vm_compute. reflexivity. Qed.

Example ex_canon1_lr : canon_named (canon_fuel ex_ebnf1) true ex_ebnf1 ["S"] = Ok
  [ ("S", [NTm 5; NNt "SList"; NNt "SOpt"; NNt "SGroup"]);
    ("SGroup", [NTm 9]); ("SGroup", [NTm 10]);
    ("SList", [NNt "SList"; NNt "SListGroup"]);
    ("SListGroup", [NTm 6]); ("SListGroup", [NTm 7]);
    ("SList", []);
    ("SOpt", [NTm 8]); ("SOpt", []) ].
Proof. vm_compute. reflexivity. Qed.

Example ex_canon1_nofuel : canon 2 false ex_ebnf1 ["S"] = Err OutOfFuel.
Proof. vm_compute. reflexivity. Qed.
