//! C12: real `augment_grammar` on random grammars (incl. recursive single-production start).
use crate::{gram::*, rng::Rng, Args};

/// Re-express `g` (names) in the numbering of `names2`; non-terminals missing there get indices
/// past the end.
fn renumber(g: &G, names2: &[String]) -> G {
    let mut names = names2.to_vec();
    let mut map = vec![];
    for n in &g.names {
        match names.iter().position(|m| m == n) {
            Some(i) => map.push(i),
            None => {
                names.push(n.clone());
                map.push(names.len() - 1);
            }
        }
    }
    G {
        names,
        start: map[g.start],
        prods: g
            .prods
            .iter()
            .map(|(l, r)| (map[*l], r.iter().map(|y| match y { Sy::T(t) => Sy::T(*t), Sy::N(a) => Sy::N(map[*a]) }).collect()))
            .collect(),
    }
}

pub fn case(g: &G) -> String { case_annotated(g, 0) }

/// `mask`: which non-terminal occurrences are written with the clipping annotation `^` (no influence on the language)
pub fn case_annotated(g: &G, mask: u64) -> String {
    let cfg = if mask == 0 { g.to_cfg() } else { g.to_cfg_annotated(mask) };
    let r = std::panic::catch_unwind(|| parol::augment_grammar(&cfg));
    match r {
        Err(_) => format!("(aug {} panic)", g.sx()),
        Ok(cfg2) => {
            let g2 = G::from_cfg(&cfg2, true);
            let g1 = renumber(g, &g2.names);
            format!("(aug {} {})", g1.sx(), g2.sx())
        }
    }
}

pub fn run(a: &Args) {
    let mut rng = Rng::new(a.seed ^ ((a.shard as u64) << 32) ^ 0xC12);
    if a.shard == 0 {
        // corpus: D1 witnesses
        let names = vec![nt_name(0), nt_name(1)];
        println!("{}", case(&G { names: names.clone(), start: 0, prods: vec![(0, vec![Sy::N(1)]), (1, vec![Sy::T(5), Sy::N(0)]), (1, vec![Sy::T(5)])] }));
        println!("{}", case(&G { names: names.clone(), start: 0, prods: vec![(0, vec![Sy::N(1)]), (1, vec![Sy::T(5), Sy::N(0), Sy::T(6)]), (1, vec![Sy::T(7)])] }));
        println!("{}", case_annotated(&G { names, start: 0, prods: vec![(0, vec![Sy::N(1)]), (1, vec![Sy::T(5), Sy::N(0), Sy::T(6)]), (1, vec![Sy::T(7)])] }, u64::MAX));
        // a recursive start symbol whose number rolls over into an existing sibling name (E9 -> E10)
        for (a0, b0) in [("E9", "E10"), ("X99", "X100"), ("S9", "S10")] {
            let names = vec![a0.to_string(), b0.to_string()];
            println!("{}", case(&G { names, start: 0, prods: vec![(0, vec![Sy::N(1)]), (1, vec![Sy::T(5), Sy::N(0)]), (1, vec![Sy::T(6)])] }));
        }
        let names: Vec<String> = (0..12).map(|i| if i == 0 { "N".to_string() } else { format!("N{}", i - 1) }).collect();
        println!("{}", case(&G { names, start: 0, prods: (0..12).map(|i| if i == 0 { (0, vec![Sy::T(5), Sy::N(0)]) } else { (i, vec![Sy::T(6)]) }).chain(std::iter::once((0, (1..12).map(Sy::N).collect()))).collect() }));
        // a start symbol named like its own replacement candidates
        let names = vec!["S".to_string(), "S0".to_string(), "S1".to_string()];
        println!("{}", case(&G { names, start: 0, prods: vec![(0, vec![Sy::N(1)]), (0, vec![Sy::N(2)]), (1, vec![Sy::T(5)]), (2, vec![Sy::T(6), Sy::N(0)])] }));
    }
    let d = Dials::default();
    for i in 0..a.n {
        let mut g = random_bnf(&mut rng, &d, true);
        if i % 3 == 0 {
            // force a single-production start symbol
            let first = g.prods.iter().position(|(l, _)| *l == g.start).unwrap();
            let keep = g.prods[first].clone();
            g.prods.retain(|(l, _)| *l != g.start);
            g.prods.insert(0, keep);
        }
        if i % 5 == 0 {
            // names that collide with generated candidates
            let n = g.names.len();
            let alt = ["S", "S0", "S1", "S2", "S10", "S3"];
            g.names = (0..n).map(|j| alt[j % alt.len()].to_string()).collect();
        }
        // every third grammar with clipped non-terminal occurrences (all, or a random subset)
        let mask = if i % 3 == 1 { if rng.chance(1, 2) { u64::MAX } else { rng.next() | 1 } } else { 0 };
        println!("{}", case_annotated(&g, mask));
    }
}
