(** * Reordering the terminals of a scanner mode (lexical half of C34; also C13/C18).

    parol's own scanner and the language server's scanner list the same terminal patterns in a
    different priority order.  Priority only matters when two terminals match the same text, so:
    if the only entries whose relative order differs can never match a common non-empty word,
    [best_match] — hence tokenisation — is unchanged.

    [overlap_check]: a proved decision procedure for "some non-empty code-point word is matched by
    both regexes" (product exploration of derivative pairs over representative characters).
    [reorder_check]: same entries, and every inverted pair is overlap-free.  Lookahead entries are
    handled conservatively: only the patterns are compared (a lookahead can only restrict). *)
From Coq Require Import List NArith Bool Lia Arith.
From Coq Require Ascii String.
From Parol Require Import Scanner.Regex Scanner.RegexEquiv Scanner.LongestMatch Scanner.CommentSpec.
Import ListNotations.

(** ** Overlap of two regexes on non-empty words *)

Definition dead (p : regex * regex) : Prop := is_empty (fst p) || is_empty (snd p) = true.

Lemma dead_no_match p w : dead p -> ~ (matches (fst p) w /\ matches (snd p) w).
Proof.
  unfold dead. intros Hd [H1 H2]. apply orb_true_iff in Hd. destruct Hd as [Hd|Hd].
  - apply (is_empty_spec _ Hd _ H1).
  - apply (is_empty_spec _ Hd _ H2).
Qed.

(** breadth-first over pairs of simultaneous derivatives; one unit of fuel per popped item *)
Fixpoint explore_o (fuel : nat) (reps : list N) (V : list (regex * regex)) (W : list work_item)
  : option (option (list N)) :=
  match fuel with
  | O => None
  | S f =>
    match W with
    | [] => Some None
    | (w, a, b) :: W' =>
      if is_empty a || is_empty b then explore_o f reps V W'
      else if existsb (pair_eqb (a, b)) V then explore_o f reps V W'
      else if nullable a && nullable b then Some (Some (rev w))
      else explore_o f reps ((a, b) :: V)
                     (W' ++ map (fun c => (c :: w, deriv c a, deriv c b)) reps)
    end
  end.

Definition closed_o (reps : list N) (V W : list (regex * regex)) : Prop :=
  forall a b, In (a, b) V ->
    nullable a && nullable b = false /\
    forall c, In c reps ->
      In (deriv c a, deriv c b) V \/ In (deriv c a, deriv c b) W \/ dead (deriv c a, deriv c b).

Lemma explore_o_closed reps : forall f V W,
  explore_o f reps V W = Some None ->
  closed_o reps V (map wpair W) ->
  exists V', incl V V' /\
             (forall p, In p (map wpair W) -> In p V' \/ dead p) /\
             closed_o reps V' [].
Proof.
  induction f as [|f IH]; intros V W He Hc; cbn [explore_o] in He; [discriminate|].
  destruct W as [|[[w a] b] W'].
  - exists V. split; [apply incl_refl|]. split; [intros p []|]. exact Hc.
  - cbn [map] in Hc. unfold wpair at 1 in Hc. cbn [fst snd] in Hc.
    destruct (is_empty a || is_empty b) eqn:Ed.
    { destruct (IH V W' He) as [V' [Hi [Hw Hc']]].
      - intros x y Hxy. destruct (Hc x y Hxy) as [Hn Hd]. split; [assumption|].
        intros c Hcr. destruct (Hd c Hcr) as [H|[[H|H]|H]]; auto.
        right. right. rewrite <- H. exact Ed.
      - exists V'. split; [assumption|]. split; [|assumption].
        intros p [Hp|Hp]; [subst p; right; exact Ed | apply Hw; assumption]. }
    destruct (existsb (pair_eqb (a, b)) V) eqn:Ev.
    { apply existsb_exists in Ev. destruct Ev as [p [Hp Hpe]]. apply pair_eqb_eq in Hpe. subst p.
      destruct (IH V W' He) as [V' [Hi [Hw Hc']]].
      - intros x y Hxy. destruct (Hc x y Hxy) as [Hn Hd]. split; [assumption|].
        intros c Hcr. destruct (Hd c Hcr) as [H|[[H|H]|H]]; auto.
        left. rewrite <- H. assumption.
      - exists V'. split; [assumption|]. split; [|assumption].
        intros p [Hp'|Hp']; [subst p; left; apply Hi; assumption | apply Hw; assumption]. }
    destruct (nullable a && nullable b) eqn:En; [discriminate|].
    destruct (IH _ _ He) as [V' [Hi [Hw Hc']]].
    + intros x y [Hxy|Hxy].
      * inversion Hxy; subst x y. split; [assumption|]. intros c Hcr. right. left.
        rewrite map_app. apply in_or_app. right. rewrite map_map.
        apply in_map_iff. exists c. split; [reflexivity | assumption].
      * destruct (Hc x y Hxy) as [Hn Hd]. split; [assumption|].
        intros c Hcr. destruct (Hd c Hcr) as [H|[[H|H]|H]].
        -- left. right. assumption.
        -- left. left. assumption.
        -- right. left. rewrite map_app. apply in_or_app. left. assumption.
        -- right. right. assumption.
    + exists V'. split; [intros p Hp; apply Hi; right; assumption|]. split; [|assumption].
      intros p [Hp|Hp].
      * subst p. left. apply Hi. left. reflexivity.
      * apply Hw. rewrite map_app. apply in_or_app. left. assumption.
Qed.

Lemma closed_o_disjoint reps V :
  closed_o reps V [] ->
  forall w, Forall (fun c => In c reps) w ->
  forall a b, In (a, b) V \/ dead (a, b) -> ~ (matches a w /\ matches b w).
Proof.
  intros Hc w. induction w as [|c w IH]; intros Hw a b Hab.
  - destruct Hab as [Hab|Hab]; [|apply (dead_no_match (a, b) [] Hab)].
    destruct (Hc a b Hab) as [Hn _]. intros [H1 H2].
    apply nullable_spec in H1. apply nullable_spec in H2. rewrite H1, H2 in Hn. discriminate.
  - destruct Hab as [Hab|Hab]; [|apply (dead_no_match (a, b) _ Hab)].
    inversion Hw as [|c' w' Hcr Hw']; subst. rewrite <- !deriv_spec.
    apply (IH Hw'). destruct (Hc a b Hab) as [_ Hd].
    destruct (Hd c Hcr) as [H|[[]|H]]; auto.
Qed.

Definition work_ok_o (reps : list N) (r1 r2 : regex) (W : list work_item) : Prop :=
  forall w a b, In (w, a, b) W ->
    a = derivs r1 (rev w) /\ b = derivs r2 (rev w) /\ w <> [] /\ Forall (fun c => In c reps) w.

Lemma explore_o_witness reps r1 r2 : forall f V W w,
  explore_o f reps V W = Some (Some w) -> work_ok_o reps r1 r2 W ->
  w <> [] /\ Forall (fun c => In c reps) w /\ matchb r1 w = true /\ matchb r2 w = true.
Proof.
  induction f as [|f IH]; intros V W w He Hok; cbn [explore_o] in He; [discriminate|].
  destruct W as [|[[x a] b] W']; [discriminate|].
  assert (Hok' : work_ok_o reps r1 r2 W').
  { intros y p q Hy. apply Hok. right. assumption. }
  destruct (Hok x a b (or_introl eq_refl)) as [Ha [Hb [Hne Hx]]].
  destruct (is_empty a || is_empty b); [eapply IH; eassumption|].
  destruct (existsb (pair_eqb (a, b)) V); [eapply IH; eassumption|].
  destruct (nullable a && nullable b) eqn:En.
  - inversion He; subst w. apply andb_prop in En as [N1 N2]. split.
    + intros E. apply (f_equal (@rev N)) in E. rewrite rev_involutive in E. cbn [rev] in E. contradiction.
    + split; [apply Forall_rev; assumption|]. unfold matchb. rewrite <- Ha, <- Hb. auto.
  - apply (IH _ _ _ He). intros y p q Hy. apply in_app_or in Hy.
    destruct Hy as [Hy|Hy]; [apply Hok'; assumption|].
    apply in_map_iff in Hy. destruct Hy as [c [Hy Hc]]. inversion Hy; subst y p q.
    cbn [rev]. rewrite !derivs_app. rewrite <- Ha, <- Hb.
    repeat split; try reflexivity; [discriminate | constructor; assumption].
Qed.

(** [fuel] = maximal number of distinct derivative pairs expanded.  [Some None]: no non-empty
    code-point word is matched by both; [Some (Some w)]: [w] (a shortest one) is; [None]: out of
    fuel. *)
Definition overlap_check (fuel : nat) (r1 r2 : regex) : option (option (list N)) :=
  let reps := reps_of (Some max_code_point) (bounds r1 ++ bounds r2) in
  explore_o (S (S fuel * S (length reps))) reps []
            (map (fun c => ([c], deriv c r1, deriv c r2)) reps).

Theorem overlap_check_sound f r1 r2 :
  overlap_check f r1 r2 = Some None ->
  forall w, w <> [] -> Forall is_code_point w -> ~ (matches r1 w /\ matches r2 w).
Proof.
  unfold overlap_check. intros He w Hne Hw.
  set (B := bounds r1 ++ bounds r2) in *.
  set (reps := reps_of (Some max_code_point) B) in *.
  rewrite (matches_rep B w r1), (matches_rep B w r2);
    [| apply incl_appr, incl_refl | apply incl_appl, incl_refl].
  destruct w as [|c w]; [contradiction|]. cbn [map]. rewrite <- !deriv_spec.
  inversion Hw as [|c' w' Hc Hw']; subst.
  destruct (explore_o_closed reps _ [] _ He) as [V' [_ [Hin Hcl]]].
  - intros a b [].
  - apply (closed_o_disjoint reps V' Hcl).
    + apply Forall_forall. intros d Hd. apply in_map_iff in Hd. destruct Hd as [d0 [Hd Hin0]].
      subst d. apply (rep_in_reps (Some max_code_point)). rewrite Forall_forall in Hw'. apply Hw'. assumption.
    + apply Hin. rewrite map_map. apply in_map_iff. exists (rep B c). split; [reflexivity|].
      apply (rep_in_reps (Some max_code_point)). exact Hc.
Qed.

Theorem overlap_check_witness f r1 r2 w :
  overlap_check f r1 r2 = Some (Some w) ->
  w <> [] /\ Forall is_code_point w /\ matches r1 w /\ matches r2 w.
Proof.
  unfold overlap_check. intros He.
  destruct (explore_o_witness _ r1 r2 _ _ _ _ He) as [H1 [H2 [H3 H4]]].
  - intros y p q Hy. apply in_map_iff in Hy. destruct Hy as [c [Hy Hc]]. inversion Hy; subst.
    cbn [rev app derivs fold_left]. repeat split; try reflexivity; [discriminate|].
    constructor; [assumption | constructor].
  - split; [assumption|]. split.
    + apply Forall_forall. intros c Hc. rewrite Forall_forall in H2.
      apply (reps_of_ok (Some max_code_point) _ _ (H2 c Hc)).
    + split; apply matchb_spec; assumption.
Qed.

(** ** Structural equality of entries *)

Definition look_eqb (a b : lookahead) : bool :=
  match a, b with
  | None, None => true
  | Some (p1, r1), Some (p2, r2) => Bool.eqb p1 p2 && regex_eqb r1 r2
  | _, _ => false
  end.

Definition entry_eqb (a b : entry) : bool :=
  N.eqb (e_type a) (e_type b) && regex_eqb (e_pat a) (e_pat b) && look_eqb (e_look a) (e_look b).

Lemma look_eqb_eq a b : look_eqb a b = true <-> a = b.
Proof.
  destruct a as [[p1 r1]|], b as [[p2 r2]|]; cbn [look_eqb]; split; intros H;
    try discriminate; try reflexivity.
  - apply andb_prop in H as [H1 H2]. apply eqb_prop in H1. apply regex_eqb_eq in H2.
    subst. reflexivity.
  - inversion H; subst. rewrite eqb_reflx. apply regex_eqb_eq. reflexivity.
Qed.

Lemma entry_eqb_eq a b : entry_eqb a b = true <-> a = b.
Proof.
  destruct a as [[t1 r1] l1], b as [[t2 r2] l2]. unfold entry_eqb, e_type, e_pat, e_look.
  cbn [fst snd]. rewrite !andb_true_iff, N.eqb_eq, regex_eqb_eq, look_eqb_eq. split.
  - intros [[H1 H2] H3]. subst. reflexivity.
  - intros H. inversion H. auto.
Qed.

Definition count_e (e : entry) (l : list entry) : nat := length (filter (entry_eqb e) l).

(** same multiset of entries *)
Definition same_entries (es1 es2 : list entry) : bool :=
  Nat.eqb (length es1) (length es2) &&
  forallb (fun e => Nat.eqb (count_e e es1) (count_e e es2)) (es1 ++ es2).

Lemma count_e_pos e l : In e l <-> 0 < count_e e l.
Proof.
  unfold count_e. split.
  - intros H. assert (Hf : In e (filter (entry_eqb e) l)).
    { apply filter_In. split; [exact H | apply entry_eqb_eq; reflexivity]. }
    destruct (filter (entry_eqb e) l); [destruct Hf | cbn [length]; lia].
  - intros H. destruct (filter (entry_eqb e) l) as [|x xs] eqn:E; [cbn [length] in H; lia|].
    assert (Hx : In x (filter (entry_eqb e) l)) by (rewrite E; left; reflexivity).
    apply filter_In in Hx. destruct Hx as [Hx He]. apply entry_eqb_eq in He. subst x. exact Hx.
Qed.

Lemma same_entries_In es1 es2 : same_entries es1 es2 = true -> forall e, In e es1 <-> In e es2.
Proof.
  unfold same_entries. intros H e. apply andb_prop in H as [_ H]. rewrite forallb_forall in H.
  split; intros Hin.
  - assert (Hc := H e (in_or_app _ _ _ (or_introl Hin))). apply Nat.eqb_eq in Hc.
    apply count_e_pos. rewrite <- Hc. apply count_e_pos. exact Hin.
  - assert (Hc := H e (in_or_app _ _ _ (or_intror Hin))). apply Nat.eqb_eq in Hc.
    apply count_e_pos. rewrite Hc. apply count_e_pos. exact Hin.
Qed.

(** ** Inverted pairs *)

(** all (a, b) with a listed (somewhere) before b *)
Fixpoint pairs_before (l : list entry) : list (entry * entry) :=
  match l with
  | [] => []
  | a :: l' => map (pair a) l' ++ pairs_before l'
  end.

(** x occurs somewhere before some occurrence of y *)
Fixpoint occurs_before (l : list entry) (x y : entry) : bool :=
  match l with
  | [] => false
  | z :: l' => (entry_eqb z x && existsb (entry_eqb y) l') || occurs_before l' x y
  end.

Lemma pairs_before_spec l : forall i j a b,
  i < j -> nth_error l i = Some a -> nth_error l j = Some b -> In (a, b) (pairs_before l).
Proof.
  induction l as [|z l IH]; intros i j a b Hij Hi Hj; [destruct i; discriminate|].
  cbn [pairs_before]. apply in_or_app. destruct j as [|j]; [lia|]. cbn [nth_error] in Hj.
  destruct i as [|i]; cbn [nth_error] in Hi.
  - inversion Hi; subst z. left. apply in_map. apply (nth_error_In _ _ Hj).
  - right. apply (IH i j); [lia | assumption | assumption].
Qed.

Lemma occurs_before_spec l : forall i j x y,
  i < j -> nth_error l i = Some x -> nth_error l j = Some y -> occurs_before l x y = true.
Proof.
  induction l as [|z l IH]; intros i j x y Hij Hi Hj; [destruct i; discriminate|].
  cbn [occurs_before]. apply orb_true_iff. destruct j as [|j]; [lia|]. cbn [nth_error] in Hj.
  destruct i as [|i]; cbn [nth_error] in Hi.
  - inversion Hi; subst z. left. apply andb_true_intro. split; [apply entry_eqb_eq; reflexivity|].
    apply existsb_exists. exists y. split; [apply (nth_error_In _ _ Hj) | apply entry_eqb_eq; reflexivity].
  - right. apply (IH i j); [lia | assumption | assumption].
Qed.

(** pairs listed a-before-b in [es1] and b-before-a in [es2] *)
Definition inverted_pairs (es1 es2 : list entry) : list (entry * entry) :=
  filter (fun p => occurs_before es2 (snd p) (fst p)) (pairs_before es1).

Definition no_overlap (fuel : nat) (p : entry * entry) : bool :=
  match overlap_check fuel (e_pat (fst p)) (e_pat (snd p)) with
  | Some None => true
  | _ => false
  end.

(** [es2] lists the same entries as [es1], and entries whose relative order differs never match
    a common non-empty word *)
Definition reorder_check (fuel : nat) (es1 es2 : list entry) : bool :=
  same_entries es1 es2 && forallb (no_overlap fuel) (inverted_pairs es1 es2).

(** for reporting: the inverted pairs that are not proved overlap-free, with a common word
    ([None] = out of fuel) *)
Definition reorder_conflicts (fuel : nat) (es1 es2 : list entry)
  : list (entry * entry * option (list N)) :=
  flat_map (fun p => match overlap_check fuel (e_pat (fst p)) (e_pat (snd p)) with
                     | Some None => []
                     | Some (Some w) => [(fst p, snd p, Some w)]
                     | None => [(fst p, snd p, None)]
                     end)
           (inverted_pairs es1 es2).

Lemma Forall_firstn {X} (P : X -> Prop) (l : list X) : forall n, Forall P l -> Forall P (firstn n l).
Proof.
  induction l as [|x l IH]; intros [|n] H; cbn [firstn]; try constructor.
  - inversion H; assumption.
  - apply IH. inversion H; assumption.
Qed.

Lemma Forall_skipn {X} (P : X -> Prop) (l : list X) : forall n, Forall P l -> Forall P (skipn n l).
Proof.
  induction l as [|x l IH]; intros [|n] H; cbn [skipn]; try assumption.
  apply IH. inversion H; assumption.
Qed.

Lemma inverted_no_common fuel es1 es2 s i j i' j' e e' n :
  forallb (no_overlap fuel) (inverted_pairs es1 es2) = true ->
  Forall is_code_point s ->
  i < j -> nth_error es1 i = Some e -> nth_error es1 j = Some e' ->
  i' < j' -> nth_error es2 i' = Some e' -> nth_error es2 j' = Some e ->
  entry_accepts e s n -> entry_accepts e' s n -> False.
Proof.
  intros Hall Hs Hij Hi Hj Hij' Hi' Hj' [Hn [Hm _]] [_ [Hm' _]].
  rewrite forallb_forall in Hall.
  assert (Hinv : In (e, e') (inverted_pairs es1 es2)).
  { unfold inverted_pairs. apply filter_In. split.
    - apply (pairs_before_spec es1 i j); assumption.
    - cbn [fst snd]. apply (occurs_before_spec es2 i' j'); assumption. }
  specialize (Hall _ Hinv). unfold no_overlap in Hall. cbn [fst snd] in Hall.
  destruct (overlap_check fuel (e_pat e) (e_pat e')) as [[w|]|] eqn:Eo; try discriminate.
  apply (overlap_check_sound _ _ _ Eo (firstn n s)).
  - destruct s as [|c s]; [cbn [length] in Hn; lia|]. destruct n as [|n]; [lia|]. discriminate.
  - apply Forall_firstn. exact Hs.
  - split; assumption.
Qed.

Theorem reorder_check_sound f es1 es2 :
  reorder_check f es1 es2 = true ->
  forall s, Forall is_code_point s -> best_match es1 s = best_match es2 s.
Proof.
  unfold reorder_check. intros H s Hs. apply andb_prop in H as [Hsame Hall].
  pose proof (same_entries_In es1 es2 Hsame) as Hin.
  pose proof (best_match_spec es1 s) as H1. pose proof (best_match_spec es2 s) as H2.
  destruct (best_match es1 s) as [[t n]|]; destruct (best_match es2 s) as [[t' n']|].
  - destruct H1 as [i [e [[[e0 [Hi0 Ha]] Hd] [Hi Ht]]]]. rewrite Hi in Hi0. inversion Hi0; subst e0.
    destruct H2 as [i' [e' [[[e0 [Hi0' Ha']] Hd'] [Hi' Ht']]]]. rewrite Hi' in Hi0'. inversion Hi0'; subst e0.
    destruct (In_nth_error es1 e' (proj2 (Hin e') (nth_error_In _ _ Hi'))) as [j Hj].
    destruct (In_nth_error es2 e (proj1 (Hin e) (nth_error_In _ _ Hi))) as [j' Hj'].
    specialize (Hd j e' n' Hj Ha'). specialize (Hd' j' e n Hj' Ha).
    assert (En : n' = n) by lia. subst n'.
    assert (Et : e = e').
    { destruct (Nat.eq_dec i j) as [Eij|Nij]; [subst j; congruence|].
      destruct (Nat.eq_dec i' j') as [Eij'|Nij']; [subst j'; congruence|].
      exfalso. apply (inverted_no_common f es1 es2 s i j i' j' e e' n Hall Hs); try assumption; lia. }
    subst e'. congruence.
  - exfalso. destruct H1 as [i [e [[[e0 [Hi0 Ha]] _] [Hi _]]]]. rewrite Hi in Hi0. inversion Hi0; subst e0.
    destruct (In_nth_error es2 e (proj1 (Hin e) (nth_error_In _ _ Hi))) as [j' Hj'].
    apply (H2 j' e n Hj' Ha).
  - exfalso. destruct H2 as [i' [e' [[[e0 [Hi0' Ha']] _] [Hi' _]]]]. rewrite Hi' in Hi0'. inversion Hi0'; subst e0.
    destruct (In_nth_error es1 e' (proj2 (Hin e') (nth_error_In _ _ Hi'))) as [j Hj].
    apply (H1 j e' n' Hj Ha').
  - reflexivity.
Qed.

Lemma reorder_conflicts_nil f es1 es2 :
  same_entries es1 es2 = true -> reorder_conflicts f es1 es2 = [] -> reorder_check f es1 es2 = true.
Proof.
  unfold reorder_check, reorder_conflicts. intros Hs Hc. rewrite Hs. cbn [andb].
  induction (inverted_pairs es1 es2) as [|p l IH]; [reflexivity|].
  cbn [flat_map forallb] in *. apply app_eq_nil in Hc as [Hp Hl].
  rewrite (IH Hl), andb_true_r. unfold no_overlap.
  destruct (overlap_check f (e_pat (fst p)) (e_pat (snd p))) as [[w|]|]; try discriminate. reflexivity.
Qed.

(** every reported conflict with a word really is a pair matching that word *)
Lemma reorder_conflicts_witness f es1 es2 a b w :
  In (a, b, Some w) (reorder_conflicts f es1 es2) ->
  w <> [] /\ Forall is_code_point w /\ matches (e_pat a) w /\ matches (e_pat b) w.
Proof.
  unfold reorder_conflicts. intros H. apply in_flat_map in H. destruct H as [p [_ Hp]].
  destruct (overlap_check f (e_pat (fst p)) (e_pat (snd p))) as [[w0|]|] eqn:Eo.
  - destruct Hp as [Hp|[]]. inversion Hp; subst. apply (overlap_check_witness _ _ _ _ Eo).
  - destruct Hp.
  - destruct Hp as [Hp|[]]. discriminate.
Qed.

(** ** Whole-text tokenisation *)

(** same transitions, and the entry lists select the same match on every code-point text *)
Definition mode_equiv (m1 m2 : mode) : Prop :=
  snd m1 = snd m2 /\
  forall s, Forall is_code_point s -> best_match (fst m1) s = best_match (fst m2) s.

Theorem tokenize_equiv modes1 modes2 :
  Forall2 mode_equiv modes1 modes2 ->
  forall f cur stack s pos, Forall is_code_point s ->
  tokenize f modes1 cur stack s pos = tokenize f modes2 cur stack s pos.
Proof.
  intros HF. induction f as [|f IH]; intros cur stack s pos Hs; cbn [tokenize]; [reflexivity|].
  destruct s as [|c s']; [reflexivity|].
  assert (Hm : match nth_error modes1 cur, nth_error modes2 cur with
               | Some m1, Some m2 => mode_equiv m1 m2
               | None, None => True
               | _, _ => False
               end).
  { clear -HF. revert cur. induction HF as [|m1 m2 l1 l2 Hm _ IHF]; intros [|cur]; cbn [nth_error];
      [exact I | exact I | exact Hm | apply IHF]. }
  destruct (nth_error modes1 cur) as [[es1 tr1]|]; destruct (nth_error modes2 cur) as [[es2 tr2]|];
    try contradiction; [|reflexivity].
  destruct Hm as [Htr Hbm]. cbn [fst snd] in Htr, Hbm. subst tr2. rewrite <- (Hbm _ Hs).
  destruct (best_match es1 (c :: s')) as [[t n]|].
  - rewrite IH; [reflexivity|]. apply Forall_skipn. exact Hs.
  - apply IH. inversion Hs; assumption.
Qed.

Definition action_eqb (a b : action) : bool :=
  match a, b with
  | Enter m, Enter k => Nat.eqb m k
  | Push m, Push k => Nat.eqb m k
  | Pop, Pop => true
  | _, _ => false
  end.

Fixpoint trans_eqb (a b : list (N * action)) : bool :=
  match a, b with
  | [], [] => true
  | (t1, a1) :: a', (t2, a2) :: b' => N.eqb t1 t2 && action_eqb a1 a2 && trans_eqb a' b'
  | _, _ => false
  end.

Lemma action_eqb_eq a b : action_eqb a b = true -> a = b.
Proof.
  destruct a, b; cbn [action_eqb]; intros H; try discriminate; try reflexivity;
    apply Nat.eqb_eq in H; subst; reflexivity.
Qed.

Lemma trans_eqb_eq a : forall b, trans_eqb a b = true -> a = b.
Proof.
  induction a as [|[t1 a1] a IH]; intros [|[t2 a2] b] H; cbn [trans_eqb] in H;
    try discriminate; [reflexivity|].
  apply andb_prop in H as [H H3]. apply andb_prop in H as [H1 H2].
  apply N.eqb_eq in H1. apply action_eqb_eq in H2. apply IH in H3. subst. reflexivity.
Qed.

(** modes related pointwise: equal transition tables, reordered entry lists *)
Fixpoint modes_reorder_check (fuel : nat) (ms1 ms2 : list mode) : bool :=
  match ms1, ms2 with
  | [], [] => true
  | m1 :: ms1', m2 :: ms2' =>
    trans_eqb (snd m1) (snd m2) && reorder_check fuel (fst m1) (fst m2) &&
    modes_reorder_check fuel ms1' ms2'
  | _, _ => false
  end.

Lemma modes_reorder_check_equiv f ms1 : forall ms2,
  modes_reorder_check f ms1 ms2 = true -> Forall2 mode_equiv ms1 ms2.
Proof.
  induction ms1 as [|m1 ms1 IH]; intros [|m2 ms2] H; cbn [modes_reorder_check] in H;
    try discriminate; constructor.
  - apply andb_prop in H as [H _]. apply andb_prop in H as [H1 H2]. split.
    + apply trans_eqb_eq. exact H1.
    + apply reorder_check_sound with (f := f). exact H2.
  - apply IH. apply andb_prop in H as [_ H]. exact H.
Qed.

Theorem tokenize_reorder f modes1 modes2 :
  modes_reorder_check f modes1 modes2 = true ->
  forall s, Forall is_code_point s -> tokenize_all modes1 s = tokenize_all modes2 s.
Proof.
  intros H s Hs. unfold tokenize_all.
  apply (tokenize_equiv _ _ (modes_reorder_check_equiv f _ _ H)). exact Hs.
Qed.

(** single mode *)
Corollary tokenize_reorder_single f es1 es2 tr :
  reorder_check f es1 es2 = true ->
  forall s, Forall is_code_point s -> tokenize_all [(es1, tr)] s = tokenize_all [(es2, tr)] s.
Proof.
  intros H s Hs. unfold tokenize_all. apply tokenize_equiv; [|exact Hs].
  constructor; [|constructor]. split; [reflexivity|]. cbn [fst].
  apply reorder_check_sound with (f := f). exact H.
Qed.

(** ** Example: the terminal lists of parol's own scanner and of the language server

    Transcribed from the [scanner!] blocks of crates/parol/src/parser/parol_parser.rs and
    crates/parol-ls/src/parol_ls_parser.rs.  Token types are parol's numbers in both lists (the
    language server numbers its terminals in its own order; equal patterns are given equal
    numbers here). *)
Module ParolScanners.
  Import Ascii String.
  Fixpoint codes (s : string) : list N :=
    match s with
    | EmptyString => []
    | String a s' => N_of_ascii a :: codes s'
    end.
  Definition lit (s : string) : regex := rstr (codes s).
  Definition tok (t : N) (r : regex) : entry := (t, r, None).

  (* CR LF | CR | LF *)
  Definition newline_rx : regex := Alt (rstr [13; 10]%N) (Alt (rchar 13) (rchar 10)).
  (* [\s--\r\n]+ : Unicode White_Space without CR and LF *)
  Definition ws_rx : regex :=
    rplus (Cls [(9, 9); (11, 12); (32, 32); (133, 133); (160, 160); (5760, 5760); (8192, 8202);
                (8232, 8233); (8239, 8239); (8287, 8287); (12288, 12288)]%N).
  (* q ( backslash dot | [^q] )* q *)
  Definition quoted (q : N) : regex :=
    Cat (rchar q) (Cat (Star (Alt (Cat (rchar 92) dot) (cls_not [q]))) (rchar q)).
  (* [a-zA-Z_][a-zA-Z0-9_]* *)
  Definition ident_rx : regex :=
    Cat (Cls [(97, 122); (65, 90); (95, 95)]%N)
        (Star (Cls [(97, 122); (65, 90); (48, 57); (95, 95)]%N)).

  Local Open Scope string_scope.
  Definition t01 := tok 1 newline_rx.
  Definition t02 := tok 2 ws_rx.
  Definition t03 := tok 3 (parol_line_rx (codes "//")).
  Definition t04 := tok 4 parol_c_style_rx.
  Definition t05 := tok 5 (lit "%start").
  Definition t06 := tok 6 (lit "%title").
  Definition t07 := tok 7 (lit "%comment").
  Definition t08 := tok 8 (lit "%user_type").
  Definition t09 := tok 9 (lit "=").
  Definition t10 := tok 10 (lit "%nt_type").
  Definition t11 := tok 11 (lit "%t_type").
  Definition t12 := tok 12 (lit "%grammar_type").
  Definition t13 := tok 13 (lit "%line_comment").
  Definition t14 := tok 14 (lit "%block_comment").
  Definition t15 := tok 15 (lit "%auto_newline_off").
  Definition t16 := tok 16 (lit "%auto_ws_off").
  Definition t17 := tok 17 (lit "%skip").
  Definition t18 := tok 18 (lit "%on").
  Definition t19 := tok 19 (lit "%allow_unmatched").
  Definition t20 := tok 20 (lit "%enter").
  Definition t21 := tok 21 (lit "%push").
  Definition t22 := tok 22 (lit "%pop").
  Definition t23 := tok 23 (lit "%%").
  Definition t24 := tok 24 (lit "::").
  Definition t25 := tok 25 (lit ":").
  Definition t26 := tok 26 (lit ";").
  Definition t27 := tok 27 (lit "|").
  Definition t28 := tok 28 (lit "<").
  Definition t29 := tok 29 (lit ">").
  Definition t30 := tok 30 (quoted 34).          (* String *)
  Definition t31 := tok 31 (quoted 39).          (* RawString / LiteralString *)
  Definition t32 := tok 32 (quoted 47).          (* Regex *)
  Definition t33 := tok 33 (lit "(").
  Definition t34 := tok 34 (lit ")").
  Definition t35 := tok 35 (lit "[").
  Definition t36 := tok 36 (lit "]").
  Definition t37 := tok 37 (lit "{").
  Definition t38 := tok 38 (lit "}").
  Definition t39 := tok 39 ident_rx.
  Definition t40 := tok 40 (lit "%scanner").
  Definition t41 := tok 41 (lit ",").
  Definition t42 := tok 42 (lit "@").
  Definition t43 := tok 43 (lit "^").
  Definition t44 := tok 44 (lit "?=").
  Definition t45 := tok 45 (lit "?!").
  Definition t46 := tok 46 dot.                  (* Error *)

  Definition parol_entries : list entry :=
    [t01; t02; t03; t04; t05; t06; t07; t08; t09; t10; t11; t12; t13; t14; t15; t16; t17; t18; t19;
     t20; t21; t22; t23; t24; t25; t26; t27; t28; t29; t30; t31; t32; t33; t34; t35; t36; t37; t38;
     t39; t40; t41; t42; t43; t44; t45; t46].

  (* the language server lists String and LiteralString after Identifier, Regex after CutOperator *)
  Definition ls_entries : list entry :=
    [t01; t02; t03; t04; t05; t06; t07; t08; t09; t10; t11; t12; t13; t14; t15; t16; t17; t18; t19;
     t20; t21; t22; t23; t24; t25; t26; t27; t28; t29; t33; t34; t35; t36; t37; t38; t39; t30; t31;
     t40; t41; t42; t43; t32; t44; t45; t46].

  Example ex_inverted_count : List.length (inverted_pairs parol_entries ls_entries) = 25.
  Proof. vm_compute. reflexivity. Qed.

  Example ex_reorder_check : reorder_check 100 parol_entries ls_entries = true.
  Proof. vm_compute. reflexivity. Qed.

  Example ex_reorder_conflicts : reorder_conflicts 100 parol_entries ls_entries = [].
  Proof. vm_compute. reflexivity. Qed.

  (** both scanners tokenise every text alike *)
  Theorem parol_ls_same_tokens s :
    Forall is_code_point s ->
    tokenize_all [(parol_entries, [])] s = tokenize_all [(ls_entries, [])] s.
  Proof. apply (tokenize_reorder_single 100). exact ex_reorder_check. Qed.

  (* the check is not vacuous: moving Regex in front of the comments is rejected, with the common
     word "//" (LineComment) *)
  Example ex_conflict :
    reorder_conflicts 100 [t03; t32] [t32; t03] = [(t03, t32, Some [47; 47]%N)].
  Proof. vm_compute. reflexivity. Qed.
  (* keyword against identifier-like overlap: "::" and ":" do not overlap, "%on" and "%%" neither *)
  Example ex_overlap :
    overlap_check 100 (lit "::") (lit ":") = Some None
    /\ overlap_check 100 ident_rx (lit "start") = Some (Some (codes "start"))
    /\ overlap_check 0 ident_rx (lit "start") = None.
  Proof. vm_compute. repeat split. Qed.

  Example ex_tokenize :
    tokenize_all [(parol_entries, [])] (codes "%start S /a/ // x")
    = tokenize_all [(ls_entries, [])] (codes "%start S /a/ // x").
  Proof. vm_compute. reflexivity. Qed.
End ParolScanners.

Print Assumptions overlap_check_sound.
Print Assumptions overlap_check_witness.
Print Assumptions reorder_check_sound.
Print Assumptions tokenize_equiv.
Print Assumptions tokenize_reorder.
Print Assumptions tokenize_reorder_single.
Print Assumptions ParolScanners.parol_ls_same_tokens.
