module String = Stdlib.String
module List = Stdlib.List
module Char = Stdlib.Char
(* drv — evaluates the extracted Coq models / checkers on the cases the Rust harness printed.
   Reads one S-expression per line on stdin; prints one verdict line per case:
     OK <nontrivial:0|1>
     FAIL <reason>
     SKIP <reason>
   Lines that do not start with '(' are ignored (harness diagnostics). *)
open Sexp
open Conv

let c31 = function
  | [act; exp; A "panic"; _] ->
    ignore act; ignore exp; "FAIL implementation panicked"
  | [act; exp; d; ops] ->
    let act' = ns_of_sx act and exp' = ns_of_sx exp in
    let d' = nat_of_int (int_of_sx d) in
    let ops' = Stdlib.List.map (function 0 -> Levenshtein.Keep | 1 -> Levenshtein.Insert | 2 -> Levenshtein.Delete
                                  | 3 -> Levenshtein.Replace | _ -> failwith "op") (ints_of_sx ops) in
    if Levenshtein.lev_check act' exp' d' ops' then
      let nt = act' <> [] && exp' <> [] && act' <> exp' in
      (* informational: does the faithful model give the very same script? *)
      let (md, mops) = LevFaithful.lev act' exp' in
      Printf.sprintf "OK %d %s" (if nt then 1 else 0) (if md = d' && mops = ops' then "same-as-faithful-model" else "other-minimal-script")
    else
      Printf.sprintf "FAIL lev_check rejected (model distance %d)" (int_of_nat (Levenshtein.dist act' exp'))
  | _ -> "FAIL malformed case"

(* grammars: (start (lhs sym ...) ...), sym = terminal t >= 0 | -(a+1) for non-terminal a *)
let sym_of_int i = if i >= 0 then Cfg.T (n_of_int i) else Cfg.NT (n_of_int (-i - 1))
let cfg_of_sx = function
  | L (st :: ps) ->
    { Cfg.start = n_of_int (int_of_sx st);
      prods = Stdlib.List.map (fun p -> match ints_of_sx p with
          | l :: r -> { Cfg.lhs = n_of_int l; rhs = Stdlib.List.map sym_of_int r }
          | [] -> failwith "prod") ps }
  | _ -> failwith "cfg"

let member g w = match Member.member (Member.member_fuel g w) g w with
  | Some b -> b
  | None -> failwith "member: out of fuel (impossible by member_fuel_suffices)"

(* all strings over terminals ts up to length n *)
let rec strings ts n = if n = 0 then [[]] else
    let shorter = strings ts (n - 1) in
    shorter @ Stdlib.List.concat_map (fun s -> if Stdlib.List.length s = n - 1 then Stdlib.List.map (fun t -> t :: s) ts else []) shorter

let cfg_terminals g =
  Stdlib.List.sort_uniq compare (Stdlib.List.concat_map (fun p -> Stdlib.List.filter_map (function Cfg.T t -> Some t | _ -> None) p.Cfg.rhs) g.Cfg.prods)

(* C11 *)
let c11 = function
  | [g; nul; unp; rea; unr; lrc; dll; dlr] ->
    let g' = cfg_of_sx g in
    let panics = WellFormed.nullable_panics g' in
    let fails = ref [] in
    let add k = fails := k :: !fails in
    let set chk name = function
      | A "panic" -> if (name = "nullable" || name = "leftrec") && panics then add "start-symbol-without-production" else add (name ^ "-panic")
      | l -> if not (chk g' (ns_of_sx l)) then add name in
    set WellFormed.nullable_check "nullable" nul;
    set WellFormed.unproductive_check "unproductive" unp;
    set WellFormed.reachable_check "reachable" rea;
    set WellFormed.unreachable_check "unreachable" unr;
    set WellFormed.leftrec_check "leftrec" lrc;
    let dec is_ll name = function
      | A "panic" -> add (name ^ "-panic")
      | L [A "ok"] -> if not (WellFormed.decision_check is_ll g' WellFormed.Ok) then add name
      | L [A "nonproductive"; l] -> if not (WellFormed.decision_check is_ll g' (WellFormed.NonProductive (ns_of_sx l))) then add name
      | L [A "unreachable"; l] -> if not (WellFormed.decision_check is_ll g' (WellFormed.Unreachable (ns_of_sx l))) then add name
      | L [A "leftrec"; l] -> if not (WellFormed.decision_check is_ll g' (WellFormed.LeftRecursive (ns_of_sx l))) then add name
      | _ -> add (name ^ "-othererr") in
    dec true "decision-ll" dll;
    dec false "decision-lr" dlr;
    (match Stdlib.List.sort_uniq compare !fails with
     | [] ->
       let kind = (match WellFormed.check_decision true g' with
           | WellFormed.Ok -> "accepted" | WellFormed.NonProductive _ -> "nonproductive" | WellFormed.Unreachable _ -> "unreachable"
           | WellFormed.LeftRecursive _ -> "leftrec" | WellFormed.ModelError -> "modelerror") in
       let nonempty = function L (_ :: _) -> true | _ -> false in
       let nt = nonempty nul || nonempty unp || nonempty lrc || nonempty unr in
       Printf.sprintf "OK %d %s" (if nt then 1 else 0) kind
     | ks -> Printf.sprintf "FAIL key=%s the real result differs from the defined set / decision" (Stdlib.String.concat "+" ks))
  | _ -> "FAIL malformed case"

(* C05 / C06 *)
let strs_of_sx x = Stdlib.List.map ns_of_sx (list_of_sx x)
let show_strs l = "{" ^ Stdlib.String.concat "," (Stdlib.List.map (fun s -> "[" ^ Stdlib.String.concat " " (Stdlib.List.map (fun t -> string_of_int (int_of_n t)) s) ^ "]") l) ^ "}"
let ff_fuel = nat_of_int 4000
let nts_of g = Stdlib.List.sort_uniq compare (Stdlib.List.map int_of_n (Cfg.nts g))

let c06_first = function
  | [_; _; A "panic"] -> "FAIL key=panic first_k panicked"
  | [g; k; ntsets; prsets; _order] ->
    let g' = cfg_of_sx g and k' = int_of_sx k in
    (* the implementation numbers non-terminals like the harness: index in sorted name order *)
    let claimed = Stdlib.List.mapi (fun i s -> (n_of_int i, strs_of_sx s)) (list_of_sx ntsets) in
    let claimed = Stdlib.List.filter (fun (a, _) -> Stdlib.List.mem (int_of_n a) (nts_of g')) claimed in
    let prs = Stdlib.List.map strs_of_sx (list_of_sx prsets) in
    (match FFCheck.first_check ff_fuel (nat_of_int k') g' claimed, FFCheck.first_prods_check ff_fuel (nat_of_int k') g' prs with
     | Some true, Some true ->
       let recursive = Stdlib.List.exists (fun p -> Stdlib.List.exists (function Cfg.NT _ -> true | _ -> false) p.Cfg.rhs) g'.Cfg.prods in
       Printf.sprintf "OK %d first-k%d" (if k' >= 2 && recursive then 1 else 0) k'
     | None, _ | _, None -> "SKIP reference out of fuel"
     | Some false, _ ->
       let t = (match FirstFollow.first_ref ff_fuel (nat_of_int k') g' with Some t -> t | None -> []) in
       let bad = Stdlib.List.find (fun (a, s) -> Stdlib.List.sort compare s <> Stdlib.List.sort compare (FirstFollow.lookup t a)) claimed in
       Printf.sprintf "FAIL key=first-nt FIRST_%d of non-terminal %d: claimed %s, defined %s" k' (int_of_n (fst bad)) (show_strs (snd bad)) (show_strs (FirstFollow.lookup t (fst bad)))
     | _, Some false -> Printf.sprintf "FAIL key=first-prod FIRST_%d of some production differs from the definition" k')
  | _ -> "FAIL malformed case"

let c06_follow = function
  | [_; _; A "panic"] -> "FAIL key=panic follow_k panicked"
  | [g; k; ntsets; _order] ->
    let g' = cfg_of_sx g and k' = int_of_sx k in
    let claimed = Stdlib.List.mapi (fun i s -> (n_of_int i, strs_of_sx s)) (list_of_sx ntsets) in
    let claimed = Stdlib.List.filter (fun (a, _) -> Stdlib.List.mem (int_of_n a) (nts_of g')) claimed in
    (match FFCheck.follow_check ff_fuel (nat_of_int k') g' claimed with
     | Some true -> Printf.sprintf "OK %d follow-k%d" (if k' >= 2 then 1 else 0) k'
     | None -> "SKIP reference out of fuel"
     | Some false ->
       let wt = (match FirstFollow.first_ref ff_fuel (nat_of_int k') g' with
           | Some ft -> (match FirstFollow.follow_ref ff_fuel (nat_of_int k') g' ft with Some w -> w | None -> [])
           | None -> []) in
       let bad = Stdlib.List.find (fun (a, s) -> Stdlib.List.sort compare s <> Stdlib.List.sort compare (FirstFollow.lookup wt a)) claimed in
       Printf.sprintf "FAIL key=follow FOLLOW_%d of non-terminal %d: claimed %s, defined %s" k' (int_of_n (fst bad)) (show_strs (snd bad)) (show_strs (FirstFollow.lookup wt (fst bad))))
  | _ -> "FAIL malformed case"

let c05 = function
  | [_; _; A "panic"] -> "FAIL key=panic decidable / calculate_lookahead_dfas panicked"
  | [g; kk; rows; all] ->
    let g' = cfg_of_sx g and kk' = int_of_sx kk in
    let claimed = Stdlib.List.map (function
        | L [a; A "none"] -> (n_of_int (int_of_sx a), None)
        | L [a; k] -> (n_of_int (int_of_sx a), Some (nat_of_int (int_of_sx k)))
        | _ -> failwith "row") (list_of_sx rows) in
    let claimed = Stdlib.List.filter (fun (a, _) -> Stdlib.List.mem (int_of_n a) (nts_of g')) claimed in
    (match FFCheck.decide_check ff_fuel (nat_of_int kk') g' claimed with
     | None -> "SKIP reference out of fuel"
     | Some false ->
       let model = (match FirstFollow.decide_ref ff_fuel (nat_of_int kk') g' with Some r -> r | None -> []) in
       let show = Stdlib.List.map (fun (a, r) -> Printf.sprintf "%d:%s" (int_of_n a) (match r with Some k -> string_of_int (int_of_nat k) | None -> "none")) in
       Printf.sprintf "FAIL key=decision per-non-terminal lookahead: claimed %s, defined %s" (Stdlib.String.concat " " (show claimed)) (Stdlib.String.concat " " (show (Stdlib.List.sort compare model)))
     | Some true ->
       (* the overall verdict must agree with the rows: Ok iff no row is none, and every automaton's k
          is the k decided for its non-terminal *)
       let any_none = Stdlib.List.exists (fun (_, r) -> r = None) claimed in
       let maxk = Stdlib.List.fold_left (fun m (_, r) -> match r with Some k -> max m (int_of_nat k) | None -> m) 0 claimed in
       (match all with
        | L (A "ok" :: ks) when not any_none ->
          let bad = Stdlib.List.filter (fun e -> match ints_of_sx e with
              | [a; k] -> (match Stdlib.List.assoc_opt (n_of_int a) claimed with Some (Some k') -> int_of_nat k' <> k | _ -> true)
              | _ -> true) ks in
          if bad = [] then Printf.sprintf "OK %d accept-k%d" (if maxk >= 1 then 1 else 0) maxk
          else Printf.sprintf "FAIL key=automaton-k lookahead automaton of non-terminal %s has a k different from the decided minimal k" (Sexp.to_string (Stdlib.List.hd bad))
        | L [A "err"] when any_none -> "OK 1 reject"
        | _ -> "FAIL key=verdict calculate_lookahead_dfas disagrees with the per-non-terminal decisions"))
  | _ -> "FAIL malformed case"

(* which property is being decided (some case kinds are read differently per property) *)
let prop = try Sys.getenv "PV_PROP" with Not_found -> ""

(* classification only (used for known-finding keys): does some non-terminal derive itself, A =>+ A ? *)
let cyclic (g : Cfg.cfg) : bool =
  let nts = Stdlib.List.sort_uniq compare (Stdlib.List.map int_of_n (Cfg.nts g)) in
  let nullable = Hashtbl.create 16 in
  let changed = ref true in
  while !changed do
    changed := false;
    Stdlib.List.iter (fun p ->
        let l = int_of_n p.Cfg.lhs in
        if not (Hashtbl.mem nullable l) &&
           Stdlib.List.for_all (function Cfg.NT a -> Hashtbl.mem nullable (int_of_n a) | Cfg.T _ -> false) p.Cfg.rhs
        then (Hashtbl.replace nullable l (); changed := true)) g.Cfg.prods
  done;
  let isnull = function Cfg.NT a -> Hashtbl.mem nullable (int_of_n a) | Cfg.T _ -> false in
  let edges = Stdlib.List.concat_map (fun p ->
      let r = p.Cfg.rhs in
      Stdlib.List.concat (Stdlib.List.mapi (fun i s -> match s with
          | Cfg.NT b when Stdlib.List.for_all isnull (Stdlib.List.filteri (fun j _ -> j <> i) r) -> [(int_of_n p.Cfg.lhs, int_of_n b)]
          | _ -> []) r)) g.Cfg.prods in
  let reach = Hashtbl.create 16 in
  Stdlib.List.iter (fun e -> Hashtbl.replace reach e ()) edges;
  let ch = ref true in
  while !ch do
    ch := false;
    Stdlib.List.iter (fun a -> Stdlib.List.iter (fun b -> Stdlib.List.iter (fun c ->
        if Hashtbl.mem reach (a, b) && Hashtbl.mem reach (b, c) && not (Hashtbl.mem reach (a, c)) then (Hashtbl.replace reach (a, c) (); ch := true)) nts) nts) nts
  done;
  Stdlib.List.exists (fun a -> Hashtbl.mem reach (a, a)) nts

(* C04: unverified search for an ambiguity witness (two different derivation trees of the same word); the witness is
   validated by the proved checker Ambig.ambig_check *)
let ambiguity_witness (g : Cfg.cfg) (words : BinNums.coq_N list list) : (Cfg.tree * Cfg.tree) option =
  let prods_of a = Stdlib.List.filter (fun p -> p.Cfg.lhs = a) g.Cfg.prods in
  (* all trees (at most [limit]) of symbol s deriving w, derivation depth bounded *)
  let rec trees (s : Cfg.sym) (w : BinNums.coq_N list) (depth : int) (limit : int) : Cfg.tree list =
    if depth <= 0 then [] else
      match s with
      | Cfg.T t -> (match w with [x] when x = t -> [Cfg.Leaf t] | _ -> [])
      | Cfg.NT a ->
        let res = ref [] in
        Stdlib.List.iter (fun p ->
            if Stdlib.List.length !res < limit then
              Stdlib.List.iter (fun cs -> if Stdlib.List.length !res < limit then res := !res @ [Cfg.Node (p, cs)])
                (forests p.Cfg.rhs w (depth - 1) (limit - Stdlib.List.length !res))) (prods_of a);
        !res
  and forests (syms : Cfg.sym list) (w : BinNums.coq_N list) (depth : int) (limit : int) : Cfg.tree list list =
    match syms with
    | [] -> if w = [] then [[]] else []
    | s :: rest ->
      let n = Stdlib.List.length w in
      let res = ref [] in
      for i = 0 to n do
        if Stdlib.List.length !res < limit then begin
          let w1 = Stdlib.List.filteri (fun j _ -> j < i) w and w2 = Stdlib.List.filteri (fun j _ -> j >= i) w in
          let ts = trees s w1 depth limit in
          if ts <> [] then begin
            let fs = forests rest w2 depth limit in
            Stdlib.List.iter (fun t -> Stdlib.List.iter (fun f -> if Stdlib.List.length !res < limit then res := !res @ [t :: f]) fs) ts
          end
        end
      done;
      !res in
  let nnt = Stdlib.List.length (Stdlib.List.sort_uniq compare (Stdlib.List.map (fun p -> p.Cfg.lhs) g.Cfg.prods)) in
  let found = ref None in
  Stdlib.List.iter (fun w ->
      if !found = None && Stdlib.List.length w <= 4 then
        (match trees (Cfg.NT g.Cfg.start) w (Stdlib.List.length w + nnt + 2) 2 with
         | t1 :: t2 :: _ -> found := Some (t1, t2)
         | _ -> ())) words;
  !found

(* C03 / C04 *)
let lr_table_of_sx = function
  | L [L acts; L sts; L prs; st; nterm; nnt] ->
    let act = function
      | L [A "s"; n] -> LRParser.Shift (n_of_int (int_of_sx n))
      | L [A "r"; nt; p] -> LRParser.Reduce (n_of_int (int_of_sx nt), n_of_int (int_of_sx p))
      | L [A "a"] -> LRParser.Accept
      | _ -> failwith "action" in
    let pairs l = Stdlib.List.map (fun e -> match ints_of_sx e with [a; b] -> (n_of_int a, n_of_int b) | _ -> failwith "pair") (list_of_sx l) in
    let state = function L [a; g] -> { LRParser.st_actions = pairs a; st_gotos = pairs g } | _ -> failwith "state" in
    let prod e = match ints_of_sx e with [l; n] -> { LRParser.lp_lhs = n_of_int l; lp_len = nat_of_int n } | _ -> failwith "prod" in
    { LRParser.lr_actions = Stdlib.List.map act acts; lr_states = Stdlib.List.map state sts; lr_prods = Stdlib.List.map prod prs;
      lr_start = n_of_int (int_of_sx st); lr_nterm = n_of_int (int_of_sx nterm); lr_nnt = n_of_int (int_of_sx nnt) }
  | _ -> failwith "lr table"

(* tree -> event list in the harness notation, significant tokens only *)
let rec events_of_tree = function
  | Cfg.Leaf t -> [Printf.sprintf "t%d" (int_of_n t)]
  | Cfg.Node (p, cs) -> (Printf.sprintf "o%d" (int_of_n p.Cfg.lhs)) :: Stdlib.List.concat_map events_of_tree cs @ ["c"]

let events_of_sx (evs : Sexp.t) : string list =
  let l = Stdlib.List.filter_map (function
      | L [A "o"; n] -> Some (Printf.sprintf "o%s" (match n with A a -> a | _ -> "?"))
      | L [A "c"] -> Some "c"
      | L (A "t" :: ty :: _) -> let t = int_of_sx ty in if t >= 5 then Some (Printf.sprintf "t%d" t) else None
      | _ -> None) (list_of_sx evs) in
  (* strip a synthetic root (name not in the non-terminal table) *)
  match l with
  | "o-1" :: rest when rest <> [] && Stdlib.List.nth rest (Stdlib.List.length rest - 1) = "c" ->
    Stdlib.List.filteri (fun i _ -> i < Stdlib.List.length rest - 1) rest
  | _ -> l

let c03 = function
  | [g; L [A why]] ->
    let g0 = cfg_of_sx g in
    (match why with
     | "panic" ->
       if cyclic g0 then
         (if prop = "C03" then "OK 0 outside-quantifier:cyclic-grammar-panics"
          else "FAIL key=table-construction-panic-cyclic-grammar LALR(1) table construction panicked on a cyclic (hence non-LALR(1)) grammar instead of rejecting it")
       else "FAIL key=table-construction-panic grammar checks / LALR(1) table construction panicked"
     | "rejected-conflict" -> "OK 0 rejected-conflict"
     | _ -> "OK 0 " ^ why)
  | [g; L [A "built"; g2; tb; nconf; L runs]] ->
    let g0 = cfg_of_sx g and g2' = cfg_of_sx g2 and tb' = lr_table_of_sx tb and nconf' = int_of_sx nconf in
    let nstates = Stdlib.List.length tb'.LRParser.lr_states in
    let safe = LRValidate.lr_validate (nat_of_int (4 * nstates + 50)) g2' tb' in
    let problems = ref [] in
    let nontrivial = ref 0 in
    Stdlib.List.iter (fun r ->
        match r with
        | L [toks; A "panic"] -> problems := ("parser-panic", Sexp.to_string toks) :: !problems
        | L (toks :: verdict :: rest) ->
          let w = ns_of_sx toks in
          let inlang = member g0 w in
          let real_ok = (verdict = A "ok") in
          let fuel = nat_of_int ((Stdlib.List.length w + 2) * (nstates + 2) * 4 + 20) in
          let m = LRParser.lr_run fuel tb' w in
          if verdict = L [A "err"; L [A "depth"]] || verdict = L [A "err"; L [A "budget"]] then begin
            (* stack grew beyond 4000 entries on an input of a few tokens: the parser keeps reducing without consuming *)
            if m = LRParser.OutOfFuel then problems := ((if cyclic g0 then "lr-parser-does-not-terminate-cyclic-grammar" else "lr-parser-does-not-terminate"), Sexp.to_string toks) :: !problems
            else problems := ("depth-error-differs-from-model", Sexp.to_string toks) :: !problems
          end
          else if real_ok && not inlang then problems := ("accepts-non-sentence", Sexp.to_string toks) :: !problems
          else if (not real_ok) && inlang && nconf' = 0 then problems := ("rejects-sentence", Sexp.to_string toks) :: !problems
          else begin
            (match m, real_ok with
             | LRParser.Accepted (reds, forest), true ->
               let real_reds = (match rest with L acts :: _ -> Stdlib.List.map (fun a -> match ints_of_sx a with [p; _] -> p | _ -> -1) acts | _ -> []) in
               if Stdlib.List.map int_of_n reds <> real_reds then problems := ("reductions-differ-from-model", Sexp.to_string toks) :: !problems
               else begin
                 let real_evs = (match rest with [_; evs] -> events_of_sx evs | _ -> []) in
                 let model_evs = Stdlib.List.concat_map events_of_tree forest in
                 if real_evs <> model_evs then problems := ("tree-differs-from-model", Sexp.to_string toks) :: !problems
                 else if Stdlib.List.length w >= 2 then incr nontrivial
               end
             | LRParser.Rejected, false -> if Stdlib.List.length w >= 2 then incr nontrivial
             | LRParser.Accepted _, false | LRParser.Rejected, true -> problems := ("verdict-differs-from-model", Sexp.to_string toks) :: !problems
             | LRParser.OutOfFuel, _ -> ()
             | (LRParser.InternalErr _ | LRParser.Panic _), false -> ()
             | (LRParser.InternalErr _ | LRParser.Panic _), true -> problems := ("verdict-differs-from-model", Sexp.to_string toks) :: !problems)
          end
        | _ -> problems := ("malformed-run", "") :: !problems) runs;
    let start_rec = Stdlib.List.exists (fun p -> Stdlib.List.mem (Cfg.NT g0.Cfg.start) p.Cfg.rhs) g0.Cfg.prods in
    (* C03 quantifies over grammars accepted WITHOUT resolved conflicts: with conflicts only soundness counts there *)
    if prop = "C03" && nconf' > 0 then
      problems := Stdlib.List.filter (fun (k, _) -> k = "accepts-non-sentence" || k = "parser-panic") !problems;
    (* C04: a table without any reported conflict for a grammar with a CHECKED ambiguity witness *)
    if prop = "C04" && nconf' = 0 then begin
      let words = Stdlib.List.filter_map (function L (toks :: _) -> Some (ns_of_sx toks) | _ -> None) runs in
      let words = Stdlib.List.sort_uniq compare words in
      (match ambiguity_witness g2' words with
       | Some (t1, t2) when Ambig.ambig_check g2' t1 t2 ->
         problems := ("ambiguous-grammar-without-reported-conflict", Stdlib.String.concat " " (Stdlib.List.map (fun c -> string_of_int (int_of_n c)) (Cfg.yield t1))) :: !problems
       | _ -> ())
    end;
    (match Stdlib.List.rev !problems with
     | [] ->
       if safe then Printf.sprintf "OK %d %s%s" (if !nontrivial > 0 then 1 else 0) (if nconf' = 0 then "conflict-free" else "resolved-conflicts") (if start_rec then " recursive-start" else "")
       else Printf.sprintf "FAIL key=unsafe-table%s the LR safety validator rejects the generated table; no wrongly accepted input among the %d runs (no-failing-input-found)" (if start_rec then "-recursive-start" else "") (Stdlib.List.length runs)
     | (k, w) :: _ -> Printf.sprintf "FAIL key=%s%s on input %s (validator: %s, %d problem runs)" k (if start_rec && k = "accepts-non-sentence" then "-recursive-start" else "") w (if safe then "table safe" else "table UNSAFE") (Stdlib.List.length !problems))
  | _ -> "FAIL malformed case"

(* regexes: (eps) | (cls (lo hi)...) | (cat r...) | (alt r...) | (rep min max r) | (repinf min r) *)
let rec regex_of_sx (x : Sexp.t) : Regex.regex =
  match x with
  | L [A "eps"] -> Regex.Eps
  | L (A "cls" :: rs) -> Regex.Cls (Stdlib.List.map (fun r -> match ints_of_sx r with [a; b] -> (n_of_int a, n_of_int b) | _ -> failwith "range") rs)
  | L (A "cat" :: rs) -> (match Stdlib.List.rev_map regex_of_sx rs with
      | [] -> Regex.Eps
      | last :: before -> Stdlib.List.fold_left (fun acc r -> Regex.Cat (r, acc)) last before)
  | L (A "alt" :: rs) -> (match Stdlib.List.rev_map regex_of_sx rs with
      | [] -> Regex.Empty
      | last :: before -> Stdlib.List.fold_left (fun acc r -> Regex.Alt (r, acc)) last before)
  | L [A "rep"; mn; mx; r] -> Regex.rrep (regex_of_sx r) (nat_of_int (int_of_sx mn)) (nat_of_int (int_of_sx mx))
  | L [A "repinf"; mn; r] ->
    let m = int_of_sx mn in
    if m = 0 then Regex.Star (regex_of_sx r) else Regex.rrep_from (regex_of_sx r) (nat_of_int m)
  | _ -> failwith "regex"

let show_word w = "[" ^ Stdlib.String.concat " " (Stdlib.List.map (fun c -> string_of_int (int_of_n c)) w) ^ "]"

(* canonical equality pattern of a delimiter, e.g. "-->" -> "aab" *)
let eq_pattern (e : int list) : string =
  let seen = ref [] in
  Stdlib.String.concat "" (Stdlib.List.map (fun c ->
      let i = (match Stdlib.List.assoc_opt c !seen with Some i -> i | None -> let i = Stdlib.List.length !seen in seen := (c, i) :: !seen; i) in
      Stdlib.String.make 1 (Char.chr (97 + i))) e)

(* C15 *)
let c15_block = function
  | [_; _; A "panic"] -> "FAIL key=panic generate_build_information panicked"
  | [s; e; L [A "rejected"; _]] ->
    let e' = ints_of_sx e in
    if Stdlib.List.length e' > 3 || e' = [] then "OK 0 rejected-as-documented" else "FAIL key=rejected a delimiter pair with an end delimiter of 1-3 characters was rejected"
  | [_; _; L [A "untranslatable"; _]] -> "SKIP regex not expressible in the model"
  | [s; e; L [A "rx"; _; rx]] ->
    let s' = ints_of_sx s and e' = ints_of_sx e in
    let r = regex_of_sx rx in
    (match CommentCheck.block_check_sv (nat_of_int 1500) r (Stdlib.List.map n_of_int s') (Stdlib.List.map n_of_int e') with
     | None -> "SKIP equivalence check out of fuel"
     | Some None -> Printf.sprintf "OK 1 exact-%datom-%s" (Stdlib.List.length e') (eq_pattern e')
     | Some (Some w) ->
       let key = if s' = [47; 42] && e' = [42; 47] then "block-c-style-dedicated-regex"
         else Printf.sprintf "block-%datom-%s" (Stdlib.List.length e') (eq_pattern e') in
       let is_c = CommentSpec.dfa_accepts (CommentSpec.block_spec (Stdlib.List.map n_of_int s') (Stdlib.List.map n_of_int e')) w in
       Printf.sprintf "FAIL key=%s the generated block-comment regex and 'from start to the FIRST end delimiter' differ on %s (%s)" key (show_word w)
         (if is_c then "a comment the regex does not match" else "matched by the regex but runs past the first end delimiter or is no comment"))
  | _ -> "FAIL malformed case"

let c15_line = function
  | [_; A "panic"] -> "FAIL key=panic generate_build_information panicked"
  | [_; L [A "untranslatable"; _]] -> "SKIP regex not expressible in the model"
  | [_; L [A "rejected"; _]] -> "FAIL key=rejected line comment start rejected"
  | [s; L [A "rx"; _; rx]] ->
    let s' = Stdlib.List.map n_of_int (ints_of_sx s) in
    (match CommentCheck.line_check_sv (nat_of_int 1500) (regex_of_sx rx) s' with
     | None -> "SKIP equivalence check out of fuel"
     | Some None -> "OK 1 line-exact"
     | Some (Some w) ->
       let key = if Stdlib.List.mem (n_of_int 13) w then "line-comment-dot-matches-cr" else "line-comment" in
       Printf.sprintf "FAIL key=%s the generated line-comment regex and 'to the end of its line, including the line break' differ on %s" key (show_word w))
  | _ -> "FAIL malformed case"

(* C15: several comment styles in one scanner state = union of the single-style terminals *)
let c15_multi = function
  | [_; L [A why]] -> "OK 0 multi-" ^ why
  | (_ :: parts) ->
    let problems = ref [] and checked = ref 0 and skipped = ref 0 in
    Stdlib.List.iter (function
        | L [ti; _; multi; L singles] ->
          if multi = L [A "unsupported"] || Stdlib.List.mem (L [A "unsupported"]) singles then incr skipped
          else begin
            let m = regex_of_sx multi in
            let u = (match Stdlib.List.rev_map regex_of_sx singles with
                | [] -> Regex.Empty
                | last :: before -> Stdlib.List.fold_left (fun acc r -> Regex.Alt (r, acc)) last before) in
            (match RegexEquiv.equiv_check_cp (nat_of_int 3000) m u with
             | None -> incr skipped
             | Some None -> incr checked
             | Some (Some w) ->
               problems := Printf.sprintf "the %s-comment terminal for several styles differs from the union of the single-style terminals on %s"
                   (if int_of_sx ti = 3 then "line" else "block") (show_word w) :: !problems)
          end
        | _ -> problems := "malformed part" :: !problems) parts;
    (match !problems with
     | p :: _ -> "FAIL key=comment-styles-not-union " ^ p
     | [] -> if !checked > 0 then "OK 1 multi-style-union" else if !skipped > 0 then "SKIP equivalence check out of fuel or regex outside the model" else "OK 0 multi-single")
  | _ -> "FAIL malformed case"

(* C10 *)
let c10 = function
  | [_; A "panic"] -> "FAIL key=panic left_factor panicked"
  | [g; g'] ->
    let g1 = cfg_of_sx g and g2 = cfg_of_sx g' in
    let shared = Stdlib.List.exists (fun p -> Stdlib.List.exists (fun q ->
        p != q && p.Cfg.lhs = q.Cfg.lhs && p.Cfg.rhs <> [] && q.Cfg.rhs <> [] && Stdlib.List.hd p.Cfg.rhs = Stdlib.List.hd q.Cfg.rhs) g1.Cfg.prods) g1.Cfg.prods in
    if not (LeftFactor.lf_check g1 g2) then begin
      if not (LeftFactor.prefix_free_check g2) then "FAIL key=shared-prefix-left two non-empty alternatives of one non-terminal still start with the same symbol"
      else if not (LeftFactor.fresh_check g1 g2) then "FAIL key=name-clash a new suffix non-terminal coincides with an existing name"
      else "FAIL key=start-changed the start symbol changed"
    end else begin
      (* language of every old non-terminal, on all strings up to a bound *)
      let ts = cfg_terminals g1 in
      let bound = if Stdlib.List.length ts <= 2 then 5 else if Stdlib.List.length ts <= 3 then 4 else 3 in
      let ws = strings ts bound in
      let old_nts = Stdlib.List.sort_uniq compare (Stdlib.List.map (fun p -> p.Cfg.lhs) g1.Cfg.prods) in
      let from g a w = (match Member.member_from (Member.member_fuel g w) g [Cfg.NT a] w with Some b -> b | None -> failwith "fuel") in
      let bad = Stdlib.List.find_map (fun a -> Stdlib.List.find_map (fun w -> if from g1 a w <> from g2 a w then Some (a, w) else None) ws) old_nts in
      match bad with
      | Some (a, w) -> Printf.sprintf "FAIL key=language-changed non-terminal %d derives %s in exactly one of the two grammars" (int_of_n a) (show_word w)
      | None -> Printf.sprintf "OK %d %s" (if shared then 1 else 0) (if shared then "factored" else "nothing-to-factor")
    end
  | _ -> "FAIL malformed case"

(* C32 *)
module K = KTupleModel
let c32 = function
  | [m; L steps] ->
    let m' = n_of_int (int_of_sx m) in
    let regs = Array.make 4 (BinNums.N0) in
    let raw_of x = n_of_decimal (match x with A a -> a | _ -> failwith "raw") in
    let problem = ref None in
    let raw_same = ref true in
    let maxlen = ref 0 in
    let fail k msg = if !problem = None then problem := Some (k, msg) in
    (* compare an implementation result (raw) with a model result, by denotation *)
    let settle d (model : K.packed K.res) (raw : BinNums.coq_N) what =
      (match model with
       | K.Panic -> fail "model-panic" (what ^ ": the model says this call panics, the implementation returned a value")
       | K.Ok pm ->
         let pi = raw in
         if pm <> raw then raw_same := false;
         (match K.denote pi, K.denote pm with
          | Some a, Some b when a = b -> (match K.denote pi with Some l -> maxlen := max !maxlen (Stdlib.List.length l) | None -> ())
          | None, _ -> fail "ill-formed" (what ^ ": the implementation's value is not a well-formed packed sequence")
          | _, _ -> fail "denotation" (what ^ ": the value denotes a different sequence than the abstract operation yields")));
      regs.(d) <- raw in
    let panicked = ref false in
    Stdlib.List.iter (fun st ->
        if !problem = None && not !panicked then
          match st with
          | L [A "panic"] ->
            panicked := true
          | L [A "new"; d; r] -> settle (int_of_sx d) (K.coq_new true m') (raw_of r) "new"
          | L [A "eps"; d; r] -> settle (int_of_sx d) (K.eps true m') (raw_of r) "eps"
          | L [A "end"; d; r] -> settle (int_of_sx d) (K.end_ true m') (raw_of r) "end"
          | L [A "set"; d; r] ->
            (* a fresh new/eps/end value: accept whichever of the three the raw value equals by denotation *)
            let raw = raw_of r in
            let cands = [K.coq_new true m'; K.eps true m'; K.end_ true m'] in
            if Stdlib.List.exists (function K.Ok p -> K.denote p = K.denote raw | K.Panic -> false) cands
            then regs.(int_of_sx d) <- raw else fail "denotation" "fresh value is none of new/eps/end"
          | L [A "push"; d; t; ok; r] ->
            let d' = int_of_sx d in
            (match K.push true regs.(d') (n_of_int (int_of_sx t)) with
             | K.Panic -> fail "model-panic" "push"
             | K.Ok None -> if ok <> A "err" then fail "push-result" "push: Err expected" else regs.(d') <- raw_of r
             | K.Ok (Some p) -> if ok <> A "ok" then fail "push-result" "push: Ok expected" else settle d' (K.Ok p) (raw_of r) "push")
          | L [A "extend"; d; ts; r] -> let d' = int_of_sx d in settle d' (K.extend true regs.(d') (ns_of_sx ts)) (raw_of r) "extend"
          | L [A "kconcat"; d; s; k; r] -> let d' = int_of_sx d in
            settle d' (K.k_concat true regs.(d') regs.(int_of_sx s) (n_of_int (int_of_sx k))) (raw_of r) "k_concat"
          | L [A "of"; d; s; k; r] -> settle (int_of_sx d) (K.of_ true (n_of_int (int_of_sx k)) regs.(int_of_sx s)) (raw_of r) "of"
          | L [A "clear"; d; r] -> let d' = int_of_sx d in settle d' (K.clear true regs.(d')) (raw_of r) "clear"
          | L [A "obs"; d; len; k; klen; iseps; iskc; isempty; it; i; g] ->
            let p = regs.(int_of_sx d) in
            let k' = n_of_int (int_of_sx k) in
            let b x = int_of_sx x = 1 in
            if int_of_n (K.len p) <> int_of_sx len then fail "obs-len" "len"
            else if int_of_n (K.k_len p k') <> int_of_sx klen then fail "obs-k_len" "k_len"
            else if K.is_eps p <> b iseps then fail "obs-is_eps" "is_eps"
            else if K.is_k_complete p k' <> K.Ok (b iskc) then fail "obs-is_k_complete" "is_k_complete"
            else if K.is_empty p <> b isempty then fail "obs-is_empty" "is_empty"
            else if Stdlib.List.map int_of_n (K.iter p) <> ints_of_sx it then fail "obs-iter" "iter"
            else begin
              let gi = (match g with A "none" -> None | x -> Some (int_of_sx x)) in
              match K.get p (n_of_int (int_of_sx i)) with
              | K.Ok r -> if (match r with Some v -> Some (int_of_n v) | None -> None) <> gi then fail "obs-get" "get"
              | K.Panic -> fail "model-panic" "get"
            end
          | L [A "cmp"; a; b; c; e] ->
            let pa = regs.(int_of_sx a) and pb = regs.(int_of_sx b) in
            let want = (match c with A "lt" -> Datatypes.Lt | A "eq" -> Datatypes.Eq | _ -> Datatypes.Gt) in
            if K.cmp pa pb <> K.Ok want then fail "cmp" "ordering differs from the order on the denoted sequences"
            else if K.eqb pa pb <> (int_of_sx e = 1) then fail "eq" "equality differs"
          | _ -> fail "malformed" "step") steps;
    (match !problem with
     | Some (k, msg) -> Printf.sprintf "FAIL key=%s %s (max terminal index %d)" k msg (int_of_sx m)
     | None ->
       if !panicked then
         (* the only panic the model predicts in these sequences is Terminals::new beyond the 12 bit limit *)
         (match K.coq_new true m' with
          | K.Panic -> "OK 0 panic-as-modelled:more-than-4095-terminals"
          | K.Ok _ -> "FAIL key=impl-panic the implementation panicked where the model returns a value")
       else
         let mi = int_of_sx m in
         let boundary = (mi + 1) land mi = 0 || (mi + 2) land (mi + 1) = 0 in
         Printf.sprintf "OK %d %s %s" (if !maxlen >= 2 && (boundary || !maxlen >= 5) then 1 else 0) (if !raw_same then "raw-identical" else "raw-differs-denotation-equal") (if boundary then "boundary-alphabet" else "inner-alphabet"))
  | _ -> "FAIL malformed case"

(* C12 *)
let c12 = function
  | [_; A "panic"] -> "FAIL key=panic augment_grammar panicked"
  | [g; g'] ->
    let g1 = cfg_of_sx g and g2 = cfg_of_sx g' in
    let start_rec = Stdlib.List.exists (fun p -> Stdlib.List.mem (Cfg.NT g1.Cfg.start) p.Cfg.rhs) g1.Cfg.prods in
    let nstart = Stdlib.List.length (Stdlib.List.filter (fun p -> p.Cfg.lhs = g1.Cfg.start) g1.Cfg.prods) in
    let nt = start_rec || nstart >= 2 in
    let tag = if start_rec && nstart = 1 then "recursive-single-start" else if start_rec then "recursive-start" else if nstart >= 2 then "multi-start" else "plain" in
    if LrAugment.augment_check g1 g2 then Printf.sprintf "OK %d %s" (if nt then 1 else 0) tag
    else if not (LrAugment.isolatedb g2) then
      Printf.sprintf "FAIL key=%s start symbol of the augmented grammar is not isolated" (if start_rec && nstart = 1 then "not-isolated-recursive-single-start" else "not-isolated")
    else begin
      (* unexpected shape: search for a distinguishing string *)
      let ts = cfg_terminals g1 @ cfg_terminals g2 |> Stdlib.List.sort_uniq compare in
      let ws = strings ts 5 in
      match Stdlib.List.find_opt (fun w -> member g1 w <> member g2 w) ws with
      | Some w -> Printf.sprintf "FAIL key=language-changed distinguishing string (%s)" (Stdlib.String.concat " " (Stdlib.List.map (fun t -> string_of_int (int_of_n t)) w))
      | None -> "FAIL key=shape augment_check rejected the result shape; no distinguishing string up to length 5 (no-failing-input-found)"
    end
  | _ -> "FAIL malformed case"

(* C08 *)
let dfa_of_sx = function
  | L [p0; k; L ts] ->
    let tr = Stdlib.List.map (fun t -> match ints_of_sx t with
        | [f; c; t'; p] -> { DfaEval.t_from = n_of_int f; t_tok = n_of_int c; t_to = n_of_int t'; t_prod = z_of_int p }
        | _ -> failwith "trans") ts in
    { DfaEval.prod0 = z_of_int (int_of_sx p0); transitions = tr; depth = nat_of_int (int_of_sx k) }
  | _ -> failwith "dfa"

let c08 = function
  | [d; _; A "panic"] -> ignore d; "FAIL key=panic implementation panicked"
  | [d; buf; res] ->
    let d' = dfa_of_sx d in
    let buf' = ns_of_sx buf in
    if not (DfaEval.sortedb d'.DfaEval.transitions && DfaEval.wfd d') then "SKIP automaton not sorted/well-formed"
    else begin
      let k = int_of_nat d'.DfaEval.depth in
      match res with
      | L [A "err"; _] -> if Stdlib.List.length buf' < k then "SKIP short buffer" else "FAIL key=othererr unexpected error kind"
      | _ ->
        let r = (match res with L [A "ok"; p] -> Some (z_of_int (int_of_sx p)) | A "prederr" -> None | _ -> failwith "res") in
        (* non-trivial: the buffer follows the automaton for >= 1 token and then leaves it within depth *)
        let rec firstn n l = if n = 0 then [] else match l with [] -> [] | x :: t -> x :: firstn (n - 1) t in
        let runs n = DfaEval.run d'.DfaEval.transitions (firstn n buf') BinNums.N0 d'.DfaEval.prod0 <> None in
        let nt = ref false in
        for n = 1 to k - 1 do if runs n && not (runs (n + 1)) && Stdlib.List.length buf' > n then nt := true done;
        if DfaEval.eval_check d' buf' r then Printf.sprintf "OK %d %s" (if !nt then 1 else 0) (match r with Some _ -> "predict" | None -> "error")
        else begin
          let m = (match DfaEval.eval d' buf' with DfaEval.Predict p -> Printf.sprintf "predict %d" (int_of_z p) | DfaEval.PredictionError -> "prediction error" | DfaEval.LexerErr -> "lexer error") in
          let old = (match DfaEval.eval_old d' buf', r with DfaEval.Predict p, Some q when p = q -> " (agrees with the pre-fix walk eval_old: an unmatched token was skipped)" | _ -> "") in
          Printf.sprintf "FAIL key=%s eval_check rejected: model says %s%s" (if old <> "" then "skips-unmatched-token" else "mismatch") m old
        end
    end
  | _ -> "FAIL malformed case"

(* C07: reference lookahead families from the verified FIRST/FOLLOW reference *)
let la_families (g : Cfg.cfg) (kmax : int) : (int * (BinNums.coq_Z * BinNums.coq_N list list) list * int) list option =
  (* per non-terminal a: (a, family, decided k); None if some non-terminal is not decidable within kmax *)
  match FirstFollow.decide_ref ff_fuel (nat_of_int kmax) g with
  | None -> None
  | Some rows ->
    let tables = Hashtbl.create 8 in
    let get_tables k =
      (match Hashtbl.find_opt tables k with
       | Some t -> t
       | None ->
         let t = (match FirstFollow.first_ref ff_fuel (nat_of_int k) g with
             | Some ft -> (match FirstFollow.follow_ref ff_fuel (nat_of_int k) g ft with Some wt -> Some (ft, wt) | None -> None)
             | None -> None) in
         Hashtbl.replace tables k t; t) in
    let res = Stdlib.List.map (fun (a, r) ->
        let pidx = Stdlib.List.filteri (fun _ _ -> true) (Stdlib.List.mapi (fun i p -> (i, p)) g.Cfg.prods)
                   |> Stdlib.List.filter (fun (_, p) -> p.Cfg.lhs = a) |> Stdlib.List.map fst in
        match r with
        | None -> None
        | Some k ->
          let k' = int_of_nat k in
          if k' = 0 then Some (int_of_n a, Stdlib.List.map (fun i -> (z_of_int i, [[]])) pidx, 0)
          else (match get_tables k' with
              | None -> None
              | Some (ft, wt) ->
                let sets = FirstFollow.la_sets k g ft wt a in
                Some (int_of_n a, Stdlib.List.map2 (fun i s -> (z_of_int i, s)) pidx sets, k'))) rows in
    if Stdlib.List.exists (fun x -> x = None) res then None
    else Some (Stdlib.List.filter_map (fun x -> x) res)

let c07 = function
  | [_; _; L [A "panic"]] -> "FAIL key=panic the LL(k) pipeline panicked"
  | [_; _; L [A "rejected-by-checks"]] -> "OK 0 rejected-by-checks"
  | [_; _; L [A "export-error"]] -> "FAIL key=export-error export model generation failed"
  | [_; kk; L [A "not-ll-k"]] -> "OK 0 not-ll-k"
  | [_; kk; L [A "built"; g2; L autos]] ->
    let g = cfg_of_sx g2 in
    (match la_families g (int_of_sx kk) with
     | None -> "FAIL key=accepted-but-not-sll parol accepted the grammar but the verified reference finds a non-terminal not strong-LL(k) within K"
     | Some fams ->
       let alphabet = cfg_terminals g in
       let problems = ref [] in
       let big = ref false in
       Stdlib.List.iter (fun au ->
           match au with
           | L [nt; p0; k; L trs] ->
             let d = dfa_of_sx (L [p0; k; L trs]) in
             let a = int_of_sx nt in
             (match Stdlib.List.find_opt (fun (b, _, _) -> b = a) fams with
              | None -> problems := (Printf.sprintf "no-reference-for-nt-%d" a) :: !problems
              | Some (_, fam, kref) ->
                if not (LaTrie.la_dfa_check d fam alphabet) then problems := (Printf.sprintf "automaton-language nt %d" a) :: !problems
                else if not (LaTrie.la_depth_check d fam) then problems := (Printf.sprintf "automaton-depth nt %d (k %d, longest lookahead string differs)" a (int_of_sx k)) :: !problems
                else if Stdlib.List.length trs >= 3 then big := true)
           | _ -> problems := "malformed-automaton" :: !problems) autos;
       if Stdlib.List.length autos <> Stdlib.List.length fams then problems := "automaton-count" :: !problems;
       (match Stdlib.List.rev !problems with
        | [] -> Printf.sprintf "OK %d automata-exact" (if !big then 1 else 0)
        | p :: _ -> Printf.sprintf "FAIL key=%s the generated automaton differs from the lookahead sets: %s" (Stdlib.List.hd (Stdlib.String.split_on_char ' ' p)) p))
  | _ -> "FAIL malformed case"

(* C09 *)
let rec factor_of_sx (x : Sexp.t) : Ebnf.factor =
  match x with
  | A _ -> let i = int_of_sx x in if i >= 0 then Ebnf.FT (n_of_int i) else Ebnf.FN (n_of_int (-i - 1))
  | L (A "g" :: alts) -> Ebnf.FGroup (Stdlib.List.map alt_of_sx alts)
  | L (A "o" :: alts) -> Ebnf.FOpt (Stdlib.List.map alt_of_sx alts)
  | L (A "r" :: alts) -> Ebnf.FRep (Stdlib.List.map alt_of_sx alts)
  | _ -> failwith "factor"
and alt_of_sx = function L fs -> Stdlib.List.map factor_of_sx fs | _ -> failwith "alt"

let egrammar_of_sx = function
  | L (st :: ps) ->
    { Ebnf.estart = n_of_int (int_of_sx st);
      eprods = Stdlib.List.map (function L (l :: alts) -> (n_of_int (int_of_sx l), Stdlib.List.map alt_of_sx alts) | _ -> failwith "eprod") ps }
  | _ -> failwith "egrammar"

let rec efactor_terms (f : Ebnf.factor) : BinNums.coq_N list = match f with
  | Ebnf.FT t -> [t] | Ebnf.FN _ -> []
  | Ebnf.FGroup a | Ebnf.FOpt a | Ebnf.FRep a -> Stdlib.List.concat_map (Stdlib.List.concat_map efactor_terms) a
let rec efactor_has_nesting (f : Ebnf.factor) = match f with Ebnf.FT _ | Ebnf.FN _ -> false | _ -> true

let c09 = function
  | [_; _; _; A "panic"] -> "FAIL key=panic reading the grammar panicked"
  | [_; _; _; L [A "rejected"; _]] -> "OK 0 rejected"
  | [mode; g; L names; L [A "ok"; st; L prods]] ->
    let is_lr = (mode = A "lr") in
    let g' = egrammar_of_sx g in
    let user = Stdlib.List.map str_of_sx names in
    let nuser = Stdlib.List.length user in
    (* number the result's non-terminals: user names keep their index, new names follow *)
    let table = ref user in
    let find_index x l = let rec go i = function [] -> None | y :: t -> if y = x then Some i else go (i + 1) t in go 0 l in
    let idx name = (match find_index name !table with
        | Some i -> i | None -> table := !table @ [name]; Stdlib.List.length !table - 1) in
    let bprods = Stdlib.List.map (function
        | L (l :: rhs) -> { Cfg.lhs = n_of_int (idx (str_of_sx l));
                            rhs = Stdlib.List.map (function S nm -> Cfg.NT (n_of_int (idx nm)) | x -> Cfg.T (n_of_int (int_of_sx x))) rhs }
        | _ -> failwith "rprod") prods in
    let b = { Cfg.start = n_of_int (idx (str_of_sx st)); prods = bprods } in
    (* language of every defined user non-terminal, all strings up to a bound *)
    let ts = Stdlib.List.sort_uniq compare (Stdlib.List.concat_map (fun (_, alts) -> Stdlib.List.concat_map (Stdlib.List.concat_map efactor_terms) alts) g'.Ebnf.eprods) in
    let bound = if Stdlib.List.length ts <= 1 then 6 else if Stdlib.List.length ts <= 2 then 4 else 3 in
    let ws = strings ts bound in
    let defined = Stdlib.List.sort_uniq compare (Stdlib.List.map fst g'.Ebnf.eprods) in
    let bad = Stdlib.List.find_map (fun a ->
        let ga = { g' with Ebnf.estart = a } in
        Stdlib.List.find_map (fun w ->
            let e = (match Ebnf.emember (Ebnf.emember_fuel ga w) ga w with Some x -> x | None -> failwith "emember fuel") in
            let m = (match Member.member_from (Member.member_fuel b w) b [Cfg.NT a] w with Some x -> x | None -> failwith "member fuel") in
            if e <> m then Some (a, w, e) else None) ws) defined in
    (* the faithful model: exact comparison and freshness of its name table *)
    let cl s = chars_of_string s and sl l = string_of_chars l in
    let model = Canon.canon_named (Canon.canon_fuel g') is_lr g' (Stdlib.List.map cl user) in
    let real_named = Stdlib.List.map (function
        | L (l :: rhs) -> (str_of_sx l, Stdlib.List.map (function S nm -> "N:" ^ nm | x -> "T:" ^ string_of_int (int_of_sx x)) rhs)
        | _ -> failwith "rprod") prods in
    let model_named = (match model with
        | Canon.Ok l -> Some (Stdlib.List.map (fun (n, rhs) -> (sl n, Stdlib.List.map (function Canon.NTm t -> "T:" ^ string_of_int (int_of_n t) | Canon.NNt s -> "N:" ^ sl s) rhs)) l)
        | Canon.Err _ -> None) in
    let names' = (match Canon.canon (Canon.canon_fuel g') is_lr g' (Stdlib.List.map cl user) with
        | Canon.Ok (_, n) -> Stdlib.List.map sl n | Canon.Err _ -> []) in
    let collision = Stdlib.List.length (Stdlib.List.sort_uniq compare names') <> Stdlib.List.length names' in
    let nested = Stdlib.List.exists (fun (_, alts) -> Stdlib.List.exists (Stdlib.List.exists efactor_has_nesting) alts) g'.Ebnf.eprods in
    ignore nuser;
    (match bad with
     | Some (a, w, e) ->
       Printf.sprintf "FAIL key=%s non-terminal %d: %s is %s by the grammar as written but %s by the plain productions" 
         (if collision then "helper-name-collision" else "language-changed") (int_of_n a) (show_word w)
         (if e then "derived" else "not derived") (if e then "not derived" else "derived")
     | None ->
       if collision then "FAIL key=helper-name-collision a generated helper name coincides with a name already used in the grammar (no distinguishing string up to the bound)"
       else Printf.sprintf "OK %d %s %s" (if nested then 1 else 0) (if is_lr then "lr" else "ll")
           (if model_named = Some real_named then "model-exact" else "differs-from-model"))
  | _ -> "FAIL malformed case"

(* C16 *)
let c16_mode = function
  | [_; _; A "panic"] -> "FAIL key=panic generate_build_information panicked"
  | [_; _; nl; ws; au; L entries] ->
    if int_of_sx au = 1 then "OK 0 allow-unmatched-mode"
    else begin
      let rs = Stdlib.List.filter_map (function
          | L [_; la; _; rx] when int_of_sx la = 0 && rx <> L [A "unsupported"] -> Some (regex_of_sx rx)
          | _ -> None) entries in
      match RegexEquiv.total_on_chars_list_cex rs with
      | None -> Printf.sprintf "OK 1 total newline:%d ws:%d" (int_of_sx nl) (int_of_sx ws)
      | Some c ->
        let c' = int_of_n c in
        Printf.sprintf "FAIL key=%s code point %d is matched by no rule of a scanner state without %%allow_unmatched: it becomes an unmatched gap that is silently skipped"
          (if c' = 10 && int_of_sx nl = 0 then "line-feed-not-covered-with-auto-newline-off" else "char-not-covered") c'
    end
  | _ -> "FAIL malformed case"

(* C30: pos_to_offset *)
let c30_p2o = function
  | [t; line; col; res] ->
    let t' = ns_of_sx t in
    let l = nat_of_int (int_of_sx line) and c = nat_of_int (int_of_sx col) in
    let model = PosOffset.pos_to_offset t' l c in
    (match res with
     | A "panic" -> "FAIL key=pos_to_offset-panic pos_to_offset panicked"
     | L [A "ok"; o] ->
       let o' = n_of_int (int_of_sx o) in
       let len = int_of_n (PosOffset.bytes t') in
       if int_of_sx o > len then Printf.sprintf "FAIL key=offset-beyond-text offset %d is beyond the text length %d" (int_of_sx o) len
       else if not (PosOffset.is_boundary_b t' o') then Printf.sprintf "FAIL key=offset-not-on-char-boundary offset %d is inside a multi-byte character" (int_of_sx o)
       else
         let nlines = Stdlib.List.length (Stdlib.List.filter (fun x -> int_of_n x = 10) t') in
         let nt = int_of_sx line > nlines || Stdlib.List.exists (fun x -> int_of_n x > 127) t' in
         Printf.sprintf "OK %d %s" (if nt then 1 else 0) (if model = Some o' then "model-exact" else "differs-from-model")
     | _ -> "FAIL malformed result")
  | _ -> "FAIL malformed case"

(* C01 / C02 / C20 *)
let ll_tables_of_sx = function
  | L [L prods; L autos; st; k; nterm; nnt] ->
    let prod = function
      | L [l; L rev] -> { LLParser.p_lhs = n_of_int (int_of_sx l); p_rev = Stdlib.List.map (fun x -> sym_of_int (int_of_sx x)) rev; p_push = false }
      | L [l; L rev; push] -> { LLParser.p_lhs = n_of_int (int_of_sx l); p_rev = Stdlib.List.map (fun x -> sym_of_int (int_of_sx x)) rev; p_push = (int_of_sx push = 1) }
      | _ -> failwith "ll prod" in
    let auto = function L [p0; kk; L trs] -> dfa_of_sx (L [p0; kk; L trs]) | _ -> failwith "ll auto" in
    { LLParser.tb_prods = Stdlib.List.map prod prods; tb_automata = Stdlib.List.map auto autos; tb_start = n_of_int (int_of_sx st);
      tb_k = nat_of_int (int_of_sx k); tb_nterms = n_of_int (int_of_sx nterm); tb_nnts = n_of_int (int_of_sx nnt) }
  | _ -> failwith "ll tables"

let ll_events (evs : LLParser.event list) : string list =
  Stdlib.List.map (function LLParser.OpenRoot -> "o-1" | LLParser.Open a -> Printf.sprintf "o%d" (int_of_n a)
                           | LLParser.Tok t -> Printf.sprintf "t%d" (int_of_n t) | LLParser.Close -> "c") evs

let real_events (evs : Sexp.t) : string list =
  Stdlib.List.filter_map (function
      | L [A "o"; n] -> Some ("o" ^ (match n with A a -> a | _ -> "?"))
      | L [A "c"] -> Some "c"
      | L (A "t" :: ty :: _) -> let t = int_of_sx ty in if t >= 5 then Some (Printf.sprintf "t%d" t) else None
      | _ -> None) (list_of_sx evs)

let c01 = function
  | [_; _; L [A "panic"]] -> "FAIL key=panic the LL(k) pipeline panicked"
  | [_; _; L [A why]] -> "OK 0 " ^ why
  | [g; _; L [A "built"; g2; tb; L runs]] ->
    let g0 = cfg_of_sx g and g2' = cfg_of_sx g2 and tb' = ll_tables_of_sx tb in
    if not (LLParser.tables_ok tb') then "FAIL key=tables-not-ok the generated LL tables fail tables_ok (index range / sortedness / la_wf)"
    else begin
      let problems = ref [] in
      let nontrivial = ref 0 in
      let add k w = problems := (k, w) :: !problems in
      (* group the runs by input to compare verdicts/actions across option sets (C20) *)
      let by_input = Hashtbl.create 64 in
      Stdlib.List.iter (fun r ->
          match r with
          | L (toks :: rc :: tr :: dp :: rest) ->
            let w = ns_of_sx toks in
            let ws = Sexp.to_string toks in
            let opts = { LLParser.o_recovery = (int_of_sx rc = 1); o_trim = (int_of_sx tr = 1);
                         o_max_depth = (match dp with A "none" -> None | d -> Some (n_of_int (int_of_sx d))) } in
            (match rest with
             | [A "panic"] -> add "parser-panic" ws
             | verdict :: more ->
               let inlang = member g2' w in
               let inlang0 = member g0 w in
               if inlang <> inlang0 then add "transformed-grammar-language-differs" ws;
               let real_ok = (verdict = A "ok") in
               let depth_err = (verdict = L [A "err"; L [A "depth"]]) in
               if real_ok && not inlang0 then add "accepts-non-sentence" ws
               else if (not real_ok) && inlang0 && not depth_err then add "rejects-sentence" ws
               else begin
                 let rec go fuel tries =
                   (match LLParser.ll_run (nat_of_int fuel) tb' opts w with
                    | LLParser.OutOfFuel when tries > 0 -> go (fuel * 4) (tries - 1)
                    | r -> r) in
                 let m = go (4 * Stdlib.List.length w + 64) 4 in
                 let real_acts = (match more with L acts :: _ -> Stdlib.List.map ints_of_sx acts | _ -> []) in
                 (match m, verdict with
                  | LLParser.Accepted (acts, evs), A "ok" ->
                    let macts = Stdlib.List.map (fun (p, cs) -> [int_of_n p; Stdlib.List.length cs]) acts in
                    if macts <> real_acts then add "actions-differ-from-model" ws
                    else begin
                      let revs = (match more with [_; e] -> real_events e | _ -> []) in
                      if revs <> ll_events evs then add "tree-differs-from-model" ws
                      else if Stdlib.List.length w >= 2 then incr nontrivial
                    end;
                    if not depth_err then begin
                      let key = ws in
                      (match Hashtbl.find_opt by_input key with
                       | Some (a0 : int list list) -> if a0 <> real_acts then add "actions-depend-on-options" ws
                       | None -> Hashtbl.replace by_input key real_acts)
                    end
                  | LLParser.Rejected (LLParser.RSyntaxErrors, n), L [A "err"; L [A "syntax"; k]] ->
                    if int_of_nat n <> int_of_sx k then add "error-count-differs-from-model" ws
                    else if Stdlib.List.length w >= 2 then incr nontrivial
                  | LLParser.Rejected (LLParser.RUnprocessedInput, _), L [A "err"; L [A "unprocessed"]]
                  | LLParser.Rejected (LLParser.RRecoveryFailed, _), L [A "err"; L [A "recoveryfailed"]]
                  | LLParser.Rejected (LLParser.RPredictionError, _), L [A "err"; L [A "prediction"]]
                  | LLParser.DepthExceeded, L [A "err"; L [A "depth"]] -> if Stdlib.List.length w >= 2 then incr nontrivial
                  | LLParser.Rejected (LLParser.RLexerError, _), L [A "err"; L [A ("lexer" | "lex-empty")]] -> ()
                  | LLParser.Rejected (k, _), L [A "err"; e] ->
                    add ("error-kind-differs-from-model:" ^ (match k with LLParser.RSyntaxErrors -> "syntax" | LLParser.RUnprocessedInput -> "unprocessed"
                       | LLParser.RRecoveryFailed -> "recoveryfailed" | LLParser.RTooManyErrors -> "toomany" | LLParser.RPredictionError -> "prediction"
                       | LLParser.RLexerError -> "lexer" | LLParser.RDataError -> "data") ^ "-vs-" ^ Sexp.to_string e) ws
                  | LLParser.OutOfFuel, _ -> ()
                  | LLParser.BadInput, _ -> ()
                  | _, _ -> add "verdict-differs-from-model" ws)
               end
             | [] -> add "malformed-run" ws)
          | _ -> add "malformed-run" "") runs;
      (match Stdlib.List.rev !problems with
       | [] -> Printf.sprintf "OK %d ll-ok" (if !nontrivial > 0 then 1 else 0)
       | (k, w) :: _ -> Printf.sprintf "FAIL key=%s on input %s (%d problem runs)" k w (Stdlib.List.length !problems))
    end
  | _ -> "FAIL malformed case"

(* C20: option matrix *)
let group_runs (runs : Sexp.t list) : (string * Sexp.t list) list =
  let order = ref [] in
  let tbl = Hashtbl.create 64 in
  Stdlib.List.iter (fun r ->
      match r with
      | L (toks :: _) ->
        let k = Sexp.to_string toks in
        (match Hashtbl.find_opt tbl k with
         | Some l -> Hashtbl.replace tbl k (r :: l)
         | None -> order := k :: !order; Hashtbl.replace tbl k [r])
      | _ -> ()) runs;
  Stdlib.List.rev_map (fun k -> (k, Stdlib.List.rev (Hashtbl.find tbl k))) !order

(* comment runs: (toks rc tr ok acts comments); all runs of one input must agree on (ok, acts, comments) *)
let comment_runs_agree (cruns : Sexp.t list) (add : string -> string -> unit) =
  Stdlib.List.iter (fun (ws, rs) ->
      let obs = Stdlib.List.filter_map (fun r ->
          match r with
          | L [_; _; _; A "panic"] -> add "parser-panic" ws; None
          | L [_; _; tr; ok; acts; cms] -> Some (int_of_sx tr, (Sexp.to_string ok, Sexp.to_string acts, Sexp.to_string cms))
          | _ -> add "malformed-run" ws; None) rs in
      match obs with
      | [] -> ()
      | (_, (ok0, a0, c0)) :: rest ->
        Stdlib.List.iter (fun (tr, (ok, a, c)) ->
            if ok <> ok0 then add "option-changes-verdict" ws
            else if ok0 <> "1" then ()   (* rejected: a recovering run legitimately goes on and performs more callbacks *)
            else if a <> a0 then add "option-changes-actions" ws
            else if c <> c0 then add (if tr = 1 then "trim-changes-comment-callbacks" else "option-changes-comment-callbacks") ws) rest) (group_runs cruns)

let c20_ll = function
  | [_; _; L [A "panic"]] -> "FAIL key=panic the LL(k) pipeline panicked"
  | [_; _; L [A why]] -> "OK 0 " ^ why
  | [_; _; L (A "built" :: _ :: tb :: L runs :: L cruns :: more_built)] ->
    let tb' = ll_tables_of_sx tb in
    let npush = Stdlib.List.length (Stdlib.List.filter (fun p -> p.LLParser.p_push) tb'.LLParser.tb_prods) in
    ignore more_built;
    if not (LLParser.tables_ok tb') then "FAIL key=tables-not-ok the generated LL tables fail tables_ok"
    else begin
      let problems = ref [] and nontrivial = ref 0 in
      let add k w = problems := (k, w) :: !problems in
      let model opts w =
        let rec go fuel tries =
          (match LLParser.ll_run (nat_of_int fuel) tb' opts w with
           | LLParser.OutOfFuel when tries > 0 -> go (fuel * 4) (tries - 1)
           | r -> r) in
        go (4 * Stdlib.List.length w + 64) 4 in
      Stdlib.List.iter (fun (ws, rs) ->
          let w = (match rs with L (toks :: _) :: _ -> ns_of_sx toks | _ -> []) in
          let mk rc tr dp = { LLParser.o_recovery = rc; o_trim = tr; o_max_depth = dp } in
          let base = model (mk true false None) w in
          (* model peak: the least limit under which the model accepts *)
          let peak, macts = (match base with
              | LLParser.Accepted (acts, _) ->
                let rec find m = if m > 400 then None else
                    (match model (mk false false (Some (n_of_int m))) w with
                     | LLParser.Accepted _ -> Some m
                     | _ -> find (m + 1)) in
                (find 0, Some (Stdlib.List.map (fun (p, cs) -> [int_of_n p; Stdlib.List.length cs]) acts))
              | _ -> (None, None)) in
          let below = ref false and above = ref false in
          Stdlib.List.iter (fun r ->
              match r with
              | L [_; _; _; _; A "panic"] -> add "parser-panic" ws
              | L (_ :: rc :: tr :: dp :: verdict :: more) ->
                let limit = (match dp with A "none" -> None | d -> Some (int_of_sx d)) in
                let real_ok = (verdict = A "ok") in
                let depth_err = (verdict = L [A "err"; L [A "depth"]]) in
                let real_acts = (match more with L acts :: _ -> Stdlib.List.map ints_of_sx acts | _ -> []) in
                ignore rc; ignore tr;
                (match base, peak, macts with
                 | LLParser.Accepted _, Some d, Some ma ->
                   let fits = (match limit with None -> true | Some m -> m >= d) in
                   if fits then begin
                     (match limit with Some _ -> above := true | None -> ());
                     if depth_err then add "depth-error-although-limit-not-reached" ws
                     else if not real_ok then add "option-changes-verdict" ws
                     else if real_acts <> ma then add "option-changes-actions" ws
                   end else begin
                     below := true;
                     if real_ok then add "depth-limit-not-enforced" ws
                     else if not depth_err then add "depth-limit-exceeded-without-depth-error" ws
                   end
                 | LLParser.Accepted _, _, _ -> ()
                 | (LLParser.Rejected _ | LLParser.DepthExceeded), _, _ ->
                   if real_ok then add "option-changes-verdict" ws
                 | LLParser.Panic _, _, _ -> add "model-panic" ws
                 | _, _, _ -> ())
              | _ -> add "malformed-run" ws) rs;
          if !below && !above && Stdlib.List.length w >= 2 then incr nontrivial) (group_runs runs);
      comment_runs_agree cruns add;
      (match Stdlib.List.rev !problems with
       | [] -> Printf.sprintf "OK %d ll-options%s" (if !nontrivial > 0 then 1 else 0) (if npush > 0 then "-push-productions" else "")
       | (k, w) :: _ -> Printf.sprintf "FAIL key=%s LL(k) on input %s (%d problem runs)" k w (Stdlib.List.length !problems))
    end
  | _ -> "FAIL malformed case"

let c20_lr = function
  | [_; L [A why]] -> "OK 0 " ^ why
  | [_; L [A "built"; _; tb; _; L runs; L cruns]] ->
    let tb' = lr_table_of_sx tb in
    let nstates = Stdlib.List.length tb'.LRParser.lr_states in
    let problems = ref [] and nontrivial = ref 0 and skipped = ref 0 in
    let add k w = problems := (k, w) :: !problems in
    Stdlib.List.iter (fun (ws, rs) ->
        let w = (match rs with L (toks :: _) :: _ -> ns_of_sx toks | _ -> []) in
        let fuel = nat_of_int ((Stdlib.List.length w + 2) * (nstates + 2) * 4 + 20) in
        let base = LRParser.lr_run fuel tb' w in
        if base = LRParser.OutOfFuel then incr skipped      (* non-terminating (cyclic grammar): C19 / C04 *)
        else begin
          let d = int_of_nat (LROptions.lr_run_peak fuel tb' w) in
          let below = ref false and above = ref false in
          Stdlib.List.iter (fun r ->
              match r with
              | L [_; _; _; A "panic"] -> add "parser-panic" ws
              | L (_ :: tr :: dp :: verdict :: more) ->
                let limit = (match dp with A "none" -> None | x -> Some (int_of_sx x)) in
                let real_calls = (match more with L acts :: _ -> Stdlib.List.map ints_of_sx acts | _ -> []) in
                let o = { LROptions.lo_trim = (int_of_sx tr = 1); lo_max_depth = (match limit with None -> None | Some m -> Some (n_of_int m)) } in
                (match limit with Some m when m < d -> below := true | Some _ -> above := true | None -> ());
                (match LROptions.lr_run_opts fuel tb' o w, verdict with
                 | LROptions.AcceptedO (calls, _), A "ok" ->
                   if Stdlib.List.map (fun (p, args) -> [int_of_n p; Stdlib.List.length args]) calls <> real_calls then add "actions-differ-from-model" ws
                 | LROptions.AcceptedO _, L [A "err"; L [A "depth"]] -> add "depth-error-although-limit-not-reached" ws
                 | LROptions.AcceptedO _, _ -> add "option-changes-verdict" ws
                 | LROptions.DepthExceeded _, L [A "err"; L [A "depth"]] -> ()
                 | LROptions.DepthExceeded _, A "ok" -> add "depth-limit-not-enforced" ws
                 | LROptions.DepthExceeded _, _ -> add "depth-limit-exceeded-without-depth-error" ws
                 | LROptions.RejectedO, A "ok" -> add "option-changes-verdict" ws
                 | LROptions.RejectedO, L [A "err"; L [A "depth"]] -> add "depth-error-although-limit-not-reached" ws
                 | LROptions.RejectedO, _ -> ()
                 | LROptions.OutOfFuelO, _ -> ()
                 | (LROptions.InternalErrO _ | LROptions.PanicO _), _ -> add "model-panic" ws)
              | _ -> add "malformed-run" ws) rs;
          (match base with LRParser.Accepted _ when !below && !above && Stdlib.List.length w >= 2 -> incr nontrivial | _ -> ())
        end) (group_runs runs);
    if !skipped = 0 then comment_runs_agree cruns add;
    (match Stdlib.List.rev !problems with
     | [] -> Printf.sprintf "OK %d lr-options%s" (if !nontrivial > 0 then 1 else 0) (if !skipped > 0 then " nonterminating-inputs-skipped" else "")
     | (k, w) :: _ -> Printf.sprintf "FAIL key=%s LR on input %s (%d problem runs)" k w (Stdlib.List.length !problems))
  | _ -> "FAIL malformed case"

(* C19: never crash, always terminate *)
let c19_ll = function
  | [_; L [A "panic"]] -> "FAIL key=generator-panic the LL(k) pipeline panicked"
  | [_; L [A why]] -> "OK 0 " ^ why
  | [_; L [A "built"; tb; L runs]] ->
    let tb' = ll_tables_of_sx tb in
    if not (LLParser.tables_ok tb') then "FAIL key=tables-not-ok the generated LL tables fail tables_ok (C19_ll_no_panic does not apply)"
    else begin
      let cert = LLTerm.left_recursion_free tb' in
      let problems = ref [] and acc = ref 0 and rej = ref 0 and maxerr = ref 0 and longest = ref 0 in
      let add k w = problems := (k, w) :: !problems in
      Stdlib.List.iter (fun r ->
          match r with
          | L [toks; _; A "panic"] -> add "parser-panic" (Sexp.to_string toks)
          | L [toks; _; A "hang"] -> add "parser-hang" (Sexp.to_string toks)
          | L [toks; rc; verdict; _] ->
            let w = ns_of_sx toks in
            let ws = let s = Sexp.to_string toks in if Stdlib.String.length s > 200 then Stdlib.String.sub s 0 200 ^ "..." else s in
            longest := max !longest (Stdlib.List.length w);
            let opts = { LLParser.o_recovery = (int_of_sx rc = 1); o_trim = false; o_max_depth = None } in
            let rec go fuel tries =
              (match LLParser.ll_run (nat_of_int fuel) tb' opts w with
               | LLParser.OutOfFuel when tries > 0 -> go (fuel * 4) (tries - 1)
               | r -> r) in
            let m = go (8 * Stdlib.List.length w + 64) 6 in
            (match verdict with
             | L [A "err"; L [A "syntax"; k]] -> maxerr := max !maxerr (int_of_sx k);
               if int_of_sx k > 101 then add "more-than-101-error-entries" ws
             | _ -> ());
            (match m, verdict with
             | LLParser.Panic _, _ -> add "model-panic" ws
             | LLParser.OutOfFuel, _ -> add "model-out-of-fuel" ws
             | LLParser.BadInput, _ -> ()
             | LLParser.Accepted _, A "ok" -> incr acc
             | LLParser.Accepted _, _ -> add "verdict-differs-from-model" ws
             | _, A "ok" -> add "verdict-differs-from-model" ws
             | LLParser.Rejected (LLParser.RSyntaxErrors, n), L [A "err"; L [A "syntax"; k]] ->
               if int_of_nat n <> int_of_sx k then add "error-count-differs-from-model" ws else incr rej
             | _, _ -> incr rej)
          | _ -> add "malformed-run" "") runs;
      (match Stdlib.List.rev !problems with
       | [] ->
         if not cert then "FAIL key=no-termination-certificate-ll the generated LL tables fail the no-left-recursion certificate check (C19_ll_terminates does not apply); no hanging input among the runs (no-failing-input-found)"
         else Printf.sprintf "OK %d ll-terminates maxerr:%s longest:%s" (if !acc > 0 && !rej > 0 then 1 else 0)
             (if !maxerr >= 100 then "limit" else if !maxerr >= 10 then "10+" else "lt10") (if !longest >= 100 then "100+" else "lt100")
       | (k, w) :: _ -> Printf.sprintf "FAIL key=%s LL(k) on input %s (%d problem runs; certificate %s)" k w (Stdlib.List.length !problems) (if cert then "ok" else "FAILS"))
    end
  | _ -> "FAIL malformed case"

let c19_lr = function
  | [g; L [A "panic"]] ->
    if cyclic (cfg_of_sx g) then "OK 0 outside:cyclic-grammar-rejected-by-panic" else "FAIL key=generator-panic LALR(1) table construction panicked"
  | [_; L [A why]] -> "OK 0 " ^ why
  | [g; L [A "built"; g2; tb; _; L runs]] ->
    let g0 = cfg_of_sx g and g2' = cfg_of_sx g2 and tb' = lr_table_of_sx tb in
    let nstates = Stdlib.List.length tb'.LRParser.lr_states in
    let vf = nat_of_int (4 * nstates + 50) in
    let cert_parts = (match LRValidate.infer_annotation vf tb' with
        | None -> (false, false, false)
        | Some ann ->
          let (nl, rk) = LRTerm.find_acyclic_cert g2' in
          let eset = LRTerm.find_eps_set g2' tb' nl in
          let srk = LRTerm.find_stack_ranks nl ann eset in
          (LRValidate.lr_safe_check g2' tb' ann, LRTerm.acyclic_ok g2' nl rk, LRTerm.stack_rank_ok g2' tb' nl ann eset srk)) in
    let cert = (cert_parts = (true, true, true)) in
    let cert_txt = (match cert_parts with (a, b, c) -> Printf.sprintf "validator:%b acyclic:%b stack-ranks:%b" a b c) in
    let cyc = cyclic g0 in
    let problems = ref [] and acc = ref 0 and rej = ref 0 and longest = ref 0 in
    let add k w = problems := (k, w) :: !problems in
    Stdlib.List.iter (fun r ->
        match r with
        | L [toks; _; A "panic"] -> add "parser-panic" (Sexp.to_string toks)
        | L [toks; _; A "hang"] -> add (if cyc then "lr-parser-does-not-terminate-cyclic-grammar" else "parser-hang") (Sexp.to_string toks)
        | L [toks; _; verdict; _] ->
          let w = ns_of_sx toks in
          let ws = let s = Sexp.to_string toks in if Stdlib.String.length s > 200 then Stdlib.String.sub s 0 200 ^ "..." else s in
          longest := max !longest (Stdlib.List.length w);
          if verdict = L [A "err"; L [A "depth"]] || verdict = L [A "err"; L [A "budget"]] then
            add (if cyc then "lr-parser-does-not-terminate-cyclic-grammar" else "lr-parser-does-not-terminate") ws
          else begin
            let rec go fuel tries =
              (match LRParser.lr_run (nat_of_int fuel) tb' w with
               | LRParser.OutOfFuel when tries > 0 -> go (fuel * 4) (tries - 1)
               | r -> r) in
            (match go ((Stdlib.List.length w + 2) * (nstates + 2) * 4 + 20) 4, verdict with
             | LRParser.Panic _, _ | LRParser.InternalErr _, _ -> add "model-panic" ws
             | LRParser.OutOfFuel, _ -> add "model-out-of-fuel" ws
             | LRParser.Accepted _, A "ok" -> incr acc
             | LRParser.Rejected, L [A "err"; _] -> incr rej
             | _, _ -> add "verdict-differs-from-model" ws)
          end
        | _ -> add "malformed-run" "") runs;
    (match Stdlib.List.rev !problems with
     | [] ->
       if cert then Printf.sprintf "OK %d lr-terminates longest:%s" (if !acc > 0 && !rej > 0 then 1 else 0) (if !longest >= 100 then "100+" else "lt100")
       else if cyc then "FAIL key=lr-parser-does-not-terminate-cyclic-grammar a cyclic grammar was accepted (no acyclicity certificate exists; C19_lr_terminates does not apply); none of the runs happened to loop"
       else "FAIL key=no-termination-certificate-lr the generated LR table fails the validator / acyclicity / stack-rank certificate checks (" ^ cert_txt ^ "; C19_lr_terminates does not apply); no looping input among the runs (no-failing-input-found)"
     | (k, w) :: _ -> Printf.sprintf "FAIL key=%s LR on input %s (%d problem runs; certificate %s)" k w (Stdlib.List.length !problems) (if cert then "ok" else "FAILS"))
  | _ -> "FAIL malformed case"

(* C21: generated source text vs export model vs analysis *)
let c21 = function
  | [kind; _; _; L [A "panic"; _]] -> ignore kind; "OK 0 outside:generator-panic"
  | [_; _; _; L [A "export-tool-failed"]] ->
    "FAIL key=export-tool-fails-on-accepted-grammar `parol export` fails on a grammar for which parser generation succeeds"
  | [_; _; _; L [A why]] -> "OK 0 " ^ why
  | [A kind; kk; _; L [A "ll"; L diffs; g2; tb; L autos]] ->
    (match diffs with
     | d :: _ ->
       let d' = (match d with A x -> x | _ -> "?") in
       let key = Stdlib.List.hd (Stdlib.String.split_on_char ' ' (Stdlib.List.hd (Stdlib.String.split_on_char ':' d'))) in
       Printf.sprintf "FAIL key=source-export-differ:%s the tables in the generated parser source and the export model differ: %s (%d differences)" key d' (Stdlib.List.length diffs)
     | [] ->
       let tb' = ll_tables_of_sx tb in
       if not (LLParser.tables_ok tb') then "FAIL key=source-tables-not-ok the LL tables of the generated source fail tables_ok (index range / sortedness / la_wf)"
       else begin
         let g = cfg_of_sx g2 in
         if Stdlib.List.length g.Cfg.prods > 45 then Printf.sprintf "OK 1 %s structural-only-large-grammar" kind
         else
           let r = c07 [A "x"; kk; L [A "built"; g2; L autos]] in
           if Stdlib.String.length r >= 2 && Stdlib.String.sub r 0 2 = "OK" then Printf.sprintf "OK 1 %s source=export=analysis" kind
           else if Stdlib.String.length r >= 8 && Stdlib.String.sub r 0 8 = "FAIL key" then "FAIL key=source-" ^ Stdlib.String.sub r 9 (Stdlib.String.length r - 9)
           else r
       end)
  | [A kind; _; _; L [A "lr"; L diffs; g2; tb]] ->
    (match diffs with
     | d :: _ ->
       let d' = (match d with A x -> x | _ -> "?") in
       let key = Stdlib.List.hd (Stdlib.String.split_on_char ' ' (Stdlib.List.hd (Stdlib.String.split_on_char ':' d'))) in
       Printf.sprintf "FAIL key=source-export-differ:%s the tables in the generated parser source and the export model differ: %s (%d differences)" key d' (Stdlib.List.length diffs)
     | [] ->
       let tb' = lr_table_of_sx tb and g = cfg_of_sx g2 in
       let nstates = Stdlib.List.length tb'.LRParser.lr_states in
       if LRValidate.lr_validate (nat_of_int (4 * nstates + 50)) g tb' then Printf.sprintf "OK 1 %s source=export validated" kind
       else "FAIL key=source-lr-table-unsafe the LR table of the generated source fails the safety validator for the transformed grammar (no-failing-input-found)")
  | _ -> "FAIL malformed case"

(* C23: typed AST of the generated adapter vs the adapter model *)
let rec v_to_string (v : AstModel.coq_V) : string =
  match v with
  | AstModel.VTok t -> Printf.sprintf "(t %d)" (int_of_n t)
  | AstModel.VStruct fs -> "(s" ^ Stdlib.String.concat "" (Stdlib.List.map (fun x -> " " ^ v_to_string x) fs) ^ ")"
  | AstModel.VEnum (_, x) -> "(w " ^ v_to_string x ^ ")"
  | AstModel.VVec xs -> "(v" ^ Stdlib.String.concat "" (Stdlib.List.map (fun x -> " " ^ v_to_string x) xs) ^ ")"
  | AstModel.VSome x -> "(some " ^ v_to_string x ^ ")"
  | AstModel.VNone -> "(none)"

let rec real_to_string (x : Sexp.t) : string =
  match x with
  | L [A "t"; n] -> Printf.sprintf "(t %d)" (int_of_sx n)
  | L (A "s" :: fs) -> "(s" ^ Stdlib.String.concat "" (Stdlib.List.map (fun y -> " " ^ real_to_string y) fs) ^ ")"
  | L [A "w"; y] -> "(w " ^ real_to_string y ^ ")"
  | L (A "v" :: xs) -> "(v" ^ Stdlib.String.concat "" (Stdlib.List.map (fun y -> " " ^ real_to_string y) xs) ^ ")"
  | L [A "some"; y] -> "(some " ^ real_to_string y ^ ")"
  | L [A "none"] -> "(none)"
  | _ -> "(?)"

let c23 = function
  | [A kind; tb; L aprods; L user; inp; L calls; real] ->
    let gt = if kind = "lr" then AstModel.LALR1 else AstModel.LLK in
    let sattr = function 1 -> AstModel.SRepetitionAnchor | 2 -> AstModel.SOption | 3 -> AstModel.SClipped | _ -> AstModel.SNone in
    let pattr = function 1 -> AstModel.PCollectionStart | 2 -> AstModel.PAddToCollection | 3 -> AstModel.POptionalSome | 4 -> AstModel.POptionalNone | _ -> AstModel.PNone in
    let g = Stdlib.List.map (function
        | L [l; pa; L items] ->
          { AstModel.ap_lhs = n_of_int (int_of_sx l); ap_attr = pattr (int_of_sx pa);
            ap_rhs = Stdlib.List.map (function L [sy; sa] -> (sym_of_int (int_of_sx sy), sattr (int_of_sx sa)) | _ -> failwith "member") items }
        | _ -> failwith "aprod") aprods in
    let user' = Stdlib.List.map (fun x -> n_of_int (int_of_sx x)) user in
    let w = ns_of_sx inp in
    if not (AstModel.attrs_ok gt g) then "FAIL key=attrs-not-ok the exported attributed grammar fails attrs_ok (the shapes the adapter model and its theorems rely on)"
    else begin
      let acts =
        if kind = "lr" then begin
          let tb' = lr_table_of_sx tb in
          let nstates = Stdlib.List.length tb'.LRParser.lr_states in
          let fuel = nat_of_int ((Stdlib.List.length w + 2) * (nstates + 2) * 4 + 20) in
          (match LROptions.lr_run_opts fuel tb' LROptions.lr_default_options w with
           | LROptions.AcceptedO (calls, _) -> Some calls
           | _ -> None)
        end else begin
          let tb' = ll_tables_of_sx tb in
          let opts = { LLParser.o_recovery = false; o_trim = false; o_max_depth = None } in
          let rec go fuel tries =
            (match LLParser.ll_run (nat_of_int fuel) tb' opts w with
             | LLParser.OutOfFuel when tries > 0 -> go (fuel * 4) (tries - 1)
             | r -> r) in
          (match go (8 * Stdlib.List.length w + 64) 5 with
           | LLParser.Accepted (acts, _) -> Some acts
           | _ -> None)
        end in
      match acts with
      | None -> "FAIL key=model-rejects-accepted-input the model parser does not accept an input the generated parser accepted"
      | Some acts ->
        (match AstModel.build_ast gt user' g acts with
         | None -> "FAIL key=adapter-model-stuck the adapter model gets stuck on the action trace (stack underflow / wrong kind of value / leftovers)"
         | Some (v, mcalls) ->
           (* the observed value is the argument of the LAST call of the user's start symbol action (for an augmented
              LALR grammar the value left on the stack belongs to the added start production) *)
           let v = (match user' with
               | s0 :: _ -> (match Stdlib.List.rev (Stdlib.List.filter (fun (n, _) -> n = s0) mcalls) with (_, x) :: _ -> x | [] -> v)
               | [] -> v) in
           let ms = v_to_string v and rs = real_to_string real in
           let mc = Stdlib.List.map int_of_n (AstModel.call_names mcalls) and rc = ints_of_sx (L calls) in
           if ms <> rs then Printf.sprintf "FAIL key=ast-differs-from-model the AST of the generated adapter is %s, the adapter model (proved to mirror the input) gives %s" rs ms
           else if mc <> rc then "FAIL key=user-action-calls-differ-from-model the sequence of user actions differs from the model's"
           else
             let has k = (let re = k in let n = Stdlib.String.length re in
                          let rec find i = i + n <= Stdlib.String.length ms && (Stdlib.String.sub ms i n = re || find (i + 1)) in find 0) in
             Printf.sprintf "OK %d %s%s%s%s" (if has "(v (" || has "(some" then 1 else 0) kind
               (if has "(v (" then " vec" else "") (if has "(some" then " some" else "") (if has "(none)" then " none" else ""))
    end
  | _ -> "FAIL malformed case"

(* C29 *)

let c29 = function
  | [L evs; sched; L log; alive] ->
    let cls = function A "TSyncErr" -> Diagnostics.TSyncErr | A "TBgErr" -> Diagnostics.TBgErr | A "TBgWarn" -> Diagnostics.TBgWarn | _ -> Diagnostics.TOk in
    let dg = function A "DOk" -> Diagnostics.DOk | A "DSyncErr" -> Diagnostics.DSyncErr | A "DBgErr" -> Diagnostics.DBgErr | _ -> Diagnostics.DBgWarn in
    let evs' = Stdlib.List.map (function
        | L [A "open"; v; c] -> Diagnostics.Open (n_of_int (int_of_sx v), cls c)
        | L [A "change"; v; c] -> Diagnostics.Change (n_of_int (int_of_sx v), cls c)
        | _ -> failwith "event") evs in
    let sched' = Stdlib.List.map nat_of_int (ints_of_sx sched) in
    let real = Stdlib.List.map (function L [v; d] -> (n_of_int (int_of_sx v), dg d) | _ -> failwith "log") log in
    if int_of_sx alive = 0 then "FAIL key=server-died the server died during the history"
    else begin
      (* the interleaving the harness aimed at depends on timing; what counts is that the observed sequence of
         publications is SOME run of the model LTS for this history: search the schedules (pruned by the log prefix) *)
      let total = Stdlib.List.fold_left (fun a e -> a + (match e with
          | Diagnostics.Open (_, Diagnostics.TSyncErr) | Diagnostics.Change (_, Diagnostics.TSyncErr) -> 1 | _ -> 3)) 0 evs' in
      let rec is_prefix a b = (match a, b with [], _ -> true | x :: a', y :: b' -> x = y && is_prefix a' b' | _ :: _, [] -> false) in
      let rec search pre (depth : int) =
        (match Diagnostics.run evs' (Stdlib.List.rev pre) with
         | None -> None
         | Some l ->
           if not (is_prefix l real) then None
           else if depth = total then (if l = real then Some l else None)
           else
             let rec try_n n = if n > 8 then None else
                 (match search (nat_of_int n :: pre) (depth + 1) with Some r -> Some r | None -> try_n (n + 1)) in
             try_n 0) in
      let found = (match Diagnostics.run evs' sched' with
          | Some l when l = real -> Some l
          | _ -> search [] 0) in
      match (match found with Some l -> Some l | None -> Diagnostics.run evs' sched') with
      | None -> "FAIL key=schedule-not-enabled the harness schedule is not a run of the model"
      | Some mlog ->
        let expected = Diagnostics.expected evs' in
        let last = (match Stdlib.List.rev real with [] -> None | x :: _ -> Some x) in
        let nver = Stdlib.List.length evs' in
        let outstanding_at_edit = Stdlib.List.length evs' >= 2 in
        if mlog <> real then "FAIL key=log-differs-from-model the sequence of published diagnostics differs from the model run of the same schedule"
        else if last <> expected then
          (match last, expected with
           | Some (v, _), Some (v', _) when int_of_n v < int_of_n v' ->
             "FAIL key=stale-version-published-last the last published diagnostics belong to an older document version (a background analysis of an earlier text finished after a later edit)"
           | _ -> "FAIL key=final-diagnostics-wrong the last published diagnostics are not those of the final text")
        else Printf.sprintf "OK %d versions-%d" (if outstanding_at_edit then 1 else 0) nver
    end
  | _ -> "FAIL malformed case"

(* C18 *)
let occ_of_sx = function
  | L [t; k; la] ->
    let kind = function 0 -> TermIndex.K_Legacy | 1 -> TermIndex.K_Regex | _ -> TermIndex.K_Raw in
    let la' = (match la with
        | A "none" -> None
        | L [p; lt; lk] -> Some ((int_of_sx p = 1, ns_of_sx lt), kind (int_of_sx lk))
        | _ -> failwith "la") in
    ((ns_of_sx t, kind (int_of_sx k)), la')
  | _ -> failwith "occurrence"

let c18 = function
  | [_; A "panic"] -> "FAIL key=panic the pipeline panicked"
  | [_; L [A why]] -> "OK 0 " ^ why
  | (_ :: L ordered :: L claims :: L scanner :: more) ->
    let ord = Stdlib.List.map occ_of_sx ordered in
    let cl = Stdlib.List.map (function L [o; i] -> (occ_of_sx o, n_of_int (int_of_sx i)) | _ -> failwith "claim") claims in
    let sc = ints_of_sx (L scanner) in
    let mixed = Stdlib.List.exists (fun ((t, k), l) -> Stdlib.List.exists (fun ((t', k'), l') -> t = t' && (k <> k' || l <> l')) ord) ord in
    if not (TermIndex.table_nodup_check ord) then "FAIL key=terminal-table-duplicate the terminal table lists the same terminal twice"
    else if sc <> Stdlib.List.mapi (fun i _ -> i + 5) ord then "FAIL key=scanner-numbering the scanner terminals are not numbered 5, 6, ... in table order"
    else if not (TermIndex.terminal_agreement_check ord cl) then begin
      let bad = Stdlib.List.find (fun c -> not (TermIndex.terminal_agreement_check ord [c])) cl in
      let (((t, _), _), i) = bad in
      Printf.sprintf "FAIL key=production-table-index%s the production table uses token number %d for terminal %s, which is a different terminal in the scanner / lookahead tables"
        (if mixed then "-mixed-quoting" else "") (int_of_n i) (show_word t)
    end
    else begin
      (* the parts numbered by the ANALYSIS (lookahead automata, LR table, scanner transitions, skip lists) against the
         production table: the automata must be exact for the grammar in production-table numbering, the LR table must
         validate against it, a transition trigger / skipped token must be a terminal of its scanner state *)
      let tag = Printf.sprintf "%s" (if mixed then "equal-text-different-kind-or-lookahead" else "plain") in
      match more with
      | [g2; L [A "ll"; kk; L autos]; L states] ->
        let bad_state = Stdlib.List.exists (function
            | L [L mem; L trig; L skip] ->
              let m = ints_of_sx (L mem) in
              Stdlib.List.exists (fun t -> not (Stdlib.List.mem t m)) (ints_of_sx (L trig) @ ints_of_sx (L skip))
            | _ -> true) states in
        if bad_state then "FAIL key=scanner-transition-terminal a scanner state's transition trigger or skip list names a token number that is not a terminal of that state"
        else begin
          let g = cfg_of_sx g2 in
          if Stdlib.List.length g.Cfg.prods > 40 then Printf.sprintf "OK %d %s" (if mixed then 1 else 0) tag
          else
            let r = c07 [A "x"; kk; L [A "built"; g2; L autos]] in
            if Stdlib.String.length r >= 2 && Stdlib.String.sub r 0 2 = "OK" then Printf.sprintf "OK %d %s automata-agree" (if mixed then 1 else 0) tag
            else if Stdlib.String.length r >= 8 && Stdlib.String.sub r 0 8 = "FAIL key" then
              "FAIL key=automata-vs-production-table:" ^ Stdlib.String.sub r 9 (Stdlib.String.length r - 9)
            else r
        end
      | [g2; L [A "lr"; tb]; L states] ->
        let bad_state = Stdlib.List.exists (function
            | L [L mem; L trig; L skip] ->
              let m = ints_of_sx (L mem) in
              Stdlib.List.exists (fun t -> not (Stdlib.List.mem t m)) (ints_of_sx (L trig) @ ints_of_sx (L skip))
            | _ -> true) states in
        if bad_state then "FAIL key=scanner-transition-terminal a scanner state's transition trigger or skip list names a token number that is not a terminal of that state"
        else begin
          let tb' = lr_table_of_sx tb and g = cfg_of_sx g2 in
          let nstates = Stdlib.List.length tb'.LRParser.lr_states in
          if LRValidate.lr_validate (nat_of_int (4 * nstates + 50)) g tb' then Printf.sprintf "OK %d %s lr-table-agrees" (if mixed then 1 else 0) tag
          else "FAIL key=lr-table-vs-production-table the LALR(1) table does not validate against the grammar in the numbering of the production table"
        end
      | _ -> Printf.sprintf "OK %d %s" (if mixed then 1 else 0) tag
    end
  | _ -> "FAIL malformed case"

(* C26 *)
let c26 = function
  | [A kind; _; _; res] ->
    (match res with
     | L [A "ok"] -> Printf.sprintf "OK 1 %s-ok" kind
     | L (A "err" :: _) -> Printf.sprintf "OK %d %s-err" (if kind = "valid" || kind = "mutant" then 1 else 0) kind
     | L [A "panic"; site] -> Printf.sprintf "FAIL key=panic:%s the generator pipeline panicked at %s (%s input)" (str_of_sx site) (str_of_sx site) kind
     | _ -> "FAIL malformed result")
  | _ -> "FAIL malformed case"

(* C14 / C17 *)
let c14 = function
  | [A kind; _; len; L ms; verdict; acts; evs; cms; pverdict; pacts] ->
    let len' = n_of_int (int_of_sx len) in
    let skips = [[n_of_int 30]] in
    let ms' = Stdlib.List.map (fun m -> match ints_of_sx m with
        | [t; s; e] -> { TokenBuffer.m_type = n_of_int t; m_start = n_of_int s; m_end = n_of_int e; m_mode = BinNums.N0 }
        | _ -> failwith "match") ms in
    if verdict = A "panic" || pverdict = A "panic" then "FAIL key=parser-panic the parser panicked"
    else if not (TokenBuffer.matches_ok len' ms') then "SKIP scanner matches not well-formed"
    else begin
      let expected = Stdlib.List.map (fun t -> let ((a, b), c) = TokenBuffer.token_triple t in (int_of_n a, int_of_n b, int_of_n c)) (TokenBuffer.all_tokens skips len' ms') in
      let leaves = Stdlib.List.filter_map (function
          | L [A "t"; t; s; e] -> Some (int_of_sx t, int_of_sx s, int_of_sx e) | _ -> None) (list_of_sx evs) in
      let has_gap = Stdlib.List.exists (fun (t, _, _) -> t > 31 || t = 65533 || (t > 4 && t <> 30 && false)) expected in
      let nskip = Stdlib.List.length (Stdlib.List.filter (fun (t, _, _) -> t < 5 || t = 30 || t > 31) expected) in
      let listed = Stdlib.List.exists (fun (t, _, _) -> t = 30) expected in
      ignore has_gap;
      if prop = "C14" then begin
        if verdict <> A "ok" then "OK 0 not-accepted"
        else if not (TokenBuffer.tokens_check len' (Stdlib.List.map (fun (t, s, e) -> ((n_of_int t, n_of_int s), n_of_int e)) leaves))
        then "FAIL key=tree-leaves-not-contiguous the leaves of the parse tree do not cover the text contiguously"
        else if leaves <> expected then
          Printf.sprintf "FAIL key=tree-leaves-differ-from-tokens the leaves of the parse tree are not exactly the tokens of the input (%d leaves, %d tokens)" (Stdlib.List.length leaves) (Stdlib.List.length expected)
        else Printf.sprintf "OK %d %s" (if nskip >= 1 then 1 else 0) kind
      end else begin
        (* C17 *)
        if verdict <> pverdict then Printf.sprintf "FAIL key=skipped-tokens-change-verdict%s with skip material: %s, without: %s" (if listed then "-skip-listed" else "") (Sexp.to_string verdict) (Sexp.to_string pverdict)
        else if verdict = A "ok" && acts <> pacts then Printf.sprintf "FAIL key=skipped-tokens-change-actions%s-%s the semantic actions differ from those of the text without skip material" (if listed then "-skip-listed" else "") kind
        else begin
          let want = Stdlib.List.filter_map (fun (t, s, _) -> if t = 3 || t = 4 then Some [t; s] else None) expected in
          let got = Stdlib.List.map ints_of_sx (list_of_sx cms) in
          if verdict = A "ok" && got <> want then "FAIL key=comments-not-once-in-order the comment callback did not receive every comment exactly once in input order"
          else Printf.sprintf "OK %d %s%s" (if nskip >= 2 && verdict = A "ok" then 1 else 0) kind (if listed then " skip-listed" else "")
        end
      end
    end
  | _ -> "FAIL malformed case"

(* C13 *)
let c13 = function
  | [_; L [A why]] -> "OK 0 " ^ why
  | [_; L (A "scanner-build-failed" :: _)] -> "SKIP scnr2_generate could not build the scanner"
  | [_; L (A "modes" :: ms0); text; _k; res] ->
    let members = Stdlib.List.concat_map (function L (A "members" :: sets) -> [Stdlib.List.map (fun x -> ints_of_sx x) sets] | _ -> []) ms0 in
    let skip_lists = Stdlib.List.concat_map (function L (A "skips" :: sets) -> [Stdlib.List.map (fun x -> ints_of_sx x) sets] | _ -> []) ms0 in
    let ms = Stdlib.List.filter (function L (A "members" :: _) | L (A "skips" :: _) -> false | _ -> true) ms0 in
    (* the grammar's own state annotations decide which user terminals a scanner state has *)
    let membership_problem =
      (match members with
       | [sets] when Stdlib.List.length sets = Stdlib.List.length ms ->
         let maxu = Stdlib.List.fold_left (fun a l -> Stdlib.List.fold_left max a l) 4 sets in
         let probs = Stdlib.List.mapi (fun m (mode, want) ->
             (match mode with
              | L [L entries; _] ->
                let have = Stdlib.List.sort_uniq compare (Stdlib.List.filter (fun t -> t >= 5 && t <= maxu)
                                                        (Stdlib.List.map (function L (ty :: _) -> int_of_sx ty | _ -> -1) entries)) in
                let want' = Stdlib.List.sort_uniq compare want in
                if have = want' then None
                else Some (Printf.sprintf "scanner state %d has the user terminals [%s], the grammar's state annotations give [%s]" m
                             (Stdlib.String.concat " " (Stdlib.List.map string_of_int have)) (Stdlib.String.concat " " (Stdlib.List.map string_of_int want')))
              | _ -> None)) (Stdlib.List.combine ms sets) in
         Stdlib.List.find_opt (fun x -> x <> None) probs
       | _ -> None) in
    let unsupported = ref false in
    let rx x = if x = L [A "unsupported"] then (unsupported := true; Regex.Empty) else regex_of_sx x in
    let modes = Stdlib.List.map (function
        | L [L entries; L trans] ->
          let es = Stdlib.List.map (function
              | L [ty; r; la] ->
                let la' = (match la with A "none" -> None | L [p; lr] -> Some (int_of_sx p = 1, rx lr) | _ -> failwith "la") in
                ((n_of_int (int_of_sx ty), rx r), la')
              | _ -> failwith "entry") entries in
          let tr = Stdlib.List.map (function
              | L [ty; A "enter"; m] -> (n_of_int (int_of_sx ty), LongestMatch.Enter (nat_of_int (int_of_sx m)))
              | L [ty; A "push"; m] -> (n_of_int (int_of_sx ty), LongestMatch.Push (nat_of_int (int_of_sx m)))
              | L [ty; A "pop"] -> (n_of_int (int_of_sx ty), LongestMatch.Pop)
              | _ -> failwith "transition") trans in
          (es, tr)
        | _ -> failwith "mode") ms in
    if (match membership_problem with Some (Some _) -> true | _ -> false) then
      (match membership_problem with Some (Some w) -> "FAIL key=scanner-state-membership " ^ w | _ -> "FAIL ?")
    else if !unsupported then "SKIP pattern uses a regex feature outside the model"
    else if not (LongestMatch.modes_ok modes) then "SKIP mode table refers to an unknown mode"
    else begin
      match res with
      | L [A "error"; _] -> "FAIL key=stream-error the real token stream returned an error"
      | L real ->
        let s = ns_of_sx text in
        (match LongestMatch.tokenize_all modes s with
         | None -> "SKIP model out of fuel"
         | Some toks ->
           let want = Stdlib.List.map (fun ((ty, st), ln) -> (int_of_n ty, int_of_nat st, int_of_nat st + int_of_nat ln)) toks in
           let got = Stdlib.List.filter_map (fun r -> match ints_of_sx r with (ty :: a :: b :: _) when ty <> 65534 -> Some (ty, a, b) | _ -> None) real in
           (* C17: a token is skipped iff it is a built-in skip token or listed in the %skip list of the scanner state it
              was MATCHED in (the state before the transition it may trigger) *)
           let flag_problem =
             if prop <> "C17" || got <> want then None else begin
               let flags = Stdlib.List.filter_map (fun r -> match ints_of_sx r with [ty; _; _; f] when ty <> 65534 -> Some f | _ -> None) real in
               let skips = (match skip_lists with [l] -> l | _ -> []) in
               if Stdlib.List.length flags <> Stdlib.List.length got then None else begin
                 let mode = ref 0 and stack = ref [] and bad = ref None in
                 Stdlib.List.iteri (fun i ((ty, a, _), f) ->
                     let listed = (match Stdlib.List.nth_opt skips !mode with Some l -> Stdlib.List.mem ty l | None -> false) in
                     let expect = if (ty >= 1 && ty <= 4) || listed then 1 else 0 in
                     if f <> expect && !bad = None then
                       bad := Some (Printf.sprintf "token %d (type %d at %d, matched in scanner state %d) is %s, but its state's %%skip list says %s" i ty a !mode
                                      (if f = 1 then "skipped" else "delivered to the parser") (if expect = 1 then "skip" else "deliver"));
                     (match Stdlib.List.nth_opt modes !mode with
                      | Some (_, tr) ->
                        (match Stdlib.List.assoc_opt (n_of_int ty) tr with
                         | Some (LongestMatch.Enter m) -> mode := int_of_nat m
                         | Some (LongestMatch.Push m) -> stack := !mode :: !stack; mode := int_of_nat m
                         | Some LongestMatch.Pop -> (match !stack with m :: rest -> mode := m; stack := rest | [] -> ())
                         | None -> ())
                      | None -> ())) (Stdlib.List.combine got flags);
                 !bad
               end
             end in
           if flag_problem <> None then (match flag_problem with Some w -> "FAIL key=state-skip-flag " ^ w | None -> "FAIL ?")
           else if got = want then begin
             (* non-trivial: at some token start at least two entries match *)
             let nt = Stdlib.List.length want >= 2 in
             let has_skips = (match skip_lists with [l] -> Stdlib.List.exists (fun x -> x <> []) l | _ -> false) in
             Printf.sprintf "OK %d modes-%d%s" (if nt then 1 else 0) (Stdlib.List.length modes) (if has_skips then " state-skip-lists" else "")
           end else begin
             let rec firstdiff i a b = (match a, b with
                 | x :: a', y :: b' when x = y -> firstdiff (i + 1) a' b'
                 | x :: _, y :: _ -> Printf.sprintf "token %d: real (%d %d..%d) spec (%d %d..%d)" i (let (t,_,_) = x in t) (let (_,a,_) = x in a) (let (_,_,b) = x in b) (let (t,_,_) = y in t) (let (_,a,_) = y in a) (let (_,_,b) = y in b)
                 | [], _ :: _ -> Printf.sprintf "real stream ends after %d tokens" i
                 | _ :: _, [] -> Printf.sprintf "real stream has more than the %d tokens of the spec" i
                 | [], [] -> "") in
             Printf.sprintf "FAIL key=tokens-differ-from-longest-match %s" (firstdiff 0 got want)
           end)
      | _ -> "FAIL malformed result"
    end
  | _ -> "FAIL malformed case"

let dispatch (sx : Sexp.t) : string =
  match sx with
  | L (A "lev" :: args) -> c31 args
  | L (A "eval" :: args) -> c08 args
  | L (A "aug" :: args) -> c12 args
  | L (A "wf" :: args) -> c11 args
  | L (A "scan" :: args) -> c13 args
  | L (A "lossless" :: args) -> c14 args
  | L (A "pipe" :: args) -> c26 args
  | L (A "tix" :: args) -> c18 args
  | L (A "diag" :: args) -> c29 args
  | L (A "ll" :: args) -> if prop = "C20" then c20_ll args else c01 args
  | L (A "lro" :: args) -> c20_lr args
  | L (A "llt" :: args) -> c19_ll args
  | L (A "enc" :: args) -> c21 args
  | L (A "ast" :: args) -> c23 args
  | L (A "lrt" :: args) -> c19_lr args
  | L (A "p2o" :: args) -> c30_p2o args
  | L (A "mode" :: args) -> c16_mode args
  | L [A "modes"; _; A "rejected"] -> "OK 0 grammar-rejected"
  | L [A "modes"; _; A "panic"] -> "FAIL key=panic reading the grammar panicked"
  | L (A "canon" :: args) -> c09 args
  | L (A "la" :: args) -> c07 args
  | L (A "ktseq" :: args) -> c32 args
  | L (A "lf" :: args) -> c10 args
  | L (A "blk" :: args) -> c15_block args
  | L (A "lin" :: args) -> c15_line args
  | L (A "cmulti" :: args) -> c15_multi args
  | L (A "lr" :: args) -> c03 args
  | L (A "first" :: args) -> c06_first args
  | L (A "follow" :: args) -> c06_follow args
  | L (A "dec" :: args) -> c05 args
  | _ -> "SKIP unknown case kind"

let () =
  try
    while true do
      let line = input_line stdin in
      if Stdlib.String.length line > 0 && line.[0] = '(' then begin
        let verdict =
          try dispatch (Sexp.parse line)
          with e -> "FAIL driver exception " ^ Printexc.to_string e in
        print_endline verdict
      end
    done
  with End_of_file -> ()
