//! C15: the real comment regexes parol generates, for many delimiter pairs.
use crate::{rng::Rng, rx, sx, Args};
use parol::{obtain_grammar_config_from_string, ScannerConfig};

fn build_info(sc: &ScannerConfig) -> Result<Vec<(String, u16)>, String> {
    let gc = obtain_grammar_config_from_string("%start S\n%%\nS: \"x\";\n", false).map_err(|e| format!("{e}"))?;
    let names: Vec<String> = (0..8).map(|i| format!("T{i}")).collect();
    let (maps, _) = sc.generate_build_information(&gc, &names).map_err(|e| format!("{e}"))?;
    Ok(maps.into_iter().map(|(rx, ti, _, _)| (rx, ti)).collect())
}

pub fn block_case(start: &str, end: &str) -> String {
    let (s, e) = (rx::escape(start), rx::escape(end));
    let sc = ScannerConfig::default().with_block_comments(vec![(s.clone(), e.clone())]);
    let r = std::panic::catch_unwind(|| build_info(&sc));
    match r {
        Err(_) => format!("(blk {} {} panic)", rx::cps(start), rx::cps(end)),
        Ok(Err(msg)) => format!("(blk {} {} (rejected {}))", rx::cps(start), rx::cps(end), sx::s(&msg.chars().take(80).collect::<String>())),
        Ok(Ok(maps)) => {
            let pat = maps.iter().find(|(_, ti)| *ti == 4).map(|(p, _)| p.clone()).unwrap_or_default();
            match rx::translate(&pat) {
                Ok(t) => format!("(blk {} {} (rx {} {}))", rx::cps(start), rx::cps(end), sx::s(&pat), t),
                Err(why) => format!("(blk {} {} (untranslatable {}))", rx::cps(start), rx::cps(end), sx::s(&why)),
            }
        }
    }
}

pub fn line_case(start: &str) -> String {
    let s = rx::escape(start);
    let sc = ScannerConfig::default().with_line_comments(vec![s]);
    match std::panic::catch_unwind(|| build_info(&sc)) {
        Err(_) => format!("(lin {} panic)", rx::cps(start)),
        Ok(Err(msg)) => format!("(lin {} (rejected {}))", rx::cps(start), sx::s(&msg)),
        Ok(Ok(maps)) => {
            let pat = maps.iter().find(|(_, ti)| *ti == 3).map(|(p, _)| p.clone()).unwrap_or_default();
            match rx::translate(&pat) {
                Ok(t) => format!("(lin {} (rx {} {}))", rx::cps(start), sx::s(&pat), t),
                Err(why) => format!("(lin {} (untranslatable {}))", rx::cps(start), sx::s(&why)),
            }
        }
    }
}

/// Several comment styles in ONE scanner state: the comment terminal must be the union of the single-style terminals.
pub fn multi_case(lines: &[&str], blocks: &[(&str, &str)]) -> String {
    let pat_of = |sc: &ScannerConfig, ti: u16| -> Result<String, String> {
        match std::panic::catch_unwind(|| build_info(sc)) {
            Err(_) => Err("panic".to_string()),
            Ok(Err(m)) => Err(format!("rejected {}", m.chars().take(40).collect::<String>())),
            Ok(Ok(maps)) => Ok(maps.iter().find(|(_, t)| *t == ti).map(|(p, _)| p.clone()).unwrap_or_default()),
        }
    };
    let ls: Vec<String> = lines.iter().map(|s| rx::escape(s)).collect();
    let bs: Vec<(String, String)> = blocks.iter().map(|(s, e)| (rx::escape(s), rx::escape(e))).collect();
    let all = ScannerConfig::default().with_line_comments(ls.clone()).with_block_comments(bs.clone());
    let mut parts = vec![];
    for (ti, n) in [(3u16, ls.len()), (4u16, bs.len())] {
        if n < 2 { continue; }
        let multi = match pat_of(&all, ti) { Ok(p) => p, Err(e) => return format!("(cmulti {} ({}))", ti, e.split(' ').next().unwrap()) };
        let mut singles = vec![];
        for i in 0..n {
            let sc = if ti == 3 { ScannerConfig::default().with_line_comments(vec![ls[i].clone()]) } else { ScannerConfig::default().with_block_comments(vec![bs[i].clone()]) };
            match pat_of(&sc, ti) { Ok(p) => singles.push(p), Err(e) => return format!("(cmulti {} ({}))", ti, e.split(' ').next().unwrap()) }
        }
        let tr = |p: &str| rx::translate(p).unwrap_or_else(|_| "(unsupported)".to_string());
        parts.push(format!("({} {} {} ({}))", ti, sx::s(&multi), tr(&multi), singles.iter().map(|p| tr(p)).collect::<Vec<_>>().join(" ")));
    }
    format!("(cmulti {} {})", sx::s(&format!("{:?} {:?}", lines, blocks)), parts.join(" "))
}

pub fn run(a: &Args) {
    let mut rng = Rng::new(a.seed ^ ((a.shard as u64) << 32) ^ 0xC15);
    {
        // several styles in one state
        let lpool = ["//", "#", "--", ";", "%", "REM", "!"];
        let bpool = [("/*", "*/"), ("(*", "*)"), ("{", "}"), ("#|", "|#"), ("{-", "-}"), ("<<", ">>"), ("[", "]")];
        for _ in 0..(a.n / 8).max(2) {
            let nl = rng.range(0, 3);
            let nb = if nl < 2 { rng.range(2, 3) } else { rng.range(0, 3) };
            let mut ls: Vec<&str> = vec![];
            while ls.len() < nl { let x = lpool[rng.below(lpool.len())]; if !ls.contains(&x) { ls.push(x); } }
            let mut bs: Vec<(&str, &str)> = vec![];
            while bs.len() < nb { let x = bpool[rng.below(bpool.len())]; if !bs.contains(&x) { bs.push(x); } }
            println!("{}", multi_case(&ls, &bs));
        }
    }
    let alphabet: Vec<char> = "*/-><)(#ab{}%!|~+".chars().collect();
    if a.shard == 0 {
        for (s, e) in [("/*", "*/"), ("(*", "*)"), ("<!--", "-->"), ("{", "}"), ("#|", "|#"), ("--[[", "]]"), ("{-", "-}"),
                       ("%{", "%}"), ("/+", "+/"), ("<<", "--"), ("a", "abc"), ("#", "aab"), ("#", "aba"), ("#", "aaa"), ("#", "abb"), ("\"\"\"", "\"\"\"")] {
            println!("{}", block_case(s, e));
        }
        for s in ["//", "#", "--", ";", "%", "REM"] {
            println!("{}", line_case(s));
        }
    }
    // exhaustive over a 3-letter alphabet for the end delimiter (all equality patterns), quick and thorough
    if a.shard == 0 {
        let letters = ['a', 'b', 'c'];
        let mut ends: Vec<String> = vec![];
        for x in letters { ends.push(x.to_string()); for y in letters { ends.push(format!("{x}{y}")); for z in letters { ends.push(format!("{x}{y}{z}")); } } }
        for e in &ends {
            for s in ["#", "a", "ab"] {
                println!("{}", block_case(s, e));
            }
        }
    }
    for _ in 0..a.n {
        let sl = rng.range(1, 3);
        let el = rng.range(1, 3);
        let small = rng.chance(1, 2);
        let pickc = |rng: &mut Rng| -> char { if small { alphabet[rng.below(4)] } else { *rng.pick(&alphabet) } };
        let s: String = (0..sl).map(|_| pickc(&mut rng)).collect();
        let e: String = (0..el).map(|_| pickc(&mut rng)).collect();
        println!("{}", block_case(&s, &e));
        if rng.chance(1, 6) {
            println!("{}", line_case(&s));
        }
    }
}
