(** * Left factoring: executable model of [left_factor]
      (crates/parol/src/transformation/left_factoring.rs, [group_by]/[generate_name] of
      crates/parol/src/utils/mod.rs) and post-condition checkers for its real output.

    Modelling decisions (the proofs are in [Transform/LeftFactorProofs.v]).

    - Grammars are [Grammar.Cfg.cfg]; symbol equality is [sym_eqb] (the harness numbers the Rust
      [Symbol]s so that two symbols get the same number iff they are [==] in Rust, i.e. including
      clipping / member name / user type attributes).
    - Hash-map iteration orders are ORACLE parameters.  A hash map is modelled by the list of its
      entries in first-insertion order, *stably sorted by an arbitrary [nat]-valued "hash"* of the
      key.  Every function [key -> nat] is a legal oracle (so the theorems quantify over all
      oracles without side conditions) and every permutation of the entries is produced by some
      oracle.  Because every [HashMap::new()] has its own [RandomState], the hash may depend on the
      map: [ord_groups it] orders the [group_by] result in outer iteration [it];
      [ord_prefix it a n] orders the prefix groups of the inner [find_prefix(candidates, n)] call
      for rule name [a] in outer iteration [it] (each such map is created exactly once per run).
    - [generate_name] is a NAME SUPPLY parameter [fresh : N -> list N -> N]
      ([fresh a excl] = the name produced for preferred name "<a>Suffix" with exclusion list
      [excl]); the only fact used about it is [~ In (fresh a excl) excl], which is what the Rust
      loop establishes.  [fresh_max] (successor of the largest excluded number) is an instance.
    - [None] results: out of fuel (outer loop, or the internal probe recursion of [find_prefix],
      which the proofs show never to run out with the fuel the model supplies), or the
      [panic!] of [mod_factor] on an empty rule list (shown unreachable). *)
From Coq Require Import List Arith NArith Bool Lia.
From Parol Require Import Grammar.Cfg.
Import ListNotations.

(** ** Oracles *)
Record oracle := mkOracle {
  ord_groups : nat -> N -> nat;
  ord_prefix : nat -> N -> nat -> list sym -> nat }.

(** Stable insertion sort by a [nat] key: the iteration order of a hash map. *)
Section SortBy.
  Variable A : Type.
  Variable key : A -> nat.
  Fixpoint ins (x : A) (l : list A) : list A :=
    match l with
    | [] => [x]
    | y :: l' => if key y <? key x then y :: ins x l' else x :: l
    end.
  Definition sort_by (l : list A) : list A := fold_right ins [] l.
End SortBy.
Arguments ins {A} key x l.
Arguments sort_by {A} key l.

(** Keys of a map in first-insertion order. *)
Fixpoint dedup {A : Type} (eqb : A -> A -> bool) (l : list A) : list A :=
  match l with
  | [] => []
  | x :: l' => x :: filter (fun y => negb (eqb x y)) (dedup eqb l')
  end.

(** ** [find_prefix] *)

(** [candidates.iter().filter(|c| c.len() >= n).map(|c| &c[..n])] *)
Definition cands (c : list (list sym)) (n : nat) : list (list sym) :=
  map (firstn n) (filter (fun x => n <=? length x) c).

Definition count_eq (k : list sym) (cs : list (list sym)) : nat :=
  length (filter (syms_eqb k) cs).

(** [Iterator::max_by_key]: the LAST maximal element. *)
Definition max_step {K : Type} (best : option (K * nat)) (x : K * nat) : option (K * nat) :=
  match best with
  | None => Some x
  | Some b => if snd x <? snd b then Some b else Some x
  end.
Definition max_by_count {K : Type} (l : list (K * nat)) : option (K * nat) :=
  fold_left max_step l None.

(** The inner [find_prefix(candidates, n)]; [ordn] is the hash of this call's [groups] map. *)
Definition fp (ordn : list sym -> nat) (c : list (list sym)) (n : nat) : list sym :=
  let cs := cands c n in
  if length cs <? 2 then []
  else
    let groups := map (fun k => (k, count_eq k cs)) (dedup syms_eqb cs) in
    match max_by_count (sort_by (fun kv => ordn (fst kv)) groups) with
    | Some (k, v) => if 1 <? v then k else []
    | None => []
    end.

(** [find_longest_prefix(candidates, n)] with its probing of [n], [n+1] and then [n+2]...
    The Rust recursion has no explicit bound; it stops because [fp] is empty beyond the longest
    candidate.  [fuel] bounds the recursion depth here ([None] when exhausted). *)
Fixpoint flp (ord : nat -> list sym -> nat) (fuel : nat) (c : list (list sym)) (n : nat)
  : option (list sym) :=
  let p1 := fp (ord n) c n in
  let p2 := fp (ord (S n)) c (S n) in
  match p1, p2 with
  | [], [] => Some []
  | _, [] => Some p1
  | _, _ =>
      match fuel with
      | 0 => None
      | S f =>
          match flp ord f c (S (S n)) with
          | None => None
          | Some [] => Some p2
          | Some p3 => Some p3
          end
      end
  end.

Definition maxlen (c : list (list sym)) : nat :=
  fold_right (fun x m => Nat.max (length x) m) 0 c.

(** The outer [find_prefix(candidates)] = [find_longest_prefix(candidates, 1)]. *)
Definition find_prefix (ord : nat -> list sym -> nat) (c : list (list sym)) : option (list sym) :=
  flp ord (S (maxlen c)) c 1.

(** ** [group_by] and [find_longest_prefixes] *)
Definition rules_of (pr : list prod) (a : N) : list prod :=
  filter (fun r => N.eqb (lhs r) a) pr.
Definition others (pr : list prod) (a : N) : list prod :=
  filter (fun r => negb (N.eqb (lhs r) a)) pr.

(** [group_by(rules, |r| r.get_n_str())]: one entry per rule name holding that name's rules in
    their original order; entries in hash order.  Only the keys are listed here, the entry of
    key [a] is [rules_of pr a]. *)
Definition group_keys (ordg : N -> nat) (pr : list prod) : list N :=
  sort_by ordg (dedup N.eqb (map lhs pr)).

Fixpoint flps_keys (o : oracle) (it : nat) (pr : list prod) (keys : list N)
  : option (list (N * list sym)) :=
  match keys with
  | [] => Some []
  | a :: ks =>
      match find_prefix (ord_prefix o it a) (map rhs (rules_of pr a)), flps_keys o it pr ks with
      | Some p, Some r => Some (match p with [] => r | _ :: _ => (a, p) :: r end)
      | _, _ => None
      end
  end.

Definition find_longest_prefixes (o : oracle) (it : nat) (pr : list prod)
  : option (list (N * list sym)) :=
  flps_keys o it pr (group_keys (ord_groups o it) pr).

(** ** The rewrite *)

(** [pr.len() < prefix_len || pr.get_r()[0..prefix_len] != prefix[..]] *)
Definition no_prefix (prefix r : list sym) : bool :=
  (length r <? length prefix) || negb (syms_eqb (firstn (length prefix) r) prefix).

Definition factor_out_rule (a' : N) (prefix : list sym) (p : prod) : prod :=
  if no_prefix prefix (rhs p) then p else mkProd a' (skipn (length prefix) (rhs p)).

(** [var_names]: left-hand sides and right-hand-side non-terminals, first occurrence order. *)
Definition pr_nts (pr : list prod) : list N :=
  flat_map (fun p => lhs p :: rhs_nts (rhs p)) pr.
Definition var_names (pr : list prod) : list N := dedup N.eqb (pr_nts pr).

Section Model.
  (** The name supply ([generate_name]). *)
  Variable fresh : N -> list N -> N.

  (** [None] = the [panic!] on an empty rule list. *)
  Definition mod_factor (excl : list N) (prefix : list sym) (rules : list prod)
    : option (list prod) :=
    match rules with
    | [] => None
    | r0 :: _ =>
        let a' := fresh (lhs r0) excl in
        Some (mkProd (lhs r0) (prefix ++ [NT a']) :: map (factor_out_rule a' prefix) rules)
    end.

  Fixpoint find_index {A : Type} (f : A -> bool) (l : list A) : option nat :=
    match l with
    | [] => None
    | x :: l' => if f x then Some 0 else option_map S (find_index f l')
    end.

  (** [apply_rule_transformation]; the state is [(modified, pr)]. *)
  Definition apply_rule_transformation (st : bool * list prod) (a : N)
             (trans : list prod -> option (list prod)) : option (bool * list prod) :=
    let '(m, pr) := st in
    match find_index (fun r => N.eqb (lhs r) a) pr with
    | None => Some (m, pr)
    | Some i =>
        let rest := others pr a in
        match trans (rules_of pr a) with
        | None => None
        | Some new => Some (true, firstn i rest ++ new ++ skipn i rest)
        end
    end.

  Definition factor_out_prefix (st : bool * list prod) (e : N * list sym)
    : option (bool * list prod) :=
    apply_rule_transformation st (fst e) (mod_factor (var_names (snd st)) (snd e)).

  (** [prefixes.iter().fold(operand, &factor_out_prefix)] *)
  Fixpoint factor_out_all (pfx : list (N * list sym)) (st : bool * list prod)
    : option (bool * list prod) :=
    match pfx with
    | [] => Some st
    | e :: rest =>
        match factor_out_prefix st e with
        | None => None
        | Some st' => factor_out_all rest st'
        end
    end.

  Variable o : oracle.

  (** [while operand.modified { operand.modified = false; iteration += 1; factor_out }] *)
  Fixpoint lf_loop (fuel it : nat) (pr : list prod) : option (list prod) :=
    match fuel with
    | 0 => None
    | S f =>
        match find_longest_prefixes o it pr with
        | None => None
        | Some pfx =>
            match factor_out_all pfx (false, pr) with
            | None => None
            | Some (m, pr') => if m then lf_loop f (S it) pr' else Some pr'
            end
        end
    end.

  Definition left_factor (fuel : nat) (g : cfg) : option cfg :=
    match lf_loop fuel 1 (prods g) with
    | None => None
    | Some pr => Some (mkCfg (start g) pr)
    end.
End Model.

(** A name supply: one more than the largest excluded number. *)
Definition fresh_max (_ : N) (excl : list N) : N := N.succ (fold_right N.max 0%N excl).

(** ** Termination measure and fuel bound *)
Fixpoint lcp (x y : list sym) : nat :=
  match x, y with
  | s :: x', t :: y' => if sym_eqb s t then S (lcp x' y') else 0
  | _, _ => 0
  end.
Definition plcp (p q : prod) : nat :=
  if N.eqb (lhs p) (lhs q) then lcp (rhs p) (rhs q) else 0.
Definition sumf {A : Type} (f : A -> nat) (l : list A) : nat :=
  fold_right (fun x acc => f x + acc) 0 l.
Definition cross (X Y : list prod) : nat := sumf (fun x => sumf (plcp x) Y) X.

(** Sum over all ordered pairs (p, q) of productions with the same left-hand side (p = q
    included) of the length of the longest common prefix of their right-hand sides. *)
Definition lf_weight (pr : list prod) : nat := cross pr pr.
Definition lf_fuel (g : cfg) : nat := S (lf_weight (prods g)).

(** ** Checkers for the real output *)
Definition starts_with (s : sym) (r : list sym) : bool :=
  match r with
  | x :: _ => sym_eqb s x
  | [] => false
  end.

(** No two alternatives (at different positions) of one non-terminal with non-empty right-hand
    sides start with the same symbol. *)
Definition prefix_free_check (g : cfg) : bool :=
  forallb (fun p =>
             match rhs p with
             | [] => true
             | s :: _ =>
                 length (filter (fun q => N.eqb (lhs q) (lhs p) && starts_with s (rhs q))
                                (prods g)) <=? 1
             end) (prods g).

Definition memN (a : N) (l : list N) : bool := existsb (N.eqb a) l.

(** Every production of [g'] whose left-hand side has no production in [g] (a new suffix
    non-terminal) has a left-hand side that is not a non-terminal of [g] at all. *)
Definition fresh_check (g g' : cfg) : bool :=
  forallb (fun p => memN (lhs p) (map lhs (prods g)) || negb (memN (lhs p) (nts g))) (prods g').

Definition lf_check (g g' : cfg) : bool :=
  N.eqb (start g') (start g) && prefix_free_check g' && fresh_check g g'.
