(** Property C18 — All generated parts agree on terminal identity. Pinned statements (tools/pin.py); proofs in Tables/TermIndex.v. index_of_pm is the lookup of build_production_model at the pinned commit (D8), index_of_pm_fixed the repaired one. *)
From Coq Require Import List NArith.
From Parol Require Import Tables.TermIndex.
Import ListNotations.

Theorem C18_ordered_terminals_nodup :
  forall (occs : list occurrence) (i j : nat) (a b : occurrence),
  nth_error (ordered_terminals occs) i = Some a ->
  nth_error (ordered_terminals occs) j = Some b -> same_terminal a b = true -> i = j.
Proof. exact ordered_terminals_nodup. Qed.

Theorem C18_index_of_total :
  forall (occs : list occurrence) (o : occurrence),
  In o occs ->
  exists i : N,
  index_of occs o = Some i /\
  (first_user_token <= i < first_user_token + N.of_nat (length (ordered_terminals occs)))%N.
Proof. exact index_of_total. Qed.

Theorem C18_index_agree :
  forall (occs : list occurrence) (o : occurrence),
  In o occs ->
  exists (i : N) (o' : occurrence),
  index_of occs o = Some i /\
  nth_error (ordered_terminals occs) (N.to_nat (i - first_user_token)) = Some o' /\
  same_terminal o o' = true.
Proof. exact index_agree. Qed.

Theorem C18_index_of_pm_refuted :
  exists (occs : list occurrence) (o : occurrence) (i : N) (e : occurrence),
  In o occs /\
  index_of_pm occs o = Some i /\
  nth_error (ordered_terminals occs) (N.to_nat (i - first_user_token)) = Some e /\
  same_terminal o e = false /\ index_of occs o <> Some i.
Proof. exact index_of_pm_refuted. Qed.

Theorem C18_index_of_pm_fixed_agree :
  forall (occs : list occurrence) (o : occurrence), index_of_pm_fixed occs o = index_of occs o.
Proof. exact index_of_pm_fixed_agree. Qed.

Theorem C18_index_of_gt_refuted :
  forall expand : kind -> list N -> list N,
  exists (occs : list occurrence) (o : occurrence) (n : nat) (e : occurrence),
  In o occs /\
  index_of_gt expand occs o = Some n /\
  nth_error (ordered_terminals occs) n = Some e /\ same_terminal o e = false.
Proof. exact index_of_gt_refuted. Qed.

Theorem C18_terminal_agreement_check_spec :
  forall (ordered : list occurrence) (claims : list (occurrence * N)),
  terminal_agreement_check ordered claims = true <->
  (forall (o : occurrence) (i : N),
  In (o, i) claims ->
  (first_user_token <= i)%N /\
  (exists e : occurrence,
  nth_error ordered (N.to_nat (i - first_user_token)) = Some e /\ same_terminal e o = true)).
Proof. exact terminal_agreement_check_spec. Qed.

Theorem C18_terminal_agreement_check_index :
  forall (occs : list occurrence) (claims : list (occurrence * N)) (o : occurrence) (i : N),
  terminal_agreement_check (ordered_terminals occs) claims = true ->
  In (o, i) claims -> index_of occs o = Some i.
Proof. exact terminal_agreement_check_index. Qed.

