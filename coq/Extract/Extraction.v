(** Extraction of the executable models and checkers to OCaml.
    Only ExtrOcamlBasic and ExtrOcamlString are used; numbers stay Coq datatypes. *)
From Coq Require Import Extraction ExtrOcamlBasic ExtrOcamlString.
From Parol Require Import Grammar.Cfg Grammar.Member Grammar.Ambig Runtime.Levenshtein Runtime.LevFaithful Runtime.DfaEval Transform.LrAugment Analysis.WellFormed Analysis.FirstFollow Analysis.FFCheck Runtime.LRParser Tables.LRValidate Scanner.Regex Scanner.RegexEquiv Scanner.LongestMatch Scanner.CommentSpec Scanner.CommentCheck Transform.LeftFactor Analysis.KTupleModel Analysis.KTuple Analysis.LaTrie Analysis.LaMinimize Grammar.Ebnf Transform.Names Transform.Canon Scanner.NoGap Ls.PosOffset Ls.Diagnostics Ls.Edits Runtime.LLParser Tables.TermIndex Gen2.Idents Runtime.TokenBuffer Runtime.TokenStream Runtime.LLTerm Runtime.LROptions Tables.LRTerm Gen2.AstModel.
Extraction Language OCaml.
Set Extraction Optimize.
Separate Extraction Levenshtein.lev_check Levenshtein.dist LevFaithful.lev
  DfaEval.eval_check DfaEval.sortedb DfaEval.wfd DfaEval.eval DfaEval.eval_old DfaEval.run
  Member.member Member.member_from Member.member_fuel
  LrAugment.augment_check LrAugment.isolatedb LrAugment.augment
  WellFormed.nullable_check WellFormed.unproductive_check WellFormed.reachable_check WellFormed.unreachable_check
  WellFormed.leftrec_check WellFormed.decision_check WellFormed.nullable_panics WellFormed.check_decision
  WellFormed.nullable_nts WellFormed.unproductive_nts WellFormed.unreachable_nts WellFormed.left_recursive_nts
  FFCheck.first_check FFCheck.first_prods_check FFCheck.follow_check FFCheck.decide_check
  FirstFollow.first_ref FirstFollow.follow_ref FirstFollow.decide_ref FirstFollow.lookup FirstFollow.first_prods
  LRParser.lr_run LRValidate.lr_validate LRValidate.infer_annotation LRValidate.lr_safe_check
  Regex.matchb Regex.rrep Regex.rrep_from Regex.rplus Regex.ropt Regex.mkCat Regex.mkAlt
  RegexEquiv.equiv_check_cp RegexEquiv.total_on_chars_list_cex RegexEquiv.total_on_chars_cex
  LongestMatch.tokenize_all LongestMatch.tokenize LongestMatch.modes_ok LongestMatch.best_match
  CommentCheck.block_check_sv CommentCheck.line_check_sv CommentSpec.dfa_accepts CommentSpec.block_spec CommentSpec.line_spec
  LeftFactor.prefix_free_check LeftFactor.fresh_check LeftFactor.lf_check
  KTupleModel.new KTupleModel.eps KTupleModel.end_ KTupleModel.of_ KTupleModel.push KTupleModel.extend KTupleModel.k_concat
  KTupleModel.clear KTupleModel.get KTupleModel.len KTupleModel.k_len KTupleModel.is_eps KTupleModel.is_k_complete
  KTupleModel.is_empty KTupleModel.iter KTupleModel.cmp KTupleModel.eqb KTupleModel.denote KTupleModel.wfb KTupleModel.term_eqb
  LaTrie.la_dfa_check LaTrie.la_depth_check LaTrie.fam_okb LaTrie.fam_detb LaTrie.compile LaMinimize.compile_min LaMinimize.wf_trieb
  FirstFollow.la_sets FirstFollow.sll_check
  Ebnf.emember Ebnf.emember_fuel Ebnf.ebnf_to_bnf Canon.canon Canon.canon_named Canon.canon_fuel Names.generate_name NoGap.plain_patterns
  PosOffset.pos_to_offset PosOffset.pos_to_offset_old PosOffset.extract_text_range PosOffset.is_boundary_b PosOffset.bytes
  Diagnostics.run Diagnostics.run_guarded Diagnostics.expected Edits.apply_edits
  LLParser.ll_run LLParser.tables_ok LLParser.tables_ok_basic LLParser.la_wf LLParser.grammar_of LLParser.events_to_tree
  TermIndex.terminal_agreement_check TermIndex.table_nodup_check TermIndex.index_of TermIndex.ordered_terminals
  Idents.valid_ident Idents.rust_ident_ok Idents.to_upper_camel_case Idents.to_lower_snake_case Idents.terminal_name_of Idents.generate_terminal_names
  TokenBuffer.all_tokens TokenBuffer.tokens_check TokenBuffer.token_triple TokenBuffer.matches_ok TokenStream.parser_input
  LLTerm.rank_ok LLTerm.find_cert LLTerm.left_recursion_free
  LROptions.lr_run_opts LROptions.lr_run_peak LROptions.lr_default_options
  LRTerm.acyclic_ok LRTerm.stack_rank_ok LRTerm.find_acyclic_cert LRTerm.find_stack_ranks LRTerm.find_eps_set LRTerm.eps_closed Ambig.ambig_check
  AstModel.build_ast AstModel.attrs_ok AstModel.user_ok AstModel.tokens_of AstModel.call_names.
