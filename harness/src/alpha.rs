//! The fixed "alphabet scanner": grammar terminal number 5+i is the lower-case letter i, so any
//! grammar over <= 26 terminals can be driven through the real TokenStream / parsers.
//! Token types: 0 EOI, 1 newline, 2 whitespace, 3 line comment, 4 block comment, 5..=30 letters,
//! 31 error token.
use parol_runtime::TokenStream;
use scnr2::scanner;

scanner! {
    AlphaScanner {
        mode INITIAL {
            token r"\r\n|\r|\n" => 1;
            token r"[\s--\r\n]+" => 2;
            token r"//.*(\r\n|\r|\n)?" => 3;
            token r"/\*/?([^/]|[^*]/)*\*/" => 4;
            token r"a" => 5;
            token r"b" => 6;
            token r"c" => 7;
            token r"d" => 8;
            token r"e" => 9;
            token r"f" => 10;
            token r"g" => 11;
            token r"h" => 12;
            token r"i" => 13;
            token r"j" => 14;
            token r"k" => 15;
            token r"l" => 16;
            token r"m" => 17;
            token r"n" => 18;
            token r"o" => 19;
            token r"p" => 20;
            token r"q" => 21;
            token r"r" => 22;
            token r"s" => 23;
            token r"t" => 24;
            token r"u" => 25;
            token r"v" => 26;
            token r"w" => 27;
            token r"x" => 28;
            token r"y" => 29;
            token r"z" => 30;
            token r"." => 31;
        }
    }
}

pub const ERROR_TOKEN_TYPE: u16 = 31;

// The same alphabet without the catch-all error token (a scanner state with %allow_unmatched):
// characters no rule matches become gaps.
scanner! {
    AlphaAuScanner {
        mode INITIAL {
            token r"\r\n|\r|\n" => 1;
            token r"[\s--\r\n]+" => 2;
            token r"//.*(\r\n|\r|\n)?" => 3;
            token r"/\*/?([^/]|[^*]/)*\*/" => 4;
            token r"a" => 5;
            token r"b" => 6;
            token r"c" => 7;
            token r"d" => 8;
            token r"e" => 9;
            token r"f" => 10;
            token r"g" => 11;
            token r"h" => 12;
            token r"i" => 13;
            token r"j" => 14;
            token r"k" => 15;
            token r"l" => 16;
            token r"m" => 17;
            token r"n" => 18;
            token r"o" => 19;
            token r"p" => 20;
            token r"q" => 21;
            token r"r" => 22;
            token r"s" => 23;
            token r"t" => 24;
            token r"u" => 25;
            token r"v" => 26;
            token r"w" => 27;
            token r"x" => 28;
            token r"y" => 29;
            token r"z" => 30;
        }
    }
}

pub type MatchFn = fn(char) -> Option<usize>;

/// Letter for a terminal index (5..=30), `$`-free.
pub fn letter(t: u16) -> char {
    assert!((5..=30).contains(&t));
    (b'a' + (t - 5) as u8) as char
}

/// Render a sequence of terminal indices as text, separated by single blanks.
pub fn render(types: &[u16]) -> String {
    types.iter().map(|t| letter(*t).to_string()).collect::<Vec<_>>().join(" ")
}

pub fn stream<'t>(
    input: &'t str,
    k: usize,
    skip: &'static [&'static [u16]],
) -> TokenStream<'t, MatchFn> {
    use alpha_scanner::AlphaScanner;
    let scanner = AlphaScanner::new();
    static MF: MatchFn = AlphaScanner::match_function;
    TokenStream::new_with_skip_tokens(input, "input", scanner.scanner_impl.clone(), &MF, k, skip).unwrap()
}

pub fn stream_au<'t>(
    input: &'t str,
    k: usize,
    skip: &'static [&'static [u16]],
) -> TokenStream<'t, MatchFn> {
    use alpha_au_scanner::AlphaAuScanner;
    let scanner = AlphaAuScanner::new();
    static MF: MatchFn = AlphaAuScanner::match_function;
    TokenStream::new_with_skip_tokens(input, "input", scanner.scanner_impl.clone(), &MF, k, skip).unwrap()
}

/// Raw scanner matches (type, start, end) of the allow-unmatched alphabet scanner.
pub fn matches_au(input: &str) -> Vec<(usize, usize, usize)> {
    use alpha_au_scanner::AlphaAuScanner;
    let scanner = AlphaAuScanner::new();
    scanner.find_matches(input, 0).map(|m| (m.token_type, m.span.start, m.span.end)).collect()
}
