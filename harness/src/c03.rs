//! C03 / C04: real LALR(1) table construction and the real LRParser on generated inputs.
use crate::{alpha, gram::*, rng::Rng, rt, Args};
use parol::analysis::lalr1_parse_table::{calculate_lalr1_parse_table, LRAction as GA};
use parol::parser::parol_grammar::GrammarType;
use parol::{check_and_transform_grammar, GrammarConfig};
use parol_runtime::lr_parser::parser_types::{LR1State, LRAction, LRParseTable, LRProduction};
use parol_runtime::LRParser;
use std::collections::BTreeMap;

pub struct Built {
    pub g2: G,              // the grammar handed to table construction (harness numbering)
    pub table_sx: String,   // ((actions...) (states...) (prods...) start nterm nnt)
    pub nconf: usize,
    pub parser_parts: (usize, &'static LRParseTable, &'static [LRProduction], &'static [&'static str]),
}

pub fn lr_grammar(rng: &mut Rng, conflicts: bool) -> G {
    if conflicts && rng.chance(1, 4) {
        // two alternatives deriving the SAME word through different non-terminals (reduce-reduce conflict), in both
        // orders of definition vs. alphabetical order of the non-terminals, optionally under a wrapper
        let len = rng.range(1, 3);
        let w: Vec<Sy> = (0..len).map(|_| Sy::T(5 + rng.below(2) as u16)).collect();
        let (first, second) = if rng.chance(1, 2) { (2usize, 1usize) } else { (1usize, 2usize) };
        let mut prods = vec![(0, vec![Sy::N(first)]), (0, vec![Sy::N(second)])];
        if rng.chance(1, 2) { prods.push((first, w.clone())); prods.push((second, w.clone())); } else { prods.push((second, w.clone())); prods.push((first, w.clone())); }
        if rng.chance(1, 2) {
            // S: Alt; Alt: ..
            let mut p2: Vec<(usize, Vec<Sy>)> = vec![(0, vec![Sy::N(3)])];
            for (l, r) in prods { p2.push((if l == 0 { 3 } else { l }, r)); }
            return G { names: (0..4).map(nt_name).collect(), start: 0, prods: p2 };
        }
        return G { names: (0..3).map(nt_name).collect(), start: 0, prods };
    }
    if conflicts && rng.chance(1, 2) {
        // ambiguity-rich: few non-terminals, many alternatives, nullable symbols
        let d = Dials { max_nts: 2, max_terms: 2, max_alts: 4, max_rhs: 3, eps_pct: 25, nt_pct: 60 };
        return random_clean(rng, &d, false);
    }
    if rng.chance(1, 8) {
        // a start symbol with ONE production that occurs on no right-hand side (no augmentation), listed AFTER other
        // productions: the accept action has to find the start production, which is not production 0
        let w = |rng: &mut Rng| -> Vec<Sy> { (0..rng.range(1, 2)).map(|_| Sy::T(5 + rng.below(3) as u16)).collect() };
        let mut prods = vec![(1, w(rng))];
        if rng.chance(1, 2) { prods.push((1, { let mut x = w(rng); x.insert(0, Sy::T(8)); x })); }
        prods.push((0, vec![Sy::N(1), Sy::N(2)]));
        prods.push((2, { let mut x = w(rng); x.insert(0, Sy::T(9)); x }));
        if rng.chance(1, 2) { prods.push((2, vec![Sy::T(10), Sy::N(1)])); }
        return G { names: (0..3).map(nt_name).collect(), start: 0, prods };
    }
    // left-recursive lists, expression-like grammars, recursive starts, random BNF
    match rng.below(6) {
        0 => {
            // S: S a | b   (and variants)
            let sep = rng.chance(1, 2);
            let mut rec = vec![Sy::N(0)];
            if sep { rec.push(Sy::T(6)); }
            rec.push(Sy::T(5));
            G { names: vec![nt_name(0)], start: 0, prods: vec![(0, rec), (0, vec![Sy::T(5)])] }
        }
        1 => {
            // E: E + T | T ; T: T * F | F ; F: ( E ) | x
            G { names: (0..3).map(nt_name).collect(), start: 0, prods: vec![
                (0, vec![Sy::N(0), Sy::T(5), Sy::N(1)]), (0, vec![Sy::N(1)]),
                (1, vec![Sy::N(1), Sy::T(6), Sy::N(2)]), (1, vec![Sy::N(2)]),
                (2, vec![Sy::T(7), Sy::N(0), Sy::T(8)]), (2, vec![Sy::T(9)])] }
        }
        2 => {
            // ambiguous: E: E + E | x   (conflict, resolved)
            G { names: vec![nt_name(0)], start: 0, prods: vec![(0, vec![Sy::N(0), Sy::T(5), Sy::N(0)]), (0, vec![Sy::T(6)])] }
        }
        3 => {
            // recursive single-production start: S: A ; A: l S r | x
            G { names: vec![nt_name(0), nt_name(1)], start: 0, prods: vec![(0, vec![Sy::N(1)]), (1, vec![Sy::T(5), Sy::N(0), Sy::T(6)]), (1, vec![Sy::T(7)])] }
        }
        _ => {
            let d = Dials { max_nts: 4, max_terms: 3, max_alts: 3, max_rhs: 3, eps_pct: 15, nt_pct: 45 };
            random_clean(rng, &d, false)
        }
    }
}

pub fn build(g: &G) -> Result<Built, String> { build_annotated(g, 0) }

/// `mask`: which non-terminal occurrences carry the clipping annotation `^` (no influence on the language).
pub fn build_annotated(g: &G, mask: u64) -> Result<Built, String> {
    let cfg = if mask == 0 { g.to_cfg() } else { g.to_cfg_annotated(mask) };
    let r = std::panic::catch_unwind(|| -> Result<Built, String> {
        let cfg2 = check_and_transform_grammar(&cfg, GrammarType::LALR1).map_err(|_| "rejected-by-checks".to_string())?;
        let g2 = G::from_cfg(&cfg2, true);
        // parol terminal index -> harness terminal number
        let tm: BTreeMap<u16, u16> = cfg2.get_ordered_terminals().iter().enumerate()
            .map(|(i, (t, _, _, _))| (i as u16 + 5, 5 + (t.as_bytes()[0] - b'a') as u16)).collect();
        let gc = GrammarConfig::new(cfg2.clone(), 1);
        let (tbl, confs) = calculate_lalr1_parse_table(&gc).map_err(|_| "rejected-conflict".to_string())?;
        // runtime form: deduplicated action array + per-state index lists
        let mut actions: Vec<GA> = vec![];
        let mut states_rt: Vec<(Vec<(u16, usize)>, Vec<(usize, usize)>)> = vec![];
        for st in &tbl.states {
            let mut acts = vec![];
            for (t, a) in &st.actions {
                let idx = match actions.iter().position(|x| x == a) { Some(i) => i, None => { actions.push(a.clone()); actions.len() - 1 } };
                let tt = if *t == 0 { 0 } else { *tm.get(t).unwrap_or(&999) };
                acts.push((tt, idx));
            }
            acts.sort();
            let gotos: Vec<(usize, usize)> = st.gotos.iter().map(|(n, s)| (*n, *s)).collect();
            states_rt.push((acts, gotos));
        }
        let prods: Vec<(usize, usize)> = g2.prods.iter().map(|(l, r)| (*l, r.len())).collect();
        let acts_sx: Vec<String> = actions.iter().map(|a| match a { GA::Shift(s) => format!("(s {s})"), GA::Reduce(n, p) => format!("(r {n} {p})"), GA::Accept => "(a)".to_string() }).collect();
        let st_sx: Vec<String> = states_rt.iter().map(|(a, g)| format!("(({}) ({}))",
            a.iter().map(|(t, i)| format!("({t} {i})")).collect::<Vec<_>>().join(" "),
            g.iter().map(|(n, s)| format!("({n} {s})")).collect::<Vec<_>>().join(" "))).collect();
        let pr_sx: Vec<String> = prods.iter().map(|(l, n)| format!("({l} {n})")).collect();
        let table_sx = format!("(({}) ({}) ({}) {} 32 {})", acts_sx.join(" "), st_sx.join(" "), pr_sx.join(" "), g2.start, g2.names.len());
        // leak for the real parser
        let ract: Vec<LRAction> = actions.iter().map(|a| match a { GA::Shift(s) => LRAction::Shift(*s), GA::Reduce(n, p) => LRAction::Reduce(*n, *p), GA::Accept => LRAction::Accept }).collect();
        let rstates: Vec<LR1State> = states_rt.iter().map(|(a, g)| LR1State {
            actions: Box::leak(a.clone().into_boxed_slice()),
            gotos: Box::leak(g.clone().into_boxed_slice()) }).collect();
        let table: &'static LRParseTable = Box::leak(Box::new(LRParseTable { actions: Box::leak(ract.into_boxed_slice()), states: Box::leak(rstates.into_boxed_slice()) }));
        let rprods: Vec<LRProduction> = prods.iter().map(|(l, n)| LRProduction { lhs: *l, len: *n, is_push_production: false }).collect();
        let names = rt::leak_names(&g2.names);
        Ok(Built { g2: g2.clone(), table_sx, nconf: confs.len(), parser_parts: (g2.start, table, Box::leak(rprods.into_boxed_slice()), names) })
    });
    match r { Ok(x) => x, Err(_) => Err("panic".to_string()) }
}

pub fn run_input(b: &Built, types: &[u16], text: &str) -> String {
    let (start, table, prods, names) = b.parser_parts;
    let r = std::panic::catch_unwind(|| {
        let mut parser = LRParser::new(start, table, prods, rt::terminal_names(), names);
        // a parser that keeps reducing without consuming input grows its stack without bound:
        // the depth limit turns that into an observable result instead of exhausting memory
        parser.set_max_parsing_depth(4000);
        let mut rec = rt::Recorder::new(names);
        let mut acts = rt::Actions::default();
        let ts = alpha::stream(text, 1, &[]);
        let res = parser.parse_into(&mut rec, ts, &mut acts);
        (res.map_err(|e| rt::err_kind(&e)), rec.sx(), acts.sx())
    });
    match r {
        Err(_) => format!("({} panic)", crate::sx::nums(types)),
        Ok((Ok(()), ev, ac)) => format!("({} ok {} {})", crate::sx::nums(types), ac, ev),
        Ok((Err(k), _, ac)) => format!("({} (err {}) {})", crate::sx::nums(types), k, if k == "(budget)" { "()".to_string() } else { ac }),
    }
}

pub fn inputs(rng: &mut Rng, g: &G, thorough: bool) -> Vec<Vec<u16>> {
    let nterm = max_term(g);
    let mut v: Vec<Vec<u16>> = vec![vec![]];
    for _ in 0..6 {
        if let Some(s) = random_sentence(rng, g, 12) {
            if s.len() <= 24 {
                v.push(mutate(rng, &s, nterm));
                v.push(s);
            }
        }
    }
    // all strings up to a bound over the grammar's terminals (small alphabets only)
    let bound = if nterm <= 2 { if thorough { 6 } else { 5 } } else if nterm <= 3 { 4 } else { 3 };
    let mut frontier: Vec<Vec<u16>> = vec![vec![]];
    for _ in 0..bound {
        let mut next = vec![];
        for s in &frontier {
            for t in 0..nterm { let mut x = s.clone(); x.push(5 + t as u16); next.push(x); }
        }
        v.extend(next.iter().cloned());
        frontier = next;
    }
    v.sort(); v.dedup();
    v
}

pub fn run(a: &Args) {
    let mut rng = Rng::new(a.seed ^ ((a.shard as u64) << 32) ^ 0xC03);
    for i in 0..a.n {
        let conflicts = a.rest.iter().any(|x| x == "--conflicts");
        let g = lr_grammar(&mut rng, conflicts);
        if std::env::var("PV_TRACE").is_ok() { eprintln!("grammar {}", g.sx()); }
        // every third grammar with clipped non-terminal occurrences (all of them, or a random subset)
        let mask = if i % 3 == 1 { if rng.chance(1, 2) { u64::MAX } else { rng.next() | 1 } } else { 0 };
        match build_annotated(&g, mask) {
            Err(why) => println!("(lr {} ({}))", g.sx(), why),
            Ok(b) => {
                let ins = inputs(&mut rng, &g, a.thorough);
                let runs: Vec<String> = ins.iter().map(|s| { if std::env::var("PV_TRACE").is_ok() { eprintln!("  input {:?}", s); } run_input(&b, s, &alpha::render(s)) }).collect();
                println!("(lr {} (built {} {} {} ({})))", g.sx(), b.g2.sx(), b.table_sx, b.nconf, runs.join(" "));
            }
        }
    }
}
