(** * Runtime production prediction: model of [LookaheadDFA::eval]
      (crates/parol_runtime/src/parser/lookahead_dfa.rs)

    [eval_old] transcribes the function as it was at the pinned commit: a lookahead token for
    which the current state has no transition is silently stepped over and the walk goes on with
    the next token ([eval_old_refuted]).  [eval] transcribes the repaired function (the walk stops
    at the first token without a transition).  Both use the same inner scan over the transition
    array with the early exit that relies on the array being sorted by (from-state, terminal). *)
From Coq Require Import List NArith ZArith Bool Lia Sorted.
Import ListNotations.

Record trans := mkTrans { t_from : N; t_tok : N; t_to : N; t_prod : Z }.
Record dfa := mkDfa { prod0 : Z; transitions : list trans; depth : nat }.

Definition INVALID_PROD : Z := (-1)%Z.
Definition valid (p : Z) : bool := Z.ltb INVALID_PROD p.

Inductive eval_result :=
| Predict (p : Z)       (* Ok(production) *)
| PredictionError       (* ParserError::PredictionError *)
| LexerErr.             (* lookahead_token_type(i) failed: buffer shorter than k *)

(** The inner [for] loop: first transition with matching from-state and terminal, giving up as
    soon as the from-state block has been left or a larger terminal has been seen. *)
Fixpoint scan (ts : list trans) (state tok : N) (any_matching_found : bool) : option trans :=
  match ts with
  | [] => None
  | t :: ts' =>
      if negb (N.eqb (t_from t) state) then
        if any_matching_found then None else scan ts' state tok false
      else
        match N.compare (t_tok t) tok with
        | Eq => Some t
        | Gt => None
        | Lt => scan ts' state tok true
        end
  end.

Definition finish (prod last : Z) (has_last : bool) : eval_result :=
  if valid prod then Predict prod
  else if has_last then Predict last      (* Rust: last_prod_num as ProductionIndex *)
  else PredictionError.

(** Repaired walk: stop at the first lookahead token that has no transition. *)
Fixpoint walk (ts : list trans) (k : nat) (buf : list N) (state : N) (prod last : Z) (has_last : bool)
  : eval_result :=
  match k with
  | O => finish prod last has_last
  | S k' =>
      match buf with
      | [] => LexerErr
      | c :: buf' =>
          match scan ts state c false with
          | Some t =>
              if valid (t_prod t)
              then walk ts k' buf' (t_to t) (t_prod t) (t_prod t) true
              else walk ts k' buf' (t_to t) (t_prod t) last has_last
          | None => finish prod last has_last
          end
      end
  end.

Definition eval (d : dfa) (buf : list N) : eval_result :=
  walk (transitions d) (depth d) buf 0%N (prod0 d) INVALID_PROD (valid (prod0 d)).

(** The walk of the pinned commit: no transition ⇒ keep the state and read the next token. *)
Fixpoint walk_old (ts : list trans) (k : nat) (buf : list N) (state : N) (prod last : Z) (has_last : bool)
  : eval_result :=
  match k with
  | O => finish prod last has_last
  | S k' =>
      match buf with
      | [] => LexerErr
      | c :: buf' =>
          match scan ts state c false with
          | Some t =>
              if valid (t_prod t)
              then walk_old ts k' buf' (t_to t) (t_prod t) (t_prod t) true
              else walk_old ts k' buf' (t_to t) (t_prod t) last has_last
          | None => walk_old ts k' buf' state prod last has_last
          end
      end
  end.

Definition eval_old (d : dfa) (buf : list N) : eval_result :=
  walk_old (transitions d) (depth d) buf 0%N (prod0 d) INVALID_PROD (valid (prod0 d)).

(** ** Specification: the automaton read as a deterministic automaton from state 0. *)
Definition step (ts : list trans) (state tok : N) : option trans :=
  find (fun t => N.eqb (t_from t) state && N.eqb (t_tok t) tok) ts.

(** [run ts u s p] = state and production number after reading [u] from state [s]. *)
Fixpoint run (ts : list trans) (u : list N) (state : N) (prod : Z) : option (N * Z) :=
  match u with
  | [] => Some (state, prod)
  | c :: u' => match step ts state c with
               | Some t => run ts u' (t_to t) (t_prod t)
               | None => None
               end
  end.

(** [u] is a lookahead string of production [p]: the strict walk over [u] from state 0 ends in a
    state that predicts [p]. *)
Definition accepts (d : dfa) (u : list N) (p : Z) : Prop :=
  exists s, run (transitions d) u 0%N (prod0 d) = Some (s, p) /\ valid p = true.

Definition acceptsb (d : dfa) (u : list N) (p : Z) : bool :=
  match run (transitions d) u 0%N (prod0 d) with
  | Some (_, q) => Z.eqb q p && valid p
  | None => false
  end.

Lemma acceptsb_spec d u p : acceptsb d u p = true <-> accepts d u p.
Proof.
  unfold acceptsb, accepts. destruct (run _ _ _ _) as [[s q]|]; split.
  - intros H. apply andb_prop in H as [H1 H2]. apply Z.eqb_eq in H1. subst. eauto.
  - intros (s' & E & V). inversion E; subst. rewrite Z.eqb_refl, V. reflexivity.
  - discriminate.
  - intros (s' & E & _). discriminate.
Qed.

(** Sortedness of the transition array, as [eval] relies on it. *)
Definition trans_le (a b : trans) : Prop :=
  (t_from a < t_from b)%N \/ (t_from a = t_from b /\ (t_tok a <= t_tok b)%N).

Definition sorted (ts : list trans) : Prop := StronglySorted trans_le ts.

Fixpoint sortedb (ts : list trans) : bool :=
  match ts with
  | [] => true
  | a :: ts' =>
      forallb (fun b => N.ltb (t_from a) (t_from b) || (N.eqb (t_from a) (t_from b) && N.leb (t_tok a) (t_tok b))) ts'
      && sortedb ts'
  end.

Lemma sortedb_spec ts : sortedb ts = true -> sorted ts.
Proof.
  induction ts as [|a ts IH]; simpl; intros H; [constructor|].
  apply andb_prop in H as [H1 H2]. constructor; [apply IH; exact H2|].
  rewrite forallb_forall in H1. apply Forall_forall. intros b Hb. specialize (H1 b Hb).
  apply orb_prop in H1 as [H1|H1].
  - left. apply N.ltb_lt. exact H1.
  - apply andb_prop in H1 as [E L]. right. split; [apply N.eqb_eq|apply N.leb_le]; assumption.
Qed.

Lemma find_none_intro {A} (f : A -> bool) l : (forall x, In x l -> f x = false) -> find f l = None.
Proof.
  induction l as [|a l IH]; intros H; [reflexivity|]. simpl.
  rewrite (H a (or_introl eq_refl)). apply IH. intros x Hx. apply H. right. exact Hx.
Qed.

(** ** The early exits of [scan] are sound exactly because of sortedness. *)
Lemma scan_any_spec ts : forall state tok,
  sorted ts -> Forall (fun t => (state <= t_from t)%N) ts ->
  scan ts state tok true = step ts state tok.
Proof.
  induction ts as [|t ts IH]; intros state tok Hs Hge; [reflexivity|].
  inversion Hs as [|? ? Hs' Hall]; subst. inversion Hge as [|? ? Hge1 Hge']; subst.
  unfold step in *. cbn [scan find].
  destruct (N.eqb_spec (t_from t) state) as [E|E]; cbn [negb andb].
  - destruct (N.compare_spec (t_tok t) tok) as [C|C|C].
    + apply N.eqb_eq in C. rewrite C. reflexivity.
    + assert (N.eqb (t_tok t) tok = false) as -> by (apply N.eqb_neq; lia).
      apply IH; assumption.
    + assert (N.eqb (t_tok t) tok = false) as -> by (apply N.eqb_neq; lia).
      (* every later transition of this state has a terminal >= t_tok t > tok *)
      symmetry. apply find_none_intro. intros b Hb.
      rewrite Forall_forall in Hall. specialize (Hall b Hb).
      destruct Hall as [L|[Ef Le]].
      * apply andb_false_iff. left. apply N.eqb_neq. lia.
      * apply andb_false_iff. right. apply N.eqb_neq. lia.
  - (* left the block of [state]: everything that follows has a larger from-state *)
    symmetry. apply find_none_intro. intros b Hb.
    rewrite Forall_forall in Hall. specialize (Hall b Hb).
    apply andb_false_iff. left. apply N.eqb_neq.
    destruct Hall as [L|[Ef _]]; lia.
Qed.


Lemma scan_spec ts : forall state tok, sorted ts -> scan ts state tok false = step ts state tok.
Proof.
  induction ts as [|t ts IH]; intros state tok Hs; [reflexivity|].
  inversion Hs as [|? ? Hs' Hall]; subst.
  unfold step in *. cbn [scan find].
  destruct (N.eqb_spec (t_from t) state) as [E|E]; cbn [negb andb].
  - destruct (N.compare_spec (t_tok t) tok) as [C|C|C].
    + apply N.eqb_eq in C. rewrite C. reflexivity.
    + assert (N.eqb (t_tok t) tok = false) as -> by (apply N.eqb_neq; lia).
      apply (scan_any_spec ts state tok Hs').
      rewrite Forall_forall in *. intros b Hb. specialize (Hall b Hb).
      destruct Hall as [L|[Ef _]]; lia.
    + assert (N.eqb (t_tok t) tok = false) as -> by (apply N.eqb_neq; lia).
      symmetry. apply find_none_intro. intros b Hb.
      rewrite Forall_forall in Hall. specialize (Hall b Hb).
      destruct Hall as [L|[Ef Le]].
      * apply andb_false_iff. left. apply N.eqb_neq. lia.
      * apply andb_false_iff. right. apply N.eqb_neq. lia.
  - apply IH. exact Hs'.
Qed.

(** ** Exactness of the repaired walk *)
Lemma finish_predict prod last hl p :
  finish prod last hl = Predict p ->
  (valid prod = true /\ p = prod) \/ (valid prod = false /\ hl = true /\ p = last).
Proof.
  unfold finish. destruct (valid prod) eqn:V; [intros H; inversion H; auto|].
  destruct hl; [intros H; inversion H; auto|discriminate].
Qed.

Lemma walk_predict ts (Hs : sorted ts) : forall k buf state prod last hl p,
  (hl = true -> valid last = true) ->
  walk ts k buf state prod last hl = Predict p ->
  valid p = true /\
  ((hl = true /\ p = last) \/
   exists n s, n <= k /\ run ts (firstn n buf) state prod = Some (s, p)).
Proof.
  induction k as [|k IH]; intros buf state prod last hl p I1 H.
  - cbn [walk] in H. apply finish_predict in H as [[V ->]|(V & Hl & ->)].
    + split; [exact V|]. right. exists 0, state. split; [lia|reflexivity].
    + split; [auto|]. left. auto.
  - cbn [walk] in H. destruct buf as [|c buf]; [discriminate|].
    rewrite (scan_spec ts state c Hs) in H.
    destruct (step ts state c) as [t|] eqn:St.
    + destruct (valid (t_prod t)) eqn:Vt.
      * apply IH in H; [|auto]. destruct H as [Vp [[_ ->]|(n & s & Hn & R)]].
        -- split; [exact Vt|]. right. exists 1, (t_to t). split; [lia|].
           cbn [firstn run]. rewrite St. reflexivity.
        -- split; [exact Vp|]. right. exists (S n), s. split; [lia|].
           cbn [firstn run]. rewrite St. exact R.
      * apply IH in H; [|exact I1]. destruct H as [Vp [[Hl ->]|(n & s & Hn & R)]].
        -- split; [exact Vp|]. left. auto.
        -- split; [exact Vp|]. right. exists (S n), s. split; [lia|].
           cbn [firstn run]. rewrite St. exact R.
    + apply finish_predict in H as [[V ->]|(V & Hl & ->)].
      * split; [exact V|]. right. exists 0, state. split; [lia|reflexivity].
      * split; [auto|]. left. auto.
Qed.

Lemma finish_error prod last hl :
  finish prod last hl = PredictionError -> valid prod = false /\ hl = false.
Proof.
  unfold finish. destruct (valid prod); [discriminate|]. destruct hl; [discriminate|auto].
Qed.

Lemma walk_error ts (Hs : sorted ts) : forall k buf state prod last hl,
  (valid prod = true -> hl = true) ->
  walk ts k buf state prod last hl = PredictionError ->
  hl = false /\
  forall n s q, n <= k -> run ts (firstn n buf) state prod = Some (s, q) -> valid q = false.
Proof.
  induction k as [|k IH]; intros buf state prod last hl I2 H.
  - cbn [walk] in H. apply finish_error in H as [V Hl]. split; [exact Hl|].
    intros n s q Hn R. assert (n = 0) as -> by lia. cbn in R. inversion R; subst. exact V.
  - cbn [walk] in H. destruct buf as [|c buf]; [discriminate|].
    rewrite (scan_spec ts state c Hs) in H.
    destruct (step ts state c) as [t|] eqn:St.
    + assert (Hprod : valid prod = false).
      { destruct (valid prod) eqn:V; [|reflexivity]. specialize (I2 eq_refl). subst hl.
        destruct (valid (t_prod t)); apply IH in H; try (intros; reflexivity);
          destruct H as [Hl _]; discriminate. }
      destruct (valid (t_prod t)) eqn:Vt.
      * apply IH in H; [|auto]. destruct H as [Hl _]. discriminate.
      * apply IH in H; [|rewrite Vt; discriminate]. destruct H as [Hl Hall]. split; [exact Hl|].
        intros [|n] s q Hn R.
        -- cbn in R. inversion R; subst. exact Hprod.
        -- cbn [firstn run] in R. rewrite St in R. apply (Hall n s q); [lia|exact R].
    + apply finish_error in H as [V Hl]. split; [exact Hl|].
      intros [|n] s q Hn R.
      * cbn in R. inversion R; subst. exact V.
      * cbn [firstn run] in R. rewrite St in R. discriminate.
Qed.

Lemma walk_no_lexer_error ts : forall k buf state prod last hl,
  k <= length buf -> walk ts k buf state prod last hl <> LexerErr.
Proof.
  induction k as [|k IH]; intros buf state prod last hl Hlen; cbn [walk].
  - unfold finish. destruct (valid prod); [discriminate|]. destruct hl; discriminate.
  - destruct buf as [|c buf]; [simpl in Hlen; lia|]. simpl in Hlen.
    destruct (scan ts state c false) as [t|].
    + destruct (valid (t_prod t)); apply IH; lia.
    + unfold finish. destruct (valid prod); [discriminate|]. destruct hl; discriminate.
Qed.

(** Well-formedness the generated automata satisfy: an accepting start state has no way on. *)
Definition wfd (d : dfa) : bool :=
  if valid (prod0 d) then match transitions d with [] => true | _ => false end else true.

Theorem eval_exact d buf p :
  sorted (transitions d) -> wfd d = true ->
  eval d buf = Predict p ->
  exists n, n <= depth d /\ accepts d (firstn n buf) p.
Proof.
  intros Hs Hwf H. unfold eval in H. unfold wfd in Hwf.
  destruct (valid (prod0 d)) eqn:V0.
  - destruct (transitions d) as [|t ts] eqn:Et; [|discriminate].
    exists 0. split; [lia|]. unfold accepts. rewrite Et. cbn [firstn run].
    assert (p = prod0 d) as ->.
    { destruct (depth d) as [|k]; cbn [walk] in H.
      - unfold finish in H. rewrite V0 in H. inversion H; reflexivity.
      - destruct buf as [|c buf]; [discriminate|]. cbn [scan] in H.
        unfold finish in H. rewrite V0 in H. inversion H; reflexivity. }
    eauto.
  - apply (walk_predict _ Hs) in H; [|discriminate].
    destruct H as [Vp [[Hl _]|(n & s & Hn & R)]]; [discriminate|].
    exists n. split; [exact Hn|]. exists s. auto.
Qed.

Theorem eval_error_exact d buf :
  sorted (transitions d) ->
  eval d buf = PredictionError ->
  forall n p, n <= depth d -> ~ accepts d (firstn n buf) p.
Proof.
  intros Hs H n p Hn (s & R & Vp). unfold eval in H.
  apply (walk_error _ Hs) in H; [|auto].
  destruct H as [_ Hall]. rewrite (Hall n s p Hn R) in Vp. discriminate.
Qed.

Theorem eval_total d buf : depth d <= length buf -> eval d buf <> LexerErr.
Proof. intros H. apply walk_no_lexer_error. exact H. Qed.

(** ** The pinned commit's walk is not exact (finding D2). *)
Definition d2_dfa : dfa :=
  mkDfa (-1) [ mkTrans 0 5 1 (-1); mkTrans 1 0 2 1; mkTrans 1 6 3 (-1); mkTrans 3 7 4 2 ] 3.
(* lookahead strings: [a; $] -> production 1, [a; b; c] -> production 2  (a=5, b=6, c=7, $=0) *)

Theorem eval_old_refuted :
  exists d buf p, sortedb (transitions d) = true /\ wfd d = true /\
    eval_old d buf = Predict p /\
    forallb (fun n => negb (acceptsb d (firstn n buf) p)) (seq 0 (S (length buf))) = true.
Proof. exists d2_dfa, [5; 9; 0]%N, 1%Z. vm_compute. repeat split. Qed.

Example eval_fixed_on_witness : eval d2_dfa [5; 9; 0]%N = PredictionError.
Proof. vm_compute. reflexivity. Qed.

(** ** Checker used by the correspondence: is the implementation's answer right? *)
Definition eval_check (d : dfa) (buf : list N) (res : option Z) : bool :=
  match res with
  | Some p => existsb (fun n => acceptsb d (firstn n buf) p) (seq 0 (S (depth d)))
  | None => forallb (fun n => match run (transitions d) (firstn n buf) 0%N (prod0 d) with
                              | Some (_, q) => negb (valid q)
                              | None => true end) (seq 0 (S (depth d)))
  end.

Theorem eval_check_spec d buf res :
  eval_check d buf res = true ->
  match res with
  | Some p => exists n, n <= depth d /\ accepts d (firstn n buf) p
  | None => forall n p, n <= depth d -> ~ accepts d (firstn n buf) p
  end.
Proof.
  destruct res as [p|]; cbn [eval_check]; intros H.
  - apply existsb_exists in H as (n & Hin & Ha). apply in_seq in Hin.
    exists n. split; [lia|]. apply acceptsb_spec. exact Ha.
  - intros n p Hn (s & R & Vp). rewrite forallb_forall in H.
    specialize (H n). rewrite R in H. rewrite Vp in H.
    assert (In n (seq 0 (S (depth d)))) as Hin by (apply in_seq; lia).
    specialize (H Hin). discriminate.
Qed.

(** The repaired model always passes its own checker (for sorted, well-formed automata and a
    buffer holding at least [depth] tokens). *)
Theorem eval_passes_check d buf :
  sorted (transitions d) -> wfd d = true -> depth d <= length buf ->
  eval_check d buf (match eval d buf with Predict p => Some p | _ => None end) = true.
Proof.
  intros Hs Hwf Hlen. destruct (eval d buf) as [p| |] eqn:E.
  - destruct (eval_exact d buf p Hs Hwf E) as (n & Hn & Ha).
    cbn [eval_check]. apply existsb_exists. exists n. split; [apply in_seq; lia|].
    apply acceptsb_spec. exact Ha.
  - cbn [eval_check]. apply forallb_forall. intros n Hin. apply in_seq in Hin.
    destruct (run _ _ _ _) as [[s q]|] eqn:R; [|reflexivity].
    destruct (valid q) eqn:Vq; [|reflexivity].
    exfalso. apply (eval_error_exact d buf Hs E n q); [lia|]. exists s. auto.
  - exfalso. apply (eval_total d buf Hlen E).
Qed.
