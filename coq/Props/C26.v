(** Property C26 — parol never panics on any grammar text.
    Panic-freedom of the Rust binary is not provable with a Gallina model; what Rocq contributes
    are the GUARDS of the two panic sites the models contain, so that each is characterised
    exactly, and the correspondence run executes the whole real pipeline under catch_unwind.

    - Terminals::new panics exactly when the grammar has more than 4095 terminals including the
      epsilon slot (max_terminal_index >= 4095) — finding D12.
    - lalry's `unreachable!()` on a start symbol that is not isolated cannot be reached after
      augment_grammar (C12_augment_isolated); it is still reached for CYCLIC grammars (finding D13). *)
From Coq Require Import List NArith.
From Parol Require Import Grammar.Cfg Analysis.KTupleModel Analysis.KTupleBits Analysis.KTuple Transform.LrAugment.
Import ListNotations.

Theorem C26_terminals_new_guard : forall (dbg : bool) (m : N),
  (exists p, KTupleModel.new dbg m = KTupleModel.Ok p) <-> (m <= 4094)%N.
Proof. exact new_ok_iff. Qed.

Theorem C26_terminals_new_panics : forall (dbg : bool) (m : N), (4095 <= m)%N -> KTupleModel.new dbg m = KTupleModel.Panic.
Proof. exact new_panics. Qed.

Theorem C26_lalry_precondition : forall g s', ~ In s' (nts g) -> isolated (augment g s').
Proof. exact augment_isolated. Qed.
