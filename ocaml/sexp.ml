module String = Stdlib.String
module List = Stdlib.List
module Char = Stdlib.Char
(* Minimal S-expression reader: atoms, "strings" with escapes, lists. One value per line. *)
type t = A of string | S of string | L of t list

exception Parse of string

let parse (s : string) : t =
  let n = Stdlib.String.length s in
  let pos = ref 0 in
  let peek () = if !pos < n then Some s.[!pos] else None in
  let rec skip () = match peek () with
    | Some (' ' | '\t' | '\n' | '\r') -> incr pos; skip ()
    | _ -> () in
  let hex c = match c with
    | '0'..'9' -> Char.code c - 48
    | 'a'..'f' -> Char.code c - 87
    | 'A'..'F' -> Char.code c - 55
    | _ -> raise (Parse "hex") in
  let rec value () =
    skip ();
    match peek () with
    | None -> raise (Parse "eof")
    | Some '(' ->
      incr pos;
      let items = ref [] in
      let rec loop () =
        skip ();
        match peek () with
        | Some ')' -> incr pos
        | None -> raise (Parse "unclosed")
        | _ -> items := value () :: !items; loop () in
      loop ();
      L (Stdlib.List.rev !items)
    | Some '"' ->
      incr pos;
      let b = Buffer.create 16 in
      let rec loop () =
        match peek () with
        | None -> raise (Parse "unclosed string")
        | Some '"' -> incr pos
        | Some '\\' ->
          incr pos;
          (match peek () with
           | Some 'n' -> Buffer.add_char b '\n'; incr pos
           | Some 'r' -> Buffer.add_char b '\r'; incr pos
           | Some 't' -> Buffer.add_char b '\t'; incr pos
           | Some 'x' ->
             let h1 = hex s.[!pos + 1] and h2 = hex s.[!pos + 2] in
             Buffer.add_char b (Char.chr (h1 * 16 + h2)); pos := !pos + 3
           | Some c -> Buffer.add_char b c; incr pos
           | None -> raise (Parse "escape"));
          loop ()
        | Some c -> Buffer.add_char b c; incr pos; loop () in
      loop ();
      S (Buffer.contents b)
    | Some _ ->
      let start = !pos in
      let rec loop () = match peek () with
        | Some (' ' | '\t' | '\n' | '\r' | '(' | ')') | None -> ()
        | _ -> incr pos; loop () in
      loop ();
      A (Stdlib.String.sub s start (!pos - start)) in
  let v = value () in
  skip ();
  if !pos <> n then raise (Parse "trailing");
  v

let rec to_string = function
  | A a -> a
  | S s -> Printf.sprintf "%S" s
  | L l -> "(" ^ Stdlib.String.concat " " (Stdlib.List.map to_string l) ^ ")"
