#!/bin/bash
# seed_store.sh <ID> <wt> <demo-file-in-seed> <crate-tests-dir> <cargo -p pkg> <caught-by: text>
# In the scratch worktree: the demo must FAIL with the change and PASS without it; then the seed is stored
# under /verif/seeded/<ID>/ and the worktree removed.
id=$1; wt=$2; demo=$3; tdir=$4; pkg=$5; caught=$6
name=$(basename "$demo" .rs)
cd "$wt" || exit 2
export CARGO_NET_OFFLINE=true CARGO_TARGET_DIR="$wt/target"
cp "seed/$demo" "$tdir/"
cargo test --offline -p "$pkg" --test "$name" > seed/demo_with_change.log 2>&1; rc1=$?
git apply -R seed/patch.diff || { echo "cannot revert"; exit 2; }
cargo test --offline -p "$pkg" --test "$name" > seed/demo_without_change.log 2>&1; rc2=$?
git apply seed/patch.diff
rm "$tdir/$demo"
echo "demo with change rc=$rc1 (expect != 0); without change rc=$rc2 (expect 0)"
if [ $rc1 -ne 0 ] && [ $rc2 -eq 0 ]; then
  d=/verif/seeded/$id; mkdir -p "$d"
  cp seed/patch.diff "$d/patch.diff"; cp "seed/$demo" "$d/"; cp seed/meta.json "$d/agent_meta.json"
  grep -E "^test |test result" seed/demo_with_change.log > "$d/demo_with_change.txt"
  grep -E "^test |test result" seed/demo_without_change.log > "$d/demo_without_change.txt"
  tail -1 seed/confirm.log > "$d/suite_confirm.txt"
  echo "stored $d"
else
  echo "NOT CONFIRMED"; exit 1
fi
