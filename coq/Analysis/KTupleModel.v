(** * Faithful bit-level model of crates/parol/src/analysis/k_tuple.rs  (property C32)

    [Terminals] is a [u128] that packs up to [MAX_K] = 10 terminal indices of [bits] bits each
    (bit 0 upwards), the insertion index [next_index] in bits 120..123 and [bits] in bits
    124..127.  The model works on [N] (unbounded) and truncates with [trunc128] wherever the Rust
    [u128] would shift bits out.

    Error conventions ([res]):
    - [Panic] = the Rust panics: [panic!], arithmetic/shift overflow (a shift amount >= 128 panics
      in a debug build; the wrapping release behaviour is NOT modelled, the result is [Panic]),
      and failing [debug_assert*!] when the flag [dbg] (= "debug assertions enabled") is [true].
      With [dbg = false] the debug assertions are skipped exactly as in a release build.
    - [push] returns [Ok None] for the Rust [Err("Maximum number of terminals reached")]
      (self unchanged) and [Ok (Some p')] for [Ok(())] with the new value of [self].

    Number conventions: terminal indices ([TerminalIndex = u16]), [k], positions are [N].
    Shifts by [bits] (a 4-bit field, <= 15) can never overflow, so they use the total
    [shl_trunc]/[N.shiftr]; shifts by [i * bits] use the checked [shl128]/[shr128]. *)
From Coq Require Import List NArith Bool.
Import ListNotations.
Local Open Scope N_scope.

(** ** Results *)
Inductive res (A : Type) : Type := Ok (a : A) | Panic.
Arguments Ok {A} a.
Arguments Panic {A}.

Definition bind {A B : Type} (r : res A) (f : A -> res B) : res B :=
  match r with Ok a => f a | Panic => Panic end.

Notation "'do' x <- e ; k" := (bind e (fun x => k))
  (at level 200, x name, e at level 100, k at level 200, right associativity).
Notation "'do' '_' <- e ; k" := (bind e (fun _ => k))
  (at level 200, e at level 100, k at level 200, right associativity).

(** [debug_assert!(c)] *)
Definition dassert (dbg c : bool) : res unit :=
  if dbg && negb c then Panic else Ok tt.

(** ** Constants (k_tuple.rs, compiled_terminal.rs, lib.rs, parol_runtime::lexer) *)
Definition MAX_K : N := 10.
Definition MAX_BITS : N := 128 / 10.          (* (size_of::<u128>() * 8) as u8 / MAX_K as u8 = 12 *)
Definition EOI : N := 0.
Definition EPS : N := 65535.                   (* TerminalIndex::MAX, TerminalIndex = u16 *)
Definition INVALID : N := 65534.               (* TerminalIndex::MAX - 1 *)
Definition U16_MAX : N := 65535.
Definition U128_MAX : N := N.ones 128.         (* !0u128 *)
Definition USIZE_LIMIT : N := 2 ^ 64.

Definition NEXT_MASK : N  := 0x0F000000000000000000000000000000.
Definition NEXT_CLEAR : N := 0xF0FFFFFFFFFFFFFFFFFFFFFFFFFFFFFF.
Definition BITS_MASK : N  := 0xF0000000000000000000000000000000.
Definition BITS_CLEAR : N := 0x0FFFFFFFFFFFFFFFFFFFFFFFFFFFFFFF.

(** ** u128 primitives *)
Definition trunc128 (x : N) : N := N.land x U128_MAX.
Definition not128 (x : N) : N := N.ldiff U128_MAX x.                       (* !x *)
Definition shl_trunc (x n : N) : N := trunc128 (N.shiftl x n).            (* x << n, n < 128 known *)
Definition shl128 (x n : N) : res N :=                                     (* x << n, checked *)
  if n <? 128 then Ok (shl_trunc x n) else Panic.
Definition shr128 (x n : N) : res N :=                                     (* x >> n, checked *)
  if n <? 128 then Ok (N.shiftr x n) else Panic.

(** ** Terminals *)
Record packed : Set := Packed { t : N }.

Definition eqb (a b : packed) : bool := t a =? t b.                        (* derived PartialEq *)

Definition next_index (p : packed) : N := N.shiftr (N.land (t p) NEXT_MASK) 120.
Definition bits (p : packed) : N := N.shiftr (N.land (t p) BITS_MASK) 124.

(** [set_next_index(i: u8)]; callers pass [i < 256]. *)
Definition set_next_index (p : packed) (i : N) : packed :=
  Packed (N.lor (N.land (t p) NEXT_CLEAR) (shl_trunc i 120)).

(** [set_bits(bits: u8)] *)
Definition set_bits (dbg : bool) (p : packed) (b : N) : res packed :=
  let p' := Packed (N.lor (N.land (t p) BITS_CLEAR) (shl_trunc b 124)) in
  do _ <- dassert dbg (negb (bits p' =? 0));
  Ok p'.

(** [inc_index]; [checked_add(1)] on a value <= 15 never fails. *)
Definition inc_index (dbg : bool) (p : packed) : res packed :=
  let i := next_index p + 1 in
  do _ <- dassert dbg (i <=? MAX_K);
  Ok (Packed (N.lor (N.land (t p) NEXT_CLEAR) (shl_trunc i 120))).

(** [mask() = !(!0u128 << bits)] *)
Definition mask (p : packed) : N := not128 (shl_trunc U128_MAX (bits p)).

Definition len (p : packed) : N := next_index p.
Definition is_empty (p : packed) : bool := next_index p =? 0.

(** [new(max_terminal_index: usize)] *)
Definition new (dbg : bool) (m : N) : res packed :=
  if USIZE_LIMIT <=? m + 1 then Panic            (* usize overflow, resp. ilog2(0) *)
  else
    let b := N.log2 (m + 1) + 1 in
    if MAX_BITS <? b then Panic
    else set_bits dbg (Packed 0) b.

(** [set(i: usize, t: CompiledTerminal)] *)
Definition set (dbg : bool) (p : packed) (i tm : N) : res packed :=
  let terminal_mask := mask p in
  do _ <- dassert dbg ((tm <=? N.land terminal_mask U16_MAX) || (tm =? EPS));
  do _ <- dassert dbg (negb (tm =? INVALID));
  let b := bits p in
  do v <- shl128 (N.land tm terminal_mask) (i * b);
  do m <- shl128 terminal_mask (i * b);
  Ok (Packed (N.lor (N.land (t p) (not128 m)) v)).

(** [get(i: usize) -> Option<CompiledTerminal>]; the result is the [u16]. *)
Definition get (p : packed) (i : N) : res (option N) :=
  if i <? next_index p then
    do s <- shr128 (t p) (i * bits p);
    let ti := N.land s (mask p) in
    let ti := if ti =? mask p then EPS else ti in
    Ok (Some (N.land ti U16_MAX))
  else Ok None.

Definition last (p : packed) : res (option N) :=
  if is_empty p then Ok None
  else
    let idx := next_index p in
    if idx =? 0 then Ok None else get p (idx - 1).

Definition is_eps (p : packed) : bool :=
  if negb (next_index p =? 1) then false
  else let m := mask p in N.land (t p) m =? m.

Definition k_len (p : packed) (k : N) : N := N.min (len p) k.

(** [is_k_complete(k)] with the short-circuit evaluation order of [&&]/[||]. *)
Definition is_k_complete (p : packed) (k : N) : res bool :=
  if is_eps p then Ok false
  else if k <=? len p then Ok true
  else
    do l <- last p;
    Ok (match l with Some x => x =? EOI | None => false end).

Definition clear (dbg : bool) (p : packed) : res packed :=
  let b := bits p in
  do p' <- set_bits dbg (Packed 0) b;
  do _ <- dassert dbg (negb (bits p' =? 0));
  Ok p'.

Definition eps (dbg : bool) (m : N) : res packed :=
  do p <- new dbg m;
  do p <- set dbg p 0 EPS;
  Ok (set_next_index p 1).

Definition end_ (dbg : bool) (m : N) : res packed :=
  do p <- new dbg m;
  Ok (set_next_index p 1).

(** [Terminals::of(k, other)] *)
Definition of_ (dbg : bool) (k : N) (other : packed) : res packed :=
  let b := bits other in
  let m := mask other in
  let i := k_len other k in
  let copy_mask := N.iter i (fun cm => N.lor (shl_trunc cm b) m) 0 in
  do p <- set_bits dbg (Packed (N.land (t other) copy_mask)) b;
  Ok (set_next_index p i).

(** [push]: [Ok None] = Rust [Err], [Ok (Some p')] = Rust [Ok(())] with new self. *)
Definition push (dbg : bool) (p : packed) (tm : N) : res (option packed) :=
  if MAX_K <=? next_index p then Ok None
  else
    do l <- last p;
    match l with
    | Some 0 => Ok (Some p)
    | _ =>
      do _ <- dassert dbg (negb (tm =? INVALID));
      do p1 <- set dbg p (next_index p) tm;
      do p2 <- inc_index dbg p1;
      Ok (Some p2)
    end.

(** [Extend<TerminalIndex>] / [Extend<CompiledTerminal>]: [let _ = self.push(t)]. *)
Fixpoint extend (dbg : bool) (p : packed) (ts : list N) : res packed :=
  match ts with
  | [] => Ok p
  | x :: r =>
    do o <- push dbg p x;
    extend dbg (match o with Some p' => p' | None => p end) r
  end.

Definition k_concat (dbg : bool) (self other : packed) (k : N) : res packed :=
  do _ <- dassert dbg (bits other =? bits self);
  do _ <- dassert dbg (negb (bits self =? 0));
  if is_eps other || is_empty other then Ok self
  else
    do self1 <- (if is_eps self then clear dbg self else Ok self);
    do c <- is_k_complete self1 k;
    if c then Ok self1
    else
      let my_k_len := k_len self1 k in
      let other_len := k_len other k in
      let to_take := N.min (k - my_k_len) other_len in
      if to_take =? 0 then (do _ <- dassert dbg false; Ok self1)
      else
        let b := bits self1 in
        do m <- shl128 U128_MAX (to_take * b);
        do value <- shl128 (N.land (t other) (not128 m)) (my_k_len * b);
        let self2 := Packed (N.lor (t self1) value) in
        let new_index := my_k_len + to_take in
        do _ <- dassert dbg (new_index <=? MAX_K);
        set_bits dbg (set_next_index self2 new_index) b.

(** [TermIt]: the list of all items the iterator yields ([u16]s). *)
Fixpoint iter_loop (n : nat) (tt m b : N) : list N :=
  match n with
  | O => []
  | S n' =>
    let d := N.land tt m in
    (if d =? m then EPS else N.land d U16_MAX) :: iter_loop n' (N.shiftr tt b) m b
  end.
Definition iter (p : packed) : list N :=
  iter_loop (N.to_nat (next_index p)) (t p) (mask p) (bits p).

(** [impl From<&Terminals> for u128] and [Ord::cmp] *)
Definition to_u128 (p : packed) : res N :=
  do m <- shl128 U128_MAX (next_index p * bits p);
  Ok (N.land (t p) (not128 m)).

Definition cmp (a b : packed) : res comparison :=
  match next_index a ?= next_index b with
  | Lt => Ok Lt
  | Gt => Ok Gt
  | Eq => do x <- to_u128 a; do y <- to_u128 b; Ok (x ?= y)
  end.

(** ** TerminalString *)
Inductive tstring : Set := Incomplete (p : packed) | Complete (p : packed).

Definition ts_inner (s : tstring) : packed :=
  match s with Incomplete p => p | Complete p => p end.
Definition ts_tag (s : tstring) : bool :=                 (* [is_k_complete()]: the tag *)
  match s with Incomplete _ => false | Complete _ => true end.
Definition ts_len (s : tstring) : N := len (ts_inner s).
Definition ts_is_empty (s : tstring) : bool := is_empty (ts_inner s).
Definition ts_is_complete (s : tstring) (k : N) : res bool := is_k_complete (ts_inner s) k.
Definition ts_make_complete (s : tstring) : tstring := Complete (ts_inner s).
Definition ts_make_incomplete (s : tstring) : tstring := Incomplete (ts_inner s).
Definition ts_clear (dbg : bool) (s : tstring) : res tstring :=
  do p <- clear dbg (ts_inner s); Ok (Incomplete p).
Definition ts_is_eps (s : tstring) : bool :=
  match s with Incomplete p => is_eps p | Complete _ => false end.
Definition ts_eqb (a b : tstring) : bool :=
  Bool.eqb (ts_tag a) (ts_tag b) && eqb (ts_inner a) (ts_inner b).

(** Wrap a [Terminals] according to [is_k_complete(k)]. *)
Definition ts_classify (p : packed) (k : N) : res tstring :=
  do c <- is_k_complete p k;
  Ok (if c then Complete p else Incomplete p).

(** [TerminalString::push(t, k)]: [Ok None] = Rust [Err]. *)
Definition ts_push (dbg : bool) (s : tstring) (tm k : N) : res (option tstring) :=
  match s with
  | Incomplete v =>
    do o <- push dbg v tm;
    match o with
    | None => Ok None
    | Some v' => do s' <- ts_classify v' k; Ok (Some s')
    end
  | Complete _ => Ok (Some s)
  end.

Definition ts_k_concat (dbg : bool) (self other : tstring) (k : N) : res tstring :=
  match self with
  | Incomplete v =>
    do r <- k_concat dbg v (ts_inner other) k;
    ts_classify r k
  | Complete _ => Ok self
  end.

(** derived [Ord] on the enum: variant index first, then the payload *)
Definition ts_cmp (a b : tstring) : res comparison :=
  match a, b with
  | Incomplete _, Complete _ => Ok Lt
  | Complete _, Incomplete _ => Ok Gt
  | _, _ => cmp (ts_inner a) (ts_inner b)
  end.

(** ** KTuple (and the parts of KTupleBuilder that construct it) *)
Record ktuple : Set := KTuple { terminals : tstring; kk : N }.

Definition kt_eqb (a b : ktuple) : bool :=
  ts_eqb (terminals a) (terminals b) && (kk a =? kk b).

Definition kt_cmp (a b : ktuple) : res comparison :=
  do c <- ts_cmp (terminals a) (terminals b);
  Ok (match c with Eq => kk a ?= kk b | _ => c end).

(** [KTupleBuilder::new().k(k).max_terminal_index(m).eps()] *)
Definition kt_eps (dbg : bool) (k m : N) : res ktuple :=
  do p <- eps dbg m; Ok (KTuple (Incomplete p) (N.min k MAX_K)).
(** [...end()] *)
Definition kt_end (dbg : bool) (k m : N) : res ktuple :=
  do p <- end_ dbg m; Ok (KTuple (Complete p) (N.min k MAX_K)).

(** push the elements of [ts] in order; [Ok None] = the Rust [?] propagated an [Err]. *)
Fixpoint push_all (dbg : bool) (p : packed) (ts : list N) : res (option packed) :=
  match ts with
  | [] => Ok (Some p)
  | x :: r =>
    do o <- push dbg p x;
    match o with None => Ok None | Some p' => push_all dbg p' r end
  end.

(** [...terminal_string(ts).build()]; [Ok None] = [Err]. *)
Definition kt_build (dbg : bool) (k m : N) (ts : list N) : res (option ktuple) :=
  do p0 <- new dbg m;
  do o <- push_all dbg p0 (firstn (N.to_nat k) ts);
  match o with
  | None => Ok None
  | Some p => do s <- ts_classify p k; Ok (Some (KTuple s (N.min k MAX_K)))
  end.

(** [...k_tuple(other).build()]: re-pushes [other.terminals.inner().iter().take(k)]. *)
Definition kt_build_from (dbg : bool) (k m : N) (other : ktuple) : res (option ktuple) :=
  kt_build dbg k m (iter (ts_inner (terminals other))).

(** [KTuple::from_slice(others, k, max_terminal_index)] *)
Definition kt_from_slice (dbg : bool) (ts : list N) (k m : N) : res ktuple :=
  do p0 <- new dbg m;
  do p <- extend dbg p0 (firstn (N.to_nat k) ts);
  do s <- ts_classify p k;
  Ok (KTuple s k).

(** [KTuple::of(t, k)] *)
Definition kt_of (dbg : bool) (p : packed) (k : N) : res ktuple :=
  do q <- of_ dbg k p;
  do s <- ts_classify q k;
  Ok (KTuple s k).

Definition kt_push (dbg : bool) (x : ktuple) (tm : N) : res (option ktuple) :=
  do o <- ts_push dbg (terminals x) tm (kk x);
  Ok (match o with None => None | Some s => Some (KTuple s (kk x)) end).

Definition kt_is_eps (x : ktuple) : bool := ts_is_eps (terminals x).
Definition kt_len (x : ktuple) : N := ts_len (terminals x).
Definition kt_is_empty (x : ktuple) : bool := ts_is_empty (terminals x).
Definition kt_k_len (x : ktuple) (k : N) : N := k_len (ts_inner (terminals x)) k.
Definition kt_is_k_complete (x : ktuple) : bool := ts_tag (terminals x).

Definition kt_k_concat (dbg : bool) (self other : ktuple) (k : N) : res ktuple :=
  do s <- ts_k_concat dbg (terminals self) (terminals other) k;
  Ok (KTuple s (k_len (ts_inner s) k)).

Definition kt_set_k (x : ktuple) (k : N) : res ktuple :=
  do c <- ts_is_complete (terminals x) k;
  Ok (KTuple (if c then ts_make_complete (terminals x) else ts_make_incomplete (terminals x)) k).

(** [Extend<_> for KTuple]: [take(self.k - self.len())]; the [usize] subtraction panics on
    underflow (debug build; the release wrap-around is not modelled). *)
Definition kt_extend (dbg : bool) (x : ktuple) (ts : list N) : res ktuple :=
  if kt_is_k_complete x then Ok x
  else if kk x <? kt_len x then Panic
  else
    (fix go (x : ktuple) (l : list N) : res ktuple :=
       match l with
       | [] => Ok x
       | y :: r =>
         do o <- kt_push dbg x y;
         go (match o with Some x' => x' | None => x end) r
       end) x (firstn (N.to_nat (kk x - kt_len x)) ts).

(** ** Abstraction: the denoted sequence *)
Inductive term : Set := Trm (i : N) | Eps | End.

Definition term_eqb (a b : term) : bool :=
  match a, b with
  | Trm i, Trm j => i =? j
  | Eps, Eps => true
  | End, End => true
  | _, _ => false
  end.

(** slot [i] of [x] in base [2^b] *)
Definition digit (b x i : N) : N := N.land (N.shiftr x (i * b)) (N.ones b).

(** decoding of a slot value w.r.t. the all-ones value [mk] *)
Definition decode (mk v : N) : term :=
  if v =? mk then Eps else if v =? 0 then End else Trm v.
(** slot value of a term *)
Definition encode (mk : N) (x : term) : N :=
  match x with Trm i => i | Eps => mk | End => 0 end.
(** what the public API reports ([CompiledTerminal.0]) *)
Definition enc16 (x : term) : N :=
  match x with Trm i => i | Eps => EPS | End => EOI end.

Definition slots (p : packed) : list N :=
  map (fun i => digit (bits p) (t p) (N.of_nat i)) (seq 0 (N.to_nat (next_index p))).

(** well-formedness: a [u128]; 1 <= bits <= 12; length <= 10; payload bits at and above
    [len * bits] (below bit 120) are zero. *)
Definition wfb (p : packed) : bool :=
  (t p <? 2 ^ 128) && (1 <=? bits p) && (bits p <=? MAX_BITS) && (next_index p <=? MAX_K)
  && (N.shiftr (N.land (t p) (N.ones 120)) (next_index p * bits p) =? 0).

Definition denote (p : packed) : option (list term) :=
  if wfb p then Some (map (decode (N.ones (bits p))) (slots p)) else None.

Definition ts_denote (s : tstring) : option (bool * list term) :=
  match denote (ts_inner s) with Some l => Some (ts_tag s, l) | None => None end.
Definition kt_denote (x : ktuple) : option (bool * list term * N) :=
  match ts_denote (terminals x) with Some tl => Some (tl, kk x) | None => None end.
