//! C14 / C17: losslessness of tokens and trees, irrelevance of skipped material, comments once in order.
//! Both real parsers, allow-unmatched alphabet scanner, per-state skip list [z].
use crate::{alpha, c01, c03, c07, gram::*, rng::Rng, rt, Args};
use parol_runtime::parser::LLKParser;
use parol_runtime::LRParser;

static SKIP: &[&[u16]] = &[&[30]];

fn decorate(rng: &mut Rng, s: &[u16]) -> String {
    let seps = [" ", " ", "\n", "\r\n", "\t ", " // c\n", " /* c */ ", " # ", " é ", " z ", "  z z ", " /* a\n b */", " \r", " 9 ", " z\n", " z /* c */ ", "\nz z z "];
    let mut t = String::new();
    if rng.chance(1, 3) { t.push_str(seps[rng.below(seps.len())]); }
    for (i, x) in s.iter().enumerate() {
        if i > 0 { t.push_str(seps[rng.below(seps.len())]); }
        t.push(alpha::letter(*x));
    }
    if rng.chance(1, 2) { t.push_str(seps[rng.below(seps.len())]); }
    // unmatched text as the very last bytes of the input (no whitespace behind it)
    if rng.chance(1, 4) { let tails = ["#", " #", "é", " 9", "\n#", " # é", "z #", " /* c */#"]; t.push_str(tails[rng.below(tails.len())]); }
    t
}

enum P<'a> { LL(&'a c01::Parts), LR(&'a c03::Built) }

fn run_one(p: &P, text: &str) -> (String, String, String, String) {
    // verdict, actions, events (all tokens), comments
    let r = std::panic::catch_unwind(|| {
        let mut acts = rt::Actions::default();
        let (res, ev) = match p {
            P::LL(pp) => {
                let mut parser = LLKParser::new(pp.start, pp.automata, pp.productions, rt::terminal_names(), pp.names);
                parser.disable_recovery();
                let mut rec = rt::Recorder::new(pp.names);
                let ts = alpha::stream_au(text, pp.k, SKIP);
                let res = parser.parse_into(&mut rec, ts, &mut acts);
                (res, rec.sx())
            }
            P::LR(b) => {
                let (start, table, prods, names) = b.parser_parts;
                let mut parser = LRParser::new(start, table, prods, rt::terminal_names(), names);
                let mut rec = rt::Recorder::new(names);
                let ts = alpha::stream_au(text, 1, SKIP);
                let res = parser.parse_into(&mut rec, ts, &mut acts);
                (res, rec.sx())
            }
        };
        let v = match res { Ok(()) => "ok".to_string(), Err(e) => format!("(err {})", rt::err_kind(&e)) };
        let cm = format!("({})", acts.comments.iter().map(|(t, s)| format!("({t} {s})")).collect::<Vec<_>>().join(" "));
        (v, acts.sx_full(), ev, cm)
    });
    r.unwrap_or_else(|_| ("panic".into(), "()".into(), "()".into(), "()".into()))
}

fn case(kind: &str, p: &P, rng: &mut Rng, s: &[u16]) -> String {
    let text = decorate(rng, s);
    case_text(kind, p, s, text)
}

fn case_text(kind: &str, p: &P, s: &[u16], text: String) -> String {
    let plain = alpha::render(s);
    let (v, a, e, c) = run_one(p, &text);
    let (pv, pa, _, _) = run_one(p, &plain);
    let ms = alpha::matches_au(&text);
    let ms_sx = ms.iter().map(|(t, s, e)| format!("({t} {s} {e})")).collect::<Vec<_>>().join(" ");
    format!("(lossless {} {} {} ({}) {} {} {} {} {} {})", kind, crate::sx::s(&text), text.len(), ms_sx, v, a, e, c, pv, pa)
}

pub fn run(a: &Args) {
    let mut rng = Rng::new(a.seed ^ ((a.shard as u64) << 32) ^ 0xC14);
    if a.shard == 0 {
        // corpus: a grammar without alternatives (MAX_K = 0) and a text that ends in unmatched characters
        let g = G { names: vec![nt_name(0)], start: 0, prods: vec![(0, vec![Sy::T(5), Sy::T(6)])] };
        if let Ok(b) = c07::build_ll(&g, 3) {
            let parts = c01::parts(&b);
            println!("{}", case_text("ll-k0", &P::LL(&parts), &[5, 6], "a b #".to_string()));
            println!("{}", case_text("ll-k0", &P::LL(&parts), &[5, 6], "a b\n# ".to_string()));
        }
    }
    for i in 0..a.n {
        if i % 2 == 0 {
            let g = c07::ll_grammar(&mut rng, i / 2);
            if let Ok(b) = c07::build_ll(&g, 3) {
                let parts = c01::parts(&b);
                let p = P::LL(&parts);
                for _ in 0..4 {
                    if let Some(s) = random_sentence(&mut rng, &b.g2, 12) {
                        if s.len() <= 16 && s.iter().all(|t| *t >= 5 && *t < 30) {
                            let s2 = if rng.chance(1, 4) { mutate(&mut rng, &s, 3).into_iter().filter(|t| *t >= 5 && *t < 30).collect() } else { s };
                            println!("{}", case("ll", &p, &mut rng, &s2));
                        }
                    }
                }
            }
        } else {
            let d = Dials { max_nts: 3, max_terms: 3, max_alts: 3, max_rhs: 3, eps_pct: 15, nt_pct: 45 };
            let g = random_clean(&mut rng, &d, false);
            if is_acyclic(&g) {
                if let Ok(b) = c03::build(&g) {
                    let p = P::LR(&b);
                    for _ in 0..4 {
                        if let Some(s) = random_sentence(&mut rng, &g, 12) {
                            if s.len() <= 16 {
                                let s2 = if rng.chance(1, 4) { mutate(&mut rng, &s, 3).into_iter().filter(|t| *t >= 5 && *t < 30).collect() } else { s };
                                println!("{}", case("lr", &p, &mut rng, &s2));
                            }
                        }
                    }
                }
            }
        }
    }
}

/// no non-terminal derives itself (A =>+ A): such LR grammars make the table generator panic or the parser loop
fn is_acyclic(g: &G) -> bool {
    let n = g.names.len();
    let nul = nullable_set(g);
    let mut r = vec![vec![false; n]; n];
    for (l, rhs) in &g.prods {
        for (i, y) in rhs.iter().enumerate() {
            if let Sy::N(b) = y {
                let others_nullable = rhs.iter().enumerate().all(|(j, z)| j == i || matches!(z, Sy::N(c) if nul[*c]));
                if others_nullable { r[*l][*b] = true; }
            }
        }
    }
    for k in 0..n { for i in 0..n { for j in 0..n { if r[i][k] && r[k][j] { r[i][j] = true; } } } }
    (0..n).all(|i| !r[i][i])
}
