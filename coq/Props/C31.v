(** Property C31 — Recovery edit scripts are minimal and correct.
    This file contains only the pinned statements; proofs live in Runtime/Levenshtein.v. *)
From Coq Require Import List NArith.
From Parol Require Import Runtime.Levenshtein.
Import ListNotations.

(** Any answer [(d, ops)] accepted by the executable checker is a correct, minimal edit
    script: applying it the way [adjust_token_stream] does turns [act] into [exp], its number of
    non-keep operations is [d], and no alignment of [act] with [exp] is cheaper. *)
Theorem C31_checker_sound : forall act exp d ops,
  lev_check act exp d ops = true ->
  apply_ops ops [] act exp = Some exp /\
  cost ops = d /\
  (forall ops', script_ok ops' act exp = true -> d <= cost ops').
Proof. exact lev_check_sound. Qed.

(** The distance used by the checker is the textbook recurrence, and it is a lower bound
    for every alignment. *)
Theorem C31_dist_is_D : forall act exp, dist act exp = D act exp.
Proof. exact dist_spec. Qed.

Theorem C31_D_minimal : forall ops act exp,
  script_ok ops act exp = true -> D act exp <= cost ops.
Proof. exact D_minimal. Qed.

(** Non-vacuity: a concrete non-trivial instance passes the checker. *)
Example C31_nonvacuous :
  lev_check [5; 6; 7; 8]%N [5; 7; 9; 8; 8]%N 2 [Keep; Delete; Keep; Replace; Keep; Insert] = false /\
  lev_check [5; 6; 7; 8]%N [5; 7; 9; 8]%N 2 [Keep; Delete; Keep; Insert; Keep] = true.
Proof. split; vm_compute; reflexivity. Qed.

(** The faithful model of [Recovery::levenshtein_distance] (matrix fill with the Delete >
    Insert > Replace tie-break, back-tracking) — Runtime/LevFaithful.v — always produces an
    answer that passes the checker, hence is a correct minimal script, for ALL inputs. *)
From Parol Require Import Runtime.LevFaithful.

Theorem C31_model_passes_check : forall act exp,
  let '(d, ops) := lev act exp in lev_check act exp d ops = true.
Proof. exact lev_passes_check. Qed.

Theorem C31_model_correct : forall act exp d ops, lev act exp = (d, ops) ->
  apply_ops ops [] act exp = Some exp /\ cost ops = d /\
  (forall ops', script_ok ops' act exp = true -> d <= cost ops').
Proof. exact lev_correct. Qed.
