(** * Nullable, productive, reachable and left-recursive non-terminals (spec level, property C11).

    These are the mathematical definitions that parol's grammar checks
    ([calculate_nullable_non_terminals], [non_productive_non_terminals],
    [reachable_non_terminals], [detect_left_recursive_non_terminals]) are compared against in
    [Analysis/WellFormed.v].  Everything here is a [Prop] over [Grammar.Cfg]; nothing is
    executable. *)
From Coq Require Import List NArith Bool Lia Relations.
From Parol Require Import Grammar.Cfg.
Import ListNotations.

(** ** Definitions *)

(** [a] derives the empty word. *)
Definition nullable (g : cfg) (a : N) : Prop := derives g [NT a] [].

(** [a] derives some terminal word. *)
Definition productive (g : cfg) (a : N) : Prop := exists w, derives g [NT a] w.

(** [b] occurs in the right-hand side of a production of [a]. *)
Definition occurs_in (g : cfg) (a b : N) : Prop :=
  exists p, In p (prods g) /\ lhs p = a /\ In (NT b) (rhs p).

(** Reflexive-transitive closure of [occurs_in], from the start symbol. *)
Definition reachable (g : cfg) (a : N) : Prop := clos_refl_trans N (occurs_in g) (start g) a.

(** Every symbol of [α] is a nullable non-terminal. *)
Definition all_nullable (g : cfg) (α : list sym) : Prop :=
  forall s, In s α -> exists b, s = NT b /\ nullable g b.

(** [a ::= α b β] with [α] consisting of nullable non-terminals only ("a can start with b"). *)
Definition left_step (g : cfg) (a b : N) : Prop :=
  exists p α β, In p (prods g) /\ lhs p = a /\ rhs p = α ++ NT b :: β /\ all_nullable g α.

(** [a] lies on a cycle of [left_step]. *)
Definition left_rec (g : cfg) (a : N) : Prop := clos_trans N (left_step g) a a.

(** ** Membership in the non-terminal set of the grammar *)

Lemma in_rhs_nts b r : In b (rhs_nts r) <-> In (NT b) r.
Proof.
  unfold rhs_nts. rewrite in_flat_map. split.
  - intros (s & Hs & Hb). destruct s as [t|a]; simpl in Hb; [contradiction|].
    destruct Hb as [->|[]]. exact Hs.
  - intros H. exists (NT b). split; [exact H|simpl; auto].
Qed.

Lemma lhs_in_nts g p : In p (prods g) -> In (lhs p) (nts g).
Proof.
  intros Hp. unfold nts. right. apply in_flat_map. exists p. split; [exact Hp|simpl; auto].
Qed.

Lemma rhs_in_nts g p b : In p (prods g) -> In (NT b) (rhs p) -> In b (nts g).
Proof.
  intros Hp Hb. unfold nts. right. apply in_flat_map. exists p. split; [exact Hp|].
  simpl. right. apply in_rhs_nts. exact Hb.
Qed.

Lemma start_in_nts g : In (start g) (nts g).
Proof. unfold nts. left. reflexivity. Qed.

Lemma in_nts_inv g a :
  In a (nts g) ->
  a = start g \/ (exists p, In p (prods g) /\ (lhs p = a \/ In (NT a) (rhs p))).
Proof.
  unfold nts. intros [H|H]; [left; congruence|right].
  apply in_flat_map in H as (p & Hp & Ha). exists p. split; [exact Hp|].
  destruct Ha as [Ha|Ha]; [left; exact Ha|right; apply in_rhs_nts; exact Ha].
Qed.

(** ** Nullable *)

Lemma derives_nil_iff g α : derives g α [] <-> all_nullable g α.
Proof.
  split.
  - induction α as [|s α IH]; intros H x Hx; [destruct Hx|].
    destruct s as [t|a].
    + inversion H.
    + apply derives_cons_NT in H as (u & v & Huv & Hu & Hv).
      symmetry in Huv. apply app_eq_nil in Huv as [-> ->].
      destruct Hx as [<-|Hx]; [exists a; split; [reflexivity|exact Hu]|].
      apply IH; assumption.
  - induction α as [|s α IH]; intros H; [constructor|].
    destruct (H s (or_introl eq_refl)) as (b & -> & Hb).
    apply derives_cons_NT. exists [], []. split; [reflexivity|]. split; [exact Hb|].
    apply IH. intros x Hx. apply H. right. exact Hx.
Qed.

Lemma nullable_step g a :
  nullable g a <-> exists p, In p (prods g) /\ lhs p = a /\ all_nullable g (rhs p).
Proof.
  unfold nullable. rewrite derives_single. split; intros (p & Hp & Hl & H); exists p;
    (split; [exact Hp|split; [exact Hl|apply derives_nil_iff; exact H]]).
Qed.

Lemma nullable_in_nts g a : nullable g a -> In a (nts g).
Proof. intros H. apply nullable_step in H as (p & Hp & <- & _). apply lhs_in_nts. exact Hp. Qed.

Lemma nullable_productive g a : nullable g a -> productive g a.
Proof. intros H. exists []. exact H. Qed.

(** ** Productive *)

Lemma derives_parts g α w :
  derives g α w -> forall b, In (NT b) α -> productive g b.
Proof.
  induction 1 as [|t α w H IH|a p α u v Hin Hl Hr _ Ha IH]; intros b Hb.
  - destruct Hb.
  - destruct Hb as [Hb|Hb]; [discriminate|]. apply IH. exact Hb.
  - destruct Hb as [Hb|Hb].
    + inversion Hb; subst. exists u. apply derives_single. exists p. auto.
    + apply IH. exact Hb.
Qed.

Lemma derives_exists g α :
  (forall b, In (NT b) α -> productive g b) -> exists w, derives g α w.
Proof.
  induction α as [|s α IH]; intros H.
  - exists []. constructor.
  - destruct IH as (v & Hv). { intros b Hb. apply H. right. exact Hb. }
    destruct s as [t|a].
    + exists (t :: v). constructor. exact Hv.
    + destruct (H a (or_introl eq_refl)) as (u & Hu).
      exists (u ++ v). apply derives_cons_NT. exists u, v. auto.
Qed.

Lemma productive_step g a :
  productive g a <->
  exists p, In p (prods g) /\ lhs p = a /\ forall b, In (NT b) (rhs p) -> productive g b.
Proof.
  split.
  - intros (w & H). apply derives_single in H as (p & Hp & Hl & H).
    exists p. split; [exact Hp|split; [exact Hl|]]. apply (derives_parts _ _ _ H).
  - intros (p & Hp & Hl & H). apply derives_exists in H as (w & Hw).
    exists w. apply derives_single. exists p. auto.
Qed.

Lemma productive_in_nts g a : productive g a -> In a (nts g).
Proof. intros H. apply productive_step in H as (p & Hp & <- & _). apply lhs_in_nts. exact Hp. Qed.

(** A non-terminal without productions is unproductive. *)
Lemma no_prods_unproductive g a : prods_of g a = [] -> ~ productive g a.
Proof.
  intros He H. apply productive_step in H as (p & Hp & Hl & _).
  assert (Hi : In p (prods_of g a)) by (apply in_prods_of; auto).
  rewrite He in Hi. destruct Hi.
Qed.

(** ** Reachable *)

Lemma occurs_in_nts g a b : occurs_in g a b -> In a (nts g) /\ In b (nts g).
Proof.
  intros (p & Hp & <- & Hb). split; [apply lhs_in_nts; exact Hp|eapply rhs_in_nts; eauto].
Qed.

Lemma reachable_start g : reachable g (start g).
Proof. apply rt_refl. Qed.

Lemma reachable_step g a b : reachable g a -> occurs_in g a b -> reachable g b.
Proof. intros Ha Hab. eapply rt_trans; [exact Ha|apply rt_step; exact Hab]. Qed.

(** Induction principle: [reachable] is the least set containing the start symbol and closed
    under [occurs_in]. *)
Lemma reachable_ind' g (P : N -> Prop) :
  P (start g) -> (forall a b, reachable g a -> P a -> occurs_in g a b -> P b) ->
  forall a, reachable g a -> P a.
Proof.
  intros H0 Hs a Ha. unfold reachable in Ha. apply clos_rt_rtn1 in Ha.
  induction Ha as [|b c Hbc Hab IH]; [exact H0|].
  apply (Hs b c); [apply clos_rtn1_rt; exact Hab|exact IH|exact Hbc].
Qed.

Lemma reachable_in_nts g a : reachable g a -> In a (nts g).
Proof.
  intros H. induction H using reachable_ind'.
  - apply start_in_nts.
  - eapply occurs_in_nts; eauto.
Qed.

(** ** Left recursion *)

Lemma left_step_in_nts g a b : left_step g a b -> In a (nts g) /\ In b (nts g).
Proof.
  intros (p & α & β & Hp & <- & Hr & _). split; [apply lhs_in_nts; exact Hp|].
  apply (rhs_in_nts g p); [exact Hp|]. rewrite Hr. apply in_or_app. right. left. reflexivity.
Qed.

Lemma left_trans_in_nts g a b : clos_trans N (left_step g) a b -> In a (nts g) /\ In b (nts g).
Proof.
  induction 1 as [a b H|a b c _ [Ha _] _ [_ Hc]]; [eapply left_step_in_nts; eauto|auto].
Qed.

Lemma left_rec_in_nts g a : left_rec g a -> In a (nts g).
Proof. intros H. apply left_trans_in_nts in H. apply H. Qed.

(** Direct left recursion is the special case of a one-step cycle. *)
Lemma direct_left_rec g p β : In p (prods g) -> rhs p = NT (lhs p) :: β -> left_rec g (lhs p).
Proof.
  intros Hp Hr. apply t_step. exists p, [], β. repeat split; auto. intros s [].
Qed.

(** ** Left recursion in terms of leftmost derivations of sentential forms

    [lm_step g σ σ']: [σ'] results from [σ] by replacing the leftmost non-terminal of [σ] by the
    right-hand side of one of its productions.  [a] is left recursive iff [a ⇒⁺ a γ] by
    leftmost steps. *)
Inductive lm_step (g : cfg) : list sym -> list sym -> Prop :=
| lm_intro u a p δ : In p (prods g) -> lhs p = a ->
    lm_step g (map T u ++ NT a :: δ) (map T u ++ rhs p ++ δ).

Lemma lm_step_head g a p δ : In p (prods g) -> lhs p = a -> lm_step g (NT a :: δ) (rhs p ++ δ).
Proof. intros Hp Hl. apply (lm_intro g [] a p δ Hp Hl). Qed.

Lemma lm_step_app g σ σ' δ : lm_step g σ σ' -> lm_step g (σ ++ δ) (σ' ++ δ).
Proof.
  intros H. destruct H as [u a p δ0 Hp Hl].
  rewrite <- !app_assoc. simpl. constructor; assumption.
Qed.

Lemma lm_rt_app g σ σ' δ :
  clos_refl_trans _ (lm_step g) σ σ' -> clos_refl_trans _ (lm_step g) (σ ++ δ) (σ' ++ δ).
Proof.
  induction 1 as [x y H|x|x y z _ IH1 _ IH2].
  - apply rt_step. apply lm_step_app. exact H.
  - apply rt_refl.
  - eapply rt_trans; eauto.
Qed.

Lemma lm_t_app g σ σ' δ :
  clos_trans _ (lm_step g) σ σ' -> clos_trans _ (lm_step g) (σ ++ δ) (σ' ++ δ).
Proof.
  induction 1 as [x y H|x y z _ IH1 _ IH2].
  - apply t_step. apply lm_step_app. exact H.
  - eapply t_trans; eauto.
Qed.

(** A form that derives the empty word can be erased by leftmost steps. *)
Lemma lm_erase g α w :
  derives g α w -> w = [] -> forall δ, clos_refl_trans _ (lm_step g) (α ++ δ) δ.
Proof.
  induction 1 as [|t α w H IH|a p α u v Hin Hl Hr IHr Ha IHa]; intros Hw δ.
  - apply rt_refl.
  - discriminate.
  - apply app_eq_nil in Hw as [-> ->]. simpl.
    eapply rt_trans; [apply rt_step; apply (lm_step_head g a p); assumption|].
    eapply rt_trans; [apply IHr; reflexivity|apply IHa; reflexivity].
Qed.

Lemma left_step_lm g a b : left_step g a b -> exists γ, clos_trans _ (lm_step g) [NT a] (NT b :: γ).
Proof.
  intros (p & α & β & Hp & Hl & Hr & Hn). exists β.
  apply derives_nil_iff in Hn.
  assert (H1 : lm_step g [NT a] (rhs p ++ [])) by (apply lm_step_head; assumption).
  rewrite app_nil_r, Hr in H1.
  pose proof (lm_erase g α [] Hn eq_refl (NT b :: β)) as H2.
  apply clos_rt_rtn1 in H2.
  remember (α ++ NT b :: β) as σ0 eqn:E0. clear E0.
  remember (NT b :: β) as τ eqn:E1. clear E1.
  induction H2 as [|y z Hyz _ IH]; [apply t_step; exact H1|].
  eapply t_trans; [exact IH|apply t_step; exact Hyz].
Qed.

Lemma left_trans_lm g a b :
  clos_trans N (left_step g) a b -> exists γ, clos_trans _ (lm_step g) [NT a] (NT b :: γ).
Proof.
  induction 1 as [a b H|a b c _ (γ1 & H1) _ (γ2 & H2)].
  - apply left_step_lm. exact H.
  - exists (γ2 ++ γ1). eapply t_trans; [exact H1|].
    apply (lm_t_app g [NT b] (NT c :: γ2) γ1). exact H2.
Qed.

Lemma all_nullable_app g α β : all_nullable g (α ++ β) <-> all_nullable g α /\ all_nullable g β.
Proof.
  unfold all_nullable. split.
  - intros H. split; intros s Hs; apply H; apply in_or_app; auto.
  - intros [H1 H2] s Hs. apply in_app_or in Hs as [Hs|Hs]; auto.
Qed.

Lemma app_eq_split {A} (a1 a2 b1 b2 : list A) :
  a1 ++ a2 = b1 ++ b2 ->
  (exists m, b1 = a1 ++ m /\ a2 = m ++ b2) \/ (exists m, a1 = b1 ++ m /\ b2 = m ++ a2).
Proof.
  revert b1. induction a1 as [|x a1 IH]; intros b1 H; simpl in H.
  - left. exists b1. auto.
  - destruct b1 as [|y b1]; simpl in H.
    + right. exists (x :: a1). auto.
    + inversion H as [[Hxy H']]. subst y. destruct (IH _ H') as [(m & -> & ->)|(m & -> & ->)].
      * left. exists m. auto.
      * right. exists m. auto.
Qed.

(** Key invariant: a form from which leftmost steps reach [c γ] has the shape
    [α1 ++ b :: α2] with [α1] nullable and [b] equal to [c] or leading to [c] by [left_step]s. *)
Lemma lm_reaches_head g σ τ :
  clos_refl_trans _ (lm_step g) σ τ -> forall c γ, τ = NT c :: γ ->
  exists α1 b α2, σ = α1 ++ NT b :: α2 /\ all_nullable g α1 /\
                  clos_refl_trans N (left_step g) b c.
Proof.
  intros H. apply clos_rt_rt1n in H.
  induction H as [σ|σ σ' τ Hstep _ IH]; intros c γ Hτ.
  - exists [], c, γ. split; [exact Hτ|]. split; [intros s []|apply rt_refl].
  - destruct (IH c γ Hτ) as (α1 & b & α2 & Hσ' & Hn & Hbc).
    destruct Hstep as [u a p δ Hp Hl].
    destruct u as [|t u].
    2:{ exfalso. simpl in Hσ'. destruct α1 as [|s α1]; simpl in Hσ'; [discriminate|].
        inversion Hσ' as [[Hs _]]. destruct (Hn s (or_introl eq_refl)) as (b' & Hb' & _).
        congruence. }
    simpl in Hσ' |- *.
    destruct (app_eq_split _ _ _ _ Hσ') as [(m & Hα1 & Hδ)|(m & Hr & Hm)].
    + (* the whole right-hand side is inside the nullable prefix *)
      subst α1. apply all_nullable_app in Hn as [Hn1 Hn2].
      exists (NT a :: m), b, α2. split; [simpl; congruence|]. split; [|exact Hbc].
      intros s [<-|Hs]; [|apply Hn2; exact Hs].
      exists a. split; [reflexivity|]. apply nullable_step. exists p. auto.
    + destruct m as [|s m]; simpl in Hm.
      * (* boundary case: same as above with m = [] *)
        rewrite app_nil_r in Hr. subst α1.
        exists [NT a], b, α2. split; [simpl; congruence|]. split; [|exact Hbc].
        intros s [<-|[]]. exists a. split; [reflexivity|]. apply nullable_step. exists p. auto.
      * inversion Hm as [[Hs Hm']]. subst s.
        exists [], a, δ. split; [reflexivity|]. split; [intros s []|].
        eapply rt_trans; [apply rt_step|exact Hbc].
        exists p, α1, m. auto.
Qed.

Lemma left_step_rt_t g x b c :
  left_step g x b -> clos_refl_trans N (left_step g) b c -> clos_trans N (left_step g) x c.
Proof.
  intros Hab Hbc. apply clos_rt_rtn1 in Hbc.
  induction Hbc as [|y z Hyz _ IH]; [apply t_step; exact Hab|].
  eapply t_trans; [exact IH|apply t_step; exact Hyz].
Qed.

Theorem leftrec_iff_derivation g a :
  left_rec g a <-> exists γ, clos_trans _ (lm_step g) [NT a] (NT a :: γ).
Proof.
  split; [apply left_trans_lm|].
  intros (γ & H). apply clos_trans_t1n in H.
  inversion H as [y Hstep Hy|y z Hstep Hrest Hz]; subst.
  - (* one step *)
    inversion Hstep as [u a' p δ Hp Hl Hu Hv].
    destruct u as [|t u]; [|discriminate]. simpl in Hu. inversion Hu; subst.
    simpl in Hv. rewrite app_nil_r in Hv.
    apply t_step. exists p, [], γ. repeat split; auto. intros s [].
  - apply clos_t1n_trans in Hrest.
    assert (Hrt : clos_refl_trans _ (lm_step g) y (NT a :: γ)).
    { clear -Hrest. induction Hrest as [x y H|x y z _ IH1 _ IH2];
        [apply rt_step; exact H|eapply rt_trans; eauto]. }
    destruct (lm_reaches_head g _ _ Hrt a γ eq_refl) as (α1 & b & α2 & Hy & Hn & Hba).
    inversion Hstep as [u a' p δ Hp Hl Hu Hv].
    destruct u as [|t u]; [|discriminate]. simpl in Hu. inversion Hu; subst.
    simpl in Hv. rewrite app_nil_r in Hv.
    assert (Hab : left_step g (lhs p) b) by (exists p, α1, α2; rewrite <- Hv; auto).
    apply (left_step_rt_t g _ b _ Hab Hba).
Qed.

Print Assumptions leftrec_iff_derivation.
